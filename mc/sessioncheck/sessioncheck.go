// Package sessioncheck inspects the REAL scheduler session from inside (monitor plugin / probe
// points): a canonical dump of the scheduler's view (C13) and ground-truth recomputation of its
// accounting from the pods and their statuses (C14).
package sessioncheck

import (
	"fmt"
	"math"
	"sort"
	"strings"

	corev1 "k8s.io/api/core/v1"
	resourceapi "k8s.io/api/resource/v1"

	"github.com/NVIDIA/KAI-scheduler/pkg/scheduler/api/common_info"
	"github.com/NVIDIA/KAI-scheduler/pkg/scheduler/api/node_info"
	"github.com/NVIDIA/KAI-scheduler/pkg/scheduler/api/pod_info"
	"github.com/NVIDIA/KAI-scheduler/pkg/scheduler/api/pod_status"
	"github.com/NVIDIA/KAI-scheduler/pkg/scheduler/api/podgroup_info"
	"github.com/NVIDIA/KAI-scheduler/pkg/scheduler/api/resource_info"
	"github.com/NVIDIA/KAI-scheduler/pkg/scheduler/framework"
	rs "github.com/NVIDIA/KAI-scheduler/pkg/scheduler/plugins/proportion/resource_share"
	putils "github.com/NVIDIA/KAI-scheduler/pkg/scheduler/plugins/proportion/utils"

	"verif/mc/world"
)

const eps = 1e-6

type Problem struct {
	Key string // stable class
	Msg string
}

func near(a, b float64) bool { return math.Abs(a-b) <= eps*(1+math.Abs(a)+math.Abs(b)) }

func resStr(r *resource_info.Resource) string { return r.DetailedString() }

func vecStr(v resource_info.ResourceVector) string {
	parts := make([]string, len(v))
	for i := range v {
		parts[i] = fmt.Sprintf("%.4f", v[i])
	}
	return "[" + strings.Join(parts, " ") + "]"
}

func vecEq(a, b resource_info.ResourceVector) bool {
	n := len(a)
	if len(b) > n {
		n = len(b)
	}
	for i := 0; i < n; i++ {
		var x, y float64
		if i < len(a) {
			x = a[i]
		}
		if i < len(b) {
			y = b[i]
		}
		if !near(x, y) {
			return false
		}
	}
	return true
}

func taskLine(t *pod_info.PodInfo) string {
	gs := append([]string{}, t.GPUGroups...)
	sort.Strings(gs)
	// ResourceClaimInfo: pod-level claim name -> devices (what a BindRequest of this task would carry)
	claims := []string{}
	for k, c := range t.ResourceClaimInfo {
		alloc := "nil"
		if c != nil {
			alloc = world.AllocationString(c.Allocation)
			if c.Name != k {
				alloc += "(name=" + c.Name + ")"
			}
		}
		claims = append(claims, k+"="+alloc)
	}
	sort.Strings(claims)
	recv := string(t.ResourceReceivedType)
	virtual := fmt.Sprint(t.IsVirtualStatus)
	if (t.Status == pod_status.Pending || t.Status == pod_status.Gated) && t.NodeName == "" {
		// a pending task's device choice / received type are scratch values: every allocation
		// attempt overwrites them before they are read. Its virtual flag is scratch as well: the one
		// statement path that leaves it set on an unplaced pending task is the undo of a job's
		// allocated-to-pipelined conversion (ConvertAllAllocatedToPipelined un-allocates with
		// previousIsVirtualStatus=true, the pipeline operation then records that value), which the
		// allocate action — the only caller — never discards unless the conversion itself failed; its
		// only reader for a non-allocated task is the storage-claim predicate (CSI scheduling is off in
		// every harness configuration). First exercised non-trivially by the dra-claims base.
		gs, recv, virtual = nil, "", "n/a"
	}
	return fmt.Sprintf("%s st=%s node=%s groups=%v virtual=%s recv=%s claims=%v", t.Name, t.Status, t.NodeName, gs, virtual, recv, claims)
}

func mapStr(m map[string]int64) string {
	ks := []string{}
	for k, v := range m {
		if v != 0 {
			ks = append(ks, fmt.Sprintf("%s=%d", k, v))
		}
	}
	sort.Strings(ks)
	return "{" + strings.Join(ks, ",") + "}"
}

// Dump is the canonical form of the scheduler's in-session view: nodes (counters, pods present,
// sharing maps), workloads (per task status/node/groups/virtual flag/claims, counters) and queue
// usage. Random GPU-group ids are kept verbatim (a what-if that is undone must restore them).
func Dump(ssn *framework.Session) string {
	var sb strings.Builder
	nodes := []string{}
	for n := range ssn.ClusterInfo.Nodes {
		nodes = append(nodes, n)
	}
	sort.Strings(nodes)
	for _, name := range nodes {
		ni := ssn.ClusterInfo.Nodes[name]
		fmt.Fprintf(&sb, "N %s idle=%s used=%s rel=%s | idleV=%s usedV=%s relV=%s\n", name, resStr(ni.Idle), resStr(ni.Used), resStr(ni.Releasing),
			vecStr(ni.IdleVector), vecStr(ni.UsedVector), vecStr(ni.ReleasingVector))
		rel := []string{}
		for g, v := range ni.ReleasingSharedGPUs {
			if v {
				rel = append(rel, g)
			}
		}
		sort.Strings(rel)
		fmt.Fprintf(&sb, "  sharing used=%s alloc=%s rel=%s relGPUs=%v\n", mapStr(ni.UsedSharedGPUsMemory), mapStr(ni.AllocatedSharedGPUsMemory), mapStr(ni.ReleasingSharedGPUsMemory), rel)
		pods := []string{}
		for _, p := range ni.PodInfos {
			gs := append([]string{}, p.GPUGroups...)
			sort.Strings(gs)
			pods = append(pods, fmt.Sprintf("%s/%s st=%s groups=%v", p.Namespace, p.Name, p.Status, gs))
		}
		sort.Strings(pods)
		for _, p := range pods {
			fmt.Fprintf(&sb, "  P %s\n", p)
		}
	}
	jobs := []string{}
	for j := range ssn.ClusterInfo.PodGroupInfos {
		jobs = append(jobs, string(j))
	}
	sort.Strings(jobs)
	for _, jn := range jobs {
		j := ssn.ClusterInfo.PodGroupInfos[podgroupID(jn)]
		idx := []string{}
		for st, m := range j.PodStatusIndex {
			if len(m) > 0 {
				idx = append(idx, fmt.Sprintf("%s:%d", st, len(m)))
			}
		}
		sort.Strings(idx)
		fmt.Fprintf(&sb, "J %s alloc=%s allocV=%s idx=%v active=%d\n", jn, resStr(j.Allocated), vecStr(j.AllocatedVector), idx, j.GetActiveAllocatedTasksCount())
		psn := []string{}
		for n := range j.PodSets {
			psn = append(psn, n)
		}
		sort.Strings(psn)
		for _, n := range psn {
			ps := j.PodSets[n]
			fmt.Fprintf(&sb, "  PS %s activeAlloc=%d activeUsed=%d alive=%d pending=%d gated=%d n=%d\n", n, ps.GetNumActiveAllocatedTasks(), ps.GetNumActiveUsedTasks(), ps.GetNumAliveTasks(), ps.GetNumPendingTasks(), ps.GetNumGatedTasks(), len(ps.GetPodInfos()))
		}
		ts := []string{}
		for _, t := range j.GetAllPodsMap() {
			ts = append(ts, taskLine(t))
		}
		sort.Strings(ts)
		for _, t := range ts {
			fmt.Fprintf(&sb, "  T %s\n", t)
		}
	}
	qs := []string{}
	for q := range ssn.ClusterInfo.Queues {
		qs = append(qs, string(q))
	}
	sort.Strings(qs)
	for _, qn := range qs {
		q := ssn.ClusterInfo.Queues[queueID(qn)]
		a := ssn.QueueAllocatedResources(q)
		if a != nil {
			// QueueAllocatedResources truncates GPU amounts >= 1 to whole GPUs (display helper), which
			// turns floating-point dust into a full GPU: GPUs are printed only below 1 (exact there),
			// cpu / memory always (every pod carries cpu, so unbalanced usage updates still show)
			gpu := "n/a(>=1)"
			if a.GPUs() < 1 {
				gpu = fmt.Sprintf("%.4f", a.GPUs())
			}
			fmt.Fprintf(&sb, "Q %s allocated gpu=%s cpu=%.3f mem=%.0f\n", qn, gpu, a.Cpu(), a.Memory())
		}
	}
	dumpClaims(&sb, ssn)
	return sb.String()
}

func claimLine(c *resourceapi.ResourceClaim) string {
	res := []string{}
	for _, r := range c.Status.ReservedFor {
		res = append(res, r.Resource+"/"+r.Name+"#"+string(r.UID))
	}
	sort.Strings(res)
	return fmt.Sprintf("%s/%s alloc=%s reservedFor=%v", c.Namespace, c.Name, world.AllocationString(c.Status.Allocation), res)
}

// dumpClaims writes the scheduler's view of resource claims: the snapshot list of the session
// ("CS" lines) and, when Dynamic Resource Allocation is on, the live claim view the
// dynamicresources plugin allocates from — the shared DRA manager's claims with the session's
// virtual allocations / de-allocations assumed on top ("C" lines), its index of allocated devices
// ("CD") and the claims with an allocation in flight ("CP"). Nothing is written (and the DRA
// manager is not touched) when the feature is off.
func dumpClaims(sb *strings.Builder, ssn *framework.Session) {
	snap := []string{}
	for _, c := range ssn.ClusterInfo.ResourceClaims {
		snap = append(snap, claimLine(c))
	}
	sort.Strings(snap)
	for _, l := range snap {
		fmt.Fprintf(sb, "CS %s\n", l)
	}
	plugins := ssn.InternalK8sPlugins()
	if plugins == nil || !plugins.Features.EnableDynamicResourceAllocation || plugins.FrameworkHandle == nil {
		return
	}
	mgr := plugins.FrameworkHandle.SharedDRAManager()
	if mgr == nil {
		return
	}
	claims, err := mgr.ResourceClaims().List()
	if err != nil {
		fmt.Fprintf(sb, "C error: %v\n", err)
		return
	}
	live, pending := []string{}, []string{}
	for _, c := range claims {
		live = append(live, claimLine(c))
		if mgr.ResourceClaims().ClaimHasPendingAllocation(c.UID) {
			pending = append(pending, c.Namespace+"/"+c.Name)
		}
	}
	sort.Strings(live)
	sort.Strings(pending)
	for _, l := range live {
		fmt.Fprintf(sb, "C %s\n", l)
	}
	devs, err := mgr.ResourceClaims().ListAllAllocatedDevices()
	if err != nil {
		fmt.Fprintf(sb, "CD error: %v\n", err)
		return
	}
	ds := []string{}
	for d := range devs {
		ds = append(ds, d.String())
	}
	sort.Strings(ds)
	fmt.Fprintf(sb, "CD allocatedDevices=%v\n", ds)
	fmt.Fprintf(sb, "CP pendingAllocations=%v\n", pending)
}

type stubAffinity struct{ name string }

func (s stubAffinity) AddPod(*corev1.Pod)              {}
func (s stubAffinity) RemovePod(*corev1.Pod) error     { return nil }
func (s stubAffinity) HasPodsWithPodAffinity() bool     { return false }
func (s stubAffinity) HasPodsWithPodAntiAffinity() bool { return false }
func (s stubAffinity) Name() string                     { return s.name }

// track mirrors what a task contributes to a node's non-shared counters: its accepted base
// resources and whole GPUs (shared-GPU tasks contribute no GPUs here; reservation pods none).
func trackCPUMem(t *pod_info.PodInfo) (cpu, mem float64) {
	return t.AcceptedResource.Cpu(), t.AcceptedResource.Memory()
}

// Tracker follows Allocate/Deallocate events to know which fractional pods the scheduler has
// evicted from one GPU device and nominated onto ANOTHER device of the same node. For such a pod
// the scheduler deliberately keeps two instances in the node counters (the releasing one on the
// old device and the nominated one on the new device) while its pod map, keyed by pod, holds only
// the nominated one. The tracker supplies the missing releasing instance ("ghost") so that
// ground truth can still be recomputed from pods and statuses.
type Tracker struct {
	lastAllocNode map[string]string          // pod -> node of its last Allocate event
	lastEvict map[string]*pod_info.PodInfo // pod -> copy at eviction time (node, groups)
	ghosts    map[string]*pod_info.PodInfo // pod -> releasing instance still charged on its node
	// a NOMINATION of an already moved pod that a later statement evicted again: the scheduler turns the
	// nominated instance into a releasing one (Pipelined -> Releasing through UpdateTask) and, when it
	// nominates the pod onto yet another device, leaves that releasing instance charged as well
	reEvict  map[string]*pod_info.PodInfo   // pod -> copy of the nominated instance at its eviction
	phantoms map[string][]*pod_info.PodInfo // pod -> evicted nominations still charged as releasing
	// a pod whose nomination was evicted again is evicted TWICE in the cycle; when the second eviction
	// fails at commit (the pod is already gone) the recovery un-evicts a task that a later operation of
	// the same statement has already nominated again: a second Allocate event with no Deallocate in
	// between, i.e. the queues are charged twice
	nominationEvicted map[string]bool
	lastEvent         map[string]string
	doubleAlloc       map[string]int
}

func NewTracker() *Tracker {
	return &Tracker{lastAllocNode: map[string]string{}, lastEvict: map[string]*pod_info.PodInfo{}, ghosts: map[string]*pod_info.PodInfo{},
		reEvict: map[string]*pod_info.PodInfo{}, phantoms: map[string][]*pod_info.PodInfo{},
		nominationEvicted: map[string]bool{}, lastEvent: map[string]string{}, doubleAlloc: map[string]int{}}
}

func sameGroups(a, b []string) bool {
	if len(a) != len(b) {
		return false
	}
	x, y := append([]string{}, a...), append([]string{}, b...)
	sort.Strings(x)
	sort.Strings(y)
	for i := range x {
		if x[i] != y[i] {
			return false
		}
	}
	return true
}

// SawEvictedNomination: did a statement of this cycle evict the NOMINATION of a pod evicted earlier in the
// cycle (open finding "evicted nominations")? Queue usage is then off by that finding's own mechanism.
func (tr *Tracker) SawEvictedNomination() bool { return len(tr.nominationEvicted) > 0 }

func (tr *Tracker) OnDeallocate(t *pod_info.PodInfo) {
	key := t.Namespace + "/" + t.Name
	tr.lastEvent[key] = "dealloc"
	if t.Status == pod_status.Releasing && tr.lastAllocNode[key] == t.NodeName && tr.lastEvict[key] != nil {
		// evicted before, nominated since (last Allocate event on this node), evicted again
		tr.nominationEvicted[key] = true
	}
	if t.Status == pod_status.Releasing {
		// (if the nomination of a moved pod is being undone, the ghost stays until the node's pod map
		// shows the releasing instance again; ghostsOn de-duplicates against the pod map)
		if n, ok := tr.lastAllocNode[key]; ok && n != t.NodeName {
			// not an eviction: the nomination of an already evicted pod onto ANOTHER node is being undone
			// (the event shows the pod back on its own node, releasing - with the groups it had been given on
			// the other node, see the open C13 finding); the record of the eviction itself stays
			return
		}
		if g, moved := tr.ghosts[key]; moved {
			// a later solver of the same cycle evicts the NOMINATED instance of a pod that was already
			// moved to another device: the original releasing instance is still charged on its device,
			// so the record of the first eviction (and the ghost) stays
			if !sameGroups(g.GPUGroups, t.GPUGroups) {
				c := t.Clone()
				c.GPUGroups = append([]string{}, t.GPUGroups...)
				tr.reEvict[key] = c
			}
			return
		}
		c := t.Clone()
		c.GPUGroups = append([]string{}, t.GPUGroups...)
		tr.lastEvict[key] = c
	}
}

func (tr *Tracker) OnAllocate(t *pod_info.PodInfo) {
	key := t.Namespace + "/" + t.Name
	if tr.lastEvent[key] == "alloc" && tr.nominationEvicted[key] {
		tr.doubleAlloc[key]++
	}
	tr.lastEvent[key] = "alloc"
	tr.lastAllocNode[key] = t.NodeName
	if t.Status == pod_status.Pipelined {
		if re, ok := tr.reEvict[key]; ok && re.NodeName == t.NodeName {
			kept := tr.phantoms[key][:0:0]
			for _, ph := range tr.phantoms[key] {
				if !sameGroups(ph.GPUGroups, re.GPUGroups) {
					kept = append(kept, ph)
				}
			}
			if sameGroups(re.GPUGroups, t.GPUGroups) {
				delete(tr.reEvict, key) // the eviction of the nomination was undone (or it was re-nominated in place)
			} else {
				kept = append(kept, re) // nominated onto yet another device: the evicted nomination stays charged
			}
			if len(kept) == 0 {
				delete(tr.phantoms, key)
			} else {
				tr.phantoms[key] = kept
			}
		}
		if ev, ok := tr.lastEvict[key]; ok && ev.NodeName == t.NodeName && t.IsSharedGPUAllocation() && len(t.GPUGroups) > 0 && !sameGroups(ev.GPUGroups, t.GPUGroups) {
			tr.ghosts[key] = ev
		} else if re, ok := tr.reEvict[key]; ok && re.NodeName != t.NodeName && tr.ghosts[key] != nil && tr.ghosts[key].NodeName == re.NodeName {
			// the evicted NOMINATION stays in the old node's pod map as a releasing pod and the original
			// instance stays charged next to it: the ghost stays (ghostsOn de-duplicates against the pod map)
		} else {
			delete(tr.ghosts, key) // nominated in place (same devices) or elsewhere: a single instance
		}
		return
	}
	// un-evicted (or bound again): no pending eviction
	delete(tr.lastEvict, key)
	delete(tr.ghosts, key)
	delete(tr.reEvict, key)
	delete(tr.phantoms, key)
}

func (tr *Tracker) ghostsOn(ni *node_info.NodeInfo) []*pod_info.PodInfo {
	var out []*pod_info.PodInfo
	if tr == nil {
		return nil
	}
	for _, g := range tr.ghosts {
		if g.NodeName != ni.Name {
			continue
		}
		if cur, ok := ni.PodInfos[pod_info.PodKey(g.Pod)]; ok && cur.Status == pod_status.Releasing && sameGroups(cur.GPUGroups, g.GPUGroups) {
			continue // the pod map holds the releasing instance itself
		}
		out = append(out, g)
	}
	return out
}

// phantomsOn: evicted nominations still charged on the node as releasing instances (see Tracker).
func (tr *Tracker) phantomsOn(ni *node_info.NodeInfo) []*pod_info.PodInfo {
	var out []*pod_info.PodInfo
	if tr == nil {
		return nil
	}
	for key, list := range tr.phantoms {
		if _, moved := tr.ghosts[key]; !moved {
			continue
		}
		for _, g := range list {
			if g.NodeName != ni.Name {
				continue
			}
			if cur, ok := ni.PodInfos[pod_info.PodKey(g.Pod)]; ok && cur.Status == pod_status.Releasing && sameGroups(cur.GPUGroups, g.GPUGroups) {
				continue // the pod map holds this releasing instance itself
			}
			out = append(out, g)
		}
	}
	return out
}

// Accounting recomputes ground truth from the pods and their statuses and compares it with what
// the session believes. where names the probe point (for messages only).
func Accounting(ssn *framework.Session, where string, tr *Tracker) []Problem {
	var out []Problem
	add := func(key, format string, args ...any) {
		out = append(out, Problem{Key: key, Msg: where + ": " + fmt.Sprintf(format, args...)})
	}
	vm := ssn.ClusterInfo.ResourceVectorMap

	// ---- nodes
	for name, ni := range ssn.ClusterInfo.Nodes {
		// vector == structured
		for _, pair := range []struct {
			what string
			r    *resource_info.Resource
			v    resource_info.ResourceVector
		}{{"idle", ni.Idle, ni.IdleVector}, {"used", ni.Used, ni.UsedVector}, {"releasing", ni.Releasing, ni.ReleasingVector}, {"allocatable", ni.Allocatable, ni.AllocatableVector}} {
			if !vecEq(pair.r.ToVector(vm), pair.v) {
				add("node-vector-differs what="+pair.what, "node %s %s: structured %s vs vector %s", name, pair.what, vecStr(pair.r.ToVector(vm)), vecStr(pair.v))
			}
		}
		instances := []*pod_info.PodInfo{}
		for _, t := range ni.PodInfos {
			instances = append(instances, t)
		}
		ghosts := tr.ghostsOn(ni)
		instances = append(instances, ghosts...)
		for _, g := range ghosts {
			if cur, ok := ni.PodInfos[pod_info.PodKey(g.Pod)]; ok && cur.Status == pod_status.Releasing && !sameGroups(cur.GPUGroups, g.GPUGroups) {
				// the pod map's releasing instance is an evicted nomination (the original one is the ghost)
				add("evicted-nomination-charged-as-releasing", "node %s: %s was evicted, nominated onto another device, and that NOMINATION was evicted again by a later statement of the same cycle; the node charges the evicted nomination (groups %v) as a releasing pod next to the original instance (groups %v)", name, g.Name, cur.GPUGroups, g.GPUGroups)
			}
		}
		if ph := tr.phantomsOn(ni); len(ph) > 0 {
			// reported under its own key; the instance is then counted the way the scheduler counts it, so
			// that every OTHER deviation on this node is still seen
			add("evicted-nomination-charged-as-releasing", "node %s: %s was evicted, nominated onto another device, and that NOMINATION was evicted again by a later statement of the same cycle; the node keeps charging the evicted nomination (groups %v) as a releasing pod although nothing runs there", name, ph[0].Name, ph[0].GPUGroups)
			instances = append(instances, ph...)
			ghosts = append(ghosts, ph...)
		}
		// closed forms for cpu / memory
		var usedC, usedM, nonPipeC, nonPipeM, relC, relM float64
		shared := false
		for _, t := range instances {
			c, m := trackCPUMem(t)
			usedC += c
			usedM += m
			switch t.Status {
			case pod_status.Pipelined:
				relC -= c
				relM -= m
			case pod_status.Releasing:
				relC += c
				relM += m
				nonPipeC += c
				nonPipeM += m
			default:
				nonPipeC += c
				nonPipeM += m
			}
			if t.IsSharedGPUAllocation() {
				shared = true
			}
		}
		if !near(ni.Used.Cpu(), usedC) || !near(ni.Used.Memory(), usedM) {
			add("node-used-differs", "node %s Used cpu/mem = %.1f/%.0f, recomputed from %d pods = %.1f/%.0f", name, ni.Used.Cpu(), ni.Used.Memory(), len(instances), usedC, usedM)
		}
		if !near(ni.Idle.Cpu(), ni.Allocatable.Cpu()-nonPipeC) || !near(ni.Idle.Memory(), ni.Allocatable.Memory()-nonPipeM) {
			add("node-idle-differs", "node %s Idle cpu/mem = %.1f/%.0f, recomputed = %.1f/%.0f", name, ni.Idle.Cpu(), ni.Idle.Memory(), ni.Allocatable.Cpu()-nonPipeC, ni.Allocatable.Memory()-nonPipeM)
		}
		if !near(ni.Releasing.Cpu(), relC) || !near(ni.Releasing.Memory(), relM) {
			add("node-releasing-differs", "node %s Releasing cpu/mem = %.1f/%.0f, recomputed = %.1f/%.0f", name, ni.Releasing.Cpu(), ni.Releasing.Memory(), relC, relM)
		}
		// per-device memory, closed form
		usedG, allocG, relG := map[string]int64{}, map[string]int64{}, map[string]int64{}
		for _, t := range instances {
			if !t.IsSharedGPUAllocation() {
				continue
			}
			mem := ni.GetResourceGpuMemory(t.ResReq)
			for _, g := range t.GPUGroups {
				usedG[g] += mem
				switch t.Status {
				case pod_status.Releasing:
					relG[g] += mem
					allocG[g] += mem
				case pod_status.Pipelined:
					relG[g] -= mem
				default:
					allocG[g] += mem
				}
			}
		}
		if mapStr(usedG) != mapStr(ni.UsedSharedGPUsMemory) || mapStr(allocG) != mapStr(ni.AllocatedSharedGPUsMemory) || mapStr(relG) != mapStr(ni.ReleasingSharedGPUsMemory) {
			add("node-device-memory-differs", "node %s per-device used/alloc/releasing = %s/%s/%s, recomputed = %s/%s/%s", name,
				mapStr(ni.UsedSharedGPUsMemory), mapStr(ni.AllocatedSharedGPUsMemory), mapStr(ni.ReleasingSharedGPUsMemory), mapStr(usedG), mapStr(allocG), mapStr(relG))
		}
		// whole-GPU counters: closed form without sharers, differential rebuild with sharers
		if !shared {
			var usedGPU, nonPipeGPU, relGPU float64
			for _, t := range instances {
				g := 0.0
				if !pod_info.IsResourceReservationTask(t.Pod) {
					g = t.AcceptedResource.GPUs() + float64(t.AcceptedResource.GetDraGpusCount())
				}
				usedGPU += g
				switch t.Status {
				case pod_status.Pipelined:
					relGPU -= g
				case pod_status.Releasing:
					relGPU += g
					nonPipeGPU += g
				default:
					nonPipeGPU += g
				}
			}
			if !near(ni.Used.GPUs(), usedGPU) || !near(ni.Idle.GPUs(), ni.Allocatable.GPUs()-nonPipeGPU) || !near(ni.Releasing.GPUs(), relGPU) {
				add("node-gpu-counters-differ", "node %s GPUs used/idle/releasing = %.2f/%.2f/%.2f, recomputed = %.2f/%.2f/%.2f", name,
					ni.Used.GPUs(), ni.Idle.GPUs(), ni.Releasing.GPUs(), usedGPU, ni.Allocatable.GPUs()-nonPipeGPU, relGPU)
			}
		} else if len(ghosts) == 0 {
			drifted := false
			a := rebuild(ni, vm, false)
			b := rebuild(ni, vm, true)
			if a != nil && b != nil && near(a.Idle.GPUs(), b.Idle.GPUs()) && near(a.Releasing.GPUs(), b.Releasing.GPUs()) {
				if !near(a.Idle.GPUs(), ni.Idle.GPUs()) || !near(a.Releasing.GPUs(), ni.Releasing.GPUs()) || !near(a.Used.GPUs(), ni.Used.GPUs()) {
					// fingerprint of the device sharers: identifies WHICH configuration drifts. The key carries
					// the direction of the drift and the SET of sharer status classes on the node (the whole-GPU
					// counters of shared devices only drift when a sharer is releasing or nominated); the exact
					// sizes go into the message.
					fp := []string{}
					classes := map[string]bool{}
					for _, t := range ni.PodInfos {
						if t.IsSharedGPUAllocation() {
							fp = append(fp, fmt.Sprintf("%d:%s", ni.GetResourceGpuMemory(t.ResReq), statusClass(t.Status)))
							classes[statusClass(t.Status)] = true
						}
					}
					sort.Strings(fp)
					cl := []string{}
					for c := range classes {
						cl = append(cl, c)
					}
					sort.Strings(cl)
					if len(cl) == 0 {
						cl = []string{"none"}
					}
					drifted = true
					add(fmt.Sprintf("node-gpu-counters-differ-from-rebuild idle%+.0f releasing%+.0f sharer-statuses=%s", ni.Idle.GPUs()-a.Idle.GPUs(), ni.Releasing.GPUs()-a.Releasing.GPUs(), strings.Join(cl, "+")),
						"node %s GPUs used/idle/releasing = %.2f/%.2f/%.2f, a NodeInfo rebuilt from the same %d pods has %.2f/%.2f/%.2f (sharers: %s)", name,
						ni.Used.GPUs(), ni.Idle.GPUs(), ni.Releasing.GPUs(), len(ni.PodInfos), a.Used.GPUs(), a.Idle.GPUs(), a.Releasing.GPUs(), strings.Join(fp, ","))
				}
			}
			// bounds hold regardless (reported only when the comparison above did not already report the
			// node's counters at this point: a negative idle count is then one more symptom of that drift)
			// (only meaningful when the pods themselves do not oversubscribe the node's devices)
			devs := map[string]bool{}
			whole := 0.0
			for _, t := range instances {
				if t.IsSharedGPUAllocation() {
					for _, g := range t.GPUGroups {
						devs[g] = true
					}
				} else if !pod_info.IsResourceReservationTask(t.Pod) && t.Status != pod_status.Pipelined {
					whole += t.AcceptedResource.GPUs()
				}
			}
			if ni.Idle.GPUs() < -eps && whole+float64(len(devs)) <= ni.Allocatable.GPUs()+eps && !drifted {
				add("node-idle-gpus-negative", "node %s Idle GPUs = %.2f", name, ni.Idle.GPUs())
			}
		}
		// pods present == tasks of jobs placed here
		for _, t := range ni.PodInfos {
			if t.Job == "" {
				continue
			}
			j := ssn.ClusterInfo.PodGroupInfos[t.Job]
			if j == nil {
				continue
			}
			jt := j.GetAllPodsMap()[t.UID]
			if jt == nil {
				continue
			}
			if t.Status == pod_status.Releasing && jt.Status == pod_status.Pipelined {
				continue // evicted here and nominated elsewhere (or on another device): two instances by design
			}
			if t.Status == pod_status.Releasing && jt.Status == pod_status.Releasing && jt.NodeName != name &&
				tr != nil && tr.lastAllocNode[jt.Namespace+"/"+jt.Name] == jt.NodeName {
				// evicted here, nominated onto another node, and that nomination was evicted again by a later
				// statement: the node of the nomination charges a releasing pod that never ran there (same
				// finding as the same-node variant above)
				add("evicted-nomination-charged-as-releasing", "node %s: %s was evicted here and nominated onto %s, and that NOMINATION was evicted again by a later statement of the same cycle; %s charges it as a releasing pod although nothing runs there", name, t.Name, jt.NodeName, jt.NodeName)
				continue
			}
			if statusClass(jt.Status) != statusClass(t.Status) || jt.NodeName != name {
				add("node-pod-status-differs", "node %s holds %s as %s, its job says %s on node %q", name, t.Name, t.Status, jt.Status, jt.NodeName)
			}
		}
	}
	for _, j := range ssn.ClusterInfo.PodGroupInfos {
		for _, t := range j.GetAllPodsMap() {
			if pod_status.IsActiveUsedStatus(t.Status) && t.NodeName != "" {
				if ni := ssn.ClusterInfo.Nodes[t.NodeName]; ni != nil {
					_, ghost := map[string]*pod_info.PodInfo{}[""]
					if tr != nil {
						if g, ok := tr.ghosts[t.Namespace+"/"+t.Name]; ok && g.NodeName == t.NodeName {
							ghost = true
						}
					}
					if _, ok := ni.PodInfos[pod_info.PodKey(t.Pod)]; !ok && !ghost {
						add("node-misses-active-pod", "task %s is %s on %s but the node does not hold it", t.Name, t.Status, t.NodeName)
					}
				}
			}
		}
	}

	// ---- workloads
	for _, j := range ssn.ClusterInfo.PodGroupInfos {
		want := resource_info.EmptyResource()
		active := 0
		perStatus := map[pod_status.PodStatus]int{}
		for _, t := range j.GetAllPodsMap() {
			if pod_status.AllocatedStatus(t.Status) {
				want.AddResourceRequirements(t.ResReq)
			}
			if pod_status.IsActiveAllocatedStatus(t.Status) {
				active++
			}
			perStatus[t.Status]++
			if m := j.PodStatusIndex[t.Status]; m == nil || m[t.UID] != t {
				add("job-status-index-differs", "job %s: task %s has status %s but is not indexed under it", j.Name, t.Name, t.Status)
			}
		}
		if !vecEq(want.ToVector(vm), j.Allocated.ToVector(vm)) {
			add("job-allocated-differs", "job %s Allocated = %s, recomputed from task statuses = %s", j.Name, resStr(j.Allocated), resStr(want))
		}
		if len(j.AllocatedVector) > 0 && !vecEq(j.AllocatedVector, j.Allocated.ToVector(vm)) {
			add("job-vector-differs", "job %s Allocated %s vs vector %s", j.Name, vecStr(j.Allocated.ToVector(vm)), vecStr(j.AllocatedVector))
		}
		if j.GetActiveAllocatedTasksCount() != active {
			add("job-active-count-differs", "job %s active allocated count = %d, recomputed = %d", j.Name, j.GetActiveAllocatedTasksCount(), active)
		}
		for st, m := range j.PodStatusIndex {
			if len(m) != perStatus[st] {
				add("job-status-index-differs", "job %s: index[%s] has %d tasks, %d tasks have that status", j.Name, st, len(m), perStatus[st])
			}
		}
		for n, ps := range j.PodSets {
			aa, au, al, pe, ga := 0, 0, 0, 0, 0
			for _, t := range ps.GetPodInfos() {
				if pod_status.IsActiveAllocatedStatus(t.Status) {
					aa++
				}
				if pod_status.IsActiveUsedStatus(t.Status) {
					au++
				}
				if pod_status.IsAliveStatus(t.Status) {
					al++
				}
				if t.Status == pod_status.Pending {
					pe++
				}
				if t.Status == pod_status.Gated {
					ga++
				}
			}
			if aa != ps.GetNumActiveAllocatedTasks() || au != ps.GetNumActiveUsedTasks() || al != ps.GetNumAliveTasks() || pe != ps.GetNumPendingTasks() || ga != ps.GetNumGatedTasks() {
				add("podset-counters-differ", "job %s pod set %s counters activeAlloc/activeUsed/alive/pending/gated = %d/%d/%d/%d/%d, recomputed = %d/%d/%d/%d/%d", j.Name, n,
					ps.GetNumActiveAllocatedTasks(), ps.GetNumActiveUsedTasks(), ps.GetNumAliveTasks(), ps.GetNumPendingTasks(), ps.GetNumGatedTasks(), aa, au, al, pe, ga)
			}
		}
	}

	// ---- queues: allocated (and implicitly non-preemptible) summed up the parent chain
	type qsum struct{ gpu, cpu, mem float64 }
	sums := map[string]*qsum{}
	for _, j := range ssn.ClusterInfo.PodGroupInfos {
		for _, t := range j.GetAllPodsMap() {
			if !pod_status.IsActiveAllocatedStatus(t.Status) {
				continue
			}
			q := putils.QuantifyResourceRequirements(t.AcceptedResource)
			times := 1.0
			if tr != nil {
				if n := tr.doubleAlloc[t.Namespace+"/"+t.Name]; n > 0 {
					// reported under the finding's own key; the extra charges are then counted the way the
					// plugin counted them, so that every OTHER deviation of the queues is still seen
					times += float64(n)
					add("evicted-nomination-charged-as-releasing", "queue %s: %s was evicted twice in this cycle (the second time as a nomination), the second eviction failed at commit and its recovery announced the pod as allocated again although a later operation had already nominated it: its queues are charged %d times", j.Queue, t.Name, n+1)
				}
			}
			seen := map[string]bool{}
			for cur, ok := ssn.ClusterInfo.Queues[j.Queue]; ok && !seen[string(cur.UID)]; cur, ok = ssn.ClusterInfo.Queues[cur.ParentQueue] {
				seen[string(cur.UID)] = true
				s := sums[string(cur.UID)]
				if s == nil {
					s = &qsum{}
					sums[string(cur.UID)] = s
				}
				s.gpu += times * q[rs.GpuResource]
				s.cpu += times * q[rs.CpuResource]
				s.mem += times * q[rs.MemoryResource]
			}
		}
	}
	for id, q := range ssn.ClusterInfo.Queues {
		a := ssn.QueueAllocatedResources(q)
		if a == nil {
			continue
		}
		s := sums[string(id)]
		if s == nil {
			s = &qsum{}
		}
		// QueueAllocatedResources converts through NewGpuResourceRequirementWithGpus, which keeps only
		// whole GPUs once the amount reaches 1 (a display helper): apply the same mapping to the
		// recomputed value.
		// The plugin adds the same float64 shares in another order than this recomputation: a sum like
		// 0.3+0.3+0.7+0.7 is 2 here and 1.9999999999999998 there, which the helper truncates to 1. Both
		// truncations of a value within eps of a whole number are accepted.
		wantGPU, altGPU := s.gpu, s.gpu
		if s.gpu >= 1-eps {
			wantGPU, altGPU = math.Floor(s.gpu+eps), math.Floor(s.gpu-eps)
			if altGPU < 1 {
				altGPU = s.gpu // below one whole GPU the helper keeps the fraction
			}
		}
		if !(near(a.GPUs(), wantGPU) || near(a.GPUs(), altGPU)) || !near(a.Cpu(), s.cpu) || !near(a.Memory(), s.mem) {
			add("queue-allocated-differs", "queue %s allocated gpu/cpu/mem = %.3f/%.1f/%.0f, recomputed from active tasks = %.3f/%.1f/%.0f", id, a.GPUs(), a.Cpu(), a.Memory(), s.gpu, s.cpu, s.mem)
		}
	}
	return out
}

// statusClass: statuses with the same accounting effect on a node (the node keeps the status a
// task had when it was added; Allocated -> Binding/Bound/Running transitions do not re-add it).
func statusClass(s pod_status.PodStatus) string {
	switch s {
	case pod_status.Releasing:
		return "releasing"
	case pod_status.Pipelined:
		return "pipelined"
	}
	if pod_status.IsActiveUsedStatus(s) {
		return "allocated"
	}
	return "inactive"
}

// movedSharedPod: the node charges a GPU group that none of its pods references. This is how
// the scheduler represents a fractional pod that consolidation evicted from one device and
// nominated onto another device of the SAME node: the releasing instance stays in the counters
// while the pod map (keyed by pod) only holds the nominated instance. The node's closed forms
// cannot be recomputed from the pod map in that situation and are skipped (counted).
func movedSharedPod(ni *node_info.NodeInfo) bool {
	ref := map[string]bool{}
	for _, t := range ni.PodInfos {
		for _, g := range t.GPUGroups {
			ref[g] = true
		}
	}
	for g, v := range ni.UsedSharedGPUsMemory {
		if v != 0 && !ref[g] {
			return true
		}
	}
	return false
}

// SkippedNodeChecks counts node closed-form checks skipped because of movedSharedPod.
var SkippedNodeChecks int

func rebuild(ni *node_info.NodeInfo, vm *resource_info.ResourceVectorMap, reverse bool) *node_info.NodeInfo {
	fresh := node_info.NewNodeInfo(ni.Node, stubAffinity{ni.Name}, vm)
	tasks := []*pod_info.PodInfo{}
	for _, t := range ni.PodInfos {
		tasks = append(tasks, t.Clone())
	}
	sort.Slice(tasks, func(i, j int) bool {
		// pipelined tasks last: they are nominated onto capacity other tasks release
		pi, pj := tasks[i].Status == pod_status.Pipelined, tasks[j].Status == pod_status.Pipelined
		if pi != pj {
			return pj
		}
		if reverse {
			return tasks[i].Name > tasks[j].Name
		}
		return tasks[i].Name < tasks[j].Name
	})
	for _, t := range tasks {
		if err := fresh.AddTask(t); err != nil {
			return nil
		}
	}
	return fresh
}

func podgroupID(s string) common_info.PodGroupID { return common_info.PodGroupID(s) }
func queueID(s string) common_info.QueueID       { return common_info.QueueID(s) }

var _ = podgroup_info.DefaultSubGroup
