package sessioncheck

import (
	"fmt"

	"github.com/prometheus/client_golang/prometheus"

	"github.com/NVIDIA/KAI-scheduler/pkg/scheduler/framework"
)

// Q3 is a queue-level amount: GPUs, millicpu, memory bytes.
type Q3 struct{ GPU, CPU, Mem float64 }

var fairShareGPUGauge *prometheus.GaugeVec

// gpuGauge reaches the scheduler's queue_fair_share_gpu GaugeVec (unexported in its metrics
// package): registering a vector with the identical descriptor makes the default registry hand
// back the existing collector.
func gpuGauge() (*prometheus.GaugeVec, error) {
	if fairShareGPUGauge != nil {
		return fairShareGPUGauge, nil
	}
	probe := prometheus.NewGaugeVec(prometheus.GaugeOpts{Name: "queue_fair_share_gpu",
		Help: "GPU Fair share of queue, as a gauge. Values in GPU devices"}, []string{"queue_name"})
	err := prometheus.DefaultRegisterer.Register(probe)
	if are, ok := err.(prometheus.AlreadyRegisteredError); ok {
		if gv, ok := are.ExistingCollector.(*prometheus.GaugeVec); ok {
			fairShareGPUGauge = gv
			return gv, nil
		}
	}
	if err == nil {
		prometheus.DefaultRegisterer.Unregister(probe)
	}
	return nil, fmt.Errorf("cannot reach the scheduler's queue_fair_share_gpu gauge (%v)", err)
}

func newOf[T any](_ func(*T) error) *T { return new(T) }

// FairShares reads every queue's fair share as the proportion plugin computed it for this
// session: cpu / memory through Session.QueueFairShare (exact), GPUs through the exact gauge
// (Session.QueueFairShare truncates fractional GPU amounts >= 1).
func FairShares(ssn *framework.Session) (map[string]Q3, error) {
	gv, err := gpuGauge()
	if err != nil {
		return nil, err
	}
	out := map[string]Q3{}
	for id, q := range ssn.ClusterInfo.Queues {
		fs := ssn.QueueFairShare(q)
		if fs == nil {
			continue
		}
		g, err := gv.GetMetricWithLabelValues(q.Name)
		if err != nil {
			return nil, err
		}
		m := newOf(g.Write)
		if err := g.Write(m); err != nil {
			return nil, err
		}
		out[string(id)] = Q3{GPU: m.GetGauge().GetValue(), CPU: fs.Cpu(), Mem: fs.Memory()}
	}
	return out, nil
}
