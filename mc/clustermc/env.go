// Package clustermc is engine A: explicit-state search over cluster worlds whose transitions are
// real scheduler cycles and small, atomic environment events.
package clustermc

import (
	"strings"
	"slices"
	"fmt"
	"sort"
	"strconv"
	"time"

	corev1 "k8s.io/api/core/v1"
	metav1 "k8s.io/apimachinery/pkg/apis/meta/v1"

	schedv1alpha2 "github.com/NVIDIA/KAI-scheduler/pkg/apis/scheduling/v1alpha2"

	"verif/mc/world"
)

// EnvEvent is one atomic step of the environment (kubelet, binder outcome, workload controller).
type EnvEvent struct {
	Name  string
	Apply func(w *world.World) // mutates a clone
}

// EnvOpts selects which event classes are enabled.
type EnvOpts struct {
	BindOK    bool
	BindFail  bool
	// BindPartial: the binder is between two ReserveGpuDevice calls of a multi-device fractional pod:
	// the first selected group is reserved and labelled on the pod, the others not yet; the pod is
	// not bound and the BindRequest still pending. Reachable without any fault.
	BindPartial bool
	Terminate bool
	Recreate  bool // terminate + recreate as pending (closed system)
	Complete  bool
	DeleteNode bool
}

func maxRank(w *world.World) int {
	m := 0
	for _, p := range w.Pods {
		if r := int(p.CreationTimestamp.Time.Sub(world.Epoch) / time.Second); r > m {
			m = r
		}
	}
	for _, p := range w.PodGroups {
		if r := int(p.CreationTimestamp.Time.Sub(world.Epoch) / time.Second); r > m {
			m = r
		}
	}
	return m
}

func liveBR(b *schedv1alpha2.BindRequest) bool {
	return b.Status.Phase != schedv1alpha2.BindRequestPhaseSucceeded
}

// ApplyBindOK: the binder completed the request: pod bound and running with the side objects
// the real binder writes (group labels, received-type annotation, reservation pods).
func ApplyBindOK(w *world.World, brName string) {
	br := w.BindRequestFor(brName)
	if br == nil {
		return
	}
	p := w.Pod(br.Spec.PodName)
	if p == nil {
		w.RemoveBindRequest(br.Name)
		return
	}
	p.Spec.NodeName = br.Spec.SelectedNode
	p.Status.Phase = corev1.PodRunning
	p.Status.Conditions = []corev1.PodCondition{{Type: corev1.PodScheduled, Status: corev1.ConditionTrue}}
	if p.Annotations == nil {
		p.Annotations = map[string]string{}
	}
	if p.Labels == nil {
		p.Labels = map[string]string{}
	}
	p.Annotations[world.ReceivedTypeAnno] = br.Spec.ReceivedResourceType
	if br.Spec.ReceivedResourceType == "Fraction" {
		// labels of groups an aborted attempt of a REPLACED request left behind are removed first
		// (Binder.releaseForeignGpuGroups; checked on the real binder by C11's request-replaced runs)
		foreign := false
		for _, g := range world.PodGPUGroups(p) {
			if !slices.Contains(br.Spec.SelectedGPUGroups, g) {
				foreign = true
			}
		}
		if foreign {
			for k := range p.Labels {
				if k == world.GPUGroupLabel || strings.HasPrefix(k, world.MultiGroupPrefix) {
					delete(p.Labels, k)
				}
			}
		}
		world.SetGPUGroupLabels(p.Labels, p.Annotations[world.NumDevicesAnno], br.Spec.SelectedGPUGroups)
		for _, g := range br.Spec.SelectedGPUGroups {
			ensureReservation(w, br.Spec.SelectedNode, g)
		}
		if foreign {
			gcReservations(w)
		}
	}
	br.Status.Phase = schedv1alpha2.BindRequestPhaseSucceeded
}

// ApplyBindPartial: see EnvOpts.BindPartial.
func ApplyBindPartial(w *world.World, brName string) {
	br := w.BindRequestFor(brName)
	if br == nil || len(br.Spec.SelectedGPUGroups) < 2 {
		return
	}
	p := w.Pod(br.Spec.PodName)
	if p == nil {
		return
	}
	if p.Labels == nil {
		p.Labels = map[string]string{}
	}
	g := br.Spec.SelectedGPUGroups[0]
	world.SetGPUGroupLabels(p.Labels, p.Annotations[world.NumDevicesAnno], []string{g})
	ensureReservation(w, br.Spec.SelectedNode, g)
}

func ensureReservation(w *world.World, node, group string) {
	used := map[int]bool{}
	for _, p := range w.Pods {
		if world.IsReservationPod(p) {
			if p.Labels[world.GPUGroupLabel] == group {
				return
			}
			if p.Spec.NodeName == node {
				i, _ := strconv.Atoi(p.Annotations[world.ReserveIndexAnno])
				used[i] = true
			}
		}
	}
	idx := 0
	for used[idx] {
		idx++
	}
	w.Pods = append(w.Pods, world.MkReservationPod(node, group, idx))
}

// gcReservations removes reservation pods whose group has no live consumer (what the binder's
// pod controller does on consumer deletion/completion).
func gcReservations(w *world.World) {
	live := map[string]bool{}
	for _, p := range w.Pods {
		if world.IsReservationPod(p) {
			continue
		}
		if p.Status.Phase == corev1.PodRunning || p.Status.Phase == corev1.PodPending {
			for _, g := range world.PodGPUGroups(p) {
				live[g] = true
			}
		}
	}
	for _, b := range w.BindRequests {
		if liveBR(b) {
			for _, g := range b.Spec.SelectedGPUGroups {
				live[g] = true
			}
		}
	}
	out := w.Pods[:0]
	for _, p := range w.Pods {
		if world.IsReservationPod(p) && !live[p.Labels[world.GPUGroupLabel]] {
			continue
		}
		out = append(out, p)
	}
	w.Pods = out
}

func ApplyBindFail(w *world.World, brName string) {
	br := w.BindRequestFor(brName)
	if br == nil {
		return
	}
	br.Status.Phase = schedv1alpha2.BindRequestPhaseFailed
	br.Status.FailedAttempts++
	br.Status.Reason = "injected"
}

func ApplyTerminate(w *world.World, pod string) {
	w.RemovePod(world.NS, pod)
	w.RemoveBindRequest(pod) // owner-reference GC
	gcReservations(w)
}

// ApplyRecreate: closed system - the workload controller recreates an evicted pod as pending.
func ApplyRecreate(w *world.World, pod string) {
	p := w.Pod(pod)
	if p == nil {
		return
	}
	np := p.DeepCopy()
	ApplyTerminate(w, pod)
	np.DeletionTimestamp = nil
	np.Finalizers = nil
	np.Spec.NodeName = ""
	np.Status = corev1.PodStatus{Phase: corev1.PodPending}
	np.CreationTimestamp = metav1.NewTime(world.Epoch.Add(time.Duration(maxRank(w)+1) * time.Second))
	for k := range np.Labels {
		if k == world.GPUGroupLabel || len(k) > len(world.MultiGroupPrefix) && k[:len(world.MultiGroupPrefix)] == world.MultiGroupPrefix {
			delete(np.Labels, k)
		}
	}
	delete(np.Annotations, world.ReceivedTypeAnno)
	w.Pods = append(w.Pods, np)
}

// RecreateDeleted: closed system - pods the cycle deleted outright (an evicted pod that was not yet
// assigned to a node disappears without a terminating phase) are recreated as pending, exactly
// like the terminating ones are by ApplyRecreate.
func RecreateDeleted(pre, after *world.World) {
	for _, p := range pre.Pods {
		if p.Namespace != world.NS || world.IsReservationPod(p) || after.Pod(p.Name) != nil {
			continue
		}
		np := p.DeepCopy()
		np.DeletionTimestamp = nil
		np.Finalizers = nil
		np.Spec.NodeName = ""
		np.Status = corev1.PodStatus{Phase: corev1.PodPending}
		np.CreationTimestamp = metav1.NewTime(world.Epoch.Add(time.Duration(maxRank(after)+1) * time.Second))
		after.Pods = append(after.Pods, np)
	}
}

func ApplyComplete(w *world.World, pod string) {
	p := w.Pod(pod)
	if p == nil {
		return
	}
	p.Status.Phase = corev1.PodSucceeded
	gcReservations(w)
}

func ApplyDeleteNode(w *world.World, node string) {
	w.RemoveNode(node)
	// node lifecycle controller: pods on the node are deleted
	var names []string
	for _, p := range w.Pods {
		if p.Spec.NodeName == node {
			names = append(names, p.Namespace+"/"+p.Name)
		}
	}
	out := w.Pods[:0]
	for _, p := range w.Pods {
		if p.Spec.NodeName != node {
			out = append(out, p)
		}
	}
	w.Pods = out
	for _, n := range names {
		_ = n
	}
	// bind requests of deleted pods are GCed; those of pending pods stay (the scheduler must clean them)
	keep := w.BindRequests[:0]
	for _, b := range w.BindRequests {
		if w.Pod(b.Spec.PodName) != nil {
			keep = append(keep, b)
		}
	}
	w.BindRequests = keep
}

// StdEnvEvents enumerates the enabled environment events of a world, in a canonical order.
func StdEnvEvents(w *world.World, o EnvOpts) []EnvEvent {
	var evs []EnvEvent
	brs := append([]*schedv1alpha2.BindRequest{}, w.BindRequests...)
	sort.Slice(brs, func(i, j int) bool { return brs[i].Name < brs[j].Name })
	for _, b := range brs {
		name := b.Name
		if !liveBR(b) {
			continue
		}
		p := w.Pod(b.Spec.PodName)
		if p == nil || p.DeletionTimestamp != nil || w.Node(b.Spec.SelectedNode) == nil {
			continue
		}
		if o.BindOK {
			evs = append(evs, EnvEvent{Name: "bindOK:" + name, Apply: func(w *world.World) { ApplyBindOK(w, name) }})
		}
		if o.BindFail && b.Status.Phase != schedv1alpha2.BindRequestPhaseFailed {
			evs = append(evs, EnvEvent{Name: "bindFail:" + name, Apply: func(w *world.World) { ApplyBindFail(w, name) }})
		}
		if o.BindPartial && len(b.Spec.SelectedGPUGroups) >= 2 && p.Spec.NodeName == "" && len(world.PodGPUGroups(p)) == 0 {
			evs = append(evs, EnvEvent{Name: "bindPartial:" + name, Apply: func(w *world.World) { ApplyBindPartial(w, name) }})
		}
	}
	pods := append([]*corev1.Pod{}, w.Pods...)
	sort.Slice(pods, func(i, j int) bool { return pods[i].Name < pods[j].Name })
	for _, p := range pods {
		if world.IsReservationPod(p) {
			continue
		}
		name := p.Name
		if p.DeletionTimestamp != nil {
			if o.Terminate {
				evs = append(evs, EnvEvent{Name: "terminate:" + name, Apply: func(w *world.World) { ApplyTerminate(w, name) }})
			}
			if o.Recreate {
				evs = append(evs, EnvEvent{Name: "recreate:" + name, Apply: func(w *world.World) { ApplyRecreate(w, name) }})
			}
		} else if o.Complete && p.Status.Phase == corev1.PodRunning {
			evs = append(evs, EnvEvent{Name: "complete:" + name, Apply: func(w *world.World) { ApplyComplete(w, name) }})
		}
	}
	if o.DeleteNode {
		for _, n := range w.Nodes {
			name := n.Name
			evs = append(evs, EnvEvent{Name: "deleteNode:" + name, Apply: func(w *world.World) { ApplyDeleteNode(w, name) }})
		}
	}
	return evs
}

// ApplyEnvByName re-applies a recorded event (replay).
func ApplyEnvByName(w *world.World, name string) error {
	all := EnvOpts{BindOK: true, BindFail: true, BindPartial: true, Terminate: true, Recreate: true, Complete: true, DeleteNode: true}
	for _, e := range StdEnvEvents(w, all) {
		if e.Name == name {
			e.Apply(w)
			return nil
		}
	}
	return fmt.Errorf("replay divergence: event %q not enabled", name)
}
