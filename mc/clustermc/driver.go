package clustermc

import (
	"encoding/json"
	"fmt"
	"os"
	"runtime"
	"sort"
	"strconv"
	"strings"
	"time"

	"verif/mc/engine"
)

type RunOpts struct {
	Tier        string
	Workers     int
	MaxStates   int           // per scenario
	Budget      time.Duration // per worker soft deadline (0 = none)
	Level       string        // evidence level
	Assumptions []string
	Rule        string
}

func envInt(name string, def int) int {
	if s := os.Getenv(name); s != "" {
		if v, err := strconv.Atoi(s); err == nil {
			return v
		}
	}
	return def
}

// RunFamily is the entry point of every ClusterMC check (parent and worker side).
func RunFamily(f *Family, o RunOpts) int {
	if o.Workers == 0 {
		o.Workers = envInt("VERIF_WORKERS", min(runtime.NumCPU()-2, 14))
		if o.Workers < 1 {
			o.Workers = 1
		}
	}
	if o.MaxStates == 0 {
		o.MaxStates = 4000
	}
	scns := f.Scenarios(o.Tier)
	if sub := os.Getenv("VERIF_SCENARIO"); sub != "" { // debugging aid: restrict to matching scenarios
		var keep []Scenario
		for _, s := range scns {
			if strings.Contains(s.Name, sub) {
				keep = append(keep, s)
			}
		}
		scns = keep
	}
	idx, n, isWorker := engine.WorkerShard()
	if isWorker {
		budget := engine.NewBudget(o.Budget)
		skipped := 0
		for i := range scns {
			if i%n != idx {
				continue
			}
			if budget.Exceeded() {
				skipped++
				continue
			}
			st := f.Explore(&scns[i], o.Tier, o.MaxStates)
			engine.Emit(st)
			engine.FlushEmit()
		}
		engine.Emit(map[string]any{"worker_done": idx, "skipped": skipped})
		engine.FlushEmit()
		return 0
	}

	start := time.Now()
	rep := engine.NewReporter(f.Property)
	agg := struct {
		states, transitions, cycles, env, binds, evicts, pipes, faultCycles, maxDepth, replays, nondet, capHits, skipped, scenarios int
		outcomes                                                                                                             map[string]bool
		samples                                                                                                              []any
		extra                                                                                                                map[string]int
		harnessErr                                                                                                           string
	}{outcomes: map[string]bool{}, extra: map[string]int{}}
	// shards of at most ~60 scenarios: a shard process stays far below its address-space limit
	// (thorough explorations run up to a few thousand cycles per scenario and every cycle leaves ~140 KiB
	// behind - the event broadcaster of its cache cannot be stopped from outside: shards of 20. Much
	// smaller shards cost more in process start-up than they save.)
	per := 60
	if o.Tier == "thorough" {
		per = 20
	}
	shards := max(o.Workers, (len(scns)+per-1)/per)
	engine.PoolDeadline = o.Budget
	err := engine.RunShardPool(shards, o.Workers, nil, 6*1024*1024, func(w int, line []byte) {
		var probe map[string]json.RawMessage
		if json.Unmarshal(line, &probe) != nil {
			return
		}
		if _, ok := probe["worker_done"]; ok {
			var d struct {
				Skipped int `json:"skipped"`
			}
			_ = json.Unmarshal(line, &d)
			agg.skipped += d.Skipped
			return
		}
		var st ScenarioStats
		if err := json.Unmarshal(line, &st); err != nil {
			return
		}
		agg.scenarios++
		agg.states += st.States
		agg.transitions += st.Transitions
		agg.cycles += st.Cycles
		agg.env += st.EnvSteps
		agg.binds += st.Binds
		agg.evicts += st.Evicts
		agg.pipes += st.Pipelines
		agg.faultCycles += st.FaultCycles
		agg.replays += st.Replays
		if st.MaxDepth > agg.maxDepth {
			agg.maxDepth = st.MaxDepth
		}
		if st.CapHit {
			agg.capHits++
		}
		for k, v := range st.Extra {
			agg.extra[k] += v
		}
		agg.nondet += st.Extra["nondeterministic_cycles"]
		for _, oc := range st.Outcomes {
			agg.outcomes[oc] = true
		}
		if st.HarnessError != "" && agg.harnessErr == "" {
			agg.harnessErr = st.HarnessError
		}
		for _, tr := range st.SampleTrace {
			if len(tr) > 6 && (tr[:6] == "NONDET" || tr[:5] == "PANIC") && agg.extra["nondet_printed"] < 5 {
				agg.extra["nondet_printed"]++
				fmt.Fprintf(os.Stderr, "%s: %s\n", st.Scenario, tr)
			}
		}
		if len(agg.samples) < 6 && len(st.SampleTrace) > 0 {
			agg.samples = append(agg.samples, map[string]any{"scenario": st.Scenario, "trace": st.SampleTrace})
		}
		for _, v := range st.Violations {
			rep.Add(v)
		}
	})
	if err != nil {
		fmt.Fprintf(os.Stderr, "harness error: %v\n", err)
		return 2
	}
	if agg.harnessErr != "" {
		fmt.Fprintf(os.Stderr, "harness error: %s\n", agg.harnessErr)
		return 2
	}
	if agg.nondet > 0 {
		fmt.Fprintf(os.Stderr, "harness note: %d replayed cycles were not reproducible (map-order / goroutine nondeterminism not owned by the harness); samples: %v\n", agg.nondet, agg.samples)
	}
	if engine.SkippedShards > 0 {
		// shards that were not started because the check's deadline had passed: their scenarios count as skipped
		agg.skipped += min(engine.SkippedShards*per, len(scns)-agg.scenarios)
	}
	exhaustive := agg.capHits == 0 && agg.skipped == 0
	if len(agg.samples) == 0 {
		agg.samples = append(agg.samples, map[string]any{"scenario": scns[0].Name, "note": "no decisions in sampled scenarios"})
	}
	cov := map[string]any{
		"states":                        agg.states,
		"transitions":                   agg.transitions,
		"traces_validated_against_impl": agg.transitions,
		"samples":                       agg.samples,
		"initial_states":                len(scns),
		"scenarios_explored":            agg.scenarios,
		"scheduler_cycles_executed":     agg.cycles,
		"fault_injected_cycles":         agg.faultCycles,
		"environment_steps":             agg.env,
		"binds":                         agg.binds,
		"evictions":                     agg.evicts,
		"pipelined":                     agg.pipes,
		"distinct_outcomes":             len(agg.outcomes),
		"max_depth":                     agg.maxDepth,
		"determinism_replays":           agg.replays,
		"nondeterministic_replays":      agg.nondet,
		"state_caps_hit":                agg.capHits,
		"scenarios_skipped_by_deadline": agg.skipped,
		"exhaustive":                    exhaustive,
		"evaluations":                   agg.cycles,
		"distinct_nontrivial":           len(agg.outcomes),
		"rule":                          o.Rule,
		"explanation":                   "every transition is produced by executing the real scheduler (cache.New + OpenSession + actions + CloseSession on fake clientsets) or an atomic environment event; states are canonical worlds",
	}
	for k, v := range agg.extra {
		cov["x_"+k] = v
	}
	if f.Extra != nil {
		xcov, xviol := f.Extra(o.Tier)
		for k, v := range xcov {
			cov[k] = v
		}
		for _, v := range xviol {
			rep.Add(v)
		}
	}
	known := rep.KnownHits()
	if len(known) > 0 {
		cov["known_finding_hits"] = known
	}
	if agg.extra["cycles_panicked"] > 0 {
		fmt.Printf("NOTE: the real scheduler panicked in %d explored cycles (recovered; oracles applied to the decisions emitted before the crash)\n", agg.extra["cycles_panicked"])
	}
	code := rep.Finish()
	ev := &engine.Evidence{PropertyID: f.Property, Tier: o.Tier, Seed: engine.SeedFromEnv(), Level: o.Level,
		Coverage: cov, Assumptions: o.Assumptions, WallS: time.Since(start).Seconds(), Violations: rep.NewCount()}
	if ev.Level == "" {
		ev.Level = "model_checking"
	}
	if err := engine.WriteEvidence(ev); err != nil {
		fmt.Fprintf(os.Stderr, "harness error: %v\n", err)
		return 2
	}
	keys := []string{}
	for k := range cov {
		keys = append(keys, k)
	}
	sort.Strings(keys)
	fmt.Printf("%s %s: scenarios=%d states=%d transitions=%d cycles=%d (faulted %d) binds=%d evicts=%d pipelined=%d outcomes=%d depth=%d exhaustive=%v wall=%.1fs\n",
		f.Property, o.Tier, agg.scenarios, agg.states, agg.transitions, agg.cycles, agg.faultCycles, agg.binds, agg.evicts, agg.pipes,
		len(agg.outcomes), agg.maxDepth, exhaustive, time.Since(start).Seconds())
	// vacuity guards
	// (only meaningful for a completed exploration: a run cut short by its deadline on a loaded
	// machine reports exhaustive=false and what it covered, it is not a broken harness)
	if f.Vacuity != nil && exhaustive && os.Getenv("VERIF_SCENARIO") == "" {
		if msg := f.Vacuity(agg.extra); msg != "" {
			fmt.Fprintf(os.Stderr, "harness error: vacuous exploration: %s\n", msg)
			return 2
		}
	}
	if agg.cycles == 0 || (agg.binds == 0 && agg.evicts == 0 && agg.pipes == 0) {
		fmt.Fprintf(os.Stderr, "harness error: vacuous exploration (no decisions)\n")
		return 2
	}
	return code
}
