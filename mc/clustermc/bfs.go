package clustermc

import (
	"encoding/json"
	"os"
	"fmt"
	"sort"
	"strings"

	"github.com/NVIDIA/KAI-scheduler/pkg/scheduler/framework"

	"verif/mc/engine"
	"verif/mc/schedrun"
	"verif/mc/world"
)

// Step is one label of a path (enough to replay it).
type Step struct {
	Kind  string           `json:"kind"` // "cycle" | "env"
	Cfg   *schedrun.Config `json:"cfg,omitempty"`
	Event string           `json:"event,omitempty"`
	// Evicts: evictions decided in this cycle (informational; used by lasso oracles).
	Evicts int `json:"evicts,omitempty"`
	// EvictSig: "action:victimGroup->preemptorGroup" per eviction (informational).
	EvictSig []string `json:"evict_sig,omitempty"`
}

func (s Step) String() string {
	if s.Kind == "cycle" {
		return "cycle[" + s.Cfg.Label() + "]"
	}
	return s.Event
}

// Transition is one executed scheduler cycle, with everything the oracles may look at.
type Transition struct {
	Scenario string
	Path     []Step // steps leading to Pre
	Pre      *world.World
	Cfg      schedrun.Config
	Res      *schedrun.Result
	Obs      any // what the family's observer collected inside the real session
	// Stats: counters oracles may bump (vacuity guards); summed into the evidence as x_<name>.
	Stats map[string]int
}

type Replay struct {
	Scenario string          `json:"scenario"`
	Initial  json.RawMessage `json:"initial_world"`
	Path     []Step          `json:"path"`
	Decisions []string       `json:"decisions_of_failing_cycle,omitempty"`
}

type Scenario struct {
	Name    string
	World   *world.World
	Configs []schedrun.Config
	// Variant, when set, is the family whose environment, oracles and depth apply to this scenario
	// (lets one check mix transition systems, e.g. stub bind events and the real binder).
	Variant *Family
}

// Oracle inspects one cycle transition.
type Oracle func(t *Transition) []engine.Violation

// ObserverFactory builds a fresh observer per cycle; Data() is stored into Transition.Obs.
type ObserverWithData interface {
	schedrun.Observer
	Data() any
}

type Family struct {
	Property  string
	Scenarios func(tier string) []Scenario
	Depth     func(tier string) int
	Env       EnvOpts
	// FaultDepth: 0 = no injected API faults, 1 = every single failing bind/evict of each cycle,
	// 2 = pairs.
	FaultDepth  func(tier string) int
	Oracles     []Oracle
	NewObserver func(pre *world.World, cfg schedrun.Config) ObserverWithData
	// MacroEnv, if set, replaces single env events: after each cycle all listed event kinds are
	// applied to fixpoint in canonical order (closed-system macro step).
	MacroEnv bool
	// OnPath is called for every complete explored state with its path (lasso detection etc.)
	StateOracle func(scn *Scenario, path []Step, canonPath []string, w *world.World) []engine.Violation
	// OnReplayStep, if set, is called by ReplayPath with the world reached after each step (replay of
	// findings of state oracles)
	OnReplayStep func(i int, w *world.World)
	// ExtraEnv supplies additional environment events (e.g. a REAL binder reconcile) besides Env.
	ExtraEnv func(w *world.World) []EnvEvent
	// Extra runs once in the parent process: additional exhaustive sub-checks of the same property
	// whose coverage and violations are merged into the family's evidence.
	Extra func(tier string) (map[string]any, []engine.Violation)
	// EvictRefusals: derived fault sets also contain "evict-refused:<pod>" (Cache.Evict returns an error
	// to the committing statement, as it does for a victim that terminated since the snapshot).
	EvictRefusals bool
	// Persistent: every cycle transition is computed by replaying the node's WHOLE path on ONE live
	// scheduler cache (schedrun.RunPath) instead of a fresh cache on the node's world: what the cache
	// remembers between cycles takes part. Costs depth x as many cycles; for small focused families.
	Persistent bool
	// Vacuity inspects the summed oracle counters; a non-empty string aborts the check with exit 2.
	Vacuity func(extra map[string]int) string
}

// ScenarioStats is what a worker reports per scenario.
type ScenarioStats struct {
	Scenario     string             `json:"scenario"`
	States       int                `json:"states"`
	Transitions  int                `json:"transitions"`
	Cycles       int                `json:"cycles"`
	EnvSteps     int                `json:"env_steps"`
	Binds        int                `json:"binds"`
	Evicts       int                `json:"evicts"`
	Pipelines    int                `json:"pipelines"`
	FaultCycles  int                `json:"fault_cycles"`
	MaxDepth     int                `json:"max_depth"`
	Outcomes     []string           `json:"outcomes"` // hashes of distinct decision logs
	Violations   []engine.Violation `json:"violations,omitempty"`
	Replays      int                `json:"determinism_replays"`
	CapHit       bool               `json:"cap_hit,omitempty"`
	SampleTrace  []string           `json:"sample_trace,omitempty"`
	HarnessError string             `json:"harness_error,omitempty"`
	Extra        map[string]int     `json:"extra,omitempty"`
}

type node struct {
	w     *world.World
	path  []Step
	canon []string
	depth int
}

func decisionLog(ds []schedrun.Decision) string {
	parts := make([]string, 0, len(ds))
	for _, d := range ds {
		c := d
		c.GPUGroups = nil // random ids
		s := c.String()
		if len(d.GPUGroups) > 0 {
			s += fmt.Sprintf(" ngroups=%d", len(d.GPUGroups))
		}
		parts = append(parts, s)
	}
	return strings.Join(parts, "; ")
}

// Explore runs the bounded BFS for one scenario.
func (f *Family) Explore(scn *Scenario, tier string, maxStates int) *ScenarioStats {
	if scn.Variant != nil {
		return scn.Variant.Explore(&Scenario{Name: scn.Name, World: scn.World, Configs: scn.Configs}, tier, maxStates)
	}
	st := &ScenarioStats{Scenario: scn.Name, Extra: map[string]int{}}
	depth := f.Depth(tier)
	faultDepth := 0
	if f.FaultDepth != nil {
		faultDepth = f.FaultDepth(tier)
	}
	seen := map[string]bool{}
	outcomes := map[string]bool{}
	c0 := world.Canon(scn.World)
	seen[c0] = true
	frontier := []*node{{w: scn.World, canon: []string{c0}}}
	st.States = 1
	initialJSON := scn.World.JSON()

	mkReplay := func(path []Step, ds []schedrun.Decision) Replay {
		r := Replay{Scenario: scn.Name, Initial: initialJSON, Path: path}
		for _, d := range ds {
			r.Decisions = append(r.Decisions, d.String())
		}
		return r
	}

	runCycle := func(n *node, cfg schedrun.Config) (*schedrun.Result, any, bool) {
		var obs ObserverWithData
		var sobs schedrun.Observer
		if f.NewObserver != nil {
			obs = f.NewObserver(n.w, cfg)
			sobs = obs
		}
		var res *schedrun.Result
		var err error
		if f.Persistent && len(n.path) > 0 {
			res, err = schedrun.RunPath(scn.World, pathSteps(n.path, cfg), sobs)
		} else {
			res, err = schedrun.RunCycle(n.w, cfg, sobs)
		}
		if err != nil {
			st.HarnessError = fmt.Sprintf("%s path=%v: %v", scn.Name, n.path, err)
			return nil, nil, false
		}
		var data any
		if obs != nil {
			data = obs.Data()
		}
		return res, data, true
	}

	for len(frontier) > 0 && st.HarnessError == "" {
		n := frontier[0]
		frontier = frontier[1:]
		if n.depth > st.MaxDepth {
			st.MaxDepth = n.depth
		}
		if n.depth >= depth {
			continue
		}
		push := func(w *world.World, step Step) {
			c := world.Canon(w)
			st.Transitions++
			path := append(append([]Step{}, n.path...), step)
			cpath := append(append([]string{}, n.canon...), c)
			if f.StateOracle != nil {
				for _, v := range f.StateOracle(scn, path, cpath, w) {
					v.Replay = mkReplay(path, nil)
					st.Violations = append(st.Violations, v)
				}
			}
			if seen[c] {
				return
			}
			if st.States >= maxStates {
				st.CapHit = true
				return
			}
			seen[c] = true
			st.States++
			frontier = append(frontier, &node{w: w, path: path, canon: cpath, depth: n.depth + 1})
		}

		// cycle transitions (fault-free, then derived fault sets)
		for _, base := range scn.Configs {
			type job struct {
				cfg   schedrun.Config
				level int
			}
			queue := []job{{base, 0}}
			doneFaults := map[string]bool{}
			for len(queue) > 0 && st.HarnessError == "" {
				j := queue[0]
				queue = queue[1:]
				res, data, ok := runCycle(n, j.cfg)
				if !ok {
					break
				}
				st.Cycles++
				if res.Panic != "" {
					st.Extra["cycles_panicked"]++
					if len(st.SampleTrace) < 4 {
						st.SampleTrace = append(st.SampleTrace, fmt.Sprintf("PANIC at %v + cycle[%s]: %.3000s", n.path, j.cfg.Label(), res.Panic))
					}
				}
				if j.level > 0 {
					st.FaultCycles++
				}
				// determinism: replay the first cycle of every state once more
				if j.level == 0 && st.Cycles%7 == 1 && res.Panic == "" {
					res2, _, ok2 := runCycle(n, j.cfg)
					if ok2 {
						st.Replays++
						if decisionLog(res.Decisions) != decisionLog(res2.Decisions) || world.Canon(res.After) != world.Canon(res2.After) {
							st.Extra["nondeterministic_cycles"]++
							if st.Extra["nondeterministic_cycles"] == 1 {
								st.Extra["nondet_first_state"] = st.States
								st.SampleTrace = append(st.SampleTrace, "NONDET at "+fmt.Sprint(n.path)+": "+decisionLog(res.Decisions)+" VS "+decisionLog(res2.Decisions))
							}
						}
					}
				}
				for _, d := range res.Decisions {
					switch d.Kind {
					case "bind":
						st.Binds++
					case "evict":
						st.Evicts++
					case "pipeline":
						st.Pipelines++
					}
				}
				dl := decisionLog(res.Decisions)
				if os.Getenv("VERIF_VERBOSE") != "" {
					fmt.Fprintf(os.Stderr, "%s %v + cycle[%s] => %s\n", scn.Name, n.path, j.cfg.Label(), dl)
				}
				outcomes[engine.HashKey(dl)] = true
				if len(st.SampleTrace) < 3 && len(res.Decisions) > 0 {
					st.SampleTrace = append(st.SampleTrace, fmt.Sprintf("%v + cycle[%s] => %s", n.path, j.cfg.Label(), dl))
				}
				cfgCopy := j.cfg
				tr := &Transition{Scenario: scn.Name, Path: n.path, Pre: n.w, Cfg: j.cfg, Res: res, Obs: data, Stats: map[string]int{}}
				defer func() {}()
				for _, o := range f.Oracles {
					for _, v := range o(tr) {
						v.Replay = mkReplay(append(append([]Step{}, n.path...), Step{Kind: "cycle", Cfg: &cfgCopy}), res.Decisions)
						st.Violations = append(st.Violations, v)
					}
				}
				for k, v := range tr.Stats {
					st.Extra[k] += v
				}
				if res.Panic != "" {
					continue // the process would have crashed: no successor from a half-finished cycle
				}
				succ := res.After
				if f.Env.Recreate {
					succ = succ.Clone()
					RecreateDeleted(n.w, succ)
				}
				if f.MacroEnv {
					succ = succ.Clone()
					applyMacroEnv(succ, f.Env)
				}
				nEv := 0
				var sig []string
				for _, d := range res.Decisions {
					if d.Kind == "evict" {
						nEv++
						sig = append(sig, d.Action+":"+d.Group+"->"+d.Preemptor)
					}
				}
				push(succ, Step{Kind: "cycle", Cfg: &cfgCopy, Evicts: nEv, EvictSig: sig})
				// derive fault variants from the decisions actually made
				if j.level < faultDepth {
					for _, d := range res.Decisions {
						if d.Kind != "bind" && d.Kind != "evict" {
							continue
						}
						keys := []string{d.Kind + ":" + d.Pod}
						if d.Kind == "evict" && f.EvictRefusals {
							// besides the API delete failing (asynchronously, the scheduler does not see it): the
							// cache REFUSES the eviction because the victim terminated / vanished since the snapshot
							keys = append(keys, "evict-refused:"+d.Pod)
						}
						for _, key := range keys {
						if j.cfg.Faults[key] {
							continue
						}
						nf := map[string]bool{key: true}
						for k := range j.cfg.Faults {
							nf[k] = true
						}
						ks := []string{}
						for k := range nf {
							ks = append(ks, k)
						}
						sort.Strings(ks)
						id := strings.Join(ks, "|")
						if doneFaults[id] {
							continue
						}
						doneFaults[id] = true
						nc := j.cfg
						nc.Faults = nf
						queue = append(queue, job{nc, j.level + 1})
						}
					}
				}
			}
		}
		// environment transitions
		if !f.MacroEnv {
			evs := StdEnvEvents(n.w, f.Env)
			if f.ExtraEnv != nil {
				evs = append(evs, f.ExtraEnv(n.w)...)
			}
			for _, e := range evs {
				w2 := n.w.Clone()
				e.Apply(w2)
				st.EnvSteps++
				push(w2, Step{Kind: "env", Event: e.Name})
			}
		}
	}
	for o := range outcomes {
		st.Outcomes = append(st.Outcomes, o)
	}
	sort.Strings(st.Outcomes)
	return st
}

// applyMacroEnv: all binds complete, all terminating pods disappear / are recreated.
func applyMacroEnv(w *world.World, o EnvOpts) {
	for i := 0; i < 64; i++ {
		evs := StdEnvEvents(w, o)
		if len(evs) == 0 {
			return
		}
		evs[0].Apply(w)
	}
}

// pathSteps turns a recorded path (+ the cycle to run next) into the steps of schedrun.RunPath.
func pathSteps(path []Step, next schedrun.Config) []schedrun.PathStep {
	var out []schedrun.PathStep
	for _, s := range path {
		s := s
		if s.Kind == "cycle" {
			out = append(out, schedrun.PathStep{Cfg: s.Cfg})
		} else {
			out = append(out, schedrun.PathStep{Env: func(w *world.World) error { return ApplyEnvByName(w, s.Event) }})
		}
	}
	return append(out, schedrun.PathStep{Cfg: &next})
}

func mustWorld(js []byte) *world.World {
	w, err := world.FromJSON(js)
	if err != nil {
		panic(err)
	}
	return w
}

// ReplayPath re-executes a recorded path and returns the last cycle's transition.
func (f *Family) ReplayPath(r *Replay) (*Transition, error) {
	w, err := world.FromJSON(r.Initial)
	if err != nil {
		return nil, err
	}
	var last *Transition
	for i, s := range r.Path {
		switch s.Kind {
		case "cycle":
			var obs ObserverWithData
			var sobs schedrun.Observer
			if f.NewObserver != nil {
				obs = f.NewObserver(w, *s.Cfg)
				sobs = obs
			}
			var res *schedrun.Result
			var err error
			if f.Persistent && i > 0 {
				res, err = schedrun.RunPath(mustWorld(r.Initial), pathSteps(r.Path[:i], *s.Cfg), sobs)
			} else {
				res, err = schedrun.RunCycle(w, *s.Cfg, sobs)
			}
			if err != nil {
				return nil, err
			}
			var data any
			if obs != nil {
				data = obs.Data()
			}
			if os.Getenv("VERIF_VERBOSE") != "" {
				fmt.Printf("  step %d: cycle faults=%v\n", i, s.Cfg.Faults)
				for _, d := range res.Decisions {
					fmt.Printf("      %v [action %s]\n", d, d.AfterAction)
				}
				for _, p := range res.After.Pods {
					fmt.Printf("      after: pod %s node=%q phase=%s deleting=%v\n", p.Name, p.Spec.NodeName, p.Status.Phase, p.DeletionTimestamp != nil)
				}
				for _, b := range res.After.BindRequests {
					fmt.Printf("      after: bindrequest %s pod=%s node=%s phase=%s\n", b.Name, b.Spec.PodName, b.Spec.SelectedNode, b.Status.Phase)
				}
			}
			last = &Transition{Scenario: r.Scenario, Path: r.Path[:i], Pre: w, Cfg: *s.Cfg, Res: res, Obs: data, Stats: map[string]int{}}
			pre := w
			w = res.After
			if f.Env.Recreate {
				w = w.Clone()
				RecreateDeleted(pre, w)
			}
			if f.MacroEnv {
				w = w.Clone()
				applyMacroEnv(w, f.Env)
			}
		case "env":
			w = w.Clone()
			applied := false
			if f.ExtraEnv != nil {
				for _, e := range f.ExtraEnv(w) {
					if e.Name == s.Event {
						e.Apply(w)
						applied = true
						break
					}
				}
			}
			if !applied {
				if err := ApplyEnvByName(w, s.Event); err != nil {
					return nil, err
				}
			}
		}
		if f.OnReplayStep != nil {
			f.OnReplayStep(i, w)
		}
	}
	return last, nil
}

var _ = framework.Allocate
