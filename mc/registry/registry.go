// Package registry maps property ids to their check entry points.
package registry

// RunFunc runs a check for one tier ("quick"|"thorough") and returns the process exit code:
// 0 held, 1 violation reported (VIOLATION line printed), 2 harness error.
type RunFunc func(tier string) int

// ReplayFunc re-executes a replay file written by the check.
type ReplayFunc func(path string) int

var Checks = map[string]RunFunc{}
var Replays = map[string]ReplayFunc{}

func Register(id string, run RunFunc, replay ReplayFunc) {
	Checks[id] = run
	if replay != nil {
		Replays[id] = replay
	}
}
