package world

import (
	"fmt"

	corev1 "k8s.io/api/core/v1"

	schedv2alpha2 "github.com/NVIDIA/KAI-scheduler/pkg/apis/scheduling/v2alpha2"
)

// Pod lifecycle states used by the scenario grammars.
const (
	StPending     = "pending"
	StGated       = "gated"
	StRunning     = "running"
	StBound       = "bound" // nodeName set, phase Pending
	StBinding     = "binding" // live BindRequest
	StTerminating = "terminating"
	StSucceeded   = "succeeded"
)

type PodSpec struct {
	Shape    Shape
	State    string
	Node     string
	SubGroup string
	Groups   []string // GPU groups for placed sharing pods (default: one fresh group per device)
	Claims   []string // ResourceClaims (by name, see Builder.Claim) the pod references
	Mutate   func(p *corev1.Pod)
}

// WL is one workload: a pod group and its pods.
type WL struct {
	Name           string
	Queue          string
	PC             string // priority class
	Preemptibility string
	MinMember      int32
	Pods           []PodSpec
	SubGroups      []schedv2alpha2.SubGroup
	Topology       *schedv2alpha2.TopologyConstraint
	LastStart      string
	CreatedRank    int    // if non-zero: the pod group's creation rank (seconds after Epoch) instead of the builder's order
	Tag            string // template name (kept as annotation verif/tag; lets findings name workloads stably)
}

type Builder struct {
	W    *World
	rank int
	grp  int
}

func NewBuilder() *Builder {
	return &Builder{W: &World{PriorityClasses: StdPriorityClasses()}}
}

func (b *Builder) Node(o NodeOpt) *Builder { b.W.Nodes = append(b.W.Nodes, MkNode(o)); return b }

func (b *Builder) Queue(o QueueOpt) *Builder { b.W.Queues = append(b.W.Queues, MkQueue(o)); return b }

func (b *Builder) GQueue(name, parent string, quota, limit, weight float64) *Builder {
	b.W.Queues = append(b.W.Queues, GQueue(name, parent, quota, limit, weight))
	return b
}

func (b *Builder) freshGroup() string {
	b.grp++
	return fmt.Sprintf("grp-%d", b.grp)
}

// Workload adds the pod group and pods; placed sharing pods get reservation pods.
func (b *Builder) Workload(wl WL) *Builder {
	b.rank++
	pc := wl.PC
	if pc == "" {
		pc = "p50"
	}
	mm := wl.MinMember
	if mm == 0 {
		mm = 1
	}
	pgRank := b.rank
	if wl.CreatedRank != 0 {
		pgRank = wl.CreatedRank
	}
	b.W.PodGroups = append(b.W.PodGroups, MkPodGroup(PGOpt{Name: wl.Name, Queue: wl.Queue, MinMember: mm, PriorityClass: pc,
		Preemptibility: wl.Preemptibility, Rank: pgRank, SubGroups: wl.SubGroups, Topology: wl.Topology, LastStart: wl.LastStart,
		Annotations: map[string]string{"verif/tag": wl.Tag}}))
	for i, ps := range wl.Pods {
		b.rank++
		name := fmt.Sprintf("%s-%d", wl.Name, i)
		o := PodOpt{Name: name, Group: wl.Name, SubGroup: ps.SubGroup, Shape: ps.Shape, Rank: b.rank, Claims: ps.Claims, Mutate: ps.Mutate}
		placed := false
		switch ps.State {
		case "", StPending:
		case StGated:
			o.Gated = true
		case StRunning:
			o.Phase, o.Node, placed = corev1.PodRunning, ps.Node, true
		case StBound:
			o.Phase, o.Node, placed = corev1.PodPending, ps.Node, true
		case StTerminating:
			o.Phase, o.Node, o.Deleting, placed = corev1.PodRunning, ps.Node, true, true
		case StSucceeded:
			o.Phase, o.Node = corev1.PodSucceeded, ps.Node
		case StBinding:
		default:
			panic("unknown state " + ps.State)
		}
		sharing := ps.Shape.Fraction != "" || ps.Shape.GPUMem != ""
		ndev := 1
		if ps.Shape.NumDev != "" {
			fmt.Sscanf(ps.Shape.NumDev, "%d", &ndev)
			if ndev < 1 || ndev > 8 { // malformed literals (C10 inputs): the builder itself stays sane
				ndev = 1
			}
		}
		groups := ps.Groups
		if sharing && (placed || ps.State == StBinding) && len(groups) == 0 {
			for d := 0; d < ndev; d++ {
				groups = append(groups, b.freshGroup())
			}
		}
		received := ""
		if placed {
			received = "Regular"
			if sharing {
				received = "Fraction"
				o.GPUGroups = groups
			}
			o.Received = received
		}
		pod := MkPod(o)
		b.W.Pods = append(b.W.Pods, pod)
		if placed && sharing {
			for _, g := range groups {
				b.ensureReservation(ps.Node, g)
			}
		}
		if ps.State == StBinding {
			recv, portion, count := "Regular", "0.00", int(ps.Shape.GPUs)
			if sharing {
				recv, count = "Fraction", ndev
				portion = ps.Shape.Fraction
				if portion == "" {
					portion = "0.50"
				}
			}
			b.W.BindRequests = append(b.W.BindRequests, MkBindRequest(pod, ps.Node, groups, recv, portion, count))
		}
	}
	return b
}

func (b *Builder) ensureReservation(node, group string) {
	idx := 0
	for _, p := range b.W.Pods {
		if IsReservationPod(p) {
			if p.Labels[GPUGroupLabel] == group {
				return
			}
			if p.Spec.NodeName == node {
				idx++
			}
		}
	}
	b.W.Pods = append(b.W.Pods, MkReservationPod(node, group, idx))
}

func (b *Builder) Done() *World { return b.W }
