package world

// Dynamic Resource Allocation objects (resource.k8s.io/v1 — the version the repo's dynamicresources
// plugin, its cluster_info listers and client-go v0.34 use) and the builder helpers that create
// them. A world "has DRA" as soon as it holds one of these objects; schedrun then makes the fake
// discovery advertise resource.k8s.io/v1 so the scheduler's cache turns the (process-global)
// DynamicResourceAllocation feature gate on for that cycle, and off again for every other world.

import (
	"fmt"
	"sort"
	"strconv"
	"strings"

	corev1 "k8s.io/api/core/v1"
	resourceapi "k8s.io/api/resource/v1"
	"k8s.io/apimachinery/pkg/api/resource"
	metav1 "k8s.io/apimachinery/pkg/apis/meta/v1"
	"k8s.io/apimachinery/pkg/types"
	"k8s.io/utils/ptr"

	schedv1alpha2 "github.com/NVIDIA/KAI-scheduler/pkg/apis/scheduling/v1alpha2"
)

const (
	// DRAGpuClass is a device class / driver name the repo recognises as "GPU" (IsGPUDeviceClass:
	// the lower-cased name contains "gpu"): its devices count as GPUs of the node and of the queues.
	DRAGpuClass = "gpu.nvidia.com"
	// DRARequestName is the single device request every claim built here carries.
	DRARequestName = "request"
	// DRAResourceVersion: the scheduler's claim assume-cache parses metadata.resourceVersion as an
	// integer and refuses objects without one.
	DRAResourceVersion = "1"
	draAPIVersion      = "resource.k8s.io/v1"
)

// HasDRA: the world contains DRA objects (=> DRA is switched on for cycles run on it).
func (w *World) HasDRA() bool {
	return len(w.ResourceClaims) > 0 || len(w.ResourceSlices) > 0 || len(w.DeviceClasses) > 0
}

func (w *World) ResourceClaim(name string) *resourceapi.ResourceClaim {
	for _, c := range w.ResourceClaims {
		if c.Name == name && c.Namespace == NS {
			return c
		}
	}
	return nil
}

// SortDRA puts the DRA objects in name order (the order ReadBack produces).
func (w *World) SortDRA() {
	sort.Slice(w.ResourceClaims, func(i, j int) bool {
		a, b := w.ResourceClaims[i], w.ResourceClaims[j]
		return a.Namespace+"/"+a.Name < b.Namespace+"/"+b.Name
	})
	sort.Slice(w.ResourceSlices, func(i, j int) bool { return w.ResourceSlices[i].Name < w.ResourceSlices[j].Name })
	sort.Slice(w.DeviceClasses, func(i, j int) bool { return w.DeviceClasses[i].Name < w.DeviceClasses[j].Name })
}

func MkDeviceClass(name string) *resourceapi.DeviceClass {
	return &resourceapi.DeviceClass{
		TypeMeta: metav1.TypeMeta{APIVersion: draAPIVersion, Kind: "DeviceClass"},
		ObjectMeta: metav1.ObjectMeta{Name: name, UID: types.UID("dc-" + name), ResourceVersion: DRAResourceVersion,
			CreationTimestamp: metav1.NewTime(Epoch)},
	}
}

// SliceOpt: a ResourceSlice publishing N devices "0".."N-1" of one node (pool = node name).
type SliceOpt struct {
	Name    string // default "<node>-<driver with / and . replaced>"
	Node    string
	Driver  string // default DRAGpuClass
	Devices int
}

func MkResourceSlice(o SliceOpt) *resourceapi.ResourceSlice {
	if o.Driver == "" {
		o.Driver = DRAGpuClass
	}
	if o.Name == "" {
		o.Name = o.Node + "-" + strings.NewReplacer("/", "-", ".", "-").Replace(o.Driver)
	}
	devs := make([]resourceapi.Device, o.Devices)
	for i := range devs {
		devs[i] = resourceapi.Device{Name: strconv.Itoa(i),
			Capacity: map[resourceapi.QualifiedName]resourceapi.DeviceCapacity{"gpu": {Value: resource.MustParse("1")}}}
	}
	return &resourceapi.ResourceSlice{
		TypeMeta: metav1.TypeMeta{APIVersion: draAPIVersion, Kind: "ResourceSlice"},
		ObjectMeta: metav1.ObjectMeta{Name: o.Name, UID: types.UID("rs-" + o.Name), ResourceVersion: DRAResourceVersion,
			CreationTimestamp: metav1.NewTime(Epoch)},
		Spec: resourceapi.ResourceSliceSpec{
			Driver:   o.Driver,
			Pool:     resourceapi.ResourcePool{Name: o.Node, Generation: 1, ResourceSliceCount: 1},
			NodeName: ptr.To(o.Node),
			Devices:  devs,
		},
	}
}

// ClaimOpt: a ResourceClaim asking for Count devices of Class. With Devices set, the claim is
// allocated to exactly those devices of Node's pool (driver = Driver) and reserved for the pods
// named in ReservedFor (pod UID == pod name, as MkPod makes them).
type ClaimOpt struct {
	Name        string
	Queue       string // kai.scheduler/queue label: required by the scheduler for GPU claims referenced by name
	Class       string // default DRAGpuClass
	Count       int64  // default: len(Devices), at least 1
	Node        string
	Driver      string // default: Class
	Devices     []string
	ReservedFor []string
	Labels      map[string]string
}

func MkResourceClaim(o ClaimOpt) *resourceapi.ResourceClaim {
	if o.Class == "" {
		o.Class = DRAGpuClass
	}
	if o.Driver == "" {
		o.Driver = o.Class
	}
	if o.Count == 0 {
		o.Count = int64(len(o.Devices))
		if o.Count == 0 {
			o.Count = 1
		}
	}
	labels := map[string]string{}
	if o.Queue != "" {
		labels[QueueLabel] = o.Queue
	}
	for k, v := range o.Labels {
		labels[k] = v
	}
	c := &resourceapi.ResourceClaim{
		TypeMeta: metav1.TypeMeta{APIVersion: draAPIVersion, Kind: "ResourceClaim"},
		ObjectMeta: metav1.ObjectMeta{Name: o.Name, Namespace: NS, UID: types.UID("claim-" + o.Name),
			ResourceVersion: DRAResourceVersion, Labels: labels, CreationTimestamp: metav1.NewTime(Epoch)},
		Spec: resourceapi.ResourceClaimSpec{Devices: resourceapi.DeviceClaim{Requests: []resourceapi.DeviceRequest{{
			Name: DRARequestName,
			Exactly: &resourceapi.ExactDeviceRequest{DeviceClassName: o.Class,
				AllocationMode: resourceapi.DeviceAllocationModeExactCount, Count: o.Count},
		}}}},
	}
	if len(o.Devices) > 0 {
		res := []resourceapi.DeviceRequestAllocationResult{}
		for _, d := range o.Devices {
			res = append(res, resourceapi.DeviceRequestAllocationResult{Request: DRARequestName, Driver: o.Driver, Pool: o.Node, Device: d})
		}
		c.Status.Allocation = &resourceapi.AllocationResult{
			Devices: resourceapi.DeviceAllocationResult{Results: res},
			NodeSelector: &corev1.NodeSelector{NodeSelectorTerms: []corev1.NodeSelectorTerm{{
				MatchFields: []corev1.NodeSelectorRequirement{{Key: "metadata.name", Operator: corev1.NodeSelectorOpIn, Values: []string{o.Node}}}}}},
		}
	}
	for _, p := range o.ReservedFor {
		c.Status.ReservedFor = append(c.Status.ReservedFor, resourceapi.ResourceClaimConsumerReference{Resource: "pods", Name: p, UID: types.UID(p)})
	}
	return c
}

// AddPodClaims makes the pod reference the named ResourceClaims: one pod.spec.resourceClaims
// entry per claim (pod-level name == claim name) and a resources.claims entry in the first
// container.
func AddPodClaims(p *corev1.Pod, claims ...string) {
	for _, c := range claims {
		p.Spec.ResourceClaims = append(p.Spec.ResourceClaims, corev1.PodResourceClaim{Name: c, ResourceClaimName: ptr.To(c)})
		if len(p.Spec.Containers) > 0 {
			p.Spec.Containers[0].Resources.Claims = append(p.Spec.Containers[0].Resources.Claims, corev1.ResourceClaim{Name: c})
		}
	}
}

// ---------------------------------------------------------------- builder

func (b *Builder) DeviceClass(name string) *Builder {
	for _, dc := range b.W.DeviceClasses {
		if dc.Name == name {
			return b
		}
	}
	b.W.DeviceClasses = append(b.W.DeviceClasses, MkDeviceClass(name))
	return b
}

// ResourceSlice gives node n devices "0".."n-1" of the default GPU driver (and makes sure the
// device class exists).
func (b *Builder) ResourceSlice(node string, devices int) *Builder {
	return b.ResourceSliceOpt(SliceOpt{Node: node, Devices: devices})
}

func (b *Builder) ResourceSliceOpt(o SliceOpt) *Builder {
	s := MkResourceSlice(o)
	b.DeviceClass(s.Spec.Driver)
	b.W.ResourceSlices = append(b.W.ResourceSlices, s)
	return b
}

func (b *Builder) Claim(o ClaimOpt) *Builder {
	b.W.ResourceClaims = append(b.W.ResourceClaims, MkResourceClaim(o))
	return b
}

// DRARunning adds workload wl (one pod, running on node) whose pod holds a fresh claim
// "<wl.Name>-claim" allocated to the given devices of the node and reserved for that pod only.
// wl.Pods may be empty (a cpu-only pod is used) or hold exactly one PodSpec (shape / mutate).
func (b *Builder) DRARunning(wl WL, node string, devices ...string) *Builder {
	ps := PodSpec{}
	if len(wl.Pods) > 0 {
		ps = wl.Pods[0]
	}
	claim := wl.Name + "-claim"
	ps.State, ps.Node, ps.Claims = StRunning, node, append(ps.Claims, claim)
	wl.Pods = []PodSpec{ps}
	b.Claim(ClaimOpt{Name: claim, Queue: wl.Queue, Node: node, Devices: devices, ReservedFor: []string{fmt.Sprintf("%s-0", wl.Name)}})
	return b.Workload(wl)
}

// DRAPending adds workload wl (one pending pod) whose pod references a fresh, unallocated claim
// "<wl.Name>-claim" for count devices.
func (b *Builder) DRAPending(wl WL, count int64) *Builder {
	ps := PodSpec{}
	if len(wl.Pods) > 0 {
		ps = wl.Pods[0]
	}
	claim := wl.Name + "-claim"
	ps.State, ps.Node, ps.Claims = StPending, "", append(ps.Claims, claim)
	wl.Pods = []PodSpec{ps}
	b.Claim(ClaimOpt{Name: claim, Queue: wl.Queue, Count: count})
	return b.Workload(wl)
}

// ---------------------------------------------------------------- canonical form

// AllocationString renders a claim allocation deterministically: sorted
// "request:driver/pool/device" entries ("-" = not allocated).
func AllocationString(a *resourceapi.AllocationResult) string {
	if a == nil {
		return "-"
	}
	parts := []string{}
	for _, r := range a.Devices.Results {
		parts = append(parts, fmt.Sprintf("%s:%s/%s/%s", r.Request, r.Driver, r.Pool, r.Device))
	}
	sort.Strings(parts)
	return "[" + strings.Join(parts, ",") + "]"
}

// canonDRA appends the DRA part of the canonical form. It writes nothing for a world without DRA
// objects, so canonical forms of such worlds are what they were before DRA support existed.
func canonDRA(sb *strings.Builder, w *World) {
	if !w.HasDRA() {
		return
	}
	c := &World{DeviceClasses: append(w.DeviceClasses[:0:0], w.DeviceClasses...),
		ResourceSlices: append(w.ResourceSlices[:0:0], w.ResourceSlices...),
		ResourceClaims: append(w.ResourceClaims[:0:0], w.ResourceClaims...)}
	c.SortDRA() // sorts the copies of the slices, the objects are shared and not modified
	for _, dc := range c.DeviceClasses {
		fmt.Fprintf(sb, "DC %s spec=%s\n", dc.Name, js(dc.Spec))
	}
	for _, s := range c.ResourceSlices {
		node := ""
		if s.Spec.NodeName != nil {
			node = *s.Spec.NodeName
		}
		devs := []string{}
		for _, d := range s.Spec.Devices {
			devs = append(devs, d.Name)
		}
		sort.Strings(devs)
		fmt.Fprintf(sb, "RS %s driver=%s pool=%s node=%s allNodes=%v sel=%s devices=%v\n", s.Name, s.Spec.Driver, s.Spec.Pool.Name, node,
			s.Spec.AllNodes != nil && *s.Spec.AllNodes, js(s.Spec.NodeSelector), devs)
	}
	for _, cl := range c.ResourceClaims {
		res := []string{}
		for _, r := range cl.Status.ReservedFor {
			res = append(res, r.Resource+"/"+r.Name)
		}
		sort.Strings(res)
		owners := []string{}
		for _, o := range cl.OwnerReferences {
			owners = append(owners, o.Kind+"/"+o.Name)
		}
		sort.Strings(owners)
		fmt.Fprintf(sb, "RC %s/%s labels=%s owners=%v requests=%s alloc=%s reservedFor=%v\n", cl.Namespace, cl.Name, kv(cl.Labels), owners,
			js(cl.Spec.Devices.Requests), AllocationString(cl.Status.Allocation), res)
	}
}

// podClaimRefs: the claims a pod references, for the canonical pod line ("" when none).
func podClaimRefs(p *corev1.Pod) string {
	if len(p.Spec.ResourceClaims) == 0 {
		return ""
	}
	parts := []string{}
	for _, c := range p.Spec.ResourceClaims {
		switch {
		case c.ResourceClaimName != nil:
			parts = append(parts, c.Name+"="+*c.ResourceClaimName)
		case c.ResourceClaimTemplateName != nil:
			parts = append(parts, c.Name+"=template:"+*c.ResourceClaimTemplateName)
		default:
			parts = append(parts, c.Name+"=?")
		}
	}
	sort.Strings(parts)
	return " claims=" + strings.Join(parts, ",")
}

// brClaimAllocations: the claim allocations a BindRequest carries ("" when none).
func brClaimAllocations(b *schedv1alpha2.BindRequest) string {
	if len(b.Spec.ResourceClaimAllocations) == 0 {
		return ""
	}
	parts := []string{}
	for _, a := range b.Spec.ResourceClaimAllocations {
		parts = append(parts, a.Name+"="+AllocationString(a.Allocation))
	}
	sort.Strings(parts)
	return " claims=" + strings.Join(parts, ",")
}
