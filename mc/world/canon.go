package world

import (
	"encoding/json"
	"fmt"
	"sort"
	"strings"
	"time"

	corev1 "k8s.io/api/core/v1"
)

// Canon returns the canonical form of a world: sorted, with only the fields the scheduler /
// binder decision code can observe. Three coarsenings (argued in DESIGN.md §2.4):
//   - GPU-group ids (random UUIDs) are renamed by the sorted set of their members;
//   - creation timestamps become ranks;
//   - last-start / stale timestamps become classes {absent, old, recent}.
func Canon(w *World) string {
	var sb strings.Builder
	groupName := canonGroupNames(w)
	gn := func(gs []string) []string {
		out := []string{}
		for _, g := range gs {
			if n, ok := groupName[g]; ok {
				out = append(out, n)
			} else {
				out = append(out, "?"+g)
			}
		}
		sort.Strings(out)
		return out
	}

	nodes := append([]*corev1.Node{}, w.Nodes...)
	sort.Slice(nodes, func(i, j int) bool { return nodes[i].Name < nodes[j].Name })
	for _, n := range nodes {
		ready := "?"
		for _, c := range n.Status.Conditions {
			if c.Type == corev1.NodeReady {
				ready = string(c.Status)
			}
		}
		fmt.Fprintf(&sb, "N %s alloc=%s labels=%s taints=%s unsched=%v ready=%s\n", n.Name, rl(n.Status.Allocatable),
			kv(n.Labels), js(n.Spec.Taints), n.Spec.Unschedulable, ready)
	}
	qs := append(w.Queues[:0:0], w.Queues...)
	sort.Slice(qs, func(i, j int) bool { return qs[i].Name < qs[j].Name })
	for _, q := range qs {
		fmt.Fprintf(&sb, "Q %s %s\n", q.Name, js(q.Spec))
	}
	for _, t := range w.Topologies {
		fmt.Fprintf(&sb, "T %s %s\n", t.Name, js(t.Spec))
	}
	for _, pc := range w.PriorityClasses {
		fmt.Fprintf(&sb, "PC %s %d %v\n", pc.Name, pc.Value, pc.GlobalDefault)
	}

	// creation rank across pods and groups
	pgs := append(w.PodGroups[:0:0], w.PodGroups...)
	sort.Slice(pgs, func(i, j int) bool { return pgs[i].Name < pgs[j].Name })
	times := map[int64]bool{}
	for _, pg := range pgs {
		times[pg.CreationTimestamp.Unix()] = true
	}
	for _, p := range w.Pods {
		times[p.CreationTimestamp.Unix()] = true
	}
	ts := []int64{}
	for t := range times {
		ts = append(ts, t)
	}
	sort.Slice(ts, func(i, j int) bool { return ts[i] < ts[j] })
	rank := map[int64]int{}
	for i, t := range ts {
		rank[t] = i
	}
	for _, pg := range pgs {
		fmt.Fprintf(&sb, "PG %s rank=%d spec=%s labels=%s lastStart=%s stale=%s\n", pg.Name,
			rank[pg.CreationTimestamp.Unix()], js(pg.Spec), kv(pg.Labels),
			timeClass(pg.Annotations[LastStartAnno]), timeClass(pg.Annotations[StaleAnno]))
	}
	pods := append([]*corev1.Pod{}, w.Pods...)
	sort.Slice(pods, func(i, j int) bool { return podKey(pods[i], groupName) < podKey(pods[j], groupName) })
	for _, p := range pods {
		name := p.Name
		if IsReservationPod(p) {
			name = "resv"
		}
		labels := map[string]string{}
		for k, v := range p.Labels {
			if k == GPUGroupLabel || strings.HasPrefix(k, MultiGroupPrefix) {
				continue
			}
			labels[k] = v
		}
		annos := map[string]string{}
		for _, k := range []string{PodGroupAnno, GpuFractionAnno, GpuMemoryAnno, NumDevicesAnno, ReceivedTypeAnno, ReserveIndexAnno} {
			if v, ok := p.Annotations[k]; ok {
				annos[k] = v
			}
		}
		fmt.Fprintf(&sb, "P %s/%s rank=%d phase=%s node=%s del=%v gated=%v groups=%v labels=%s annos=%s req=%s sel=%s aff=%s tol=%s%s\n",
			p.Namespace, name, rank[p.CreationTimestamp.Unix()], p.Status.Phase, p.Spec.NodeName,
			p.DeletionTimestamp != nil, len(p.Spec.SchedulingGates) > 0, gn(PodGPUGroups(p)), kv(labels), kv(annos),
			podReq(p), kv(p.Spec.NodeSelector), js(p.Spec.Affinity), js(p.Spec.Tolerations), podClaimRefs(p))
	}
	brs := append(w.BindRequests[:0:0], w.BindRequests...)
	sort.Slice(brs, func(i, j int) bool { return brs[i].Name < brs[j].Name })
	for _, b := range brs {
		bl := "nil"
		if b.Spec.BackoffLimit != nil {
			bl = fmt.Sprint(*b.Spec.BackoffLimit)
		}
		fmt.Fprintf(&sb, "BR %s node=%s groups=%v recv=%s gpu=%s backoff=%s phase=%s failed=%d%s\n", b.Spec.PodName,
			b.Spec.SelectedNode, gn(b.Spec.SelectedGPUGroups), b.Spec.ReceivedResourceType, js(b.Spec.ReceivedGPU), bl,
			b.Status.Phase, b.Status.FailedAttempts, brClaimAllocations(b))
	}
	canonDRA(&sb, w)
	return sb.String()
}

func podKey(p *corev1.Pod, groupName map[string]string) string {
	if IsReservationPod(p) {
		gs := []string{}
		for _, g := range PodGPUGroups(p) {
			gs = append(gs, groupName[g])
		}
		return p.Namespace + "/resv/" + p.Spec.NodeName + "/" + strings.Join(gs, ",")
	}
	return p.Namespace + "/" + p.Name
}

// canonGroupNames names every GPU group by its sorted member set (consumer pod names, node of
// the reservation pod, bind requests selecting it).
func canonGroupNames(w *World) map[string]string {
	members := map[string][]string{}
	for _, p := range w.Pods {
		for _, g := range PodGPUGroups(p) {
			if IsReservationPod(p) {
				members[g] = append(members[g], "resv@"+p.Spec.NodeName)
			} else {
				members[g] = append(members[g], "pod:"+p.Name)
			}
		}
	}
	for _, b := range w.BindRequests {
		for _, g := range b.Spec.SelectedGPUGroups {
			members[g] = append(members[g], "br:"+b.Spec.PodName)
		}
	}
	type gs struct{ id, sig string }
	var all []gs
	for g, m := range members {
		sort.Strings(m)
		all = append(all, gs{g, strings.Join(m, ",")})
	}
	sort.Slice(all, func(i, j int) bool {
		if all[i].sig != all[j].sig {
			return all[i].sig < all[j].sig
		}
		return all[i].id < all[j].id
	})
	out := map[string]string{}
	for i, g := range all {
		out[g.id] = fmt.Sprintf("g%d", i)
	}
	return out
}

func timeClass(s string) string {
	if s == "" {
		return "absent"
	}
	t, err := time.Parse(time.RFC3339, s)
	if err != nil {
		return "bad:" + s
	}
	if t.Year() < 2021 {
		return "old"
	}
	return "recent"
}

func podReq(p *corev1.Pod) string {
	parts := []string{}
	for _, c := range p.Spec.InitContainers {
		parts = append(parts, "i:"+rl(c.Resources.Requests))
	}
	for _, c := range p.Spec.Containers {
		parts = append(parts, rl(c.Resources.Requests))
	}
	return strings.Join(parts, ";")
}

func rl(r corev1.ResourceList) string {
	keys := []string{}
	for k := range r {
		keys = append(keys, string(k))
	}
	sort.Strings(keys)
	parts := []string{}
	for _, k := range keys {
		q := r[corev1.ResourceName(k)]
		parts = append(parts, k+"="+q.String())
	}
	return "{" + strings.Join(parts, ",") + "}"
}

func kv(m map[string]string) string {
	keys := []string{}
	for k := range m {
		keys = append(keys, k)
	}
	sort.Strings(keys)
	parts := []string{}
	for _, k := range keys {
		parts = append(parts, k+"="+m[k])
	}
	return "{" + strings.Join(parts, ",") + "}"
}

func js(v any) string {
	b, _ := json.Marshal(v)
	return string(b)
}
