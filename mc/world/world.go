// Package world is the plain-data "cluster world" explored by ClusterMC: a set of typed
// Kubernetes objects and nothing else. It is what the real system persists between scheduler
// cycles and binder reconciles.
package world

import (
	"encoding/json"
	"fmt"
	"sort"
	"strconv"
	"strings"
	"time"

	corev1 "k8s.io/api/core/v1"
	resourceapi "k8s.io/api/resource/v1"
	schedv1 "k8s.io/api/scheduling/v1"
	"k8s.io/apimachinery/pkg/api/resource"
	metav1 "k8s.io/apimachinery/pkg/apis/meta/v1"
	"k8s.io/apimachinery/pkg/types"
	"k8s.io/utils/ptr"

	kaiv1alpha1 "github.com/NVIDIA/KAI-scheduler/pkg/apis/kai/v1alpha1"
	schedv1alpha2 "github.com/NVIDIA/KAI-scheduler/pkg/apis/scheduling/v1alpha2"
	schedv2 "github.com/NVIDIA/KAI-scheduler/pkg/apis/scheduling/v2"
	schedv2alpha2 "github.com/NVIDIA/KAI-scheduler/pkg/apis/scheduling/v2alpha2"
)

const (
	NS                = "w"
	ReservationNS     = "kai-resource-reservation"
	SchedulerName     = "kai-scheduler"
	PodGroupAnno      = "pod-group-name"
	GpuFractionAnno   = "gpu-fraction"
	GpuMemoryAnno     = "gpu-memory"
	NumDevicesAnno    = "gpu-fraction-num-devices"
	ReceivedTypeAnno  = "received-resource-type"
	GPUGroupLabel     = "runai-gpu-group"
	MultiGroupPrefix  = "runai-gpu-group/"
	SubGroupLabel     = "kai.scheduler/subgroup-name"
	QueueLabel        = "kai.scheduler/queue"
	GpuResource       = "nvidia.com/gpu"
	GpuMemoryLabel    = "nvidia.com/gpu.memory"
	LastStartAnno     = "kai.scheduler/last-start-timestamp"
	StaleAnno         = "kai.scheduler/stale-podgroup-timestamp"
	ReserveIndexAnno  = "run.ai/reserve_for_gpu_index"
	ReservationPrefix = "gpu-reservation"
)

// Epoch is the fixed base of all creation timestamps (ranks are seconds after it).
var Epoch = time.Date(2020, 1, 1, 0, 0, 0, 0, time.UTC)

type World struct {
	Nodes           []*corev1.Node               `json:"nodes,omitempty"`
	Queues          []*schedv2.Queue             `json:"queues,omitempty"`
	PodGroups       []*schedv2alpha2.PodGroup    `json:"podGroups,omitempty"`
	Pods            []*corev1.Pod                `json:"pods,omitempty"`
	BindRequests    []*schedv1alpha2.BindRequest `json:"bindRequests,omitempty"`
	PriorityClasses []*schedv1.PriorityClass     `json:"priorityClasses,omitempty"`
	Topologies      []*kaiv1alpha1.Topology      `json:"topologies,omitempty"`
	ConfigMaps      []*corev1.ConfigMap          `json:"configMaps,omitempty"`
	// Dynamic Resource Allocation (resource.k8s.io/v1); see dra.go. A world holding any of these
	// runs with the DRA feature gate on.
	ResourceClaims []*resourceapi.ResourceClaim `json:"resourceClaims,omitempty"`
	ResourceSlices []*resourceapi.ResourceSlice `json:"resourceSlices,omitempty"`
	DeviceClasses  []*resourceapi.DeviceClass   `json:"deviceClasses,omitempty"`
}

func (w *World) Clone() *World {
	c := &World{}
	for _, o := range w.Nodes {
		c.Nodes = append(c.Nodes, o.DeepCopy())
	}
	for _, o := range w.Queues {
		c.Queues = append(c.Queues, o.DeepCopy())
	}
	for _, o := range w.PodGroups {
		c.PodGroups = append(c.PodGroups, o.DeepCopy())
	}
	for _, o := range w.Pods {
		c.Pods = append(c.Pods, o.DeepCopy())
	}
	for _, o := range w.BindRequests {
		c.BindRequests = append(c.BindRequests, o.DeepCopy())
	}
	for _, o := range w.PriorityClasses {
		c.PriorityClasses = append(c.PriorityClasses, o.DeepCopy())
	}
	for _, o := range w.Topologies {
		c.Topologies = append(c.Topologies, o.DeepCopy())
	}
	for _, o := range w.ConfigMaps {
		c.ConfigMaps = append(c.ConfigMaps, o.DeepCopy())
	}
	for _, o := range w.ResourceClaims {
		c.ResourceClaims = append(c.ResourceClaims, o.DeepCopy())
	}
	for _, o := range w.ResourceSlices {
		c.ResourceSlices = append(c.ResourceSlices, o.DeepCopy())
	}
	for _, o := range w.DeviceClasses {
		c.DeviceClasses = append(c.DeviceClasses, o.DeepCopy())
	}
	return c
}

func (w *World) JSON() []byte {
	b, err := json.Marshal(w)
	if err != nil {
		panic(err)
	}
	return b
}

func FromJSON(b []byte) (*World, error) {
	w := &World{}
	if err := json.Unmarshal(b, w); err != nil {
		return nil, err
	}
	return w, nil
}

func (w *World) Pod(name string) *corev1.Pod {
	for _, p := range w.Pods {
		if p.Name == name && p.Namespace == NS {
			return p
		}
	}
	return nil
}

func (w *World) Node(name string) *corev1.Node {
	for _, n := range w.Nodes {
		if n.Name == name {
			return n
		}
	}
	return nil
}

func (w *World) PodGroup(name string) *schedv2alpha2.PodGroup {
	for _, p := range w.PodGroups {
		if p.Name == name {
			return p
		}
	}
	return nil
}

func (w *World) Queue(name string) *schedv2.Queue {
	for _, p := range w.Queues {
		if p.Name == name {
			return p
		}
	}
	return nil
}

func (w *World) BindRequestFor(pod string) *schedv1alpha2.BindRequest {
	for _, b := range w.BindRequests {
		if b.Spec.PodName == pod && b.Namespace == NS {
			return b
		}
	}
	return nil
}

func (w *World) RemovePod(ns, name string) {
	out := w.Pods[:0]
	for _, p := range w.Pods {
		if !(p.Name == name && p.Namespace == ns) {
			out = append(out, p)
		}
	}
	w.Pods = out
}

func (w *World) RemoveBindRequest(name string) {
	out := w.BindRequests[:0]
	for _, p := range w.BindRequests {
		if p.Name != name {
			out = append(out, p)
		}
	}
	w.BindRequests = out
}

func (w *World) RemoveNode(name string) {
	out := w.Nodes[:0]
	for _, p := range w.Nodes {
		if p.Name != name {
			out = append(out, p)
		}
	}
	w.Nodes = out
}

// ---------------------------------------------------------------- builders

type NodeOpt struct {
	Name      string
	CPU       string // cores
	Mem       string
	Pods      int
	GPUs      int
	GPUMemMiB int // nvidia.com/gpu.memory label; 0 = absent
	Labels    map[string]string
	Taints    []corev1.Taint
	Unsched   bool
	NotReady  bool
	Extra     map[string]int64 // extended / MIG resources
}

var processStart = time.Now().UTC()

func MkNode(o NodeOpt) *corev1.Node {
	if o.CPU == "" {
		o.CPU = "8"
	}
	if o.Mem == "" {
		o.Mem = "16Gi"
	}
	if o.Pods == 0 {
		o.Pods = 110
	}
	rl := corev1.ResourceList{
		corev1.ResourceCPU:    resource.MustParse(o.CPU),
		corev1.ResourceMemory: resource.MustParse(o.Mem),
		corev1.ResourcePods:   *resource.NewQuantity(int64(o.Pods), resource.DecimalSI),
	}
	if o.GPUs > 0 {
		rl[GpuResource] = *resource.NewQuantity(int64(o.GPUs), resource.DecimalSI)
	}
	for k, v := range o.Extra {
		rl[corev1.ResourceName(k)] = *resource.NewQuantity(v, resource.DecimalSI)
	}
	labels := map[string]string{"kubernetes.io/hostname": o.Name}
	for k, v := range o.Labels {
		labels[k] = v
	}
	if o.GPUMemMiB > 0 {
		labels[GpuMemoryLabel] = strconv.Itoa(o.GPUMemMiB)
	}
	if o.GPUs > 0 {
		labels["nvidia.com/gpu.count"] = strconv.Itoa(o.GPUs)
	}
	ready := corev1.ConditionTrue
	if o.NotReady {
		ready = corev1.ConditionFalse
	}
	return &corev1.Node{
		TypeMeta:   metav1.TypeMeta{APIVersion: "v1", Kind: "Node"},
		ObjectMeta: metav1.ObjectMeta{Name: o.Name, Labels: labels, UID: types.UID("node-" + o.Name)},
		Spec:       corev1.NodeSpec{Taints: o.Taints, Unschedulable: o.Unsched},
		Status: corev1.NodeStatus{
			Capacity:    rl.DeepCopy(),
			Allocatable: rl,
			Conditions:  []corev1.NodeCondition{{Type: corev1.NodeReady, Status: ready}},
		},
	}
}

type QRes struct {
	Quota, Limit, Weight float64
}

func QUnlimited() QRes { return QRes{Quota: -1, Limit: -1, Weight: 1} }

type QueueOpt struct {
	Name, Parent  string
	GPU, CPU, Mem QRes
	Priority      *int
	PreemptMinRT  string
	ReclaimMinRT  string
}

func qr(r QRes) schedv2.QueueResource {
	return schedv2.QueueResource{Quota: r.Quota, Limit: r.Limit, OverQuotaWeight: r.Weight}
}

func MkQueue(o QueueOpt) *schedv2.Queue {
	q := &schedv2.Queue{
		TypeMeta:   metav1.TypeMeta{APIVersion: "scheduling.run.ai/v2", Kind: "Queue"},
		ObjectMeta: metav1.ObjectMeta{Name: o.Name, UID: types.UID("queue-" + o.Name), CreationTimestamp: metav1.NewTime(Epoch)},
		Spec: schedv2.QueueSpec{
			ParentQueue: o.Parent,
			Resources:   &schedv2.QueueResources{GPU: qr(o.GPU), CPU: qr(o.CPU), Memory: qr(o.Mem)},
			Priority:    o.Priority,
		},
	}
	if o.PreemptMinRT != "" {
		d, err := time.ParseDuration(o.PreemptMinRT)
		if err != nil {
			panic(err)
		}
		q.Spec.PreemptMinRuntime = &metav1.Duration{Duration: d}
	}
	if o.ReclaimMinRT != "" {
		d, err := time.ParseDuration(o.ReclaimMinRT)
		if err != nil {
			panic(err)
		}
		q.Spec.ReclaimMinRuntime = &metav1.Duration{Duration: d}
	}
	return q
}

// GQueue: queue with GPU resource settings and unlimited cpu/memory.
func GQueue(name, parent string, quota, limit, weight float64) *schedv2.Queue {
	return MkQueue(QueueOpt{Name: name, Parent: parent, GPU: QRes{quota, limit, weight},
		CPU: QUnlimited(), Mem: QUnlimited()})
}

type PGOpt struct {
	Name, Queue    string
	MinMember      int32
	PriorityClass  string
	Preemptibility string
	Rank           int // creation order
	SubGroups      []schedv2alpha2.SubGroup
	Topology       *schedv2alpha2.TopologyConstraint
	LastStart      string // "", "old", "fresh"
	Annotations    map[string]string
}

func MkPodGroup(o PGOpt) *schedv2alpha2.PodGroup {
	pg := &schedv2alpha2.PodGroup{
		TypeMeta: metav1.TypeMeta{APIVersion: "scheduling.run.ai/v2alpha2", Kind: "PodGroup"},
		ObjectMeta: metav1.ObjectMeta{Name: o.Name, Namespace: NS, UID: types.UID("pg-" + o.Name),
			CreationTimestamp: metav1.NewTime(Epoch.Add(time.Duration(o.Rank) * time.Second)),
			Labels:            map[string]string{QueueLabel: o.Queue},
			Annotations:       map[string]string{},
		},
		Spec: schedv2alpha2.PodGroupSpec{
			Queue:             o.Queue,
			MinMember:         o.MinMember,
			PriorityClassName: o.PriorityClass,
			Preemptibility:    schedv2alpha2.Preemptibility(o.Preemptibility),
			SubGroups:         o.SubGroups,
			MarkUnschedulable: ptr.To(false),
		},
	}
	if o.Topology != nil {
		pg.Spec.TopologyConstraint = *o.Topology
	}
	switch o.LastStart {
	case "old":
		pg.Annotations[LastStartAnno] = Epoch.Format(time.RFC3339)
	case "fresh":
		// "fresh" = started a minute before this process did: inside a min-runtime of 1000h, outside
		// one of 0s. (A stamp in the future would be "inside" even a zero min-runtime and hide every
		// case in which a recently started workload is NOT protected.)
		pg.Annotations[LastStartAnno] = processStart.Add(-time.Minute).Format(time.RFC3339)
	}
	for k, v := range o.Annotations {
		pg.Annotations[k] = v
	}
	return pg
}

// Shape of a pod's resource request.
type Shape struct {
	CPUm     int64   // millicores (0 = none)
	MemMi    int64   // MiB (0 = none)
	GPUs     int64   // whole GPUs
	Fraction string  // gpu-fraction annotation ("" = none)
	GPUMem   string  // gpu-memory annotation MiB
	NumDev   string  // gpu-fraction-num-devices
	Extra    map[string]int64 // MIG / extended
	fracF    float64
}

func (s Shape) String() string {
	parts := []string{}
	if s.CPUm > 0 {
		parts = append(parts, fmt.Sprintf("cpu%dm", s.CPUm))
	}
	if s.MemMi > 0 {
		parts = append(parts, fmt.Sprintf("mem%dMi", s.MemMi))
	}
	if s.GPUs > 0 {
		parts = append(parts, fmt.Sprintf("gpu%d", s.GPUs))
	}
	if s.Fraction != "" {
		parts = append(parts, "frac"+s.Fraction)
	}
	if s.GPUMem != "" {
		parts = append(parts, "gmem"+s.GPUMem)
	}
	if s.NumDev != "" {
		parts = append(parts, "x"+s.NumDev)
	}
	keys := []string{}
	for k := range s.Extra {
		keys = append(keys, k)
	}
	sort.Strings(keys)
	for _, k := range keys {
		parts = append(parts, fmt.Sprintf("%s=%d", k, s.Extra[k]))
	}
	return strings.Join(parts, "+")
}

type PodOpt struct {
	Name, Group string
	SubGroup    string
	Shape       Shape
	Rank        int
	Phase       corev1.PodPhase // default Pending
	Node        string          // spec.nodeName
	Deleting    bool
	Gated       bool
	GPUGroups   []string // labels (for running fractional pods)
	Received    string   // received-resource-type annotation
	Labels      map[string]string
	Claims      []string // names of ResourceClaims the pod references (spec.resourceClaims + container claims)
	Mutate      func(p *corev1.Pod)
}

func MkPod(o PodOpt) *corev1.Pod {
	req := corev1.ResourceList{}
	if o.Shape.CPUm > 0 {
		req[corev1.ResourceCPU] = *resource.NewMilliQuantity(o.Shape.CPUm, resource.DecimalSI)
	}
	if o.Shape.MemMi > 0 {
		req[corev1.ResourceMemory] = *resource.NewQuantity(o.Shape.MemMi*1024*1024, resource.BinarySI)
	}
	if o.Shape.GPUs > 0 {
		req[GpuResource] = *resource.NewQuantity(o.Shape.GPUs, resource.DecimalSI)
	}
	for k, v := range o.Shape.Extra {
		req[corev1.ResourceName(k)] = *resource.NewQuantity(v, resource.DecimalSI)
	}
	annos := map[string]string{}
	if o.Group != "" {
		annos[PodGroupAnno] = o.Group
	}
	if o.Shape.Fraction != "" {
		annos[GpuFractionAnno] = o.Shape.Fraction
	}
	if o.Shape.GPUMem != "" {
		annos[GpuMemoryAnno] = o.Shape.GPUMem
	}
	if o.Shape.NumDev != "" {
		annos[NumDevicesAnno] = o.Shape.NumDev
	}
	if o.Received != "" {
		annos[ReceivedTypeAnno] = o.Received
	}
	labels := map[string]string{}
	for k, v := range o.Labels {
		labels[k] = v
	}
	if o.SubGroup != "" {
		labels[SubGroupLabel] = o.SubGroup
	}
	SetGPUGroupLabels(labels, o.Shape.NumDev, o.GPUGroups)
	phase := o.Phase
	if phase == "" {
		phase = corev1.PodPending
	}
	p := &corev1.Pod{
		TypeMeta: metav1.TypeMeta{APIVersion: "v1", Kind: "Pod"},
		ObjectMeta: metav1.ObjectMeta{Name: o.Name, Namespace: NS, UID: types.UID(o.Name),
			CreationTimestamp: metav1.NewTime(Epoch.Add(time.Duration(o.Rank) * time.Second)),
			Labels:            labels, Annotations: annos},
		Spec: corev1.PodSpec{
			SchedulerName: SchedulerName,
			NodeName:      o.Node,
			Containers: []corev1.Container{{Name: "c", Image: "img",
				Resources: corev1.ResourceRequirements{Requests: req, Limits: req.DeepCopy()}}},
		},
		Status: corev1.PodStatus{Phase: phase},
	}
	if o.Node != "" {
		p.Status.Conditions = []corev1.PodCondition{{Type: corev1.PodScheduled, Status: corev1.ConditionTrue}}
	}
	if o.Deleting {
		t := metav1.NewTime(Epoch.Add(24 * time.Hour))
		p.DeletionTimestamp = &t
		p.Finalizers = []string{"verif/terminating"}
	}
	if o.Gated {
		p.Spec.SchedulingGates = []corev1.PodSchedulingGate{{Name: "g"}}
	}
	AddPodClaims(p, o.Claims...)
	if o.Mutate != nil {
		o.Mutate(p)
	}
	return p
}

// SetGPUGroupLabels labels a consumer pod the way the binder does: single-device sharers get the
// plain label, multi-device sharers get one `runai-gpu-group/<g>` label per group.
func SetGPUGroupLabels(labels map[string]string, numDev string, groups []string) {
	if len(groups) == 0 {
		return
	}
	n, _ := strconv.Atoi(numDev)
	if n > 1 {
		for _, g := range groups {
			labels[MultiGroupPrefix+g] = g
		}
	} else {
		labels[GPUGroupLabel] = groups[0]
	}
}

// PodGPUGroups reads the groups off a pod's labels (ground truth, independent of repo helpers).
func PodGPUGroups(p *corev1.Pod) []string {
	set := map[string]bool{}
	for k, v := range p.Labels {
		if k == GPUGroupLabel || strings.HasPrefix(k, MultiGroupPrefix) {
			set[v] = true
		}
	}
	out := []string{}
	for g := range set {
		out = append(out, g)
	}
	sort.Strings(out)
	return out
}

func MkReservationPod(node, group string, idx int) *corev1.Pod {
	name := fmt.Sprintf("%s-%s-%s", ReservationPrefix, node, group)
	req := corev1.ResourceList{GpuResource: *resource.NewQuantity(1, resource.DecimalSI)}
	return &corev1.Pod{
		TypeMeta: metav1.TypeMeta{APIVersion: "v1", Kind: "Pod"},
		ObjectMeta: metav1.ObjectMeta{Name: name, Namespace: ReservationNS, UID: types.UID(name),
			CreationTimestamp: metav1.NewTime(Epoch),
			Labels:            map[string]string{GPUGroupLabel: group, "app": "kai-resource-reservation"},
			Annotations:       map[string]string{ReserveIndexAnno: strconv.Itoa(idx)}},
		Spec: corev1.PodSpec{NodeName: node,
			Containers: []corev1.Container{{Name: "resource-reservation", Image: "img",
				Resources: corev1.ResourceRequirements{Requests: req, Limits: req.DeepCopy()}}}},
		Status: corev1.PodStatus{Phase: corev1.PodRunning,
			Conditions: []corev1.PodCondition{{Type: corev1.PodScheduled, Status: corev1.ConditionTrue}}},
	}
}

func IsReservationPod(p *corev1.Pod) bool {
	return p.Namespace == ReservationNS
}

func MkPriorityClass(name string, v int32) *schedv1.PriorityClass {
	return &schedv1.PriorityClass{
		TypeMeta:   metav1.TypeMeta{APIVersion: "scheduling.k8s.io/v1", Kind: "PriorityClass"},
		ObjectMeta: metav1.ObjectMeta{Name: name, UID: types.UID("pc-" + name)}, Value: v}
}

// StdPriorityClasses: p50 (train, preemptible) p75 p100 (build, non-preemptible) p125.
func StdPriorityClasses() []*schedv1.PriorityClass {
	return []*schedv1.PriorityClass{MkPriorityClass("p50", 50), MkPriorityClass("p75", 75),
		MkPriorityClass("p100", 100), MkPriorityClass("p125", 125),
		// the ends of the legal value range (user classes: <= 1e9, any negative int32)
		MkPriorityClass("pmin", -2147483648), MkPriorityClass("pbig", 1000000000)}
}

func MkBindRequest(pod *corev1.Pod, node string, groups []string, received string, portion string, count int) *schedv1alpha2.BindRequest {
	return &schedv1alpha2.BindRequest{
		TypeMeta: metav1.TypeMeta{APIVersion: "scheduling.run.ai/v1alpha2", Kind: "BindRequest"},
		ObjectMeta: metav1.ObjectMeta{Name: pod.Name, Namespace: pod.Namespace, UID: types.UID("br-" + pod.Name),
			Labels: map[string]string{"selected-node": node},
			OwnerReferences: []metav1.OwnerReference{{APIVersion: "v1", Kind: "Pod", Name: pod.Name, UID: pod.UID}}},
		Spec: schedv1alpha2.BindRequestSpec{PodName: pod.Name, SelectedNode: node, SelectedGPUGroups: groups,
			ReceivedResourceType: received,
			ReceivedGPU:          &schedv1alpha2.ReceivedGPU{Count: count, Portion: portion}},
	}
}
