package oracle

import (
	"fmt"
	"sort"
	"strings"

	corev1 "k8s.io/api/core/v1"
	metav1 "k8s.io/apimachinery/pkg/apis/meta/v1"

	kaiv1alpha1 "github.com/NVIDIA/KAI-scheduler/pkg/apis/kai/v1alpha1"

	"verif/mc/clustermc"
	"verif/mc/engine"
	"verif/mc/world"
)

// Reference predicates written from the Kubernetes API semantics, only for the operators the C04
// grammar uses.

func nodeReady(n *corev1.Node) bool {
	for _, c := range n.Status.Conditions {
		if c.Type == corev1.NodeReady {
			return c.Status == corev1.ConditionTrue
		}
	}
	return false
}

func matchExpr(labels map[string]string, e corev1.NodeSelectorRequirement) bool {
	v, has := labels[e.Key]
	switch e.Operator {
	case corev1.NodeSelectorOpIn:
		if !has {
			return false
		}
		for _, x := range e.Values {
			if x == v {
				return true
			}
		}
		return false
	case corev1.NodeSelectorOpNotIn:
		if !has {
			return true
		}
		for _, x := range e.Values {
			if x == v {
				return false
			}
		}
		return true
	case corev1.NodeSelectorOpExists:
		return has
	case corev1.NodeSelectorOpDoesNotExist:
		return !has
	}
	return false
}

func requiredNodeAffinityOK(p *corev1.Pod, n *corev1.Node) bool {
	if p.Spec.Affinity == nil || p.Spec.Affinity.NodeAffinity == nil || p.Spec.Affinity.NodeAffinity.RequiredDuringSchedulingIgnoredDuringExecution == nil {
		return true
	}
	terms := p.Spec.Affinity.NodeAffinity.RequiredDuringSchedulingIgnoredDuringExecution.NodeSelectorTerms
	for _, t := range terms { // OR of terms
		ok := true
		for _, e := range t.MatchExpressions {
			if !matchExpr(n.Labels, e) {
				ok = false
			}
		}
		if len(t.MatchFields) > 0 {
			ok = false // not in the grammar
		}
		if ok && (len(t.MatchExpressions) > 0) {
			return true
		}
	}
	return false
}

func tolerates(p *corev1.Pod, t corev1.Taint) bool {
	for _, tol := range p.Spec.Tolerations {
		if tol.Effect != "" && tol.Effect != t.Effect {
			continue
		}
		if tol.Key == "" {
			if tol.Operator == corev1.TolerationOpExists {
				return true
			}
			continue
		}
		if tol.Key != t.Key {
			continue
		}
		if tol.Operator == corev1.TolerationOpExists {
			return true
		}
		if (tol.Operator == corev1.TolerationOpEqual || tol.Operator == "") && tol.Value == t.Value {
			return true
		}
	}
	return false
}

func selectorMatches(sel *metav1.LabelSelector, labels map[string]string) bool {
	if sel == nil {
		return false
	}
	for k, v := range sel.MatchLabels {
		if labels[k] != v {
			return false
		}
	}
	for _, e := range sel.MatchExpressions {
		v, has := labels[e.Key]
		switch e.Operator {
		case metav1.LabelSelectorOpIn:
			ok := false
			for _, x := range e.Values {
				if has && x == v {
					ok = true
				}
			}
			if !ok {
				return false
			}
		case metav1.LabelSelectorOpNotIn:
			for _, x := range e.Values {
				if has && x == v {
					return false
				}
			}
		case metav1.LabelSelectorOpExists:
			if !has {
				return false
			}
		case metav1.LabelSelectorOpDoesNotExist:
			if has {
				return false
			}
		}
	}
	return true
}

type placedPod struct {
	pod  *corev1.Pod
	node string
}

func sameDomain(w *world.World, key, n1, n2 string) bool {
	a, b := w.Node(n1), w.Node(n2)
	if a == nil || b == nil {
		return false
	}
	va, oka := a.Labels[key]
	vb, okb := b.Labels[key]
	return oka && okb && va == vb
}

// ConstraintOracle implements C04 on the binds and nominations of one cycle.
func ConstraintOracle() clustermc.Oracle {
	return func(t *clustermc.Transition) []engine.Violation {
		var out []engine.Violation
		w := t.Pre
		jobs := Jobs(w)
		add := func(key, format string, a ...any) {
			out = append(out, engine.Violation{Property: "C04", Key: "C04/" + key, Message: fmt.Sprintf(format, a...)})
		}
		gone := map[string]bool{} // terminating before the cycle or evicted in it
		for _, p := range w.Pods {
			if p.DeletionTimestamp != nil {
				gone[p.Name] = true
			}
		}
		for _, d := range t.Res.Decisions {
			if d.Kind == "evict" {
				gone[d.Pod] = true
			}
		}
		// pods holding a place: occupants that stay + placements made so far in this cycle
		var present []placedPod
		for _, o := range Occupants(w) {
			if world.IsReservationPod(o.Pod) || gone[o.Pod.Name] {
				continue
			}
			present = append(present, placedPod{o.Pod, o.Node})
		}
		topoOf := func(name string) *kaiv1alpha1.Topology {
			for _, tp := range w.Topologies {
				if tp.Name == name {
					return tp
				}
			}
			return nil
		}
		placedThisCycle := map[string]string{} // pod -> node (last placement)
		for _, d := range t.Res.Decisions {
			if (d.Kind != "bind" && d.Kind != "pipeline") || d.Failed {
				continue
			}
			p := w.Pod(d.Pod)
			n := w.Node(d.Node)
			if p == nil {
				continue
			}
			t.Stats["placements_checked"]++
			kind := d.Kind
			if n == nil {
				add("unknown-node kind="+kind, "%s of %s to node %s which does not exist", kind, d.Pod, d.Node)
				continue
			}
			if !nodeReady(n) {
				add("node-not-ready kind="+kind, "%s of %s to node %s which is not Ready", kind, d.Pod, d.Node)
			}
			if n.Spec.Unschedulable {
				add("node-unschedulable kind="+kind, "%s of %s to cordoned node %s", kind, d.Pod, d.Node)
			}
			if t.Cfg.NodePoolKey != "" {
				v, has := n.Labels[t.Cfg.NodePoolKey]
				if (t.Cfg.NodePoolValue != "" && v != t.Cfg.NodePoolValue) || (t.Cfg.NodePoolValue == "" && has) {
					add("outside-node-pool kind="+kind, "%s of %s to node %s (%s=%q) outside node pool %q", kind, d.Pod, d.Node, t.Cfg.NodePoolKey, v, t.Cfg.NodePoolValue)
				}
			}
			for k, v := range p.Spec.NodeSelector {
				if n.Labels[k] != v {
					add("node-selector kind="+kind, "%s of %s to node %s: nodeSelector %s=%s not matched (labels %v)", kind, d.Pod, d.Node, k, v, n.Labels)
					break
				}
			}
			if !requiredNodeAffinityOK(p, n) {
				add("node-affinity kind="+kind, "%s of %s to node %s violates its required node affinity (labels %v)", kind, d.Pod, d.Node, n.Labels)
			}
			for _, taint := range n.Spec.Taints {
				if taint.Effect != corev1.TaintEffectNoSchedule && taint.Effect != corev1.TaintEffectNoExecute {
					continue
				}
				if !tolerates(p, taint) {
					add("taint-not-tolerated effect="+string(taint.Effect)+" kind="+kind, "%s of %s to node %s with untolerated taint %s=%s:%s", kind, d.Pod, d.Node, taint.Key, taint.Value, taint.Effect)
				}
			}
			// required pod (anti-)affinity, own terms and terms of pods already placed
			others := []placedPod{}
			for _, q := range present {
				if q.pod.Name != p.Name {
					others = append(others, q)
				}
			}
			if a := p.Spec.Affinity; a != nil && a.PodAntiAffinity != nil {
				for _, term := range a.PodAntiAffinity.RequiredDuringSchedulingIgnoredDuringExecution {
					for _, q := range others {
						if q.pod.Namespace == p.Namespace && selectorMatches(term.LabelSelector, q.pod.Labels) && sameDomain(w, term.TopologyKey, d.Node, q.node) {
							add("own-anti-affinity key="+term.TopologyKey+" kind="+kind, "%s of %s to node %s: its required anti-affinity (%s) is violated by %s on %s", kind, d.Pod, d.Node, term.TopologyKey, q.pod.Name, q.node)
						}
					}
				}
			}
			for _, q := range others {
				if a := q.pod.Spec.Affinity; a != nil && a.PodAntiAffinity != nil {
					for _, term := range a.PodAntiAffinity.RequiredDuringSchedulingIgnoredDuringExecution {
						if q.pod.Namespace == p.Namespace && selectorMatches(term.LabelSelector, p.Labels) && sameDomain(w, term.TopologyKey, d.Node, q.node) {
							add("existing-pod-anti-affinity key="+term.TopologyKey+" kind="+kind, "%s of %s to node %s violates the required anti-affinity (%s) of %s already placed on %s", kind, d.Pod, d.Node, term.TopologyKey, q.pod.Name, q.node)
						}
					}
				}
			}
			if a := p.Spec.Affinity; a != nil && a.PodAffinity != nil {
				for _, term := range a.PodAffinity.RequiredDuringSchedulingIgnoredDuringExecution {
					found, anyMatch := false, false
					for _, q := range others {
						if q.pod.Namespace == p.Namespace && selectorMatches(term.LabelSelector, q.pod.Labels) {
							anyMatch = true
							if sameDomain(w, term.TopologyKey, d.Node, q.node) {
								found = true
							}
						}
					}
					// Kubernetes: the first pod of a self-affine group may start anywhere (the key must exist)
					if !found && !anyMatch && selectorMatches(term.LabelSelector, p.Labels) {
						if _, has := n.Labels[term.TopologyKey]; has {
							found = true
						}
					}
					// pods that are going away in this very cycle may still have satisfied it for a bind: not alarmed
					if !found {
						for _, q := range Occupants(w) {
							if gone[q.Pod.Name] && selectorMatches(term.LabelSelector, q.Pod.Labels) && sameDomain(w, term.TopologyKey, d.Node, q.Node) {
								found = true
							}
						}
					}
					if !found {
						add("own-pod-affinity key="+term.TopologyKey+" kind="+kind, "%s of %s to node %s: no pod matching its required pod affinity in the same %s domain", kind, d.Pod, d.Node, term.TopologyKey)
					}
				}
			}
			// record the placement for later decisions of this cycle
			next := present[:0:0]
			for _, q := range present {
				if q.pod.Name != p.Name {
					next = append(next, q)
				}
			}
			present = append(next, placedPod{p, d.Node})
			placedThisCycle[p.Name] = d.Node
		}

		// topology: required levels on groups and sub-groups
		type scope struct {
			job, name string
			tc       struct{ topo, level string }
			pods     []*corev1.Pod
		}
		for _, j := range jobs {
			var scopes []scope
			if tc := j.PG.Spec.TopologyConstraint; tc.Topology != "" && tc.RequiredTopologyLevel != "" {
				s := scope{job: j.Name, name: "<group>", pods: j.Pods}
				s.tc.topo, s.tc.level = tc.Topology, tc.RequiredTopologyLevel
				scopes = append(scopes, s)
			}
			// sub-groups: a sub-group's scope is the pods of all leaf sub-groups below it
			parent := map[string]string{}
			for _, sg := range j.PG.Spec.SubGroups {
				if sg.Parent != nil {
					parent[sg.Name] = strings.ToLower(*sg.Parent)
				}
			}
			under := func(leaf, anc string) bool {
				for cur := leaf; cur != ""; cur = parent[cur] {
					if cur == anc {
						return true
					}
				}
				return false
			}
			for _, sg := range j.PG.Spec.SubGroups {
				if sg.TopologyConstraint == nil || sg.TopologyConstraint.RequiredTopologyLevel == "" {
					continue
				}
				topo := sg.TopologyConstraint.Topology
				if topo == "" {
					topo = j.PG.Spec.TopologyConstraint.Topology
				}
				s := scope{job: j.Name, name: sg.Name}
				s.tc.topo, s.tc.level = topo, sg.TopologyConstraint.RequiredTopologyLevel
				for _, p := range j.Pods {
					if under(p.Labels[world.SubGroupLabel], sg.Name) {
						s.pods = append(s.pods, p)
					}
				}
				scopes = append(scopes, s)
			}
			for _, s := range scopes {
				placedAny := false
				nodesOf := map[string]string{} // pod -> node
				for _, p := range s.pods {
					if n, ok := placedThisCycle[p.Name]; ok {
						nodesOf[p.Name] = n
						placedAny = true
					} else if ActiveAllocated(w, p) && !gone[p.Name] {
						nodesOf[p.Name] = NodeOf(w, p)
					}
				}
				if !placedAny {
					continue
				}
				t.Stats["topology_scopes_checked"]++
				tp := topoOf(s.tc.topo)
				if tp == nil {
					add("unknown-topology-placed", "job %s scope %s names topology %q which does not exist, yet pods were placed", s.job, s.name, s.tc.topo)
					continue
				}
				// levels from the coarsest down to the required one
				var keys []string
				foundLevel := false
				for _, l := range tp.Spec.Levels {
					keys = append(keys, l.NodeLabel)
					if l.NodeLabel == s.tc.level {
						foundLevel = true
						break
					}
				}
				if !foundLevel {
					add("unknown-topology-level-placed", "job %s scope %s requires level %q which topology %s does not define, yet pods were placed", s.job, s.name, s.tc.level, s.tc.topo)
					continue
				}
				domains := map[string][]string{}
				pods := []string{}
				for p := range nodesOf {
					pods = append(pods, p)
				}
				sort.Strings(pods)
				for _, p := range pods {
					n := w.Node(nodesOf[p])
					if n == nil {
						continue
					}
					vals := []string{}
					missing := false
					for _, k := range keys {
						v, has := n.Labels[k]
						if !has {
							missing = true
						}
						vals = append(vals, v)
					}
					if missing {
						if _, now := placedThisCycle[p]; now {
							add("node-lacks-topology-label", "job %s scope %s: pod %s placed on node %s which lacks a label of topology %s up to level %s", s.job, s.name, p, n.Name, s.tc.topo, s.tc.level)
						}
						continue
					}
					dom := strings.Join(vals, "/")
					domains[dom] = append(domains[dom], p+"@"+n.Name)
				}
				if len(domains) > 1 {
					scopeKind := "group"
					if s.name != "<group>" {
						scopeKind = "sub-group"
					}
					add("required-topology-spans-domains scope="+scopeKind, "job %s scope %s requires one %s domain of topology %s, but its pods lie in %d domains: %v", s.job, s.name, s.tc.level, s.tc.topo, len(domains), domains)
				}
			}
		}
		return out
	}
}
