// Package oracle holds the reference computations. They read ONLY world objects (pod specs,
// node.status.allocatable, labels, bind requests) and recorded decisions — never the scheduler's
// own counters (NodeInfo.Idle, QueueAttributes, ...).
package oracle

import (
	"fmt"
	"math"
	"sort"
	"strconv"
	"strings"

	corev1 "k8s.io/api/core/v1"

	schedv1alpha2 "github.com/NVIDIA/KAI-scheduler/pkg/apis/scheduling/v1alpha2"

	"verif/mc/clustermc"
	"verif/mc/engine"
	"verif/mc/schedrun"
	"verif/mc/world"
)

// PodReq is a pod's resource request, recomputed from its spec and annotations.
type PodReq struct {
	MilliCPU int64
	Memory   int64
	WholeGPU int64
	Extended map[string]int64
	// sharing
	Fraction float64 // per device portion (0 if none)
	GPUMem   int64   // per device MiB (0 if none)
	NumDev   int64   // devices for a sharing request (>=1 when sharing)
}

func (r PodReq) Sharing() bool { return r.Fraction > 0 || r.GPUMem > 0 }

func maxI(a, b int64) int64 {
	if a > b {
		return a
	}
	return b
}

// ReqOf: sum of containers, max with each init container, + overhead (Kubernetes semantics).
func ReqOf(p *corev1.Pod) PodReq {
	r := PodReq{Extended: map[string]int64{}}
	add := func(rl corev1.ResourceList, into *PodReq) {
		for k, q := range rl {
			switch k {
			case corev1.ResourceCPU:
				into.MilliCPU += q.MilliValue()
			case corev1.ResourceMemory:
				into.Memory += q.Value()
			case world.GpuResource:
				into.WholeGPU += q.Value()
			default:
				into.Extended[string(k)] += q.Value()
			}
		}
	}
	for _, c := range p.Spec.Containers {
		add(c.Resources.Requests, &r)
	}
	for _, c := range p.Spec.InitContainers {
		ir := PodReq{Extended: map[string]int64{}}
		add(c.Resources.Requests, &ir)
		r.MilliCPU = maxI(r.MilliCPU, ir.MilliCPU)
		r.Memory = maxI(r.Memory, ir.Memory)
		r.WholeGPU = maxI(r.WholeGPU, ir.WholeGPU)
		for k, v := range ir.Extended {
			r.Extended[k] = maxI(r.Extended[k], v)
		}
	}
	add(p.Spec.Overhead, &r)
	if f, err := strconv.ParseFloat(p.Annotations[world.GpuFractionAnno], 64); err == nil && f > 0 && f <= 1 {
		r.Fraction = f
	}
	if m, err := strconv.ParseInt(p.Annotations[world.GpuMemoryAnno], 10, 64); err == nil && m > 0 && r.Fraction == 0 {
		r.GPUMem = m
	}
	if r.Sharing() {
		r.NumDev = 1
		if n, err := strconv.ParseInt(p.Annotations[world.NumDevicesAnno], 10, 64); err == nil && n > 0 {
			r.NumDev = n
		}
	}
	return r
}

// NodeGPUMemory: per-device memory of a node as the platform defines it (label, floored to 100 MiB);
// 0 if unknown.
func NodeGPUMemory(n *corev1.Node) int64 {
	v, err := strconv.ParseInt(n.Labels[world.GpuMemoryLabel], 10, 64)
	if err != nil {
		return 0
	}
	if v >= 1024*1024 {
		v = v / (1024 * 1024)
	}
	return v - v%100
}

// Occupant is a pod that holds capacity of a node.
type Occupant struct {
	Pod    *corev1.Pod
	Node   string
	Groups []string // GPU groups it is attached to (labels, or live bind request)
	Why    string
}

func isTerminalPhase(p *corev1.Pod) bool {
	return p.Status.Phase == corev1.PodSucceeded || p.Status.Phase == corev1.PodFailed
}

func brTerminallyFailed(b *schedv1alpha2.BindRequest) bool {
	if b.Status.Phase != schedv1alpha2.BindRequestPhaseFailed {
		return false
	}
	if b.Spec.BackoffLimit == nil {
		return true
	}
	return b.Status.FailedAttempts >= *b.Spec.BackoffLimit
}

// Occupants lists the pods occupying nodes in a world: nodeName set (running, bound, terminating)
// or a live bind request (being bound).
func Occupants(w *world.World) []Occupant {
	var out []Occupant
	for _, p := range w.Pods {
		if isTerminalPhase(p) {
			continue
		}
		if p.Spec.NodeName != "" {
			groups := world.PodGPUGroups(p)
			why := "nodeName"
			if br := brFor(w, p); br != nil && len(groups) == 0 && !brTerminallyFailed(br) {
				groups = append([]string{}, br.Spec.SelectedGPUGroups...)
			}
			out = append(out, Occupant{Pod: p, Node: p.Spec.NodeName, Groups: groups, Why: why})
			continue
		}
		if br := brFor(w, p); br != nil && !brTerminallyFailed(br) && w.Node(br.Spec.SelectedNode) != nil {
			out = append(out, Occupant{Pod: p, Node: br.Spec.SelectedNode, Groups: append([]string{}, br.Spec.SelectedGPUGroups...), Why: "bindrequest"})
		}
	}
	return out
}

func brFor(w *world.World, p *corev1.Pod) *schedv1alpha2.BindRequest {
	for _, b := range w.BindRequests {
		if b.Namespace == p.Namespace && b.Spec.PodName == p.Name {
			return b
		}
	}
	return nil
}

type nodeUse struct {
	cpu, mem, pods, wholeGPU int64
	ext                      map[string]int64
	groups                   map[string]float64 // group -> sum of MiB-equivalent demand (or fraction if M unknown)
	groupMembers             map[string][]string
	members                  []string
}

func newUse() *nodeUse {
	return &nodeUse{ext: map[string]int64{}, groups: map[string]float64{}, groupMembers: map[string][]string{}}
}

func (u *nodeUse) add(p *corev1.Pod, groups []string, nodeMem int64, tag string) {
	r := ReqOf(p)
	u.cpu += r.MilliCPU
	u.mem += r.Memory
	u.pods++
	for k, v := range r.Extended {
		u.ext[k] += v
	}
	u.members = append(u.members, p.Name+tag)
	if world.IsReservationPod(p) {
		return // its GPU is the shared device, accounted through the consumers' groups
	}
	if r.Sharing() {
		for _, g := range groups {
			u.groups[g] += devDemand(r, nodeMem)
			u.groupMembers[g] = append(u.groupMembers[g], p.Name+tag)
		}
	} else {
		u.wholeGPU += r.WholeGPU
	}
}

// devDemand: demand on ONE device, in units where the device capacity is devCap(nodeMem).
func devDemand(r PodReq, nodeMem int64) float64 {
	if nodeMem > 0 {
		if r.GPUMem > 0 {
			return float64(r.GPUMem)
		}
		return r.Fraction * float64(nodeMem)
	}
	if r.GPUMem > 0 {
		return math.NaN() // memory request on a node of unknown device memory: not comparable
	}
	return r.Fraction
}

func devCap(nodeMem int64) float64 {
	if nodeMem > 0 {
		return float64(nodeMem)
	}
	return 1
}

func alloc(n *corev1.Node, name corev1.ResourceName) int64 {
	q, ok := n.Status.Allocatable[name]
	if !ok {
		return 0
	}
	if name == corev1.ResourceCPU {
		return q.MilliValue()
	}
	return q.Value()
}

// CapacityOracle implements C01 (node resources) and C02 (shared devices) on one cycle transition.
// props selects which violations are reported.
func CapacityOracle(props ...string) clustermc.Oracle {
	want := map[string]bool{}
	for _, p := range props {
		want[p] = true
	}
	return func(t *clustermc.Transition) []engine.Violation {
		var out []engine.Violation
		pre := t.Pre
		use := map[string]*nodeUse{}
		mem := map[string]int64{}
		for _, n := range pre.Nodes {
			use[n.Name] = newUse()
			mem[n.Name] = NodeGPUMemory(n)
		}
		occupied := map[string]bool{}
		groupNode := map[string]string{}
		for _, o := range Occupants(pre) {
			u := use[o.Node]
			if u == nil {
				continue // node does not exist
			}
			u.add(o.Pod, o.Groups, mem[o.Node], "")
			occupied[o.Pod.Namespace+"/"+o.Pod.Name] = true
			for _, g := range o.Groups {
				groupNode[g] = o.Node
			}
		}
		for _, p := range pre.Pods {
			if world.IsReservationPod(p) {
				for _, g := range world.PodGPUGroups(p) {
					groupNode[g] = p.Spec.NodeName
				}
			}
		}
		// pods the scheduler evicted / that are terminating, per node: capacity only releasing
		releasing := map[string]bool{}
		for _, p := range pre.Pods {
			if p.DeletionTimestamp != nil {
				releasing[p.Name] = true
			}
		}
		for _, d := range t.Res.Decisions {
			if d.Kind == "evict" {
				releasing[d.Pod] = true
			}
		}
		preGroups := map[string]bool{}
		for g := range groupNode {
			preGroups[g] = true
		}
		newGroups := map[string]int{}
		multiDev := map[string]bool{}
		boundOnce := map[string]int{}
		touched := map[string]bool{} // devices this cycle's binds were attached to
		// contributed[node][resource]: a pod bound in this cycle asks for the resource. A node that
		// was over-full in a resource before the cycle, to which the scheduler adds nothing of that
		// resource, is not the scheduler's decision.
		contributed := map[string]map[string]bool{}
		for _, d := range t.Res.Decisions {
			if d.Kind != "bind" {
				continue
			}
			boundOnce[d.Pod]++
			if d.Failed {
				continue
			}
			p := pre.Pod(d.Pod)
			if p == nil {
				out = append(out, engine.Violation{Property: "C01", Key: "C01/bind-unknown-pod", Message: "bind of unknown pod " + d.Pod})
				continue
			}
			u := use[d.Node]
			if u == nil {
				out = append(out, engine.Violation{Property: "C01", Key: "C01/bind-unknown-node", Message: fmt.Sprintf("pod %s bound to unknown node %s", d.Pod, d.Node)})
				continue
			}
			if occupied[world.NS+"/"+d.Pod] {
				out = append(out, engine.Violation{Property: "C01", Key: "C01/bind-of-occupying-pod", Message: fmt.Sprintf("pod %s already occupies a node and was bound again to %s", d.Pod, d.Node)})
				continue
			}
			r := ReqOf(p)
			if r.Sharing() {
				// C02: N distinct devices, none spanning nodes
				seen := map[string]bool{}
				for _, g := range d.GPUGroups {
					if seen[g] {
						out = append(out, engine.Violation{Property: "C02", Key: "C02/duplicate-device shape=" + shapeKey(r),
							Message: fmt.Sprintf("pod %s (%d devices) was given the same device twice: %v", d.Pod, r.NumDev, d.GPUGroups)})
					}
					seen[g] = true
					if gn, ok := groupNode[g]; ok && gn != d.Node {
						out = append(out, engine.Violation{Property: "C02", Key: "C02/group-spans-nodes",
							Message: fmt.Sprintf("pod %s bound to %s with GPU group %s that lives on node %s", d.Pod, d.Node, g, gn)})
					}
					groupNode[g] = d.Node
				}
				if int64(len(d.GPUGroups)) != r.NumDev {
					out = append(out, engine.Violation{Property: "C02", Key: "C02/device-count shape=" + shapeKey(r),
						Message: fmt.Sprintf("pod %s asked for %d fractional devices, bind names %d groups %v", d.Pod, r.NumDev, len(d.GPUGroups), d.GPUGroups)})
				}
			}
			u.add(p, d.GPUGroups, mem[d.Node], "(bind)")
			if contributed[d.Node] == nil {
				contributed[d.Node] = map[string]bool{}
			}
			contributed[d.Node]["pods"] = true
			if r.MilliCPU > 0 {
				contributed[d.Node]["cpu"] = true
			}
			if r.Memory > 0 {
				contributed[d.Node]["memory"] = true
			}
			for k, v := range r.Extended {
				if v > 0 {
					contributed[d.Node][k] = true
				}
			}
			for _, g := range d.GPUGroups {
				touched[g] = true
				if !preGroups[g] {
					preGroups[g] = true
					newGroups[d.Node]++
					if r.NumDev > 1 {
						multiDev[d.Node] = true
					}
				}
			}
		}
		for pod, n := range boundOnce {
			if n > 1 {
				out = append(out, engine.Violation{Property: "C01", Key: "C01/pod-bound-twice", Message: fmt.Sprintf("pod %s bound %d times in one cycle", pod, n)})
			}
		}
		hadBind := map[string]bool{}
		for _, d := range t.Res.Decisions {
			if d.Kind == "bind" && !d.Failed {
				hadBind[d.Node] = true
			}
		}
		for _, n := range pre.Nodes {
			u := use[n.Name]
			if !hadBind[n.Name] {
				continue // the scheduler added nothing here: an over-full node is not its decision
			}
			check := func(res string, used, capacity int64) {
				if used > capacity && !contributed[n.Name][res] {
					t.Stats["nodes_overfull_before_the_cycle_in_a_resource_no_bind_asked_for"]++
					return
				}
				if used > capacity {
					out = append(out, engine.Violation{Property: "C01", Key: fmt.Sprintf("C01/oversubscribed res=%s", res),
						Message: fmt.Sprintf("node %s %s: occupying+bound=%d > allocatable=%d; members=%v (pods only releasing: %v)", n.Name, res, used, capacity, u.members, keys(releasing))})
				}
			}
			check("cpu", u.cpu, alloc(n, corev1.ResourceCPU))
			check("memory", u.mem, alloc(n, corev1.ResourceMemory))
			check("pods", u.pods, alloc(n, corev1.ResourcePods))
			// every shared device newly opened by a bind of this cycle will get a reservation pod
			// from the binder (checkMaxPodsWithGpuGroupReservation reserves a slot for it)
			if newGroups[n.Name] > 0 && u.pods+int64(newGroups[n.Name]) > alloc(n, corev1.ResourcePods) {
				// OBSERVATION, not a violation: the statement speaks of the pods occupying the node
				// and the pods the scheduler binds; the reservation pods the binder will create for
				// newly opened GPU groups are neither. Counted so the evidence shows how often the
				// node ends one or more pod slots short for them.
				nb := 0
				for _, d := range t.Res.Decisions {
					if d.Kind == "bind" && !d.Failed && d.Node == n.Name {
						nb++
					}
				}
				if nb == 1 && newGroups[n.Name] == 1 && !multiDev[n.Name] {
					// the ONE bind of this cycle on the node opens ONE new shared device: the slot of that
					// device's reservation pod is what checkMaxPodsWithGpuGroupReservation keeps free; without
					// it the pods occupying the node after this very decision exceed its pod slots. (Several
					// binds per cycle and multi-device requests stay observations, see below.)
					// pods on this node that are terminating or were evicted this cycle (and the reservation pods
					// of devices whose every sharer is): their slots are only releasing
					rel := int64(0)
					for _, p := range pre.Pods {
						if p.Spec.NodeName == n.Name && releasing[p.Name] {
							rel++
						}
					}
					slot := "none"
					if u.pods-rel+1 <= alloc(n, corev1.ResourcePods) {
						slot = "held-by-terminating-pod" // the slot exists only if releasing slots count as free
					}
					out = append(out, engine.Violation{Property: "C01", Key: "C01/oversubscribed res=pods (reservation pod of the opened GPU group) slot=" + slot,
						Message: fmt.Sprintf("node %s pods: occupying+bound=%d plus the reservation pod of the newly opened GPU group > allocatable=%d; members=%v (pods only releasing: %v)", n.Name, u.pods, alloc(n, corev1.ResourcePods), u.members, keys(releasing))})
				}
				if multiDev[n.Name] {
					t.Stats["observed_reservation_pod_slot_shortfall_multi_device"]++
				} else {
					t.Stats["observed_reservation_pod_slot_shortfall_single_device"]++
				}
			}
			for k, v := range u.ext {
				check(k, v, alloc(n, corev1.ResourceName(k)))
			}
			gpus := alloc(n, world.GpuResource)
			nGroups := int64(0)
			for g := range u.groups {
				if groupNode[g] == n.Name || true {
					nGroups++
				}
			}
			if u.wholeGPU+nGroups > gpus {
				prop, key := "C01", "C01/oversubscribed res=gpu"
				if nGroups > 0 {
					prop, key = "C02", "C02/whole+shared>count"
				}
				out = append(out, engine.Violation{Property: prop, Key: key,
					Message: fmt.Sprintf("node %s GPUs: whole=%d + shared devices=%d > %d; members=%v groups=%v", n.Name, u.wholeGPU, nGroups, gpus, u.members, u.groupMembers)})
			}
			for g, demand := range u.groups {
				if math.IsNaN(demand) || !touched[g] {
					continue // only devices the scheduler added to in this cycle are its decision
				}
				if demand > devCap(mem[n.Name])*(1+1e-9) {
					out = append(out, engine.Violation{Property: "C02", Key: "C02/device-oversubscribed",
						Message: fmt.Sprintf("node %s device %s: demand %.3f > capacity %.3f; sharers=%v", n.Name, g, demand, devCap(mem[n.Name]), u.groupMembers[g])})
				}
			}
		}
		// filter
		if len(want) == 0 {
			return out
		}
		var f []engine.Violation
		for _, v := range out {
			if want[v.Property] {
				f = append(f, v)
			}
		}
		return f
	}
}

func shapeKey(r PodReq) string {
	return fmt.Sprintf("f%.2f/m%d/x%d", r.Fraction, r.GPUMem, r.NumDev)
}

func keys(m map[string]bool) []string {
	out := []string{}
	for k := range m {
		out = append(out, k)
	}
	sort.Strings(out)
	return out
}

// PipelineOnlyOnReleasing: a pod the scheduler BINDS must fit without the capacity of pods that
// are terminating or evicted in this cycle — implied by CapacityOracle because those pods are
// counted as occupants. This helper reports, for diagnostics, which binds happened on nodes
// that also have releasing pods.
func DescribeDecisions(ds []schedrun.Decision) string {
	parts := []string{}
	for _, d := range ds {
		parts = append(parts, d.String())
	}
	return strings.Join(parts, "; ")
}

// Oversubscribed reports whether the pods occupying the nodes of w (running, terminating, bound,
// being bound; reservation pods excluded) already ask for more CPU or GPUs (whole GPUs plus distinct
// shared devices) than some node has. Such a world is not a state a cluster can be in; scenario
// grammars use it to drop ill-formed initial worlds.
func Oversubscribed(w *world.World) bool {
	type use struct {
		cpu, whole int64
		groups     map[string]bool
	}
	per := map[string]*use{}
	for _, o := range Occupants(w) {
		if world.IsReservationPod(o.Pod) {
			continue
		}
		u := per[o.Node]
		if u == nil {
			u = &use{groups: map[string]bool{}}
			per[o.Node] = u
		}
		r := ReqOf(o.Pod)
		u.cpu += r.MilliCPU
		u.whole += r.WholeGPU
		for _, g := range o.Groups {
			u.groups[g] = true
		}
	}
	for _, n := range w.Nodes {
		u := per[n.Name]
		if u == nil {
			continue
		}
		if u.cpu > alloc(n, corev1.ResourceCPU) {
			return true
		}
		if u.whole+int64(len(u.groups)) > alloc(n, corev1.ResourceName(world.GpuResource)) {
			return true
		}
	}
	return false
}
