package oracle

import (
	"fmt"
	"sort"

	corev1 "k8s.io/api/core/v1"

	"verif/mc/clustermc"
	"verif/mc/engine"
	"verif/mc/world"
)

// nodeFree is the idle capacity of a node as the reference sees it: allocatable minus every
// occupant (running, bound, being bound, TERMINATING - releasing capacity is not idle) minus
// what the allocate action of this cycle bound or nominated there.
type nodeFree struct {
	name            string
	cpu, mem, pods  int64
	gpus            int64              // whole devices with no sharer at all
	devFree         map[string]float64 // shared device -> free share (fraction of a device)
}

func (n *nodeFree) clone() *nodeFree {
	c := *n
	c.devFree = map[string]float64{}
	for k, v := range n.devFree {
		c.devFree[k] = v
	}
	return &c
}

func buildFree(t *clustermc.Transition, upToAction string) []*nodeFree {
	var out []*nodeFree
	for _, n := range t.Pre.Nodes {
		ready := false
		for _, c := range n.Status.Conditions {
			if c.Type == corev1.NodeReady && c.Status == corev1.ConditionTrue {
				ready = true
			}
		}
		if !ready || n.Spec.Unschedulable || len(n.Spec.Taints) > 0 {
			continue
		}
		f := &nodeFree{name: n.Name, cpu: alloc(n, corev1.ResourceCPU), mem: alloc(n, corev1.ResourceMemory), pods: alloc(n, corev1.ResourcePods),
			gpus: alloc(n, world.GpuResource), devFree: map[string]float64{}}
		devUsed := map[string]float64{}
		charge := func(p *corev1.Pod, groups []string) {
			r := ReqOf(p)
			f.cpu -= r.MilliCPU
			f.mem -= r.Memory
			f.pods--
			if world.IsReservationPod(p) {
				return
			}
			if r.Sharing() {
				for _, g := range groups {
					if _, ok := devUsed[g]; !ok {
						f.gpus--
					}
					devUsed[g] += r.Fraction
				}
			} else {
				f.gpus -= r.WholeGPU
			}
		}
		for _, o := range Occupants(t.Pre) {
			if o.Node == n.Name {
				charge(o.Pod, o.Groups)
			}
		}
		for _, d := range t.Res.Decisions {
			if d.AfterAction != upToAction || d.Node != n.Name || (d.Kind != "bind" && d.Kind != "pipeline") || d.Failed {
				continue
			}
			if p := t.Pre.Pod(d.Pod); p != nil {
				charge(p, d.GPUGroups)
			}
		}
		for g, u := range devUsed {
			f.devFree[g] = 1 - u
		}
		if f.gpus < 0 {
			// more whole GPUs are charged (nominated pods included) than the node has: a nominated
			// whole-GPU pod waits for a device that terminating pods still hold - possibly a SHARED device,
			// whose free remainder is then reserved too. Conservative: no shared device of this node counts
			// as having idle room.
			for g := range f.devFree {
				f.devFree[g] = 0
			}
		}
		out = append(out, f)
	}
	sort.Slice(out, func(i, j int) bool { return out[i].name < out[j].name })
	return out
}

// place tries to put pod request r on node f (mutating f); exact for cpu/mem/pods/whole GPUs and
// single-device fractions.
func place(f *nodeFree, r PodReq) bool {
	if f.cpu < r.MilliCPU || f.mem < r.Memory || f.pods < 1 {
		return false
	}
	if r.Sharing() && r.NumDev > 1 {
		// a multi-device fraction: demanded only when the node has that many ENTIRELY idle GPUs (the
		// scheduler may also mix in partly used devices; not claiming that keeps the reference conservative)
		// and a pod slot per reservation pod
		if f.gpus < r.NumDev || f.pods < 1+r.NumDev {
			return false
		}
		for i := int64(0); i < r.NumDev; i++ {
			f.gpus--
			f.devFree[fmt.Sprintf("new-%d", len(f.devFree))] = 1 - r.Fraction
			f.pods--
		}
	} else if r.Sharing() {
		if f.pods < 2 { // a new device needs a slot for its reservation pod too: stay conservative
			return false
		}
		keys := []string{}
		for g := range f.devFree {
			keys = append(keys, g)
		}
		sort.Strings(keys)
		placed := false
		for _, g := range keys {
			if f.devFree[g] >= r.Fraction-1e-9 {
				f.devFree[g] -= r.Fraction
				placed = true
				break
			}
		}
		if !placed {
			if f.gpus < 1 {
				return false
			}
			f.gpus--
			f.devFree[fmt.Sprintf("new-%d", len(f.devFree))] = 1 - r.Fraction
		}
	} else if r.WholeGPU > 0 {
		if f.gpus < r.WholeGPU {
			return false
		}
		f.gpus -= r.WholeGPU
	}
	f.cpu -= r.MilliCPU
	f.mem -= r.Memory
	f.pods--
	return true
}

// fitsAll: exhaustive search for an assignment of all requests to nodes.
func fitsAll(nodes []*nodeFree, reqs []PodReq) bool {
	if len(reqs) == 0 {
		return true
	}
	for i := range nodes {
		c := nodes[i].clone()
		if place(c, reqs[0]) {
			next := append([]*nodeFree{}, nodes...)
			next[i] = c
			if fitsAll(next, reqs[1:]) {
				return true
			}
		}
	}
	return false
}

func modelled(r PodReq) bool {
	if len(r.Extended) > 0 || r.GPUMem > 0 {
		return false
	}
	return true
}

// WorkConservationOracle implements C05 (i): after the allocate action no ready pending workload
// remains that fits entirely on idle resources within its queues' limit / quota rules.
func WorkConservationOracle() clustermc.Oracle {
	return func(t *clustermc.Transition) []engine.Violation {
		if len(t.Cfg.Faults) > 0 || t.Res.Panic != "" {
			return nil
		}
		var out []engine.Violation
		jobs := Jobs(t.Pre)
		qs := Queues(t.Pre)
		free := buildFree(t, "allocate")
		// queue allocation after the allocate action
		qa := ComputeQueueAllocUpTo(t, "allocate")
		touched := map[string]bool{}
		for _, d := range t.Res.Decisions {
			if d.AfterAction == "allocate" && (d.Kind == "bind" || d.Kind == "pipeline") {
				touched[d.Pod] = true
			}
		}
		names := []string{}
		for n := range jobs {
			names = append(names, n)
		}
		sort.Strings(names)
		for _, jn := range names {
			j := jobs[jn]
			if _, ok := qs[j.Queue]; !ok {
				continue
			}
			// pending pods per pod set; readiness
			type ps struct {
				pending []*corev1.Pod
				active  int
				alive   int
			}
			sets := map[string]*ps{}
			for name := range j.PodSets {
				sets[name] = &ps{}
			}
			ok := true
			anyTouched := false
			for _, p := range j.Pods {
				s := sets[j.PodSetOf(p)]
				if s == nil {
					ok = false
					break
				}
				if touched[p.Name] {
					// placed (bound or nominated) by the allocate action of this very cycle: a member from now on.
					// The workload is judged for what is STILL unplaced after the action - an elastic workload
					// whose first round was placed has to be taken up again while capacity is idle.
					anyTouched = true
					s.active++
					s.alive++
					continue
				}
				switch {
				case ActiveAllocated(t.Pre, p):
					s.active++
					s.alive++
				case p.Status.Phase == corev1.PodPending && p.DeletionTimestamp == nil && len(p.Spec.SchedulingGates) == 0 && p.Spec.NodeName == "" && brFor(t.Pre, p) == nil:
					s.pending = append(s.pending, p)
					s.alive++
				case p.Status.Phase == corev1.PodPending && len(p.Spec.SchedulingGates) > 0:
					// gated: alive but not ready
				}
				if len(p.Spec.NodeSelector) > 0 || p.Spec.Affinity != nil || len(p.Spec.Tolerations) > 0 {
					ok = false
				}
			}
			if !ok || j.PG.Spec.TopologyConstraint.Topology != "" {
				continue
			}
			if anyTouched {
				t.Stats["workloads_partly_placed_by_allocate_judged_for_the_rest"]++
			}
			// what must be placed: missing-to-min per pod set, or one pod if the gang is satisfied
			var need []*corev1.Pod
			ready, satisfied := true, true
			for name, s := range sets {
				min := int(j.PodSets[name])
				if s.alive < min {
					ready = false
				}
				if s.active < min {
					satisfied = false
					missing := min - s.active
					if len(s.pending) < missing {
						ready = false
						break
					}
					sort.Slice(s.pending, func(a, b int) bool { return s.pending[a].Name < s.pending[b].Name })
					need = append(need, s.pending[:missing]...)
				}
			}
			if !ready {
				continue
			}
			if satisfied {
				// elastic growth: one more pod of any pod set
				var cand []*corev1.Pod
				for _, s := range sets {
					cand = append(cand, s.pending...)
				}
				if len(cand) == 0 {
					continue
				}
				sort.Slice(cand, func(a, b int) bool { return cand[a].Name < cand[b].Name })
				// identical shapes in the grammar: try the first
				need = cand[:1]
			}
			if len(need) == 0 {
				continue
			}
			reqs := []PodReq{}
			allModelled := true
			var add Quant
			for _, p := range need {
				r := ReqOf(p)
				if !modelled(r) {
					allModelled = false
				}
				reqs = append(reqs, r)
				add = add.Add(PodQuant(t.Pre, p, ""))
			}
			if !allModelled {
				continue
			}
			// queue rules
			blocked := false
			for _, a := range Ancestors(qs, j.Queue) {
				for _, res := range QuantResources {
					if add.Get(res) == 0 {
						continue
					}
					if lim := queueLimit(qs[a], res); lim >= 0 && qa.After[a].Get(res)+add.Get(res) > lim+1e-9 {
						blocked = true
					}
					if !j.Preemptible {
						if quota := queueQuota(qs[a], res); quota >= 0 && qa.AfterNP[a].Get(res)+add.Get(res) > quota+1e-9 {
							blocked = true
						}
					}
				}
			}
			if blocked {
				t.Stats["pending_blocked_by_queue_rules"]++
				continue
			}
			if fitsAll(free, reqs) {
				out = append(out, engine.Violation{Property: "C05", Key: fmt.Sprintf("C05/not-work-conserving pods=%d gang-satisfied=%v shape=%s", len(need), satisfied, shapeKey(reqs[0])),
					Message: fmt.Sprintf("after allocate, ready workload %s (queue %s) still has %d pod(s) unplaced although they fit on idle resources (%s) within its queues' limits/quota", jn, j.Queue, len(need), describeFree(free))})
			} else {
				t.Stats["pending_does_not_fit"]++
			}
		}
		return out
	}
}

func describeFree(fs []*nodeFree) string {
	s := ""
	for _, f := range fs {
		s += fmt.Sprintf("[%s cpu=%dm gpus=%d devFree=%v pods=%d]", f.name, f.cpu, f.gpus, f.devFree, f.pods)
	}
	return s
}

// ComputeQueueAllocUpTo: like ComputeQueueAlloc but only decisions of the given action count.
func ComputeQueueAllocUpTo(t *clustermc.Transition, action string) *QueueAlloc {
	c := *t
	r := *t.Res
	r.Decisions = nil
	for _, d := range t.Res.Decisions {
		if d.AfterAction == action {
			r.Decisions = append(r.Decisions, d)
		}
	}
	c.Res = &r
	return ComputeQueueAlloc(&c)
}

// DisplacementOracle implements C05 (ii) for the unobstructed class: interchangeable single-pod
// 1-GPU workloads on full interchangeable nodes, exactly one pending workload.
func DisplacementOracle() clustermc.Oracle {
	return func(t *clustermc.Transition) []engine.Violation {
		if len(t.Cfg.Faults) > 0 || t.Res.Panic != "" || len(t.Path) > 0 {
			return nil
		}
		jobs := Jobs(t.Pre)
		qs := Queues(t.Pre)
		var pending []*JobRef
		for _, j := range jobs {
			if len(j.Pods) != 1 {
				return nil
			}
			p := j.Pods[0]
			r := ReqOf(p)
			if r.WholeGPU != 1 || r.Sharing() {
				return nil
			}
			if p.Status.Phase == corev1.PodPending && p.Spec.NodeName == "" {
				pending = append(pending, j)
			} else if p.DeletionTimestamp != nil || !ActiveAllocated(t.Pre, p) {
				return nil
			}
		}
		if len(pending) != 1 {
			return nil
		}
		w := pending[0]
		// all nodes full
		for _, f := range buildFree(t, "none") {
			if f.gpus > 0 {
				return nil
			}
		}
		placed := false
		for _, d := range t.Res.Decisions {
			if (d.Kind == "bind" || d.Kind == "pipeline") && d.Group == w.Name {
				placed = true
			}
		}
		qa := ComputeQueueAllocUpTo(t, "none")
		one := Quant{GPU: 1, CPU: float64(ReqOf(w.Pods[0]).MilliCPU), Mem: float64(ReqOf(w.Pods[0]).Memory)}
		// The displacement is judged NET of the victim: evicting v frees one GPU in v's queue and in
		// every ancestor v shares with w, so only the queues of w's chain that v is not under grow.
		// (A department that sits exactly at its limit or quota does not obstruct a reclaim between two
		// of its own leaf queues.) withinDeserved (no victim taken into account) keeps its old meaning
		// for the non-preemptible exemption below.
		withinDeserved := true
		for _, a := range Ancestors(qs, w.Queue) {
			q := queueQuota(qs[a], "gpu")
			if q >= 0 && qa.Before[a].GPU+one.GPU > q+1e-9 {
				withinDeserved = false
			}
		}
		net := func(v *JobRef) (within, limitOK bool) {
			under := map[string]bool{}
			for _, a := range Ancestors(qs, v.Queue) {
				under[a] = true
			}
			within, limitOK = true, true
			for _, a := range Ancestors(qs, w.Queue) {
				after := qa.Before[a].GPU + one.GPU
				if under[a] {
					after -= 1
				}
				if q := queueQuota(qs[a], "gpu"); q >= 0 && after > q+1e-9 {
					within = false
				}
				if lim := queueLimit(qs[a], "gpu"); lim >= 0 && after > lim+1e-9 {
					limitOK = false
				}
			}
			return
		}
		var out []engine.Violation
		// preempt: a strictly lower-priority preemptible workload in the same queue
		hasPreemptVictim, hasReclaimVictim := false, false
		for _, v := range jobs {
			if v == w || !v.Preemptible {
				continue
			}
			within, limitOK := net(v)
			if !limitOK {
				continue // obstructed by a limit even after this victim is gone
			}
			if v.Queue == w.Queue && v.Priority < w.Priority {
				hasPreemptVictim = true
			}
			if v.Queue != w.Queue && within {
				_, lv := leveled(qs, w.Queue, v.Queue)
				if lv != "" {
					if q := queueQuota(qs[lv], "gpu"); q >= 0 && qa.Before[lv].GPU > q+1e-9 {
						// over quota at the diverging level and at its own leaf
						if ql := queueQuota(qs[v.Queue], "gpu"); ql >= 0 && qa.Before[v.Queue].GPU > ql+1e-9 {
							hasReclaimVictim = true
						}
					}
				}
			}
		}
		if !w.Preemptible && !withinDeserved {
			return nil // a non-preemptible workload over quota is legitimately stuck
		}
		if hasPreemptVictim && !placed {
			t.Stats["displacement_cases"]++
			out = append(out, engine.Violation{Property: "C05", Key: "C05/no-preemption-of-lower-priority-same-queue",
				Message: fmt.Sprintf("pending %s (queue %s, priority %d) was neither bound nor nominated although a strictly lower-priority preemptible workload of its own queue is running", w.Name, w.Queue, w.Priority)})
		} else if hasReclaimVictim && !placed {
			t.Stats["displacement_cases"]++
			out = append(out, engine.Violation{Property: "C05", Key: "C05/no-reclaim-from-over-quota-queue",
				Message: fmt.Sprintf("pending %s keeps queue %s within its deserved quota but was neither bound nor nominated although preemptible pods of over-quota queues are running", w.Name, w.Queue)})
		} else if (hasPreemptVictim || hasReclaimVictim) && placed {
			t.Stats["displacement_cases"]++
		}
		return out
	}
}

// MultiPendingPreemptOracle extends C05 (ii) to snapshots with several pending workloads of the
// unobstructed class. It judges the END of the cycle only, so that competition between the pending
// workloads cannot make it demand more than the statement: if a pending workload is still unplaced
// while a strictly lower-priority preemptible workload of its own queue is still running (not
// evicted by anybody during the cycle), the preempt action - which runs after allocate and reclaim -
// had a victim for it and did not use it.
func MultiPendingPreemptOracle() clustermc.Oracle {
	return func(t *clustermc.Transition) []engine.Violation {
		if len(t.Cfg.Faults) > 0 || t.Res.Panic != "" || len(t.Path) > 0 {
			return nil
		}
		jobs := Jobs(t.Pre)
		qs := Queues(t.Pre)
		var pending []*JobRef
		names := []string{}
		for n := range jobs {
			names = append(names, n)
		}
		sort.Strings(names)
		for _, n := range names {
			j := jobs[n]
			if len(j.Pods) != 1 {
				return nil
			}
			p := j.Pods[0]
			r := ReqOf(p)
			if r.WholeGPU != 1 || r.Sharing() {
				return nil
			}
			if p.Status.Phase == corev1.PodPending && p.Spec.NodeName == "" {
				pending = append(pending, j)
			} else if p.DeletionTimestamp != nil || !ActiveAllocated(t.Pre, p) {
				return nil
			}
		}
		if len(pending) < 2 {
			return nil
		}
		for _, f := range buildFree(t, "none") {
			if f.gpus > 0 {
				return nil
			}
		}
		// end-of-cycle allocation per queue (GPUs), evicted and placed sets
		alloc := map[string]float64{}
		allocNP := map[string]float64{}
		charge := func(j *JobRef, sign float64) {
			for _, a := range Ancestors(qs, j.Queue) {
				alloc[a] += sign
				if !j.Preemptible {
					allocNP[a] += sign
				}
			}
		}
		isPending := map[string]bool{}
		for _, j := range pending {
			isPending[j.Name] = true
		}
		for _, n := range names {
			if !isPending[n] {
				charge(jobs[n], 1)
			}
		}
		evicted, placed := map[string]bool{}, map[string]bool{}
		for _, d := range t.Res.Decisions {
			j := jobs[d.Group]
			if j == nil || d.Failed {
				continue
			}
			switch d.Kind {
			case "evict":
				if !evicted[j.Name] && (placed[j.Name] || !isPending[j.Name]) {
					evicted[j.Name] = true
					placed[j.Name] = false
					charge(j, -1)
				}
			case "bind", "pipeline":
				if !placed[j.Name] && (isPending[j.Name] || evicted[j.Name]) {
					placed[j.Name] = true
					evicted[j.Name] = false
					charge(j, 1)
				}
			}
		}
		var out []engine.Violation
		for _, w := range pending {
			obstructed := false
			for _, a := range Ancestors(qs, w.Queue) {
				if lim := queueLimit(qs[a], "gpu"); lim >= 0 && alloc[a]+1 > lim+1e-9 {
					obstructed = true
				}
				if q := queueQuota(qs[a], "gpu"); !w.Preemptible && q >= 0 && allocNP[a]+1 > q+1e-9 {
					obstructed = true
				}
			}
			if obstructed {
				continue
			}
			victim := ""
			for _, n := range names {
				v := jobs[n]
				if isPending[n] || evicted[n] || !v.Preemptible || v.Queue != w.Queue || v.Priority >= w.Priority {
					continue
				}
				victim = n
				break
			}
			if victim == "" {
				if placed[w.Name] {
					t.Stats["multi_pending_placed"]++
				}
				continue
			}
			t.Stats["multi_pending_displacement_cases"]++
			if !placed[w.Name] {
				out = append(out, engine.Violation{Property: "C05", Key: "C05/no-preemption-of-lower-priority-same-queue pending-workloads=many",
					Message: fmt.Sprintf("at the end of the cycle pending %s (queue %s, priority %d) is neither bound nor nominated although %s, a strictly lower-priority preemptible workload of its own queue, is still running; %d workloads were pending", w.Name, w.Queue, w.Priority, victim, len(pending))})
			}
		}
		return out
	}
}
