package oracle

import (
	"fmt"

	corev1 "k8s.io/api/core/v1"

	"verif/mc/clustermc"
	"verif/mc/engine"
	"verif/mc/world"
)

// Quant is a queue-level resource quantity: GPUs, millicpu, memory bytes.
type Quant struct{ GPU, CPU, Mem float64 }

func (a Quant) Add(b Quant) Quant { return Quant{a.GPU + b.GPU, a.CPU + b.CPU, a.Mem + b.Mem} }
func (a Quant) Sub(b Quant) Quant { return Quant{a.GPU - b.GPU, a.CPU - b.CPU, a.Mem - b.Mem} }
func (a Quant) Get(r string) float64 {
	switch r {
	case "gpu":
		return a.GPU
	case "cpu":
		return a.CPU
	}
	return a.Mem
}

var QuantResources = []string{"gpu", "cpu", "memory"}

// PodQuant: what a pod charges to its queue when placed on node (a LOWER bound for gpu-memory
// requests: exact ratio, where the scheduler rounds up to 1/100).
func PodQuant(w *world.World, p *corev1.Pod, node string) Quant {
	r := ReqOf(p)
	q := Quant{CPU: float64(r.MilliCPU), Mem: float64(r.Memory), GPU: float64(r.WholeGPU)}
	if r.Fraction > 0 {
		q.GPU += r.Fraction * float64(r.NumDev)
	} else if r.GPUMem > 0 {
		if n := w.Node(node); n != nil {
			if m := NodeGPUMemory(n); m > 0 {
				q.GPU += float64(r.NumDev) * float64(r.GPUMem) / float64(m)
			}
		}
	}
	return q
}

// queueLimit / queueQuota in the same units (-1 = unlimited).
func queueLimit(q *QueueRef, r string) float64 {
	res := q.Q.Spec.Resources
	if res == nil {
		return -1
	}
	switch r {
	case "gpu":
		return res.GPU.Limit
	case "cpu":
		return res.CPU.Limit
	}
	if res.Memory.Limit < 0 {
		return -1
	}
	return res.Memory.Limit * 1000 * 1000
}

func queueQuota(q *QueueRef, r string) float64 {
	res := q.Q.Spec.Resources
	if res == nil {
		return -1
	}
	switch r {
	case "gpu":
		return res.GPU.Quota
	case "cpu":
		return res.CPU.Quota
	}
	if res.Memory.Quota < 0 {
		return -1
	}
	return res.Memory.Quota * 1000 * 1000
}

// QueueAlloc recomputes per queue (incl. ancestors) the allocation before and after a cycle.
type QueueAlloc struct {
	Before, After       map[string]Quant
	BeforeNP, AfterNP   map[string]Quant // non-preemptible part
	Added               map[string]bool  // queues that received a bind / nomination this cycle
}

func ComputeQueueAlloc(t *clustermc.Transition) *QueueAlloc {
	qa := &QueueAlloc{Before: map[string]Quant{}, After: map[string]Quant{}, BeforeNP: map[string]Quant{}, AfterNP: map[string]Quant{}, Added: map[string]bool{}}
	jobs := Jobs(t.Pre)
	qs := Queues(t.Pre)
	podJob := map[string]*JobRef{}
	charge := func(m map[string]Quant, queue string, q Quant, sign float64) {
		for _, a := range Ancestors(qs, queue) {
			cur := m[a]
			m[a] = Quant{cur.GPU + sign*q.GPU, cur.CPU + sign*q.CPU, cur.Mem + sign*q.Mem}
		}
	}
	for _, j := range jobs {
		for _, p := range j.Pods {
			podJob[p.Name] = j
			if ActiveAllocated(t.Pre, p) {
				q := PodQuant(t.Pre, p, NodeOf(t.Pre, p))
				charge(qa.Before, j.Queue, q, 1)
				charge(qa.After, j.Queue, q, 1)
				if !j.Preemptible {
					charge(qa.BeforeNP, j.Queue, q, 1)
					charge(qa.AfterNP, j.Queue, q, 1)
				}
			}
		}
	}
	// sequential replay of the decision log: a pod may be placed and evicted in the same cycle
	counted := map[string]string{} // pod -> node it is currently charged on
	for _, j := range jobs {
		for _, p := range j.Pods {
			if ActiveAllocated(t.Pre, p) {
				counted[p.Name] = NodeOf(t.Pre, p)
			}
		}
	}
	for _, d := range t.Res.Decisions {
		j := podJob[d.Pod]
		p := t.Pre.Pod(d.Pod)
		if j == nil || p == nil || d.Failed {
			continue
		}
		switch d.Kind {
		case "evict":
			if node, ok := counted[d.Pod]; ok {
				delete(counted, d.Pod)
				q := PodQuant(t.Pre, p, node)
				charge(qa.After, j.Queue, q, -1)
				if !j.Preemptible {
					charge(qa.AfterNP, j.Queue, q, -1)
				}
			}
		case "bind", "pipeline":
			if _, ok := counted[d.Pod]; ok {
				continue // already charged
			}
			counted[d.Pod] = d.Node
			q := PodQuant(t.Pre, p, d.Node)
			charge(qa.After, j.Queue, q, 1)
			if !j.Preemptible {
				charge(qa.AfterNP, j.Queue, q, 1)
			}
			for _, a := range Ancestors(qs, j.Queue) {
				qa.Added[a] = true
			}
		}
	}
	return qa
}

// LimitsOracle implements C08.
func LimitsOracle() clustermc.Oracle {
	const eps = 1e-6
	return func(t *clustermc.Transition) []engine.Violation {
		var out []engine.Violation
		qs := Queues(t.Pre)
		qa := ComputeQueueAlloc(t)
		for name, q := range qs {
			if !qa.Added[name] {
				continue // nothing was added to this queue: not raised by a decision
			}
			level := "leaf"
			if len(q.Children) > 0 {
				level = "ancestor"
			}
			for _, r := range QuantResources {
				lim := queueLimit(q, r)
				after, before := qa.After[name].Get(r), qa.Before[name].Get(r)
				if lim >= 0 && after > lim+eps && after > before+eps {
					out = append(out, engine.Violation{Property: "C08", Key: fmt.Sprintf("C08/over-limit res=%s level=%s", r, level),
						Message: fmt.Sprintf("queue %s %s: allocation raised from %.3f to %.3f above limit %.3f", name, r, before, after, lim)})
				}
				quota := queueQuota(q, r)
				afterNP, beforeNP := qa.AfterNP[name].Get(r), qa.BeforeNP[name].Get(r)
				if quota >= 0 && afterNP > quota+eps && afterNP > beforeNP+eps {
					out = append(out, engine.Violation{Property: "C08", Key: fmt.Sprintf("C08/non-preemptible-over-quota res=%s level=%s", r, level),
						Message: fmt.Sprintf("queue %s %s: non-preemptible allocation raised from %.3f to %.3f above deserved quota %.3f", name, r, beforeNP, afterNP, quota)})
				}
			}
		}
		return out
	}
}
