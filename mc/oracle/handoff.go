package oracle

import (
	"fmt"
	"strings"

	corev1 "k8s.io/api/core/v1"

	"verif/mc/clustermc"
	"verif/mc/engine"
	"verif/mc/world"
)

// HandoffOracle implements the scheduler half of C12:
//  (i)  while a BindRequest is live, every later cycle still charges the pod (with its GPU groups)
//       to the selected node: the C01/C02 inequalities hold with the pod counted there;
//  (ii) BindRequests that are terminally failed or name a deleted node are deleted by the next
//       snapshot and their pods are schedulable again in that same cycle.
func HandoffOracle() clustermc.Oracle {
	capacity := CapacityOracle()
	return func(t *clustermc.Transition) []engine.Violation {
		var out []engine.Violation
		hasBR := len(t.Pre.BindRequests) > 0
		for _, v := range capacity(t) {
			if !hasBR {
				continue
			}
			v.Key = "C12/handoff-" + strings.SplitN(v.Key, "/", 2)[1]
			v.Property = "C12"
			v.Message = "with live BindRequests in the snapshot: " + v.Message
			out = append(out, v)
		}
		placed := map[string]bool{}
		for _, d := range t.Res.Decisions {
			if d.Kind == "bind" || d.Kind == "pipeline" {
				placed[d.Pod] = true
			}
		}
		for _, br := range t.Pre.BindRequests {
			nodeGone := t.Pre.Node(br.Spec.SelectedNode) == nil
			stale := brTerminallyFailed(br) || nodeGone
			if !stale {
				continue
			}
			why := "terminally-failed"
			if nodeGone {
				why = "node-deleted"
			}
			for _, b2 := range t.Res.After.BindRequests {
				// the same object: by UID, or - for requests the scheduler created itself (the fake API server
				// assigns no UIDs) - by name with the very state that made it stale (a request re-created in
				// this cycle has an empty phase and selects an existing node)
				same := b2.UID == br.UID && br.UID != ""
				if br.UID == "" && b2.UID == "" && b2.Namespace == br.Namespace && b2.Name == br.Name && b2.Spec.SelectedNode == br.Spec.SelectedNode &&
					b2.Status.Phase == br.Status.Phase && b2.Status.FailedAttempts == br.Status.FailedAttempts {
					same = true
				}
				if same {
					out = append(out, engine.Violation{Property: "C12", Key: "C12/stale-bindrequest-not-deleted why=" + why,
						Message: fmt.Sprintf("BindRequest %s (%s, phase=%s attempts=%d) still exists after the cycle", br.Name, why, br.Status.Phase, br.Status.FailedAttempts)})
				}
			}
			p := t.Pre.Pod(br.Spec.PodName)
			if p == nil || p.Spec.NodeName != "" || p.DeletionTimestamp != nil || p.Status.Phase != corev1.PodPending {
				continue
			}
			if !placed[p.Name] && simpleFitsSomewhere(t, p) {
				out = append(out, engine.Violation{Property: "C12", Key: "C12/pod-of-stale-bindrequest-not-schedulable why=" + why,
					Message: fmt.Sprintf("pod %s whose BindRequest is %s was not bound or nominated although it fits on a node with free capacity", p.Name, why)})
			}
		}
		return out
	}
}

// simpleFitsSomewhere: conservative reference fit for non-sharing pods (cpu, memory, pod slots,
// whole GPUs) against ALL occupants incl. this cycle's binds; only used when the scenario has
// unlimited queues.
func simpleFitsSomewhere(t *clustermc.Transition, p *corev1.Pod) bool {
	r := ReqOf(p)
	if r.Sharing() || len(r.Extended) > 0 {
		return false
	}
	for _, n := range t.Pre.Nodes {
		u := newUse()
		groups := map[string]bool{}
		for _, o := range Occupants(t.Pre) {
			if o.Node == n.Name && o.Pod.Name != p.Name {
				u.add(o.Pod, o.Groups, NodeGPUMemory(n), "")
				for _, g := range o.Groups {
					groups[g] = true
				}
			}
		}
		for _, d := range t.Res.Decisions {
			if (d.Kind == "bind" || d.Kind == "pipeline") && d.Node == n.Name {
				if q := t.Pre.Pod(d.Pod); q != nil {
					u.add(q, d.GPUGroups, NodeGPUMemory(n), "")
					for _, g := range d.GPUGroups {
						groups[g] = true
					}
				}
			}
		}
		if u.cpu+r.MilliCPU <= alloc(n, corev1.ResourceCPU) && u.mem+r.Memory <= alloc(n, corev1.ResourceMemory) &&
			u.pods+1 <= alloc(n, corev1.ResourcePods) && u.wholeGPU+int64(len(groups))+r.WholeGPU <= alloc(n, world.GpuResource) {
			return true
		}
	}
	return false
}
