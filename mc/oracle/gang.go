package oracle

import (
	"fmt"
	"sort"

	"verif/mc/clustermc"
	"verif/mc/engine"
)

// GangOracle implements C03 on one fault-free cycle transition.
func GangOracle() clustermc.Oracle {
	return func(t *clustermc.Transition) []engine.Violation {
		if len(t.Cfg.Faults) > 0 {
			return nil // the statement excludes API write failures
		}
		var out []engine.Violation
		jobs := Jobs(t.Pre)
		binds, evicts, pipes := Split(t.Res.Decisions)
		type cnt struct{ before, bound, evicted, piped int }
		per := map[string]map[string]*cnt{} // job -> podset -> counts
		get := func(job, ps string) *cnt {
			if per[job] == nil {
				per[job] = map[string]*cnt{}
			}
			if per[job][ps] == nil {
				per[job][ps] = &cnt{}
			}
			return per[job][ps]
		}
		podJob := map[string]*JobRef{}
		podSet := map[string]string{}
		activeBefore := map[string]bool{}
		for _, j := range jobs {
			for ps := range j.PodSets {
				get(j.Name, ps)
			}
			for _, p := range j.Pods {
				podJob[p.Name] = j
				ps := j.PodSetOf(p)
				podSet[p.Name] = ps
				if ActiveAllocated(t.Pre, p) {
					activeBefore[p.Name] = true
					get(j.Name, ps).before++
				}
			}
		}
		actedBind := map[string]bool{}
		actedEvict := map[string]string{}
		boundNow := map[string]bool{}
		for _, d := range t.Res.Decisions { // sequential: a pod may be bound and evicted in one cycle
			j := podJob[d.Pod]
			if j == nil {
				continue
			}
			switch d.Kind {
			case "bind":
				get(j.Name, podSet[d.Pod]).bound++
				boundNow[d.Pod] = true
				actedBind[j.Name] = true
			case "evict":
				if boundNow[d.Pod] {
					delete(boundNow, d.Pod)
					get(j.Name, podSet[d.Pod]).bound--
					get(j.Name, podSet[d.Pod]).evicted += 0
					actedEvict[j.Name] = d.Action
				} else if activeBefore[d.Pod] {
					get(j.Name, podSet[d.Pod]).evicted++
					actedEvict[j.Name] = d.Action
				}
			}
		}
		_, _ = binds, evicts
		// moved[job]: pods of the job that a solver evicted AND nominated again in the same cycle (a
		// consolidating move: the pod is deleted and its replacement has to be scheduled later)
		moved := map[string]int{}
		evictedPods := map[string]bool{}
		for _, d := range evicts {
			evictedPods[d.Pod] = true
		}
		for _, d := range pipes {
			if j := podJob[d.Pod]; j != nil {
				get(j.Name, podSet[d.Pod]).piped++
				if evictedPods[d.Pod] {
					moved[j.Name]++
				}
			}
		}
		mv := func(job string) string {
			if moved[job] > 0 {
				return fmt.Sprintf(" moved-pods=%d", moved[job])
			}
			return ""
		}
		names := []string{}
		for n := range jobs {
			names = append(names, n)
		}
		sort.Strings(names)
		for _, jn := range names {
			j := jobs[jn]
			if actedBind[jn] {
				for ps, min := range j.PodSets {
					c := get(jn, ps)
					after := c.before - c.evicted + c.bound
					if after < int(min) {
						kind := "podset-touched"
						if c.bound == 0 {
							kind = "sibling-podset-of-bound-gang"
						}
						out = append(out, engine.Violation{Property: "C03", Key: fmt.Sprintf("C03/partial-bind %s pipelined=%v%s", kind, c.piped > 0, mv(jn)),
							Message: fmt.Sprintf("job %s pod set %q: active before=%d, evicted=%d, bound now=%d, nominated=%d -> %d < min %d (binds were issued for the job)", jn, ps, c.before, c.evicted, c.bound, c.piped, after, min)})
					}
				}
			}
			if action, ok := actedEvict[jn]; ok && action != "stalegangeviction" {
				totalAfter, below := 0, ""
				for ps, min := range j.PodSets {
					c := get(jn, ps)
					after := c.before - c.evicted + c.bound
					totalAfter += after
					if after < int(min) && c.before > 0 {
						below = fmt.Sprintf("pod set %q: %d active before, %d evicted, %d bound -> %d < min %d", ps, c.before, c.evicted, c.bound, after, min)
					}
				}
				if below != "" && totalAfter > 0 {
					out = append(out, engine.Violation{Property: "C03", Key: "C03/partial-eviction action=" + action + mv(jn),
						Message: fmt.Sprintf("job %s evicted by %s is left partially running (%d active pods remain): %s", jn, action, totalAfter, below)})
				}
			}
		}
		return out
	}
}
