package oracle

import (
	"fmt"
	"sort"

	"verif/mc/clustermc"
	"verif/mc/engine"
	"verif/mc/schedrun"
)

// FairShareData is what the C07 observer reads inside the session: each queue's fair share as the
// proportion plugin computed it (C09 judges those numbers; C07 judges what reclaim does with them).
type FairShareData struct {
	Fair map[string]Quant
	Err  string
}

func leveled(qs map[string]*QueueRef, a, b string) (string, string) {
	rev := func(s []string) []string {
		o := make([]string, len(s))
		for i := range s {
			o[len(s)-1-i] = s[i]
		}
		return o
	}
	pa, pb := rev(Ancestors(qs, a)), rev(Ancestors(qs, b))
	la, lb := "", ""
	for i := 0; i < len(pa) && i < len(pb); i++ {
		la, lb = pa[i], pb[i]
		if pa[i] != pb[i] {
			break
		}
	}
	return la, lb
}

func within(a Quant, limit func(r string) float64) bool {
	for _, r := range QuantResources {
		l := limit(r)
		if l >= 0 && a.Get(r) > l+1e-6 {
			return false
		}
	}
	return true
}

// ReclaimOracle implements C07 on the committed reclaim decisions of one cycle.
func ReclaimOracle(multiplier float64) clustermc.Oracle {
	const eps = 1e-6
	return func(t *clustermc.Transition) []engine.Violation {
		fd, ok := t.Obs.(FairShareData)
		if !ok || fd.Fair == nil {
			t.Stats["cycles_without_fair_share_data"]++
			return nil
		}
		t.Stats["cycles_with_fair_share_data"]++
		var out []engine.Violation
		jobs := Jobs(t.Pre)
		qs := Queues(t.Pre)
		podJob := map[string]*JobRef{}
		alloc := map[string]Quant{}
		allocNP := map[string]Quant{}
		counted := map[string]string{}
		charge := func(m map[string]Quant, queue string, q Quant, sign float64) {
			for _, a := range Ancestors(qs, queue) {
				c := m[a]
				m[a] = Quant{c.GPU + sign*q.GPU, c.CPU + sign*q.CPU, c.Mem + sign*q.Mem}
			}
		}
		for _, j := range jobs {
			for _, p := range j.Pods {
				podJob[p.Name] = j
				if ActiveAllocated(t.Pre, p) {
					counted[p.Name] = NodeOf(t.Pre, p)
					q := PodQuant(t.Pre, p, counted[p.Name])
					charge(alloc, j.Queue, q, 1)
					if !j.Preemptible {
						charge(allocNP, j.Queue, q, 1)
					}
				}
			}
		}
		apply := func(d schedrun.Decision) {
			j := podJob[d.Pod]
			p := t.Pre.Pod(d.Pod)
			if j == nil || p == nil || d.Failed {
				return
			}
			switch d.Kind {
			case "evict":
				if node, ok := counted[d.Pod]; ok {
					delete(counted, d.Pod)
					q := PodQuant(t.Pre, p, node)
					charge(alloc, j.Queue, q, -1)
					if !j.Preemptible {
						charge(allocNP, j.Queue, q, -1)
					}
				}
			case "bind", "pipeline":
				if _, ok := counted[d.Pod]; ok {
					return
				}
				counted[d.Pod] = d.Node
				q := PodQuant(t.Pre, p, d.Node)
				charge(alloc, j.Queue, q, 1)
				if !j.Preemptible {
					charge(allocNP, j.Queue, q, 1)
				}
			}
		}
		clone := func(m map[string]Quant) map[string]Quant {
			c := map[string]Quant{}
			for k, v := range m {
				c[k] = v
			}
			return c
		}
		ds := t.Res.Decisions
		for i := 0; i < len(ds); {
			if !(ds[i].Kind == "evict" && ds[i].Action == "reclaim") {
				apply(ds[i])
				i++
				continue
			}
			// one reclaim statement: evictions for a preemptor, then its (and re-placed victims') nominations
			pre := ds[i].Preemptor
			before := clone(alloc)
			j := i
			victimQueues := map[string]bool{}
			for j < len(ds) && ((ds[j].Kind == "evict" && ds[j].Action == "reclaim" && ds[j].Preemptor == pre) || ((ds[j].Kind == "pipeline" || ds[j].Kind == "bind") && ds[j].AfterAction == "reclaim")) {
				if ds[j].Kind == "evict" {
					if vj := podJob[ds[j].Pod]; vj != nil {
						victimQueues[vj.Queue] = true
					}
				}
				apply(ds[j])
				j++
			}
			i = j
			r := jobs[pre]
			if r == nil {
				continue
			}
			t.Stats["reclaim_statements_checked"]++
			fair := func(q string) func(string) float64 {
				return func(res string) float64 {
					f, ok := fd.Fair[q]
					if !ok {
						return -1
					}
					return f.Get(res)
				}
			}
			// (2) the reclaiming queue stays within its fair share
			if !within(alloc[r.Queue], fair(r.Queue)) {
				out = append(out, engine.Violation{Property: "C07", Key: "C07/reclaimer-above-fair-share",
					Message: fmt.Sprintf("reclaim for %s: queue %s allocation %+v exceeds its fair share %+v after receiving the resources", pre, r.Queue, alloc[r.Queue], fd.Fair[r.Queue])})
			}
			// (3) non-preemptible reclaimer within deserved quota
			if !r.Preemptible {
				for _, a := range Ancestors(qs, r.Queue) {
					qa := qs[a]
					if !within(allocNP[a], func(res string) float64 { return queueQuota(qa, res) }) {
						out = append(out, engine.Violation{Property: "C07", Key: "C07/non-preemptible-reclaimer-over-quota",
							Message: fmt.Sprintf("reclaim for non-preemptible %s: queue %s non-preemptible allocation %+v exceeds its deserved quota", pre, a, allocNP[a])})
						break
					}
				}
			}
			vqs := []string{}
			for q := range victimQueues {
				vqs = append(vqs, q)
			}
			sort.Strings(vqs)
			for _, vq := range vqs {
				lr, lv := leveled(qs, r.Queue, vq)
				if lr == "" || lv == "" || lr == lv {
					continue
				}
				if lr != r.Queue {
					t.Stats["reclaim_across_departments"]++
				}
				// (1) a queue within its deserved quota in every resource is not net-reduced
				qv := qs[lv]
				withinDeserved := within(before[lv], func(res string) float64 { return queueQuota(qv, res) })
				reduced := false
				for _, res := range QuantResources {
					if alloc[lv].Get(res) < before[lv].Get(res)-eps {
						reduced = true
					}
				}
				if withinDeserved && reduced {
					out = append(out, engine.Violation{Property: "C07", Key: "C07/reclaimed-from-queue-within-deserved",
						Message: fmt.Sprintf("reclaim for %s (queue %s) reduced queue %s from %+v to %+v although it was within its deserved quota in every resource", pre, r.Queue, lv, before[lv], alloc[lv])})
				}
				// (4) saturation: at every level from the diverging one upward... the statement speaks of
				// ancestors of the reclaimer and the sibling it took from: that is exactly the leveled pair.
				for _, res := range QuantResources {
					if alloc[lv].Get(res) >= before[lv].Get(res)-eps && alloc[lr].Get(res) <= before[lr].Get(res)+eps {
						continue // resource not involved
					}
					fr, fv := fair(lr)(res), fair(lv)(res)
					if fr < 0 && fv < 0 {
						continue
					}
					sat := func(a, f float64) float64 {
						if f == 0 {
							if a > eps {
								return 1e18
							}
							return 0
						}
						if f < 0 {
							return 0
						}
						return a / f
					}
					sr, sv := sat(alloc[lr].Get(res), fr), sat(alloc[lv].Get(res), fv)
					if sr > 1+eps && fv > 0 && sr >= sv-eps {
						out = append(out, engine.Violation{Property: "C07", Key: "C07/reclaimer-ancestor-over-fair-share-and-more-saturated res=" + res,
							Message: fmt.Sprintf("reclaim for %s: %s ends at %.3f/%.3f (saturation %.3f) above its fair share and at least as saturated as %s (%.3f/%.3f = %.3f) which it took from", pre, lr, alloc[lr].Get(res), fr, sr, lv, alloc[lv].Get(res), fv, sv)})
					}
				}
			}
		}
		_ = multiplier
		return out
	}
}
