package oracle

import (
	"fmt"
	"sort"

	"verif/mc/clustermc"
	"verif/mc/engine"
	"verif/mc/schedrun"
)

// FairShareData is what the C07 observer reads inside the session: each queue's fair share as the
// proportion plugin computed it (C09 judges those numbers; C07 judges what reclaim does with them).
type FairShareData struct {
	Fair map[string]Quant
	Err  string
}

func leveled(qs map[string]*QueueRef, a, b string) (string, string) {
	rev := func(s []string) []string {
		o := make([]string, len(s))
		for i := range s {
			o[len(s)-1-i] = s[i]
		}
		return o
	}
	pa, pb := rev(Ancestors(qs, a)), rev(Ancestors(qs, b))
	la, lb := "", ""
	for i := 0; i < len(pa) && i < len(pb); i++ {
		la, lb = pa[i], pb[i]
		if pa[i] != pb[i] {
			break
		}
	}
	return la, lb
}

func within(a Quant, limit func(r string) float64) bool {
	for _, r := range QuantResources {
		l := limit(r)
		if l >= 0 && a.Get(r) > l+1e-6 {
			return false
		}
	}
	return true
}

// ReclaimOracle implements C07 on the committed reclaim decisions of one cycle.
func ReclaimOracle(multiplier float64) clustermc.Oracle {
	const eps = 1e-6
	return func(t *clustermc.Transition) []engine.Violation {
		fd, ok := t.Obs.(FairShareData)
		if !ok || fd.Fair == nil {
			t.Stats["cycles_without_fair_share_data"]++
			return nil
		}
		t.Stats["cycles_with_fair_share_data"]++
		var out []engine.Violation
		jobs := Jobs(t.Pre)
		qs := Queues(t.Pre)
		podJob := map[string]*JobRef{}
		alloc := map[string]Quant{}
		allocNP := map[string]Quant{}
		counted := map[string]string{}
		charge := func(m map[string]Quant, queue string, q Quant, sign float64) {
			for _, a := range Ancestors(qs, queue) {
				c := m[a]
				m[a] = Quant{c.GPU + sign*q.GPU, c.CPU + sign*q.CPU, c.Mem + sign*q.Mem}
			}
		}
		for _, j := range jobs {
			for _, p := range j.Pods {
				podJob[p.Name] = j
				if ActiveAllocated(t.Pre, p) {
					counted[p.Name] = NodeOf(t.Pre, p)
					q := PodQuant(t.Pre, p, counted[p.Name])
					charge(alloc, j.Queue, q, 1)
					if !j.Preemptible {
						charge(allocNP, j.Queue, q, 1)
					}
				}
			}
		}
		apply := func(d schedrun.Decision) {
			j := podJob[d.Pod]
			p := t.Pre.Pod(d.Pod)
			if j == nil || p == nil || d.Failed {
				return
			}
			switch d.Kind {
			case "evict":
				if node, ok := counted[d.Pod]; ok {
					delete(counted, d.Pod)
					q := PodQuant(t.Pre, p, node)
					charge(alloc, j.Queue, q, -1)
					if !j.Preemptible {
						charge(allocNP, j.Queue, q, -1)
					}
				}
			case "bind", "pipeline":
				if _, ok := counted[d.Pod]; ok {
					return
				}
				counted[d.Pod] = d.Node
				q := PodQuant(t.Pre, p, d.Node)
				charge(alloc, j.Queue, q, 1)
				if !j.Preemptible {
					charge(allocNP, j.Queue, q, 1)
				}
			}
		}
		clone := func(m map[string]Quant) map[string]Quant {
			c := map[string]Quant{}
			for k, v := range m {
				c[k] = v
			}
			return c
		}
		ds := t.Res.Decisions
		for i := 0; i < len(ds); {
			if !(ds[i].Kind == "evict" && ds[i].Action == "reclaim") {
				apply(ds[i])
				i++
				continue
			}
			// one reclaim statement: evictions for a preemptor, then its (and re-placed victims') nominations
			pre := ds[i].Preemptor
			before := clone(alloc)
			j := i
			victimQueues := map[string]bool{}
			jobNet := map[string]Quant{} // victim job -> what it loses in this statement (evicted minus re-placed pods)
			for j < len(ds) && ((ds[j].Kind == "evict" && ds[j].Action == "reclaim" && ds[j].Preemptor == pre) || ((ds[j].Kind == "pipeline" || ds[j].Kind == "bind") && ds[j].AfterAction == "reclaim")) {
				if vj := podJob[ds[j].Pod]; vj != nil && !ds[j].Failed && vj.Name != pre {
					if p := t.Pre.Pod(ds[j].Pod); p != nil {
						c := jobNet[vj.Name]
						if node, ok := counted[ds[j].Pod]; ok && ds[j].Kind == "evict" {
							q := PodQuant(t.Pre, p, node)
							jobNet[vj.Name] = Quant{c.GPU + q.GPU, c.CPU + q.CPU, c.Mem + q.Mem}
						} else if _, ok := counted[ds[j].Pod]; !ok && ds[j].Kind != "evict" {
							q := PodQuant(t.Pre, p, ds[j].Node)
							jobNet[vj.Name] = Quant{c.GPU - q.GPU, c.CPU - q.CPU, c.Mem - q.Mem}
						}
					}
				}
				if ds[j].Kind == "evict" {
					if vj := podJob[ds[j].Pod]; vj != nil {
						victimQueues[vj.Queue] = true
					}
				}
				apply(ds[j])
				j++
			}
			i = j
			r := jobs[pre]
			if r == nil {
				continue
			}
			t.Stats["reclaim_statements_checked"]++
			fair := func(q string) func(string) float64 {
				return func(res string) float64 {
					f, ok := fd.Fair[q]
					if !ok {
						return -1
					}
					return f.Get(res)
				}
			}
			// (2) the reclaiming queue stays within its fair share
			if !within(alloc[r.Queue], fair(r.Queue)) {
				out = append(out, engine.Violation{Property: "C07", Key: "C07/reclaimer-above-fair-share",
					Message: fmt.Sprintf("reclaim for %s: queue %s allocation %+v exceeds its fair share %+v after receiving the resources", pre, r.Queue, alloc[r.Queue], fd.Fair[r.Queue])})
			}
			// (3) non-preemptible reclaimer within deserved quota
			if !r.Preemptible {
				for _, a := range Ancestors(qs, r.Queue) {
					qa := qs[a]
					if !within(allocNP[a], func(res string) float64 { return queueQuota(qa, res) }) {
						out = append(out, engine.Violation{Property: "C07", Key: "C07/non-preemptible-reclaimer-over-quota",
							Message: fmt.Sprintf("reclaim for non-preemptible %s: queue %s non-preemptible allocation %+v exceeds its deserved quota", pre, a, allocNP[a])})
						break
					}
				}
			}
			vqs := []string{}
			for q := range victimQueues {
				vqs = append(vqs, q)
			}
			sort.Strings(vqs)
			for _, vq := range vqs {
				lr, lv := leveled(qs, r.Queue, vq)
				if lr == "" || lv == "" || lr == lv {
					continue
				}
				if lr != r.Queue {
					t.Stats["reclaim_across_departments"]++
				}
				// (1) a queue within its deserved quota in every resource is not net-reduced
				qv := qs[lv]
				withinDeserved := within(before[lv], func(res string) float64 { return queueQuota(qv, res) })
				reduced := false
				for _, res := range QuantResources {
					if alloc[lv].Get(res) < before[lv].Get(res)-eps {
						reduced = true
					}
				}
				if withinDeserved && reduced {
					out = append(out, engine.Violation{Property: "C07", Key: "C07/reclaimed-from-queue-within-deserved",
						Message: fmt.Sprintf("reclaim for %s (queue %s) reduced queue %s from %+v to %+v although it was within its deserved quota in every resource", pre, r.Queue, lv, before[lv], alloc[lv])})
				}
				// (1') the same sentence, victim job by victim job: the reclaim takes the victims of one
				// statement one workload after the other; whatever the order, each one must come out of a
				// queue that is at that moment above its deserved quota in some resource. Violation only
				// if NO order of the victim workloads satisfies that.
				var losses []Quant
				for _, jn := range sortedJobNames(jobNet) {
					vj := jobs[jn]
					if vj == nil {
						continue
					}
					if _, l := leveled(qs, r.Queue, vj.Queue); l != lv {
						continue
					}
					if n := jobNet[jn]; n.GPU > eps || n.CPU > eps || n.Mem > eps {
						losses = append(losses, n)
					}
				}
				if len(losses) >= 2 && len(losses) <= 6 {
					t.Stats["reclaim_statements_with_several_victim_workloads_in_one_queue_subtree"]++
					if !existsLegalOrder(before[lv], losses, func(res string) float64 { return queueQuota(qv, res) }) {
						out = append(out, engine.Violation{Property: "C07", Key: "C07/reclaimed-from-queue-within-deserved victims=several-workloads",
							Message: fmt.Sprintf("reclaim for %s (queue %s) took %d workloads out of %s (allocation %+v -> %+v, deserved gpu %.2f): in every order of these victims one of them is taken while %s is already within its deserved quota in every resource", pre, r.Queue, len(losses), lv, before[lv], alloc[lv], queueQuota(qv, "gpu"), lv)})
					}
				}
				// (4) saturation: at every level from the diverging one upward... the statement speaks of
				// ancestors of the reclaimer and the sibling it took from: that is exactly the leveled pair.
				for _, res := range QuantResources {
					if alloc[lv].Get(res) >= before[lv].Get(res)-eps && alloc[lr].Get(res) <= before[lr].Get(res)+eps {
						continue // resource not involved
					}
					fr, fv := fair(lr)(res), fair(lv)(res)
					if fr < 0 && fv < 0 {
						continue
					}
					sat := func(a, f float64) float64 {
						if f == 0 {
							if a > eps {
								return 1e18
							}
							return 0
						}
						if f < 0 {
							return 0
						}
						return a / f
					}
					sr, sv := sat(alloc[lr].Get(res), fr), sat(alloc[lv].Get(res), fv)
					if sr > 1+eps && fv > 0 && sr >= sv-eps {
						out = append(out, engine.Violation{Property: "C07", Key: "C07/reclaimer-ancestor-over-fair-share-and-more-saturated res=" + res,
							Message: fmt.Sprintf("reclaim for %s: %s ends at %.3f/%.3f (saturation %.3f) above its fair share and at least as saturated as %s (%.3f/%.3f = %.3f) which it took from", pre, lr, alloc[lr].Get(res), fr, sr, lv, alloc[lv].Get(res), fv, sv)})
					}
				}
			}
		}
		_ = multiplier
		return out
	}
}

func sortedJobNames(m map[string]Quant) []string {
	out := []string{}
	for k := range m {
		out = append(out, k)
	}
	sort.Strings(out)
	return out
}

// existsLegalOrder: is there an order of the losses such that before each one the allocation is NOT
// within the quota in every resource (quota < 0 = unlimited: never "above").
func existsLegalOrder(start Quant, losses []Quant, quota func(res string) float64) bool {
	used := make([]bool, len(losses))
	var rec func(cur Quant, left int) bool
	rec = func(cur Quant, left int) bool {
		if left == 0 {
			return true
		}
		if within(cur, quota) {
			return false
		}
		for i := range losses {
			if used[i] {
				continue
			}
			used[i] = true
			ok := rec(Quant{cur.GPU - losses[i].GPU, cur.CPU - losses[i].CPU, cur.Mem - losses[i].Mem}, left-1)
			used[i] = false
			if ok {
				return true
			}
		}
		return false
	}
	return rec(start, len(losses))
}
