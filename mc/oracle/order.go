package oracle

import (
	"fmt"
	"sort"
	"strings"

	"verif/mc/clustermc"
	"verif/mc/engine"
)

// OrderOracle implements C16: among ready pending workloads of one leaf queue that are identical in
// pod template, gang shape and preemptibility, the allocate action never places a lower-priority
// one while a higher-priority one stays unplaced, nor (equal priority) a younger one before an older.
func OrderOracle() clustermc.Oracle {
	return func(t *clustermc.Transition) []engine.Violation {
		var out []engine.Violation
		jobs := Jobs(t.Pre)
		placed := map[string]bool{}
		for _, d := range t.Res.Decisions {
			if (d.Kind == "bind" || d.Kind == "pipeline") && d.AfterAction == "allocate" {
				placed[d.Group] = true
			}
		}
		type cand struct {
			j   *JobRef
			sig string
		}
		var cs []cand
		for _, j := range jobs {
			// ready pending workload: every pod pending & ungated, at least min pods exist
			if len(j.Pods) == 0 {
				continue
			}
			allPending := true
			shapes := []string{}
			for _, p := range j.Pods {
				if p.Status.Phase != "Pending" || p.Spec.NodeName != "" || p.DeletionTimestamp != nil || len(p.Spec.SchedulingGates) > 0 || brFor(t.Pre, p) != nil {
					allPending = false
				}
				r := ReqOf(p)
				shapes = append(shapes, fmt.Sprintf("%s|%d/%d/%d/%v/%.3f/%d/%d|%v|%v|%v", j.PodSetOf(p), r.MilliCPU, r.Memory, r.WholeGPU, r.Extended, r.Fraction, r.GPUMem, r.NumDev,
					p.Spec.NodeSelector, p.Spec.Affinity, p.Spec.Tolerations))
			}
			if !allPending {
				continue
			}
			sort.Strings(shapes)
			ps := []string{}
			for k, v := range j.PodSets {
				ps = append(ps, fmt.Sprintf("%s=%d", k, v))
			}
			sort.Strings(ps)
			sig := fmt.Sprintf("q=%s pre=%v sets=%v topo=%v pods=%s", j.Queue, j.Preemptible, ps, j.PG.Spec.TopologyConstraint, strings.Join(shapes, ";"))
			cs = append(cs, cand{j, sig})
		}
		for _, hi := range cs {
			for _, lo := range cs {
				if hi.j == lo.j || hi.sig != lo.sig {
					continue
				}
				older := hi.j.PG.CreationTimestamp.Time.Before(lo.j.PG.CreationTimestamp.Time)
				var why string
				switch {
				case hi.j.Priority > lo.j.Priority:
					why = "priority"
				case hi.j.Priority == lo.j.Priority && older:
					why = "fifo"
				default:
					continue
				}
				if placed[lo.j.Name] && !placed[hi.j.Name] {
					out = append(out, engine.Violation{Property: "C16", Key: "C16/inversion by=" + why,
						Message: fmt.Sprintf("allocate placed %s (priority %d, created %s) but left the comparable %s (priority %d, created %s) of queue %s unplaced", lo.j.Name, lo.j.Priority,
							lo.j.PG.CreationTimestamp.Format("15:04:05"), hi.j.Name, hi.j.Priority, hi.j.PG.CreationTimestamp.Format("15:04:05"), hi.j.Queue)})
				}
			}
		}
		return out
	}
}
