package oracle

import (
	"sort"
	"strings"

	corev1 "k8s.io/api/core/v1"

	schedv2 "github.com/NVIDIA/KAI-scheduler/pkg/apis/scheduling/v2"
	schedv2alpha2 "github.com/NVIDIA/KAI-scheduler/pkg/apis/scheduling/v2alpha2"

	"verif/mc/schedrun"
	"verif/mc/world"
)

// JobRef is the reference view of one workload (pod group), built from API objects only.
type JobRef struct {
	Name        string
	PG          *schedv2alpha2.PodGroup
	Queue       string
	Priority    int32
	Preemptible bool
	// PodSets: leaf sub-groups (name -> min); "" is the default pod set of a flat group.
	PodSets map[string]int32
	Pods    []*corev1.Pod
}

const defaultPodSet = "default"

func Jobs(w *world.World) map[string]*JobRef {
	prio := map[string]int32{}
	def := int32(50)
	for _, pc := range w.PriorityClasses {
		prio[pc.Name] = pc.Value
		if pc.GlobalDefault {
			def = pc.Value
		}
	}
	out := map[string]*JobRef{}
	for _, pg := range w.PodGroups {
		j := &JobRef{Name: pg.Name, PG: pg, Queue: pg.Spec.Queue, PodSets: map[string]int32{}}
		if v, ok := prio[pg.Spec.PriorityClassName]; ok {
			j.Priority = v
		} else {
			j.Priority = def
		}
		switch pg.Spec.Preemptibility {
		case schedv2alpha2.Preemptible:
			j.Preemptible = true
		case schedv2alpha2.NonPreemptible:
			j.Preemptible = false
		default:
			j.Preemptible = j.Priority < 100
		}
		if len(pg.Spec.SubGroups) == 0 {
			m := pg.Spec.MinMember
			if m < 1 {
				m = 1
			}
			j.PodSets[defaultPodSet] = m
		} else {
			hasChild := map[string]bool{}
			for _, sg := range pg.Spec.SubGroups {
				if sg.Parent != nil {
					hasChild[strings.ToLower(*sg.Parent)] = true
				}
			}
			for _, sg := range pg.Spec.SubGroups {
				if hasChild[sg.Name] {
					continue
				}
				m := sg.MinMember
				if m < 1 {
					m = 1
				}
				j.PodSets[sg.Name] = m
			}
		}
		out[pg.Name] = j
	}
	for _, p := range w.Pods {
		if world.IsReservationPod(p) {
			continue
		}
		if j, ok := out[p.Annotations[world.PodGroupAnno]]; ok {
			j.Pods = append(j.Pods, p)
		}
	}
	return out
}

func (j *JobRef) PodSetOf(p *corev1.Pod) string {
	if len(j.PG.Spec.SubGroups) == 0 {
		return defaultPodSet
	}
	return p.Labels[world.SubGroupLabel]
}

// ActiveAllocated: the pod holds (or is being given) a node and is not terminating.
func ActiveAllocated(w *world.World, p *corev1.Pod) bool {
	if isTerminalPhase(p) || p.DeletionTimestamp != nil {
		return false
	}
	if p.Spec.NodeName != "" {
		return true
	}
	br := brFor(w, p)
	return br != nil && !brTerminallyFailed(br) && w.Node(br.Spec.SelectedNode) != nil
}

// NodeOf returns the node a pod occupies in w ("" if none).
func NodeOf(w *world.World, p *corev1.Pod) string {
	if p.Spec.NodeName != "" {
		return p.Spec.NodeName
	}
	if br := brFor(w, p); br != nil && !brTerminallyFailed(br) {
		return br.Spec.SelectedNode
	}
	return ""
}

// QueueRef is the reference view of the queue forest.
type QueueRef struct {
	Q        *schedv2.Queue
	Name     string
	Parent   string
	Children []string
}

func Queues(w *world.World) map[string]*QueueRef {
	out := map[string]*QueueRef{}
	for _, q := range w.Queues {
		out[q.Name] = &QueueRef{Q: q, Name: q.Name, Parent: q.Spec.ParentQueue}
	}
	for _, q := range out {
		if p, ok := out[q.Parent]; ok && q.Parent != "" {
			p.Children = append(p.Children, q.Name)
		}
	}
	for _, q := range out {
		sort.Strings(q.Children)
	}
	return out
}

// Ancestors returns q and its ancestors (leaf first). Stops on cycles / missing parents.
func Ancestors(qs map[string]*QueueRef, name string) []string {
	var out []string
	seen := map[string]bool{}
	for name != "" && !seen[name] {
		q, ok := qs[name]
		if !ok {
			break
		}
		seen[name] = true
		out = append(out, name)
		name = q.Parent
	}
	return out
}

// Split groups decisions by kind.
func Split(ds []schedrun.Decision) (binds, evicts, pipes []schedrun.Decision) {
	for _, d := range ds {
		switch d.Kind {
		case "bind":
			binds = append(binds, d)
		case "evict":
			evicts = append(evicts, d)
		case "pipeline":
			pipes = append(pipes, d)
		}
	}
	return
}
