package oracle

import (
	"fmt"
	"time"

	"verif/mc/clustermc"
	"verif/mc/engine"
	"verif/mc/schedrun"
	"verif/mc/world"
)

// refMinRuntime: the documented resolution rules of the min-runtime plugin (own implementation).
// preempt: walk from the victim's leaf queue to the root, first queue with a preempt-min-runtime.
// reclaim (LCA method): take the child of the lowest common ancestor that is an ancestor of (or
// is) the victim's leaf queue, then walk up to the root, first queue with a reclaim-min-runtime;
// queues of different top-level trees: the victim's top-level queue only.
func refMinRuntime(qs map[string]*QueueRef, action, preemptorQ, victimQ string) time.Duration {
	if action == "preempt" {
		for _, a := range Ancestors(qs, victimQ) {
			if d := qs[a].Q.Spec.PreemptMinRuntime; d != nil {
				return d.Duration
			}
		}
		return 0
	}
	rev := func(s []string) []string {
		o := make([]string, len(s))
		for i := range s {
			o[len(s)-1-i] = s[i]
		}
		return o
	}
	pp, vp := rev(Ancestors(qs, preemptorQ)), rev(Ancestors(qs, victimQ)) // root first
	if len(pp) == 0 || len(vp) == 0 {
		return 0
	}
	if pp[0] != vp[0] {
		if d := qs[vp[0]].Q.Spec.ReclaimMinRuntime; d != nil {
			return d.Duration
		}
		return 0
	}
	lca := 0
	for i := 0; i < len(pp) && i < len(vp); i++ {
		if pp[i] != vp[i] {
			break
		}
		lca = i
	}
	if lca+1 < len(vp) {
		lca++
	}
	for i := lca; i >= 0; i-- {
		if d := qs[vp[i]].Q.Spec.ReclaimMinRuntime; d != nil {
			return d.Duration
		}
	}
	return 0
}

// protectedByMinRuntime: scenarios only use durations 0 or >= 1000h and last-start stamps that are
// either years old or written during this run, so the wall clock cannot flip the answer.
func protectedByMinRuntime(j *JobRef, d time.Duration) bool {
	if d <= 0 {
		return false
	}
	s := j.PG.Annotations[world.LastStartAnno]
	if s == "" {
		return false
	}
	ts, err := time.Parse(time.RFC3339, s)
	if err != nil {
		return false
	}
	return time.Now().Before(ts.Add(d))
}

// VictimOracle implements C06 on one cycle transition.
func VictimOracle() clustermc.Oracle {
	return func(t *clustermc.Transition) []engine.Violation {
		var out []engine.Violation
		jobs := Jobs(t.Pre)
		qs := Queues(t.Pre)
		binds, evicts, pipes := Split(t.Res.Decisions)
		podJob := map[string]*JobRef{}
		for _, j := range jobs {
			for _, p := range j.Pods {
				podJob[p.Name] = j
			}
		}
		placedJobs := map[string]bool{}
		for _, d := range binds {
			placedJobs[d.Group] = true
		}
		pipedTo := map[string]string{}
		pipedGroups := map[string][]string{}
		for _, d := range pipes {
			placedJobs[d.Group] = true
			pipedTo[d.Pod] = d.Node
			pipedGroups[d.Pod] = d.GPUGroups
		}
		// evictions so far in this cycle, in decision order, each pod once (any action): an eviction is
		// judged by the rule of ITS action against what is left of the job at that moment. Evictions that a
		// later, differently protected action adds (e.g. preempt inside the queue, with no preempt
		// min-runtime, after a reclaim took the surplus) are judged by their own rule - except that all
		// evictions of one statement are one decision: those of the same action for the same preemptor are
		// counted together.
		evictedPerJob := map[string]map[string]int{} // job -> podset -> evicted so far
		countedPod := map[string]bool{}
		count := func(d schedrun.Decision) { // (decision of the cycle)
			if countedPod[d.Pod] || d.Failed {
				return // (an eviction whose API call failed or was refused removes nothing)
			}
			if j := podJob[d.Pod]; j != nil {
				if p := t.Pre.Pod(d.Pod); p != nil {
					if evictedPerJob[j.Name] == nil {
						evictedPerJob[j.Name] = map[string]int{}
					}
					countedPod[d.Pod] = true
					evictedPerJob[j.Name][j.PodSetOf(p)]++
				}
			}
		}
		for i, d := range evicts {
			// this eviction and every later one of the same statement (same action, same preemptor)
			for _, e := range evicts[i:] {
				if e.Action == d.Action && e.Preemptor == d.Preemptor {
					count(e)
				}
			}
			if d.Action == "stalegangeviction" {
				continue
			}
			v := podJob[d.Pod]
			if v == nil {
				continue
			}
			add := func(key, msg string) {
				out = append(out, engine.Violation{Property: "C06", Key: "C06/" + key + " action=" + d.Action, Message: msg})
			}
			if !v.Preemptible {
				add("non-preemptible-victim", fmt.Sprintf("%s evicted pod %s of NON-preemptible job %s (priority %d, spec.preemptibility=%q)", d.Action, d.Pod, v.Name, v.Priority, v.PG.Spec.Preemptibility))
			}
			var pre *JobRef
			if d.Preemptor != "" {
				pre = jobs[d.Preemptor]
			}
			switch d.Action {
			case "preempt":
				if pre == nil {
					add("no-preemptor", fmt.Sprintf("preempt eviction of %s names no known preemptor (%q)", d.Pod, d.Preemptor))
					break
				}
				if pre.Queue != v.Queue {
					add("preempt-other-queue", fmt.Sprintf("preempt: victim %s (queue %s) is not in preemptor %s's queue %s", v.Name, v.Queue, pre.Name, pre.Queue))
				}
				if !(v.Priority < pre.Priority) {
					add("preempt-not-lower-priority", fmt.Sprintf("preempt: victim %s priority %d is not strictly lower than preemptor %s priority %d", v.Name, v.Priority, pre.Name, pre.Priority))
				}
			case "reclaim":
				if pre == nil {
					add("no-preemptor", fmt.Sprintf("reclaim eviction of %s names no known reclaimer (%q)", d.Pod, d.Preemptor))
					break
				}
				if pre.Queue == v.Queue {
					add("reclaim-same-queue", fmt.Sprintf("reclaim: victim %s and reclaimer %s are both in queue %s", v.Name, pre.Name, v.Queue))
				}
			case "consolidation":
				to, ok := pipedTo[d.Pod]
				if !ok {
					add("consolidation-victim-not-replaced", fmt.Sprintf("consolidation evicted %s from %s without nominating it anywhere in the same cycle", d.Pod, d.Node))
				} else if to == d.Node {
					// same node: distinguish "moved to another physical GPU of the node" (fractional pods)
					// from a plain no-op re-placement
					old := []string{}
					if p := t.Pre.Pod(d.Pod); p != nil {
						old = world.PodGPUGroups(p)
					}
					moved := len(old) > 0 && len(pipedGroups[d.Pod]) > 0
					for _, g := range pipedGroups[d.Pod] {
						for _, o := range old {
							if g == o {
								moved = false
							}
						}
					}
					if moved {
						add("consolidation-same-node-other-gpu-device", fmt.Sprintf("consolidation evicted fractional pod %s from %s (device %v) and re-placed it on the SAME node on another device %v", d.Pod, d.Node, old, pipedGroups[d.Pod]))
					} else {
						add("consolidation-same-node-same-place", fmt.Sprintf("consolidation evicted %s from %s and re-placed it on the same node (devices %v -> %v)", d.Pod, d.Node, old, pipedGroups[d.Pod]))
					}
				}
			}
			if d.Action == "preempt" || d.Action == "reclaim" {
				if pre != nil && !placedJobs[pre.Name] {
					add("eviction-without-placement", fmt.Sprintf("%s evicted %s for %s, but no pod of %s was bound or nominated in the same cycle", d.Action, d.Pod, pre.Name, pre.Name))
				}
				if pre != nil {
					mr := refMinRuntime(qs, d.Action, pre.Queue, v.Queue)
					if protectedByMinRuntime(v, mr) {
						// elastic exemption: allowed only while every pod set stays at or above its minimum
						ok := true
						for ps, min := range v.PodSets {
							active := 0
							for _, p := range v.Pods {
								if v.PodSetOf(p) == ps && (ActiveAllocated(t.Pre, p) || (p.Spec.NodeName != "" && !isTerminalPhase(p))) {
									active++
								}
							}
							if active-evictedPerJob[v.Name][ps] < int(min) {
								ok = false
							}
						}
						if !ok {
							add("min-runtime-protected-victim", fmt.Sprintf("%s evicted %s of job %s (queue %s) which is inside its min-runtime %s (last start %s) and drops below its minimum size", d.Action, d.Pod, v.Name, v.Queue, mr, v.PG.Annotations[world.LastStartAnno]))
						}
					}
				}
			}
		}
		return out
	}
}
