// checkcore: the ClusterMC families only (used while other check packages are under construction).
package main

import (
	"verif/mc/cli"
	_ "verif/mc/families"
)

func main() { cli.Main() }
