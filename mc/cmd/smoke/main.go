package main

import (
	"encoding/json"
	"fmt"
	"os"

	"verif/mc/schedrun"
	"verif/mc/world"
)

// smoke <replay.json>: runs one default cycle on the replay's world and prints decisions / panic.
func main() {
	b, _ := os.ReadFile(os.Args[1])
	var v struct {
		Replay struct {
			World   json.RawMessage `json:"world"`
			Initial json.RawMessage `json:"initial_world"`
		} `json:"replay"`
	}
	if err := json.Unmarshal(b, &v); err != nil {
		panic(err)
	}
	raw := v.Replay.World
	if raw == nil {
		raw = v.Replay.Initial
	}
	w, err := world.FromJSON(raw)
	if err != nil {
		panic(err)
	}
	res, err := schedrun.RunCycle(w, schedrun.Config{}, nil)
	fmt.Println("err:", err)
	if res != nil {
		fmt.Println("openErr:", res.OpenErr)
		for _, d := range res.Decisions {
			fmt.Println("  ", d)
		}
		fmt.Println("PANIC:", res.Panic)
	}
}
