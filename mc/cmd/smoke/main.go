package main

import (
	"encoding/json"
	"fmt"
	"os"
	"runtime/debug"

	"github.com/NVIDIA/KAI-scheduler/pkg/scheduler/framework"

	"verif/mc/schedrun"
	"verif/mc/sessioncheck"
	"verif/mc/world"
)

type obs struct {
	n  int
	tr *sessioncheck.Tracker
}

func (o *obs) chk(ssn *framework.Session, where string) {
	ps := sessioncheck.Accounting(ssn, where, o.tr)
	if len(ps) > 0 && o.n < 3 {
		o.n++
		for _, p := range ps {
			fmt.Println("PROBLEM", p.Key, p.Msg)
		}
		fmt.Println(sessioncheck.Dump(ssn))
	}
}
func (o *obs) SessionOpened(ssn *framework.Session) {
	o.chk(ssn, "open")
	ssn.AddEventHandler(&framework.EventHandler{
		AllocateFunc: func(e *framework.Event) {
			o.tr.OnAllocate(e.Task)
			j := ssn.ClusterInfo.PodGroupInfos[e.Task.Job]
			fmt.Println("EVENT alloc", e.Task.Name, e.Task.Status, e.Task.NodeName, e.Task.GPUGroups, "virtual=", e.Task.IsVirtualStatus, "jobActive=", j.GetActiveAllocatedTasksCount())
			o.chk(ssn, "alloc")
		},
		DeallocateFunc: func(e *framework.Event) {
			o.tr.OnDeallocate(e.Task)
			j := ssn.ClusterInfo.PodGroupInfos[e.Task.Job]
			fmt.Println("EVENT dealloc", e.Task.Name, e.Task.Status, e.Task.NodeName, e.Task.GPUGroups, "virtual=", e.Task.IsVirtualStatus, "jobActive=", j.GetActiveAllocatedTasksCount())
			if os.Getenv("STACK") != "" {
				debug.PrintStack()
			}
			o.chk(ssn, "dealloc")
		},
	})
}
func (o *obs) AfterAction(name string, ssn *framework.Session, ds []schedrun.Decision) {
	fmt.Println("AFTER", name, len(ds))
	o.chk(ssn, "after-"+name)
}

// smoke <replay.json>: runs one default cycle on the replay's world and prints decisions / panic.
func main() {
	b, _ := os.ReadFile(os.Args[1])
	var v struct {
		Replay struct {
			World   json.RawMessage `json:"world"`
			Initial json.RawMessage `json:"initial_world"`
		} `json:"replay"`
	}
	if err := json.Unmarshal(b, &v); err != nil {
		panic(err)
	}
	raw := v.Replay.World
	if raw == nil {
		raw = v.Replay.Initial
	}
	w, err := world.FromJSON(raw)
	if err != nil {
		panic(err)
	}
	res, err := schedrun.RunCycle(w, schedrun.Config{}, &obs{tr: sessioncheck.NewTracker()})
	fmt.Println("err:", err)
	if res != nil {
		fmt.Println("openErr:", res.OpenErr)
		for _, d := range res.Decisions {
			fmt.Println("  ", d)
		}
		fmt.Println("PANIC:", res.Panic)
	}
}
