package main

import (
	"fmt"
	"time"

	corev1 "k8s.io/api/core/v1"

	"verif/mc/maporder"
	"verif/mc/schedrun"
	"verif/mc/world"
)

func main() {
	w := &world.World{PriorityClasses: world.StdPriorityClasses()}
	w.Nodes = append(w.Nodes, world.MkNode(world.NodeOpt{Name: "n1", GPUs: 2, GPUMemMiB: 40000}))
	w.Queues = append(w.Queues, world.GQueue("dept", "", -1, -1, 1), world.GQueue("qa", "dept", 1, -1, 1), world.GQueue("qb", "dept", 1, -1, 1))
	w.PodGroups = append(w.PodGroups,
		world.MkPodGroup(world.PGOpt{Name: "a", Queue: "qa", MinMember: 1, PriorityClass: "p50", Rank: 1}),
		world.MkPodGroup(world.PGOpt{Name: "b", Queue: "qa", MinMember: 1, PriorityClass: "p50", Rank: 2}),
		world.MkPodGroup(world.PGOpt{Name: "c", Queue: "qb", MinMember: 1, PriorityClass: "p50", Rank: 3}))
	w.Pods = append(w.Pods,
		world.MkPod(world.PodOpt{Name: "a0", Group: "a", Shape: world.Shape{GPUs: 1}, Rank: 1, Phase: corev1.PodRunning, Node: "n1"}),
		world.MkPod(world.PodOpt{Name: "b0", Group: "b", Shape: world.Shape{GPUs: 1}, Rank: 2, Phase: corev1.PodRunning, Node: "n1"}),
		world.MkPod(world.PodOpt{Name: "c0", Group: "c", Shape: world.Shape{GPUs: 1}, Rank: 3}))
	for i := 0; i < 5; i++ {
		t := time.Now()
		r, err := schedrun.RunCycle(w, schedrun.Config{}, nil)
		if err != nil {
			panic(err)
		}
		fmt.Println(time.Since(t), r.OpenErr)
		for _, d := range r.Decisions {
			fmt.Println("  ", d)
		}
		if i == 4 {
			for _, p := range r.After.Pods {
				fmt.Println(p.Name, p.Status.Phase, p.DeletionTimestamp != nil, p.Status.Conditions)
			}
			for _, p := range r.After.BindRequests {
				fmt.Printf("%+v\n", p.Spec)
			}
			for _, p := range r.After.PodGroups {
				fmt.Printf("%v %+v\n", p.Annotations, p.Status)
			}
		}
	}
}

func init() {
	maporder.Set(3)
	m := map[string]int{"a": 1, "b": 2, "c": 3, "d": 4}
	for i := 0; i < 3; i++ {
		for k := range m {
			fmt.Print(k)
		}
		fmt.Println()
	}
}
