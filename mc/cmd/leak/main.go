// leak: runs N scheduler cycles in one process and reports goroutines / heap: shows what one cycle leaves behind.
package main

import (
	"fmt"
	"os"
	"runtime"
	"runtime/pprof"
	"strconv"

	"verif/mc/schedrun"
	"verif/mc/world"
)

func main() {
	n, _ := strconv.Atoi(os.Args[1])
	b := world.NewBuilder()
	b.Node(world.NodeOpt{Name: "n1", CPU: "8", Mem: "16Gi", GPUs: 2, GPUMemMiB: 40000})
	b.GQueue("dept", "", -1, -1, 1).GQueue("qa", "dept", 1, -1, 1)
	b.Workload(world.WL{Name: "w0", Queue: "qa", Pods: []world.PodSpec{{Shape: world.Shape{CPUm: 500, GPUs: 1}}}})
	w := b.Done()
	var ms runtime.MemStats
	for i := 0; i <= n; i++ {
		if _, err := schedrun.RunCycle(w, schedrun.Config{}, nil); err != nil {
			panic(err)
		}
		if i%50 == 0 {
			runtime.GC()
			runtime.ReadMemStats(&ms)
			fmt.Printf("cycles=%d goroutines=%d heapMiB=%d\n", i, runtime.NumGoroutine(), ms.HeapAlloc>>20)
		}
	}
	if len(os.Args) > 2 {
		pprof.Lookup("goroutine").WriteTo(os.Stdout, 1)
	}
}
