// check <property-id> --tier quick|thorough [--replay file]
package main

import (
	_ "verif/mc/checks"
	"verif/mc/cli"
)

func main() { cli.Main() }
