// check <property-id> --tier quick|thorough [--replay file]
package main

import (
	"flag"
	"fmt"
	"io"
	"os"
	"time"

	"k8s.io/klog/v2"

	"verif/mc/clustermc"
	"verif/mc/families"
)

func main() {
	if len(os.Args) < 2 {
		fmt.Fprintln(os.Stderr, "usage: check <id> [--tier quick|thorough] [--replay f]")
		os.Exit(2)
	}
	id := os.Args[1]
	fs := flag.NewFlagSet("check", flag.ExitOnError)
	tier := fs.String("tier", "quick", "quick|thorough")
	replay := fs.String("replay", "", "replay file")
	_ = fs.Parse(os.Args[2:])
	if t := os.Getenv("VERIF_TIER"); t != "" && !flagSet(fs, "tier") {
		*tier = t
	}
	klog.SetOutput(io.Discard)
	klog.LogToStderr(false)

	if *replay != "" {
		os.Exit(doReplay(id, *replay))
	}
	cm := map[string]func() *clustermc.Family{
		"C01": families.C01,
	}
	if f, ok := cm[id]; ok {
		fam := f()
		budget := 150 * time.Second
		if *tier == "thorough" {
			budget = 25 * time.Minute
		}
		os.Exit(clustermc.RunFamily(fam, clustermc.RunOpts{Tier: *tier, Budget: budget, Rule: families.Rule(id)}))
	}
	fmt.Fprintf(os.Stderr, "unknown property %s\n", id)
	os.Exit(2)
}

func flagSet(fs *flag.FlagSet, name string) bool {
	set := false
	fs.Visit(func(f *flag.Flag) {
		if f.Name == name {
			set = true
		}
	})
	return set
}

func doReplay(id, path string) int {
	fmt.Fprintln(os.Stderr, "replay not wired yet")
	return 2
}
