// probe <property> <scenario-substring> [config-index] [tier]: runs ONE real cycle on the first matching
// scenario of a ClusterMC family and prints decisions and the scheduler's own explanations.
package main

import (
	"fmt"
	"os"
	"strconv"
	"strings"

	"verif/mc/clustermc"
	"verif/mc/families"
	"verif/mc/schedrun"
)

func main() {
	fams := map[string]func() *clustermc.Family{"C01": families.C01, "C02": families.C02, "C03": families.C03, "C04": families.C04, "C05": families.C05, "C06": families.C06,
		"C07": families.C07, "C08x": families.C08, "C08": families.C08, "C12": families.C12, "C14": families.C14, "C15": families.C15, "C16": families.C16}
	mk := fams[os.Args[1]]
	if mk == nil {
		fmt.Println("unknown family")
		os.Exit(2)
	}
	ci := 0
	if len(os.Args) > 3 {
		ci, _ = strconv.Atoi(os.Args[3])
	}
	tier := "quick"
	if len(os.Args) > 4 {
		tier = os.Args[4]
	}
	for _, s := range mk().Scenarios(tier) {
		if !strings.Contains(s.Name, os.Args[2]) {
			continue
		}
		fmt.Println("scenario:", s.Name, "config:", s.Configs[ci].Label())
		res, err := schedrun.RunCycle(s.World, s.Configs[ci], nil)
		if err != nil {
			fmt.Println("error:", err)
			os.Exit(2)
		}
		if res.OpenErr != nil {
			fmt.Println("open error:", res.OpenErr)
		}
		for _, d := range res.Decisions {
			fmt.Printf("  %v [action %s]\n", d, d.AfterAction)
		}
		for _, pg := range res.After.PodGroups {
			for _, c := range pg.Status.SchedulingConditions {
				fmt.Printf("  podgroup %s: %s: %s\n", pg.Name, c.Type, c.Message)
			}
		}
		for _, p := range res.After.Pods {
			for _, c := range p.Status.Conditions {
				if c.Message != "" {
					fmt.Printf("  pod %s: %s: %s\n", p.Name, c.Type, c.Message)
				}
			}
		}
		return
	}
	fmt.Println("no scenario matches")
}
