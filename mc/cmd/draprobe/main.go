// draprobe: opens a real session on the C13 DRA base world (or a world JSON given as argument)
// and prints the scheduler's view (sessioncheck.Dump) before and after a virtual eviction of the
// claim-holding pod, its rollback, and a virtual allocation of the pending claim pod; then runs a
// full cycle and prints the decisions and the BindRequests' claim allocations. Debug aid.
package main

import (
	"fmt"
	"os"
	"sort"

	"github.com/NVIDIA/KAI-scheduler/pkg/scheduler/actions/common"
	"github.com/NVIDIA/KAI-scheduler/pkg/scheduler/api/eviction_info"
	"github.com/NVIDIA/KAI-scheduler/pkg/scheduler/api/node_info"
	"github.com/NVIDIA/KAI-scheduler/pkg/scheduler/api/pod_info"
	"github.com/NVIDIA/KAI-scheduler/pkg/scheduler/api/podgroup_info"
	"github.com/NVIDIA/KAI-scheduler/pkg/scheduler/framework"

	"verif/mc/families"
	"verif/mc/schedrun"
	"verif/mc/sessioncheck"
	"verif/mc/world"
)

type obs struct{}

func task(ssn *framework.Session, name string) *pod_info.PodInfo {
	for _, j := range ssn.ClusterInfo.PodGroupInfos {
		for _, t := range j.GetAllPodsMap() {
			if t.Name == name {
				return t
			}
		}
	}
	return nil
}

func job(ssn *framework.Session, name string) *podgroup_info.PodGroupInfo {
	for _, j := range ssn.ClusterInfo.PodGroupInfos {
		if j.Name == name {
			return j
		}
	}
	return nil
}

func (obs) SessionOpened(ssn *framework.Session) {
	fmt.Println("DRA gate:", schedrun.DRAEnabled())
	d0 := sessioncheck.Dump(ssn)
	fmt.Println("---- pristine\n" + d0)
	victim := task(ssn, "w0-0")
	if victim == nil {
		return
	}
	st := ssn.Statement()
	cp := st.Checkpoint()
	if err := st.Evict(victim, "probe", eviction_info.EvictionMetadata{Action: "reclaim", EvictionGangSize: 1}); err != nil {
		fmt.Println("evict error:", err)
	}
	fmt.Println("---- after evict(w0-0)\n" + sessioncheck.Dump(ssn))
	if err := st.Rollback(cp); err != nil {
		fmt.Println("rollback error:", err)
	}
	d1 := sessioncheck.Dump(ssn)
	fmt.Println("---- after rollback: restored =", d1 == d0)
	if d1 != d0 {
		fmt.Println(d1)
	}
	nodes := []*node_info.NodeInfo{}
	for _, n := range ssn.ClusterInfo.Nodes {
		nodes = append(nodes, n)
	}
	sort.Slice(nodes, func(i, j int) bool { return nodes[i].Name < nodes[j].Name })
	if j := job(ssn, "w1"); j != nil {
		ok := common.AllocateJob(ssn, st, nodes, j, false)
		fmt.Println("---- after allocjob(w1) ok =", ok, "\n"+sessioncheck.Dump(ssn))
	}
	st.Discard()
	fmt.Println("---- after discard: restored =", sessioncheck.Dump(ssn) == d0)
}
func (obs) AfterAction(string, *framework.Session, []schedrun.Decision) {}

func main() {
	w := families.C13DRABase()
	if len(os.Args) > 1 {
		b, err := os.ReadFile(os.Args[1])
		if err != nil {
			panic(err)
		}
		if w, err = world.FromJSON(b); err != nil {
			panic(err)
		}
	}
	// JSON round trip + canonical form
	w2, err := world.FromJSON(w.JSON())
	if err != nil {
		panic(err)
	}
	fmt.Println("canon stable over JSON round trip:", world.Canon(w) == world.Canon(w2), " over Clone:", world.Canon(w) == world.Canon(w.Clone()))
	fmt.Println(world.Canon(w))
	res, err := schedrun.RunCycle(w, schedrun.Config{}, obs{})
	if err != nil {
		fmt.Println("ERR", err)
		os.Exit(2)
	}
	fmt.Println("---- full cycle: panic =", res.Panic != "", "openErr =", res.OpenErr, "apiErrors =", res.APIErrors)
	for _, d := range res.Decisions {
		fmt.Println("  ", d)
	}
	fmt.Println("---- successor world\n" + world.Canon(res.After))
	// a world without DRA objects right afterwards in the same process: gate must be off again
	nb := world.NewBuilder()
	nb.Node(world.NodeOpt{Name: "n1", GPUs: 2}).GQueue("dept", "", -1, -1, 1).GQueue("qa", "dept", 1, -1, 1)
	if _, err := schedrun.RunCycle(nb.Done(), schedrun.Config{}, nil); err != nil {
		fmt.Println("ERR", err)
		os.Exit(2)
	}
	fmt.Println("gate after a cycle on a world without DRA objects:", schedrun.DRAEnabled())
}
