package c11

import (
	"encoding/json"
	"fmt"
	"os"
	"runtime"
	"sort"
	"strconv"
	"strings"
	"time"

	v1 "k8s.io/api/core/v1"
	resourceapi "k8s.io/api/resource/v1"

	br "verif/mc/checks/binderrun"
	"verif/mc/engine"
	"verif/mc/registry"
)

func init() { registry.Register("C11", run, replay) }

func claimReservedFor(refs []resourceapi.ResourceClaimConsumerReference, pod *v1.Pod) bool {
	for _, r := range refs {
		if r.Name == pod.Name && r.UID == pod.UID && r.Resource == "pods" {
			return true
		}
	}
	return false
}

// ---------------------------------------------------------------- job model

// A job is a root of the choice tree; every worker derives the identical job list.
type job struct {
	Scenario string
	Mode     string   // "single": execute Prefix as is; "pairs": Prefix + every later deviation; "chain": Prefix as attempt 1, then every <=1-deviation attempt 2
	Prefix   []br.Dev // deviations of attempt 1
}

type tierCfg struct {
	lost        bool
	lostSingles bool // quick tier: "applied but reported failed" as the FIRST deviation only
	pairs       func(sc string) bool
	chain       bool
	chainPairs  bool
	deadline    time.Duration
	scenarios   []br.Scenario
	pairsNote   string
}

func cfgFor(tier string) tierCfg {
	c := tierCfg{scenarios: br.C11Scenarios(tier), chain: true}
	if tier == "thorough" {
		c.lost = true
		c.pairs = func(string) bool { return true }
		c.chainPairs = true
		c.pairsNote = "pairs within one attempt on all pod kinds (kinds err/crash/lost/watch answers); additionally pairs inside the second attempt of every chained start state"
		c.deadline = 21 * time.Minute
	} else {
		c.pairs = func(string) bool { return true }
		c.lostSingles = true
		c.pairsNote = "pairs within one attempt on all pod kinds (first deviation err/crash/lost/watch answers, second err/crash/watch answers); chained second attempts get single deviations"
		c.deadline = 130 * time.Second
	}
	return c
}

// stats a worker streams back.
type result struct {
	Job         int            `json:"job"`
	Execs       int            `json:"execs"`
	Changed     int            `json:"changed"`
	ByBound     map[string]int `json:"by_bound"` // executions per number of deviations
	ByMode      map[string]int `json:"by_mode"`
	Findings    []finding      `json:"findings,omitempty"`
	Samples     []sample       `json:"samples,omitempty"`
	Replays     int            `json:"replays"`
	Diverged    []string       `json:"diverged,omitempty"`
	HarnessErr  string         `json:"harness_err,omitempty"`
	CrashWindow int            `json:"crash_window"` // executions whose crash fell between reservation-pod create and consumer label patch
	Skipped     int            `json:"skipped"`
	// Replaced / ReplaceSkipped: executions in which the scheduler replaced the request after the
	// faulty attempt / could not because the pod was already bound
	Replaced       int `json:"replaced"`
	ReplaceSkipped int `json:"replace_skipped"`
}

type finding struct {
	What   string   `json:"what"`
	Pod    string   `json:"pod"`
	Causes []string `json:"causes"` // deviation classes (kind@verb-ObjectKind) of the violating attempt(s), sorted
	Msg    string   `json:"msg"`
	Spec   Spec     `json:"spec"`
}

func (f *finding) key() string {
	c := "none"
	if len(f.Causes) > 0 {
		c = strings.Join(f.Causes, "+")
	}
	return fmt.Sprintf("C11/%s kind=%s fault=%s", f.What, f.Pod, c)
}

// podClass maps a scenario (pod kind) to the coarse class used in violation keys.
func podClass(scenario string) string {
	switch {
	case scenario == "whole-gpu":
		return "whole-gpu"
	case scenario == "dra-claim":
		return "dra"
	case scenario == "dra-shared-claim":
		return "dra-shared"
	case scenario == "fraction-dra-claim":
		return "single-fraction+dra"
	case strings.HasPrefix(scenario, "multi-fraction"):
		return "multi-fraction"
	}
	return "single-fraction"
}

func specSize(s Spec) int {
	n := 0
	for _, a := range s.Attempts {
		n += 100 + len(a)*10000
		for _, d := range a {
			n += d.At
		}
	}
	return n
}

// subset reports whether multiset a is contained in multiset b (both sorted).
func subset(a, b []string) bool {
	i := 0
	for _, x := range b {
		if i < len(a) && a[i] == x {
			i++
		}
	}
	return i == len(a)
}

// minimise keeps, per (what, pod kind), only the findings whose cause set is minimal (no other
// finding of the group has a cause set strictly contained in it) and, per minimal cause set, the
// smallest choice sequence. The enumeration is exhaustive, so the result is deterministic.
func minimise(all []finding) []finding {
	type gk struct{ what, pod string }
	groups := map[gk][]finding{}
	// every cause set that produces SOME finding on a pod class: a finding whose cause set strictly
	// contains one of them is explained by the smaller fault set and is not reported separately.
	causeSets := map[string]map[string][]string{}
	for _, f := range all {
		k := gk{f.What, f.Pod}
		groups[k] = append(groups[k], f)
		if causeSets[f.Pod] == nil {
			causeSets[f.Pod] = map[string][]string{}
		}
		causeSets[f.Pod][strings.Join(f.Causes, "+")] = f.Causes
	}
	var out []finding
	for _, fs := range groups {
		best := map[string]finding{}
		count := map[string]int{}
		for _, f := range fs {
			ck := strings.Join(f.Causes, "+")
			count[ck]++
			if b, ok := best[ck]; !ok || specSize(f.Spec) < specSize(b.Spec) || (specSize(f.Spec) == specSize(b.Spec) && f.Spec.String() < b.Spec.String()) {
				best[ck] = f
			}
		}
		for ck, f := range best {
			minimal := true
			for _, g := range causeSets[f.Pod] { // any symptom, non-empty smaller fault set
				if len(g) > 0 && len(g) < len(f.Causes) && subset(g, f.Causes) {
					minimal = false
					break
				}
			}
			for ok2, g := range best { // same symptom (also subsumed by a fault-free occurrence)
				if ok2 != ck && len(g.Causes) < len(f.Causes) && subset(g.Causes, f.Causes) {
					minimal = false
					break
				}
			}
			if minimal {
				f.Msg = fmt.Sprintf("%s (seen on %d explored executions with exactly this cause set; %d executions of this pod class show the same symptom in total)", f.Msg, count[ck], len(fs))
				out = append(out, f)
			}
		}
	}
	sort.Slice(out, func(i, j int) bool { return out[i].key() < out[j].key() })
	return out
}

type sample struct {
	Choice  string   `json:"choice_sequence"`
	Outcome []string `json:"outcome"`
	Changed bool     `json:"deviation_changed_outcome"`
}

// phase1 is computed by every process: fault-free trace per scenario, the single-deviation list and
// the representative chained start states.
type scenInfo struct {
	sc        br.Scenario
	calls     []br.Call // fault-free attempt-1 calls
	reached   bool      // fault-free run reached the binding call
	singles   []br.Dev
	chainFrom [][]br.Dev // representative attempt-1 deviation sets (distinct end states)
	chainTag  []string
}

// stateSig identifies a chained start state (the crashed flag matters: a restart follows).
func stateSig(a *AttemptObs) string {
	return fmt.Sprintf("err=%v crashed=%v\n%s", a.Err != "", a.Crashed, a.AfterCanon)
}

// outcomeSig is what "the deviation changed the outcome" compares: the canonical store after the
// attempt and whether the reconcile reported an error (the crashed flag alone does not count).
func outcomeSig(a *AttemptObs) string {
	return fmt.Sprintf("err=%v\n%s", a.Err != "" && !a.Crashed, a.AfterCanon)
}

func phase1(cfg tierCfg) ([]scenInfo, error) {
	var infos []scenInfo
	for _, sc := range cfg.scenarios {
		sc := sc
		o, err := Execute(&sc, Spec{Scenario: sc.Name, Attempts: [][]br.Dev{{}}})
		if err != nil {
			return nil, err
		}
		in := scenInfo{sc: sc, calls: o.Attempts[0].Calls}
		for _, c := range in.calls {
			if c.Verb == "binding-create" && c.Dev == br.OK {
				in.reached = true
			}
		}
		for i := range in.calls {
			for _, k := range br.Deviations(&in.calls[i], cfg.lost || cfg.lostSingles) {
				in.singles = append(in.singles, br.Dev{At: i, Kind: k})
			}
		}
		// chained start states: end states of attempt 1 under {no deviation, every single deviation},
		// one representative per distinct (canonical store, crashed) class, in enumeration order.
		seen := map[string]bool{}
		cands := append([][]br.Dev{{}}, func() [][]br.Dev {
			var l [][]br.Dev
			for _, d := range in.singles {
				l = append(l, []br.Dev{d})
			}
			return l
		}()...)
		for _, pre := range cands {
			oo, err := Execute(&sc, Spec{Scenario: sc.Name, Attempts: [][]br.Dev{pre}})
			if err != nil {
				return nil, err
			}
			sig := stateSig(&oo.Attempts[0])
			if seen[sig] {
				continue
			}
			seen[sig] = true
			in.chainFrom = append(in.chainFrom, pre)
		}
		infos = append(infos, in)
	}
	return infos, nil
}

func buildJobs(cfg tierCfg, infos []scenInfo) []job {
	var jobs []job
	for _, in := range infos {
		jobs = append(jobs, job{Scenario: in.sc.Name, Mode: "single", Prefix: nil})
		for _, d := range in.singles {
			jobs = append(jobs, job{Scenario: in.sc.Name, Mode: "single", Prefix: []br.Dev{d}})
		}
		if cfg.pairs(in.sc.Name) {
			for _, d := range in.singles {
				if d.Kind == br.Crash {
					continue // nothing can follow a crash inside the same attempt
				}
				jobs = append(jobs, job{Scenario: in.sc.Name, Mode: "pairs", Prefix: []br.Dev{d}})
			}
		}
		if cfg.chain {
			for _, pre := range in.chainFrom {
				jobs = append(jobs, job{Scenario: in.sc.Name, Mode: "chain", Prefix: pre})
			}
		}
	}
	return jobs
}

// ---------------------------------------------------------------- worker

type runner struct {
	cfg    tierCfg
	res    *result
	budget *engine.Budget
	nexec  int
}

func (r *runner) exec(sc *br.Scenario, spec Spec, ref *AttemptObs, nDev int) *Outcome {
	o, err := Execute(sc, spec)
	if err != nil {
		r.res.HarnessErr = err.Error()
		return nil
	}
	r.res.Execs++
	r.nexec++
	r.res.ByBound[strconv.Itoa(nDev)]++
	last := &o.Attempts[len(o.Attempts)-1]
	changed := false
	if ref != nil && outcomeSig(last) != outcomeSig(ref) {
		changed = true
		r.res.Changed++
	}
	// crash between reservation-pod creation and consumer labelling?
	if last.Crashed {
		created, labelled := false, false
		for _, c := range last.Calls {
			if c.Dev == br.Crash {
				break
			}
			if c.Verb == "create" && strings.HasPrefix(c.Target, "Pod "+br.ResNS+"/") {
				created = true
			}
			if created && c.Verb == "patch" && c.Target == "Pod "+br.NS+"/"+sc.Target.Name {
				labelled = true
			}
		}
		if created && !labelled {
			r.res.CrashWindow++
		}
	}
	for _, f := range o.Findings {
		r.res.Findings = append(r.res.Findings, finding{What: f.Key, Pod: podClass(sc.Name), Causes: causesOf(o, f), Msg: f.Msg + " | choice sequence: " + spec.String() + " | deviated calls: " + devCalls(o), Spec: spec})
	}
	if len(r.res.Samples) < 2 && (nDev > 0) && (changed || len(o.Attempts) > 1) {
		r.res.Samples = append(r.res.Samples, sample{Choice: spec.String() + " deviated: " + devCalls(o), Outcome: append([]string{fmt.Sprintf("attempt err=%q crashed=%v recovery rounds=%d", last.Err, last.Crashed, o.Recovery.Rounds)}, o.Final...), Changed: changed})
	}
	// determinism: replay every 16th execution and compare everything observed
	if r.nexec%16 == 0 {
		o2, err := Execute(sc, spec)
		r.res.Replays++
		if err != nil || obsSig(o) != obsSig(o2) {
			r.res.Diverged = append(r.res.Diverged, spec.String())
		}
	}
	return o
}

func obsSig(o *Outcome) string {
	var b strings.Builder
	for _, a := range o.Attempts {
		b.WriteString(strings.Join(br.TraceStrings(a.Calls), ";"))
		b.WriteString("|" + a.Err + "|" + a.AfterCanon)
	}
	b.WriteString(strings.Join(o.Final, ";"))
	for _, f := range o.Findings {
		b.WriteString(f.Key)
	}
	return b.String()
}

func devCalls(o *Outcome) string {
	parts := []string{}
	for i, a := range o.Attempts {
		for _, c := range a.Devs {
			parts = append(parts, fmt.Sprintf("attempt%d %s@%d(%s %s)", i+1, c.Dev, c.Idx-a.Calls[0].Idx, c.Verb, c.Target))
		}
	}
	if len(parts) == 0 {
		return "none"
	}
	return strings.Join(parts, ", ")
}

// causesOf names the cause class of a finding: the deviation kinds and the kind of call they hit,
// for the attempt that raised the finding (attempt-level oracle) or for all attempts (recovery
// oracle) – never run-specific data.
func causesOf(o *Outcome, f br.Finding) []string {
	causes := []string{}
	for i, a := range o.Attempts {
		if f.Attempt >= 0 && f.Attempt != i {
			continue
		}
		for _, c := range a.Devs {
			tk := c.Target
			if j := strings.Index(tk, " "); j > 0 {
				tk = tk[:j]
			}
			causes = append(causes, fmt.Sprintf("%s@%s-%s", c.Dev, c.Verb, tk))
		}
	}
	sort.Strings(causes)
	if o.Spec.Replaced && f.Attempt < 0 {
		causes = append(causes, "then-request-replaced")
	}
	return causes
}

func (r *runner) runJob(in *scenInfo, j job) {
	sc := &in.sc
	switch j.Mode {
	case "single":
		var ref *AttemptObs
		if len(j.Prefix) > 0 {
			o0, err := Execute(sc, Spec{Scenario: sc.Name, Attempts: [][]br.Dev{{}}})
			if err != nil {
				r.res.HarnessErr = err.Error()
				return
			}
			ref = &o0.Attempts[0]
		}
		o := r.exec(sc, Spec{Scenario: sc.Name, Attempts: [][]br.Dev{j.Prefix}}, ref, len(j.Prefix))
		// the same faulty attempt, after which the scheduler replaces the request by one selecting other GPU groups
		if o != nil && sc.Target.Fraction && len(j.Prefix) > 0 {
			if o2 := r.exec(sc, Spec{Scenario: sc.Name, Attempts: [][]br.Dev{j.Prefix}, Replaced: true}, ref, len(j.Prefix)); o2 != nil {
				if o2.ReplaceSkipped {
					r.res.ReplaceSkipped++
				} else {
					r.res.Replaced++
				}
			}
		}
	case "pairs":
		// the first deviation's execution defines which later calls exist (Rollback path etc.)
		o1, err := Execute(sc, Spec{Scenario: sc.Name, Attempts: [][]br.Dev{j.Prefix}})
		if err != nil {
			r.res.HarnessErr = err.Error()
			return
		}
		ref := &o1.Attempts[0]
		calls := ref.Calls
		for k := j.Prefix[0].At + 1; k < len(calls); k++ {
			for _, kind := range br.Deviations(&calls[k], r.cfg.lost) {
				if r.budget.Exceeded() {
					r.res.Skipped++
					continue
				}
				r.exec(sc, Spec{Scenario: sc.Name, Attempts: [][]br.Dev{{j.Prefix[0], {At: k, Kind: kind}}}}, ref, 2)
			}
		}
	case "chain":
		// attempt 1 = Prefix (its end state is the start state), attempt 2 = fault-free, then every single deviation
		o0 := r.exec(sc, Spec{Scenario: sc.Name, Attempts: [][]br.Dev{j.Prefix, {}}}, nil, len(j.Prefix))
		if o0 == nil {
			return
		}
		ref := &o0.Attempts[1]
		calls := ref.Calls
		for k := 0; k < len(calls); k++ {
			for _, kind := range br.Deviations(&calls[k], r.cfg.lost) {
				if r.budget.Exceeded() {
					r.res.Skipped++
					continue
				}
				o1 := r.exec(sc, Spec{Scenario: sc.Name, Attempts: [][]br.Dev{j.Prefix, {{At: k, Kind: kind}}}}, ref, len(j.Prefix)+1)
				if !r.cfg.chainPairs || o1 == nil || kind == br.Crash {
					continue
				}
				ref2 := &o1.Attempts[1]
				for k2 := k + 1; k2 < len(ref2.Calls); k2++ {
					for _, kind2 := range br.Deviations(&ref2.Calls[k2], r.cfg.lost) {
						if r.budget.Exceeded() {
							r.res.Skipped++
							continue
						}
						r.exec(sc, Spec{Scenario: sc.Name, Attempts: [][]br.Dev{j.Prefix, {{At: k, Kind: kind}, {At: k2, Kind: kind2}}}}, ref2, len(j.Prefix)+2)
					}
				}
			}
		}
	}
}

// ---------------------------------------------------------------- entry points

func envInt(name string, def int) int {
	if s := os.Getenv(name); s != "" {
		if v, err := strconv.Atoi(s); err == nil {
			return v
		}
	}
	return def
}

func run(tier string) int {
	cfg := cfgFor(tier)
	idx, n, isWorker := engine.WorkerShard()
	if isWorker {
		infos, err := phase1(cfg)
		if err != nil {
			engine.Emit(result{Job: -1, HarnessErr: err.Error()})
			engine.FlushEmit()
			return 0
		}
		jobs := buildJobs(cfg, infos)
		byName := map[string]*scenInfo{}
		for i := range infos {
			byName[infos[i].sc.Name] = &infos[i]
		}
		budget := engine.NewBudget(cfg.deadline)
		rn := &runner{cfg: cfg, budget: budget}
		for ji, j := range jobs {
			if ji%n != idx {
				continue
			}
			rn.res = &result{Job: ji, ByBound: map[string]int{}, ByMode: map[string]int{}}
			if budget.Exceeded() {
				rn.res.Skipped = 1
			} else {
				rn.runJob(byName[j.Scenario], j)
				rn.res.ByMode[j.Mode+":"+j.Scenario] += rn.res.Execs
			}
			engine.Emit(rn.res)
		}
		engine.FlushEmit()
		return 0
	}

	start := time.Now()
	infos, err := phase1(cfg)
	if err != nil {
		fmt.Fprintf(os.Stderr, "harness error: %v\n", err)
		return 2
	}
	if os.Getenv("VERIF_C11_TRACE") != "" {
		for _, in := range infos {
			fmt.Printf("== %s: %d calls, %d single deviations, %d chained start states (phase1 %.1fs)\n%s\n", in.sc.Name, len(in.calls), len(in.singles), len(in.chainFrom), time.Since(start).Seconds(), strings.Join(br.TraceStrings(in.calls), "\n"))
		}
		return 0
	}
	jobs := buildJobs(cfg, infos)
	workers := envInt("VERIF_WORKERS", min(runtime.NumCPU()-2, 14))
	if workers < 1 {
		workers = 1
	}
	rep := engine.NewReporter("C11")
	agg := result{ByBound: map[string]int{}, ByMode: map[string]int{}}
	var samples []sample
	jobsDone := 0
	var allFindings []finding
	herr := ""
	err = engine.RunWorkers(workers, nil, 8*1024*1024, func(_ int, line []byte) {
		var r result
		if json.Unmarshal(line, &r) != nil {
			return
		}
		if r.HarnessErr != "" && herr == "" {
			herr = r.HarnessErr
		}
		jobsDone++
		agg.Execs += r.Execs
		agg.Changed += r.Changed
		agg.Replays += r.Replays
		agg.CrashWindow += r.CrashWindow
		agg.Replaced += r.Replaced
		agg.ReplaceSkipped += r.ReplaceSkipped
		agg.Skipped += r.Skipped
		agg.Diverged = append(agg.Diverged, r.Diverged...)
		for k, v := range r.ByBound {
			agg.ByBound[k] += v
		}
		for k, v := range r.ByMode {
			agg.ByMode[k] += v
		}
		allFindings = append(allFindings, r.Findings...)
		samples = append(samples, r.Samples...)
	})
	if err != nil {
		fmt.Fprintf(os.Stderr, "harness error: %v\n", err)
		return 2
	}
	if herr != "" {
		fmt.Fprintf(os.Stderr, "harness error: %s\n", herr)
		return 2
	}
	if len(agg.Diverged) > 0 {
		fmt.Fprintf(os.Stderr, "harness error: %d replayed executions diverged, e.g. %s\n", len(agg.Diverged), agg.Diverged[0])
		return 2
	}
	minimal := minimise(allFindings)
	for _, f := range minimal {
		// a candidate violation is re-executed from its choice sequence before it is reported
		for i := 0; i < 3; i++ {
			sc := scenarioByName(tier, f.Spec.Scenario)
			o, err := Execute(sc, f.Spec)
			again := false
			if err == nil {
				for _, g := range o.Findings {
					gg := finding{What: g.Key, Pod: podClass(sc.Name), Causes: causesOf(o, g)}
					if gg.key() == f.key() {
						again = true
					}
				}
			}
			if !again {
				fmt.Fprintf(os.Stderr, "harness error: violation %s did not reproduce on re-execution of %s\n", f.key(), f.Spec.String())
				return 2
			}
		}
		if os.Getenv("VERIF_KEYS") != "" {
			fmt.Printf("KEY %s\n        %s\n", f.key(), f.Msg)
		}
		rep.Add(engine.Violation{Property: "C11", Key: f.key(), Message: f.key() + ": " + f.Msg, Replay: f.Spec})
	}
	// vacuity guards
	callsPerKind := map[string]int{}
	for _, in := range infos {
		callsPerKind[in.sc.Name] = len(in.calls)
		if !in.reached {
			fmt.Fprintf(os.Stderr, "harness error: vacuous – pod kind %s never reaches the binding call in the fault-free run:\n%s\n", in.sc.Name, strings.Join(br.TraceStrings(in.calls), "\n"))
			return 2
		}
	}
	if agg.CrashWindow == 0 {
		fmt.Fprintln(os.Stderr, "harness error: vacuous – no crash point between reservation-pod creation and consumer labelling was exercised")
		return 2
	}
	if agg.Changed < 2 {
		fmt.Fprintln(os.Stderr, "harness error: vacuous – deviations never changed an outcome")
		return 2
	}
	sort.Slice(samples, func(i, j int) bool { return samples[i].Choice < samples[j].Choice })
	if len(samples) > 8 {
		samples = samples[:8]
	}
	ffSample := map[string]any{"choice_sequence": infos[1].sc.Name + " [] (fault-free)", "calls": br.TraceStrings(infos[1].calls)}
	exhaustive := agg.Skipped == 0
	bound := 1
	if agg.ByBound["2"] > 0 {
		bound = 2 // pairs inside one attempt (plus chained attempts); executions with 3 deviations are chained 1+2
	}
	chainStates := map[string]int{}
	for _, in := range infos {
		chainStates[in.sc.Name] = len(in.chainFrom)
	}
	cov := map[string]any{
		"evaluations":               agg.Execs,
		"distinct_nontrivial":       agg.Changed,
		"rule":                      "number of distinct (pod kind, start state [fresh | end state of a previous faulted attempt], deviation point, deviation kind) cases whose post-attempt outcome (canonical store, error returned, crashed) differs from the fault-free attempt from the same start state; each case is enumerated exactly once",
		"samples":                   append([]any{ffSample}, toAny(samples)...),
		"executions_by_deviations":  agg.ByBound,
		"executions_by_mode_and_pod_kind": agg.ByMode,
		"deviation_bound_completed": bound,
		"pairs_scope":               cfg.pairsNote,
		"deviation_kinds":           kindsOf(cfg),
		"pod_kinds":                 len(infos),
		"calls_per_kind_fault_free": callsPerKind,
		"chained_start_states":      chainStates,
		"jobs":                      len(jobs),
		"crash_points_between_reservation_create_and_label": agg.CrashWindow,
		"executions_with_request_replaced_by_scheduler":     agg.Replaced,
		"request_replacement_not_applicable_pod_bound":      agg.ReplaceSkipped,
		"determinism_replays":       agg.Replays,
		"executions_skipped_by_deadline": agg.Skipped,
		"exhaustive":                exhaustive,
		"dra_covered":               true,
	}
	if len(rep.KnownHits()) > 0 {
		cov["known_finding_hits"] = rep.KnownHits()
	}
	code := rep.Finish()
	ev := &engine.Evidence{PropertyID: "C11", Tier: tier, Seed: engine.SeedFromEnv(), Level: "fault_enumeration", Coverage: cov,
		Assumptions: []string{
			"API store = controller-runtime fake client (pods, nodes, config maps, BindRequests) + client-go fake clientset (ResourceClaims); reads are live (no informer-cache staleness)",
			"pods/binding sub-resource emulated with API-server semantics (assign once, second bind = Conflict)",
			"the reservation pod's GPU index is supplied by the environment at Watch time (lowest free index on the node); alternatives: watch channel closed, watch error event",
			"crash = store frozen from the chosen call on; recovery runs in a NEW process image: startup Sync, then fault-free reconciles of every BindRequest until the canonical store is stable",
			"BindRequests carry BackoffLimit nil as the scheduler writes them (one kind uses 2); a retry of the same request is the 'later fault-free attempt'",
			"pods are built by the real admission mutation (gpusharing.Mutate); map iteration order pinned by O-maporder seed 0",
		},
		WallS: time.Since(start).Seconds(), Violations: rep.NewCount()}
	if err := engine.WriteEvidence(ev); err != nil {
		fmt.Fprintf(os.Stderr, "harness error: %v\n", err)
		return 2
	}
	fmt.Printf("C11 %s: pod kinds=%d jobs=%d executions=%d (by #deviations %v) outcome-changing cases=%d crash-window cases=%d replays=%d exhaustive=%v wall=%.1fs\n",
		tier, len(infos), len(jobs), agg.Execs, agg.ByBound, agg.Changed, agg.CrashWindow, agg.Replays, exhaustive, time.Since(start).Seconds())
	return code
}

func kindsOf(cfg tierCfg) []string {
	k := []string{"err", "crash", "watch-closed", "watch-errevent"}
	if cfg.lost {
		k = append(k, "lost")
	}
	return k
}

func toAny(s []sample) []any {
	out := []any{}
	for _, x := range s {
		out = append(out, x)
	}
	return out
}

// replay re-executes the choice sequence of a violation file and prints what happens.
func replay(path string) int {
	b, err := os.ReadFile(path)
	if err != nil {
		fmt.Fprintln(os.Stderr, err)
		return 2
	}
	var v struct {
		Key    string `json:"key"`
		Replay Spec   `json:"replay"`
	}
	if err := json.Unmarshal(b, &v); err != nil {
		fmt.Fprintln(os.Stderr, err)
		return 2
	}
	sc := scenarioByName("thorough", v.Replay.Scenario)
	if sc == nil {
		fmt.Fprintln(os.Stderr, "unknown scenario", v.Replay.Scenario)
		return 2
	}
	o, err := Execute(sc, v.Replay)
	if err != nil {
		fmt.Fprintln(os.Stderr, "replay error:", err)
		return 2
	}
	for i, a := range o.Attempts {
		fmt.Printf("attempt %d: err=%q crashed=%v rollback@%d\n", i+1, a.Err, a.Crashed, a.RollbackRel)
		for _, c := range a.Calls {
			fmt.Println("   ", c.String())
		}
		fmt.Println("  store after the attempt:")
		for _, l := range strings.Split(strings.TrimSpace(a.AfterCanon), "\n") {
			fmt.Println("     ", l)
		}
	}
	fmt.Printf("recovery: rounds=%d converged=%v syncErr=%q errs=%v\nfinal store:\n", o.Recovery.Rounds, o.Recovery.Converged, o.Recovery.SyncErr, o.Recovery.ReconErrs)
	for _, l := range o.Final {
		fmt.Println("   ", l)
	}
	found := false
	for _, f := range o.Findings {
		ff := finding{What: f.Key, Pod: podClass(sc.Name), Causes: causesOf(o, f)}
		fmt.Printf("  oracle: %s: %s\n", ff.key(), f.Msg)
		if ff.key() == v.Key {
			found = true
		}
	}
	if found {
		fmt.Printf("VIOLATION property=C11 replay=%s\n", path)
		return 1
	}
	fmt.Println("replay: violation not reproduced")
	return 0
}
