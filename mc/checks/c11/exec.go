// Package c11 checks property C11 "Binding is all-or-nothing under any API failure or crash point"
// by fault enumeration: a stateless DFS over choice sequences (deviation-bounded) on the REAL
// BindRequest reconciler / binder / reservation service / binder plugins (see checks/binderrun).
package c11

import (
	"fmt"
	"sort"
	"strings"

	v1 "k8s.io/api/core/v1"

	br "verif/mc/checks/binderrun"
)

// Spec is one complete choice sequence: the scenario (pod kind) and, per reconcile attempt, the
// deviations applied to its numbered calls. After the last attempt the fault-free recovery runs.
type Spec struct {
	Scenario string     `json:"scenario"`
	Tier     string     `json:"tier,omitempty"`
	Attempts [][]br.Dev `json:"attempts"`
	// Replaced: after the attempts the SCHEDULER replaces the (still unbound) pod's BindRequest by a
	// new one that selects other GPU groups - what it does with a failed or stale request - and the
	// fault-free recovery then works on the new request. If the last attempt crashed the swap happens
	// while the binder is down (no delete event), otherwise the real BindRequest delete handler runs.
	Replaced bool `json:"replaced,omitempty"`
}

func (s Spec) String() string {
	parts := []string{}
	for _, a := range s.Attempts {
		ds := []string{}
		for _, d := range a {
			ds = append(ds, fmt.Sprintf("%s@%d", d.Kind, d.At))
		}
		parts = append(parts, "["+strings.Join(ds, ",")+"]")
	}
	r := ""
	if s.Replaced {
		r = " ->request-replaced"
	}
	return s.Scenario + " " + strings.Join(parts, "->") + r
}

// AttemptObs is what was observed around one attempt.
type AttemptObs struct {
	Calls       []br.Call
	Err         string
	Crashed     bool
	RollbackRel int // index (relative to the attempt) of the first rollback call, -1 if no rollback
	BindRel     int // index of the first call inside Binder.Bind, -1 if Bind was not reached
	StartBound  bool
	StartPhase  string
	AfterCanon  string
	Devs        []br.Call // calls that received an explicit (non-OK) deviation
}

// Outcome of one execution.
type Outcome struct {
	Spec      Spec
	Attempts  []AttemptObs
	Findings  []br.Finding
	Final     []string
	Recovery  br.Recovery
	TotalCall int
	// ReplaceSkipped: Spec.Replaced was asked for but the pod was already bound.
	ReplaceSkipped bool
}

func scenarioByName(tier, name string) *br.Scenario {
	for _, s := range br.C11Scenarios("thorough") {
		if s.Name == name {
			sc := s
			return &sc
		}
	}
	return nil
}

// Execute runs one choice sequence on a fresh world.
func Execute(sc *br.Scenario, spec Spec) (*Outcome, error) {
	w, p, err := sc.Build(0, true)
	if err != nil {
		return nil, err
	}
	out := &Outcome{Spec: spec}
	target := sc.Target.Name
	crashedBefore := false
	for i, devs := range spec.Attempts {
		if crashedBefore {
			// chained start state after a crash: the binder process comes back (startup Sync)
			np, serr := w.Restart()
			p = np
			if serr != nil {
				out.Findings = append(out.Findings, br.Finding{Key: "startup-sync-failed", Msg: serr.Error(), Attempt: -1})
			}
		}
		before := w.Snap()
		base := len(w.Trace)
		mbase := len(w.Marks)
		res := p.RunAttempt(target, devs)
		after := w.Snap()
		ao := AttemptObs{Calls: res.Calls, Err: res.Err, Crashed: res.Crashed, RollbackRel: -1, BindRel: -1, AfterCanon: after.Canon()}
		for _, m := range w.Marks[mbase:] {
			if m.What == "rollback-begin" && ao.RollbackRel < 0 {
				ao.RollbackRel = m.At - base
			}
			if m.What == "bind-begin" && ao.BindRel < 0 {
				ao.BindRel = m.At - base
			}
		}
		if bp := before.Pod(target); bp != nil {
			ao.StartBound = bp.Spec.NodeName != ""
		}
		if bb := before.BR(target); bb != nil {
			ao.StartPhase = bb.Status.Phase
		}
		frozenSeen := false
		for _, c := range res.Calls {
			if c.Dev != br.OK && c.Dev != "" && !frozenSeen {
				ao.Devs = append(ao.Devs, c)
			}
			if c.Dev == br.Crash {
				frozenSeen = true
			}
		}
		out.Attempts = append(out.Attempts, ao)
		for _, fd := range oracleAfterAttempt(sc, w, before, after, &ao, i) {
			fd.Attempt = i
			out.Findings = append(out.Findings, fd)
		}
		crashedBefore = res.Crashed
	}
	if spec.Replaced {
		pod := w.GetPod(target)
		if pod == nil || pod.Spec.NodeName != "" || w.GetBR(target) == nil {
			out.ReplaceSkipped = true // bound already (or request gone): the scheduler has nothing to replace
		} else {
			nsc := *sc
			nsc.Target.Groups = nil
			for _, g := range sc.Target.Groups {
				nsc.Target.Groups = append(nsc.Target.Groups, g+"r")
			}
			old := w.EnvDeleteBR(target)
			if !crashedBefore {
				p.BRDeleted(old)
			}
			w.EnvCreate(nsc.NewBR(&nsc.Target))
			sc = &nsc
		}
	}
	out.Recovery = br.Recover(w, p, crashedBefore)
	final := w.Snap()
	out.Final = final.Lines()
	out.TotalCall = len(w.Trace)
	for _, fd := range oracleAfterRecovery(sc, w, final, &out.Recovery) {
		fd.Attempt = -1
		out.Findings = append(out.Findings, fd)
	}
	return out, nil
}

func hasGroupLabels(p *v1.Pod) bool { return len(br.PodGroups(p)) > 0 }

func devTouches(devs []br.Call, pred func(c br.Call) bool) bool {
	for _, c := range devs {
		if pred(c) {
			return true
		}
	}
	return false
}

// oracleAfterAttempt: what must hold right after one (possibly faulty) reconcile returned.
func oracleAfterAttempt(sc *br.Scenario, w *br.World, before, after *br.Snapshot, ao *AttemptObs, attempt int) []br.Finding {
	var f []br.Finding
	t := sc.Target.Name
	pod := after.Pod(t)
	if pod == nil {
		return []br.Finding{{Key: "pod-vanished", Msg: "target pod no longer in the store"}}
	}
	key := br.NS + "/" + t
	// a shared claim stays reserved for its other consumer whatever happens to the target
	if sc.Target.Opts.ClaimShared && !ao.Crashed {
		if c := after.Claim(sc.Target.Opts.Claim); c != nil {
			other := false
			for _, r := range c.Status.ReservedFor {
				if r.Name == br.OtherClaimConsumer {
					other = true
				}
			}
			if !other || c.Status.Allocation == nil {
				f = append(f, br.Finding{Key: "shared-claim-taken-from-other-consumer", Msg: fmt.Sprintf("claim %s: reservedFor=%v allocation-set=%v after the attempt on the target", c.Name, c.Status.ReservedFor, c.Status.Allocation != nil)})
			}
		}
	}
	// never bound to another node, never bound twice
	if pod.Spec.NodeName != "" && pod.Spec.NodeName != sc.Node {
		f = append(f, br.Finding{Key: "bound-to-other-node", Msg: fmt.Sprintf("pod on %q, request names %q", pod.Spec.NodeName, sc.Node)})
	}
	if w.BindOK[key] > 1 {
		f = append(f, br.Finding{Key: "bound-twice", Msg: fmt.Sprintf("%d successful binding calls: %v", w.BindOK[key], w.BindTarget[key])})
	}
	if w.BindRejected[key] > 0 {
		f = append(f, br.Finding{Key: "binding-call-on-assigned-pod", Msg: fmt.Sprintf("the binder issued %d binding call(s) for a pod that was already assigned (refused by the API server)", w.BindRejected[key])})
	}
	// Succeeded / already-bound start => no-op
	muts := br.MutatingCalls(ao.Calls, 0)
	if ao.StartPhase == "Succeeded" && len(muts) > 0 {
		f = append(f, br.Finding{Key: "succeeded-request-not-noop", Msg: fmt.Sprintf("BindRequest already Succeeded but the reconcile made mutating calls: %v", br.TraceStrings(muts))})
	}
	if ao.StartBound && ao.StartPhase != "Succeeded" {
		var bad []br.Call
		for _, c := range muts {
			if c.Verb == "status-patch" { // BindRequest phase / PodBound condition bookkeeping
				continue
			}
			bad = append(bad, c)
		}
		if len(bad) > 0 {
			f = append(f, br.Finding{Key: "already-bound-pod-not-noop", Msg: fmt.Sprintf("pod already bound to %q but the reconcile made mutating calls: %v", pod.Spec.NodeName, br.TraceStrings(bad))})
		}
	}
	if ao.Crashed || ao.StartBound || ao.StartPhase == "Succeeded" {
		return f
	}
	unbound := pod.Spec.NodeName == ""
	if unbound {
		// reported Failed (unless reading the request or writing its status was itself the failed call)
		exempt := devTouches(ao.Devs, func(c br.Call) bool {
			return (c.Idx == ao.Calls[0].Idx && c.Verb == "get") || (c.Verb == "status-patch" && strings.HasPrefix(c.Target, "BindRequest "))
		})
		b := after.BR(t)
		if !exempt && b != nil && b.Status.Phase != "Failed" {
			f = append(f, br.Finding{Key: "unbound-but-not-failed", Msg: fmt.Sprintf("pod unbound, reconcile err=%q, BindRequest phase %q", ao.Err, b.Status.Phase)})
		}
		// side effects removed once the attempt incl. its Rollback has finished undisturbed
		rollbackDisturbed := ao.RollbackRel >= 0 && devTouches(ao.Devs, func(c br.Call) bool { return c.Idx-ao.Calls[0].Idx >= ao.RollbackRel })
		if ao.RollbackRel >= 0 && !rollbackDisturbed {
			if hasGroupLabels(pod) {
				f = append(f, br.Finding{Key: "gpu-group-label-left-on-unbound-pod", Msg: fmt.Sprintf("after bind failure + undisturbed Rollback the unbound pod still carries %v", br.PodGroups(pod))})
			}
			for _, v := range br.CheckReservationInvariant(after) {
				f = append(f, br.Finding{Key: "after-rollback/" + v.Key, Msg: v.Msg})
			}
			if dev, _, found := after.VisibleDevices(pod); found {
				f = append(f, br.Finding{Key: "configmap-left-after-rollback", Msg: fmt.Sprintf("GPU sharing config map of the unbound pod still exists (NVIDIA_VISIBLE_DEVICES=%q)", dev)})
			}
			if sc.Target.Opts.Claim != "" {
				if c := after.Claim(sc.Target.Opts.Claim); c != nil && claimReservedFor(c.Status.ReservedFor, pod) {
					bc := before.Claim(sc.Target.Opts.Claim)
					if bc == nil || !claimReservedFor(bc.Status.ReservedFor, pod) {
						f = append(f, br.Finding{Key: "claim-reservation-not-rolled-back", Msg: fmt.Sprintf("ResourceClaim %s stays reservedFor the unbound pod (allocation set: %v) after the failed attempt's Rollback; no sync removes it", c.Name, c.Status.Allocation != nil)})
					}
				}
			}
		}
		// a Rollback that was itself disturbed: what the disturbed calls were about may stay behind, but a
		// failure while removing one kind of side effect must not leave ANOTHER kind behind. Judged here: the
		// claim reservation (no sync ever removes it) when every disturbed call of the Rollback concerns
		// something other than a ResourceClaim and the Rollback did not crash.
		if ao.RollbackRel >= 0 && rollbackDisturbed && sc.Target.Opts.Claim != "" {
			claimCallDisturbed := devTouches(ao.Devs, func(c br.Call) bool {
				return c.Idx-ao.Calls[0].Idx >= ao.RollbackRel && strings.HasPrefix(c.Target, "ResourceClaim")
			})
			crashed := false
			for _, d := range ao.Devs {
				if d.Dev == br.Crash {
					crashed = true
				}
			}
			if !claimCallDisturbed && !crashed {
				if c := after.Claim(sc.Target.Opts.Claim); c != nil && claimReservedFor(c.Status.ReservedFor, pod) {
					bc := before.Claim(sc.Target.Opts.Claim)
					if bc == nil || !claimReservedFor(bc.Status.ReservedFor, pod) {
						f = append(f, br.Finding{Key: "claim-reservation-not-rolled-back-after-unrelated-rollback-failure", Msg: fmt.Sprintf("ResourceClaim %s stays reservedFor the unbound pod although no call on a ResourceClaim failed: the Rollback stopped at the failure of another side effect's removal", c.Name)})
					}
				}
			}
		}
	}
	return f
}

// oracleAfterRecovery: a later fault-free attempt from any intermediate state succeeds, completely.
func oracleAfterRecovery(sc *br.Scenario, w *br.World, s *br.Snapshot, r *br.Recovery) []br.Finding {
	var f []br.Finding
	t := sc.Target.Name
	wl := &sc.Target
	if r.SyncErr != "" {
		f = append(f, br.Finding{Key: "startup-sync-failed", Msg: r.SyncErr})
	}
	if !r.Converged {
		f = append(f, br.Finding{Key: "recovery-does-not-converge", Msg: fmt.Sprintf("store still changing after %d fault-free reconcile rounds", r.Rounds)})
	}
	pod := s.Pod(t)
	b := s.BR(t)
	if pod == nil || b == nil {
		return append(f, br.Finding{Key: "object-vanished", Msg: "pod or BindRequest missing after recovery"})
	}
	key := br.NS + "/" + t
	if pod.Spec.NodeName != sc.Node {
		f = append(f, br.Finding{Key: "recovery-not-bound", Msg: fmt.Sprintf("after fault-free recovery pod.spec.nodeName=%q (want %q); BR phase %q; reconcile errors %v", pod.Spec.NodeName, sc.Node, b.Status.Phase, r.ReconErrs)})
		return f
	}
	if w.BindOK[key] != 1 {
		f = append(f, br.Finding{Key: "bound-twice", Msg: fmt.Sprintf("%d successful binding calls", w.BindOK[key])})
	}
	if w.BindRejected[key] > 0 {
		f = append(f, br.Finding{Key: "binding-call-on-assigned-pod", Msg: fmt.Sprintf("%d refused binding calls", w.BindRejected[key])})
	}
	if b.Status.Phase != "Succeeded" {
		f = append(f, br.Finding{Key: "bound-but-request-not-succeeded", Msg: fmt.Sprintf("pod bound, BindRequest phase %q", b.Status.Phase)})
	}
	// GPU-group labels == SelectedGPUGroups
	want := []string{}
	if wl.Fraction {
		if len(wl.Groups) == 1 && wl.Opts.NumDevices == "" {
			want = append(want, "runai-gpu-group="+wl.Groups[0])
		} else {
			for _, g := range wl.Groups {
				want = append(want, "runai-gpu-group/"+g+"="+g)
			}
		}
	}
	sort.Strings(want)
	got := []string{}
	for k, v := range pod.Labels {
		if k == "runai-gpu-group" || strings.HasPrefix(k, "runai-gpu-group/") {
			got = append(got, k+"="+v)
		}
	}
	sort.Strings(got)
	if strings.Join(got, " ") != strings.Join(want, " ") {
		f = append(f, br.Finding{Key: "bound-without-gpu-group-labels", Msg: fmt.Sprintf("bound pod carries GPU-group labels %v, request selected %v", got, want)})
	}
	if pod.Annotations["received-resource-type"] != b.Spec.ReceivedResourceType {
		f = append(f, br.Finding{Key: "bound-without-received-type-annotation", Msg: fmt.Sprintf("annotation %q, request %q", pod.Annotations["received-resource-type"], b.Spec.ReceivedResourceType)})
	}
	if wl.Fraction {
		idx := []string{}
		ok := true
		for _, g := range wl.Groups {
			rs := s.ReservationsOf(g)
			if len(rs) != 1 {
				ok = false
				f = append(f, br.Finding{Key: "bound-without-reservation-pod", Msg: fmt.Sprintf("group %s has %d reservation pods", g, len(rs))})
				continue
			}
			idx = append(idx, rs[0].Annotations[br.IndexAnn])
		}
		dev, portion, found := s.VisibleDevices(pod)
		if ok && (!found || dev != strings.Join(idx, ",")) {
			f = append(f, br.Finding{Key: "bound-with-wrong-visible-devices", Msg: fmt.Sprintf("NVIDIA_VISIBLE_DEVICES=%q (found=%v), reservation pods report %v", dev, found, idx)})
		}
		if portion != wl.Portion {
			f = append(f, br.Finding{Key: "bound-with-wrong-gpu-portion", Msg: fmt.Sprintf("GPU_PORTION=%q, request %q", portion, wl.Portion)})
		}
	}
	if wl.Opts.Claim != "" {
		c := s.Claim(wl.Opts.Claim)
		if c == nil || !claimReservedFor(c.Status.ReservedFor, pod) || c.Status.Allocation == nil {
			f = append(f, br.Finding{Key: "bound-without-claim-reservation", Msg: fmt.Sprintf("claim %s not reserved/allocated for the bound pod", wl.Opts.Claim)})
		}
	}
	for _, v := range br.CheckReservationInvariant(s) {
		f = append(f, br.Finding{Key: "after-recovery/" + v.Key, Msg: v.Msg})
	}
	return f
}
