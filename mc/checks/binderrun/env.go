package binderrun

import (
	"context"
	"fmt"
	"sort"
	"strconv"
	"time"

	v1 "k8s.io/api/core/v1"
	resourceapi "k8s.io/api/resource/v1"
	"k8s.io/apimachinery/pkg/api/resource"
	metav1 "k8s.io/apimachinery/pkg/apis/meta/v1"
	"k8s.io/apimachinery/pkg/types"
	"k8s.io/utils/ptr"
	"sigs.k8s.io/controller-runtime/pkg/client"
	"sigs.k8s.io/controller-runtime/pkg/event"
	"sigs.k8s.io/controller-runtime/pkg/reconcile"

	schedulingv1alpha2 "github.com/NVIDIA/KAI-scheduler/pkg/apis/scheduling/v1alpha2"
	admissiongpusharing "github.com/NVIDIA/KAI-scheduler/pkg/admission/webhook/v1alpha2/gpusharing"
	"github.com/NVIDIA/KAI-scheduler/pkg/common/constants"
)

// ------------------------------------------------------------------ world builders

func Node(name string) *v1.Node {
	q := resource.MustParse("4")
	return &v1.Node{ObjectMeta: metav1.ObjectMeta{Name: name},
		Status: v1.NodeStatus{Capacity: v1.ResourceList{constants.NvidiaGpuResource: q, v1.ResourcePods: resource.MustParse("110")},
			Allocatable: v1.ResourceList{constants.NvidiaGpuResource: q, v1.ResourcePods: resource.MustParse("110")}}}
}

// PodOpts selects the shape of a workload pod.
type PodOpts struct {
	WholeGPUs     int    // nvidia.com/gpu request
	Fraction      string // gpu-fraction annotation
	GPUMemory     string // gpu-memory annotation
	NumDevices    string // gpu-fraction-num-devices annotation
	InitContainer string // named init container that receives the fraction
	Claim         string // ResourceClaim name (DRA)
	// ClaimShared: the claim is already allocated and reserved for ANOTHER (running) pod when the target
	// arrives - a shared claim; the target's reservation is added to / removed from a non-empty list
	ClaimShared bool
}

// Pod builds a pending, unscheduled pod the way it leaves the REAL admission webhook mutation
// (pkg/admission/webhook/v1alpha2/gpusharing.Mutate: config-map annotation, env vars, volume).
func Pod(name string, o PodOpts) *v1.Pod {
	p := &v1.Pod{
		ObjectMeta: metav1.ObjectMeta{Name: name, Namespace: NS, UID: types.UID("uid-" + name),
			Annotations: map[string]string{}, Labels: map[string]string{"app": name}},
		Spec: v1.PodSpec{SchedulerName: SchedulerName,
			Containers: []v1.Container{{Name: "main", Image: "img"}}},
		Status: v1.PodStatus{Phase: v1.PodPending},
	}
	if o.WholeGPUs > 0 {
		q := *resource.NewQuantity(int64(o.WholeGPUs), resource.DecimalSI)
		p.Spec.Containers[0].Resources = v1.ResourceRequirements{Limits: v1.ResourceList{constants.NvidiaGpuResource: q}, Requests: v1.ResourceList{constants.NvidiaGpuResource: q}}
	}
	if o.Fraction != "" {
		p.Annotations[constants.GpuFraction] = o.Fraction
	}
	if o.GPUMemory != "" {
		p.Annotations[constants.GpuMemory] = o.GPUMemory
	}
	if o.NumDevices != "" {
		p.Annotations[constants.GpuFractionsNumDevices] = o.NumDevices
	}
	if o.InitContainer != "" {
		p.Spec.InitContainers = []v1.Container{{Name: "setup", Image: "img"}, {Name: o.InitContainer, Image: "img"}}
		p.Annotations[constants.GpuFractionContainerName] = o.InitContainer
	}
	if o.Claim != "" {
		p.Spec.ResourceClaims = []v1.PodResourceClaim{{Name: "gpu", ResourceClaimName: ptr.To(o.Claim)}}
		p.Spec.Containers[0].Resources.Claims = []v1.ResourceClaim{{Name: "gpu"}}
	}
	if o.Fraction != "" || o.GPUMemory != "" {
		// deterministic config-map prefix (the webhook would add 7 random characters)
		p.Annotations["runai/shared-gpu-configmap"] = name + "-shared-gpu"
		if err := admissiongpusharing.New(nil, true).Mutate(p); err != nil {
			panic(fmt.Errorf("admission mutate: %w", err))
		}
	}
	return p
}

// Claim builds an unallocated ResourceClaim.
func Claim(name string) *resourceapi.ResourceClaim {
	return &resourceapi.ResourceClaim{ObjectMeta: metav1.ObjectMeta{Name: name, Namespace: NS, UID: types.UID("uid-" + name)},
		Spec: resourceapi.ResourceClaimSpec{Devices: resourceapi.DeviceClaim{Requests: []resourceapi.DeviceRequest{{Name: "gpu",
			Exactly: &resourceapi.ExactDeviceRequest{DeviceClassName: "gpu.nvidia.com", AllocationMode: resourceapi.DeviceAllocationModeExactCount, Count: 1}}}}}}
}

// OtherClaimConsumer is the pod a shared claim is already reserved for.
const OtherClaimConsumer = "other-consumer"

// SharedClaim builds a ResourceClaim that is allocated on node and reserved for OtherClaimConsumer.
func SharedClaim(name, node string) *resourceapi.ResourceClaim {
	c := Claim(name)
	c.Status.Allocation = &resourceapi.AllocationResult{Devices: resourceapi.DeviceAllocationResult{Results: []resourceapi.DeviceRequestAllocationResult{
		{Request: "gpu", Driver: "gpu.nvidia.com", Pool: node, Device: "gpu-0"}}}}
	c.Status.ReservedFor = []resourceapi.ResourceClaimConsumerReference{{Resource: "pods", Name: OtherClaimConsumer, UID: types.UID("uid-" + OtherClaimConsumer)}}
	return c
}

// BindRequest builds the object the scheduler's createBindRequest produces (BackoffLimit nil unless given).
func BindRequest(pod *v1.Pod, node string, fraction bool, groups []string, count int, portion string, backoff *int32) *schedulingv1alpha2.BindRequest {
	typ := "Regular"
	if fraction {
		typ = "Fraction"
	}
	br := &schedulingv1alpha2.BindRequest{
		ObjectMeta: metav1.ObjectMeta{Name: pod.Name, Namespace: pod.Namespace, UID: types.UID("uid-br-" + pod.Name),
			Labels:          map[string]string{"selected-node": node},
			OwnerReferences: []metav1.OwnerReference{{APIVersion: "v1", Kind: "Pod", Name: pod.Name, UID: pod.UID}}},
		Spec: schedulingv1alpha2.BindRequestSpec{PodName: pod.Name, SelectedNode: node, ReceivedResourceType: typ,
			ReceivedGPU: &schedulingv1alpha2.ReceivedGPU{Count: count, Portion: portion}, SelectedGPUGroups: groups, BackoffLimit: backoff},
	}
	for _, c := range pod.Spec.ResourceClaims {
		br.Spec.ResourceClaimAllocations = append(br.Spec.ResourceClaimAllocations, schedulingv1alpha2.ResourceClaimAllocation{
			Name: c.Name,
			Allocation: &resourceapi.AllocationResult{Devices: resourceapi.DeviceAllocationResult{Results: []resourceapi.DeviceRequestAllocationResult{
				{Request: "gpu", Driver: "gpu.nvidia.com", Pool: node, Device: "gpu-0"}}}},
		})
	}
	return br
}

// ------------------------------------------------------------------ environment events (un-numbered)

var bg = context.Background()

// EnvReservationPodReportsIndex models the reservation pod starting on its node: the device plugin
// hands it a free GPU and the pod writes its index annotation. The index is the lowest one no other
// reservation pod on that node reports.
func (w *World) EnvReservationPodReportsIndex(ns, name string) (*v1.Pod, error) {
	w.mu.Lock()
	defer w.mu.Unlock()
	pod := &v1.Pod{}
	if err := w.Raw.Get(bg, client.ObjectKey{Namespace: ns, Name: name}, pod); err != nil {
		return nil, err
	}
	if pod.Annotations[IndexAnn] != "" {
		return pod, nil
	}
	all := &v1.PodList{}
	if err := w.Raw.List(bg, all, client.InNamespace(ns)); err != nil {
		return nil, err
	}
	used := map[string]bool{}
	for _, o := range all.Items {
		if o.Spec.NodeName == pod.Spec.NodeName && o.Annotations[IndexAnn] != "" {
			used[o.Annotations[IndexAnn]] = true
		}
	}
	idx := 0
	for used[strconv.Itoa(idx)] {
		idx++
	}
	if pod.Annotations == nil {
		pod.Annotations = map[string]string{}
	}
	pod.Annotations[IndexAnn] = strconv.Itoa(idx)
	if err := w.Raw.Update(bg, pod); err != nil {
		return nil, err
	}
	return pod, nil
}

func (w *World) GetPod(name string) *v1.Pod {
	p := &v1.Pod{}
	if err := w.Raw.Get(bg, client.ObjectKey{Namespace: NS, Name: name}, p); err != nil {
		return nil
	}
	return p
}

func (w *World) GetBR(name string) *schedulingv1alpha2.BindRequest {
	b := &schedulingv1alpha2.BindRequest{}
	if err := w.Raw.Get(bg, client.ObjectKey{Namespace: NS, Name: name}, b); err != nil {
		return nil
	}
	return b
}

// EnvSetPhase models the kubelet reporting a pod phase; returns (old, new) for the update handler.
func (w *World) EnvSetPhase(name string, phase v1.PodPhase) (*v1.Pod, *v1.Pod) {
	old := w.GetPod(name)
	if old == nil {
		return nil, nil
	}
	cur := old.DeepCopy()
	cur.Status.Phase = phase
	must(w.Raw.Status().Update(bg, cur))
	return old, w.GetPod(name)
}

// EnvDeletePod removes the pod from the store (deletion completed) and returns its last state.
func (w *World) EnvDeletePod(name string) *v1.Pod {
	old := w.GetPod(name)
	if old == nil {
		return nil
	}
	must(w.Raw.Delete(bg, old.DeepCopy()))
	return old
}

// EnvDeleteBR models the scheduler (stale / failed BindRequest cleanup) or the garbage collector
// deleting a BindRequest; returns the last state for the delete handler.
func (w *World) EnvDeleteBR(name string) *schedulingv1alpha2.BindRequest {
	old := w.GetBR(name)
	if old == nil {
		return nil
	}
	must(w.Raw.Delete(bg, old.DeepCopy()))
	return old
}

func (w *World) EnvCreate(o client.Object) { must(w.Raw.Create(bg, o)) }

// ------------------------------------------------------------------ real event handlers

// PodUpdated delivers an update event to the REAL pod-controller handler.
func (p *Proc) PodUpdated(old, cur *v1.Pod) {
	h := p.PodCtl.VerifEventHandlers()
	h.UpdateFunc(bg, event.UpdateEvent{ObjectOld: old, ObjectNew: cur}, nopQueue{})
}

// PodDeleted delivers a delete event to the REAL pod-controller handler.
func (p *Proc) PodDeleted(last *v1.Pod) {
	h := p.PodCtl.VerifEventHandlers()
	h.DeleteFunc(bg, event.DeleteEvent{Object: last}, nopQueue{})
}

// BRDeleted delivers a delete event to the REAL BindRequest handler.
func (p *Proc) BRDeleted(last *schedulingv1alpha2.BindRequest) {
	h := p.BR.VerifEventHandlers()
	h.DeleteFunc(bg, event.DeleteEvent{Object: last}, nopQueue{})
}

// nopQueue swallows the enqueue requests of the handlers (PodReconciler.Reconcile is a no-op and
// BindRequest reconciles are driven explicitly by the explorer).
type nopQueue struct{}

func (nopQueue) Add(reconcile.Request)                       {}
func (nopQueue) Len() int                                    { return 0 }
func (nopQueue) Get() (reconcile.Request, bool)              { return reconcile.Request{}, true }
func (nopQueue) Done(reconcile.Request)                      {}
func (nopQueue) ShutDown()                                   {}
func (nopQueue) ShutDownWithDrain()                          {}
func (nopQueue) ShuttingDown() bool                          { return false }
func (nopQueue) AddAfter(reconcile.Request, time.Duration)   {}
func (nopQueue) AddRateLimited(reconcile.Request)            {}
func (nopQueue) Forget(reconcile.Request)                    {}
func (nopQueue) NumRequeues(reconcile.Request) int           { return 0 }

// ------------------------------------------------------------------ attempts and recovery

// Dev is one deviation: the call with index At (relative to the start of the attempt) gets Kind.
type Dev struct {
	At   int  `json:"at"`
	Kind Kind `json:"kind"`
}

// AttemptResult is what one real Reconcile did.
type AttemptResult struct {
	Calls        []Call
	Err          string
	RequeueAfter time.Duration
	Crashed      bool
	// Applied[i] is true when deviation i was actually consulted (its call index existed).
	Applied []bool
}

// RunAttempt executes one real Reconcile of the BindRequest `name` under the given deviations.
func (p *Proc) RunAttempt(name string, devs []Dev) AttemptResult {
	w := p.W
	base := len(w.Trace)
	applied := make([]bool, len(devs))
	w.Choose = func(c *Call) Kind {
		rel := c.Idx - base
		for i, d := range devs {
			if d.At == rel {
				applied[i] = true
				return d.Kind
			}
		}
		return OK
	}
	res, err := p.Reconcile(name)
	w.Choose = nil
	out := AttemptResult{Calls: append([]Call{}, w.Trace[base:]...), RequeueAfter: res.RequeueAfter, Crashed: w.Frozen, Applied: applied}
	if err != nil {
		out.Err = err.Error()
	}
	return out
}

// Restart models the binder process dying and coming back: all in-memory state is dropped (new
// process image) and, as cmd/binder/app.Run does, the startup Sync runs once the caches are ready.
func (w *World) Restart() (*Proc, error) {
	w.Frozen = false
	p := w.NewProc()
	err := p.RRS.Sync(bg)
	return p, err
}

// Recovery = (startup Sync in a fresh process image if the attempt crashed) then fault-free
// reconciles of every BindRequest until the canonical store stops changing.
type Recovery struct {
	Proc       *Proc
	SyncErr    string
	Rounds     int
	Converged  bool
	ReconErrs  []string
	CallsTotal int
}

const MaxRecoveryRounds = 6

func Recover(w *World, p *Proc, crashed bool) Recovery {
	r := Recovery{Proc: p}
	base := len(w.Trace)
	if crashed {
		np, err := w.Restart()
		r.Proc = np
		if err != nil {
			r.SyncErr = err.Error()
		}
	}
	prev := w.Snap().Canon()
	for r.Rounds < MaxRecoveryRounds {
		r.Rounds++
		for _, name := range w.BRNames() {
			if _, err := r.Proc.Reconcile(name); err != nil {
				r.ReconErrs = append(r.ReconErrs, fmt.Sprintf("round %d %s: %v", r.Rounds, name, err))
			}
		}
		cur := w.Snap().Canon()
		if cur == prev {
			r.Converged = true
			break
		}
		prev = cur
	}
	r.CallsTotal = len(w.Trace) - base
	return r
}

func (w *World) BRNames() []string {
	l := &schedulingv1alpha2.BindRequestList{}
	must(w.Raw.List(bg, l, client.InNamespace(NS)))
	names := []string{}
	for _, b := range l.Items {
		names = append(names, b.Name)
	}
	sort.Strings(names)
	return names
}
