package binderrun

import (
	"testing"
	"time"
)

func TestTiming(t *testing.T) {
	sc := C11Scenarios("quick")[1]
	t0 := time.Now()
	w, p, err := sc.Build(0, true)
	if err != nil {
		t.Fatal(err)
	}
	t.Logf("build %v", time.Since(t0))
	t0 = time.Now()
	for i := 0; i < 20; i++ {
		w.NewProc()
	}
	t.Logf("NewProc x20 %v", time.Since(t0))
	t0 = time.Now()
	for i := 0; i < 20; i++ {
		NewWorld(nil, nil)
	}
	t.Logf("NewWorld x20 %v", time.Since(t0))
	t0 = time.Now()
	p.RunAttempt("t", nil)
	t.Logf("attempt %v", time.Since(t0))
	t0 = time.Now()
	for i := 0; i < 20; i++ {
		w.Snap().Canon()
	}
	t.Logf("snap x20 %v", time.Since(t0))
	t0 = time.Now()
	Recover(w, p, false)
	t.Logf("recover %v", time.Since(t0))
}
