package binderrun

import (
	"fmt"
	"sort"
	"strings"

	v1 "k8s.io/api/core/v1"
	resourceapi "k8s.io/api/resource/v1"
	metav1 "k8s.io/apimachinery/pkg/apis/meta/v1"
	"sigs.k8s.io/controller-runtime/pkg/client"

	schedulingv1alpha2 "github.com/NVIDIA/KAI-scheduler/pkg/apis/scheduling/v1alpha2"
)

const (
	gpuGroupLabel       = "runai-gpu-group"
	multiGroupPrefix    = "runai-gpu-group/"
	cmAnnotation        = "runai/shared-gpu-configmap"
	visibleDevicesKey   = "NVIDIA_VISIBLE_DEVICES"
	gpuPortionKey       = "GPU_PORTION"
	receivedTypeAnn     = "received-resource-type"
	fractionContainerAn = "gpu-fraction-container-name"
)

// Snapshot is a read-out of everything the properties talk about (taken through the raw store).
type Snapshot struct {
	Workloads    []v1.Pod // pods outside the reservation namespace
	Reservations []v1.Pod // pods in the reservation namespace
	ConfigMaps   []v1.ConfigMap
	BRs          []schedulingv1alpha2.BindRequest
	Claims       []resourceapi.ResourceClaim
}

func (w *World) Snap() *Snapshot {
	s := &Snapshot{}
	pods := &v1.PodList{}
	must(w.Raw.List(bg, pods))
	for _, p := range pods.Items {
		if p.Namespace == ResNS {
			s.Reservations = append(s.Reservations, p)
		} else {
			s.Workloads = append(s.Workloads, p)
		}
	}
	cms := &v1.ConfigMapList{}
	must(w.Raw.List(bg, cms))
	s.ConfigMaps = cms.Items
	brs := &schedulingv1alpha2.BindRequestList{}
	must(w.Raw.List(bg, brs))
	s.BRs = brs.Items
	cl, err := w.KC.Tracker().List(resourceapi.SchemeGroupVersion.WithResource("resourceclaims"), resourceapi.SchemeGroupVersion.WithKind("ResourceClaim"), "")
	must(err)
	if l, ok := cl.(*resourceapi.ResourceClaimList); ok {
		s.Claims = l.Items
	}
	sort.Slice(s.Workloads, func(i, j int) bool { return s.Workloads[i].Name < s.Workloads[j].Name })
	sort.Slice(s.Reservations, func(i, j int) bool { return resvKey(&s.Reservations[i]) < resvKey(&s.Reservations[j]) })
	sort.Slice(s.ConfigMaps, func(i, j int) bool { return s.ConfigMaps[i].Name < s.ConfigMaps[j].Name })
	sort.Slice(s.BRs, func(i, j int) bool { return s.BRs[i].Name < s.BRs[j].Name })
	sort.Slice(s.Claims, func(i, j int) bool { return s.Claims[i].Name < s.Claims[j].Name })
	return s
}

func resvKey(p *v1.Pod) string {
	return p.Spec.NodeName + "|" + p.Labels[gpuGroupLabel] + "|" + p.Annotations[IndexAnn] + "|" + p.Name
}

// PodGroups returns the GPU groups a workload pod carries (plain and multi-group labels) – computed
// independently of resources.GetGpuGroups.
func PodGroups(p *v1.Pod) []string {
	set := map[string]bool{}
	if g, ok := p.Labels[gpuGroupLabel]; ok {
		set[g] = true
	}
	for k, v := range p.Labels {
		if strings.HasPrefix(k, multiGroupPrefix) {
			set[v] = true
		}
	}
	return sortedKeys(set)
}

func groupLabels(p *v1.Pod) []string {
	out := []string{}
	for k, v := range p.Labels {
		if k == gpuGroupLabel || strings.HasPrefix(k, multiGroupPrefix) {
			out = append(out, k+"="+v)
		}
	}
	sort.Strings(out)
	return out
}

func isLive(p *v1.Pod) bool {
	return p.DeletionTimestamp == nil && (p.Status.Phase == v1.PodPending || p.Status.Phase == v1.PodRunning || p.Status.Phase == "")
}

func condStatus(p *v1.Pod, t string) string {
	for _, c := range p.Status.Conditions {
		if string(c.Type) == t {
			return string(c.Status)
		}
	}
	return "-"
}

// Canon renders the snapshot canonically: random reservation-pod suffixes, resource versions and
// free-text status reasons are dropped; everything the oracles look at is kept.
func (s *Snapshot) Canon() string {
	var b strings.Builder
	for _, p := range s.Workloads {
		fmt.Fprintf(&b, "pod %s node=%q phase=%s groups=%v rrt=%q bound-cond=%s\n", p.Name, p.Spec.NodeName, p.Status.Phase,
			groupLabels(&p), p.Annotations[receivedTypeAnn], condStatus(&p, "PodBound"))
	}
	for i, p := range s.Reservations {
		fmt.Fprintf(&b, "resv#%d node=%q group=%s index=%q\n", i, p.Spec.NodeName, p.Labels[gpuGroupLabel], p.Annotations[IndexAnn])
	}
	for _, c := range s.ConfigMaps {
		ks := sortedKeys(c.Data)
		kv := []string{}
		for _, k := range ks {
			kv = append(kv, k+"="+c.Data[k])
		}
		owners := []string{}
		for _, o := range c.OwnerReferences {
			owners = append(owners, o.Name)
		}
		fmt.Fprintf(&b, "cm %s owners=%v data=%v\n", c.Name, owners, kv)
	}
	for _, r := range s.BRs {
		fmt.Fprintf(&b, "br %s phase=%q failed=%d\n", r.Name, r.Status.Phase, r.Status.FailedAttempts)
	}
	for _, c := range s.Claims {
		res := []string{}
		for _, r := range c.Status.ReservedFor {
			res = append(res, r.Name)
		}
		fmt.Fprintf(&b, "claim %s allocated=%v reservedFor=%v\n", c.Name, c.Status.Allocation != nil, res)
	}
	return b.String()
}

func (s *Snapshot) Lines() []string {
	return strings.Split(strings.TrimSpace(s.Canon()), "\n")
}

func (s *Snapshot) Pod(name string) *v1.Pod {
	for i := range s.Workloads {
		if s.Workloads[i].Name == name {
			return &s.Workloads[i]
		}
	}
	return nil
}

func (s *Snapshot) BR(name string) *schedulingv1alpha2.BindRequest {
	for i := range s.BRs {
		if s.BRs[i].Name == name {
			return &s.BRs[i]
		}
	}
	return nil
}

func (s *Snapshot) CM(name string) *v1.ConfigMap {
	for i := range s.ConfigMaps {
		if s.ConfigMaps[i].Name == name && s.ConfigMaps[i].Namespace == NS {
			return &s.ConfigMaps[i]
		}
	}
	return nil
}

func (s *Snapshot) Claim(name string) *resourceapi.ResourceClaim {
	for i := range s.Claims {
		if s.Claims[i].Name == name {
			return &s.Claims[i]
		}
	}
	return nil
}

// ReservationsOf returns the reservation pods of a group.
func (s *Snapshot) ReservationsOf(group string) []*v1.Pod {
	var out []*v1.Pod
	for i := range s.Reservations {
		if s.Reservations[i].Labels[gpuGroupLabel] == group && s.Reservations[i].DeletionTimestamp == nil {
			out = append(out, &s.Reservations[i])
		}
	}
	return out
}

// capabilitiesCMName derives the pod's GPU-sharing config-map name from the pod alone
// (annotation prefix + fraction container index), independently of the binder helpers.
func capabilitiesCMName(p *v1.Pod) string {
	prefix, ok := p.Annotations[cmAnnotation]
	if !ok {
		return ""
	}
	idx := "0"
	if name, ok := p.Annotations[fractionContainerAn]; ok {
		found := false
		for i, c := range p.Spec.InitContainers {
			if c.Name == name {
				idx = fmt.Sprintf("i%d", i)
				found = true
				break
			}
		}
		if !found {
			for i, c := range p.Spec.Containers {
				if c.Name == name {
					idx = fmt.Sprintf("%d", i)
					break
				}
			}
		}
	}
	return prefix + "-" + idx
}

// VisibleDevices returns the NVIDIA_VISIBLE_DEVICES value the pod's container will see and the
// GPU_PORTION value ("" when absent).
func (s *Snapshot) VisibleDevices(p *v1.Pod) (devices string, portion string, found bool) {
	base := capabilitiesCMName(p)
	if base == "" {
		return "", "", false
	}
	for _, n := range []string{base, base + "-evar"} {
		if cm := s.CM(n); cm != nil {
			if v, ok := cm.Data[visibleDevicesKey]; ok && !found {
				devices, found = v, true
			}
			if v, ok := cm.Data[gpuPortionKey]; ok && portion == "" {
				portion = v
			}
		}
	}
	return devices, portion, found
}

// Finding is one oracle complaint: Key is stable (names the cause), Msg has the details.
type Finding struct {
	Key string
	Msg string
	// Attempt is the index of the attempt that raised it (-1: raised after recovery / not attempt-bound).
	Attempt int
}

func podShape(p *v1.Pod) string {
	for k := range p.Labels {
		if strings.HasPrefix(k, multiGroupPrefix) {
			return "multi-fraction"
		}
	}
	if n, ok := p.Annotations["gpu-fraction-num-devices"]; ok && n != "1" && n != "" {
		return "multi-fraction"
	}
	return "single-fraction"
}

// CheckReservationInvariant is the C17 oracle on one quiescent store:
//  1. per GPU group at most one reservation pod;
//  2. a reservation pod exists <=> at least one live (Pending/Running) workload pod carries the group;
//  3. (implied by 2, reported separately) no Running pod on a group without reservation pod;
//  4. every bound pod of the group sees exactly its reservation pods' device indexes and sits on
//     the reservation pod's node.
func CheckReservationInvariant(s *Snapshot) []Finding {
	var out []Finding
	groups := map[string]bool{}
	for i := range s.Reservations {
		groups[s.Reservations[i].Labels[gpuGroupLabel]] = true
	}
	consumers := map[string][]*v1.Pod{}
	for i := range s.Workloads {
		p := &s.Workloads[i]
		for _, g := range PodGroups(p) {
			groups[g] = true
			consumers[g] = append(consumers[g], p)
		}
	}
	for _, g := range sortedKeys(groups) {
		rs := s.ReservationsOf(g)
		var live []*v1.Pod
		for _, c := range consumers[g] {
			if isLive(c) {
				live = append(live, c)
			}
		}
		if len(rs) > 1 {
			out = append(out, Finding{Key: "multiple-reservation-pods", Msg: fmt.Sprintf("group %s has %d reservation pods", g, len(rs))})
		}
		if len(rs) >= 1 && len(live) == 0 {
			shape := "none"
			if len(consumers[g]) > 0 {
				shape = podShape(consumers[g][0])
			}
			out = append(out, Finding{Key: "reservation-leaked last-consumer=" + shape,
				Msg: fmt.Sprintf("group %s keeps reservation pod %s (index %q) but no live pod carries the group", g, rs[0].Name, rs[0].Annotations[IndexAnn])})
		}
		if len(rs) == 0 {
			for _, c := range live {
				out = append(out, Finding{Key: fmt.Sprintf("consumer-without-reservation phase=%s kind=%s", c.Status.Phase, podShape(c)),
					Msg: fmt.Sprintf("pod %s (%s, node %q) carries group %s but the group has no reservation pod", c.Name, c.Status.Phase, c.Spec.NodeName, g)})
			}
		}
	}
	// device indexes
	for i := range s.Workloads {
		p := &s.Workloads[i]
		gs := PodGroups(p)
		if len(gs) == 0 || p.Spec.NodeName == "" || !isLive(p) {
			continue
		}
		want := []string{}
		complete := true
		for _, g := range gs {
			rs := s.ReservationsOf(g)
			if len(rs) != 1 {
				complete = false
				continue
			}
			want = append(want, rs[0].Annotations[IndexAnn])
			if rs[0].Spec.NodeName != p.Spec.NodeName {
				out = append(out, Finding{Key: "consumer-on-other-node-than-reservation", Msg: fmt.Sprintf("pod %s on %q, reservation of %s on %q", p.Name, p.Spec.NodeName, g, rs[0].Spec.NodeName)})
			}
		}
		if !complete {
			continue // already reported above
		}
		dev, _, found := s.VisibleDevices(p)
		got := []string{}
		if found && dev != "" {
			got = strings.Split(dev, ",")
		}
		sort.Strings(got)
		sort.Strings(want)
		if strings.Join(got, ",") != strings.Join(want, ",") {
			out = append(out, Finding{Key: "device-index-mismatch kind=" + podShape(p),
				Msg: fmt.Sprintf("bound pod %s groups %v: NVIDIA_VISIBLE_DEVICES=%q (found=%v) but reservation pods report %v", p.Name, gs, dev, found, want)})
		}
	}
	return out
}

var _ = metav1.Now
var _ client.Object
