#!/bin/bash
# usage: mutant_run.sh <patch-file> <C11|C17> [tier]
# Copy of /verif/scripts/mutant_run.sh for the binder checks: additionally merges the O-groupmutex
# overlay entry (C17 interleavings need it) into the scratch overlay. Never touches /repo.
# env: BINPKG (default ./cmd/check) – package to build; REPO_TESTS=1 also runs the repo's own unit
# tests of ./pkg/binder/... under the mutant overlay.
set -uo pipefail
. /verif/scripts/env.sh
patch=$(readlink -f "$1"); id=$2; tier=${3:-quick}
scratch=$(mktemp -d /var/tmp/verif-mutant.XXXXXX)
trap 'rm -rf "$scratch"' EXIT
[ -f /verif/.build/overlay/overlay.json ] || /verif/overlays/gen_maporder.sh >/dev/null
/verif/overlays/gen_groupmutex.sh /verif/.build/overlay/overlay.json "$scratch/base.json" "$scratch/groupmutex" >/dev/null || { echo "mutant: groupmutex overlay failed"; exit 2; }
files=$(grep '^+++ ' "$patch" | sed 's#^+++ [ab]/##' | awk '{print $1}')
mkdir -p "$scratch/src"
for f in $files; do mkdir -p "$scratch/src/$(dirname $f)"; [ -f /repo/$f ] && cp /repo/$f "$scratch/src/$f"; done
( cd "$scratch/src" && patch -p1 -s < "$patch" ) || { echo "mutant: patch does not apply"; exit 2; }
python3 - "$scratch" $files <<'P'
import json,sys
scratch=sys.argv[1]; files=sys.argv[2:]
o=json.load(open(scratch+'/base.json'))
for f in files: o["Replace"]["/repo/"+f]=scratch+"/src/"+f
json.dump(o,open(scratch+"/overlay.json","w"))
# overlay for the repo's own tests: no harness shim (the repo module cannot import it), no map overlay needed
t={"Replace":{}}
for f in files: t["Replace"]["/repo/"+f]=scratch+"/src/"+f
json.dump(t,open(scratch+"/overlay-repotests.json","w"))
P
if [ "${REPO_TESTS:-0}" = "1" ]; then
  echo "== repo unit tests of ./pkg/binder/... under the mutant"
  ( cd /repo && $GO test -mod=mod -vet=off -overlay "$scratch/overlay-repotests.json" ./pkg/binder/... 2>&1 | tail -25 )
  echo "== repo tests exit: $?"
fi
cd /verif/mc
if ! $GO build -tags verif -overlay "$scratch/overlay.json" -o "$scratch/check" ${BINPKG:-./cmd/check} 2>"$scratch/build.err"; then
  echo "mutant: build failed"; cat "$scratch/build.err"; exit 2
fi
cd /verif
VERIF_OUT="$scratch" "$scratch/check" "$id" --tier "$tier"
code=$?
echo "mutant exit code: $code"
exit $code
