// Package binderrun wires the REAL binder (BindRequestReconciler, Binder, resourcereservation
// service, K8sPlugins incl. the DRA plugin, GPUSharing plugin, pod-controller event handlers) onto a
// controller-runtime fake client plus a client-go fake clientset, behind a client wrapper that
// numbers every API call in program order and lets an explorer decide the outcome of each call.
//
// Trusted base (the only modelled parts): the fake object stores, the emulation of the pod
// `binding` sub-resource (bindingCreate), the answers of the reservation-pod Watch (watchAnswer),
// and the environment events in env.go.
package binderrun

import (
	"context"
	"errors"
	"fmt"
	"sort"
	"strings"
	"sync"
	"time"

	"github.com/go-logr/logr"
	v1 "k8s.io/api/core/v1"
	resourceapi "k8s.io/api/resource/v1"
	apierrors "k8s.io/apimachinery/pkg/api/errors"
	"k8s.io/apimachinery/pkg/api/meta"
	metav1 "k8s.io/apimachinery/pkg/apis/meta/v1"
	"k8s.io/apimachinery/pkg/runtime"
	"k8s.io/apimachinery/pkg/runtime/schema"
	"k8s.io/apimachinery/pkg/runtime/serializer"
	utilrand "k8s.io/apimachinery/pkg/util/rand"
	"k8s.io/apimachinery/pkg/watch"
	"k8s.io/client-go/informers"
	k8sfake "k8s.io/client-go/kubernetes/fake"
	clientgoscheme "k8s.io/client-go/kubernetes/scheme"
	k8stesting "k8s.io/client-go/testing"
	"k8s.io/client-go/tools/record"
	ctrl "sigs.k8s.io/controller-runtime"
	"sigs.k8s.io/controller-runtime/pkg/client"
	"sigs.k8s.io/controller-runtime/pkg/client/fake"
	ctrllog "sigs.k8s.io/controller-runtime/pkg/log"

	schedulingv1alpha2 "github.com/NVIDIA/KAI-scheduler/pkg/apis/scheduling/v1alpha2"
	"github.com/NVIDIA/KAI-scheduler/pkg/binder/binding"
	"github.com/NVIDIA/KAI-scheduler/pkg/binder/binding/resourcereservation"
	"github.com/NVIDIA/KAI-scheduler/pkg/binder/controllers"
	"github.com/NVIDIA/KAI-scheduler/pkg/binder/plugins"
	"github.com/NVIDIA/KAI-scheduler/pkg/binder/plugins/gpusharing"
	k8s_plugins "github.com/NVIDIA/KAI-scheduler/pkg/binder/plugins/k8s-plugins"
	"github.com/NVIDIA/KAI-scheduler/pkg/common/constants"
	draversionawareclient "github.com/NVIDIA/KAI-scheduler/pkg/common/resources/dra_version_aware_client"
)

const (
	ResNS         = "kai-resource-reservation"
	ScaleNS       = "kai-scale-adjust"
	NS            = "ns1"
	SchedulerName = "kai-scheduler"
	IndexAnn      = "run.ai/reserve_for_gpu_index"
)

func init() {
	ctrllog.SetLogger(logr.Discard())
}

// ------------------------------------------------------------------ deviations and calls

// Kind is the outcome the explorer picks for one numbered call.
type Kind string

const (
	OK    Kind = "ok"
	Err   Kind = "err"   // request not applied, error returned
	Crash Kind = "crash" // store frozen: this and every later call fails without effect
	Lost  Kind = "lost"  // request applied, but an error is returned (response lost / timeout)
	// answers of the reservation-pod Watch (besides OK = "the pod reports GPU index i")
	WatchClosed   Kind = "watch-closed"
	WatchErrEvent Kind = "watch-errevent"
)

// Call describes one intercepted API call.
type Call struct {
	Idx    int    `json:"i"`
	Thread int    `json:"t,omitempty"`
	Verb   string `json:"verb"`   // get list create update patch delete watch status-patch binding-create claim-get claim-updatestatus
	Target string `json:"target"` // Kind ns/name (or list selector)
	Mut    bool   `json:"mut,omitempty"`
	Dev    Kind   `json:"dev,omitempty"`
}

func (c Call) String() string {
	d := ""
	if c.Dev != "" && c.Dev != OK {
		d = " !" + string(c.Dev)
	}
	return fmt.Sprintf("#%d %s %s%s", c.Idx, c.Verb, c.Target, d)
}

// Applicable deviation kinds of a call (OK excluded).
func Deviations(c *Call, withLost bool) []Kind {
	ks := []Kind{Err, Crash}
	if withLost && c.Mut {
		ks = append(ks, Lost)
	}
	if c.Verb == "watch" {
		ks = append(ks, WatchClosed, WatchErrEvent)
	}
	return ks
}

var errInjected = apierrors.NewInternalError(errors.New("verif: injected API fault"))
var errCrashed = errors.New("verif: process crashed (store frozen)")

// ------------------------------------------------------------------ world

// World = the API store(s) plus the call log. Process images (Proc) come and go on top of it.
type World struct {
	Scheme *runtime.Scheme
	// Raw is the un-numbered store handle: used by the environment model and the oracles only.
	Raw client.WithWatch
	// KC holds ResourceClaims (the DRA plugin talks to a client-go clientset).
	KC *k8sfake.Clientset

	mu     sync.Mutex
	Frozen bool
	Trace  []Call
	// Choose picks the outcome of a call (nil => OK). Called with w.mu NOT held.
	Choose func(c *Call) Kind
	// Yield is the cooperative-scheduler hook, called before a call is numbered.
	Yield func(verb, target string)
	// ThreadOf returns the id of the calling thread (interleaving runs); nil => 0.
	ThreadOf func() int

	// BindOK counts successful binding calls per pod; BindRejected counts binding calls the
	// (emulated) API server refused because the pod was already assigned.
	BindOK       map[string]int
	BindRejected map[string]int
	BindTarget   map[string][]string
	// Marks are phase boundaries recorded by phaseMarker (observation only).
	Marks []Mark
}

func NewScheme() *runtime.Scheme {
	s := runtime.NewScheme()
	must(clientgoscheme.AddToScheme(s))
	must(schedulingv1alpha2.AddToScheme(s))
	return s
}

func must(err error) {
	if err != nil {
		panic(err)
	}
}

var sharedScheme = NewScheme()
var sharedDecoder = serializer.NewCodecFactory(sharedScheme).UniversalDecoder()

// NewWorld builds a store holding objs (controller-runtime objects) and claims.
func NewWorld(objs []client.Object, claims []*resourceapi.ResourceClaim) *World {
	w := &World{Scheme: sharedScheme, BindOK: map[string]int{}, BindRejected: map[string]int{}, BindTarget: map[string][]string{}}
	// plain object tracker: the default field-managed tracker (server-side-apply emulation, which
	// the binder never uses) costs 2-7 ms per write.
	b := fake.NewClientBuilder().WithScheme(w.Scheme).
		WithObjectTracker(k8stesting.NewObjectTracker(w.Scheme, sharedDecoder)).
		// the two indexes cmd/binder/app/app.go registers
		WithIndex(&v1.Pod{}, "spec.nodeName", func(o client.Object) []string {
			n := o.(*v1.Pod).Spec.NodeName
			if n == "" {
				return nil
			}
			return []string{n}
		}).
		WithIndex(&v1.Pod{}, "metadata.labels."+constants.GPUGroup, func(o client.Object) []string {
			g, ok := o.(*v1.Pod).Labels[constants.GPUGroup]
			if !ok {
				return nil
			}
			return []string{g}
		}).
		WithStatusSubresource(&schedulingv1alpha2.BindRequest{}, &v1.Pod{})
	if len(objs) > 0 {
		b = b.WithObjects(objs...)
	}
	w.Raw = b.Build()
	ros := []runtime.Object{}
	for _, c := range claims {
		ros = append(ros, c.DeepCopy())
	}
	w.KC = k8sfake.NewSimpleClientset(ros...)
	w.KC.PrependReactor("*", "resourceclaims", w.claimReactor)
	return w
}

// Client returns the numbered client a process image talks to.
func (w *World) Client() client.WithWatch { return &numbered{w: w} }

func (w *World) thread() int {
	if w.ThreadOf != nil {
		return w.ThreadOf()
	}
	return 0
}

// begin numbers a call and asks the explorer for its outcome.
func (w *World) begin(verb, target string, mut bool) (*Call, Kind) {
	if w.Yield != nil {
		w.Yield(verb, target)
	}
	w.mu.Lock()
	c := Call{Idx: len(w.Trace), Verb: verb, Target: target, Mut: mut, Thread: w.thread()}
	frozen := w.Frozen
	w.Trace = append(w.Trace, c)
	w.mu.Unlock()
	k := OK
	if frozen {
		k = Crash
	} else if w.Choose != nil {
		k = w.Choose(&c)
		if k == "" {
			k = OK
		}
	}
	if k == Lost && !mut {
		k = Err
	}
	if (k == WatchClosed || k == WatchErrEvent) && verb != "watch" {
		k = OK
	}
	w.mu.Lock()
	if k == Crash {
		w.Frozen = true
	}
	w.Trace[c.Idx].Dev = k
	w.mu.Unlock()
	c.Dev = k
	return &c, k
}

// do runs one numbered call: apply is executed for OK and Lost.
func (w *World) do(verb, target string, mut bool, apply func() error) error {
	_, k := w.begin(verb, target, mut)
	switch k {
	case Crash:
		return errCrashed
	case Err:
		return errInjected
	case Lost:
		_ = apply()
		return errInjected
	}
	return apply()
}

func objTarget(s *runtime.Scheme, o runtime.Object, ns, name string) string {
	kind := ""
	if gvks, _, err := s.ObjectKinds(o); err == nil && len(gvks) > 0 {
		kind = gvks[0].Kind
	} else {
		kind = fmt.Sprintf("%T", o)
	}
	if ns == "" {
		return kind + " " + name
	}
	return kind + " " + ns + "/" + name
}

func (w *World) target(o client.Object) string {
	return objTarget(w.Scheme, o, o.GetNamespace(), w.canonName(o.GetNamespace(), o.GetName()))
}

// canonName hides the random suffix of reservation-pod names in call descriptions.
func (w *World) canonName(ns, name string) string {
	if ns == ResNS && strings.HasPrefix(name, "gpu-reservation-") {
		if i := strings.LastIndex(name, "-"); i > 0 {
			return name[:i] + "-*"
		}
	}
	return name
}

// ------------------------------------------------------------------ numbered client

type numbered struct{ w *World }

var _ client.WithWatch = &numbered{}

func (n *numbered) Scheme() *runtime.Scheme   { return n.w.Raw.Scheme() }
func (n *numbered) RESTMapper() meta.RESTMapper { return n.w.Raw.RESTMapper() }
func (n *numbered) GroupVersionKindFor(o runtime.Object) (schema.GroupVersionKind, error) {
	return n.w.Raw.GroupVersionKindFor(o)
}
func (n *numbered) IsObjectNamespaced(o runtime.Object) (bool, error) {
	return n.w.Raw.IsObjectNamespaced(o)
}

func (n *numbered) Get(ctx context.Context, key client.ObjectKey, obj client.Object, opts ...client.GetOption) error {
	t := objTarget(n.w.Scheme, obj, key.Namespace, n.w.canonName(key.Namespace, key.Name))
	return n.w.do("get", t, false, func() error { return n.w.Raw.Get(ctx, key, obj, opts...) })
}

func listTarget(s *runtime.Scheme, list client.ObjectList, opts []client.ListOption) string {
	lo := client.ListOptions{}
	lo.ApplyOptions(opts)
	parts := []string{}
	if lo.Namespace != "" {
		parts = append(parts, "ns="+lo.Namespace)
	}
	if lo.LabelSelector != nil && !lo.LabelSelector.Empty() {
		parts = append(parts, "l="+lo.LabelSelector.String())
	}
	if lo.FieldSelector != nil && !lo.FieldSelector.Empty() {
		f := lo.FieldSelector.String()
		if strings.HasPrefix(f, "metadata.name=gpu-reservation-") {
			if i := strings.LastIndex(f, "-"); i > 0 {
				f = f[:i] + "-*"
			}
		}
		parts = append(parts, "f="+f)
	}
	return objTarget(s, list, "", "") + "[" + strings.Join(parts, " ") + "]"
}

func (n *numbered) List(ctx context.Context, list client.ObjectList, opts ...client.ListOption) error {
	return n.w.do("list", listTarget(n.w.Scheme, list, opts), false, func() error { return n.w.Raw.List(ctx, list, opts...) })
}

func (n *numbered) Create(ctx context.Context, obj client.Object, opts ...client.CreateOption) error {
	return n.w.do("create", n.w.target(obj), true, func() error { return n.w.Raw.Create(ctx, obj, opts...) })
}

func (n *numbered) Delete(ctx context.Context, obj client.Object, opts ...client.DeleteOption) error {
	return n.w.do("delete", n.w.target(obj), true, func() error { return n.w.Raw.Delete(ctx, obj, opts...) })
}

func (n *numbered) DeleteAllOf(ctx context.Context, obj client.Object, opts ...client.DeleteAllOfOption) error {
	return n.w.do("deleteallof", n.w.target(obj), true, func() error { return n.w.Raw.DeleteAllOf(ctx, obj, opts...) })
}

func (n *numbered) Update(ctx context.Context, obj client.Object, opts ...client.UpdateOption) error {
	return n.w.do("update", n.w.target(obj), true, func() error { return n.w.Raw.Update(ctx, obj, opts...) })
}

func (n *numbered) Patch(ctx context.Context, obj client.Object, patch client.Patch, opts ...client.PatchOption) error {
	return n.w.do("patch", n.w.target(obj), true, func() error { return n.w.Raw.Patch(ctx, obj, patch, opts...) })
}

func (n *numbered) Apply(ctx context.Context, obj runtime.ApplyConfiguration, opts ...client.ApplyOption) error {
	return n.w.do("apply", fmt.Sprintf("%T", obj), true, func() error { return n.w.Raw.Apply(ctx, obj, opts...) })
}

func (n *numbered) Status() client.SubResourceWriter { return n.SubResource("status") }

func (n *numbered) SubResource(sub string) client.SubResourceClient {
	return &numberedSub{w: n.w, sub: sub}
}

// Watch is only used by waitForGPUReservationPodAllocation. The answer is a choice:
// OK = the reservation pod reports a GPU index (also written to the store, as the real
// reservation pod would do), WatchClosed, WatchErrEvent, plus Err/Crash of the call itself.
// The returned watcher is pre-filled, so the service's select never blocks and its timer
// never decides.
func (n *numbered) Watch(ctx context.Context, list client.ObjectList, opts ...client.ListOption) (watch.Interface, error) {
	w := n.w
	_, k := w.begin("watch", listTarget(w.Scheme, list, opts), false)
	switch k {
	case Crash:
		return nil, errCrashed
	case Err, Lost:
		return nil, errInjected
	case WatchClosed:
		fw := watch.NewFakeWithChanSize(1, false)
		fw.Stop()
		return fw, nil
	case WatchErrEvent:
		fw := watch.NewFakeWithChanSize(1, false)
		fw.Error(&metav1.Status{Status: metav1.StatusFailure, Message: "verif: watch error event"})
		return fw, nil
	}
	lo := client.ListOptions{}
	lo.ApplyOptions(opts)
	name := ""
	if lo.FieldSelector != nil {
		if v, ok := lo.FieldSelector.RequiresExactMatch("metadata.name"); ok {
			name = v
		}
	}
	fw := watch.NewFakeWithChanSize(2, false)
	pod, err := w.EnvReservationPodReportsIndex(lo.Namespace, name)
	if err != nil {
		// the pod vanished (another thread's sync deleted it): the real watch would deliver a
		// Deleted event and then stay silent until the timeout; we close the channel instead,
		// which the service treats the same way (unknown index).
		fw.Stop()
		return fw, nil
	}
	fw.Modify(pod)
	return fw, nil
}

type numberedSub struct {
	w   *World
	sub string
}

func (s *numberedSub) Get(ctx context.Context, obj client.Object, subResource client.Object, opts ...client.SubResourceGetOption) error {
	return s.w.do(s.sub+"-get", s.w.target(obj), false, func() error { return s.w.Raw.SubResource(s.sub).Get(ctx, obj, subResource, opts...) })
}

func (s *numberedSub) Create(ctx context.Context, obj client.Object, subResource client.Object, opts ...client.SubResourceCreateOption) error {
	if s.sub == "binding" {
		return s.w.do("binding-create", s.w.target(obj), true, func() error { return s.w.bindingCreate(ctx, obj, subResource) })
	}
	return s.w.do(s.sub+"-create", s.w.target(obj), true, func() error { return s.w.Raw.SubResource(s.sub).Create(ctx, obj, subResource, opts...) })
}

func (s *numberedSub) Update(ctx context.Context, obj client.Object, opts ...client.SubResourceUpdateOption) error {
	return s.w.do(s.sub+"-update", s.w.target(obj), true, func() error { return s.w.Raw.SubResource(s.sub).Update(ctx, obj, opts...) })
}

func (s *numberedSub) Patch(ctx context.Context, obj client.Object, patch client.Patch, opts ...client.SubResourcePatchOption) error {
	return s.w.do(s.sub+"-patch", s.w.target(obj), true, func() error { return s.w.Raw.SubResource(s.sub).Patch(ctx, obj, patch, opts...) })
}

// bindingCreate emulates the API server's pods/binding sub-resource (the controller-runtime fake
// lacks it): the pod must exist, UID must match if given, spec.nodeName is set exactly once; a
// second bind of an assigned pod is a Conflict.  TRUSTED BASE.
func (w *World) bindingCreate(ctx context.Context, obj client.Object, sub client.Object) error {
	b, ok := sub.(*v1.Binding)
	if !ok {
		return apierrors.NewBadRequest(fmt.Sprintf("expected Binding, got %T", sub))
	}
	key := client.ObjectKeyFromObject(obj)
	cur := &v1.Pod{}
	if err := w.Raw.Get(ctx, key, cur); err != nil {
		return err
	}
	ks := key.String()
	if b.UID != "" && cur.UID != b.UID {
		return apierrors.NewConflict(schema.GroupResource{Resource: "pods/binding"}, key.Name, fmt.Errorf("uid precondition failed"))
	}
	if cur.DeletionTimestamp != nil {
		return apierrors.NewConflict(schema.GroupResource{Resource: "pods/binding"}, key.Name, fmt.Errorf("pod is being deleted"))
	}
	if cur.Spec.NodeName != "" {
		w.mu.Lock()
		w.BindRejected[ks]++
		w.mu.Unlock()
		return apierrors.NewConflict(schema.GroupResource{Resource: "pods/binding"}, key.Name,
			fmt.Errorf("pod %s is already assigned to node %q", key.Name, cur.Spec.NodeName))
	}
	if b.Target.Kind != "Node" || b.Target.Name == "" {
		return apierrors.NewBadRequest("binding target must be a Node")
	}
	cur.Spec.NodeName = b.Target.Name
	if err := w.Raw.Update(ctx, cur); err != nil {
		return err
	}
	w.mu.Lock()
	w.BindOK[ks]++
	w.BindTarget[ks] = append(w.BindTarget[ks], b.Target.Name)
	w.mu.Unlock()
	return nil
}

// claimReactor numbers the DRA plugin's clientset calls (get / update status of ResourceClaims).
func (w *World) claimReactor(action k8stesting.Action) (bool, runtime.Object, error) {
	verb := action.GetVerb()
	var name string
	mut := false
	switch a := action.(type) {
	case k8stesting.GetAction:
		name = a.GetName()
	case k8stesting.UpdateAction:
		if acc, err := meta.Accessor(a.GetObject()); err == nil {
			name = acc.GetName()
		}
		mut = true
	default:
		return false, nil, nil // list/watch by informers etc.: not a binder call
	}
	v := "claim-" + verb
	if action.GetSubresource() != "" {
		v += action.GetSubresource()
	}
	_, k := w.begin(v, "ResourceClaim "+action.GetNamespace()+"/"+name, mut)
	switch k {
	case Crash:
		return true, nil, errCrashed
	case Err:
		return true, nil, errInjected
	case Lost:
		if ua, ok := action.(k8stesting.UpdateAction); ok {
			_ = w.KC.Tracker().Update(action.GetResource(), ua.GetObject(), action.GetNamespace())
		}
		return true, nil, errInjected
	}
	return false, nil, nil // fall through to the object tracker
}

// ------------------------------------------------------------------ process image

// Proc is one binder process image: everything that lives in the binder's memory.
type Proc struct {
	W       *World
	RRS     resourcereservation.Interface
	Binder  *binding.Binder
	BR      *controllers.BindRequestReconciler
	PodCtl  *controllers.PodReconciler
	Plugins *plugins.BinderPlugins
}

// AllocationTimeout is long on purpose: the pre-filled watcher always answers first.
const AllocationTimeout = 24 * time.Hour

// NewProc constructs a fresh process image exactly as cmd/binder does (app.New + main.registerPlugins).
func (w *World) NewProc() *Proc {
	c := w.Client()
	rrs := resourcereservation.NewService(false, c, "reservation-image", AllocationTimeout,
		ResNS, ResNS, ResNS, ScaleNS, constants.DefaultRuntimeClassName, nil)
	kube := draversionawareclient.NewDRAAwareClient(w.KC)
	factory := informers.NewSharedInformerFactory(kube, 0)
	bp := plugins.New()
	k8sp, err := k8s_plugins.New(kube, factory, 5)
	if err != nil {
		panic(fmt.Errorf("k8s_plugins.New: %w", err))
	}
	bp.RegisterPlugin(k8sp)
	bp.RegisterPlugin(gpusharing.New(c, false))
	b := binding.NewBinder(c, rrs, bp)
	params := &controllers.ReconcilerParams{MaxConcurrentReconciles: 1, RateLimiterBaseDelaySeconds: 1, RateLimiterMaxDelaySeconds: 1}
	rec := controllers.NewBindRequestReconciler(c, w.Scheme, &record.FakeRecorder{}, params, &phaseMarker{w: w, inner: b}, rrs)
	pc := &controllers.PodReconciler{Client: c, Scheme: w.Scheme, ResourceReservation: rrs, SchedulerName: SchedulerName}
	return &Proc{W: w, RRS: rrs, Binder: b, BR: rec, PodCtl: pc, Plugins: bp}
}

// phaseMarker is a pure observer between the reconciler and the real Binder: it records at which
// call index Bind ended and Rollback began/ended (the oracles need to know whether a deviation hit
// the rollback itself). It changes nothing.
type phaseMarker struct {
	w     *World
	inner binding.Interface
}

func (m *phaseMarker) Bind(ctx context.Context, pod *v1.Pod, node *v1.Node, br *schedulingv1alpha2.BindRequest) error {
	m.w.mark("bind-begin")
	err := m.inner.Bind(ctx, pod, node, br)
	m.w.mark("bind-end")
	return err
}

func (m *phaseMarker) Rollback(ctx context.Context, pod *v1.Pod, node *v1.Node, br *schedulingv1alpha2.BindRequest) error {
	m.w.mark("rollback-begin")
	err := m.inner.Rollback(ctx, pod, node, br)
	m.w.mark("rollback-end")
	return err
}

// Mark is a phase boundary: At = number of calls made before it.
type Mark struct {
	What   string
	At     int
	Thread int
}

func (w *World) mark(what string) {
	w.mu.Lock()
	w.Marks = append(w.Marks, Mark{What: what, At: len(w.Trace), Thread: w.thread()})
	w.mu.Unlock()
}

// Reconcile runs the real BindRequest reconcile for the BR named like the pod.
func (p *Proc) Reconcile(name string) (ctrl.Result, error) {
	return p.BR.Reconcile(context.Background(), ctrl.Request{NamespacedName: client.ObjectKey{Namespace: NS, Name: name}})
}

// ReconcileNS reconciles a BindRequest of any namespace (end-to-end runs use the scheduler's namespace).
func (p *Proc) ReconcileNS(ns, name string) (ctrl.Result, error) {
	return p.BR.Reconcile(context.Background(), ctrl.Request{NamespacedName: client.ObjectKey{Namespace: ns, Name: name}})
}

// SeedNames makes the random suffixes of reservation pods reproducible.
func SeedNames(seed int64) { utilrand.Seed(seed) }

// TraceStrings renders a trace slice.
func TraceStrings(t []Call) []string {
	out := make([]string, len(t))
	for i, c := range t {
		out[i] = c.String()
	}
	return out
}

// MutatingCalls returns the mutating calls of trace[from:] that were applied (OK or Lost).
func MutatingCalls(t []Call, from int) []Call {
	var out []Call
	for _, c := range t[from:] {
		if c.Mut && (c.Dev == OK || c.Dev == Lost) {
			out = append(out, c)
		}
	}
	return out
}

func sortedKeys[V any](m map[string]V) []string {
	ks := make([]string, 0, len(m))
	for k := range m {
		ks = append(ks, k)
	}
	sort.Strings(ks)
	return ks
}

// Clone copies the store (objects incl. resource versions and UIDs) into a new World with an empty
// call log. Used by the explicit-state history search to branch from a quiescent state.
func (w *World) Clone() *World {
	var objs []client.Object
	pods := &v1.PodList{}
	must(w.Raw.List(bg, pods))
	for i := range pods.Items {
		objs = append(objs, &pods.Items[i])
	}
	nodes := &v1.NodeList{}
	must(w.Raw.List(bg, nodes))
	for i := range nodes.Items {
		objs = append(objs, &nodes.Items[i])
	}
	cms := &v1.ConfigMapList{}
	must(w.Raw.List(bg, cms))
	for i := range cms.Items {
		objs = append(objs, &cms.Items[i])
	}
	brs := &schedulingv1alpha2.BindRequestList{}
	must(w.Raw.List(bg, brs))
	for i := range brs.Items {
		objs = append(objs, &brs.Items[i])
	}
	var claims []*resourceapi.ResourceClaim
	if cl, err := w.KC.Tracker().List(resourceapi.SchemeGroupVersion.WithResource("resourceclaims"), resourceapi.SchemeGroupVersion.WithKind("ResourceClaim"), ""); err == nil {
		if l, ok := cl.(*resourceapi.ResourceClaimList); ok {
			for i := range l.Items {
				claims = append(claims, &l.Items[i])
			}
		}
	}
	return NewWorld(objs, claims)
}
