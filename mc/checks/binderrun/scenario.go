package binderrun

import (
	"fmt"
	"strings"

	v1 "k8s.io/api/core/v1"
	resourceapi "k8s.io/api/resource/v1"
	"sigs.k8s.io/controller-runtime/pkg/client"

	"verif/mc/maporder"
)

// Workload describes one pod together with the BindRequest the scheduler would write for it.
type Workload struct {
	Name     string   `json:"name"`
	Opts     PodOpts  `json:"opts"`
	Fraction bool     `json:"fraction"`
	Groups   []string `json:"groups,omitempty"`
	Count    int      `json:"count"`
	Portion  string   `json:"portion"`
	Backoff  *int32   `json:"backoff,omitempty"`
}

// Scenario = one node, a set of workloads; Pre are bound fault-free by the real binder during
// setup and then reported Running (so "existing group" states are produced by the real code, not
// hand-written); Target is the workload under test.
type Scenario struct {
	Name   string     `json:"name"`
	Node   string     `json:"node"`
	Pre    []Workload `json:"pre,omitempty"`
	Target Workload   `json:"target"`
	// Others exist (pod + spec) but get no BindRequest at setup (C17 histories create them).
	Others []Workload `json:"others,omitempty"`
}

func (wl *Workload) pod() *v1.Pod { return Pod(wl.Name, wl.Opts) }

// NewBR returns a fresh BindRequest object for the workload.
func (sc *Scenario) NewBR(wl *Workload) client.Object {
	return BindRequest(wl.pod(), sc.Node, wl.Fraction, wl.Groups, wl.Count, wl.Portion, wl.Backoff)
}

// Build materialises the scenario: fresh store, fresh process image, Pre workloads bound by the
// real binder and set Running, the Target's BindRequest created (Pending). The call log is reset.
func (sc *Scenario) Build(seed int64, createTargetBR bool) (*World, *Proc, error) {
	maporder.Set(uint64(seed))
	SeedNames(seed + 1)
	objs := []client.Object{Node(sc.Node)}
	var claims []*resourceapi.ResourceClaim
	all := append(append(append([]Workload{}, sc.Pre...), sc.Target), sc.Others...)
	for i := range all {
		objs = append(objs, all[i].pod())
		if all[i].Opts.Claim != "" {
			if all[i].Opts.ClaimShared {
				claims = append(claims, SharedClaim(all[i].Opts.Claim, sc.Node))
			} else {
				claims = append(claims, Claim(all[i].Opts.Claim))
			}
		}
	}
	w := NewWorld(objs, claims)
	p := w.NewProc()
	for i := range sc.Pre {
		w.EnvCreate(sc.NewBR(&sc.Pre[i]))
		if _, err := p.Reconcile(sc.Pre[i].Name); err != nil {
			return nil, nil, fmt.Errorf("setup bind of %s failed: %v\n%s", sc.Pre[i].Name, err, strings.Join(TraceStrings(w.Trace), "\n"))
		}
		// the BR status update triggers one more (no-op) reconcile in the real system
		if _, err := p.Reconcile(sc.Pre[i].Name); err != nil {
			return nil, nil, fmt.Errorf("setup re-reconcile of %s failed: %v", sc.Pre[i].Name, err)
		}
		if pod := w.GetPod(sc.Pre[i].Name); pod == nil || pod.Spec.NodeName != sc.Node {
			return nil, nil, fmt.Errorf("setup: %s not bound", sc.Pre[i].Name)
		}
		w.EnvSetPhase(sc.Pre[i].Name, v1.PodRunning)
	}
	if createTargetBR {
		w.EnvCreate(sc.NewBR(&sc.Target))
	}
	w.Trace = nil
	return w, p, nil
}

// C11Scenarios are the pod kinds of property C11.
func C11Scenarios(tier string) []Scenario {
	pre := Workload{Name: "c0", Opts: PodOpts{Fraction: "0.3"}, Fraction: true, Groups: []string{"g1"}, Count: 1, Portion: "0.30"}
	two := int32(2)
	s := []Scenario{
		{Name: "whole-gpu", Node: "node-1", Target: Workload{Name: "t", Opts: PodOpts{WholeGPUs: 1}, Count: 1, Portion: "0.00"}},
		{Name: "fraction-new-group", Node: "node-1", Target: Workload{Name: "t", Opts: PodOpts{Fraction: "0.5"}, Fraction: true, Groups: []string{"g1"}, Count: 1, Portion: "0.50"}},
		{Name: "fraction-join-group", Node: "node-1", Pre: []Workload{pre}, Target: Workload{Name: "t", Opts: PodOpts{Fraction: "0.5"}, Fraction: true, Groups: []string{"g1"}, Count: 1, Portion: "0.50"}},
		{Name: "gpu-memory", Node: "node-1", Target: Workload{Name: "t", Opts: PodOpts{GPUMemory: "4096"}, Fraction: true, Groups: []string{"g1"}, Count: 1, Portion: "0.25"}},
		{Name: "multi-fraction-x2", Node: "node-1", Target: Workload{Name: "t", Opts: PodOpts{Fraction: "0.5", NumDevices: "2"}, Fraction: true, Groups: []string{"g1", "g2"}, Count: 2, Portion: "0.50"}},
		{Name: "fraction-init-container", Node: "node-1", Target: Workload{Name: "t", Opts: PodOpts{Fraction: "0.5", InitContainer: "gpu-init"}, Fraction: true, Groups: []string{"g1"}, Count: 1, Portion: "0.50"}},
		{Name: "dra-claim", Node: "node-1", Target: Workload{Name: "t", Opts: PodOpts{Claim: "claim-t"}, Count: 0, Portion: "0.00"}},
		{Name: "dra-shared-claim", Node: "node-1", Target: Workload{Name: "t", Opts: PodOpts{Claim: "claim-t", ClaimShared: true}, Count: 0, Portion: "0.00"}},
		// a GPU fraction AND a DRA claim: two plugins with side effects of their own
		{Name: "fraction-dra-claim", Node: "node-1", Target: Workload{Name: "t", Opts: PodOpts{Fraction: "0.5", Claim: "claim-t"}, Fraction: true, Groups: []string{"g1"}, Count: 1, Portion: "0.50"}},
		{Name: "fraction-new-group-backoff2", Node: "node-1", Target: Workload{Name: "t", Opts: PodOpts{Fraction: "0.5"}, Fraction: true, Groups: []string{"g1"}, Count: 1, Portion: "0.50", Backoff: &two}},
	}
	if tier == "thorough" {
		s = append(s,
			Scenario{Name: "multi-fraction-x2-join-one", Node: "node-1", Pre: []Workload{pre}, Target: Workload{Name: "t", Opts: PodOpts{Fraction: "0.5", NumDevices: "2"}, Fraction: true, Groups: []string{"g1", "g2"}, Count: 2, Portion: "0.50"}},
		)
	}
	return s
}
