// Package syncshim is what the O-groupmutex build overlay substitutes for the "sync" import of
// /repo/pkg/binder/binding/resourcereservation/group_mutex/group_mutex.go.
//
// Without an installed scheduler hook the Mutex is a plain sync.Mutex (C11, C17 histories, and the
// optional free-running pass). With a hook (C17 interleavings) every Lock/Unlock is reported to the
// cooperative scheduler, which decides who runs; the inner sync.Mutex is then never contended.
package syncshim

import (
	"sync"
	"sync/atomic"
)

// Hooks is installed by the cooperative scheduler. Only one goroutine runs at a time while a hook
// is installed, so the shim needs no locking of its own.
type Hooks interface {
	// Lock blocks the calling goroutine until the scheduler grants it the mutex.
	Lock(m *Mutex)
	// Unlock releases the mutex and yields.
	Unlock(m *Mutex)
}

var hooks atomic.Value // of hookBox

type hookBox struct{ h Hooks }

// Install sets (or clears, with nil) the scheduler hook.
func Install(h Hooks) { hooks.Store(hookBox{h}) }

func current() Hooks {
	if b, ok := hooks.Load().(hookBox); ok {
		return b.h
	}
	return nil
}

// LockOps counts Lock calls (any mode): proves at run time that the overlay is active.
var LockOps atomic.Int64

// Mutex mirrors sync.Mutex's API (zero value usable, composite literal `sync.Mutex{}` compiles).
type Mutex struct {
	mu sync.Mutex
	// Owner is managed by the scheduler hook (0 = free, else thread id + 1).
	Owner int
	// ID is assigned by the scheduler hook on first use (stable naming in traces).
	ID int
}

func (m *Mutex) Lock() {
	LockOps.Add(1)
	if h := current(); h != nil {
		h.Lock(m)
		return
	}
	m.mu.Lock()
}

func (m *Mutex) Unlock() {
	if h := current(); h != nil {
		h.Unlock(m)
		return
	}
	m.mu.Unlock()
}

// TryLock is not used by group_mutex.go; provided for API completeness.
func (m *Mutex) TryLock() bool {
	if h := current(); h != nil {
		if m.Owner != 0 {
			return false
		}
		h.Lock(m)
		return true
	}
	return m.mu.TryLock()
}

// ---- the rest of package sync's API, so that the one-line import rewrite keeps compiling whatever
// group_mutex.go (or a changed version of it) uses. Only the lock types are scheduler-aware.

type (
	Map       = sync.Map
	Once      = sync.Once
	WaitGroup = sync.WaitGroup
	Pool      = sync.Pool
	Cond      = sync.Cond
	Locker    = sync.Locker
)

func NewCond(l Locker) *Cond { return sync.NewCond(l) }
func OnceFunc(f func()) func() { return sync.OnceFunc(f) }
func OnceValue[T any](f func() T) func() T { return sync.OnceValue(f) }
func OnceValues[T1, T2 any](f func() (T1, T2)) func() (T1, T2) { return sync.OnceValues(f) }

// RWMutex: readers are treated as writers (exclusive). Under the cooperative scheduler this only
// removes reader/reader overlap, which cannot change what a reader observes.
type RWMutex struct{ m Mutex }

func (rw *RWMutex) Lock()          { rw.m.Lock() }
func (rw *RWMutex) Unlock()        { rw.m.Unlock() }
func (rw *RWMutex) RLock()         { rw.m.Lock() }
func (rw *RWMutex) RUnlock()       { rw.m.Unlock() }
func (rw *RWMutex) TryLock() bool  { return rw.m.TryLock() }
func (rw *RWMutex) TryRLock() bool { return rw.m.TryLock() }
func (rw *RWMutex) RLocker() Locker { return rlocker{rw} }

type rlocker struct{ rw *RWMutex }

func (r rlocker) Lock()   { r.rw.RLock() }
func (r rlocker) Unlock() { r.rw.RUnlock() }
