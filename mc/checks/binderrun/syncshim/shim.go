package syncshim

import "sync"

type Mutex struct{ mu sync.Mutex }

var Locks int

func (m *Mutex) Lock()   { Locks++; m.mu.Lock() }
func (m *Mutex) Unlock() { m.mu.Unlock() }
