package c09

import (
	"fmt"
	"time"

	metav1 "k8s.io/apimachinery/pkg/apis/meta/v1"

	"github.com/NVIDIA/KAI-scheduler/pkg/scheduler/api/common_info"
	"github.com/NVIDIA/KAI-scheduler/pkg/scheduler/plugins/proportion/resource_division"
	rs "github.com/NVIDIA/KAI-scheduler/pkg/scheduler/plugins/proportion/resource_share"

	"verif/mc/maporder"
)

// The three resources SetResourcesShare divides and the factor from natural units (GPUs, cores,
// MB) to the raw unit the scheduler stores (GPU devices, milli-CPU, bytes; see
// proportion.go createQueueResourceAttrs: memory quota*mebibytes, utils.QuantifyResource: Cpu()
// is milli-CPU, Memory() is bytes). The division code floors to / hands out 1 RAW unit for every
// resource, so the rounding unit is 1 GPU, 1 milli-CPU, 1 byte.
var resNames = [3]rs.ResourceName{rs.GpuResource, rs.CpuResource, rs.MemoryResource}
var resLabel = [3]string{"GPU", "CPU", "Memory"}
var resScale = [3]float64{1, 1000, 1000 * 1000}

// Shares[i][r] = fair share of queue i for resource r (raw units).
type Shares [][3]float64

type evaluator struct {
	n     int
	perms [][]int
	qa    []*rs.QueueAttributes
	maps  []map[common_info.QueueID]*rs.QueueAttributes // one per insertion order, built once
	evals int64
}

var baseTime = time.Date(2024, 1, 1, 0, 0, 0, 0, time.UTC)

func qid(i int) common_info.QueueID { return common_info.QueueID(fmt.Sprintf("q%d", i)) }

func newEvaluator(n int) *evaluator {
	e := &evaluator{n: n, perms: permutations(n)}
	for i := 0; i < n; i++ {
		e.qa = append(e.qa, &rs.QueueAttributes{UID: qid(i), Name: string(qid(i))})
	}
	maporder.Set(0)
	for _, p := range e.perms {
		m := map[common_info.QueueID]*rs.QueueAttributes{}
		for _, i := range p {
			m[qid(i)] = e.qa[i]
		}
		e.maps = append(e.maps, m)
	}
	return e
}

// probeMapOrder asserts that the harness really owns the iteration order of the queue maps:
// under seed s the map built in insertion order p iterates as p rotated left by s (mod n), and
// seeds >= n behave like seed 0. Returns an error (harness error, exit 2) otherwise.
func (e *evaluator) probeMapOrder() error {
	for rep := 0; rep < 3; rep++ {
		for pi, p := range e.perms {
			for s := 0; s < 8; s++ {
				maporder.Set(uint64(s))
				var got []int
				for id := range e.maps[pi] {
					for i := 0; i < e.n; i++ {
						if id == qid(i) {
							got = append(got, i)
						}
					}
				}
				rot := 0
				if s < e.n {
					rot = s
				}
				for j := range p {
					if got[j] != p[(j+rot)%e.n] {
						return fmt.Errorf("map order not owned: n=%d insertion=%v seed=%d iterated=%v", e.n, p, s, got)
					}
				}
			}
		}
	}
	maporder.Set(0)
	return nil
}

func share(q QP, s float64) rs.ResourceShare {
	d, l := q.D, q.L
	if d != -1 {
		d *= s
	}
	if l != -1 {
		l *= s
	}
	return rs.ResourceShare{Deserved: d, MaxAllowed: l, OverQuotaWeight: q.W, Request: q.R * s, Usage: q.U}
}

// eval calls the real resource_division.SetResourcesShare on the queue map built in insertion
// order o.Perm, iterated under map seed o.Seed, with tie-break variant o.TB:
// TB 0: all creation timestamps equal (ties in the remainder hand-out fall to the smaller UID);
// TB 1: queue i created (n-i) seconds after base, i.e. the LAST queue is the oldest and wins ties.
func (e *evaluator) eval(total, k float64, qs []QP, o order, out Shares) {
	for i, q := range qs {
		var ts metav1.Time
		if o.TB == 1 {
			ts = metav1.NewTime(baseTime.Add(time.Duration(e.n-i) * time.Second))
		}
		*e.qa[i] = rs.QueueAttributes{
			UID: qid(i), Name: string(qid(i)), Priority: q.P, CreationTimestamp: ts,
			QueueResourceShare: rs.QueueResourceShare{
				GPU: share(q, resScale[0]), CPU: share(q, resScale[1]), Memory: share(q, resScale[2]),
			},
		}
	}
	maporder.Set(uint64(o.Seed)) // global state, other code (tree blocks) also sets it: never cache
	tot := rs.NewResourceQuantities(total*resScale[1], total*resScale[2], total*resScale[0])
	resource_division.SetResourcesShare(tot, k, e.maps[o.Perm])
	e.evals++
	for i := range qs {
		out[i][0] = e.qa[i].GPU.FairShare
		out[i][1] = e.qa[i].CPU.FairShare
		out[i][2] = e.qa[i].Memory.FairShare
	}
}
