package c09

import (
	"testing"

	"github.com/NVIDIA/KAI-scheduler/pkg/scheduler/api/common_info"
	"github.com/NVIDIA/KAI-scheduler/pkg/scheduler/plugins/proportion/resource_division"
	rs "github.com/NVIDIA/KAI-scheduler/pkg/scheduler/plugins/proportion/resource_share"
)

func BenchmarkCall3(b *testing.B) {
	qs := map[common_info.QueueID]*rs.QueueAttributes{}
	for _, id := range []string{"q0", "q1", "q2"} {
		qs[common_info.QueueID(id)] = &rs.QueueAttributes{UID: common_info.QueueID(id), Name: id}
	}
	tot := rs.NewResourceQuantities(7000, 7e6, 7)
	for i := 0; i < b.N; i++ {
		for _, q := range qs {
			q.GPU = rs.ResourceShare{Deserved: 1, MaxAllowed: -1, OverQuotaWeight: 1, Request: 5}
			q.CPU = rs.ResourceShare{Deserved: 1000, MaxAllowed: -1, OverQuotaWeight: 1, Request: 5000}
			q.Memory = rs.ResourceShare{Deserved: 1e6, MaxAllowed: -1, OverQuotaWeight: 1, Request: 5e6}
		}
		resource_division.SetResourcesShare(tot, 1, qs)
	}
}
