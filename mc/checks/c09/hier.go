package c09

import (
	"fmt"
	"math"
	"strconv"

	"github.com/prometheus/client_golang/prometheus"
	v1 "k8s.io/api/core/v1"

	commonconstants "github.com/NVIDIA/KAI-scheduler/pkg/common/constants"
	"github.com/NVIDIA/KAI-scheduler/pkg/scheduler/api"
	"github.com/NVIDIA/KAI-scheduler/pkg/scheduler/api/common_info"
	"github.com/NVIDIA/KAI-scheduler/pkg/scheduler/api/node_info"
	"github.com/NVIDIA/KAI-scheduler/pkg/scheduler/api/pod_info"
	"github.com/NVIDIA/KAI-scheduler/pkg/scheduler/api/pod_status"
	"github.com/NVIDIA/KAI-scheduler/pkg/scheduler/api/podgroup_info"
	"github.com/NVIDIA/KAI-scheduler/pkg/scheduler/api/queue_info"
	"github.com/NVIDIA/KAI-scheduler/pkg/scheduler/api/resource_info"
	"github.com/NVIDIA/KAI-scheduler/pkg/scheduler/conf"
	"github.com/NVIDIA/KAI-scheduler/pkg/scheduler/framework"
	"github.com/NVIDIA/KAI-scheduler/pkg/scheduler/plugins/proportion"

	"verif/mc/maporder"
)

// Hierarchy: "children divide their parent's fair share". The level-by-level walk
// (proportionPlugin.setFairShareForQueues) is unexported, so it is reached through the real plugin's
// OnSessionOpen on a hand-built framework.Session: one ready node carrying the cluster total,
// QueueInfos forming the tree, one pending pod per leaf queue carrying that leaf's request (the
// plugin itself aggregates requests up the tree), per-queue historical usage, kValue as plugin
// argument. Fair shares are observed where the anchors say: Session.QueueFairShare (exact for CPU
// and memory; it truncates fractional GPU counts >= 1) and the kai queue_fair_share_gpu gauge
// (exact GPU).

// TQ is one queue of a tree. Parent = index of the parent in Tree.Q or -1. Request is only
// meaningful for leaves.
type TQ struct {
	QP
	Parent int `json:"parent"`
}

type Tree struct {
	Shape string  `json:"shape"`
	Total float64 `json:"total"`
	K     float64 `json:"k"`
	Q     []TQ    `json:"queues"`
}

// horder: insertion order of the session's queue map (permutation index over all queues is too
// many; we use identity / reversed), whether every ChildQueues slice is reversed, map seed.
type horder struct {
	RevQueues   bool `json:"reverse_queue_map_insertion"`
	RevChildren bool `json:"reverse_child_lists"`
	Seed        int  `json:"map_seed"`
}

func tqid(i int) common_info.QueueID { return common_info.QueueID("t" + strconv.Itoa(i)) }

func (t *Tree) children(p int) []int {
	var out []int
	for i, q := range t.Q {
		if q.Parent == p {
			out = append(out, i)
		}
	}
	return out
}

// aggregated request of queue i in natural units (sum over leaves below it), computed by the
// harness independently of the plugin.
func (t *Tree) request(i int) float64 {
	ch := t.children(i)
	if len(ch) == 0 {
		return t.Q[i].R
	}
	s := 0.0
	for _, c := range ch {
		s += t.request(c)
	}
	return s
}

func quota(v, scale float64) float64 {
	if v == -1 {
		return commonconstants.UnlimitedResourceQuantity
	}
	return v * scale
}

var gaugeFamily = "queue_fair_share_gpu" // registered by metrics.init() with an empty namespace

// evalTree runs the real proportion plugin and returns the observed fair share per queue.
func evalTree(t *Tree, o horder) (Shares, error) {
	maporder.Set(uint64(o.Seed))
	ci := api.NewClusterInfo()
	n := len(t.Q)
	idx := make([]int, n)
	for i := range idx {
		idx[i] = i
		if o.RevQueues {
			idx[i] = n - 1 - i
		}
	}
	infos := make([]*queue_info.QueueInfo, n)
	for _, i := range idx {
		q := t.Q[i]
		qi := &queue_info.QueueInfo{UID: tqid(i), Name: string(tqid(i)), Priority: q.P}
		if q.Parent >= 0 {
			qi.ParentQueue = tqid(q.Parent)
		}
		ch := t.children(i)
		if o.RevChildren {
			for a, b := 0, len(ch)-1; a < b; a, b = a+1, b-1 {
				ch[a], ch[b] = ch[b], ch[a]
			}
		}
		for _, c := range ch {
			qi.ChildQueues = append(qi.ChildQueues, tqid(c))
		}
		// QueueInfo units: GPU devices, milli-CPU, memory in MB (the plugin multiplies by 10^6)
		qi.Resources = queue_info.QueueQuota{
			GPU:    queue_info.ResourceQuota{Quota: quota(q.D, 1), Limit: quota(q.L, 1), OverQuotaWeight: q.W},
			CPU:    queue_info.ResourceQuota{Quota: quota(q.D, 1000), Limit: quota(q.L, 1000), OverQuotaWeight: q.W},
			Memory: queue_info.ResourceQuota{Quota: quota(q.D, 1), Limit: quota(q.L, 1), OverQuotaWeight: q.W},
		}
		infos[i] = qi
		ci.Queues[qi.UID] = qi
		ci.QueueResourceUsage.Queues[qi.UID] = queue_info.QueueUsage{
			commonconstants.NvidiaGpuResource: q.U, v1.ResourceCPU: q.U, v1.ResourceMemory: q.U,
		}
		if len(ch) == 0 && q.R > 0 {
			pg := &podgroup_info.PodGroupInfo{
				UID: common_info.PodGroupID("pg" + strconv.Itoa(i)), Name: "pg" + strconv.Itoa(i), Queue: qi.UID,
				PodStatusIndex: map[pod_status.PodStatus]pod_info.PodsMap{
					pod_status.Pending: {
						common_info.PodID("p" + strconv.Itoa(i)): &pod_info.PodInfo{
							UID:    common_info.PodID("p" + strconv.Itoa(i)),
							Status: pod_status.Pending,
							ResReq: resource_info.NewResourceRequirements(q.R, q.R*resScale[1], q.R*resScale[2]),
						},
					},
				},
			}
			ci.PodGroupInfos[pg.UID] = pg
		}
	}
	ci.Nodes["n1"] = &node_info.NodeInfo{
		Name:        "n1",
		Node:        &v1.Node{Status: v1.NodeStatus{Conditions: []v1.NodeCondition{{Type: v1.NodeReady, Status: v1.ConditionTrue}}}},
		Allocatable: resource_info.NewResource(t.Total*resScale[1], t.Total*resScale[2], t.Total),
		PodInfos:    map[common_info.PodID]*pod_info.PodInfo{},
	}
	ssn := &framework.Session{ClusterInfo: ci, SchedulerParams: conf.SchedulerParams{SchedulerName: "kai-scheduler"}}
	plugin := proportion.New(framework.PluginArguments{"kValue": strconv.FormatFloat(t.K, 'g', -1, 64)})
	plugin.OnSessionOpen(ssn)

	out := make(Shares, n)
	for i := 0; i < n; i++ {
		fs := ssn.QueueFairShare(infos[i])
		if fs == nil {
			return nil, fmt.Errorf("QueueFairShare returned nil for %s", infos[i].Name)
		}
		out[i][0] = fs.GetGpusQuota() // lossy for fractional values >= 1; replaced below
		out[i][1] = fs.Cpu()
		out[i][2] = fs.Memory()
	}
	names := make([]string, n)
	for i := range names {
		names[i] = string(tqid(i))
	}
	g, err := gatherGauge(gaugeFamily, names)
	if err != nil {
		return nil, err
	}
	for i := 0; i < n; i++ {
		val, ok := g[string(tqid(i))]
		if !ok {
			return nil, fmt.Errorf("gauge %s has no sample for queue %s", gaugeFamily, tqid(i))
		}
		// cross-check the two observation points: the session value is the gauge value with
		// fractional GPU counts >= 1 truncated
		want := val
		if val >= 1 {
			want = math.Trunc(val)
		}
		if val >= 0 && math.Abs(want-out[i][0]) > 1e-9 { // (a negative share only shows up in the gauge; the laws reject it)
			return nil, fmt.Errorf("observers disagree for %s: gauge %v session %v", tqid(i), val, out[i][0])
		}
		out[i][0] = val
	}
	plugin.OnSessionClose(ssn)
	return out, nil
}

// gpuGauge returns the real queue_fair_share_gpu GaugeVec of the scheduler's metrics package. It is
// unexported there; registering a vector with the identical descriptor makes the default registry
// hand back the existing collector.
var gpuGaugeVec *prometheus.GaugeVec

func gpuGauge() (*prometheus.GaugeVec, error) {
	if gpuGaugeVec != nil {
		return gpuGaugeVec, nil
	}
	probe := prometheus.NewGaugeVec(prometheus.GaugeOpts{Name: gaugeFamily,
		Help: "GPU Fair share of queue, as a gauge. Values in GPU devices"}, []string{"queue_name"})
	err := prometheus.DefaultRegisterer.Register(probe)
	if are, ok := err.(prometheus.AlreadyRegisteredError); ok {
		if gv, ok := are.ExistingCollector.(*prometheus.GaugeVec); ok {
			gpuGaugeVec = gv
			return gv, nil
		}
	}
	if err == nil {
		prometheus.DefaultRegisterer.Unregister(probe)
	}
	return nil, fmt.Errorf("cannot reach the scheduler's %s gauge (register returned %v)", gaugeFamily, err)
}

// newMetric allocates a client_model Metric without importing that module directly (it is only an
// indirect requirement of the harness module; naming it would make the go tool rewrite go.mod).
func newOf[T any](_ func(*T) error) *T { return new(T) }

func gatherGauge(name string, queues []string) (map[string]float64, error) {
	gv, err := gpuGauge()
	if err != nil {
		return nil, err
	}
	out := map[string]float64{}
	for _, q := range queues {
		g, err := gv.GetMetricWithLabelValues(q)
		if err != nil {
			return nil, err
		}
		m := newOf(g.Write)
		if err := g.Write(m); err != nil {
			return nil, err
		}
		out[q] = m.GetGauge().GetValue()
	}
	return out, nil
}

// checkTree applies the flat laws to every sibling set of the tree, with the parent's OBSERVED
// fair share as the total being divided (cluster total for the top level), plus law (h).
func checkTree(t *Tree, sh Shares, cnt *lawCounter) []finding {
	var out []finding
	parents := []int{-1}
	for i := range t.Q {
		if len(t.children(i)) > 0 {
			parents = append(parents, i)
		}
	}
	for _, p := range parents {
		ch := t.children(p)
		qs := make([]QP, len(ch))
		csh := make(Shares, len(ch))
		for j, c := range ch {
			qs[j] = t.Q[c].QP
			qs[j].R = t.request(c)
			csh[j] = sh[c]
		}
		for r := 0; r < 3; r++ {
			total := t.Total
			if p >= 0 {
				total = sh[p][r] / resScale[r]
			}
			v := mkView(total, t.K, qs, csh, r)
			fs, _, d := checkLaws(v, r, cnt)
			for _, f := range fs {
				f.Detail = fmt.Sprintf("children of %s (dividing %v): %s", pname(p), v.total, f.Detail)
				out = append(out, f)
			}
			if p >= 0 {
				cnt[7]++
				sum, sumD := 0.0, 0.0
				for j := range ch {
					sum += v.fs[j]
					sumD += d.dpart[j]
				}
				if sum > math.Max(v.total, sumD)+v.eps {
					out = append(out, finding{Law: lawNames[7], Res: r, Detail: fmt.Sprintf(
						"children of %s received %v in total, parent's fair share is %v (children's quota parts sum to %v)", pname(p), sum, v.total, sumD)})
				}
			}
		}
	}
	return out
}

func pname(p int) string {
	if p < 0 {
		return "<cluster>"
	}
	return string(tqid(p))
}

// ---------------------------------------------------------------- tree lattices

type treeLattice struct {
	Name     string    `json:"name"`
	Shape    string    `json:"shape"`
	Totals   []float64 `json:"totals"`
	Ks       []float64 `json:"k_values"`
	Inner    []QP      `json:"-"` // tuples for queues that have children (request ignored)
	Leaf     []QP      `json:"-"`
	InnerDim string    `json:"inner_queue_lattice"`
	LeafDim  string    `json:"leaf_queue_lattice"`
	Orders   []horder  `json:"orders"`
}

func tuplesOf(des, lim, wt []float64, prio []int, req, use []float64) []QP {
	l := Lattice{Des: des, Lim: lim, Wt: wt, Prio: prio, Req: req, Use: use}
	return l.Tuples()
}

var hordersQuick = []horder{{false, false, 0}, {true, true, 0}, {false, true, 1}}
var hordersFull = []horder{{false, false, 0}, {true, false, 0}, {false, true, 0}, {true, true, 0}, {false, false, 1}, {true, true, 1}, {false, true, 2}}

// shapes:
//
//	"1-2"   : one top queue with two leaf children
//	"2-21"  : two top queues; the first has two leaf children, the second one leaf child
//	"1-1-2" : top -> mid -> two leaves (3 levels)
//	"1-3"   : one top queue with three leaf children (thorough)
func treeLattices(tier string) []treeLattice {
	leafQ := tuplesOf([]float64{0, 1}, []float64{-1, 1}, fullWt, fullPrio, []float64{.5, 2, 5}, []float64{0})
	leafDim := "deserved{0,1} x limit{-1,1} x weight{0,1,2} x priority{0,1} x request{.5,2,5} x usage{0}"
	innerQ := tuplesOf([]float64{0, 1, -1}, []float64{-1, 3}, []float64{1}, []int{0}, []float64{0}, []float64{0})
	innerDim := "deserved{0,1,-1} x limit{-1,3} x weight{1} x priority{0}"
	tot := []float64{.5, 1, 3, 4, 7}
	if tier != "thorough" {
		leafS := tuplesOf([]float64{0, 1}, []float64{-1}, []float64{1, 2}, fullPrio, []float64{.5, 5}, []float64{0})
		leafSDim := "deserved{0,1} x limit{-1} x weight{1,2} x priority{0,1} x request{.5,5} x usage{0}"
		leafU := tuplesOf([]float64{0, 1}, []float64{-1}, []float64{1, 2}, []int{0}, []float64{.5, 5}, fullUse)
		leafUDim := "deserved{0,1} x limit{-1} x weight{1,2} x priority{0} x request{.5,5} x usage{0,.5}"
		inner2 := tuplesOf([]float64{0, 1}, []float64{-1}, []float64{1, 2}, fullPrio, []float64{0}, []float64{0})
		inner2Dim := "deserved{0,1} x limit{-1} x weight{1,2} x priority{0,1}"
		leaf2 := tuplesOf([]float64{0, 1}, []float64{-1}, []float64{1, 2}, []int{0}, []float64{.5, 5}, []float64{0})
		leaf2Dim := "deserved{0,1} x limit{-1} x weight{1,2} x priority{0} x request{.5,5} x usage{0}"
		return []treeLattice{
			{Name: "h-1-2", Shape: "1-2", Totals: tot, Ks: []float64{0}, Inner: innerQ, Leaf: leafQ, InnerDim: innerDim, LeafDim: leafDim, Orders: hordersQuick},
			{Name: "h-1-2-tbf", Shape: "1-2", Totals: []float64{1, 4, 7}, Ks: []float64{1, 2}, Inner: innerQ, Leaf: leafU, InnerDim: innerDim, LeafDim: leafUDim, Orders: hordersQuick},
			{Name: "h-2-21", Shape: "2-21", Totals: []float64{1, 4, 7}, Ks: []float64{0}, Inner: inner2, Leaf: leaf2, InnerDim: inner2Dim, LeafDim: leaf2Dim, Orders: hordersQuick},
			{Name: "h-1-1-2", Shape: "1-1-2", Totals: []float64{1, 4, 7}, Ks: []float64{0}, Inner: innerQ, Leaf: leafS, InnerDim: innerDim, LeafDim: leafSDim, Orders: hordersQuick},
		}
	}
	leafT := tuplesOf([]float64{0, 1, -1}, []float64{-1, 1}, fullWt, fullPrio, []float64{0, .5, 2, 5}, []float64{0})
	leafTDim := "deserved{0,1,-1} x limit{-1,1} x weight{0,1,2} x priority{0,1} x request{0,.5,2,5} x usage{0}"
	innerT := tuplesOf(fullDes, []float64{-1, 1, 3}, []float64{0, 1}, []int{0}, []float64{0}, []float64{0})
	innerTDim := "deserved{0,1,2,-1} x limit{-1,1,3} x weight{0,1} x priority{0}"
	leafU := tuplesOf([]float64{0, 1}, []float64{-1, 1}, fullWt, fullPrio, []float64{.5, 5}, fullUse)
	leafUDim := "deserved{0,1} x limit{-1,1} x weight{0,1,2} x priority{0,1} x request{.5,5} x usage{0,.5}"
	inner2 := tuplesOf([]float64{0, 1, -1}, []float64{-1}, []float64{1, 2}, fullPrio, []float64{0}, []float64{0})
	inner2Dim := "deserved{0,1,-1} x limit{-1} x weight{1,2} x priority{0,1}"
	leaf2 := tuplesOf([]float64{0, 1}, []float64{-1}, []float64{1, 2}, fullPrio, []float64{.5, 5}, []float64{0})
	leaf2Dim := "deserved{0,1} x limit{-1} x weight{1,2} x priority{0,1} x request{.5,5} x usage{0}"
	leafS := tuplesOf([]float64{0, 1}, []float64{-1, 1}, []float64{1, 2}, fullPrio, []float64{.5, 5}, []float64{0})
	leafSDim := "deserved{0,1} x limit{-1,1} x weight{1,2} x priority{0,1} x request{.5,5} x usage{0}"
	return []treeLattice{
		{Name: "h-1-2", Shape: "1-2", Totals: fullTotals, Ks: []float64{0}, Inner: innerT, Leaf: leafT, InnerDim: innerTDim, LeafDim: leafTDim, Orders: hordersFull},
		{Name: "h-1-2-tbf", Shape: "1-2", Totals: tot, Ks: []float64{1, 2}, Inner: innerQ, Leaf: leafU, InnerDim: innerDim, LeafDim: leafUDim, Orders: hordersFull},
		{Name: "h-2-21", Shape: "2-21", Totals: []float64{1, 4, 7}, Ks: []float64{0}, Inner: inner2, Leaf: leaf2, InnerDim: inner2Dim, LeafDim: leaf2Dim, Orders: hordersFull},
		{Name: "h-1-1-2", Shape: "1-1-2", Totals: tot, Ks: []float64{0}, Inner: innerQ, Leaf: leafQ, InnerDim: innerDim, LeafDim: leafDim, Orders: hordersFull},
		{Name: "h-1-3", Shape: "1-3", Totals: []float64{1, 3, 4, 7}, Ks: []float64{0}, Inner: innerQ, Leaf: leafS, InnerDim: innerDim, LeafDim: leafSDim, Orders: hordersFull},
	}
}

// enumTrees calls f for every tree of the lattice whose outer index is owned by this shard.
// Sibling leaves are enumerated as multisets (i <= j); which sibling is created first (hence
// wins remainder ties) is not varied here.
func (tl *treeLattice) enumTrees(shard, nshards int, stop func() bool, f func(t *Tree)) (skipped int64) {
	item := 0
	mine := func() bool {
		item++
		if (item-1)%nshards != shard {
			return false
		}
		if stop() {
			skipped++
			return false
		}
		return true
	}
	for _, tot := range tl.Totals {
		for _, k := range tl.Ks {
			switch tl.Shape {
			case "1-2", "1-3":
				for _, top := range tl.Inner {
					for a := range tl.Leaf {
						if !mine() {
							continue
						}
						for b := a; b < len(tl.Leaf); b++ {
							if tl.Shape == "1-2" {
								f(&Tree{tl.Shape, tot, k, []TQ{{top, -1}, {tl.Leaf[a], 0}, {tl.Leaf[b], 0}}})
								continue
							}
							for c := b; c < len(tl.Leaf); c++ {
								f(&Tree{tl.Shape, tot, k, []TQ{{top, -1}, {tl.Leaf[a], 0}, {tl.Leaf[b], 0}, {tl.Leaf[c], 0}}})
							}
						}
					}
				}
			case "1-1-2":
				for _, top := range tl.Inner {
					for _, mid := range tl.Inner {
						for a := range tl.Leaf {
							if !mine() {
								continue
							}
							for b := a; b < len(tl.Leaf); b++ {
								f(&Tree{tl.Shape, tot, k, []TQ{{top, -1}, {mid, 0}, {tl.Leaf[a], 1}, {tl.Leaf[b], 1}}})
							}
						}
					}
				}
			case "2-21":
				for i1, t1 := range tl.Inner {
					for i2 := 0; i2 < len(tl.Inner); i2++ {
						t2 := tl.Inner[i2]
						_ = i1
						for a := range tl.Leaf {
							if !mine() {
								continue
							}
							for b := a; b < len(tl.Leaf); b++ {
								for _, c := range tl.Leaf {
									f(&Tree{tl.Shape, tot, k, []TQ{{t1, -1}, {t2, -1}, {tl.Leaf[a], 0}, {tl.Leaf[b], 0}, {c, 1}}})
								}
							}
						}
					}
				}
			}
		}
	}
	return skipped
}
