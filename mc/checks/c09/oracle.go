package c09

import (
	"fmt"
	"math"
)

// finding is one law violated by one result.
type finding struct {
	Law    string // short law name, part of the violation key
	Res    int    // resource index
	Detail string
}

// lawNames in the order they are counted.
var lawNames = []string{"a-lower-bound", "b-upper-bound", "c-surplus-conservation", "d-surplus-left-undistributed",
	"e-priority-order", "f-weight-monotone", "g-order-independence", "h-children-divide-parent"}

type lawCounter [8]int64

// view is one resource of one division problem in raw units (rounding unit = 1).
type view struct {
	total  float64
	k      float64
	des    []float64 // deserved quota; unlimited -> total (weakest reading, see assumptions)
	capped []float64 // request capped by limit
	w, u   []float64
	prio   []int
	fs     []float64
	eps    float64
}

func mkView(total, k float64, qs []QP, sh Shares, r int) *view {
	s := resScale[r]
	v := &view{total: total * s, k: k, eps: 1e-9 * s}
	for i, q := range qs {
		d := q.D * s
		if q.D == -1 {
			d = v.total
		}
		c := q.R * s
		if q.L != -1 {
			c = math.Min(c, q.L*s)
		}
		v.des = append(v.des, d)
		v.capped = append(v.capped, c)
		v.w = append(v.w, q.W)
		v.u = append(v.u, q.U)
		v.prio = append(v.prio, q.P)
		v.fs = append(v.fs, sh[i][r])
	}
	return v
}

// derived quantities of a view
type derived struct {
	dpart      []float64 // min(deserved, capped request): the quota part of the lower bound
	surplus    []float64 // fair share beyond the quota part
	unsat      []bool    // fair share < capped request
	effPos     []bool    // unsatisfied AND positive effective over-quota weight (final state)
	avail      float64   // what is left after deserved quotas: max(0, total - sum dpart)
	sumSurplus float64
	leftover   float64
}

// effective over-quota weight (docs/developer/designs/time-based-fairshare): with W' = weight
// normalised over the NON-SATISFIED queues of the same priority and U' the capacity-normalised
// historical usage, P = max(0, W' + k*(W' - U')). Evaluated on the FINAL state (the weakest
// reading: a queue is only counted as "positive effective weight" if it still is once every
// queue that could be satisfied has dropped out of the normalisation).
func (v *view) derive() *derived {
	n := len(v.fs)
	d := &derived{dpart: make([]float64, n), surplus: make([]float64, n), unsat: make([]bool, n), effPos: make([]bool, n)}
	sumD := 0.0
	for i := 0; i < n; i++ {
		d.dpart[i] = math.Min(v.des[i], v.capped[i])
		sumD += d.dpart[i]
		d.surplus[i] = v.fs[i] - d.dpart[i]
		d.sumSurplus += math.Max(0, d.surplus[i])
		d.unsat[i] = v.capped[i]-v.fs[i] > v.eps
	}
	d.avail = math.Max(0, v.total-sumD)
	d.leftover = d.avail - d.sumSurplus
	for i := 0; i < n; i++ {
		if !d.unsat[i] || v.w[i] <= 0 {
			continue
		}
		tw := 0.0
		for j := 0; j < n; j++ {
			if v.prio[j] == v.prio[i] && d.unsat[j] {
				tw += v.w[j]
			}
		}
		wn := v.w[i] / tw
		d.effPos[i] = wn+v.k*(wn-v.u[i]) > 1e-12
	}
	return d
}

// checkLaws applies laws (a)-(f) of the statement to one resource of one result.
// tightE reports whether the stricter reading of (e) (one unit per UNSATISFIED higher-priority
// queue with positive effective weight) fails while the stated one holds - diagnostic only.
func checkLaws(v *view, r int, cnt *lawCounter) (out []finding, tightE bool, d *derived) {
	n := len(v.fs)
	d = v.derive()
	add := func(law, f string, a ...any) {
		out = append(out, finding{Law: law, Res: r, Detail: fmt.Sprintf(f, a...)})
	}
	for i := 0; i < n; i++ {
		// (a) fair share >= min(deserved, request capped by limit)
		cnt[0]++
		if v.fs[i] < d.dpart[i]-v.eps {
			add(lawNames[0], "queue q%d: fairShare %v < min(deserved %v, capped request %v)", i, v.fs[i], v.des[i], v.capped[i])
		}
		// (b) fair share exceeds the capped request by less than one rounding unit
		cnt[1]++
		if v.fs[i]-v.capped[i] >= 1-v.eps-1e-9 {
			add(lawNames[1], "queue q%d: fairShare %v exceeds capped request %v by %v >= 1 rounding unit", i, v.fs[i], v.capped[i], v.fs[i]-v.capped[i])
		}
	}
	// (c) surplus handed out never exceeds what is left after deserved quotas
	cnt[2]++
	if d.sumSurplus > d.avail+v.eps {
		add(lawNames[2], "surplus handed out %v > left after deserved quotas %v (total %v, quota parts %v, shares %v)", d.sumSurplus, d.avail, v.total, d.dpart, v.fs)
	}
	// (d) surplus stays undistributed only if every queue with positive effective weight is satisfied
	cnt[3]++
	if d.leftover > v.eps {
		for i := 0; i < n; i++ {
			if d.effPos[i] {
				add(lawNames[3], "surplus %v left undistributed while queue q%d (weight %v, usage %v, k %v) is unsatisfied: fairShare %v < capped request %v", d.leftover, i, v.w[i], v.u[i], v.k, v.fs[i], v.capped[i])
				break
			}
		}
	}
	// (e) while a higher priority is unsatisfied, all lower priorities together receive less than
	// one unit per higher-priority queue
	for i := 0; i < n; i++ {
		if !d.effPos[i] {
			continue
		}
		ph := v.prio[i]
		first := true
		for j := 0; j < i; j++ {
			if d.effPos[j] && v.prio[j] == ph {
				first = false
			}
		}
		if !first {
			continue
		}
		low, higher, higherUnsat := 0.0, 0, 0
		for j := 0; j < n; j++ {
			if v.prio[j] < ph {
				low += math.Max(0, d.surplus[j])
			} else {
				higher++
				if d.effPos[j] {
					higherUnsat++
				}
			}
		}
		cnt[4]++
		if low >= float64(higher)-v.eps-1e-9 && low > v.eps {
			add(lawNames[4], "priority %d queue q%d is unsatisfied (fairShare %v < %v) but lower priorities received surplus %v >= %d (one unit per queue of priority >= %d); shares %v", ph, i, v.fs[i], v.capped[i], low, higher, ph, v.fs)
		} else if low >= float64(higherUnsat)-v.eps-1e-9 && low > v.eps {
			tightE = true
		}
	}
	// (f) within a priority, surplus is monotone in over-quota weight up to one unit, for two
	// queues that differ in weight only
	for i := 0; i < n; i++ {
		for j := 0; j < n; j++ {
			if i == j || v.prio[i] != v.prio[j] || v.w[i] <= v.w[j] || v.des[i] != v.des[j] ||
				v.capped[i] != v.capped[j] || v.u[i] != v.u[j] {
				continue
			}
			cnt[5]++
			if d.surplus[j]-d.surplus[i] > 1+v.eps+1e-9 {
				add(lawNames[5], "queue q%d (weight %v) got surplus %v, otherwise identical queue q%d (weight %v) got %v: more than one unit ahead", i, v.w[i], d.surplus[i], j, v.w[j], d.surplus[j])
			}
		}
	}
	return out, tightE, d
}

// sameShares: law (g) tolerance is 1e-9 in natural units (GPUs / cores / MB).
func sameShares(a, b Shares) (bool, int) {
	for i := range a {
		for r := 0; r < 3; r++ {
			if math.Abs(a[i][r]-b[i][r]) > 1e-9*resScale[r] {
				return false, r
			}
		}
	}
	return true, 0
}

// outcomeClass abstracts one GPU result: per queue Z (zero), Q (exactly the quota part, wants
// more), S (exactly its capped request), O (rounding overshoot above the capped request),
// P (partial surplus), sorted; plus whether surplus was left.
func outcomeClass(v *view, d *derived) string {
	n := len(v.fs)
	b := make([]byte, 0, n+2)
	for i := 0; i < n; i++ {
		var c byte
		switch {
		case v.fs[i] > v.capped[i]+v.eps:
			c = 'O'
		case v.fs[i] <= v.eps && !d.unsat[i]:
			c = 'z' // zero and wants nothing
		case v.fs[i] <= v.eps:
			c = 'Z'
		case !d.unsat[i]:
			c = 'S'
		case d.surplus[i] > v.eps:
			c = 'P'
		default:
			c = 'Q'
		}
		b = append(b, c)
	}
	// sort
	for i := 1; i < len(b); i++ {
		for j := i; j > 0 && b[j] < b[j-1]; j-- {
			b[j], b[j-1] = b[j-1], b[j]
		}
	}
	if d.leftover > v.eps {
		b = append(b, '+')
	}
	return string(b)
}
