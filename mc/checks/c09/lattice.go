package c09

import (
	"fmt"
	"strings"
)

// QP is one sibling queue of an input, in natural units (GPUs; CPU = cores, memory = MB are
// derived by scaling, see scales). -1 means "unlimited" for D (deserved quota) and L (limit).
type QP struct {
	D float64 `json:"deserved"`
	L float64 `json:"limit"`
	W float64 `json:"weight"`
	P int     `json:"priority"`
	R float64 `json:"request"`
	U float64 `json:"usage"`
}

func (q QP) String() string {
	return fmt.Sprintf("{des=%v lim=%v w=%v prio=%d req=%v use=%v}", q.D, q.L, q.W, q.P, q.R, q.U)
}

// Lattice is a finite grid of inputs: every multiset of N queue tuples drawn from the product
// Des x Lim x Wt x Prio x Req x Use, crossed with Totals x Ks.
type Lattice struct {
	Name   string    `json:"name"`
	N      int       `json:"n"`
	Totals []float64 `json:"totals"`
	Ks     []float64 `json:"k_values"`
	Des    []float64 `json:"deserved"`
	Lim    []float64 `json:"limit"`
	Wt     []float64 `json:"weight"`
	Prio   []int     `json:"priority"`
	Req    []float64 `json:"request"`
	Use    []float64 `json:"usage"`
	// Plan names the set of (tie-break, insertion order, map seed) evaluations per input.
	Plan string `json:"orders_plan"`
}

func (l *Lattice) Tuples() []QP {
	var out []QP
	for _, d := range l.Des {
		for _, li := range l.Lim {
			for _, w := range l.Wt {
				for _, p := range l.Prio {
					for _, r := range l.Req {
						for _, u := range l.Use {
							out = append(out, QP{D: d, L: li, W: w, P: p, R: r, U: u})
						}
					}
				}
			}
		}
	}
	return out
}

type global struct{ Total, K float64 }

func (l *Lattice) Globals() []global {
	var out []global
	for _, t := range l.Totals {
		for _, k := range l.Ks {
			out = append(out, global{t, k})
		}
	}
	return out
}

// multisets of size n from T tuples = C(T+n-1, n)
func multisetCount(T, n int) int64 {
	num, den := int64(1), int64(1)
	for i := 0; i < n; i++ {
		num *= int64(T + n - 1 - i)
		den *= int64(i + 1)
		if num%den == 0 {
			num /= den
			den = 1
		}
	}
	return num / den
}

func (l *Lattice) InputCount() int64 {
	return multisetCount(len(l.Tuples()), l.N) * int64(len(l.Globals()))
}

var (
	fullTotals = []float64{0, .5, 1, 2, 3, 4, 7}
	fullDes    = []float64{0, 1, 2, -1}
	fullLim    = []float64{-1, 0, 1, 3}
	fullWt     = []float64{0, 1, 2}
	fullPrio   = []int{0, 1}
	fullReq    = []float64{0, .5, 1, 2, 5}
	fullUse    = []float64{0, .5}
	fullK      = []float64{0, 1, 2}
)

// Blocks returns the lattices of a tier. All blocks are pairwise disjoint as input sets (they
// differ in n, or in the k-values they use), so inputs are never counted twice.
func Blocks(tier string) []Lattice {
	n1 := Lattice{Name: "n1-full", N: 1, Totals: fullTotals, Ks: fullK, Des: fullDes, Lim: fullLim, Wt: fullWt,
		Prio: fullPrio, Req: fullReq, Use: fullUse, Plan: "all"}
	n2 := Lattice{Name: "n2-full", N: 2, Totals: fullTotals, Ks: fullK, Des: fullDes, Lim: fullLim, Wt: fullWt,
		Prio: fullPrio, Req: fullReq, Use: fullUse, Plan: "perms"}
	if tier != "thorough" {
		// n=3 on the sub-lattice without historical usage / k
		n3 := Lattice{Name: "n3-sub-nousage", N: 3, Totals: fullTotals, Ks: []float64{0},
			Des: []float64{0, 1, -1}, Lim: []float64{-1, 1}, Wt: fullWt, Prio: fullPrio,
			Req: []float64{0, .5, 2}, Use: []float64{0}, Plan: "perms+tb"}
		// a small n=3 block that does exercise time-based fairness (k>0, usage) so that the quick tier
		// is not blind to it for three queues
		n3k := Lattice{Name: "n3-sub-tbf", N: 3, Totals: []float64{1, 3, 4, 7}, Ks: []float64{1, 2},
			Des: []float64{0, 1}, Lim: []float64{-1}, Wt: fullWt, Prio: fullPrio,
			Req: []float64{.5, 5}, Use: fullUse, Plan: "perms+seeds"}
		// cheapest first: if the internal deadline ever hits, it cuts the tail of the largest block
		return []Lattice{n1, n3k, n3, n2}
	}
	n2.Plan = "all"
	n3a := Lattice{Name: "n3-nousage", N: 3, Totals: fullTotals, Ks: []float64{0},
		Des: fullDes, Lim: []float64{-1, 1, 3}, Wt: fullWt, Prio: fullPrio,
		Req: []float64{.5, 2, 5}, Use: []float64{0}, Plan: "perms+tb"}
	n3b := Lattice{Name: "n3-tbf", N: 3, Totals: fullTotals, Ks: []float64{1, 2},
		Des: []float64{0, 1}, Lim: []float64{-1, 1}, Wt: fullWt, Prio: fullPrio,
		Req: []float64{.5, 2, 5}, Use: fullUse, Plan: "perms+seeds+tb"}
	n4 := Lattice{Name: "n4-sub", N: 4, Totals: fullTotals, Ks: []float64{0},
		Des: []float64{0, 1}, Lim: []float64{-1, 1}, Wt: fullWt, Prio: fullPrio,
		Req: []float64{.5, 2}, Use: []float64{0}, Plan: "perms+seeds+tb"}
	n4k := Lattice{Name: "n4-sub-tbf", N: 4, Totals: []float64{2, 4, 7}, Ks: []float64{2},
		Des: []float64{0}, Lim: []float64{-1}, Wt: []float64{1, 2}, Prio: fullPrio,
		Req: []float64{.5, 5}, Use: fullUse, Plan: "perms"}
	return []Lattice{n1, n4k, n2, n3b, n4, n3a}
}

// permutations of 0..n-1 in lexicographic order (index 0 = identity)
func permutations(n int) [][]int {
	var out [][]int
	var rec func(cur []int, used []bool)
	rec = func(cur []int, used []bool) {
		if len(cur) == n {
			out = append(out, append([]int{}, cur...))
			return
		}
		for i := 0; i < n; i++ {
			if !used[i] {
				used[i] = true
				rec(append(cur, i), used)
				used[i] = false
			}
		}
	}
	rec(nil, make([]bool, n))
	return out
}

// order is one evaluation of an input: which tie-break variant (creation timestamps), which
// insertion order of the queue map, which map-iteration seed.
type order struct {
	TB   int `json:"tie_break"`
	Perm int `json:"perm_index"`
	Seed int `json:"map_seed"`
}

// plan returns the evaluations run per input. The first entry of each TB value is that
// variant's reference; all others of the same TB must agree with it (law g). The plan name is a
// '+'-separated list of:
//
//	"perms" : tie-break 0 x all n! insertion orders x map seed 0 (always included)
//	"seeds" : tie-break 0 x identity insertion order x map seeds 1..n-1
//	"tb"    : tie-break 1 x {identity, reversed} insertion order x map seed 0
//	"all"   : tie-break {0,1} x all n! insertion orders x map seeds 0..n-1
//
// Seeds >= n iterate exactly like seed 0 for maps with <= n entries (asserted by probeMapOrder),
// so seeds 0..7 collapse to seeds 0..n-1.
func plan(name string, n int) []order {
	np := len(permutations(n))
	var out []order
	if name == "all" {
		for tb := 0; tb < 2; tb++ {
			for s := 0; s < n; s++ {
				for p := 0; p < np; p++ {
					out = append(out, order{tb, p, s})
				}
			}
			if n == 1 {
				break
			}
		}
		return out
	}
	for p := 0; p < np; p++ {
		out = append(out, order{0, p, 0})
	}
	for _, f := range strings.Split(name, "+") {
		switch f {
		case "seeds":
			for s := 1; s < n; s++ {
				out = append(out, order{0, 0, s})
			}
		case "tb":
			if n > 1 {
				out = append(out, order{1, 0, 0}, order{1, np - 1, 0})
			}
		}
	}
	return out
}
