// Package c09 checks property C09 "Fair-share division obeys its documented contract" by
// bounded-exhaustive enumeration (InputMC): the real resource_division.SetResourcesShare is
// called on every input of a stated lattice of sibling-queue sets, under every insertion order
// of the queue map (the harness owns Go's map order), and the laws of the statement are applied
// to every result. The hierarchy ("children divide their parent's fair share") is reached
// through the real proportion plugin's OnSessionOpen on hand-built sessions.
package c09

import (
	"encoding/json"
	"fmt"
	"os"
	"runtime"
	"runtime/debug"
	"sort"
	"strconv"
	"time"

	"verif/mc/engine"
	"verif/mc/registry"
)

func init() { registry.Register("C09", run, replay) }

// ---------------------------------------------------------------- worker <-> parent records

type candidate struct {
	Key     string `json:"key"`
	Message string `json:"message"`
	Rank    []int  `json:"rank"` // position in the enumeration (block, indices...) for a stable choice
	Replay  Replay `json:"replay"`
}

type Replay struct {
	Kind   string   `json:"kind"` // "flat" | "tree"
	Law    string   `json:"law"`
	Total  float64  `json:"total"`
	K      float64  `json:"k"`
	Queues []QP     `json:"queues,omitempty"`
	Order  *order   `json:"order,omitempty"`
	Perm   []int    `json:"insertion_order,omitempty"`
	Ref    *order   `json:"reference_order,omitempty"`
	Tree   *Tree    `json:"tree,omitempty"`
	HOrder *horder  `json:"tree_order,omitempty"`
	HRef   *horder  `json:"tree_reference_order,omitempty"`
	Shares Shares   `json:"observed_shares_raw_units_gpu_cpu_mem"`
	RefSh  Shares   `json:"reference_shares,omitempty"`
	Units  []string `json:"units"`
}

type blockStats struct {
	Block      string           `json:"block"`
	Worker     int              `json:"worker"`
	Inputs     int64            `json:"inputs"`
	Evals      int64            `json:"evals"`
	NonTrivial int64            `json:"nontrivial"`
	Laws       lawCounter       `json:"laws"`
	Compared   int64            `json:"compared"`
	TightEFail int64            `json:"tight_e_fail"`
	Guards     map[string]int64 `json:"guards"`
	Classes    []string         `json:"classes"`
	Skipped    int64            `json:"skipped"`
	Candidates []candidate      `json:"candidates"`
	HarnessErr string           `json:"harness_err,omitempty"`
	ElapsedS   float64          `json:"elapsed_s"`
	classSet   map[string]bool
	candByKey  map[string]*candidate
}

func newBlockStats(name string, w int) *blockStats {
	return &blockStats{Block: name, Worker: w, Guards: map[string]int64{}, classSet: map[string]bool{}, candByKey: map[string]*candidate{}}
}

func (s *blockStats) addCandidate(c candidate) {
	if old, ok := s.candByKey[c.Key]; ok {
		if !rankLess(c.Rank, old.Rank) {
			return
		}
	}
	cc := c
	s.candByKey[c.Key] = &cc
}

func rankLess(a, b []int) bool {
	for i := 0; i < len(a) && i < len(b); i++ {
		if a[i] != b[i] {
			return a[i] < b[i]
		}
	}
	return len(a) < len(b)
}

func (s *blockStats) finish(start time.Time) {
	for k := range s.classSet {
		s.Classes = append(s.Classes, k)
	}
	sort.Strings(s.Classes)
	keys := []string{}
	for k := range s.candByKey {
		keys = append(keys, k)
	}
	sort.Strings(keys)
	for _, k := range keys {
		s.Candidates = append(s.Candidates, *s.candByKey[k])
	}
	s.ElapsedS = time.Since(start).Seconds()
}

// ---------------------------------------------------------------- input classes / keys

func prioClass(qs []QP) string {
	for _, q := range qs[1:] {
		if q.P != qs[0].P {
			return "prio-mix"
		}
	}
	return "single-prio"
}

func tbfClass(k float64, qs []QP) string {
	if k == 0 {
		return "k=0"
	}
	for _, q := range qs {
		if q.U > 0 {
			return "k>0-usage>0"
		}
	}
	return "k>0-usage=0"
}

func flatKey(law string, r int, k float64, qs []QP) string {
	return fmt.Sprintf("C09/%s res=%s n=%d %s %s", law, resLabel[r], len(qs), prioClass(qs), tbfClass(k, qs))
}

var unitsDoc = []string{"GPU: devices (rounding unit 1 GPU)", "CPU: milli-CPU (rounding unit 1m)", "Memory: bytes (rounding unit 1 byte)"}

// ---------------------------------------------------------------- flat blocks (worker side)

type flatRunner struct {
	ev    map[int]*evaluator
	perms map[int][][]int
}

func newFlatRunner() (*flatRunner, error) {
	fr := &flatRunner{ev: map[int]*evaluator{}, perms: map[int][][]int{}}
	for n := 1; n <= 4; n++ {
		e := newEvaluator(n)
		if err := e.probeMapOrder(); err != nil {
			return nil, err
		}
		fr.ev[n] = e
		fr.perms[n] = e.perms
	}
	return fr, nil
}

// processInput evaluates one input under its whole order plan, applies all laws, updates st.
func (fr *flatRunner) processInput(st *blockStats, pl []order, total, k float64, qs []QP, rank []int) {
	n := len(qs)
	e := fr.ev[n]
	st.Inputs++
	var ref [2]Shares
	var refOrder [2]order
	var have [2]bool
	cur := make(Shares, n)
	for _, o := range pl {
		e.eval(total, k, qs, o, cur)
		st.Evals++
		check := false
		if !have[o.TB] {
			have[o.TB] = true
			ref[o.TB] = append(Shares{}, cur...)
			refOrder[o.TB] = o
			// laws only need re-checking for a result that differs from one already checked
			check = o.TB == 0
			if o.TB == 1 {
				if same, _ := sameShares(ref[0], cur); !same {
					check = true
					st.Guards["tie_break_changed_result"]++
				}
			}
		} else {
			st.Compared++
			st.Laws[6]++
			if same, r := sameShares(ref[o.TB], cur); !same {
				check = true
				ro := refOrder[o.TB]
				oo := o
				st.addCandidate(candidate{
					Key: flatKey(lawNames[6], r, k, qs),
					Message: fmt.Sprintf("order dependence: total=%v k=%v queues=%v: insertion order %v seed %d gives %s shares %v, insertion order %v seed %d gives %v",
						total, k, qs, e.perms[o.Perm], o.Seed, resLabel[r], column(cur, r), e.perms[ro.Perm], ro.Seed, column(ref[o.TB], r)),
					Rank: rank,
					Replay: Replay{Kind: "flat", Law: lawNames[6], Total: total, K: k, Queues: append([]QP{}, qs...), Order: &oo, Perm: e.perms[o.Perm],
						Ref: &ro, Shares: append(Shares{}, cur...), RefSh: ref[o.TB], Units: unitsDoc},
				})
			}
		}
		if !check {
			continue
		}
		for r := 0; r < 3; r++ {
			v := mkView(total, k, qs, cur, r)
			fs, tight, d := checkLaws(v, r, &st.Laws)
			if tight {
				st.TightEFail++
				if os.Getenv("VERIF_C09_DEBUG") != "" {
					fmt.Fprintf(os.Stderr, "tight-e: total=%v k=%v queues=%v %s shares=%v\n", total, k, qs, resLabel[r], column(cur, r))
				}
			}
			for _, f := range fs {
				oo := o
				st.addCandidate(candidate{
					Key:     flatKey(f.Law, r, k, qs),
					Message: fmt.Sprintf("%s: total=%v k=%v queues=%v insertion order %v seed %d tie-break %d: %s shares %v: %s", f.Law, total, k, qs, e.perms[o.Perm], o.Seed, o.TB, resLabel[r], column(cur, r), f.Detail),
					Rank:    rank,
					Replay: Replay{Kind: "flat", Law: f.Law, Total: total, K: k, Queues: append([]QP{}, qs...), Order: &oo, Perm: e.perms[o.Perm],
						Shares: append(Shares{}, cur...), Units: unitsDoc},
				})
			}
			if r == 0 && o == pl[0] {
				// statistics on the reference GPU result
				nontrivial := false
				for i := range cur {
					if cur[i][0] != 0 || cur[i][1] != 0 || cur[i][2] != 0 {
						nontrivial = true
					}
				}
				if nontrivial {
					st.NonTrivial++
				}
				oc := outcomeClass(v, d)
				st.classSet[strconv.Itoa(n)+"|"+prioClass(qs)+"|"+tbfClass(k, qs)+"|"+oc] = true
				if d.sumSurplus > v.eps {
					st.Guards["surplus_handed_out"]++
				}
				if d.leftover > v.eps {
					st.Guards["surplus_left_undistributed"]++
				}
				over, blocked, zeroed := false, false, false
				for i := range cur {
					if v.fs[i] > v.capped[i]+v.eps {
						over = true
					}
					if d.effPos[i] {
						for j := range cur {
							if v.prio[j] < v.prio[i] && v.capped[j] > d.dpart[j] {
								blocked = true
							}
						}
					}
					if d.unsat[i] && v.w[i] > 0 && !d.effPos[i] {
						zeroed = true
					}
				}
				if over {
					st.Guards["rounding_overshoot"]++
				}
				if blocked {
					st.Guards["higher_priority_unsatisfied_with_hungry_lower"]++
				}
				if zeroed {
					st.Guards["usage_zeroed_effective_weight"]++
				}
			}
		}
	}
}

func column(s Shares, r int) []float64 {
	out := make([]float64, len(s))
	for i := range s {
		out[i] = s[i][r]
	}
	return out
}

func (fr *flatRunner) runBlock(bi int, b *Lattice, shard, nshards int, budget *engine.Budget) *blockStats {
	start := time.Now()
	st := newBlockStats(b.Name, shard)
	tuples := b.Tuples()
	globals := b.Globals()
	pl := plan(b.Plan, b.N)
	T, G := len(tuples), len(globals)
	qs := make([]QP, b.N)
	idx := make([]int, b.N)
	aborted := false
	var rec func(pos int, g int)
	rec = func(pos int, g int) {
		if pos == b.N {
			rank := append([]int{bi, idx[0], g}, idx[1:]...)
			fr.processInput(st, pl, globals[g].Total, globals[g].K, qs, rank)
			return
		}
		for i := idx[pos-1]; i < T; i++ {
			if aborted || (pos == 1 && budget.Exceeded()) {
				aborted = true
				return
			}
			idx[pos] = i
			qs[pos] = tuples[i]
			rec(pos+1, g)
		}
	}
	for i0 := 0; i0 < T; i0++ {
		for g := 0; g < G; g++ {
			if (i0*G+g)%nshards != shard {
				continue
			}
			if budget.Exceeded() {
				st.Skipped++
				continue
			}
			idx[0] = i0
			qs[0] = tuples[i0]
			rec(1, g)
			if aborted { // deadline hit inside the item: it is only partly covered
				st.Skipped++
			}
		}
	}
	st.finish(start)
	return st
}

// ---------------------------------------------------------------- tree blocks (worker side)

func treeKey(law string, r int, t *Tree) string {
	qs := make([]QP, len(t.Q))
	for i := range t.Q {
		qs[i] = t.Q[i].QP
	}
	return fmt.Sprintf("C09/%s res=%s tree=%s %s", law, resLabel[r], t.Shape, tbfClass(t.K, qs))
}

func runTreeBlock(bi int, tl *treeLattice, shard, nshards int, budget *engine.Budget) *blockStats {
	start := time.Now()
	st := newBlockStats(tl.Name, shard)
	ord := 0
	st.Skipped = tl.enumTrees(shard, nshards, budget.Exceeded, func(t *Tree) {
		ord++
		rank := []int{1000 + bi, ord}
		st.Inputs++
		var ref Shares
		for oi, o := range tl.Orders {
			sh, err := evalTree(t, o)
			st.Evals++
			if err != nil {
				if st.HarnessErr == "" {
					b, _ := json.Marshal(t)
					st.HarnessErr = fmt.Sprintf("tree %s: %v", b, err)
				}
				return
			}
			check := oi == 0
			if oi == 0 {
				ref = sh
			} else {
				st.Compared++
				st.Laws[6]++
				if same, r := sameShares(ref, sh); !same {
					check = true
					oo, ro := o, tl.Orders[0]
					tc := *t
					st.addCandidate(candidate{
						Key:     treeKey(lawNames[6], r, t),
						Message: fmt.Sprintf("order dependence in hierarchy: tree=%+v order %+v gives %s shares %v, order %+v gives %v", *t, o, resLabel[r], column(sh, r), ro, column(ref, r)),
						Rank:    rank,
						Replay:  Replay{Kind: "tree", Law: lawNames[6], Total: t.Total, K: t.K, Tree: &tc, HOrder: &oo, HRef: &ro, Shares: sh, RefSh: ref, Units: unitsDoc},
					})
				}
			}
			if !check {
				continue
			}
			for _, f := range checkTree(t, sh, &st.Laws) {
				oo := o
				tc := *t
				st.addCandidate(candidate{
					Key:     treeKey(f.Law, f.Res, t),
					Message: fmt.Sprintf("%s in hierarchy: tree=%+v order %+v: %s shares %v: %s", f.Law, *t, o, resLabel[f.Res], column(sh, f.Res), f.Detail),
					Rank:    rank,
					Replay:  Replay{Kind: "tree", Law: f.Law, Total: t.Total, K: t.K, Tree: &tc, HOrder: &oo, Shares: sh, Units: unitsDoc},
				})
			}
			if oi == 0 {
				nontrivial, childGot, fractionalParent := false, false, false
				for i := range sh {
					if sh[i][0] != 0 || sh[i][1] != 0 || sh[i][2] != 0 {
						nontrivial = true
					}
					if t.Q[i].Parent >= 0 && sh[i][0] > 0 {
						childGot = true
					}
					if len(t.children(i)) > 0 && sh[i][0] != float64(int64(sh[i][0])) {
						fractionalParent = true
					}
				}
				if nontrivial {
					st.NonTrivial++
				}
				if childGot {
					st.Guards["tree_child_received_share"]++
				}
				if fractionalParent {
					st.Guards["tree_parent_with_fractional_gpu_share"]++
				}
				cls := tl.Shape + "|"
				for i := range sh {
					c := byte('0')
					switch {
					case sh[i][0] == 0:
					case sh[i][0] < t.request(i):
						c = 'p'
					default:
						c = 's'
					}
					cls += string(c)
				}
				st.classSet[cls] = true
			}
		}
	})
	st.finish(start)
	return st
}

// ---------------------------------------------------------------- entry points

func envInt(name string, def int) int {
	if s := os.Getenv(name); s != "" {
		if v, err := strconv.Atoi(s); err == nil {
			return v
		}
	}
	return def
}

func deadline(tier string) time.Duration {
	if s := os.Getenv("VERIF_C09_DEADLINE_S"); s != "" {
		if v, err := strconv.Atoi(s); err == nil {
			return time.Duration(v) * time.Second
		}
	}
	if tier == "thorough" {
		return 21 * time.Minute
	}
	return 95 * time.Second
}

func run(tier string) int {
	idx, n, isWorker := engine.WorkerShard()
	if isWorker {
		return worker(tier, idx, n)
	}
	return parent(tier)
}

var ballast []byte

func worker(tier string, shard, nshards int) int {
	// allocation-heavy callee, tiny live heap: collect only when 1 GiB of garbage has piled up
	if mb := envInt("VERIF_C09_MEMLIMIT_MB", 0); mb > 0 {
		debug.SetGCPercent(-1)
		debug.SetMemoryLimit(int64(mb) << 20)
	} else {
		// heap ballast (never touched, so it costs address space only): with GOGC=100 a collection
		// runs once per ~ballast bytes of garbage instead of once per few MB
		ballast = make([]byte, envInt("VERIF_C09_BALLAST_MB", 128)<<20)
	}
	budget := engine.NewBudget(deadline(tier))
	fr, err := newFlatRunner()
	if err != nil {
		engine.Emit(&blockStats{Block: "probe", Worker: shard, HarnessErr: err.Error()})
		engine.FlushEmit()
		return 0
	}
	// hierarchy first (cheap), then the flat blocks from cheapest to largest
	only := os.Getenv("VERIF_C09_ONLY") // diagnostics: run a single block
	trees := treeLattices(tier)
	for bi := range trees {
		if only != "" && only != trees[bi].Name {
			continue
		}
		st := runTreeBlock(bi, &trees[bi], shard, nshards, budget)
		engine.Emit(st)
		engine.FlushEmit()
	}
	blocks := Blocks(tier)
	for bi := range blocks {
		if only != "" && only != blocks[bi].Name {
			continue
		}
		st := fr.runBlock(bi, &blocks[bi], shard, nshards, budget)
		engine.Emit(st)
		engine.FlushEmit()
	}
	return 0
}

type blockAgg struct {
	Name            string  `json:"name"`
	Inputs          int64   `json:"inputs"`
	ExpectedInputs  int64   `json:"expected_inputs,omitempty"`
	Evals           int64   `json:"evaluations"`
	OrdersPerInput  int     `json:"orders_per_input"`
	NonTrivial      int64   `json:"nontrivial_inputs"`
	Skipped         int64   `json:"work_items_skipped_by_deadline"`
	MaxWorkerS      float64 `json:"slowest_worker_s"`
	Lattice         any     `json:"lattice"`
	workersReported int
}

func parent(tier string) int {
	start := time.Now()
	workers := envInt("VERIF_WORKERS", runtime.NumCPU())
	if workers < 1 {
		workers = 1
	}
	rep := engine.NewReporter("C09")

	blocks := Blocks(tier)
	trees := treeLattices(tier)
	aggs := map[string]*blockAgg{}
	var orderNames []string
	for i := range blocks {
		b := &blocks[i]
		aggs[b.Name] = &blockAgg{Name: b.Name, ExpectedInputs: b.InputCount(), OrdersPerInput: len(plan(b.Plan, b.N)), Lattice: b}
		orderNames = append(orderNames, b.Name)
	}
	for i := range trees {
		t := &trees[i]
		aggs[t.Name] = &blockAgg{Name: t.Name, OrdersPerInput: len(t.Orders), Lattice: t}
		orderNames = append(orderNames, t.Name)
	}
	var laws lawCounter
	var compared, tightE int64
	guards := map[string]int64{}
	classes := map[string]bool{}
	cands := map[string]*candidate{}
	harnessErr := ""

	err := engine.RunWorkers(workers, []string{"GOMAXPROCS=1"}, 6*1024*1024, func(w int, line []byte) {
		var st blockStats
		if err := json.Unmarshal(line, &st); err != nil {
			harnessErr = "bad worker line: " + err.Error()
			return
		}
		if st.HarnessErr != "" && harnessErr == "" {
			harnessErr = st.HarnessErr
		}
		a := aggs[st.Block]
		if a == nil {
			return
		}
		a.workersReported++
		a.Inputs += st.Inputs
		a.Evals += st.Evals
		a.NonTrivial += st.NonTrivial
		a.Skipped += st.Skipped
		if st.ElapsedS > a.MaxWorkerS {
			a.MaxWorkerS = st.ElapsedS
		}
		for i := range laws {
			laws[i] += st.Laws[i]
		}
		compared += st.Compared
		tightE += st.TightEFail
		for k, v := range st.Guards {
			guards[k] += v
		}
		for _, c := range st.Classes {
			classes[c] = true
		}
		for i := range st.Candidates {
			c := st.Candidates[i]
			if old, ok := cands[c.Key]; !ok || rankLess(c.Rank, old.Rank) {
				cands[c.Key] = &c
			}
		}
	})
	if err != nil {
		fmt.Fprintf(os.Stderr, "harness error: %v\n", err)
		return 2
	}
	if harnessErr != "" {
		fmt.Fprintf(os.Stderr, "harness error: %s\n", harnessErr)
		return 2
	}

	var evals, inputs, nontrivial, skipped int64
	exhaustive := true
	var blockList []*blockAgg
	for _, name := range orderNames {
		a := aggs[name]
		if a.workersReported != workers {
			fmt.Fprintf(os.Stderr, "harness error: block %s reported by %d of %d workers\n", name, a.workersReported, workers)
			return 2
		}
		evals += a.Evals
		inputs += a.Inputs
		nontrivial += a.NonTrivial
		skipped += a.Skipped
		if a.Skipped > 0 {
			exhaustive = false
		} else if a.ExpectedInputs > 0 && a.Inputs != a.ExpectedInputs {
			fmt.Fprintf(os.Stderr, "harness error: block %s enumerated %d inputs, lattice has %d\n", name, a.Inputs, a.ExpectedInputs)
			return 2
		}
		blockList = append(blockList, a)
	}

	// confirm every candidate 5x from its replay record before reporting it
	keys := []string{}
	for k := range cands {
		keys = append(keys, k)
	}
	sort.Strings(keys)
	for _, k := range keys {
		c := cands[k]
		for i := 0; i < 5; i++ {
			found, _, err := reexecute(&c.Replay, c.Key)
			if err != nil || !found {
				fmt.Fprintf(os.Stderr, "harness error: candidate %q did not reproduce from its replay record (err=%v)\n", c.Key, err)
				return 2
			}
		}
		rep.Add(engine.Violation{Property: "C09", Key: c.Key, Message: c.Message, Replay: c.Replay})
	}

	samples, serr := makeSamples()
	if serr != nil {
		fmt.Fprintf(os.Stderr, "harness error: %v\n", serr)
		return 2
	}

	lawMap := map[string]int64{}
	var lawTotal int64
	for i, nme := range lawNames {
		lawMap[nme] = laws[i]
		lawTotal += laws[i]
	}
	classList := []string{}
	for c := range classes {
		classList = append(classList, c)
	}
	sort.Strings(classList)

	cov := map[string]any{
		"evaluations":              evals,
		"inputs":                   inputs,
		"distinct_nontrivial":      nontrivial,
		"distinct_outcome_classes": len(classList),
		"outcome_classes":          classList,
		"rule": "inputs = every multiset of n sibling queues (deserved, limit, over-quota weight, priority, request, historical usage) from each block's lattice x every total x every k " +
			"(blocks are pairwise disjoint, so every enumerated input is distinct), plus every queue tree of the hierarchy lattices; one evaluation = one call of the real " +
			"resource_division.SetResourcesShare (flat blocks; all 3 resources at once) or one real proportion-plugin OnSessionOpen (trees) under one (insertion order, map seed, tie-break) choice; " +
			"distinct_nontrivial = number of distinct inputs whose resulting fair shares are not all zero; distinct_outcome_classes = distinct (n, priority class, time-based-fairness class, " +
			"sorted per-queue outcome {z,Z,Q,P,S,O}, surplus-left flag) tuples observed on the GPU resource",
		"samples":                      samples,
		"exhaustive":                   exhaustive,
		"blocks":                       blockList,
		"laws_checked":                 lawMap,
		"laws_checked_total":           lawTotal,
		"order_comparisons":            compared,
		"vacuity_guards":               guards,
		"work_items_skipped":           skipped,
		"workers":                      workers,
		"strict_reading_of_law_e_fail": tightE,
		"resources_checked":            unitsDoc,
		"order_plans": map[string]string{
			"perms": "tie-break 0 (equal creation timestamps) x all n! insertion orders of the queue map under map seed 0 (= every iteration order of the queue map)",
			"seeds": "+ identity insertion order under map seeds 1..n-1 (rotates the internally built maps differently from the queue map)",
			"tb":    "+ tie-break 1 (reversed creation timestamps: last queue oldest) x {identity, reversed} insertion order",
			"all":   "tie-break {0,1} x all n! insertion orders x map seeds 0..n-1",
			"note":  "map seeds s >= n iterate every map with <= n entries exactly like seed 0 (asserted at start-up by probing the real maps under seeds 0..7), so seeds 0..7 collapse to 0..n-1",
		},
	}
	known := rep.KnownHits()
	if len(known) > 0 {
		cov["known_finding_hits"] = known
	}
	code := rep.Finish()
	ev := &engine.Evidence{PropertyID: "C09", Tier: tier, Seed: engine.SeedFromEnv(), Level: "exploration",
		Coverage: cov, Assumptions: assumptions, WallS: time.Since(start).Seconds(), Violations: rep.NewCount()}
	if err := engine.WriteEvidence(ev); err != nil {
		fmt.Fprintf(os.Stderr, "harness error: %v\n", err)
		return 2
	}
	fmt.Printf("C09 %s: inputs=%d evaluations=%d nontrivial=%d outcome_classes=%d laws_checked=%d order_comparisons=%d exhaustive=%v wall=%.1fs\n",
		tier, inputs, evals, nontrivial, len(classList), lawTotal, compared, exhaustive, time.Since(start).Seconds())
	for _, a := range blockList {
		fmt.Printf("  block %-16s inputs=%-10d evals=%-11d nontrivial=%-10d skipped=%d slowest_worker=%.1fs\n", a.Name, a.Inputs, a.Evals, a.NonTrivial, a.Skipped, a.MaxWorkerS)
	}
	// vacuity guards: every mechanism the laws talk about must have been exercised
	need := []string{"surplus_handed_out", "surplus_left_undistributed", "rounding_overshoot",
		"higher_priority_unsatisfied_with_hungry_lower", "usage_zeroed_effective_weight", "tree_child_received_share"}
	if exhaustive {
		for _, g := range need {
			if guards[g] == 0 {
				fmt.Fprintf(os.Stderr, "harness error: vacuous run, mechanism %q never exercised\n", g)
				return 2
			}
		}
		for i, nme := range lawNames {
			if laws[i] == 0 {
				fmt.Fprintf(os.Stderr, "harness error: vacuous run, law %q never evaluated\n", nme)
				return 2
			}
		}
	}
	if evals == 0 || nontrivial < 2 {
		fmt.Fprintf(os.Stderr, "harness error: vacuous run\n")
		return 2
	}
	return code
}

var assumptions = []string{
	"rounding unit = 1 raw unit of the resource as stored by the scheduler: 1 GPU device, 1 milli-CPU, 1 byte of memory (the division code floors to and hands out whole raw units for every resource; the fairness docs do not name the unit)",
	"unlimited deserved quota (-1) is read as 'the whole amount being divided' (weakest reading; the docs only say 'unlimited'): lower bound min(total, capped request), and that amount counts as the queue's quota part in the surplus laws",
	"effective over-quota weight = max(0, W' + k*(W' - U')) from docs/developer/designs/time-based-fairshare, W' normalised over the non-satisfied queues of the same priority, evaluated on the final state (weakest reading: fewest queues count as positive)",
	"law (e) is read as: if some queue of priority p is unsatisfied with positive effective weight, all queues of priority < p together hold surplus < (number of queues of priority >= p); the stricter per-unsatisfied-queue reading is only counted (strict_reading_of_law_e_fail)",
	"law (f) compares two queues of one sibling set that differ in over-quota weight only: the heavier one's surplus is >= the lighter one's - 1 unit (non-strict)",
	"law (b) is strict (< 1 unit) and law (g) uses tolerance 1e-9 GPUs / cores / MB; all other comparisons use the same tolerance",
	"hierarchy: the flat laws are applied to every sibling set with the parent's observed fair share as the total; 'children divide their parent's fair share' is read as sum(children) <= max(parent fair share, sum of the children's own quota parts) because the code deliberately honours deserved quotas even when over-subscribed",
	"sibling sets are enumerated as multisets; which queue wins exact ties of the rounding remainder (older creation timestamp, then smaller UID) is varied with two tie-break variants, not all n!",
	"queue sets are bounded to n <= 3 (4 in thorough) siblings and the listed value lattices; CPU and memory inputs are the GPU lattice scaled to cores->milli-CPU (x1000) and MB->bytes (x10^6)",
}

// ---------------------------------------------------------------- replay

// reexecute re-runs the replay record against the real code and reports whether a violation
// with the given key is observed again.
func reexecute(r *Replay, key string) (bool, []string, error) {
	var lines []string
	found := false
	var cnt lawCounter
	switch r.Kind {
	case "flat":
		n := len(r.Queues)
		e := newEvaluator(n)
		if err := e.probeMapOrder(); err != nil {
			return false, nil, err
		}
		cur := make(Shares, n)
		e.eval(r.Total, r.K, r.Queues, *r.Order, cur)
		lines = append(lines, fmt.Sprintf("total=%v k=%v queues=%v insertion order %v seed %d tie-break %d -> shares (GPU,CPU,Mem raw) %v", r.Total, r.K, r.Queues, e.perms[r.Order.Perm], r.Order.Seed, r.Order.TB, cur))
		for res := 0; res < 3; res++ {
			fs, _, _ := checkLaws(mkView(r.Total, r.K, r.Queues, cur, res), res, &cnt)
			for _, f := range fs {
				k := flatKey(f.Law, res, r.K, r.Queues)
				lines = append(lines, "oracle: "+k+": "+f.Detail)
				if k == key {
					found = true
				}
			}
		}
		if r.Ref != nil {
			ref := make(Shares, n)
			e.eval(r.Total, r.K, r.Queues, *r.Ref, ref)
			lines = append(lines, fmt.Sprintf("reference insertion order %v seed %d -> %v", e.perms[r.Ref.Perm], r.Ref.Seed, ref))
			if same, res := sameShares(ref, cur); !same {
				k := flatKey(lawNames[6], res, r.K, r.Queues)
				lines = append(lines, "oracle: "+k)
				if k == key {
					found = true
				}
			}
		}
	case "tree":
		sh, err := evalTree(r.Tree, *r.HOrder)
		if err != nil {
			return false, nil, err
		}
		lines = append(lines, fmt.Sprintf("tree=%+v order %+v -> shares %v", *r.Tree, *r.HOrder, sh))
		for _, f := range checkTree(r.Tree, sh, &cnt) {
			k := treeKey(f.Law, f.Res, r.Tree)
			lines = append(lines, "oracle: "+k+": "+f.Detail)
			if k == key {
				found = true
			}
		}
		if r.HRef != nil {
			ref, err := evalTree(r.Tree, *r.HRef)
			if err != nil {
				return false, nil, err
			}
			lines = append(lines, fmt.Sprintf("reference order %+v -> %v", *r.HRef, ref))
			if same, res := sameShares(ref, sh); !same {
				k := treeKey(lawNames[6], res, r.Tree)
				lines = append(lines, "oracle: "+k)
				if k == key {
					found = true
				}
			}
		}
	default:
		return false, nil, fmt.Errorf("unknown replay kind %q", r.Kind)
	}
	return found, lines, nil
}

func replay(path string) int {
	b, err := os.ReadFile(path)
	if err != nil {
		fmt.Fprintln(os.Stderr, err)
		return 2
	}
	var v struct {
		Key    string `json:"key"`
		Replay Replay `json:"replay"`
	}
	if err := json.Unmarshal(b, &v); err != nil {
		fmt.Fprintln(os.Stderr, err)
		return 2
	}
	found, lines, err := reexecute(&v.Replay, v.Key)
	if err != nil {
		fmt.Fprintln(os.Stderr, "replay error:", err)
		return 2
	}
	for _, l := range lines {
		fmt.Println("  " + l)
	}
	if found {
		fmt.Printf("VIOLATION property=C09 replay=%s\n", path)
		return 1
	}
	fmt.Println("replay: violation not reproduced")
	return 0
}

// ---------------------------------------------------------------- samples

func makeSamples() ([]any, error) {
	var out []any
	type flatSample struct {
		Total float64
		K     float64
		Q     []QP
	}
	flats := []flatSample{
		{3, 0, []QP{{0, -1, 1, 1, 5, 0}, {0, -1, 1, 0, 5, 0}}},
		{4, 0, []QP{{1, -1, 2, 0, 5, 0}, {1, 3, 1, 0, 5, 0}, {0, -1, 1, 0, .5, 0}}},
		{4, 2, []QP{{0, -1, 1, 0, 5, .5}, {0, -1, 1, 0, 5, 0}}},
		{.5, 0, []QP{{0, -1, 1, 0, .5, 0}, {0, -1, 1, 0, 5, 0}}},
		{7, 0, []QP{{-1, -1, 0, 0, 2, 0}, {2, 1, 2, 1, 5, 0}, {0, -1, 1, 0, 5, 0}}},
	}
	for _, s := range flats {
		e := newEvaluator(len(s.Q))
		if err := e.probeMapOrder(); err != nil {
			return nil, err
		}
		cur := make(Shares, len(s.Q))
		e.eval(s.Total, s.K, s.Q, order{0, 0, 0}, cur)
		out = append(out, map[string]any{"kind": "flat", "total": s.Total, "k": s.K, "queues": s.Q,
			"fair_share_gpu": column(cur, 0), "fair_share_milli_cpu": column(cur, 1), "fair_share_memory_bytes": column(cur, 2)})
	}
	t := &Tree{"1-1-2", 4, 0, []TQ{{QP{D: 1, L: -1, W: 1}, -1}, {QP{D: 0, L: 3, W: 1}, 0}, {QP{D: 1, L: -1, W: 2, R: 5}, 1}, {QP{D: 0, L: -1, W: 1, R: .5}, 1}}}
	sh, err := evalTree(t, horder{})
	if err != nil {
		return nil, err
	}
	out = append(out, map[string]any{"kind": "tree", "tree": t, "fair_share_gpu": column(sh, 0), "fair_share_milli_cpu": column(sh, 1), "fair_share_memory_bytes": column(sh, 2)})
	return out, nil
}
