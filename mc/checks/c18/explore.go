package c18

import (
	"encoding/json"
	"fmt"
	"sort"
	"strings"

	"verif/mc/engine"
	"verif/mc/maporder"
)

// ---------------------------------------------------------------- actions / histories

// An action label is "R:<pod>" (one real Reconcile of that pod) or "F:<kind>@<podgroup>" (a foreign update).
func rLabel(pod string) string      { return "R:" + pod }
func fLabel(kind, pg string) string { return "F:" + kind + "@" + pg }
func isReconcile(label string) bool { return strings.HasPrefix(label, "R:") }
func isForeign(label string) bool   { return strings.HasPrefix(label, "F:") }
func isAbsent(label string) bool    { return strings.HasPrefix(label, "absent:") }
func parseF(label string) (k, g string) {
	s := strings.TrimPrefix(label, "F:")
	i := strings.Index(s, "@")
	return s[:i], s[i+1:]
}

type replayData struct {
	Scenario string     `json:"scenario"`
	Chain    string     `json:"chain"`
	Law      string     `json:"law"`
	History  []string   `json:"history"`
	Other    []string   `json:"other_history,omitempty"` // second history for differential violations
	Writes   []write    `json:"writes_of_last_step,omitempty"`
	Result   *storeView `json:"resulting_store,omitempty"`
}

// tracker carries the history-derived facts the step oracles need.
type tracker struct {
	since   uint // pods reconciled since the last external change of their PodGroup
	foreign int  // foreign updates so far
}

type stepStats struct {
	reconciles, foreignUpdates, writeFree, mustBeWriteFree, reconcilesAfterForeign int
	foreignKindsFollowed                                                           map[string]bool
}

// step executes ONE action on the world and applies the per-transition oracles (1), (3), (4).
// hist is the history up to and including this action.
func step(w *world, tr *tracker, label string, hist []string, st *stepStats) (viols []engine.Violation, harnessErr string) {
	sc := w.sc
	mk := func(law, key, msg string, writes []write, after *storeView) engine.Violation {
		return engine.Violation{Property: "C18", Key: key, Message: msg,
			Replay: replayData{Scenario: sc.Name, Chain: sc.Chain, Law: law, History: append([]string{}, hist...), Writes: writes, Result: after}}
	}
	if isAbsent(label) {
		w.removePod(strings.TrimPrefix(label, "absent:"))
		return nil, ""
	}
	if !isReconcile(label) {
		kind, g := parseF(label)
		before := w.view()
		if err := w.foreign(kind, g); err != nil {
			return nil, fmt.Sprintf("%s: foreign update %s failed: %v", sc.Name, label, err)
		}
		st.foreignUpdates++
		tr.foreign++
		if kind == "owner-relabelled" {
			tr.since = 0 // the owner may be shared by several PodGroups: every pod may legitimately be written again
		}
		// external change: pods of that group may legitimately be written again
		for i, p := range sc.Pods {
			if pv := before.pod(p.Name); pv != nil && pv.Group == g {
				tr.since &^= 1 << uint(i)
			}
		}
		return nil, ""
	}

	podName := strings.TrimPrefix(label, "R:")
	idx := -1
	for i, p := range sc.Pods {
		if p.Name == podName {
			idx = i
		}
	}
	if idx < 0 {
		return nil, fmt.Sprintf("%s: unknown pod %s", sc.Name, podName)
	}
	before := w.view()
	writes, _, err := w.reconcile(podName)
	if err != nil {
		return nil, fmt.Sprintf("%s: history %v: Reconcile(%s) returned error: %v", sc.Name, hist, podName, err)
	}
	if len(w.events.events) > 0 {
		return nil, fmt.Sprintf("%s: history %v: Reconcile(%s) emitted warning events: %v", sc.Name, hist, podName, w.events.events)
	}
	after := w.view()
	st.reconciles++
	if len(writes) == 0 {
		st.writeFree++
	}
	if tr.foreign > 0 {
		followed := false
		for _, h := range hist[:len(hist)-1] {
			if isForeign(h) {
				k, g := parseF(h)
				if pv := after.pod(podName); pv != nil && pv.Group == g {
					st.foreignKindsFollowed[k] = true
					followed = true
				}
			}
		}
		if followed {
			st.reconcilesAfterForeign++
		}
	}

	// (1) grouping: pods with the same documented unit share a PodGroup, others do not.
	me := after.pod(podName)
	if me == nil {
		return nil, fmt.Sprintf("%s: history %v: pod %s is not in the store", sc.Name, hist, podName)
	}
	if !me.HasGroup || me.Group == "" || after.pg(me.Group) == nil {
		viols = append(viols, mk("grouping", fmt.Sprintf("C18/pod-not-grouped kind=%s", sc.Kind),
			fmt.Sprintf("%s: after %v pod %s has no existing PodGroup (annotation %q)", sc.Name, hist, podName, me.Group), writes, after))
	} else {
		for j, q := range sc.Pods {
			o := after.pod(q.Name)
			if j == idx || o == nil || !o.HasGroup {
				continue
			}
			if sc.Part[j] == sc.Part[idx] && o.Group != me.Group {
				viols = append(viols, mk("grouping", fmt.Sprintf("C18/siblings-split kind=%s field=metadata.name", sc.Kind),
					fmt.Sprintf("%s: after %v pods %s and %s belong to the same workload unit (%s) but are in PodGroups %s and %s",
						sc.Name, hist, podName, q.Name, sc.Chain, me.Group, o.Group), writes, after))
			}
			if sc.Part[j] != sc.Part[idx] && o.Group == me.Group {
				viols = append(viols, mk("grouping", fmt.Sprintf("C18/groups-merged kind=%s field=metadata.name", sc.Kind),
					fmt.Sprintf("%s: after %v pods %s and %s must be in distinct PodGroups (%s) but share %s",
						sc.Name, hist, podName, q.Name, sc.Chain, me.Group), writes, after))
			}
		}
	}

	// (4) fields owned by other actors keep their value on every PodGroup that already existed.
	for i := range before.PGs {
		b := &before.PGs[i]
		a := after.pg(b.Name)
		if a == nil {
			viols = append(viols, mk("foreign-fields", fmt.Sprintf("C18/podgroup-deleted kind=%s", sc.Kind),
				fmt.Sprintf("%s: after %v PodGroup %s disappeared", sc.Name, hist, b.Name), writes, after))
			continue
		}
		fb, fa := foreignFields(b), foreignFields(a)
		keys := []string{}
		for k := range fb {
			keys = append(keys, k)
		}
		sort.Strings(keys)
		for _, k := range keys {
			if fb[k] != fa[k] {
				viols = append(viols, mk("foreign-fields", fmt.Sprintf("C18/foreign-field-overwritten kind=%s field=%s", sc.Kind, k),
					fmt.Sprintf("%s: history %v: Reconcile(%s) changed %s of existing PodGroup %s from %q to %q (field is owned by other actors after creation)",
						sc.Name, hist, podName, k, b.Name, fb[k], fa[k]), writes, after))
			}
		}
	}

	// (3) idempotence: this pod was already reconciled and nothing external happened to its group since.
	bit := uint(1) << uint(idx)
	if tr.since&bit != 0 {
		st.mustBeWriteFree++
		for _, wr := range writes {
			fields := wr.Fields
			if len(fields) == 0 {
				fields = []string{"<" + wr.Verb + ">"}
			}
			for _, f := range fields {
				viols = append(viols, mk("idempotence", fmt.Sprintf("C18/not-idempotent kind=%s field=%s", sc.Kind, f),
					fmt.Sprintf("%s: history %v: Reconcile(%s) with no external change since its previous reconcile issued %s %s/%s; sent object differs from stored one in %s (all writes of this reconcile: %s)",
						sc.Name, hist, podName, wr.Verb, wr.Kind, wr.Name, f, fmtWrites(writes)), writes, after))
			}
		}
	}
	tr.since |= bit
	return viols, ""
}

func fmtWrites(ws []write) string {
	parts := []string{}
	for _, w := range ws {
		parts = append(parts, fmt.Sprintf("%s %s/%s %v", w.Verb, w.Kind, w.Name, w.Fields))
	}
	return strings.Join(parts, "; ")
}

// runHistory executes a history from the initial store of the scenario (used by replay and validation).
func runHistory(sc *scenario, hist []string) (w *world, viols []engine.Violation, harnessErr string, lastWrites []write) {
	w = newWorld(sc, nil)
	tr := &tracker{}
	st := &stepStats{foreignKindsFollowed: map[string]bool{}}
	for i, l := range hist {
		v, he := step(w, tr, l, hist[:i+1], st)
		if he != "" {
			return w, viols, he, nil
		}
		viols = append(viols, v...)
		lastWrites = w.writes
	}
	return w, viols, "", lastWrites
}

// ---------------------------------------------------------------- per-scenario exploration

type scenarioStats struct {
	Scenario        string             `json:"scenario"`
	Kind            string             `json:"kind"`
	KindID          string             `json:"kind_id"`
	Pods            int                `json:"pods"`
	States          int                `json:"states"`
	Transitions     int                `json:"transitions"`
	Reconciles      int                `json:"reconciles"`
	Foreign         int                `json:"foreign"`
	WriteFree       int                `json:"write_free"`
	MustFree        int                `json:"must_free"`
	AfterForeign    int                `json:"after_foreign"`
	Perms           int                `json:"perms"`
	Subsets         int                `json:"subsets"`
	MaxDepth        int                `json:"max_depth"`
	Closed          bool               `json:"closed"` // BFS frontier emptied before the depth bound
	CapHit          bool               `json:"cap_hit"`
	PGs             int                `json:"pgs"`
	DetReplays      int                `json:"det_replays"`
	MapOrderReplays int                `json:"maporder_replays"`
	FKinds          []string           `json:"fkinds"`
	Finals          int                `json:"finals"` // all-reconciled states compared by the differential oracle
	Violations      []engine.Violation `json:"violations,omitempty"`
	HarnessErr      string             `json:"harness_err,omitempty"`
	WallS           float64            `json:"wall_s"`
	Sample          any                `json:"sample,omitempty"`
}

type bounds struct {
	depth      int
	maxStates  int
	foreign    []string
	maxTargets int // foreign updates target at most this many PodGroups (first by name) of a scenario
}

// tierBounds: quick = depth 6, 5 foreign-update kinds; thorough = 7 kinds, depth 7 for single-group workloads,
// 6 for workloads with several PodGroups (per-pod kinds, JobSet, LWS groups) and 5 for those with 4 pods.
func tierBounds(tier string, sc *scenario) bounds {
	groups := map[int]bool{}
	for _, g := range sc.Part {
		groups[g] = true
	}
	if tier == "thorough" {
		b := bounds{depth: 7, maxStates: 60000, foreign: foreignKinds, maxTargets: 2}
		if len(groups) > 1 {
			b.depth = 6
			if len(sc.Pods) >= 4 {
				b.depth = 5
			}
		}
		return b
	}
	return bounds{depth: 6, maxStates: 20000, foreign: []string{"queue", "markUnschedulable", "schedulingBackoff", "nodepool", "nodepool-removed", "scheduler", "owner-relabelled"}, maxTargets: 2}
}

func permutations(n int) [][]int {
	var out [][]int
	p := make([]int, n)
	for i := range p {
		p[i] = i
	}
	var rec func(k int)
	rec = func(k int) {
		if k == n {
			out = append(out, append([]int{}, p...))
			return
		}
		for i := k; i < n; i++ {
			p[k], p[i] = p[i], p[k]
			rec(k + 1)
			p[k], p[i] = p[i], p[k]
		}
	}
	rec(0)
	return out
}

// Go map-iteration seeds (O-maporder overlay): small maps iterate in insertion order rotated by the seed.
var mapSeeds = [3]uint64{0, 0, 5}

type finalState struct {
	hist  []string
	view  *storeView
	clean bool
}

// diffFinal names the first field in which two all-reconciled stores differ (owned view always,
// foreign-owned fields and pod assignment only between histories without foreign updates).
func diffFinal(a, b *finalState) (field, detail string) {
	if len(a.view.OwnerPrio) > 0 || len(b.view.OwnerPrio) > 0 {
		// the workload itself was changed along one of the histories (owner relabelled): what the grouper
		// has to derive differs, and a pod reconciled before the change legitimately left the old value
		return "", ""
	}
	for i := range a.view.Pods {
		pa, pb := a.view.Pods[i], b.view.Pods[i]
		if pa.Group != pb.Group {
			return "pod.annotations[pod-group-name]", fmt.Sprintf("pod %s: %q vs %q", pa.Name, pa.Group, pb.Group)
		}
		if pa.SubGroup != pb.SubGroup {
			return "pod.labels[" + subGroupKey + "]", fmt.Sprintf("pod %s: %q vs %q", pa.Name, pa.SubGroup, pb.SubGroup)
		}
	}
	if len(a.view.PGs) != len(b.view.PGs) {
		return "metadata.name", fmt.Sprintf("%d vs %d PodGroups", len(a.view.PGs), len(b.view.PGs))
	}
	for i := range a.view.PGs {
		ga, gb := &a.view.PGs[i], &b.view.PGs[i]
		if ga.Name != gb.Name {
			return "metadata.name", fmt.Sprintf("%q vs %q", ga.Name, gb.Name)
		}
		if f, d := diffStrMaps(ownedView(ga), ownedView(gb)); f != "" {
			return f, "PodGroup " + ga.Name + ": " + d
		}
		if a.clean && b.clean {
			if f, d := diffStrMaps(foreignFields(ga), foreignFields(gb)); f != "" {
				return f, "PodGroup " + ga.Name + ": " + d
			}
		}
	}
	return "", ""
}

func diffStrMaps(a, b map[string]string) (string, string) {
	keys := map[string]bool{}
	for k := range a {
		keys[k] = true
	}
	for k := range b {
		keys[k] = true
	}
	ks := []string{}
	for k := range keys {
		ks = append(ks, k)
	}
	sort.Strings(ks)
	for _, k := range ks {
		va, oka := a[k]
		vb, okb := b[k]
		if oka != okb || va != vb {
			return k, fmt.Sprintf("%s: %q (present=%v) vs %q (present=%v)", k, va, oka, vb, okb)
		}
	}
	return "", ""
}

// replicaViolations compares the PodGroups obtained with only a subset of the siblings created against
// the ones obtained with all siblings (grouper-owned content only).
func replicaViolations(sc *scenario, hist []string, v *storeView, full *finalState) (out []engine.Violation) {
	for gi := range v.PGs {
		g := &v.PGs[gi]
		ref := full.view.pg(g.Name)
		if ref == nil {
			out = append(out, engine.Violation{Property: "C18", Key: fmt.Sprintf("C18/replica-dependent kind=%s field=metadata.name", sc.Kind),
				Message: fmt.Sprintf("%s: with only a subset of the sibling pods created (%v) PodGroup %s appears, which does not exist when all siblings are present", sc.Name, hist, g.Name),
				Replay:  replayData{Scenario: sc.Name, Chain: sc.Chain, Law: "replica-independence", History: hist, Other: full.hist, Result: v}})
			continue
		}
		if f, d := diffStrMaps(ownedView(ref), ownedView(g)); f != "" {
			out = append(out, engine.Violation{Property: "C18", Key: fmt.Sprintf("C18/replica-dependent kind=%s field=%s", sc.Kind, f),
				Message: fmt.Sprintf("%s: PodGroup %s differs between 'all sibling pods exist' and 'only a subset exists' (%v): %s", sc.Name, g.Name, hist, d),
				Replay:  replayData{Scenario: sc.Name, Chain: sc.Chain, Law: "replica-independence", History: hist, Other: full.hist, Result: v}})
		}
	}
	return out
}

// diffOracle implements oracle (2) without keeping every store:
//   - order-dependence: stores reached by the same multiset of actions in a different order must be equal
//     (per multiset only the first history and a digest of its store are kept; on a digest mismatch the first
//     history is re-executed to name the differing field);
//   - repeat-dependence: the first store of every multiset must agree with the reference store (first
//     permutation, three passes) on everything the grouper owns, and - between histories without foreign
//     updates - on the foreign-owned fields and the pods' assignment too.
type groupRef struct {
	hist   []string
	digest string
}

type diffOracle struct {
	sc     *scenario
	ref    *finalState
	groups map[string]groupRef
	count  int
	reruns int
	report func(law string, x, y *finalState, f, d string)
}

func digestFinal(fs *finalState) string {
	type pgp struct {
		Name    string
		Owned   map[string]string
		Foreign map[string]string
	}
	proj := struct {
		Pods []podView
		PGs  []pgp
	}{Pods: fs.view.Pods}
	for i := range fs.view.PGs {
		g := &fs.view.PGs[i]
		p := pgp{Name: g.Name, Owned: ownedView(g)}
		if fs.clean {
			p.Foreign = foreignFields(g)
		}
		proj.PGs = append(proj.PGs, p)
	}
	b, err := json.Marshal(proj)
	must(err)
	return engine.HashKey(string(b))
}

func (o *diffOracle) add(fs *finalState) {
	o.count++
	ms := append([]string{}, fs.hist...)
	sort.Strings(ms)
	k := engine.HashKey(strings.Join(ms, ","))
	d := digestFinal(fs)
	if g, ok := o.groups[k]; ok {
		if g.digest != d && o.reruns < 20 {
			o.reruns++
			if w, _, he, _ := runHistory(o.sc, g.hist); he == "" {
				first := &finalState{hist: g.hist, view: w.view(), clean: fs.clean}
				if f, dd := diffFinal(first, fs); f != "" {
					o.report("order-dependent", first, fs, f, dd)
				}
			}
		}
		return
	}
	o.groups[k] = groupRef{hist: fs.hist, digest: d}
	if o.ref == nil {
		o.ref = fs
		return
	}
	if f, dd := diffFinal(o.ref, fs); f != "" {
		o.report("repeat-dependent", o.ref, fs, f, dd)
	}
}

type node struct {
	snap   *snapshot
	tr     tracker
	hist   []string
	allRec bool
}

func explore(sc *scenario, kindID, tier string, budget *engine.Budget) *scenarioStats {
	bd := tierBounds(tier, sc)
	out := &scenarioStats{Scenario: sc.Name, Kind: sc.Kind, KindID: kindID, Pods: len(sc.Pods)}
	st := &stepStats{foreignKindsFollowed: map[string]bool{}}
	seenViol := map[string]bool{}
	addV := func(vs []engine.Violation) {
		for _, v := range vs {
			if seenViol[v.Key] {
				continue
			}
			// confirm by re-executing the whole history from the initial store on a fresh world
			rd := v.Replay.(replayData)
			confirmed := false
			if _, vs2, he, _ := runHistory(sc, rd.History); he == "" {
				for _, v2 := range vs2 {
					if v2.Key == v.Key {
						confirmed = true
					}
				}
			}
			if !confirmed && rd.Law != "order-independence" && rd.Law != "replica-independence" {
				out.HarnessErr = fmt.Sprintf("%s: violation %s found during search did not reproduce from its history %v", sc.Name, v.Key, rd.History)
				return
			}
			seenViol[v.Key] = true
			out.Violations = append(out.Violations, v)
		}
	}
	// (2) differential oracle, applied online to every all-reconciled store (see diffOracle)
	dor := &diffOracle{sc: sc, groups: map[string]groupRef{}}
	dor.report = func(law string, x, y *finalState, f, d string) {
		addV([]engine.Violation{{Property: "C18", Key: fmt.Sprintf("C18/%s kind=%s field=%s", law, sc.Kind, f),
			Message: fmt.Sprintf("%s: the PodGroup state after all pods were reconciled depends on the history: %v vs %v: %s", sc.Name, x.hist, y.hist, d),
			Replay:  replayData{Scenario: sc.Name, Chain: sc.Chain, Law: "order-independence", History: x.hist, Other: y.hist, Result: y.view}}})
	}
	allMask := uint(1)<<uint(len(sc.Pods)) - 1

	maporder.Set(mapSeeds[0])
	// ---- phase 1: every permutation of the first reconciles, then a full second pass (same order) and a third (reverse order)
	w := newWorld(sc, nil)
	for _, perm := range permutations(len(sc.Pods)) {
		// rep 0 and 1: same map-iteration seed (determinism of harness + controller; divergence = harness error);
		// rep 2: a different Go map-iteration order (divergence = the grouper's output depends on map order)
		var canon [3]string
		var lastHist []string
		for rep := 0; rep < 3; rep++ {
			maporder.Set(mapSeeds[rep])
			w.reset(nil)
			tr := &tracker{}
			hist := []string{}
			run := func(order []int) bool {
				for _, i := range order {
					hist = append(hist, rLabel(sc.Pods[i].Name))
					var sst *stepStats = st
					if rep > 0 {
						sst = &stepStats{foreignKindsFollowed: map[string]bool{}}
					}
					vs, he := step(w, tr, hist[len(hist)-1], hist, sst)
					if he != "" {
						out.HarnessErr = he
						return false
					}
					if rep == 0 {
						out.Transitions++
						addV(vs)
					}
				}
				return true
			}
			if !run(perm) {
				return out
			}
			first := w.view().canon()
			if !run(perm) {
				return out
			}
			rev := append([]int{}, perm...)
			for i, j := 0, len(rev)-1; i < j; i, j = i+1, j-1 {
				rev[i], rev[j] = rev[j], rev[i]
			}
			if !run(rev) {
				return out
			}
			v := w.view()
			canon[rep] = first + "|" + v.canon()
			lastHist = hist
			if rep == 0 {
				dor.add(&finalState{hist: append([]string{}, hist...), view: v, clean: true})
				out.PGs = max(out.PGs, len(v.PGs))
				if out.Sample == nil {
					out.Sample = map[string]any{"scenario": sc.Name, "chain": sc.Chain, "history": hist, "resulting_store": v}
				}
			}
		}
		maporder.Set(mapSeeds[0])
		out.Perms++
		out.DetReplays++
		out.MapOrderReplays++
		if canon[0] != canon[1] {
			out.HarnessErr = fmt.Sprintf("%s: permutation %v is not reproducible (two executions of the same history differ)", sc.Name, perm)
			return out
		}
		if canon[0] != canon[2] {
			out.Violations = append(out.Violations, engine.Violation{Property: "C18", Key: fmt.Sprintf("C18/map-order-dependent kind=%s", sc.Kind),
				Message: fmt.Sprintf("%s: history %v gives a different store under a different Go map-iteration order (seed %d vs %d)", sc.Name, lastHist, mapSeeds[0], mapSeeds[2]),
				Replay:  replayData{Scenario: sc.Name, Chain: sc.Chain, Law: "map-order", History: lastHist}})
		}
	}

	// ---- phase 1b: replica-count independence: with only a subset S of the sibling pods created, one pass over S
	// must give every PodGroup the same grouper-owned content as with all siblings present.
	if dor.ref != nil && len(sc.Pods) > 1 {
		full := dor.ref
		for mask := uint(1); mask < allMask; mask++ {
			skip := false
			for i, p := range sc.Pods {
				if mask&(1<<uint(i)) == 0 && sc.Required[p.Name] {
					skip = true // this pod is itself a link of its siblings' owner chain
				}
			}
			if skip {
				continue
			}
			w.reset(nil)
			hist := []string{}
			for i, p := range sc.Pods {
				if mask&(1<<uint(i)) == 0 {
					w.removePod(p.Name)
					hist = append(hist, "absent:"+p.Name)
				}
			}
			tr := &tracker{}
			present := []int{}
			for i := range sc.Pods {
				if mask&(1<<uint(i)) != 0 {
					present = append(present, i)
				}
			}
			// same pass structure as the reference history (ascending, ascending, descending)
			order := append(append([]int{}, present...), present...)
			for i := len(present) - 1; i >= 0; i-- {
				order = append(order, present[i])
			}
			for _, i := range order {
				hist = append(hist, rLabel(sc.Pods[i].Name))
				vs, he := step(w, tr, hist[len(hist)-1], hist, st)
				if he != "" {
					out.HarnessErr = he
					return out
				}
				out.Transitions++
				addV(vs)
			}
			out.Subsets++
			addV(replicaViolations(sc, hist, w.view(), full))
		}
	}

	// ---- phase 2: BFS over histories of reconciles and foreign updates, from the empty store, canonical-state dedup
	seen := map[string]bool{}
	stores := map[string]bool{}
	w.reset(nil)
	root := &node{snap: w.snapshot()}
	key := func(canon string, tr tracker) string {
		return engine.HashKey(canon) + fmt.Sprintf("#%d#%v", tr.since, tr.foreign > 0)
	}
	rootCanon := w.view().canon()
	seen[key(rootCanon, root.tr)] = true
	stores[engine.HashKey(rootCanon)] = true
	frontier := []*node{root}
	// second root: the store after one full pass (identity order); depth is counted from the nearest root, so
	// histories of up to bd.depth further reconciles / foreign updates AFTER the first pass are covered
	{
		tr := tracker{}
		hist := []string{}
		for _, p := range sc.Pods {
			hist = append(hist, rLabel(p.Name))
			vs, he := step(w, &tr, hist[len(hist)-1], hist, st)
			if he != "" {
				out.HarnessErr = he
				return out
			}
			out.Transitions++
			addV(vs)
		}
		c := w.view().canon()
		stores[engine.HashKey(c)] = true
		if k := key(c, tr); !seen[k] {
			seen[k] = true
			frontier = append(frontier, &node{snap: w.snapshot(), tr: tr, hist: hist, allRec: true})
		}
	}
	depth := 0
	for ; len(frontier) > 0 && depth < bd.depth; depth++ {
		var next []*node
		for _, nd := range frontier {
			if budget != nil && budget.Exceeded() {
				out.CapHit = true // internal deadline: stop cleanly, the run is reported as not exhaustive
				break
			}
			// enabled actions: reconcile any pod; any foreign update on any existing PodGroup
			labels := []string{}
			for _, p := range sc.Pods {
				labels = append(labels, rLabel(p.Name))
			}
			names := []string{}
			for _, g := range nd.snap.PGs {
				names = append(names, g.Name)
			}
			sort.Strings(names)
			if len(names) > bd.maxTargets {
				names = names[:bd.maxTargets] // groups are independent: the others stay untouched controls
			}
			for _, g := range names {
				for _, k := range bd.foreign {
					labels = append(labels, fLabel(k, g))
				}
			}
			for _, l := range labels {
				w.reset(nd.snap)
				tr := nd.tr
				hist := append(append([]string{}, nd.hist...), l)
				vs, he := step(w, &tr, l, hist, st)
				if he != "" {
					out.HarnessErr = he
					return out
				}
				out.Transitions++
				if out.HarnessErr != "" {
					return out
				}
				v := w.view()
				c := v.canon()
				stores[engine.HashKey(c)] = true
				if len(vs) > 0 {
					addV(vs)
					if out.HarnessErr != "" {
						return out
					}
				}
				k := key(c, tr)
				if seen[k] {
					continue
				}
				seen[k] = true
				all := true
				for _, p := range v.Pods {
					if !p.HasGroup {
						all = false
					}
				}
				if all {
					dor.add(&finalState{hist: hist, view: v, clean: tr.foreign == 0})
				}
				if len(seen) >= bd.maxStates {
					out.CapHit = true
					continue
				}
				next = append(next, &node{snap: w.snapshot(), tr: tr, hist: hist, allRec: all})
			}
		}
		frontier = next
	}
	out.MaxDepth = depth
	out.Closed = len(frontier) == 0 && !out.CapHit
	_ = allMask

	out.Finals = dor.count

	out.States = len(stores)
	out.Reconciles = st.reconciles
	out.Foreign = st.foreignUpdates
	out.WriteFree = st.writeFree
	out.MustFree = st.mustBeWriteFree
	out.AfterForeign = st.reconcilesAfterForeign
	for k := range st.foreignKindsFollowed {
		out.FKinds = append(out.FKinds, k)
	}
	sort.Strings(out.FKinds)
	return out
}
