package c18

import (
	"encoding/json"
	"testing"
)

func TestProbe(t *testing.T) {
	for _, s := range scenarios("quick") {
		if s.Kind != "Workflow>Pod" || s.N != 1 {
			continue
		}
		hist := []string{"R:wf1-step-0", "R:wf1-step-0", "R:wf1-step-0"}
		w := newWorld(s, nil)
		tr := &tracker{}
		st := &stepStats{foreignKindsFollowed: map[string]bool{}}
		for i := range hist {
			vs, he := step(w, tr, hist[i], hist[:i+1], st)
			t.Logf("%s step %d: he=%q writes=%v", s.Name, i, he, w.writes)
			for _, v := range vs {
				t.Logf("   %s", v.Key)
			}
			b, _ := json.Marshal(w.view().PGs)
			t.Logf("   %s", b)
		}
	}
}
