package c18

import (
	"context"
	"encoding/json"
	"fmt"
	"reflect"
	"sort"
	"strings"

	v1 "k8s.io/api/core/v1"
	schedulingv1 "k8s.io/api/scheduling/v1"
	"k8s.io/apimachinery/pkg/api/meta"
	metav1 "k8s.io/apimachinery/pkg/apis/meta/v1"
	"k8s.io/apimachinery/pkg/apis/meta/v1/unstructured"
	"k8s.io/apimachinery/pkg/runtime"
	"k8s.io/apimachinery/pkg/runtime/schema"
	"k8s.io/apimachinery/pkg/runtime/serializer"
	"k8s.io/apimachinery/pkg/types"
	utilruntime "k8s.io/apimachinery/pkg/util/runtime"
	clientgoscheme "k8s.io/client-go/kubernetes/scheme"
	k8stesting "k8s.io/client-go/testing"
	ctrl "sigs.k8s.io/controller-runtime"
	"sigs.k8s.io/controller-runtime/pkg/client"
	"sigs.k8s.io/controller-runtime/pkg/client/apiutil"
	"sigs.k8s.io/controller-runtime/pkg/client/fake"
	"sigs.k8s.io/controller-runtime/pkg/client/interceptor"

	v2 "github.com/NVIDIA/KAI-scheduler/pkg/apis/scheduling/v2"
	"github.com/NVIDIA/KAI-scheduler/pkg/apis/scheduling/v2alpha2"
	"github.com/NVIDIA/KAI-scheduler/pkg/common/constants"
	controllers "github.com/NVIDIA/KAI-scheduler/pkg/podgrouper"
	pluginshub "github.com/NVIDIA/KAI-scheduler/pkg/podgrouper/podgrouper/hub"
)

const (
	ns           = "ns1"
	queueKey     = constants.DefaultQueueLabel
	nodePoolKey  = constants.DefaultNodePoolLabelKey
	pgAnnotation = constants.PodGroupAnnotationForPod
	subGroupKey  = constants.SubGroupLabelKey
)

// newScheme registers exactly what cmd/podgrouper/app registers.
func newScheme() *runtime.Scheme {
	s := runtime.NewScheme()
	utilruntime.Must(clientgoscheme.AddToScheme(s))
	utilruntime.Must(v2.AddToScheme(s))
	utilruntime.Must(v2alpha2.AddToScheme(s))
	return s
}

// write is one mutating client call issued by the controller during a reconcile.
type write struct {
	Verb   string   `json:"verb"`
	Kind   string   `json:"kind"`
	Name   string   `json:"name"`
	Fields []string `json:"fields,omitempty"` // fields in which the sent object differs from the stored one
}

type countingRecorder struct{ events []string }

func (r *countingRecorder) Event(_ runtime.Object, et, reason, msg string) {
	r.events = append(r.events, et+"/"+reason+": "+msg)
}
func (r *countingRecorder) Eventf(o runtime.Object, et, reason, f string, a ...interface{}) {
	r.Event(o, et, reason, fmt.Sprintf(f, a...))
}
func (r *countingRecorder) AnnotatedEventf(o runtime.Object, _ map[string]string, et, reason, f string, a ...interface{}) {
	r.Event(o, et, reason, fmt.Sprintf(f, a...))
}

// world = one API store (controller-runtime fake client) + the REAL pod-grouper reconciler wired on it.
type world struct {
	sc     *scenario
	scheme *runtime.Scheme
	raw    client.WithWatch // the store as other actors see it (uncounted)
	cl     client.WithWatch // what the controller gets: counting + informer-cache emulation
	rec    *controllers.PodReconciler
	events *countingRecorder

	tracker k8stesting.ObjectTracker
	initial *snapshot
	cur     *snapshot // cached snapshot of the store; nil after any write
	// ownerPrio: current overrides of the owners' priorityClassName label (event "owner-relabelled")
	ownerPrio map[string]string

	writes []write
	reads  int
}

func configs() controllers.Configs {
	// the defaults of cmd/podgrouper/app/options.go
	return controllers.Configs{
		NodePoolLabelKey:         constants.DefaultNodePoolLabelKey,
		MaxConcurrentReconciles:  10,
		SearchForLegacyPodGroups: true,
		KnativeGangSchedule:      true,
		SchedulerName:            constants.DefaultSchedulerName,
		SchedulingQueueLabelKey:  constants.DefaultQueueLabel,
		PodLabelSelector:         map[string]string{},
		NamespaceLabelSelector:   map[string]string{},
	}
}

// snapshot is the mutable part of a store: pods and PodGroups (owners / priority classes are static).
type snapshot struct {
	Pods []*v1.Pod
	PGs  []*v2alpha2.PodGroup
	// OwnerPrio: owners (apiVersion/kind/name) whose priorityClassName label the environment event
	// "owner-relabelled" has changed, with the current value
	OwnerPrio map[string]string
	view *storeView // lazily computed; snapshots are immutable once taken
}


var (
	podGVR = schema.GroupVersionResource{Group: "", Version: "v1", Resource: "pods"}
	pgGVR  = schema.GroupVersionResource{Group: "scheduling.run.ai", Version: "v2alpha2", Resource: "podgroups"}
)

// newWorld builds the store with the scenario's owners, priority classes and (unreconciled) pods and wires
// the real reconciler on it. A plain client-go ObjectTracker is used below the fake client (the default
// field-managed tracker only adds server-side-apply bookkeeping, which the pod-grouper does not use).
func newWorld(sc *scenario, snap *snapshot) *world {
	// one scheme per world: the fake client registers unknown owner kinds into it on first use
	w := &world{sc: sc, scheme: newScheme(), events: &countingRecorder{}}
	w.tracker = k8stesting.NewObjectTracker(w.scheme, serializer.NewCodecFactory(w.scheme).UniversalDecoder())
	b := fake.NewClientBuilder().WithScheme(w.scheme).WithObjectTracker(w.tracker).WithStatusSubresource(&v2alpha2.PodGroup{})
	objs := []client.Object{}
	for _, pc := range []string{"train", "build", "inference", "prio-high"} {
		objs = append(objs, &schedulingv1.PriorityClass{ObjectMeta: metav1.ObjectMeta{Name: pc}, Value: 50})
	}
	for _, o := range sc.Owners {
		objs = append(objs, o.DeepCopy())
	}
	for _, p := range sc.Pods {
		objs = append(objs, p.DeepCopy())
	}
	w.raw = b.WithObjects(objs...).Build()
	w.cl = interceptor.NewClient(w.raw, w.funcs())
	cfg := configs()
	hub := pluginshub.NewDefaultPluginsHub(w.cl, cfg.SearchForLegacyPodGroups, cfg.KnativeGangSchedule,
		cfg.SchedulingQueueLabelKey, cfg.NodePoolLabelKey,
		cfg.DefaultConfigPerTypeConfigMapName, cfg.DefaultConfigPerTypeConfigMapNamespace)
	w.rec = controllers.NewVerifPodReconciler(w.cl, w.cl, cfg, hub, w.events)
	w.initial = w.snapshot()
	if snap != nil {
		w.reset(snap)
	}
	return w
}

// reset puts the mutable part of the store (pods, PodGroups) back to a snapshot (nil = initial store).
func (w *world) reset(snap *snapshot) {
	if snap == nil {
		snap = w.initial
	}
	cur := w.snapshot()
	for _, g := range cur.PGs {
		must(w.tracker.Delete(pgGVR, ns, g.Name))
	}
	for _, g := range snap.PGs {
		must(w.tracker.Create(pgGVR, g.DeepCopy(), ns))
	}
	for _, p := range cur.Pods {
		must(w.tracker.Delete(podGVR, ns, p.Name))
	}
	for _, p := range snap.Pods {
		must(w.tracker.Create(podGVR, p.DeepCopy(), ns))
	}
	for k := range w.ownerPrio {
		if _, keep := snap.OwnerPrio[k]; !keep {
			must(w.setOwnerPrio(k, ""))
		}
	}
	for k, v := range snap.OwnerPrio {
		if w.ownerPrio[k] != v {
			must(w.setOwnerPrio(k, v))
		}
	}
	w.cur = snap
	w.events.events = nil
	w.writes, w.reads = nil, 0
}

// removePod deletes a pod from the store (models "this replica has not been created yet").
func (w *world) removePod(name string) { w.cur = nil; must(w.tracker.Delete(podGVR, ns, name)) }

func (w *world) snapshot() *snapshot {
	if w.cur != nil {
		return w.cur
	}
	s := &snapshot{}
	var pl v1.PodList
	must(w.raw.List(context.Background(), &pl))
	for i := range pl.Items {
		s.Pods = append(s.Pods, pl.Items[i].DeepCopy())
	}
	var gl v2alpha2.PodGroupList
	must(w.raw.List(context.Background(), &gl))
	for i := range gl.Items {
		s.PGs = append(s.PGs, gl.Items[i].DeepCopy())
	}
	s.OwnerPrio = map[string]string{}
	for k, v := range w.ownerPrio {
		s.OwnerPrio[k] = v
	}
	w.cur = s
	return s
}

// setOwnerPrio writes the scenario's owner object (as built) with its priorityClassName label set to
// val ("" = as built) straight into the object tracker.
func (w *world) setOwnerPrio(key, val string) error {
	for _, o := range w.sc.Owners {
		if o.GetAPIVersion()+"/"+o.GetKind()+"/"+o.GetName() != key {
			continue
		}
		c := o.DeepCopy()
		if val != "" {
			l := map[string]string{}
			for k, v := range c.GetLabels() {
				l[k] = v
			}
			l["priorityClassName"] = val
			c.SetLabels(l)
		}
		gvr, _ := meta.UnsafeGuessKindToResource(c.GroupVersionKind())
		cur, err := w.tracker.Get(gvr, ns, c.GetName())
		if err != nil {
			return err
		}
		if acc, err := meta.Accessor(cur); err == nil {
			c.SetResourceVersion(acc.GetResourceVersion())
		}
		if err := w.tracker.Update(gvr, c, ns); err != nil {
			return err
		}
		if w.ownerPrio == nil {
			w.ownerPrio = map[string]string{}
		}
		if val == "" {
			delete(w.ownerPrio, key)
		} else {
			w.ownerPrio[key] = val
		}
		return nil
	}
	return nil // the owner is not one of the scenario's owner objects (a pod that is its own owner): no event
}

func must(err error) {
	if err != nil {
		panic(fmt.Sprintf("harness: %v", err))
	}
}

// setGVK emulates the manager's cache reader (pkg/cache/internal/cache_reader.go sets the GVK on every
// typed object it hands out); the production client of the pod-grouper is that cached client.
func (w *world) setGVK(obj runtime.Object) {
	if _, ok := obj.(runtime.Unstructured); ok {
		return
	}
	if gvk, err := apiutil.GVKForObject(obj, w.scheme); err == nil {
		obj.GetObjectKind().SetGroupVersionKind(gvk)
	}
}

func kindOf(obj runtime.Object, s *runtime.Scheme) string {
	if gvk, err := apiutil.GVKForObject(obj, s); err == nil {
		return gvk.Kind
	}
	return fmt.Sprintf("%T", obj)
}

func (w *world) funcs() interceptor.Funcs {
	rec := func(verb string, obj client.Object, fields []string) {
		w.writes = append(w.writes, write{Verb: verb, Kind: kindOf(obj, w.scheme), Name: obj.GetName(), Fields: fields})
	}
	return interceptor.Funcs{
		Get: func(ctx context.Context, c client.WithWatch, key client.ObjectKey, obj client.Object, opts ...client.GetOption) error {
			w.reads++
			err := c.Get(ctx, key, obj, opts...)
			if err == nil {
				w.setGVK(obj)
			}
			return err
		},
		List: func(ctx context.Context, c client.WithWatch, list client.ObjectList, opts ...client.ListOption) error {
			w.reads++
			err := c.List(ctx, list, opts...)
			if err == nil {
				_ = meta.EachListItem(list, func(o runtime.Object) error { w.setGVK(o); return nil })
			}
			return err
		},
		Create: func(ctx context.Context, c client.WithWatch, obj client.Object, opts ...client.CreateOption) error {
			rec("create", obj, nil)
			return c.Create(ctx, obj, opts...)
		},
		Update: func(ctx context.Context, c client.WithWatch, obj client.Object, opts ...client.UpdateOption) error {
			rec("update", obj, w.diffAgainstStored(c, obj))
			return c.Update(ctx, obj, opts...)
		},
		Patch: func(ctx context.Context, c client.WithWatch, obj client.Object, p client.Patch, opts ...client.PatchOption) error {
			rec("patch", obj, w.diffAgainstStored(c, obj))
			return c.Patch(ctx, obj, p, opts...)
		},
		Delete: func(ctx context.Context, c client.WithWatch, obj client.Object, opts ...client.DeleteOption) error {
			rec("delete", obj, nil)
			return c.Delete(ctx, obj, opts...)
		},
		DeleteAllOf: func(ctx context.Context, c client.WithWatch, obj client.Object, opts ...client.DeleteAllOfOption) error {
			rec("deleteallof", obj, nil)
			return c.DeleteAllOf(ctx, obj, opts...)
		},
		Apply: func(ctx context.Context, c client.WithWatch, obj runtime.ApplyConfiguration, opts ...client.ApplyOption) error {
			w.writes = append(w.writes, write{Verb: "apply", Kind: fmt.Sprintf("%T", obj)})
			return c.Apply(ctx, obj, opts...)
		},
		SubResourceCreate: func(ctx context.Context, c client.Client, sub string, obj client.Object, s client.Object, opts ...client.SubResourceCreateOption) error {
			rec("create/"+sub, obj, nil)
			return c.SubResource(sub).Create(ctx, obj, s, opts...)
		},
		SubResourceUpdate: func(ctx context.Context, c client.Client, sub string, obj client.Object, opts ...client.SubResourceUpdateOption) error {
			rec("update/"+sub, obj, nil)
			return c.SubResource(sub).Update(ctx, obj, opts...)
		},
		SubResourcePatch: func(ctx context.Context, c client.Client, sub string, obj client.Object, p client.Patch, opts ...client.SubResourcePatchOption) error {
			rec("patch/"+sub, obj, nil)
			return c.SubResource(sub).Patch(ctx, obj, p, opts...)
		},
	}
}

// diffAgainstStored names the fields in which the object the controller is about to write differs
// (reflect.DeepEqual, i.e. exactly the comparison the handler uses) from what the store holds.
func (w *world) diffAgainstStored(c client.Reader, obj client.Object) []string {
	switch o := obj.(type) {
	case *v2alpha2.PodGroup:
		cur := &v2alpha2.PodGroup{}
		if err := c.Get(context.Background(), client.ObjectKeyFromObject(o), cur); err != nil {
			return []string{"<not-stored>"}
		}
		return diffPodGroups(cur, o)
	case *v1.Pod:
		cur := &v1.Pod{}
		if err := c.Get(context.Background(), client.ObjectKeyFromObject(o), cur); err != nil {
			return []string{"<not-stored>"}
		}
		out := diffMaps("metadata.labels", cur.Labels, o.Labels)
		out = append(out, diffMaps("metadata.annotations", cur.Annotations, o.Annotations)...)
		a, b := cur.DeepCopy(), o.DeepCopy()
		a.ObjectMeta, b.ObjectMeta = metav1.ObjectMeta{}, metav1.ObjectMeta{}
		a.TypeMeta, b.TypeMeta = metav1.TypeMeta{}, metav1.TypeMeta{}
		if !reflect.DeepEqual(a, b) {
			out = append(out, "spec-or-status")
		}
		return out
	}
	return nil
}

func diffMaps(prefix string, a, b map[string]string) []string {
	keys := map[string]bool{}
	for k := range a {
		keys[k] = true
	}
	for k := range b {
		keys[k] = true
	}
	out := []string{}
	for k := range keys {
		va, oka := a[k]
		vb, okb := b[k]
		if oka != okb || va != vb {
			out = append(out, prefix+"["+k+"]")
		}
	}
	sort.Strings(out)
	return out
}

// diffPodGroups lists differing fields with the same equality the handler uses (reflect.DeepEqual
// per spec field; nil vs empty slices are different).
func diffPodGroups(a, b *v2alpha2.PodGroup) []string {
	out := []string{}
	ta := reflect.TypeOf(a.Spec)
	va, vb := reflect.ValueOf(a.Spec), reflect.ValueOf(b.Spec)
	for i := 0; i < ta.NumField(); i++ {
		if !reflect.DeepEqual(va.Field(i).Interface(), vb.Field(i).Interface()) {
			name := strings.Split(ta.Field(i).Tag.Get("json"), ",")[0]
			out = append(out, "spec."+name)
		}
	}
	if !reflect.DeepEqual(a.OwnerReferences, b.OwnerReferences) {
		out = append(out, "metadata.ownerReferences")
	}
	out = append(out, diffMaps("metadata.labels", a.Labels, b.Labels)...)
	out = append(out, diffMaps("metadata.annotations", a.Annotations, b.Annotations)...)
	// the handler's map comparison (mapsEqualBySourceKeys) also distinguishes a nil stored map from an empty desired one
	if (a.Labels == nil) != (b.Labels == nil) && len(a.Labels) == 0 && len(b.Labels) == 0 {
		out = append(out, "metadata.labels")
	}
	if (a.Annotations == nil) != (b.Annotations == nil) && len(a.Annotations) == 0 && len(b.Annotations) == 0 {
		out = append(out, "metadata.annotations")
	}
	if !reflect.DeepEqual(a.Status, b.Status) {
		out = append(out, "status")
	}
	return out
}

// reconcile runs ONE real PodReconciler.Reconcile for a pod and returns the mutating calls it issued.
func (w *world) reconcile(pod string) (writes []write, reads int, err error) {
	w.writes, w.reads = nil, 0
	w.cur = nil
	_, err = w.rec.Reconcile(context.Background(), ctrl.Request{NamespacedName: types.NamespacedName{Namespace: ns, Name: pod}})
	return w.writes, w.reads, err
}

// ---------------------------------------------------------------- canonical state

type pgView struct {
	Name        string                  `json:"name"`
	Labels      map[string]string       `json:"labels,omitempty"`
	Annotations map[string]string       `json:"annotations,omitempty"`
	Owners      []string                `json:"owners,omitempty"`
	Spec        v2alpha2.PodGroupSpec   `json:"spec"`
	Status      v2alpha2.PodGroupStatus `json:"status"`
}

type podView struct {
	Name     string `json:"name"`
	Group    string `json:"group,omitempty"`
	HasGroup bool   `json:"hasGroup"`
	SubGroup string `json:"subGroup,omitempty"`
}

type storeView struct {
	c    string    // cached canonical encoding
	PGs  []pgView  `json:"podgroups"`
	Pods []podView `json:"pods"`
	// OwnerPrio: see snapshot.OwnerPrio (part of the state: it decides what the next reconcile computes)
	OwnerPrio map[string]string `json:"owner_priority_labels,omitempty"`
}

func ownerStr(o metav1.OwnerReference) string {
	s := fmt.Sprintf("%s/%s/%s/%s", o.APIVersion, o.Kind, o.Name, o.UID)
	if o.Controller != nil {
		s += fmt.Sprintf("/controller=%v", *o.Controller)
	}
	if o.BlockOwnerDeletion != nil {
		s += fmt.Sprintf("/block=%v", *o.BlockOwnerDeletion)
	}
	return s
}

// view = canonical dump of every PodGroup (everything but resourceVersion/generation/timestamps) and
// of the grouping-related metadata of the pods.
func (w *world) view() *storeView {
	s := w.snapshot()
	if s.view != nil {
		return s.view
	}
	v := &storeView{}
	for _, g := range s.PGs {
		pv := pgView{Name: g.Name, Labels: g.Labels, Annotations: g.Annotations, Spec: g.Spec, Status: g.Status}
		for _, o := range g.OwnerReferences {
			pv.Owners = append(pv.Owners, ownerStr(o))
		}
		v.PGs = append(v.PGs, pv)
	}
	sort.Slice(v.PGs, func(i, j int) bool { return v.PGs[i].Name < v.PGs[j].Name })
	for _, p := range s.Pods {
		g, ok := p.Annotations[pgAnnotation]
		v.Pods = append(v.Pods, podView{Name: p.Name, Group: g, HasGroup: ok, SubGroup: p.Labels[subGroupKey]})
	}
	sort.Slice(v.Pods, func(i, j int) bool { return v.Pods[i].Name < v.Pods[j].Name })
	if len(s.OwnerPrio) > 0 {
		v.OwnerPrio = s.OwnerPrio
	}
	s.view = v
	return v
}

func (v *storeView) canon() string {
	if v.c == "" {
		b, err := json.Marshal(v)
		must(err)
		v.c = string(b)
	}
	return v.c
}

func (v *storeView) pg(name string) *pgView {
	for i := range v.PGs {
		if v.PGs[i].Name == name {
			return &v.PGs[i]
		}
	}
	return nil
}

func (v *storeView) pod(name string) *podView {
	for i := range v.Pods {
		if v.Pods[i].Name == name {
			return &v.Pods[i]
		}
	}
	return nil
}

// ---------------------------------------------------------------- foreign actors

// Foreign updates: writes by OTHER actors (pod-group-assigner / admin / scheduler) straight to the store.
// "owner-relabelled" is not a write to the PodGroup: the workload's top owner gets another
// priorityClassName label, so that the NEXT reconcile has a legitimate difference to write - and has to
// write it without touching the fields other actors own.
var foreignKinds = []string{"queue", "queue-spec-only", "queue-label-only", "markUnschedulable", "schedulingBackoff", "nodepool", "nodepool-removed", "scheduler", "owner-relabelled"}

const (
	foreignQueue    = "q-foreign"
	foreignNodePool = "pool-foreign"
)

func (w *world) foreign(kind, pgName string) error {
	w.cur = nil
	ctx := context.Background()
	g := &v2alpha2.PodGroup{}
	if err := w.raw.Get(ctx, types.NamespacedName{Namespace: ns, Name: pgName}, g); err != nil {
		return err
	}
	if g.Labels == nil {
		g.Labels = map[string]string{}
	}
	if g.Annotations == nil {
		g.Annotations = map[string]string{}
	}
	switch kind {
	case "owner-relabelled":
		if len(g.OwnerReferences) == 0 {
			return nil
		}
		ref := g.OwnerReferences[0]
		key := ref.APIVersion + "/" + ref.Kind + "/" + ref.Name
		if w.ownerPrio[key] != "" {
			return nil // one relabelling per owner and history
		}
		return w.setOwnerPrio(key, "train")
	case "queue":
		g.Spec.Queue = foreignQueue
		g.Labels[queueKey] = foreignQueue
	case "queue-spec-only":
		g.Spec.Queue = foreignQueue
	case "queue-label-only":
		g.Labels[queueKey] = foreignQueue
	case "markUnschedulable":
		t := true
		g.Spec.MarkUnschedulable = &t
	case "schedulingBackoff":
		n := int32(-1)
		g.Spec.SchedulingBackoff = &n
	case "nodepool":
		g.Labels[nodePoolKey] = foreignNodePool
	case "nodepool-removed":
		// the owner of the node-pool label takes it off the group (or the group predates the label)
		delete(g.Labels, nodePoolKey)
	case "scheduler":
		// what the scheduler's status updater writes: annotations on the object + the status sub-resource
		g.Annotations[constants.LastStartTimeStamp] = "2020-01-01T00:00:00Z"
		g.Annotations[constants.StalePodgroupTimeStamp] = "2020-01-02T00:00:00Z"
		if err := w.raw.Update(ctx, g); err != nil {
			return err
		}
		if err := w.raw.Get(ctx, types.NamespacedName{Namespace: ns, Name: pgName}, g); err != nil {
			return err
		}
		g.Status.Phase = "Pending"
		g.Status.Pending = 1
		g.Status.SchedulingConditions = []v2alpha2.SchedulingCondition{{Type: v2alpha2.UnschedulableOnNodePool, NodePool: "default", Reason: "test", Message: "m", TransitionID: "1"}}
		return w.raw.Status().Update(ctx, g)
	default:
		return fmt.Errorf("unknown foreign kind %q", kind)
	}
	return w.raw.Update(ctx, g)
}

// foreignFields = the fields of a PodGroup that the statement assigns to other actors once it exists.
func foreignFields(g *pgView) map[string]string {
	m := map[string]string{
		"spec.queue":             g.Spec.Queue,
		"spec.markUnschedulable": "<nil>",
		"spec.schedulingBackoff": "<nil>",
	}
	if g.Spec.MarkUnschedulable != nil {
		m["spec.markUnschedulable"] = fmt.Sprint(*g.Spec.MarkUnschedulable)
	}
	if g.Spec.SchedulingBackoff != nil {
		m["spec.schedulingBackoff"] = fmt.Sprint(*g.Spec.SchedulingBackoff)
	}
	lab := func(k string) string {
		if v, ok := g.Labels[k]; ok {
			return "=" + v
		}
		return "<absent>"
	}
	m["metadata.labels["+queueKey+"]"] = lab(queueKey)
	m["metadata.labels["+nodePoolKey+"]"] = lab(nodePoolKey)
	for _, k := range []string{constants.LastStartTimeStamp, constants.StalePodgroupTimeStamp} {
		if v, ok := g.Annotations[k]; ok {
			m["metadata.annotations["+k+"]"] = "=" + v
		} else {
			m["metadata.annotations["+k+"]"] = "<absent>"
		}
	}
	sb, _ := json.Marshal(g.Status)
	m["status"] = string(sb)
	return m
}

// ownedView = what the grouper derives from the workload (everything but the foreign-owned fields).
func ownedView(g *pgView) map[string]string {
	js := func(v any) string { b, _ := json.Marshal(v); return string(b) }
	m := map[string]string{
		"spec.minMember":           fmt.Sprint(g.Spec.MinMember),
		"spec.priorityClassName":   g.Spec.PriorityClassName,
		"spec.preemptibility":      string(g.Spec.Preemptibility),
		"spec.subGroups":           js(g.Spec.SubGroups),
		"spec.topologyConstraint":  js(g.Spec.TopologyConstraint),
		"spec.parallelism":         fmt.Sprint(g.Spec.Parallelism),
		"spec.completions":         fmt.Sprint(g.Spec.Completions),
		"spec.backoffLimit":        fmt.Sprint(g.Spec.BackoffLimit),
		"metadata.ownerReferences": js(g.Owners),
	}
	for k, v := range g.Labels {
		if k == queueKey || k == nodePoolKey {
			continue
		}
		m["metadata.labels["+k+"]"] = v
	}
	for k, v := range g.Annotations {
		if k == constants.LastStartTimeStamp || k == constants.StalePodgroupTimeStamp {
			continue
		}
		m["metadata.annotations["+k+"]"] = v
	}
	return m
}

var _ = unstructured.Unstructured{}
