package c18

import (
	"fmt"

	v1 "k8s.io/api/core/v1"
	"k8s.io/apimachinery/pkg/api/resource"
	metav1 "k8s.io/apimachinery/pkg/apis/meta/v1"
	"k8s.io/apimachinery/pkg/apis/meta/v1/unstructured"
	"k8s.io/apimachinery/pkg/types"
	"k8s.io/utils/ptr"

	"github.com/NVIDIA/KAI-scheduler/pkg/common/constants"
)

// scenario = one workload (owner chain + its sibling pods) in an otherwise empty namespace.
type scenario struct {
	Name   string // unique, e.g. "PyTorchJob/n3/f1"
	Kind   string // owner kind / chain label used in violation keys
	Chain  string // human readable owner chain
	N      int
	Owners []*unstructured.Unstructured
	Pods   []*v1.Pod
	// Part[i] = documented group of pod i: pods with equal ids must share a PodGroup, different ids must not.
	Part   []int
	PerPod bool // documented / unit-test-codified "one PodGroup per pod" kind
	// Required pods are links of their siblings' owner chain (LWS leader): they exist whenever a sibling does.
	Required map[string]bool
}

type obj = map[string]interface{}

// flavour = where the workload carries its scheduling metadata.
type flavour struct {
	ownerLabels, ownerAnn, podLabels, podAnn map[string]string
	podPriorityClass                         string
}

var flavours = []flavour{
	{}, // f0: nothing -> default queue, default priority of the kind
	{ // f1: metadata on the top owner
		ownerLabels: map[string]string{queueKey: "team-a", "priorityClassName": "prio-high", "user": "carol", "app": "demo"},
		ownerAnn:    map[string]string{"note": "hello"},
	},
	{ // f2: metadata on the pod template (identical for all roles)
		podLabels:        map[string]string{queueKey: "team-b", "user": "alice", nodePoolKey: "pool-a", "kai.scheduler/preemptibility": "non-preemptible"},
		podAnn:           map[string]string{"user": "alice-ann"},
		podPriorityClass: "build",
	},
	{ // f3: project-derived queue + topology on the owner
		ownerLabels: map[string]string{"project": "proj1", "kai.scheduler/preemptibility": "preemptible"},
		ownerAnn: map[string]string{"kai.scheduler/topology": "topo-1", "kai.scheduler/topology-required-placement": "rack",
			"kai.scheduler/topology-preferred-placement": "host"},
		podLabels: map[string]string{nodePoolKey: "pool-a"},
	},
}

func merge(ms ...map[string]string) map[string]string {
	out := map[string]string{}
	for _, m := range ms {
		for k, v := range m {
			out[k] = v
		}
	}
	if len(out) == 0 {
		return nil
	}
	return out
}

func toIface(m map[string]string) map[string]interface{} {
	out := map[string]interface{}{}
	for k, v := range m {
		out[k] = v
	}
	return out
}

func mkOwner(apiVersion, kind, name string, labels, ann map[string]string, spec obj, parent *metav1.OwnerReference) *unstructured.Unstructured {
	u := &unstructured.Unstructured{Object: obj{}}
	u.SetAPIVersion(apiVersion)
	u.SetKind(kind)
	u.SetName(name)
	u.SetNamespace(ns)
	u.SetUID(types.UID("uid-" + kind + "-" + name))
	if len(labels) > 0 {
		u.SetLabels(labels)
	}
	if len(ann) > 0 {
		u.SetAnnotations(ann)
	}
	if spec != nil {
		u.Object["spec"] = spec
	}
	if parent != nil {
		u.SetOwnerReferences([]metav1.OwnerReference{*parent})
	}
	return u
}

func refTo(u *unstructured.Unstructured) *metav1.OwnerReference {
	return &metav1.OwnerReference{APIVersion: u.GetAPIVersion(), Kind: u.GetKind(), Name: u.GetName(), UID: u.GetUID(),
		Controller: ptr.To(true), BlockOwnerDeletion: ptr.To(true)}
}

func refToPod(p *v1.Pod) *metav1.OwnerReference {
	return &metav1.OwnerReference{APIVersion: "v1", Kind: "Pod", Name: p.Name, UID: p.UID,
		Controller: ptr.To(true), BlockOwnerDeletion: ptr.To(true)}
}

// mkPod: role drives the (role-specific) part of the template: container name, image and requests.
func mkPod(name, role string, labels, ann map[string]string, f flavour, owner *metav1.OwnerReference) *v1.Pod {
	cpu := "1"
	if role != "" && role != "worker" {
		cpu = "2"
	}
	p := &v1.Pod{
		ObjectMeta: metav1.ObjectMeta{Name: name, Namespace: ns, UID: types.UID("uid-pod-" + name),
			Labels: merge(f.podLabels, labels), Annotations: merge(f.podAnn, ann)},
		Spec: v1.PodSpec{
			SchedulerName:     constants.DefaultSchedulerName,
			PriorityClassName: f.podPriorityClass,
			Containers: []v1.Container{{Name: "c-" + role, Image: "img-" + role,
				Resources: v1.ResourceRequirements{Requests: v1.ResourceList{v1.ResourceCPU: resource.MustParse(cpu)}}}},
		},
	}
	if owner != nil {
		p.OwnerReferences = []metav1.OwnerReference{*owner}
	}
	return p
}

func tmpl(f flavour, role string) obj {
	md := obj{}
	if l := merge(f.podLabels); l != nil {
		md["labels"] = toIface(l)
	}
	if a := merge(f.podAnn); a != nil {
		md["annotations"] = toIface(a)
	}
	return obj{"metadata": md, "spec": obj{"schedulerName": constants.DefaultSchedulerName,
		"containers": []interface{}{obj{"name": "c-" + role, "image": "img-" + role}}}}
}

type builder func(n int, f flavour) *scenario

func same(n int) []int { return make([]int, n) }
func each(n int) []int {
	p := make([]int, n)
	for i := range p {
		p[i] = i
	}
	return p
}

var suffixes = []string{"x7k2p", "b9q4m", "h3w8z", "t5n1c"}

func bPod(n int, f flavour) *scenario {
	sc := &scenario{Kind: "Pod", Chain: "Pod (no owner)", Part: each(n), PerPod: true}
	for i := 0; i < n; i++ {
		// a bare pod is its own "owner": the flavour's owner metadata sits on the pod itself
		p := mkPod(fmt.Sprintf("solo-%d", i), "main", f.ownerLabels, f.ownerAnn, f, nil)
		sc.Pods = append(sc.Pods, p)
	}
	return sc
}

func bJob(n int, f flavour) *scenario {
	sc := &scenario{Kind: "Job", Chain: "Job -> Pod", Part: each(n), PerPod: true}
	job := mkOwner("batch/v1", "Job", "job1", f.ownerLabels, f.ownerAnn,
		obj{"parallelism": int64(n), "completions": int64(n), "template": tmpl(f, "main")}, nil)
	sc.Owners = append(sc.Owners, job)
	for i := 0; i < n; i++ {
		sc.Pods = append(sc.Pods, mkPod("job1-"+suffixes[i], "main",
			map[string]string{"job-name": "job1", "batch.kubernetes.io/job-name": "job1"}, nil, f, refTo(job)))
	}
	return sc
}

func bDeployment(n int, f flavour) *scenario {
	sc := &scenario{Kind: "Deployment", Chain: "Deployment -> ReplicaSet -> Pod", Part: each(n), PerPod: true}
	dep := mkOwner("apps/v1", "Deployment", "dep1", f.ownerLabels, f.ownerAnn, obj{"replicas": int64(n), "template": tmpl(f, "main")}, nil)
	rs := mkOwner("apps/v1", "ReplicaSet", "dep1-5d4f7c", merge(f.podLabels, map[string]string{"pod-template-hash": "5d4f7c"}), nil,
		obj{"replicas": int64(n), "template": tmpl(f, "main")}, refTo(dep))
	sc.Owners = append(sc.Owners, dep, rs)
	for i := 0; i < n; i++ {
		sc.Pods = append(sc.Pods, mkPod("dep1-5d4f7c-"+suffixes[i], "main", map[string]string{"pod-template-hash": "5d4f7c"}, nil, f, refTo(rs)))
	}
	return sc
}

func bStatefulSet(n int, f flavour) *scenario {
	sc := &scenario{Kind: "StatefulSet", Chain: "StatefulSet -> Pod", Part: same(n)}
	sts := mkOwner("apps/v1", "StatefulSet", "sts1", f.ownerLabels, f.ownerAnn, obj{"replicas": int64(n), "template": tmpl(f, "main")}, nil)
	sc.Owners = append(sc.Owners, sts)
	for i := 0; i < n; i++ {
		sc.Pods = append(sc.Pods, mkPod(fmt.Sprintf("sts1-%d", i), "main",
			map[string]string{"statefulset.kubernetes.io/pod-name": fmt.Sprintf("sts1-%d", i)}, nil, f, refTo(sts)))
	}
	return sc
}

func kubeflowLabels(job, rtype string, idx int) map[string]string {
	l := map[string]string{
		"training.kubeflow.org/job-name":      job,
		"training.kubeflow.org/replica-type":  rtype,
		"training.kubeflow.org/replica-index": fmt.Sprint(idx),
		"training.kubeflow.org/operator-name": "op",
	}
	if rtype == "master" || rtype == "launcher" {
		l["training.kubeflow.org/job-role"] = rtype
	}
	return l
}

func pytorchOwner(name string, n int, f flavour, minAvailable int64, parent *metav1.OwnerReference, labels, ann map[string]string) *unstructured.Unstructured {
	specs := obj{"Master": obj{"replicas": int64(1), "restartPolicy": "OnFailure", "template": tmpl(f, "master")}}
	if n > 1 {
		specs["Worker"] = obj{"replicas": int64(n - 1), "restartPolicy": "OnFailure", "template": tmpl(f, "worker")}
	}
	spec := obj{"pytorchReplicaSpecs": specs}
	if minAvailable > 0 {
		spec["runPolicy"] = obj{"schedulingPolicy": obj{"minAvailable": minAvailable}}
	}
	return mkOwner("kubeflow.org/v1", "PyTorchJob", name, labels, ann, spec, parent)
}

func pytorchPods(sc *scenario, job *unstructured.Unstructured, n int, f flavour) {
	name := job.GetName()
	sc.Pods = append(sc.Pods, mkPod(name+"-master-0", "master", kubeflowLabels(name, "master", 0), nil, f, refTo(job)))
	for i := 1; i < n; i++ {
		sc.Pods = append(sc.Pods, mkPod(fmt.Sprintf("%s-worker-%d", name, i-1), "worker", kubeflowLabels(name, "worker", i-1), nil, f, refTo(job)))
	}
}

func bPyTorch(n int, f flavour) *scenario {
	sc := &scenario{Kind: "PyTorchJob", Chain: "PyTorchJob -> Pod (master+workers)", Part: same(n)}
	job := pytorchOwner("pt1", n, f, 0, nil, f.ownerLabels, f.ownerAnn)
	sc.Owners = append(sc.Owners, job)
	pytorchPods(sc, job, n, f)
	return sc
}

// bPyTorchSegments: a PyTorchJob whose WORKER template declares topology segments (segment size,
// required placement, a topology of its own) while the job object names ANOTHER topology: the master
// pod does not carry the worker template's annotations, so whatever it derives for the worker segments
// has to come out the same as what the workers derive.
func bPyTorchSegments(n int, f flavour) *scenario {
	n = []int{0, 3, 4, 3}[min(n, 3)] // master + 2 or 3 workers (3 workers: two segments, the second one partial)
	sc := &scenario{Kind: "PyTorchJob", Chain: "PyTorchJob (worker segments, topology on job AND worker template) -> Pod", Part: same(n)}
	wann := map[string]string{"kai.scheduler/segment-size": "2", "kai.scheduler/segment-topology-required-placement": "rack", "kai.scheduler/topology": "topo-worker"}
	wf := f
	wf.podAnn = merge(f.podAnn, wann)
	specs := obj{"Master": obj{"replicas": int64(1), "restartPolicy": "OnFailure", "template": tmpl(f, "master")},
		"Worker": obj{"replicas": int64(n - 1), "restartPolicy": "OnFailure", "template": tmpl(wf, "worker")}}
	job := mkOwner("kubeflow.org/v1", "PyTorchJob", "pt3", f.ownerLabels, merge(f.ownerAnn, map[string]string{"kai.scheduler/topology": "topo-job"}), obj{"pytorchReplicaSpecs": specs}, nil)
	sc.Owners = append(sc.Owners, job)
	sc.Pods = append(sc.Pods, mkPod("pt3-master-0", "master", kubeflowLabels("pt3", "master", 0), nil, f, refTo(job)))
	for i := 1; i < n; i++ {
		sc.Pods = append(sc.Pods, mkPod(fmt.Sprintf("pt3-worker-%d", i-1), "worker", kubeflowLabels("pt3", "worker", i-1), nil, wf, refTo(job)))
	}
	return sc
}

func bPyTorchMinAvailable(n int, f flavour) *scenario {
	sc := &scenario{Kind: "PyTorchJob", Chain: "PyTorchJob(schedulingPolicy.minAvailable) -> Pod", Part: same(n)}
	job := pytorchOwner("pt2", n, f, int64(max(1, n-1)), nil, f.ownerLabels, f.ownerAnn)
	sc.Owners = append(sc.Owners, job)
	pytorchPods(sc, job, n, f)
	return sc
}

func bMPI(n int, f flavour) *scenario {
	// mpi-operator v2: the launcher pod belongs to a batch Job owned by the MPIJob; workers belong to the MPIJob
	sc := &scenario{Kind: "MPIJob", Chain: "MPIJob -> (Job ->) Pod (launcher+workers)", Part: same(n)}
	workers := max(1, n-1)
	job := mkOwner("kubeflow.org/v2beta1", "MPIJob", "mpi1", f.ownerLabels, f.ownerAnn, obj{
		"slotsPerWorker": int64(1),
		"mpiReplicaSpecs": obj{
			"Launcher": obj{"replicas": int64(1), "template": tmpl(f, "launcher")},
			"Worker":   obj{"replicas": int64(workers), "template": tmpl(f, "worker")},
		}}, nil)
	lj := mkOwner("batch/v1", "Job", "mpi1-launcher", kubeflowLabels("mpi1", "launcher", 0), nil, obj{"template": tmpl(f, "launcher")}, refTo(job))
	sc.Owners = append(sc.Owners, job, lj)
	sc.Pods = append(sc.Pods, mkPod("mpi1-launcher-"+suffixes[0], "launcher", kubeflowLabels("mpi1", "launcher", 0), nil, f, refTo(lj)))
	for i := 1; i < n; i++ {
		sc.Pods = append(sc.Pods, mkPod(fmt.Sprintf("mpi1-worker-%d", i-1), "worker", kubeflowLabels("mpi1", "worker", i-1), nil, f, refTo(job)))
	}
	return sc
}

func jobSetObjects(sc *scenario, name string, n int, f flavour, order string, parent *metav1.OwnerReference, labels, ann map[string]string) {
	spec := obj{"replicatedJobs": []interface{}{
		obj{"name": "a", "replicas": int64(1), "template": obj{"spec": obj{"parallelism": int64(2), "completions": int64(2), "template": tmpl(f, "a")}}},
		obj{"name": "b", "replicas": int64(1), "template": obj{"spec": obj{"parallelism": int64(2), "completions": int64(2), "template": tmpl(f, "b")}}},
	}}
	if order != "" {
		spec["startupPolicy"] = obj{"startupPolicyOrder": order}
	}
	js := mkOwner("jobset.x-k8s.io/v1alpha2", "JobSet", name, labels, ann, spec, parent)
	sc.Owners = append(sc.Owners, js)
	jobs := map[string]*unstructured.Unstructured{}
	for _, rj := range []string{"a", "b"} {
		j := mkOwner("batch/v1", "Job", name+"-"+rj+"-0", map[string]string{"jobset.sigs.k8s.io/jobset-name": name, "jobset.sigs.k8s.io/replicatedjob-name": rj}, nil,
			obj{"parallelism": int64(2), "completions": int64(2), "template": tmpl(f, rj)}, refTo(js))
		jobs[rj] = j
		sc.Owners = append(sc.Owners, j)
	}
	// pod i: a,a,b,b
	for i := 0; i < n; i++ {
		rj := "a"
		if i >= 2 {
			rj = "b"
		}
		sc.Pods = append(sc.Pods, mkPod(fmt.Sprintf("%s-%s-0-%d-%s", name, rj, i%2, suffixes[i]), rj, map[string]string{
			"jobset.sigs.k8s.io/jobset-name": name, "jobset.sigs.k8s.io/replicatedjob-name": rj,
			"jobset.sigs.k8s.io/job-index": "0", "batch.kubernetes.io/job-name": name + "-" + rj + "-0"}, nil, f, refTo(jobs[rj])))
		if order == "" || order == "InOrder" {
			sc.Part = append(sc.Part, map[string]int{"a": 0, "b": 1}[rj])
		} else {
			sc.Part = append(sc.Part, 0)
		}
	}
}

func bJobSet(n int, f flavour) *scenario {
	// documented: startupPolicyOrder InOrder (default) => one PodGroup per replicatedJob
	sc := &scenario{Kind: "JobSet", Chain: "JobSet(InOrder) -> Job -> Pod"}
	// with n==3 put pods in a,a,b ; n<=2 in a only -> make n==2 span both replicated jobs too via n>=3 only
	jobSetObjects(sc, "js1", n, f, "", nil, f.ownerLabels, f.ownerAnn)
	return sc
}

func bJobSetAnyOrder(n int, f flavour) *scenario {
	sc := &scenario{Kind: "JobSet", Chain: "JobSet(AnyOrder) -> Job -> Pod"}
	jobSetObjects(sc, "js2", n, f, "AnyOrder", nil, f.ownerLabels, f.ownerAnn)
	return sc
}

func lwsObjects(sc *scenario, n, groups int, f flavour, startup string) {
	size := max(n, 1)
	spec := obj{"replicas": int64(groups), "leaderWorkerTemplate": obj{"size": int64(size),
		"leaderTemplate": tmpl(f, "leader"), "workerTemplate": tmpl(f, "worker")}}
	if startup != "" {
		spec["startupPolicy"] = startup
	}
	lws := mkOwner("leaderworkerset.x-k8s.io/v1", "LeaderWorkerSet", "lws1", f.ownerLabels, f.ownerAnn, spec, nil)
	leaderSts := mkOwner("apps/v1", "StatefulSet", "lws1", map[string]string{"leaderworkerset.sigs.k8s.io/name": "lws1"}, nil,
		obj{"replicas": int64(groups)}, refTo(lws))
	sc.Owners = append(sc.Owners, lws, leaderSts)
	for g := 0; g < groups; g++ {
		lab := func(w int) map[string]string {
			return map[string]string{"leaderworkerset.sigs.k8s.io/name": "lws1",
				"leaderworkerset.sigs.k8s.io/group-index": fmt.Sprint(g), "leaderworkerset.sigs.k8s.io/worker-index": fmt.Sprint(w)}
		}
		ann := map[string]string{"leaderworkerset.sigs.k8s.io/size": fmt.Sprint(size)}
		leader := mkPod(fmt.Sprintf("lws1-%d", g), "leader", lab(0), ann, f, refTo(leaderSts))
		if startup == "LeaderReady" {
			leader.Spec.NodeName = "node-1" // LeaderReady creates workers only once the leader runs
		}
		sc.Pods = append(sc.Pods, leader)
		sc.Part = append(sc.Part, g)
		if sc.Required == nil {
			sc.Required = map[string]bool{}
		}
		sc.Required[leader.Name] = true
		if n > 1 {
			// the worker StatefulSet of a group is owned by the group's leader pod
			wsts := mkOwner("apps/v1", "StatefulSet", fmt.Sprintf("lws1-%d", g), lab(0), nil, obj{"replicas": int64(n - 1)}, refToPod(leader))
			sc.Owners = append(sc.Owners, wsts)
			for w := 1; w < n; w++ {
				sc.Pods = append(sc.Pods, mkPod(fmt.Sprintf("lws1-%d-%d", g, w), "worker", lab(w), ann, f, refTo(wsts)))
				sc.Part = append(sc.Part, g)
			}
		}
	}
}

func bLWS(n int, f flavour) *scenario {
	sc := &scenario{Kind: "LeaderWorkerSet", Chain: "LeaderWorkerSet -> StatefulSet -> leader Pod -> StatefulSet -> worker Pods"}
	lwsObjects(sc, n, 1, f, "")
	return sc
}

func bLWSTwoGroups(n int, f flavour) *scenario {
	sc := &scenario{Kind: "LeaderWorkerSet", Chain: "LeaderWorkerSet(2 groups) -> ... -> Pods (one PodGroup per group)"}
	lwsObjects(sc, max(1, n/2+n%2), 2, f, "")
	return sc
}

func bLWSLeaderReady(n int, f flavour) *scenario {
	sc := &scenario{Kind: "LeaderWorkerSet", Chain: "LeaderWorkerSet(LeaderReady, leader scheduled) -> ... -> Pods"}
	lwsObjects(sc, n, 1, f, "LeaderReady")
	return sc
}

func bRay(n int, f flavour) *scenario {
	sc := &scenario{Kind: "RayCluster", Chain: "RayCluster -> Pod (head+workers)", Part: same(n)}
	workers := max(1, n-1)
	rc := mkOwner("ray.io/v1", "RayCluster", "ray1", f.ownerLabels, f.ownerAnn, obj{
		"headGroupSpec": obj{"rayStartParams": obj{}, "template": tmpl(f, "head")},
		"workerGroupSpecs": []interface{}{obj{"groupName": "small-group", "replicas": int64(workers), "minReplicas": int64(workers),
			"maxReplicas": int64(workers + 1), "template": tmpl(f, "worker")}},
	}, nil)
	sc.Owners = append(sc.Owners, rc)
	sc.Pods = append(sc.Pods, mkPod("ray1-head-"+suffixes[0], "head",
		map[string]string{"ray.io/cluster": "ray1", "ray.io/group": "headgroup", "ray.io/node-type": "head"}, nil, f, refTo(rc)))
	for i := 1; i < n; i++ {
		sc.Pods = append(sc.Pods, mkPod("ray1-small-group-worker-"+suffixes[i], "worker",
			map[string]string{"ray.io/cluster": "ray1", "ray.io/group": "small-group", "ray.io/node-type": "worker"}, nil, f, refTo(rc)))
	}
	return sc
}

func bArgoPod(n int, f flavour) *scenario {
	// skip-top-owner: the Workflow is skipped, the pod itself is the grouping unit
	sc := &scenario{Kind: "Workflow>Pod", Chain: "Argo Workflow (skipped) -> Pod", Part: each(n), PerPod: true}
	wf := mkOwner("argoproj.io/v1alpha1", "Workflow", "wf1", f.ownerLabels, f.ownerAnn, obj{"entrypoint": "main"}, nil)
	sc.Owners = append(sc.Owners, wf)
	for i := 0; i < n; i++ {
		sc.Pods = append(sc.Pods, mkPod(fmt.Sprintf("wf1-step-%d", i), "main", map[string]string{"workflows.argoproj.io/workflow": "wf1"}, nil, f, refTo(wf)))
	}
	return sc
}

func bArgoPyTorch(n int, f flavour) *scenario {
	sc := &scenario{Kind: "Workflow>PyTorchJob", Chain: "Argo Workflow (skipped) -> PyTorchJob -> Pod", Part: same(n)}
	wf := mkOwner("argoproj.io/v1alpha1", "Workflow", "wf2", f.ownerLabels, f.ownerAnn, obj{"entrypoint": "main"}, nil)
	job := pytorchOwner("wfpt", n, f, 0, refTo(wf), map[string]string{"own": "label"}, nil)
	sc.Owners = append(sc.Owners, wf, job)
	pytorchPods(sc, job, n, f)
	return sc
}

func bArgoJob(n int, f flavour) *scenario {
	sc := &scenario{Kind: "Workflow>Job", Chain: "Argo Workflow (skipped) -> Job -> Pod", Part: each(n), PerPod: true}
	wf := mkOwner("argoproj.io/v1alpha1", "Workflow", "wf3", f.ownerLabels, f.ownerAnn, obj{"entrypoint": "main"}, nil)
	job := mkOwner("batch/v1", "Job", "wfjob", nil, nil, obj{"parallelism": int64(n), "template": tmpl(f, "main")}, refTo(wf))
	sc.Owners = append(sc.Owners, wf, job)
	for i := 0; i < n; i++ {
		sc.Pods = append(sc.Pods, mkPod("wfjob-"+suffixes[i], "main", map[string]string{"job-name": "wfjob"}, nil, f, refTo(job)))
	}
	return sc
}

func bTrainJob(n int, f flavour) *scenario {
	sc := &scenario{Kind: "TrainJob>JobSet", Chain: "TrainJob (skipped) -> JobSet(InOrder) -> Job -> Pod"}
	tj := mkOwner("trainer.kubeflow.org/v1alpha1", "TrainJob", "tj1", f.ownerLabels, f.ownerAnn, obj{"runtimeRef": obj{"name": "rt"}}, nil)
	sc.Owners = append(sc.Owners, tj)
	jobSetObjects(sc, "tj1", n, f, "", refTo(tj), nil, nil)
	return sc
}

func bRunaiWorkload(n int, f flavour) *scenario {
	sc := &scenario{Kind: "TrainingWorkload>StatefulSet", Chain: "run.ai TrainingWorkload (skipped, wildcard version) -> StatefulSet -> Pod", Part: same(n)}
	tw := mkOwner("run.ai/v2alpha1", "TrainingWorkload", "tw1", f.ownerLabels, f.ownerAnn, obj{"name": obj{"value": "tw1"}}, nil)
	sts := mkOwner("apps/v1", "StatefulSet", "tw1-sts", map[string]string{"own": "label"}, nil, obj{"replicas": int64(n)}, refTo(tw))
	sc.Owners = append(sc.Owners, tw, sts)
	for i := 0; i < n; i++ {
		sc.Pods = append(sc.Pods, mkPod(fmt.Sprintf("tw1-sts-%d", i), "main", nil, nil, f, refTo(sts)))
	}
	return sc
}

func bUnknown(n int, f flavour) *scenario {
	sc := &scenario{Kind: "UnknownCRD", Chain: "example.com/v1 Widget (no plugin) -> Pod", Part: same(n)}
	w := mkOwner("example.com/v1", "Widget", "widget1", f.ownerLabels, f.ownerAnn, obj{"replicas": int64(n), "size": "large"}, nil)
	sc.Owners = append(sc.Owners, w)
	for i := 0; i < n; i++ {
		sc.Pods = append(sc.Pods, mkPod(fmt.Sprintf("widget1-%d", i), "main", nil, nil, f, refTo(w)))
	}
	return sc
}

func bUnknownRS(n int, f flavour) *scenario {
	sc := &scenario{Kind: "UnknownCRD>ReplicaSet", Chain: "example.com/v1 Widget (no plugin) -> ReplicaSet -> Pod", Part: same(n)}
	w := mkOwner("example.com/v1", "Widget", "widget2", f.ownerLabels, f.ownerAnn, obj{"replicas": int64(n)}, nil)
	rs := mkOwner("apps/v1", "ReplicaSet", "widget2-rs", nil, nil, obj{"replicas": int64(n)}, refTo(w))
	sc.Owners = append(sc.Owners, w, rs)
	for i := 0; i < n; i++ {
		sc.Pods = append(sc.Pods, mkPod("widget2-rs-"+suffixes[i], "main", nil, nil, f, refTo(rs)))
	}
	return sc
}

type kindSpec struct {
	id       string
	b        builder
	thorough bool // only in the thorough tier
}

var kinds = []kindSpec{
	{"Pod", bPod, false},
	{"Job", bJob, false},
	{"Deployment", bDeployment, false},
	{"StatefulSet", bStatefulSet, false},
	{"PyTorchJob", bPyTorch, false},
	{"MPIJob", bMPI, false},
	{"JobSet", bJobSet, false},
	{"LeaderWorkerSet", bLWS, false},
	{"RayCluster", bRay, false},
	{"ArgoWorkflow-Pod", bArgoPod, false},
	{"ArgoWorkflow-PyTorchJob", bArgoPyTorch, false},
	{"UnknownCRD", bUnknown, false},
	{"PyTorchJob-segments", bPyTorchSegments, false},
	{"PyTorchJob-minAvailable", bPyTorchMinAvailable, true},
	{"JobSet-AnyOrder", bJobSetAnyOrder, true},
	{"LeaderWorkerSet-2groups", bLWSTwoGroups, true},
	{"LeaderWorkerSet-LeaderReady", bLWSLeaderReady, true},
	{"ArgoWorkflow-Job", bArgoJob, true},
	{"TrainJob-JobSet", bTrainJob, true},
	{"TrainingWorkload-StatefulSet", bRunaiWorkload, true},
	{"UnknownCRD-ReplicaSet", bUnknownRS, true},
}

// scenarios of a tier. quick: 12 chains x n in 1..3, one flavour each (rotating); thorough: 20 chains x (n in 1..2 x 4 flavours + n=3 x 2 flavours + n=4 x 1 flavour).
func scenarios(tier string) []*scenario {
	var out []*scenario
	for ki, k := range kinds {
		if k.thorough && tier != "thorough" {
			continue
		}
		maxN := 3
		if tier == "thorough" {
			maxN = 4
		}
		for n := 1; n <= maxN; n++ {
			for fi := range flavours {
				rot := (ki + n) % len(flavours)
				switch {
				case tier != "thorough" || n == 4:
					if fi != rot {
						continue
					}
				case n == 3:
					if fi != rot && fi != (rot+2)%len(flavours) {
						continue
					}
				}
				sc := k.b(n, flavours[fi])
				sc.N = len(sc.Pods)
				sc.Name = fmt.Sprintf("%s/n%d/f%d", k.id, n, fi)
				if len(sc.Part) != len(sc.Pods) {
					panic("harness: scenario partition size mismatch: " + sc.Name)
				}
				out = append(out, sc)
			}
		}
	}
	return out
}

func allScenarios() []*scenario {
	return scenarios("thorough")
}
