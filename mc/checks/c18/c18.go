// Package c18 checks property C18 "pod-grouper is a deterministic, idempotent function of the workload".
//
// Technique: explicit-state exploration of reconcile orders and histories on the REAL controller
// (CtrlMC B-iii). One transition = one real controllers.PodReconciler.Reconcile (real plugin hub, real
// podgroup.Handler) over a controller-runtime fake client wrapped in interceptor.Funcs that counts every
// mutating call, or one foreign update of a PodGroup by another actor. See DESIGN.md "### C18".
package c18

import (
	"encoding/json"
	"fmt"
	"os"
	"runtime"
	"sort"
	"strconv"
	"time"

	"github.com/go-logr/logr"
	v1 "k8s.io/api/core/v1"
	ctrllog "sigs.k8s.io/controller-runtime/pkg/log"

	"verif/mc/engine"
	"verif/mc/maporder"
	"verif/mc/registry"
)

func init() { registry.Register("C18", run, replay) }

func kindIDOf(name string) string {
	for i := 0; i < len(name); i++ {
		if name[i] == '/' {
			return name[:i]
		}
	}
	return name
}

func envInt(name string, def int) int {
	if s := os.Getenv(name); s != "" {
		if v, err := strconv.Atoi(s); err == nil {
			return v
		}
	}
	return def
}

func run(tier string) int {
	ctrllog.SetLogger(logr.Discard()) // the controller logs through controller-runtime's global logger
	scns := scenarios(tier)
	// heaviest scenarios first, so the shards are balanced
	order := make([]int, len(scns))
	for i := range order {
		order[i] = i
	}
	weight := func(sc *scenario) int {
		groups := map[int]bool{}
		for _, g := range sc.Part {
			groups[g] = true
		}
		return len(sc.Pods) * 10 * min(len(groups), 3)
	}
	sort.SliceStable(order, func(a, b int) bool { return weight(scns[order[a]]) > weight(scns[order[b]]) })

	if idx, n, isWorker := engine.WorkerShard(); isWorker {
		budget := engine.NewBudget(110 * time.Second)
		if tier == "thorough" {
			budget = engine.NewBudget(22 * time.Minute)
		}
		skipped := 0
		for pos, si := range order {
			if pos%n != idx {
				continue
			}
			if budget.Exceeded() {
				skipped++
				continue
			}
			t0 := time.Now()
			res := explore(scns[si], kindIDOf(scns[si].Name), tier, budget)
			res.WallS = time.Since(t0).Seconds()
			engine.Emit(res)
			engine.FlushEmit()
		}
		engine.Emit(map[string]any{"worker_done": idx, "skipped": skipped})
		engine.FlushEmit()
		return 0
	}

	start := time.Now()
	rep := engine.NewReporter("C18")
	workers := envInt("VERIF_WORKERS", min(max(runtime.NumCPU()-2, 1), 14))
	var all []*scenarioStats
	skipped := 0
	err := engine.RunWorkers(workers, nil, 6*1024*1024, func(_ int, line []byte) {
		var probe map[string]json.RawMessage
		if json.Unmarshal(line, &probe) != nil {
			return
		}
		if _, ok := probe["worker_done"]; ok {
			var d struct {
				Skipped int `json:"skipped"`
			}
			_ = json.Unmarshal(line, &d)
			skipped += d.Skipped
			return
		}
		var st scenarioStats
		if err := json.Unmarshal(line, &st); err == nil {
			all = append(all, &st)
		}
	})
	if err != nil {
		fmt.Fprintf(os.Stderr, "harness error: %v\n", err)
		return 2
	}
	sort.Slice(all, func(i, j int) bool { return all[i].Scenario < all[j].Scenario })

	bd := tierBounds(tier, scns[0])
	bdMulti := tierBounds(tier, &scenario{Part: []int{0, 1}})
	bdMulti4 := tierBounds(tier, &scenario{Part: []int{0, 1, 2, 3}, Pods: make([]*v1.Pod, 4)})
	agg := struct {
		states, transitions, reconciles, foreign, writeFree, mustFree, afterForeign, perms, subsets, maxDepth, closed, capHits, det, mapOrder, finals int
	}{}
	kindPGs := map[string]int{}
	kindsSeen := map[string]bool{}
	fkinds := map[string]bool{}
	samples := []any{}
	var allViols []engine.Violation
	for _, st := range all {
		if st.HarnessErr != "" {
			fmt.Fprintf(os.Stderr, "harness error: %s\n", st.HarnessErr)
			return 2
		}
		agg.states += st.States
		agg.transitions += st.Transitions
		agg.reconciles += st.Reconciles
		agg.foreign += st.Foreign
		agg.writeFree += st.WriteFree
		agg.mustFree += st.MustFree
		agg.afterForeign += st.AfterForeign
		agg.perms += st.Perms
		agg.subsets += st.Subsets
		agg.det += st.DetReplays
		agg.mapOrder += st.MapOrderReplays
		agg.finals += st.Finals
		agg.maxDepth = max(agg.maxDepth, st.MaxDepth)
		if st.Closed {
			agg.closed++
		}
		if st.CapHit {
			agg.capHits++
		}
		kindPGs[st.KindID] += st.PGs
		kindsSeen[st.KindID] = true
		for _, k := range st.FKinds {
			fkinds[k] = true
		}
		if st.Sample != nil && st.Pods >= 2 && len(samples) < 6 {
			samples = append(samples, st.Sample)
		}
		allViols = append(allViols, st.Violations...)
	}
	// report, per key, the violation with the shortest history (ties: scenario name)
	histLen := func(v engine.Violation) (int, string) {
		if m, ok := v.Replay.(map[string]any); ok {
			h, _ := m["history"].([]any)
			s, _ := m["scenario"].(string)
			return len(h), s
		}
		return 0, ""
	}
	sort.SliceStable(allViols, func(i, j int) bool {
		li, si := histLen(allViols[i])
		lj, sj := histLen(allViols[j])
		if li != lj {
			return li < lj
		}
		return si < sj
	})
	for _, v := range allViols {
		rep.Add(v)
	}
	if len(samples) == 0 {
		for _, st := range all {
			if st.Sample != nil && len(samples) < 3 {
				samples = append(samples, st.Sample)
			}
		}
	}

	if os.Getenv("VERIF_C18_TIMES") != "" {
		for _, st := range all {
			fmt.Fprintf(os.Stderr, "time %-40s %6.1fs states=%d transitions=%d\n", st.Scenario, st.WallS, st.States, st.Transitions)
		}
	}
	kindList := []string{}
	for k := range kindPGs {
		kindList = append(kindList, k)
	}
	sort.Strings(kindList)
	fk := []string{}
	for k := range fkinds {
		fk = append(fk, k)
	}
	sort.Strings(fk)
	exhaustive := skipped == 0 && agg.capHits == 0 && len(all) == len(scns)
	cov := map[string]any{
		"states":                                     agg.states,
		"transitions":                                agg.transitions,
		"traces_validated_against_impl":              agg.transitions,
		"samples":                                    samples,
		"scenarios":                                  len(all),
		"owner_kinds_covered":                        kindList,
		"podgroups_produced_per_kind":                kindPGs,
		"permutations_explored":                      agg.perms,
		"replica_subsets_explored":                   agg.subsets,
		"max_history_depth":                          agg.maxDepth,
		"history_depth_bound":                        bd.depth,
		"history_depth_bound_multi_group_4pods":      bdMulti4.depth,
		"history_depth_bound_multi_group":            bdMulti.depth,
		"max_states_per_scenario":                    bd.maxStates,
		"foreign_target_groups_max":                  bd.maxTargets,
		"scenarios_closed_before_depth_bound":        agg.closed,
		"reconciles_executed":                        agg.reconciles,
		"foreign_updates_executed":                   agg.foreign,
		"reconciles_that_wrote_nothing":              agg.writeFree,
		"reconciles_required_write_free":             agg.mustFree,
		"reconciles_after_foreign_update":            agg.afterForeign,
		"foreign_update_kinds_followed_by_reconcile": fk,
		"foreign_update_kinds":                       bd.foreign,
		"all_reconciled_states_compared":             agg.finals,
		"determinism_replays":                        agg.det,
		"map_order_replays":                          agg.mapOrder,
		"map_seeds":                                  mapSeeds,
		"state_caps_hit":                             agg.capHits,
		"scenarios_skipped_by_deadline":              skipped,
		"exhaustive":                                 exhaustive,
		"explanation": "state = canonical dump of all PodGroups (spec, labels, annotations, ownerReferences, status) + pods' pod-group annotation / subgroup label; " +
			"transition = one real PodReconciler.Reconcile or one foreign PodGroup update; phase 1 = every permutation of first reconciles + 2 further passes; " +
			"phase 2 = BFS over histories from the empty store with canonical-state dedup up to the depth bound",
	}
	if kh := rep.KnownHits(); len(kh) > 0 {
		cov["known_finding_hits"] = kh
	}
	vkeys := map[string]bool{}
	for _, st := range all {
		for _, v := range st.Violations {
			vkeys[v.Key] = true
		}
	}
	vkl := []string{}
	for k := range vkeys {
		vkl = append(vkl, k)
	}
	sort.Strings(vkl)
	cov["violation_keys"] = vkl
	for _, k := range vkl {
		fmt.Printf("violation-key: %s\n", k)
	}
	code := rep.Finish()
	ev := &engine.Evidence{PropertyID: "C18", Tier: tier, Seed: engine.SeedFromEnv(), Level: "model_checking", Coverage: cov,
		Assumptions: []string{
			"API server = controller-runtime fake client (JSON round trip on every read/write, status sub-resource for PodGroup); the controller's client additionally gets the GVK set on typed objects, as the manager's informer cache does",
			"reconciles and foreign updates are atomic and sequential (no concurrent reconciles); the informer cache is always in sync with the store",
			"owners and pods do not change during a history; all role templates of one workload carry the same scheduling metadata (queue / priority / user / node-pool labels), roles differ in role labels, containers and requests",
			"documented grouping unit: per pod for bare Pod, Deployment (docs/developer/pod-grouper.md) and batch Job (codified by job_grouper_test.go); per replicatedJob for JobSet InOrder; per LWS group; otherwise one PodGroup per top owner (skip-top-owner kinds: per second-level owner)",
			"LeaderWorkerSet with startupPolicy LeaderReady is explored only with the leader already scheduled (workers do not exist before)",
		},
		WallS: time.Since(start).Seconds(), Violations: rep.NewCount()}
	if err := engine.WriteEvidence(ev); err != nil {
		fmt.Fprintf(os.Stderr, "harness error: %v\n", err)
		return 2
	}
	fmt.Printf("C18 %s: scenarios=%d kinds=%d states=%d transitions=%d reconciles=%d (write-free %d, required write-free %d) foreign=%d reconciles-after-foreign=%d perms=%d depth=%d closed=%d finals=%d exhaustive=%v wall=%.1fs\n",
		tier, len(all), len(kindList), agg.states, agg.transitions, agg.reconciles, agg.writeFree, agg.mustFree, agg.foreign, agg.afterForeign,
		agg.perms, agg.maxDepth, agg.closed, agg.finals, exhaustive, time.Since(start).Seconds())

	// vacuity guards
	for _, k := range kinds {
		if k.thorough && tier != "thorough" {
			continue
		}
		if skipped == 0 && (!kindsSeen[k.id] || kindPGs[k.id] == 0) {
			fmt.Fprintf(os.Stderr, "harness error: vacuous: owner kind %s never produced a PodGroup\n", k.id)
			return 2
		}
	}
	if agg.afterForeign == 0 || agg.mustFree == 0 || agg.perms == 0 {
		fmt.Fprintf(os.Stderr, "harness error: vacuous: no reconcile after a foreign update / no idempotence-relevant reconcile\n")
		return 2
	}
	for _, k := range bd.foreign {
		if skipped == 0 && !fkinds[k] {
			fmt.Fprintf(os.Stderr, "harness error: vacuous: foreign update kind %s was never followed by a reconcile of a pod of that group\n", k)
			return 2
		}
	}
	return code
}

func replay(path string) int {
	b, err := os.ReadFile(path)
	if err != nil {
		fmt.Fprintln(os.Stderr, err)
		return 2
	}
	var v struct {
		Key    string     `json:"key"`
		Replay replayData `json:"replay"`
	}
	if err := json.Unmarshal(b, &v); err != nil {
		fmt.Fprintln(os.Stderr, err)
		return 2
	}
	var sc *scenario
	for _, s := range allScenarios() {
		if s.Name == v.Replay.Scenario {
			sc = s
		}
	}
	if sc == nil {
		fmt.Fprintf(os.Stderr, "replay: unknown scenario %q\n", v.Replay.Scenario)
		return 2
	}
	fmt.Printf("replay %s: scenario %s (%s)\n", v.Key, sc.Name, sc.Chain)
	found := false
	runOne := func(hist []string) *finalState {
		w, viols, he, _ := runHistory(sc, hist)
		if he != "" {
			fmt.Fprintln(os.Stderr, "replay error:", he)
			return nil
		}
		for _, l := range hist {
			fmt.Println("  step:", l)
		}
		for _, x := range viols {
			fmt.Printf("  oracle: %s: %s\n", x.Key, x.Message)
			if x.Key == v.Key {
				found = true
			}
		}
		view := w.view()
		js, _ := json.Marshal(view)
		fmt.Printf("  store: %s\n", js)
		clean := true
		for _, l := range hist {
			if isForeign(l) {
				clean = false
			}
		}
		return &finalState{hist: hist, view: view, clean: clean}
	}
	maporder.Set(mapSeeds[0])
	a := runOne(v.Replay.History)
	if a == nil {
		return 2
	}
	if v.Replay.Law == "map-order" {
		maporder.Set(mapSeeds[2])
		b2 := runOne(v.Replay.History)
		maporder.Set(mapSeeds[0])
		if b2 == nil {
			return 2
		}
		if a.view.canon() != b2.view.canon() {
			fmt.Printf("  oracle: %s: stores differ between map seeds %d and %d\n", v.Key, mapSeeds[0], mapSeeds[2])
			found = true
		}
	}
	if v.Replay.Law == "replica-independence" {
		full := runOne(v.Replay.Other)
		if full == nil {
			return 2
		}
		for _, x := range replicaViolations(sc, a.hist, a.view, full) {
			fmt.Printf("  oracle: %s: %s\n", x.Key, x.Message)
			if x.Key == v.Key {
				found = true
			}
		}
	} else if len(v.Replay.Other) > 0 {
		bf := runOne(v.Replay.Other)
		if bf == nil {
			return 2
		}
		if f, d := diffFinal(a, bf); f != "" {
			for _, law := range []string{"order-dependent", "repeat-dependent"} {
				k := fmt.Sprintf("C18/%s kind=%s field=%s", law, sc.Kind, f)
				if k == v.Key {
					fmt.Printf("  oracle: %s: %s\n", k, d)
					found = true
				}
			}
		}
	}
	if found {
		fmt.Printf("VIOLATION property=C18 replay=%s\n", path)
		return 1
	}
	fmt.Println("replay: violation not reproduced")
	return 0
}
