// Package c17 checks property C17 "GPU reservation pods track shared-GPU usage exactly":
// (i) explicit-state search over histories of binder-relevant events, every transition produced by
// the REAL reconcile / event handlers / startup Sync; (ii) preemption-bounded exhaustive search of
// the interleavings of 2–3 real entry points under a cooperative scheduler (O-groupmutex overlay).
package c17

import (
	"fmt"
	"sort"
	"strings"
	"sync"

	v1 "k8s.io/api/core/v1"

	br "verif/mc/checks/binderrun"
)

// Label is one event of a history.
type Label struct {
	Op    string  `json:"op"` // bind | bindfault | delbr | run | complete | delete | restart
	Pod   string  `json:"pod,omitempty"`
	K     int     `json:"k,omitempty"`    // bindfault: index of the deviated call of the reconcile
	Kind  br.Kind `json:"kind,omitempty"` // bindfault: err | crash | watch-closed | watch-errevent
	Phase string  `json:"phase,omitempty"`
	// Call describes the deviated call (informational, filled by the search).
	Call string `json:"call,omitempty"`
}

func (l Label) String() string {
	switch l.Op {
	case "bindfault":
		return fmt.Sprintf("bind(%s) with %s at call #%d [%s]", l.Pod, l.Kind, l.K, l.Call)
	case "complete":
		return fmt.Sprintf("complete(%s,%s)+pod-handler", l.Pod, l.Phase)
	case "delete":
		return fmt.Sprintf("delete(%s)+pod-handler", l.Pod)
	case "delbr":
		return fmt.Sprintf("delete-bindrequest(%s)+br-handler", l.Pod)
	case "run":
		return fmt.Sprintf("running(%s)+pod-handler", l.Pod)
	case "restart":
		return "binder-restart+startup-sync"
	}
	return fmt.Sprintf("%s(%s)", l.Op, l.Pod)
}

// after names the event class for violation keys.
func (l Label) after() string {
	switch l.Op {
	case "bind":
		return "bind"
	case "bindfault":
		if l.Kind == br.Crash {
			return "crash+startup-sync"
		}
		return "bind-failure+rollback"
	case "complete":
		return "consumer-completed+pod-handler"
	case "delete":
		return "consumer-deleted+pod-handler"
	case "delbr":
		return "bindrequest-deleted+br-handler"
	case "run":
		return "consumer-running"
	case "restart":
		return "restart+startup-sync"
	}
	return l.Op
}

// Config is one initial world of the history search.
type Config struct {
	Name      string        `json:"name"`
	Node      string        `json:"node"`
	Workloads []br.Workload `json:"workloads"`
}

func (c *Config) workload(name string) *br.Workload {
	for i := range c.Workloads {
		if c.Workloads[i].Name == name {
			return &c.Workloads[i]
		}
	}
	return nil
}

func (c *Config) scenario() *br.Scenario {
	return &br.Scenario{Name: c.Name, Node: c.Node, Target: c.Workloads[0], Others: c.Workloads[1:]}
}

func histConfigs(tier string) []Config {
	frac := func(name, f, g string) br.Workload {
		return br.Workload{Name: name, Opts: br.PodOpts{Fraction: f}, Fraction: true, Groups: []string{g}, Count: 1, Portion: f + "0"}
	}
	multi := func(name string, gs ...string) br.Workload {
		return br.Workload{Name: name, Opts: br.PodOpts{Fraction: "0.5", NumDevices: fmt.Sprint(len(gs))}, Fraction: true, Groups: gs, Count: len(gs), Portion: "0.50"}
	}
	cs := []Config{
		{Name: "two-single-fraction-one-group", Node: "node-1", Workloads: []br.Workload{frac("a", "0.5", "g1"), frac("b", "0.3", "g1")}},
		{Name: "multi-fraction-plus-single-two-groups", Node: "node-1", Workloads: []br.Workload{multi("m", "g1", "g2"), frac("s", "0.3", "g1")}},
		{Name: "two-single-fraction-two-groups", Node: "node-1", Workloads: []br.Workload{frac("a", "0.5", "g1"), frac("b", "0.3", "g2")}},
	}
	if tier == "thorough" {
		cs = append(cs, Config{Name: "two-multi-fraction-shared-groups", Node: "node-1", Workloads: []br.Workload{multi("m", "g1", "g2"), multi("n", "g2", "g1")}})
	}
	return cs
}

// applyInfo is what a transition reports besides the new store.
type applyInfo struct {
	Calls   []br.Call
	Crashed bool
	Err     string
}

// Apply executes one event on w with a fresh process image (at quiescence the binder's memory
// holds nothing that influences behaviour: K8sPlugins.states entries are consumed by PostBind /
// Rollback, the group-mutex map is empty again).
func Apply(w *br.World, cfg *Config, l Label) (applyInfo, error) {
	var info applyInfo
	p := w.NewProc()
	switch l.Op {
	case "bind", "bindfault":
		wl := cfg.workload(l.Pod)
		if wl == nil {
			return info, fmt.Errorf("unknown workload %s", l.Pod)
		}
		if w.GetBR(l.Pod) == nil {
			w.EnvCreate(cfg.scenario().NewBR(wl)) // the scheduler writes the BindRequest
		}
		var devs []br.Dev
		if l.Op == "bindfault" {
			devs = []br.Dev{{At: l.K, Kind: l.Kind}}
		}
		res := p.RunAttempt(l.Pod, devs)
		info.Calls, info.Crashed, info.Err = res.Calls, res.Crashed, res.Err
		if res.Crashed {
			if _, err := w.Restart(); err != nil {
				info.Err = "startup sync: " + err.Error()
			}
		}
	case "delbr":
		last := w.EnvDeleteBR(l.Pod)
		if last != nil {
			p.BRDeleted(last)
		}
	case "run":
		old, cur := w.EnvSetPhase(l.Pod, v1.PodRunning)
		if old != nil {
			p.PodUpdated(old, cur)
		}
	case "complete":
		old, cur := w.EnvSetPhase(l.Pod, v1.PodPhase(l.Phase))
		if old != nil {
			p.PodUpdated(old, cur)
		}
	case "delete":
		last := w.EnvDeletePod(l.Pod)
		if last != nil {
			p.PodDeleted(last)
		}
	case "restart":
		if _, err := w.Restart(); err != nil {
			info.Err = "startup sync: " + err.Error()
		}
	default:
		return info, fmt.Errorf("unknown op %s", l.Op)
	}
	return info, nil
}

// state of the explicit-state search.
type hstate struct {
	w        *br.World
	canon    string
	findings map[string]string // finding key -> message
	hist     []Label
}

type transition struct {
	label    Label
	to       *hstate
	fresh    []br.Finding // findings not present in the source state
	inWindow bool         // crash fell between reservation-pod creation and consumer labelling
}

func findingSet(s *br.Snapshot) map[string]string {
	m := map[string]string{}
	for _, f := range br.CheckReservationInvariant(s) {
		if _, ok := m[f.Key]; !ok {
			m[f.Key] = f.Msg
		}
	}
	return m
}

func isLivePod(p *v1.Pod) bool {
	return p.Status.Phase == v1.PodPending || p.Status.Phase == v1.PodRunning || p.Status.Phase == ""
}

// expand computes every transition out of s.
func expand(cfg *Config, s *hstate, tier string) ([]transition, error) {
	snap := s.w.Snap()
	var out []transition
	emit := func(l Label, w *br.World, inWindow bool) {
		ns := w.Snap()
		t := &hstate{w: w, canon: ns.Canon(), findings: findingSet(ns), hist: append(append([]Label{}, s.hist...), l)}
		tr := transition{label: l, to: t, inWindow: inWindow}
		for _, k := range sortedKeys(t.findings) {
			if _, had := s.findings[k]; !had {
				tr.fresh = append(tr.fresh, br.Finding{Key: k, Msg: t.findings[k]})
			}
		}
		out = append(out, tr)
	}
	do := func(l Label) (applyInfo, *br.World, error) {
		w := s.w.Clone()
		info, err := Apply(w, cfg, l)
		return info, w, err
	}
	for i := range cfg.Workloads {
		name := cfg.Workloads[i].Name
		pod := snap.Pod(name)
		hasBR := snap.BR(name) != nil
		if pod == nil {
			if hasBR {
				_, w, err := do(Label{Op: "delbr", Pod: name})
				if err != nil {
					return nil, err
				}
				emit(Label{Op: "delbr", Pod: name}, w, false)
			}
			continue
		}
		if pod.Spec.NodeName == "" && isLivePod(pod) {
			l := Label{Op: "bind", Pod: name}
			info, w, err := do(l)
			if err != nil {
				return nil, err
			}
			emit(l, w, false)
			// every fault point of this reconcile
			created, labelled := false, false
			for k := range info.Calls {
				c := &info.Calls[k]
				inWin := created && !labelled
				for _, kind := range br.Deviations(c, false) {
					fl := Label{Op: "bindfault", Pod: name, K: k, Kind: kind, Call: c.Verb + " " + c.Target}
					_, fw, err := do(fl)
					if err != nil {
						return nil, err
					}
					emit(fl, fw, inWin && kind == br.Crash)
				}
				if c.Verb == "create" && strings.HasPrefix(c.Target, "Pod "+br.ResNS+"/") {
					created = true
				}
				if created && c.Verb == "patch" && c.Target == "Pod "+br.NS+"/"+name {
					labelled = true
				}
			}
		}
		if pod.Spec.NodeName != "" && pod.Status.Phase == v1.PodPending {
			l := Label{Op: "run", Pod: name}
			_, w, err := do(l)
			if err != nil {
				return nil, err
			}
			emit(l, w, false)
		}
		if pod.Spec.NodeName != "" && isLivePod(pod) {
			phases := []string{"Succeeded"}
			if tier == "thorough" {
				phases = append(phases, "Failed")
			}
			for _, ph := range phases {
				l := Label{Op: "complete", Pod: name, Phase: ph}
				_, w, err := do(l)
				if err != nil {
					return nil, err
				}
				emit(l, w, false)
			}
		}
		{
			l := Label{Op: "delete", Pod: name}
			_, w, err := do(l)
			if err != nil {
				return nil, err
			}
			emit(l, w, false)
		}
		if hasBR {
			l := Label{Op: "delbr", Pod: name}
			_, w, err := do(l)
			if err != nil {
				return nil, err
			}
			emit(l, w, false)
		}
	}
	{
		l := Label{Op: "restart"}
		_, w, err := do(l)
		if err != nil {
			return nil, err
		}
		emit(l, w, false)
	}
	return out, nil
}

func sortedKeys(m map[string]string) []string {
	ks := make([]string, 0, len(m))
	for k := range m {
		ks = append(ks, k)
	}
	sort.Strings(ks)
	return ks
}

// HistFinding is a violation found by the history search with its shortest history.
type HistFinding struct {
	Key     string  `json:"key"`
	Msg     string  `json:"msg"`
	Config  string  `json:"config"`
	History []Label `json:"history"`
}

type histStats struct {
	States, Transitions, MaxDepth, WindowCrashes int
	ByOp                                         map[string]int
	Findings                                     []HistFinding
	Sample                                       []string
	CapHit                                       bool
	Err                                          error
}

// searchHistories is a level-synchronous BFS; the states of one level are expanded by a goroutine
// pool, results are merged in a fixed order so the outcome does not depend on scheduling.
func searchHistories(cfg *Config, tier string, depth, par int, stop func() bool) histStats {
	st := histStats{ByOp: map[string]int{}}
	sc := cfg.scenario()
	w0, _, err := sc.Build(0, false)
	if err != nil {
		st.Err = err
		return st
	}
	s0 := &hstate{w: w0}
	sn := w0.Snap()
	s0.canon, s0.findings = sn.Canon(), findingSet(sn)
	visited := map[string]bool{s0.canon: true}
	level := []*hstate{s0}
	st.States = 1
	seenKey := map[string]bool{}
	for d := 0; d < depth && len(level) > 0; d++ {
		if stop() {
			st.CapHit = true
			break
		}
		results := make([][]transition, len(level))
		errs := make([]error, len(level))
		var wg sync.WaitGroup
		sem := make(chan struct{}, par)
		for i := range level {
			wg.Add(1)
			sem <- struct{}{}
			go func(i int) {
				defer wg.Done()
				defer func() { <-sem }()
				if stop() {
					return
				}
				results[i], errs[i] = expand(cfg, level[i], tier)
			}(i)
		}
		wg.Wait()
		var next []*hstate
		for i := range level {
			if errs[i] != nil {
				st.Err = errs[i]
				return st
			}
			if results[i] == nil && stop() {
				st.CapHit = true
			}
			for _, tr := range results[i] {
				st.Transitions++
				st.ByOp[tr.label.after()]++
				if tr.inWindow {
					st.WindowCrashes++
				}
				for _, f := range tr.fresh {
					key := fmt.Sprintf("C17/%s after=%s", f.Key, tr.label.after())
					if seenKey[key] {
						continue
					}
					seenKey[key] = true
					st.Findings = append(st.Findings, HistFinding{Key: key, Msg: f.Msg, Config: cfg.Name, History: tr.to.hist})
				}
				if !visited[tr.to.canon] {
					visited[tr.to.canon] = true
					st.States++
					next = append(next, tr.to)
					if st.MaxDepth < d+1 {
						st.MaxDepth = d + 1
					}
					if len(st.Sample) == 0 && d+1 >= 3 && tr.label.Op == "bindfault" {
						for _, l := range tr.to.hist {
							st.Sample = append(st.Sample, l.String())
						}
						st.Sample = append(st.Sample, "=> "+strings.ReplaceAll(strings.TrimSpace(tr.to.canon), "\n", " ; "))
					}
				}
				tr.to.hist = append([]Label{}, tr.to.hist...)
			}
			level[i].w = nil // free
		}
		level = next
	}
	return st
}

// ReplayHistory re-executes a history and returns the fresh findings of its last event.
func ReplayHistory(cfg *Config, hist []Label, verbose bool) ([]br.Finding, error) {
	w, _, err := cfg.scenario().Build(0, false)
	if err != nil {
		return nil, err
	}
	prev := findingSet(w.Snap())
	var fresh []br.Finding
	for i, l := range hist {
		info, err := Apply(w, cfg, l)
		if err != nil {
			return nil, err
		}
		sn := w.Snap()
		cur := findingSet(sn)
		fresh = nil
		for _, k := range sortedKeys(cur) {
			if _, had := prev[k]; !had {
				fresh = append(fresh, br.Finding{Key: fmt.Sprintf("C17/%s after=%s", k, l.after()), Msg: cur[k]})
			}
		}
		prev = cur
		if verbose {
			fmt.Printf("event %d: %s  (calls=%d err=%q crashed=%v)\n", i+1, l.String(), len(info.Calls), info.Err, info.Crashed)
			for _, c := range info.Calls {
				fmt.Println("      ", c.String())
			}
			for _, ln := range sn.Lines() {
				fmt.Println("    ", ln)
			}
			for _, f := range fresh {
				fmt.Printf("   oracle: %s: %s\n", f.Key, f.Msg)
			}
		}
	}
	return fresh, nil
}
