// Package c17 checks property C17 "GPU reservation pods track shared-GPU usage exactly":
// (i) explicit-state search over histories of binder-relevant events, every transition produced by
// the REAL reconcile / event handlers / startup Sync; (ii) preemption-bounded exhaustive search of
// the interleavings of 2–3 real entry points under a cooperative scheduler (O-groupmutex overlay).
package c17

import (
	"crypto/sha256"
	"encoding/hex"
	"fmt"
	"sort"
	"strings"

	v1 "k8s.io/api/core/v1"

	br "verif/mc/checks/binderrun"
)

// Label is one event of a history.
type Label struct {
	Op    string  `json:"op"` // bind | bindfault | delbr | run | complete | delete | restart
	Pod   string  `json:"pod,omitempty"`
	K     int     `json:"k,omitempty"`    // bindfault: index of the deviated call of the reconcile
	Kind  br.Kind `json:"kind,omitempty"` // bindfault: err | crash | watch-closed | watch-errevent
	Phase string  `json:"phase,omitempty"`
	// Call describes the deviated call (informational, filled by the search).
	Call string `json:"call,omitempty"`
}

func (l Label) String() string {
	switch l.Op {
	case "bindfault":
		return fmt.Sprintf("bind(%s) with %s at call #%d [%s]", l.Pod, l.Kind, l.K, l.Call)
	case "complete":
		return fmt.Sprintf("complete(%s,%s)+pod-handler", l.Pod, l.Phase)
	case "delete":
		return fmt.Sprintf("delete(%s)+pod-handler", l.Pod)
	case "delbr":
		return fmt.Sprintf("delete-bindrequest(%s)+br-handler", l.Pod)
	case "run":
		return fmt.Sprintf("running(%s)+pod-handler", l.Pod)
	case "restart":
		return "binder-restart+startup-sync"
	}
	return fmt.Sprintf("%s(%s)", l.Op, l.Pod)
}

// after names the event class for violation keys.
func (l Label) after() string {
	switch l.Op {
	case "bind":
		return "bind"
	case "bindfault":
		if l.Kind == br.Crash {
			return "crash+startup-sync"
		}
		return "bind-failure+rollback"
	case "complete":
		return "consumer-completed+pod-handler"
	case "delete":
		return "consumer-deleted+pod-handler"
	case "delbr":
		return "bindrequest-deleted+br-handler"
	case "run":
		return "consumer-running"
	case "restart":
		return "restart+startup-sync"
	}
	return l.Op
}

// Config is one initial world of the history search.
type Config struct {
	Name      string        `json:"name"`
	Node      string        `json:"node"`
	Workloads []br.Workload `json:"workloads"`
}

func (c *Config) workload(name string) *br.Workload {
	for i := range c.Workloads {
		if c.Workloads[i].Name == name {
			return &c.Workloads[i]
		}
	}
	return nil
}

func (c *Config) scenario() *br.Scenario {
	return &br.Scenario{Name: c.Name, Node: c.Node, Target: c.Workloads[0], Others: c.Workloads[1:]}
}

func histConfigs(tier string) []Config {
	frac := func(name, f, g string) br.Workload {
		return br.Workload{Name: name, Opts: br.PodOpts{Fraction: f}, Fraction: true, Groups: []string{g}, Count: 1, Portion: f + "0"}
	}
	multi := func(name string, gs ...string) br.Workload {
		return br.Workload{Name: name, Opts: br.PodOpts{Fraction: "0.5", NumDevices: fmt.Sprint(len(gs))}, Fraction: true, Groups: gs, Count: len(gs), Portion: "0.50"}
	}
	cs := []Config{
		{Name: "two-single-fraction-one-group", Node: "node-1", Workloads: []br.Workload{frac("a", "0.5", "g1"), frac("b", "0.3", "g1")}},
		{Name: "multi-fraction-plus-single-two-groups", Node: "node-1", Workloads: []br.Workload{multi("m", "g1", "g2"), frac("s", "0.3", "g1")}},
	}
	if tier == "thorough" {
		cs = append(cs, Config{Name: "two-single-fraction-two-groups", Node: "node-1", Workloads: []br.Workload{frac("a", "0.5", "g1"), frac("b", "0.3", "g2")}})
		cs = append(cs, Config{Name: "two-multi-fraction-shared-groups", Node: "node-1", Workloads: []br.Workload{multi("m", "g1", "g2"), multi("n", "g2", "g1")}})
	}
	return cs
}

// applyInfo is what a transition reports besides the new store.
type applyInfo struct {
	Calls   []br.Call
	Crashed bool
	Err     string
}

// Apply executes one event on w with a fresh process image (at quiescence the binder's memory
// holds nothing that influences behaviour: K8sPlugins.states entries are consumed by PostBind /
// Rollback, the group-mutex map is empty again).
func Apply(w *br.World, cfg *Config, l Label) (applyInfo, error) {
	var info applyInfo
	p := w.NewProc()
	switch l.Op {
	case "bind", "bindfault":
		wl := cfg.workload(l.Pod)
		if wl == nil {
			return info, fmt.Errorf("unknown workload %s", l.Pod)
		}
		if w.GetBR(l.Pod) == nil {
			w.EnvCreate(cfg.scenario().NewBR(wl)) // the scheduler writes the BindRequest
		}
		var devs []br.Dev
		if l.Op == "bindfault" {
			devs = []br.Dev{{At: l.K, Kind: l.Kind}}
		}
		res := p.RunAttempt(l.Pod, devs)
		info.Calls, info.Crashed, info.Err = res.Calls, res.Crashed, res.Err
		if res.Crashed {
			if _, err := w.Restart(); err != nil {
				info.Err = "startup sync: " + err.Error()
			}
		}
	case "delbr":
		last := w.EnvDeleteBR(l.Pod)
		if last != nil {
			p.BRDeleted(last)
		}
	case "run":
		old, cur := w.EnvSetPhase(l.Pod, v1.PodRunning)
		if old != nil {
			p.PodUpdated(old, cur)
		}
	case "complete":
		old, cur := w.EnvSetPhase(l.Pod, v1.PodPhase(l.Phase))
		if old != nil {
			p.PodUpdated(old, cur)
		}
	case "delete":
		last := w.EnvDeletePod(l.Pod)
		if last != nil {
			p.PodDeleted(last)
		}
	case "restart":
		if _, err := w.Restart(); err != nil {
			info.Err = "startup sync: " + err.Error()
		}
	default:
		return info, fmt.Errorf("unknown op %s", l.Op)
	}
	return info, nil
}

// state of the explicit-state search.
type hstate struct {
	w        *br.World
	canon    string
	findings map[string]string // finding key -> message
	hist     []Label
}

type transition struct {
	label    Label
	to       *hstate
	fresh    []br.Finding // findings not present in the source state
	inWindow bool         // crash fell between reservation-pod creation and consumer labelling
}

func findingSet(s *br.Snapshot) map[string]string {
	m := map[string]string{}
	for _, f := range br.CheckReservationInvariant(s) {
		if _, ok := m[f.Key]; !ok {
			m[f.Key] = f.Msg
		}
	}
	return m
}

func isLivePod(p *v1.Pod) bool {
	return p.Status.Phase == v1.PodPending || p.Status.Phase == v1.PodRunning || p.Status.Phase == ""
}

// expand computes every transition out of s.
func expand(cfg *Config, s *hstate, tier string) ([]transition, error) {
	snap := s.w.Snap()
	var out []transition
	emit := func(l Label, w *br.World, inWindow bool) {
		ns := w.Snap()
		t := &hstate{w: w, canon: ns.Canon(), findings: findingSet(ns), hist: append(append([]Label{}, s.hist...), l)}
		tr := transition{label: l, to: t, inWindow: inWindow}
		for _, k := range sortedKeys(t.findings) {
			if _, had := s.findings[k]; !had {
				tr.fresh = append(tr.fresh, br.Finding{Key: k, Msg: t.findings[k]})
			}
		}
		out = append(out, tr)
	}
	do := func(l Label) (applyInfo, *br.World, error) {
		w := s.w.Clone()
		br.SeedNames(int64(1000 + len(s.hist))) // reservation-pod names: a function of the event's position only
		info, err := Apply(w, cfg, l)
		return info, w, err
	}
	for i := range cfg.Workloads {
		name := cfg.Workloads[i].Name
		pod := snap.Pod(name)
		hasBR := snap.BR(name) != nil
		if pod == nil {
			if hasBR {
				_, w, err := do(Label{Op: "delbr", Pod: name})
				if err != nil {
					return nil, err
				}
				emit(Label{Op: "delbr", Pod: name}, w, false)
			}
			continue
		}
		if pod.Spec.NodeName == "" && isLivePod(pod) {
			l := Label{Op: "bind", Pod: name}
			info, w, err := do(l)
			if err != nil {
				return nil, err
			}
			emit(l, w, false)
			// every fault point of this reconcile
			created, labelled := false, false
			for k := range info.Calls {
				c := &info.Calls[k]
				inWin := created && !labelled
				for _, kind := range br.Deviations(c, false) {
					if kind == br.Crash && tier != "thorough" && !inWin {
						continue // quick: crash points between reservation-pod creation and consumer labelling only
					}
					fl := Label{Op: "bindfault", Pod: name, K: k, Kind: kind, Call: c.Verb + " " + c.Target}
					_, fw, err := do(fl)
					if err != nil {
						return nil, err
					}
					emit(fl, fw, inWin && kind == br.Crash)
				}
				if c.Verb == "create" && strings.HasPrefix(c.Target, "Pod "+br.ResNS+"/") {
					created = true
				}
				if created && c.Verb == "patch" && c.Target == "Pod "+br.NS+"/"+name {
					labelled = true
				}
			}
		}
		if pod.Spec.NodeName != "" && pod.Status.Phase == v1.PodPending {
			l := Label{Op: "run", Pod: name}
			_, w, err := do(l)
			if err != nil {
				return nil, err
			}
			emit(l, w, false)
		}
		if pod.Spec.NodeName != "" && isLivePod(pod) {
			phases := []string{"Succeeded"}
			if tier == "thorough" {
				phases = append(phases, "Failed")
			}
			for _, ph := range phases {
				l := Label{Op: "complete", Pod: name, Phase: ph}
				_, w, err := do(l)
				if err != nil {
					return nil, err
				}
				emit(l, w, false)
			}
		}
		{
			l := Label{Op: "delete", Pod: name}
			_, w, err := do(l)
			if err != nil {
				return nil, err
			}
			emit(l, w, false)
		}
		if hasBR {
			l := Label{Op: "delbr", Pod: name}
			_, w, err := do(l)
			if err != nil {
				return nil, err
			}
			emit(l, w, false)
		}
	}
	{
		l := Label{Op: "restart"}
		_, w, err := do(l)
		if err != nil {
			return nil, err
		}
		emit(l, w, false)
	}
	return out, nil
}

func sortedKeys(m map[string]string) []string {
	ks := make([]string, 0, len(m))
	for k := range m {
		ks = append(ks, k)
	}
	sort.Strings(ks)
	return ks
}

// HistFinding is a violation found by the history search with its shortest history.
type HistFinding struct {
	Key     string  `json:"key"`
	Msg     string  `json:"msg"`
	Config  string  `json:"config"`
	History []Label `json:"history"`
}

// frontierEntry is one state of the current BFS level, identified by its (shortest) history; the
// search is stateless across processes: a worker re-executes the history to obtain the state.
type frontierEntry struct {
	Cfg  int     `json:"cfg"`
	Hist []Label `json:"hist"`
}

// expTrans / expResult: what a worker reports for one expanded frontier entry.
type expTrans struct {
	L     Label        `json:"l"`
	H     string       `json:"h"` // hash of the canonical successor store
	Fresh []br.Finding `json:"fresh,omitempty"`
	Win   bool         `json:"win,omitempty"`
	Canon string       `json:"canon,omitempty"` // only for the first few (samples)
}

type expResult struct {
	Entry   int        `json:"entry"`
	Trans   []expTrans `json:"trans"`
	Err     string     `json:"err,omitempty"`
	Skipped bool       `json:"skipped,omitempty"` // level budget exhausted before this entry
}

// expandEntry rebuilds the state of a frontier entry by re-executing its history on the real code
// and returns all its outgoing transitions.
func expandEntry(cfgs []Config, idx int, e frontierEntry, tier string) expResult {
	r := expResult{Entry: idx}
	cfg := &cfgs[e.Cfg]
	w, _, err := cfg.scenario().Build(0, false)
	if err != nil {
		r.Err = err.Error()
		return r
	}
	for i, l := range e.Hist {
		br.SeedNames(int64(1000 + i))
		if _, err := Apply(w, cfg, l); err != nil {
			r.Err = err.Error()
			return r
		}
	}
	sn := w.Snap()
	s := &hstate{w: w, canon: sn.Canon(), findings: findingSet(sn), hist: e.Hist}
	trs, err := expand(cfg, s, tier)
	if err != nil {
		r.Err = err.Error()
		return r
	}
	for _, t := range trs {
		et := expTrans{L: t.label, H: hashCanon(e.Cfg, t.to.canon), Fresh: t.fresh, Win: t.inWindow}
		if idx < 2 && len(e.Hist) >= 2 && t.label.Op == "bindfault" && len(r.Trans) < 40 {
			et.Canon = t.to.canon
		}
		r.Trans = append(r.Trans, et)
	}
	return r
}

func hashCanon(cfg int, canon string) string {
	h := sha256.Sum256([]byte(fmt.Sprintf("%d|%s", cfg, canon)))
	return hex.EncodeToString(h[:10])
}

// ReplayHistory re-executes a history and returns the fresh findings of its last event.
func ReplayHistory(cfg *Config, hist []Label, verbose bool) ([]br.Finding, error) {
	w, _, err := cfg.scenario().Build(0, false)
	if err != nil {
		return nil, err
	}
	prev := findingSet(w.Snap())
	var fresh []br.Finding
	for i, l := range hist {
		br.SeedNames(int64(1000 + i))
		info, err := Apply(w, cfg, l)
		if err != nil {
			return nil, err
		}
		sn := w.Snap()
		cur := findingSet(sn)
		fresh = nil
		for _, k := range sortedKeys(cur) {
			if _, had := prev[k]; !had {
				fresh = append(fresh, br.Finding{Key: fmt.Sprintf("C17/%s after=%s", k, l.after()), Msg: cur[k]})
			}
		}
		prev = cur
		if verbose {
			fmt.Printf("event %d: %s  (calls=%d err=%q crashed=%v)\n", i+1, l.String(), len(info.Calls), info.Err, info.Crashed)
			for _, c := range info.Calls {
				fmt.Println("      ", c.String())
			}
			for _, ln := range sn.Lines() {
				fmt.Println("    ", ln)
			}
			for _, f := range fresh {
				fmt.Printf("   oracle: %s: %s\n", f.Key, f.Msg)
			}
		}
	}
	return fresh, nil
}
