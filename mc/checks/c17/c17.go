package c17

import (
	"encoding/json"
	"fmt"
	"os"
	"runtime"
	"sort"
	"strconv"
	"strings"
	"time"

	"github.com/NVIDIA/KAI-scheduler/pkg/binder/binding/resourcereservation/group_mutex"

	br "verif/mc/checks/binderrun"
	"verif/mc/checks/binderrun/syncshim"
	"verif/mc/engine"
	"verif/mc/maporder"
	"verif/mc/registry"
)

func init() { registry.Register("C17", run, replay) }

type tierCfg struct {
	depth         int
	bound         int
	jobDepth      int           // how deep the schedule tree is split into worker jobs
	interDeadline time.Duration // per worker, interleaving part
	histDeadline  time.Duration // history part (checked between levels)
}

func cfgFor(tier string) tierCfg {
	if tier == "thorough" {
		return tierCfg{depth: 7, bound: 3, jobDepth: 2, interDeadline: 9 * time.Minute, histDeadline: 12 * time.Minute}
	}
	return tierCfg{depth: 5, bound: 2, jobDepth: 1, interDeadline: 70 * time.Second, histDeadline: 90 * time.Second}
}

func envInt(name string, def int) int {
	if s := os.Getenv(name); s != "" {
		if v, err := strconv.Atoi(s); err == nil {
			return v
		}
	}
	return def
}

// Replay is the replay artefact of a C17 violation.
type Replay struct {
	Part     string  `json:"part"` // "history" | "interleaving"
	Config   string  `json:"config,omitempty"`
	History  []Label `json:"history,omitempty"`
	Program  string  `json:"program,omitempty"`
	Schedule []int   `json:"schedule,omitempty"`
	Bound    int     `json:"bound,omitempty"`
	Tier     string  `json:"tier,omitempty"`
}

// boundFor: programs with three threads are explored with one preemption less than the tier's bound
// (their schedule tree is an order of magnitude larger).
func boundFor(pg *Program, bound int) int {
	if len(pg.Threads) >= 3 {
		return bound - 1
	}
	return bound
}

const (
	budgetEnv = "VERIF_C17_LEVEL_BUDGET_MS"
	modeEnv     = "VERIF_C17_MODE"     // "inter" | "hist" (worker side)
	frontierEnv = "VERIF_C17_FRONTIER" // path of the frontier file of the current BFS level
)

func runWorker(tier string, cfg tierCfg, idx, n int) int {
	switch os.Getenv(modeEnv) {
	case "inter":
		pgs := programs(tier)
		jobs, err := interJobs(pgs, cfg.bound, cfg.jobDepth)
		if err != nil {
			engine.Emit(interStats{Program: "?", Err: err.Error()})
			engine.FlushEmit()
			return 0
		}
		budget := engine.NewBudget(cfg.interDeadline)
		stats := make([]*interStats, len(pgs))
		finals := make([]map[string]bool, len(pgs))
		best := make([]map[string]InterFinding, len(pgs))
		lock0 := syncshim.LockOps.Load()
		for ji, job := range jobs {
			if ji%n != idx {
				continue
			}
			if stats[job.Prog] == nil {
				stats[job.Prog] = &interStats{Program: pgs[job.Prog].Name, ByPreemptions: map[string]int{}, SampleJob: -1}
				finals[job.Prog] = map[string]bool{}
				best[job.Prog] = map[string]InterFinding{}
			}
			exploreSubtree(&pgs[job.Prog], job, ji, boundFor(&pgs[job.Prog], cfg.bound), budget.Exceeded, stats[job.Prog], finals[job.Prog], best[job.Prog])
		}
		first := true
		for pi, st := range stats {
			if st == nil {
				continue
			}
			if first { // lock operations are counted per process
				st.LockOps = syncshim.LockOps.Load() - lock0
				first = false
			}
			for h := range finals[pi] {
				st.Finals = append(st.Finals, h)
			}
			for _, f := range best[pi] {
				st.Findings = append(st.Findings, f)
			}
			engine.Emit(st)
		}
		engine.FlushEmit()
	case "hist":
		b, err := os.ReadFile(os.Getenv(frontierEnv))
		if err != nil {
			engine.Emit(expResult{Entry: -1, Err: err.Error()})
			engine.FlushEmit()
			return 0
		}
		var frontier []frontierEntry
		if err := json.Unmarshal(b, &frontier); err != nil {
			engine.Emit(expResult{Entry: -1, Err: err.Error()})
			engine.FlushEmit()
			return 0
		}
		cfgs := histConfigs(tier)
		lb := engine.NewBudget(time.Duration(envInt(budgetEnv, 0)) * time.Millisecond)
		for i, e := range frontier {
			if i%n != idx {
				continue
			}
			if lb.Exceeded() {
				engine.Emit(expResult{Entry: i, Skipped: true})
				continue
			}
			engine.Emit(expandEntry(cfgs, i, e, tier))
		}
		engine.FlushEmit()
	}
	return 0
}

// overlayActive reports whether group_mutex.go was built with the O-groupmutex overlay (its
// mutexes then are syncshim mutexes). Without it the cooperative scheduler cannot see the group
// lock and a preempted lock holder would block the whole search.
func overlayActive() bool {
	before := syncshim.LockOps.Load()
	gm := group_mutex.NewGroupMutex()
	gm.LockMutexForGroup("verif-probe")
	gm.ReleaseMutex("verif-probe")
	return syncshim.LockOps.Load() > before
}

func run(tier string) int {
	cfg := cfgFor(tier)
	maporder.Set(0)
	if !overlayActive() {
		fmt.Fprintln(os.Stderr, "harness error: the O-groupmutex overlay is not part of this build (group_mutex.go still imports the real sync package): run /verif/overlays/gen_groupmutex.sh and build with the overlay.json it writes")
		return 2
	}
	if idx, n, isWorker := engine.WorkerShard(); isWorker {
		return runWorker(tier, cfg, idx, n)
	}
	start := time.Now()
	workers := envInt("VERIF_WORKERS", min(runtime.NumCPU()-2, 14))
	if workers < 1 {
		workers = 1
	}
	rep := engine.NewReporter("C17")
	exhaustive := true
	var samples []any

	// ---------------- part (ii): interleavings
	pgs := programs(tier)
	merged := map[string]*interStats{}
	finalsBy := map[string]map[string]bool{}
	bestBy := map[string]map[string]InterFinding{}
	herr := ""
	err := engine.RunWorkers(workers, []string{modeEnv + "=inter"}, 6*1024*1024, func(_ int, line []byte) {
		var st interStats
		if json.Unmarshal(line, &st) != nil || st.Program == "" {
			return
		}
		if st.Err != "" && herr == "" {
			herr = st.Program + ": " + st.Err
		}
		m := merged[st.Program]
		if m == nil {
			m = &interStats{Program: st.Program, ByPreemptions: map[string]int{}, SampleJob: -1}
			merged[st.Program] = m
			finalsBy[st.Program] = map[string]bool{}
			bestBy[st.Program] = map[string]InterFinding{}
		}
		m.Schedules += st.Schedules
		m.Transitions += st.Transitions
		m.Contended += st.Contended
		m.Deadlocks += st.Deadlocks
		m.Replays += st.Replays
		m.LockOps += st.LockOps
		m.Jobs += st.Jobs
		m.Diverged = append(m.Diverged, st.Diverged...)
		m.CapHit = m.CapHit || st.CapHit
		if st.MaxPoints > m.MaxPoints {
			m.MaxPoints = st.MaxPoints
		}
		for k, v := range st.ByPreemptions {
			m.ByPreemptions[k] += v
		}
		for _, h := range st.Finals {
			finalsBy[st.Program][h] = true
		}
		for _, f := range st.Findings {
			if b, ok := bestBy[st.Program][f.Key]; !ok || betterFinding(f, b) {
				bestBy[st.Program][f.Key] = f
			}
		}
		if st.SampleJob >= 0 && (m.SampleJob < 0 || st.SampleJob < m.SampleJob) {
			m.SampleJob, m.Sample = st.SampleJob, st.Sample
		}
	})
	if err != nil {
		fmt.Fprintf(os.Stderr, "harness error: %v\n", err)
		return 2
	}
	if herr != "" {
		fmt.Fprintf(os.Stderr, "harness error: interleaving search: %s\n", herr)
		return 2
	}
	schedules, steps, contended, deadlocks, replays := 0, 0, 0, 0, 0
	byPre := map[string]int{}
	perProgram := map[string]any{}
	var lockOps int64
	for _, pg := range pgs {
		st := merged[pg.Name]
		if st == nil {
			fmt.Fprintf(os.Stderr, "harness error: interleaving program %q was not explored\n", pg.Name)
			return 2
		}
		if len(st.Diverged) > 0 {
			fmt.Fprintf(os.Stderr, "harness error: %d replayed schedules of %q diverged, e.g. %s\n", len(st.Diverged), st.Program, st.Diverged[0])
			return 2
		}
		schedules += st.Schedules
		steps += st.Transitions
		contended += st.Contended
		deadlocks += st.Deadlocks
		replays += st.Replays
		lockOps += st.LockOps
		for k, v := range st.ByPreemptions {
			byPre[k] += v
		}
		if st.CapHit {
			exhaustive = false
		}
		perProgram[st.Program] = map[string]any{"threads": pg.Threads, "schedules": st.Schedules, "by_preemptions": st.ByPreemptions, "contended": st.Contended,
			"distinct_final_states": len(finalsBy[pg.Name]), "max_scheduling_points": st.MaxPoints, "subtree_jobs": st.Jobs, "deadline_hit": st.CapHit}
		if len(st.Sample) > 0 && len(samples) < 3 {
			samples = append(samples, map[string]any{"part": "interleaving", "program": st.Program, "trace": st.Sample})
		}
		keys := []string{}
		for k := range bestBy[pg.Name] {
			keys = append(keys, k)
		}
		sort.Strings(keys)
		for _, k := range keys {
			f := bestBy[pg.Name][k]
			// re-execute the candidate before reporting it
			for i := 0; i < 2; i++ {
				pp := pg
				o, err := runSchedule(&pp, f.Schedule, 1<<30)
				again := false
				if err == nil {
					for _, g := range o.Findings {
						if fmt.Sprintf("C17/%s after=interleaving[%s]", g.Key, pg.Name) == f.Key {
							again = true
						}
					}
				}
				if !again {
					fmt.Fprintf(os.Stderr, "harness error: violation %s did not reproduce on re-execution of schedule %v\n", f.Key, f.Schedule)
					return 2
				}
			}
			if os.Getenv("VERIF_KEYS") != "" {
				fmt.Printf("KEY %s\n        %s | schedule %v (%d preemptions) | %s\n", f.Key, f.Msg, f.Schedule, f.Preemptions, strings.Join(f.Events, " ; "))
			}
			rep.Add(engine.Violation{Property: "C17", Key: f.Key, Message: fmt.Sprintf("%s: %s | fewest preemptions among violating schedules: %d | schedule %v: %s", f.Key, f.Msg, f.Preemptions, f.Schedule, strings.Join(f.Events, " ; ")),
				Replay: Replay{Part: "interleaving", Program: f.Program, Schedule: f.Schedule, Bound: cfg.bound, Tier: tier}})
		}
	}
	interWall := time.Since(start).Seconds()

	// ---------------- part (i): histories – level-synchronous BFS, levels expanded by the worker pool
	hcfgs := histConfigs(tier)
	// the history part gets what the interleaving part left of the tier's total budget
	if left := cfg.histDeadline + cfg.interDeadline - time.Since(start); left > cfg.histDeadline {
		cfg.histDeadline = left
	}
	budget := engine.NewBudget(cfg.histDeadline)
	scratch, err := os.MkdirTemp("/var/tmp", "verif-c17-")
	if err != nil {
		fmt.Fprintf(os.Stderr, "harness error: %v\n", err)
		return 2
	}
	defer os.RemoveAll(scratch)
	var frontier []frontierEntry
	visited := map[string]bool{}
	for ci := range hcfgs {
		frontier = append(frontier, frontierEntry{Cfg: ci})
		w0, _, err := hcfgs[ci].scenario().Build(0, false)
		if err != nil {
			fmt.Fprintf(os.Stderr, "harness error: %v\n", err)
			return 2
		}
		visited[hashCanon(ci, w0.Snap().Canon())] = true
	}
	states, transitions, window, maxDepth := len(frontier), 0, 0, 0
	byOp := map[string]int{}
	perConfig := make([]struct{ states, transitions int }, len(hcfgs))
	for i := range perConfig {
		perConfig[i].states = 1
	}
	seenKey := map[string]bool{}
	skippedEntries := 0
	levelSizes := []int{len(frontier)}
	depthDone := 0
	for d := 0; d < cfg.depth && len(frontier) > 0; d++ {
		if budget.Exceeded() {
			exhaustive = false
			break
		}
		fb, _ := json.Marshal(frontier)
		fpath := fmt.Sprintf("%s/frontier-%d.json", scratch, d)
		if err := os.WriteFile(fpath, fb, 0o644); err != nil {
			fmt.Fprintf(os.Stderr, "harness error: %v\n", err)
			return 2
		}
		results := make([]*expResult, len(frontier))
		herr := ""
		remaining := cfg.histDeadline - time.Duration(budget.Elapsed()*float64(time.Second))
		err := engine.RunWorkers(min(workers, len(frontier)), []string{modeEnv + "=hist", frontierEnv + "=" + fpath, fmt.Sprintf("%s=%d", budgetEnv, max(1, remaining.Milliseconds()))}, 6*1024*1024, func(_ int, line []byte) {
			var r expResult
			if json.Unmarshal(line, &r) != nil {
				return
			}
			if r.Err != "" && herr == "" {
				herr = r.Err
			}
			if r.Entry >= 0 && r.Entry < len(results) {
				results[r.Entry] = &r
			}
		})
		if err != nil || herr != "" {
			fmt.Fprintf(os.Stderr, "harness error: history level %d: %v %s\n", d, err, herr)
			return 2
		}
		var next []frontierEntry
		for ei, r := range results {
			if r == nil {
				fmt.Fprintf(os.Stderr, "harness error: history level %d: entry %d not expanded\n", d, ei)
				return 2
			}
			src := frontier[ei]
			if r.Skipped {
				exhaustive = false
				skippedEntries++
				continue
			}
			for _, t := range r.Trans {
				transitions++
				perConfig[src.Cfg].transitions++
				byOp[t.L.after()]++
				if t.Win {
					window++
				}
				hist := append(append([]Label{}, src.Hist...), t.L)
				for _, f := range t.Fresh {
					key := fmt.Sprintf("C17/%s after=%s", f.Key, t.L.after())
					if seenKey[key] {
						continue
					}
					seenKey[key] = true
					for i := 0; i < 2; i++ { // re-execute the candidate before reporting it
						fresh, err := ReplayHistory(&hcfgs[src.Cfg], hist, false)
						again := false
						for _, g := range fresh {
							if g.Key == key {
								again = true
							}
						}
						if err != nil || !again {
							fmt.Fprintf(os.Stderr, "harness error: violation %s did not reproduce on re-execution of its history\n", key)
							return 2
						}
					}
					hs := []string{}
					for _, l := range hist {
						hs = append(hs, l.String())
					}
					if os.Getenv("VERIF_KEYS") != "" {
						fmt.Printf("KEY %s\n        [%s] %s | history: %s\n", key, hcfgs[src.Cfg].Name, f.Msg, strings.Join(hs, " -> "))
					}
					rep.Add(engine.Violation{Property: "C17", Key: key, Message: fmt.Sprintf("%s: %s | config %s | history: %s", key, f.Msg, hcfgs[src.Cfg].Name, strings.Join(hs, " -> ")),
						Replay: Replay{Part: "history", Config: hcfgs[src.Cfg].Name, History: hist, Tier: tier}})
				}
				if t.Canon != "" && len(samples) < 5 && t.L.Kind == br.Crash {
					hs := []string{}
					for _, l := range hist {
						hs = append(hs, l.String())
					}
					samples = append(samples, map[string]any{"part": "history", "config": hcfgs[src.Cfg].Name, "trace": append(hs, "=> "+strings.ReplaceAll(strings.TrimSpace(t.Canon), "\n", " ; "))})
				}
				if !visited[t.H] {
					visited[t.H] = true
					states++
					perConfig[src.Cfg].states++
					next = append(next, frontierEntry{Cfg: src.Cfg, Hist: hist})
				}
			}
		}
		depthDone = d + 1
		if len(next) > 0 {
			maxDepth = d + 1
		}
		frontier = next
		levelSizes = append(levelSizes, len(next))
		if os.Getenv("VERIF_TIMING") != "" {
			fmt.Fprintf(os.Stderr, "timing: history level %d done at %.1fs: states=%d transitions=%d next frontier=%d\n", d+1, time.Since(start).Seconds(), states, transitions, len(next))
		}
	}
	if depthDone < cfg.depth && len(frontier) > 0 {
		exhaustive = false
	}
	perCfgOut := map[string]any{}
	for i := range hcfgs {
		perCfgOut[hcfgs[i].Name] = map[string]int{"states": perConfig[i].states, "transitions": perConfig[i].transitions}
	}

	// vacuity guards
	if lockOps == 0 {
		fmt.Fprintln(os.Stderr, "harness error: the O-groupmutex overlay is not active in this build (no Lock reached the shim): run /verif/overlays/gen_groupmutex.sh and build with its overlay.json")
		return 2
	}
	if window == 0 {
		fmt.Fprintln(os.Stderr, "harness error: vacuous – no crash point between reservation-pod creation and consumer labelling was explored")
		return 2
	}
	if contended == 0 {
		fmt.Fprintln(os.Stderr, "harness error: vacuous – no schedule in which two threads contended on the same group mutex")
		return 2
	}
	if byOp["consumer-completed+pod-handler"] == 0 || byOp["consumer-deleted+pod-handler"] == 0 || byOp["bindrequest-deleted+br-handler"] == 0 || byOp["bind-failure+rollback"] == 0 || byOp["bind"] == 0 {
		fmt.Fprintf(os.Stderr, "harness error: vacuous – an event class was never exercised: %v\n", byOp)
		return 2
	}
	if len(samples) == 0 {
		samples = append(samples, map[string]any{"note": "no sample recorded"})
	}
	cov := map[string]any{
		"states":                        states,
		"transitions":                   transitions + steps,
		"traces_validated_against_impl": transitions + steps,
		"samples":                       samples,
		"history_states":                states,
		"history_transitions":           transitions,
		"history_transitions_by_event":  byOp,
		"history_depth_bound":           cfg.depth,
		"history_depth_completed":       depthDone,
		"history_max_depth_with_new_states": maxDepth,
		"history_level_sizes":           levelSizes,
		"history_states_not_expanded_by_deadline": skippedEntries,
		"history_configs":               perCfgOut,
		"crash_points_between_reservation_create_and_label": window,
		"schedules_explored":            schedules,
		"scheduling_steps":              steps,
		"schedules_by_preemptions":      byPre,
		"preemption_bound_completed":    cfg.bound,
		"preemption_bound_three_thread_programs": cfg.bound - 1,
		"schedules_with_mutex_contention": contended,
		"deadlocks":                     deadlocks,
		"determinism_replays":           replays,
		"interleaving_programs":         perProgram,
		"group_mutex_lock_ops":          lockOps,
		"exhaustive":                    exhaustive,
		"explanation":                   "history transitions = one real Reconcile / pod or BindRequest event handler / startup Sync executed on the store reached by re-executing the state's history; interleaving steps = scheduling decisions of a cooperative scheduler over real entry points (points: every client call, every Lock/Unlock of the group mutex)",
	}
	if len(rep.KnownHits()) > 0 {
		cov["known_finding_hits"] = rep.KnownHits()
	}
	code := rep.Finish()
	ev := &engine.Evidence{PropertyID: "C17", Tier: tier, Seed: engine.SeedFromEnv(), Level: "model_checking", Coverage: cov,
		Assumptions: []string{
			"API store = controller-runtime fake client with the two field indexes of cmd/binder/app; reads are live (no informer-cache staleness)",
			"event handlers receive the object exactly as the store held it (delete: last state; update: old and new)",
			"a reservation pod reports the lowest free GPU index of its node at Watch time",
			"every history event runs in a fresh binder process image (the binder keeps no behaviour-relevant memory across quiescent points); crash = store frozen, then new image + startup Sync",
			"reservation pods are only removed by the binder (no external deletion / eviction of reservation pods in the histories)",
			"quick tier: crash points of a bind are the calls between reservation-pod creation and consumer labelling (all calls in thorough); err and watch answers at every call",
			"interleavings: atomicity granularity = one client call; goroutine switches only at client calls and group-mutex Lock/Unlock; preemption-bounded; one binder process (shared reservation service and mutex)",
		},
		WallS: time.Since(start).Seconds(), Violations: rep.NewCount()}
	if err := engine.WriteEvidence(ev); err != nil {
		fmt.Fprintf(os.Stderr, "harness error: %v\n", err)
		return 2
	}
	fmt.Printf("C17 %s: histories: states=%d transitions=%d depth=%d/%d crash-window=%d | interleavings: programs=%d schedules=%d (by preemptions %v) steps=%d contended=%d deadlocks=%d replays=%d (%.1fs) | exhaustive=%v wall=%.1fs\n",
		tier, states, transitions, depthDone, cfg.depth, window, len(pgs), schedules, byPre, steps, contended, deadlocks, replays, interWall, exhaustive, time.Since(start).Seconds())
	return code
}

func replay(path string) int {
	b, err := os.ReadFile(path)
	if err != nil {
		fmt.Fprintln(os.Stderr, err)
		return 2
	}
	var v struct {
		Key    string `json:"key"`
		Replay Replay `json:"replay"`
	}
	if err := json.Unmarshal(b, &v); err != nil {
		fmt.Fprintln(os.Stderr, err)
		return 2
	}
	maporder.Set(0)
	if !overlayActive() {
		fmt.Fprintln(os.Stderr, "harness error: the O-groupmutex overlay is not part of this build")
		return 2
	}
	found := false
	switch v.Replay.Part {
	case "history":
		var cfg *Config
		for _, c := range histConfigs("thorough") {
			if c.Name == v.Replay.Config {
				cc := c
				cfg = &cc
			}
		}
		if cfg == nil {
			fmt.Fprintln(os.Stderr, "unknown config", v.Replay.Config)
			return 2
		}
		fresh, err := ReplayHistory(cfg, v.Replay.History, true)
		if err != nil {
			fmt.Fprintln(os.Stderr, "replay error:", err)
			return 2
		}
		for _, f := range fresh {
			if f.Key == v.Key {
				found = true
			}
		}
	case "interleaving":
		var pg *Program
		for _, p := range programs("thorough") {
			if p.Name == v.Replay.Program {
				pp := p
				pg = &pp
			}
		}
		if pg == nil {
			fmt.Fprintln(os.Stderr, "unknown program", v.Replay.Program)
			return 2
		}
		o, err := runSchedule(pg, v.Replay.Schedule, 1<<30)
		if err == nil && syncshim.LockOps.Load() == 0 {
			err = fmt.Errorf("O-groupmutex overlay not active")
		}
		if err != nil {
			fmt.Fprintln(os.Stderr, "replay error:", err)
			return 2
		}
		if syncshim.LockOps.Load() == 0 {
			fmt.Fprintln(os.Stderr, "harness error: O-groupmutex overlay not active")
			return 2
		}
		for _, e := range o.Events {
			fmt.Println("  sched:", e)
		}
		for _, t := range o.Trace {
			fmt.Println("   ", t)
		}
		for _, l := range o.Final {
			fmt.Println("  final:", l)
		}
		for _, f := range o.Findings {
			k := fmt.Sprintf("C17/%s after=interleaving[%s]", f.Key, pg.Name)
			fmt.Printf("  oracle: %s: %s\n", k, f.Msg)
			if k == v.Key {
				found = true
			}
		}
	default:
		fmt.Fprintln(os.Stderr, "unknown replay part")
		return 2
	}
	if found {
		fmt.Printf("VIOLATION property=C17 replay=%s\n", path)
		return 1
	}
	fmt.Println("replay: violation not reproduced")
	return 0
}

var _ = br.NS
