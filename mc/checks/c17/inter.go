package c17

import (
	"context"
	"fmt"
	"sort"
	"strings"

	v1 "k8s.io/api/core/v1"

	br "verif/mc/checks/binderrun"
	"verif/mc/checks/binderrun/syncshim"
	"verif/mc/engine"
)

// Program is one concurrent situation: a world prepared by the real code plus 2–3 threads each
// running a real entry point of the binder, all on the same node (and mostly the same group).
type Program struct {
	Name    string
	Threads []string
	// setup prepares the quiescent world once (real code binds the pre-existing consumers, the
	// environment events happen) and returns a factory for the thread bodies on a clone of it.
	setup func() (*br.World, func(w *br.World, p *br.Proc) []func(), error)

	base   *br.World
	bodies func(w *br.World, p *br.Proc) []func()
}

// instance returns a fresh copy of the prepared world, a fresh process image shared by all threads
// and the thread bodies.
func (pg *Program) instance() (*br.World, []func(), error) {
	if pg.base == nil {
		b, f, err := pg.setup()
		if err != nil {
			return nil, nil, err
		}
		pg.base, pg.bodies = b, f
	}
	w := pg.base.Clone()
	p := w.NewProc()
	return w, pg.bodies(w, p), nil
}

func fracWL(name, f string, gs ...string) br.Workload {
	o := br.PodOpts{Fraction: f}
	if len(gs) > 1 {
		o.NumDevices = fmt.Sprint(len(gs))
	}
	return br.Workload{Name: name, Opts: o, Fraction: true, Groups: gs, Count: len(gs), Portion: f + "0"}
}

func reconcileBody(p *br.Proc, name string, errs *[]string) func() {
	return func() {
		if _, err := p.Reconcile(name); err != nil {
			*errs = append(*errs, name+": "+err.Error())
		}
	}
}

var bgctx = context.Background()

// programs of the interleaving search. One process image (one binder) serves all threads – they
// share the reservation service and therefore its group mutex.
func programs(tier string) []Program {
	mk := func(name string, threads []string, pre []br.Workload, target br.Workload, others []br.Workload,
		prep func(w *br.World, sc *br.Scenario) func(w *br.World, p *br.Proc) []func()) Program {
		return Program{Name: name, Threads: threads, setup: func() (*br.World, func(w *br.World, p *br.Proc) []func(), error) {
			sc := &br.Scenario{Name: name, Node: "node-1", Pre: pre, Target: target, Others: others}
			w, _, err := sc.Build(0, true)
			if err != nil {
				return nil, nil, err
			}
			return w, prep(w, sc), nil
		}}
	}
	var errsSink []string
	ps := []Program{
		// two reconciles opening the same new group
		mk("bind||bind same-new-group", []string{"reconcile(a)", "reconcile(b)"}, nil, fracWL("a", "0.5", "g1"), []br.Workload{fracWL("b", "0.3", "g1")},
			func(w *br.World, sc *br.Scenario) func(w *br.World, p *br.Proc) []func() {
				w.EnvCreate(sc.NewBR(&sc.Others[0]))
				return func(w *br.World, p *br.Proc) []func() {
					return []func(){reconcileBody(p, "a", &errsSink), reconcileBody(p, "b", &errsSink)}
				}
			}),
		// a consumer of g1 was deleted: its delete handler syncs g1 while another pod joins g1
		mk("pod-delete-handler||bind joining-group", []string{"pod-deleted(c0)", "reconcile(b)"}, []br.Workload{fracWL("c0", "0.3", "g1")}, fracWL("b", "0.5", "g1"), nil,
			func(w *br.World, sc *br.Scenario) func(w *br.World, p *br.Proc) []func() {
				last := w.EnvDeletePod("c0")
				return func(w *br.World, p *br.Proc) []func() {
					return []func(){func() { p.PodDeleted(last) }, reconcileBody(p, "b", &errsSink)}
				}
			}),
		// a consumer of g1 completed: completion handler vs bind
		mk("pod-completion-handler||bind joining-group", []string{"pod-completed(c0)", "reconcile(b)"}, []br.Workload{fracWL("c0", "0.3", "g1")}, fracWL("b", "0.5", "g1"), nil,
			func(w *br.World, sc *br.Scenario) func(w *br.World, p *br.Proc) []func() {
				old, cur := w.EnvSetPhase("c0", v1.PodSucceeded)
				return func(w *br.World, p *br.Proc) []func() {
					return []func(){func() { p.PodUpdated(old, cur) }, reconcileBody(p, "b", &errsSink)}
				}
			}),
		// the BindRequest of a consumer of g1 is deleted (scheduler / GC): BR delete handler vs bind
		mk("bindrequest-delete-handler||bind joining-group", []string{"br-deleted(c0)", "reconcile(b)"}, []br.Workload{fracWL("c0", "0.3", "g1")}, fracWL("b", "0.5", "g1"), nil,
			func(w *br.World, sc *br.Scenario) func(w *br.World, p *br.Proc) []func() {
				// c0 is gone together with its request: only the BR handler runs (the pod handler ran earlier and found g1 still used)
				last := w.EnvDeleteBR("c0")
				_ = w.EnvDeletePod("c0")
				return func(w *br.World, p *br.Proc) []func() {
					return []func(){func() { p.BRDeleted(last) }, reconcileBody(p, "b", &errsSink)}
				}
			}),
		// node-wide sync (what every Bind and every Rollback start with) vs bind opening a group
		mk("sync-for-node||bind new-group", []string{"SyncForNode", "reconcile(a)"}, nil, fracWL("a", "0.5", "g1"), nil,
			func(w *br.World, sc *br.Scenario) func(w *br.World, p *br.Proc) []func() {
				return func(w *br.World, p *br.Proc) []func() {
					return []func(){func() { _ = p.RRS.SyncForNode(bgctx, "node-1") }, reconcileBody(p, "a", &errsSink)}
				}
			}),
		// multi-fraction and single-fraction pods meeting on g1
		mk("bind(multi g1,g2)||bind(single g1)", []string{"reconcile(m)", "reconcile(s)"}, nil, fracWL("m", "0.5", "g1", "g2"), []br.Workload{fracWL("s", "0.3", "g1")},
			func(w *br.World, sc *br.Scenario) func(w *br.World, p *br.Proc) []func() {
				w.EnvCreate(sc.NewBR(&sc.Others[0]))
				return func(w *br.World, p *br.Proc) []func() {
					return []func(){reconcileBody(p, "m", &errsSink), reconcileBody(p, "s", &errsSink)}
				}
			}),
		// a multi-fraction consumer of g1+g2 was deleted: its handler syncs both groups while a single-fraction pod joins g1
		mk("pod-delete-handler(multi g1,g2)||bind(single g1)", []string{"pod-deleted(m0)", "reconcile(s)"}, []br.Workload{fracWL("m0", "0.5", "g1", "g2")}, fracWL("s", "0.3", "g1"), nil,
			func(w *br.World, sc *br.Scenario) func(w *br.World, p *br.Proc) []func() {
				last := w.EnvDeletePod("m0")
				return func(w *br.World, p *br.Proc) []func() {
					return []func(){func() { p.PodDeleted(last) }, reconcileBody(p, "s", &errsSink)}
				}
			}),
		// the same two situations with the environment event IN FLIGHT: the consumer completes / is deleted
		// while the bind is already past its node-wide sync (the event is the first step of the handler thread)
		mk("complete(c0)+handler||bind joining-group", []string{"complete+pod-completed(c0)", "reconcile(b)"}, []br.Workload{fracWL("c0", "0.3", "g1")}, fracWL("b", "0.5", "g1"), nil,
			func(w *br.World, sc *br.Scenario) func(w *br.World, p *br.Proc) []func() {
				return func(w *br.World, p *br.Proc) []func() {
					return []func(){func() {
						old, cur := w.EnvSetPhase("c0", v1.PodSucceeded)
						p.PodUpdated(old, cur)
					}, reconcileBody(p, "b", &errsSink)}
				}
			}),
		mk("delete(c0)+handler||bind joining-group", []string{"delete+pod-deleted(c0)", "reconcile(b)"}, []br.Workload{fracWL("c0", "0.3", "g1")}, fracWL("b", "0.5", "g1"), nil,
			func(w *br.World, sc *br.Scenario) func(w *br.World, p *br.Proc) []func() {
				return func(w *br.World, p *br.Proc) []func() {
					return []func(){func() {
						last := w.EnvDeletePod("c0")
						p.PodDeleted(last)
					}, reconcileBody(p, "b", &errsSink)}
				}
			}),
		// three threads: two binds on one group plus the startup Sync that runs while the manager already reconciles
		mk("bind||bind||startup-sync", []string{"reconcile(a)", "reconcile(b)", "Sync"}, []br.Workload{fracWL("c0", "0.3", "g1")}, fracWL("a", "0.5", "g1"), []br.Workload{fracWL("b", "0.2", "g1")},
			func(w *br.World, sc *br.Scenario) func(w *br.World, p *br.Proc) []func() {
				w.EnvCreate(sc.NewBR(&sc.Others[0]))
				_ = w.EnvDeletePod("c0") // its handler was lost with the previous process; the startup Sync has to clean up
				return func(w *br.World, p *br.Proc) []func() {
					return []func(){reconcileBody(p, "a", &errsSink), reconcileBody(p, "b", &errsSink), func() { _ = p.RRS.Sync(bgctx) }}
				}
			}),
	}
	if tier == "thorough" {
		ps = append(ps,
			mk("bind(multi g1,g2)||bind(multi g2,g1)", []string{"reconcile(m)", "reconcile(n)"}, nil, fracWL("m", "0.5", "g1", "g2"), []br.Workload{fracWL("n", "0.5", "g2", "g1")},
				func(w *br.World, sc *br.Scenario) func(w *br.World, p *br.Proc) []func() {
					w.EnvCreate(sc.NewBR(&sc.Others[0]))
					return func(w *br.World, p *br.Proc) []func() {
					return []func(){reconcileBody(p, "m", &errsSink), reconcileBody(p, "n", &errsSink)}
				}
			}),
			mk("pod-delete-handler||bind||SyncForGpuGroup", []string{"pod-deleted(c0)", "reconcile(b)", "SyncForGpuGroup(g1)"}, []br.Workload{fracWL("c0", "0.3", "g1")}, fracWL("b", "0.5", "g1"), nil,
				func(w *br.World, sc *br.Scenario) func(w *br.World, p *br.Proc) []func() {
					last := w.EnvDeletePod("c0")
					return func(w *br.World, p *br.Proc) []func() {
					return []func(){func() { p.PodDeleted(last) }, reconcileBody(p, "b", &errsSink), func() { _ = p.RRS.SyncForGpuGroup(bgctx, "g1") }}
				}
			}),
		)
	}
	return ps
}

// runObs is everything observed on one schedule.
type runObs struct {
	Points      []point
	Preemptions int
	Contended   int
	Deadlock    bool
	DeadlockMsg string
	Trace       []string
	Events      []string
	Final       []string
	Findings    []br.Finding
	Calls       int
}

func (o *runObs) sig() string {
	return strings.Join(o.Trace, ";") + "|" + strings.Join(o.Events, ";") + "|" + strings.Join(o.Final, ";")
}

// runSchedule executes program pg under the schedule prefix (default continuation = never preempt).
func runSchedule(pg *Program, prefix []int, bound int) (*runObs, error) {
	w, bodies, err := pg.instance()
	if err != nil {
		return nil, err
	}
	br.SeedNames(7)
	c := newCoop(pg.Threads, prefix, bound)
	c.run(w, bodies)
	o := &runObs{Points: c.points, Preemptions: c.preemptions, Contended: c.contended, Deadlock: c.deadlock, DeadlockMsg: c.deadlockMsg, Events: c.events, Calls: len(w.Trace)}
	for _, cl := range w.Trace {
		o.Trace = append(o.Trace, fmt.Sprintf("T%d %s %s", cl.Thread, cl.Verb, cl.Target))
	}
	if c.deadlock {
		o.Findings = append(o.Findings, br.Finding{Key: "deadlock", Msg: "no enabled thread: " + c.deadlockMsg})
		return o, nil
	}
	sn := w.Snap()
	o.Final = sn.Lines()
	o.Findings = br.CheckReservationInvariant(sn)
	for _, m := range c.misuse {
		o.Findings = append(o.Findings, br.Finding{Key: "group-lock-released-by-non-holder", Msg: m})
	}
	return o, nil
}

// interStats of one program (possibly partial: one worker's share of the schedule tree).
type interStats struct {
	Program       string         `json:"program"`
	Schedules     int            `json:"schedules"`
	Transitions   int            `json:"transitions"` // scheduling steps executed
	ByPreemptions map[string]int `json:"by_preemptions"`
	Contended     int            `json:"contended_schedules"`
	Deadlocks     int            `json:"deadlocks"`
	Finals        []string       `json:"finals"` // hashes of distinct final stores
	Replays       int            `json:"replays"`
	Diverged      []string       `json:"diverged,omitempty"`
	LockOps       int64          `json:"lock_ops"`
	CapHit        bool           `json:"cap_hit"`
	Findings      []InterFinding `json:"findings,omitempty"`
	Sample        []string       `json:"sample,omitempty"`
	SampleJob     int            `json:"sample_job"`
	Err           string         `json:"err,omitempty"`
	MaxPoints     int            `json:"max_points"`
	Jobs          int            `json:"jobs"`
}

type InterFinding struct {
	Key         string   `json:"key"`
	Msg         string   `json:"msg"`
	Program     string   `json:"program"`
	Schedule    []int    `json:"schedule"`
	Preemptions int      `json:"preemptions"`
	Events      []string `json:"events,omitempty"`
}

// interJob is a part of a program's schedule tree. Prefix is empty or ends with a non-default
// (non-zero) choice. Single = exactly the one schedule "Prefix, then default choices"; otherwise the
// job is the whole subtree below Prefix (all continuations after Prefix's last point).
// The jobs partition the tree, so worker processes can explore them independently.
type interJob struct {
	Prog   int
	Prefix []int
	Single bool
}

// interJobs derives the job list (identically in every worker). depth 1: one subtree per first
// non-default choice; depth 2 (thorough): one subtree per first two non-default choices, which
// balances the load much better for higher preemption bounds.
func interJobs(pgs []Program, bound int, depth int) ([]interJob, error) {
	var jobs []interJob
	for pi := range pgs {
		b := boundFor(&pgs[pi], bound)
		o, err := runSchedule(&pgs[pi], nil, b)
		if err != nil {
			return nil, err
		}
		jobs = append(jobs, interJob{Prog: pi, Prefix: nil, Single: true})
		for i, p := range o.Points {
			for v := 1; v < p.allowed; v++ {
				pre1 := append(make([]int, i), v)
				if depth < 2 {
					jobs = append(jobs, interJob{Prog: pi, Prefix: pre1})
					continue
				}
				o1, err := runSchedule(&pgs[pi], pre1, b)
				if err != nil {
					return nil, err
				}
				jobs = append(jobs, interJob{Prog: pi, Prefix: pre1, Single: true})
				for i2 := i + 1; i2 < len(o1.Points); i2++ {
					for v2 := 1; v2 < o1.Points[i2].allowed; v2++ {
						pre2 := append(append(append([]int{}, pre1...), make([]int, i2-i-1)...), v2)
						jobs = append(jobs, interJob{Prog: pi, Prefix: pre2})
					}
				}
			}
		}
	}
	return jobs, nil
}

func betterFinding(a, b InterFinding) bool { // a better than b
	if a.Preemptions != b.Preemptions {
		return a.Preemptions < b.Preemptions
	}
	if len(a.Schedule) != len(b.Schedule) {
		return len(a.Schedule) < len(b.Schedule)
	}
	return fmt.Sprint(a.Schedule) < fmt.Sprint(b.Schedule)
}

// exploreSubtree is the preemption-bounded DFS over the schedules of one job, accumulating into st.
func exploreSubtree(pg *Program, job interJob, jobIdx int, bound int, stop func() bool, st *interStats, finals map[string]bool, best map[string]InterFinding) {
	prefix := append([]int{}, job.Prefix...)
	floor := len(job.Prefix)
	st.Jobs++
	for {
		if stop() {
			st.CapHit = true
			return
		}
		o, err := runSchedule(pg, prefix, bound)
		if err != nil {
			st.Err = err.Error()
			return
		}
		st.Schedules++
		st.Transitions += len(o.Points)
		st.ByPreemptions[fmt.Sprint(o.Preemptions)]++
		if o.Contended > 0 {
			st.Contended++
		}
		if o.Deadlock {
			st.Deadlocks++
		}
		if len(o.Points) > st.MaxPoints {
			st.MaxPoints = len(o.Points)
		}
		finals[engineHash(strings.Join(o.Final, ";"))] = true
		full := make([]int, len(o.Points))
		for i, p := range o.Points {
			full[i] = p.chosen
		}
		for _, f := range o.Findings {
			key := fmt.Sprintf("C17/%s after=interleaving[%s]", f.Key, pg.Name)
			cand := InterFinding{Key: key, Msg: f.Msg, Program: pg.Name, Schedule: trimSchedule(full), Preemptions: o.Preemptions, Events: o.Events}
			if b, ok := best[key]; !ok || betterFinding(cand, b) {
				best[key] = cand
			}
		}
		if st.Sample == nil && o.Preemptions >= 1 && o.Contended > 0 {
			st.Sample = append([]string{fmt.Sprintf("schedule %v (%d preemptions)", trimSchedule(full), o.Preemptions)}, o.Events...)
			st.Sample = append(st.Sample, "=> "+strings.Join(o.Final, " ; "))
			st.SampleJob = jobIdx
		}
		// determinism: replay every 8th schedule
		if st.Schedules%8 == 1 {
			o2, err := runSchedule(pg, full, bound)
			st.Replays++
			if err != nil || o2.sig() != o.sig() {
				st.Diverged = append(st.Diverged, fmt.Sprint(trimSchedule(full)))
			}
		}
		// backtrack: deepest point (not below the job's floor) with an untried alternative
		i := len(o.Points) - 1
		for ; i >= floor; i-- {
			if o.Points[i].chosen+1 < o.Points[i].allowed {
				break
			}
		}
		if i < floor || job.Single {
			return
		}
		prefix = append(append([]int{}, full[:i]...), full[i]+1)
	}
}

func engineHash(s string) string { return engine.HashKey(s) }

// trimSchedule drops the trailing zeros (the default continuation).
func trimSchedule(s []int) []int {
	n := len(s)
	for n > 0 && s[n-1] == 0 {
		n--
	}
	return append([]int{}, s[:n]...)
}

var _ = sort.Strings
var _ = syncshim.Install
