package c17

import (
	"fmt"
	"sync"

	br "verif/mc/checks/binderrun"
	"verif/mc/checks/binderrun/syncshim"
)

// coop is a cooperative scheduler: exactly one thread (goroutine) runs at any time; control is
// handed over only at scheduling points = before every intercepted client call and at every
// Lock/Unlock of the (shimmed) group mutexes. The sequence of hand-over decisions is the schedule.
type coop struct {
	threads []*cthread
	cur     int // running thread, -1 before the start
	prefix  []int
	bound   int

	// recorded for the DFS
	points      []point
	preemptions int
	contended   int // Lock points at which the mutex was held by another thread
	deadlock    bool
	deadlockMsg string
	events      []string // observation log (scheduling decisions + lock events)
	misuse      []string // the group lock was released by a thread that does not hold it

	mutexIDs map[*syncshim.Mutex]int
	done     chan struct{}
	mu       sync.Mutex // only guards against accidental true concurrency (must never contend)
}

type cthread struct {
	id      int
	name    string
	wake    chan struct{}
	done    bool
	waiting *syncshim.Mutex
}

// point is one scheduling decision.
type point struct {
	chosen  int // index into the canonical enabled list
	allowed int // number of alternatives the bound allows here
	thread  int // thread chosen
}

func newCoop(names []string, prefix []int, bound int) *coop {
	c := &coop{cur: -1, prefix: prefix, bound: bound, mutexIDs: map[*syncshim.Mutex]int{}, done: make(chan struct{})}
	for i, n := range names {
		c.threads = append(c.threads, &cthread{id: i, name: n, wake: make(chan struct{}, 1)})
	}
	return c
}

func (c *coop) enabled(t *cthread) bool {
	return !t.done && (t.waiting == nil || t.waiting.Owner == 0)
}

// decide picks the next thread to run at a scheduling point. Canonical order: the running thread
// first (if enabled), then the others by id. Returns nil when nobody is enabled.
func (c *coop) decide() *cthread {
	var list []*cthread
	curEnabled := false
	if c.cur >= 0 && c.enabled(c.threads[c.cur]) {
		list = append(list, c.threads[c.cur])
		curEnabled = true
	}
	for _, t := range c.threads {
		if t.id != c.cur && c.enabled(t) {
			list = append(list, t)
		}
	}
	if len(list) == 0 {
		return nil
	}
	allowed := len(list)
	if curEnabled && c.preemptions >= c.bound {
		allowed = 1
	}
	choice := 0
	if p := len(c.points); p < len(c.prefix) {
		choice = c.prefix[p]
		if choice >= allowed {
			panic(fmt.Sprintf("schedule prefix invalid at point %d: choice %d of %d", p, choice, allowed))
		}
	}
	if curEnabled && choice > 0 {
		c.preemptions++
	}
	next := list[choice]
	c.points = append(c.points, point{chosen: choice, allowed: allowed, thread: next.id})
	return next
}

// yield is a scheduling point of thread t (the running thread).
func (c *coop) yield(t *cthread, what string) {
	next := c.decide()
	if next == nil {
		c.deadlock = true
		c.deadlockMsg = c.describeBlocked()
		close(c.done)
		select {} // this goroutine is abandoned (only on deadlock)
	}
	if next != t {
		c.events = append(c.events, fmt.Sprintf("switch %s->%s at %s", t.name, next.name, what))
		c.cur = next.id
		next.wake <- struct{}{}
		<-t.wake
	}
}

func (c *coop) describeBlocked() string {
	s := ""
	for _, t := range c.threads {
		if !t.done {
			s += fmt.Sprintf("%s blocked on mutex#%d held by thread %d; ", t.name, c.mutexIDs[t.waiting], t.waiting.Owner-1)
		}
	}
	return s
}

// finish is called when thread t's body returned.
func (c *coop) finish(t *cthread) {
	t.done = true
	all := true
	for _, o := range c.threads {
		if !o.done {
			all = false
		}
	}
	if all {
		close(c.done)
		return
	}
	next := c.decide()
	if next == nil {
		c.deadlock = true
		c.deadlockMsg = c.describeBlocked()
		close(c.done)
		return
	}
	c.cur = next.id
	next.wake <- struct{}{}
}

func (c *coop) me() *cthread { return c.threads[c.cur] }

// --- syncshim.Hooks

func (c *coop) Lock(m *syncshim.Mutex) {
	t := c.me()
	if _, ok := c.mutexIDs[m]; !ok {
		c.mutexIDs[m] = len(c.mutexIDs)
	}
	if m.Owner != 0 && m.Owner != t.id+1 {
		c.contended++
		c.events = append(c.events, fmt.Sprintf("%s contends mutex#%d held by %s", t.name, c.mutexIDs[m], c.threads[m.Owner-1].name))
	}
	t.waiting = m
	c.yield(t, fmt.Sprintf("lock mutex#%d", c.mutexIDs[m]))
	// resumed => the mutex is free (enabled() guarantees it)
	if m.Owner != 0 {
		panic("coop: resumed on a held mutex")
	}
	m.Owner = t.id + 1
	t.waiting = nil
}

func (c *coop) Unlock(m *syncshim.Mutex) {
	t := c.me()
	if m.Owner != t.id+1 {
		// sync.Mutex has no owner: the real runtime releases a mutex another goroutine holds (that
		// goroutine's critical section is no longer exclusive) and aborts the process with "fatal error:
		// sync: unlock of unlocked mutex" if nobody holds it. Either way the group lock stopped doing
		// its job: record it as a finding of this schedule instead of crashing the explorer.
		if m.Owner == 0 {
			c.misuse = append(c.misuse, fmt.Sprintf("%s unlocks mutex#%d which nobody holds (fatal error in the real runtime)", t.name, c.mutexIDs[m]))
			c.yield(t, fmt.Sprintf("unlock mutex#%d", c.mutexIDs[m]))
			return
		}
		c.misuse = append(c.misuse, fmt.Sprintf("%s unlocks mutex#%d held by %s", t.name, c.mutexIDs[m], c.threads[m.Owner-1].name))
	}
	m.Owner = 0
	c.yield(t, fmt.Sprintf("unlock mutex#%d", c.mutexIDs[m]))
}

// run executes the bodies under the scheduler and blocks until all finished or a deadlock.
func (c *coop) run(w *br.World, bodies []func()) {
	syncshim.Install(c)
	defer syncshim.Install(nil)
	w.Yield = func(verb, target string) { c.yield(c.me(), verb+" "+target) }
	w.ThreadOf = func() int { return c.cur }
	defer func() { w.Yield, w.ThreadOf = nil, nil }()
	for i := range c.threads {
		t := c.threads[i]
		body := bodies[i]
		go func() {
			<-t.wake
			body()
			c.finish(t)
		}()
	}
	first := c.decide() // initial point: who starts is a free choice
	c.cur = first.id
	first.wake <- struct{}{}
	<-c.done
}
