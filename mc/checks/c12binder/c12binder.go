// Package c12binder is the binder half of property C12: the real BindRequestReconciler retries a
// failing request at most BackoffLimit times with the attempt count persisted, after which the
// request is observably failed to the scheduler (bindrequest_info.IsFailed).
//
// Enumeration: pod kinds x BackoffLimit {nil,0,1,2,3} x failure schedules (every 0/1 pattern of
// length <= 5 over "this attempt's bind fails", at two different call sites) - each schedule is
// executed on the real reconciler over the intercepted store of the C11 wiring.
package c12binder

import (
	"fmt"
	"strings"

	"k8s.io/utils/ptr"

	schedulingv1alpha2 "github.com/NVIDIA/KAI-scheduler/pkg/apis/scheduling/v1alpha2"
	"github.com/NVIDIA/KAI-scheduler/pkg/scheduler/api/bindrequest_info"

	"verif/mc/checks/binderrun"
	"verif/mc/engine"
	"verif/mc/families"
)

func limitStr(l *int32) string {
	if l == nil {
		return "nil"
	}
	return fmt.Sprint(*l)
}

// Run explores all failure schedules and returns coverage + violations.
func Run(tier string) (map[string]any, []engine.Violation) {
	maxLen := 5
	if tier == "thorough" {
		maxLen = 7
	}
	kinds := []binderrun.Workload{
		{Name: "t", Opts: binderrun.PodOpts{WholeGPUs: 1}, Count: 1, Portion: "0.00"},
		{Name: "t", Opts: binderrun.PodOpts{Fraction: "0.5"}, Fraction: true, Groups: []string{"g1"}, Count: 1, Portion: "0.50"},
		{Name: "t", Opts: binderrun.PodOpts{Fraction: "0.5", NumDevices: "2"}, Fraction: true, Groups: []string{"g1", "g2"}, Count: 2, Portion: "0.50"},
	}
	kindNames := []string{"whole-gpu", "fraction", "multi-fraction"}
	limits := []*int32{nil, ptr.To(int32(0)), ptr.To(int32(1)), ptr.To(int32(2)), ptr.To(int32(3))}
	sites := []string{"binding-create", "get-node"}
	var viol []engine.Violation
	executions, attempts, outcomes := 0, 0, map[string]bool{}
	var samples []any
	add := func(key, msg string, replay any) {
		viol = append(viol, engine.Violation{Property: "C12", Key: key, Message: msg, Replay: replay})
	}
	for ki, kind := range kinds {
		for _, lim := range limits {
			for _, site := range sites {
				for n := 1; n <= maxLen; n++ {
					for mask := 0; mask < 1<<n; mask++ {
						// schedule[i] == true: attempt i fails
						sched := make([]bool, n)
						for i := 0; i < n; i++ {
							sched[i] = mask&(1<<i) != 0
						}
						wl := kind
						wl.Backoff = lim
						sc := binderrun.Scenario{Name: "c12", Node: "node-1", Target: wl}
						w, p, err := sc.Build(1, true)
						if err != nil {
							add("C12/harness", err.Error(), nil)
							continue
						}
						executions++
						label := fmt.Sprintf("kind=%s backoff=%s site=%s schedule=%v", kindNames[ki], limitStr(lim), site, sched)
						failedSoFar := int32(0)
						trace := []string{}
						observedFailedAt := -1
						for i := 0; i < n; i++ {
							br := w.GetBR("t")
							if br == nil {
								break
							}
							if br.Status.Phase == schedulingv1alpha2.BindRequestPhaseSucceeded {
								break
							}
							fail := sched[i]
							w.Choose = func(c *binderrun.Call) binderrun.Kind {
								if !fail {
									return binderrun.OK
								}
								if site == "binding-create" && c.Verb == "binding-create" {
									return binderrun.Err
								}
								if site == "get-node" && c.Verb == "get" && strings.HasPrefix(c.Target, "Node") {
									return binderrun.Err
								}
								return binderrun.OK
							}
							_, rerr := p.Reconcile("t")
							w.Choose = nil
							attempts++
							after := w.GetBR("t")
							if after == nil {
								break
							}
							if fail {
								failedSoFar++
							}
							trace = append(trace, fmt.Sprintf("attempt %d fail=%v err=%v -> phase=%s failedAttempts=%d", i+1, fail, rerr != nil, after.Status.Phase, after.Status.FailedAttempts))
							if !fail {
								if after.Status.Phase != schedulingv1alpha2.BindRequestPhaseSucceeded {
									add("C12/successful-attempt-not-recorded "+fmt.Sprintf("backoff=%s", limitStr(lim)), label+": a fault-free attempt did not end Succeeded: "+strings.Join(trace, "; "), map[string]any{"case": label})
								}
								continue
							}
							// a failed attempt: the persisted count must be min(#failures, limit)
							want := failedSoFar
							if lim == nil {
								want = 0
							} else if want > *lim {
								want = *lim
							}
							if after.Status.Phase != schedulingv1alpha2.BindRequestPhaseFailed {
								add("C12/failed-attempt-not-reported", label+": "+strings.Join(trace, "; "), map[string]any{"case": label})
							}
							if after.Status.FailedAttempts != want {
								add(fmt.Sprintf("C12/failed-attempts-not-persisted backoff=%s after-failures=%d", limitStr(lim), failedSoFar),
									label+fmt.Sprintf(": persisted status.failedAttempts=%d, %d attempts have failed (limit %s): %s", after.Status.FailedAttempts, failedSoFar, limitStr(lim), strings.Join(trace, "; ")), map[string]any{"case": label})
							}
							// observably failed to the scheduler exactly once the limit is reached
							isFailed := bindrequest_info.NewBindRequestInfo(after).IsFailed()
							exhausted := lim == nil || failedSoFar >= *lim
							if exhausted && !isFailed {
								add(fmt.Sprintf("C12/not-observably-failed-after-limit backoff=%s", limitStr(lim)),
									label+fmt.Sprintf(": %d attempts failed (limit %s) but the scheduler does not see the request as failed: %s", failedSoFar, limitStr(lim), strings.Join(trace, "; ")), map[string]any{"case": label})
							}
							if isFailed && observedFailedAt < 0 {
								observedFailedAt = i + 1
							}
						}
						outcomes[fmt.Sprintf("%s|%s|%d|%d", kindNames[ki], limitStr(lim), failedSoFar, observedFailedAt)] = true
						if len(samples) < 5 && mask == (1<<n)-1 && n == 3 {
							samples = append(samples, map[string]any{"case": label, "trace": trace})
						}
					}
				}
			}
		}
	}
	cov := map[string]any{"binder_executions": executions, "binder_reconcile_attempts": attempts, "binder_distinct_outcomes": len(outcomes),
		"binder_samples": samples, "binder_rule": "3 pod kinds x BackoffLimit {nil,0,1,2,3} x 2 failing call sites x every fail/ok schedule of length <= " + fmt.Sprint(maxLen) + " on the real BindRequestReconciler"}
	return cov, viol
}

func init() {
	families.C12BinderHalf = Run
}
