package c12binder

import (
	"context"
	"fmt"
	"hash/fnv"
	"sort"
	"strings"

	corev1 "k8s.io/api/core/v1"
	metav1 "k8s.io/apimachinery/pkg/apis/meta/v1"
	"sigs.k8s.io/controller-runtime/pkg/client"

	admissiongpusharing "github.com/NVIDIA/KAI-scheduler/pkg/admission/webhook/v1alpha2/gpusharing"
	schedulingv1alpha2 "github.com/NVIDIA/KAI-scheduler/pkg/apis/scheduling/v1alpha2"

	"verif/mc/checks/binderrun"
	"verif/mc/clustermc"
	"verif/mc/engine"
	"verif/mc/families"
	"verif/mc/oracle"
	"verif/mc/schedrun"
	"verif/mc/world"
)

// End-to-end closed loop for C12: the REAL scheduler creates BindRequests, the REAL binder
// (BindRequestReconciler + Binder + reservation service + plugins) processes them on the same
// store contents, and the next REAL scheduler cycle must see the pod's resources (GPU groups
// included) charged to the selected node from the moment the request exists until its terminal
// outcome.

// ReconcileInWorld runs one real binder reconcile of BindRequest br on the objects of w and
// returns the resulting world. fail injects an error at the binding call of this attempt.
func ReconcileInWorld(w *world.World, br string, fail bool) (*world.World, error) {
	var objs []client.Object
	strip := func(o client.Object) client.Object {
		o.SetResourceVersion("")
		return o
	}
	for _, n := range w.Nodes {
		objs = append(objs, strip(n.DeepCopy()))
	}
	for _, p := range w.Pods {
		objs = append(objs, strip(p.DeepCopy()))
	}
	for _, b := range w.BindRequests {
		objs = append(objs, strip(b.DeepCopy()))
	}
	for _, c := range w.ConfigMaps {
		objs = append(objs, strip(c.DeepCopy()))
	}
	h := fnv.New64a()
	h.Write([]byte(br))
	binderrun.SeedNames(int64(h.Sum64()>>1) + int64(len(w.Pods))) // reproducible reservation-pod names
	bw := binderrun.NewWorld(objs, nil)
	p := bw.NewProc()
	// the scheduler's BindRequests live in the world's namespace; Proc.Reconcile is fixed to
	// binderrun.NS, so call the reconciler directly
	if fail {
		bw.Choose = func(c *binderrun.Call) binderrun.Kind {
			if c.Verb == "binding-create" {
				return binderrun.Err
			}
			return binderrun.OK
		}
	}
	_, _ = p.ReconcileNS(world.NS, br)
	bw.Choose = nil
	out := w.Clone()
	ctx := context.Background()
	pods := &corev1.PodList{}
	if err := bw.Raw.List(ctx, pods); err != nil {
		return nil, err
	}
	out.Pods = nil
	for i := range pods.Items {
		q := pods.Items[i].DeepCopy()
		q.ResourceVersion = ""
		q.TypeMeta = metav1.TypeMeta{APIVersion: "v1", Kind: "Pod"}
		out.Pods = append(out.Pods, q)
	}
	sort.Slice(out.Pods, func(i, j int) bool {
		return out.Pods[i].Namespace+"/"+out.Pods[i].Name < out.Pods[j].Namespace+"/"+out.Pods[j].Name
	})
	brs := &schedulingv1alpha2.BindRequestList{}
	if err := bw.Raw.List(ctx, brs); err != nil {
		return nil, err
	}
	out.BindRequests = nil
	for i := range brs.Items {
		q := brs.Items[i].DeepCopy()
		q.ResourceVersion = ""
		q.TypeMeta = metav1.TypeMeta{APIVersion: "scheduling.run.ai/v1alpha2", Kind: "BindRequest"}
		out.BindRequests = append(out.BindRequests, q)
	}
	sort.Slice(out.BindRequests, func(i, j int) bool { return out.BindRequests[i].Name < out.BindRequests[j].Name })
	cms := &corev1.ConfigMapList{}
	if err := bw.Raw.List(ctx, cms); err != nil {
		return nil, err
	}
	out.ConfigMaps = nil
	for i := range cms.Items {
		q := cms.Items[i].DeepCopy()
		q.ResourceVersion = ""
		q.TypeMeta = metav1.TypeMeta{APIVersion: "v1", Kind: "ConfigMap"}
		out.ConfigMaps = append(out.ConfigMaps, q)
	}
	// kubelet: a bound pod starts running
	for _, q := range out.Pods {
		if q.Namespace == world.NS && q.Spec.NodeName != "" && q.Status.Phase == corev1.PodPending && q.DeletionTimestamp == nil {
			q.Status.Phase = corev1.PodRunning
		}
	}
	return out, nil
}

func binderEvents(w *world.World) []clustermc.EnvEvent {
	var evs []clustermc.EnvEvent
	brs := append([]*schedulingv1alpha2.BindRequest{}, w.BindRequests...)
	sort.Slice(brs, func(i, j int) bool { return brs[i].Name < brs[j].Name })
	for _, b := range brs {
		if b.Status.Phase == schedulingv1alpha2.BindRequestPhaseSucceeded {
			continue
		}
		name := b.Name
		for _, fail := range []bool{false, true} {
			fail := fail
			label := "binder:" + name
			if fail {
				label = "binderBindFails:" + name
			}
			evs = append(evs, clustermc.EnvEvent{Name: label, Apply: func(x *world.World) {
				nw, err := ReconcileInWorld(x, name, fail)
				if err != nil {
					panic(fmt.Sprintf("binder step %s: %v", label, err))
				}
				*x = *nw
			}})
		}
	}
	return evs
}

func mutateForAdmission(w *world.World) {
	for _, p := range w.Pods {
		if p.Namespace != world.NS {
			continue
		}
		if p.Annotations[world.GpuFractionAnno] == "" && p.Annotations[world.GpuMemoryAnno] == "" {
			continue
		}
		if _, done := p.Annotations["runai/shared-gpu-configmap"]; done {
			continue
		}
		p.Annotations["runai/shared-gpu-configmap"] = p.Name + "-shared-gpu"
		if err := admissiongpusharing.New(nil, true).Mutate(p); err != nil {
			panic(fmt.Errorf("admission mutate %s: %w", p.Name, err))
		}
	}
}

// e2eInvariant: what the real binder leaves behind must be what the scheduler asked for.
func e2eInvariant(t *clustermc.Transition) []engine.Violation {
	var out []engine.Violation
	w := t.Pre
	for _, b := range w.BindRequests {
		if b.Status.Phase == schedulingv1alpha2.BindRequestPhaseFailed {
			t.Stats["e2e_states_with_failed_request"]++
		}
		if b.Status.Phase != schedulingv1alpha2.BindRequestPhaseSucceeded {
			continue
		}
		t.Stats["e2e_succeeded_requests_checked type="+b.Spec.ReceivedResourceType]++
		p := w.Pod(b.Spec.PodName)
		if p == nil {
			continue
		}
		if p.Spec.NodeName != b.Spec.SelectedNode {
			out = append(out, engine.Violation{Property: "C12", Key: "C12/e2e-succeeded-request-pod-not-on-selected-node", Message: fmt.Sprintf("BindRequest %s Succeeded but pod is on %q, selected %q", b.Name, p.Spec.NodeName, b.Spec.SelectedNode)})
		}
		if b.Spec.ReceivedResourceType == "Fraction" {
			got := strings.Join(world.PodGPUGroups(p), ",")
			want := append([]string{}, b.Spec.SelectedGPUGroups...)
			sort.Strings(want)
			if got != strings.Join(want, ",") {
				out = append(out, engine.Violation{Property: "C12", Key: "C12/e2e-bound-pod-groups-differ-from-request", Message: fmt.Sprintf("pod %s carries GPU groups [%s], its BindRequest selected %v", p.Name, got, want)})
			}
		}
	}
	return out
}

func init() {
	families.C12EndToEnd = func(tier string) []clustermc.Scenario {
		f := e2eFamily()
		scns := f.Scenarios(tier)
		for i := range scns {
			scns[i].Variant = f
		}
		return scns
	}
}

func e2eFamily() *clustermc.Family {
	base := &clustermc.Family{Oracles: []clustermc.Oracle{oracle.HandoffOracle()}}
	return &clustermc.Family{
		Property: "C12",
		Scenarios: func(tier string) []clustermc.Scenario {
			menu := []world.WL{
				{Queue: "qa", Pods: []world.PodSpec{{Shape: world.Shape{CPUm: 500, Fraction: "0.5"}}}},
				{Queue: "qa", Pods: []world.PodSpec{{Shape: world.Shape{CPUm: 500, Fraction: "0.7"}}}},
				{Queue: "qa", Pods: []world.PodSpec{{Shape: world.Shape{CPUm: 500, Fraction: "0.5", NumDev: "2"}}}},
				{Queue: "qa", Pods: []world.PodSpec{{Shape: world.Shape{CPUm: 500, GPUs: 1}}}},
				{Queue: "qa", Pods: []world.PodSpec{{Shape: world.Shape{CPUm: 500, GPUs: 2}}}},
				{Queue: "qa", Pods: []world.PodSpec{{Shape: world.Shape{CPUm: 500, GPUMem: "10000"}}}},
			}
			var out []clustermc.Scenario
			k := 2
			if tier == "thorough" {
				k = 3
			}
			var rec func(start int, cur []int)
			rec = func(start int, cur []int) {
				if len(cur) > 0 {
					b := world.NewBuilder()
					b.Node(world.NodeOpt{Name: "n1", CPU: "8", Mem: "16Gi", GPUs: 2, GPUMemMiB: 40000})
					b.GQueue("dept", "", -1, -1, 1).GQueue("qa", "dept", -1, -1, 1)
					for i, mi := range cur {
						wl := menu[mi]
						wl.Name = fmt.Sprintf("w%d", i)
						b.Workload(wl)
					}
					w := b.Done()
					mutateForAdmission(w)
					out = append(out, clustermc.Scenario{Name: fmt.Sprintf("e2e%v", cur), World: w, Configs: []schedrun.Config{{}}})
				}
				if len(cur) == k {
					return
				}
				for i := start; i < len(menu); i++ {
					rec(i, append(append([]int{}, cur...), i))
				}
			}
			rec(0, nil)
			return out
		},
		Depth: func(tier string) int {
			if tier == "thorough" {
				return 6
			}
			return 5
		},
		Env:      clustermc.EnvOpts{Terminate: true, Complete: true},
		ExtraEnv: binderEvents,
		Oracles:  append(append([]clustermc.Oracle{}, base.Oracles...), e2eInvariant, oracle.CapacityOracle("C02")),
	}
}
