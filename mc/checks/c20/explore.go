package c20

import (
	"fmt"
	"strconv"
	"strings"

	v1 "k8s.io/api/core/v1"
	metav1 "k8s.io/apimachinery/pkg/apis/meta/v1"
	"sigs.k8s.io/controller-runtime/pkg/client"

	gpurequesthandler "github.com/NVIDIA/KAI-scheduler/pkg/binder/plugins/gpusharing/gpu-request"

	"verif/mc/engine"
)

// deadline is the worker's soft budget; when exceeded, explorations stop expanding and report
// cap_hit (=> exhaustive:false), never an alarm.
var deadline *engine.Budget

func outOfTime() bool { return deadline != nil && deadline.Exceeded() }

// unitStats is what one work unit (one initial state / one grid chunk) reports to the parent.
type unitStats struct {
	Part             string             `json:"part"`
	Unit             string             `json:"unit"`
	States           int                `json:"states"`
	Transitions      int                `json:"transitions"`
	RealTransitions  int                `json:"real_transitions"` // transitions that executed a real Reconcile / Deploy
	Fixpoints        int                `json:"fixpoints"`
	Nontrivial       int                `json:"nontrivial_fixpoints"`
	NoopWrites       int                `json:"noop_writes"`
	MaxDepth         int                `json:"max_depth"`
	FlipThenRec      int                `json:"flip_then_reconcile"`
	MultiLevelNZ     int                `json:"multi_level_nonzero"`
	BoundHits        int                `json:"bound_hits"`
	CapHit           bool               `json:"cap_hit"`
	Extra            map[string]int     `json:"extra,omitempty"`
	Violations       []engine.Violation `json:"violations,omitempty"`
	Samples          []any              `json:"samples,omitempty"`
	HarnessError     string             `json:"harness_error,omitempty"`
	DeterminismCheck int                `json:"determinism_replays"`
}

func (u *unitStats) inc(k string, n int) {
	if u.Extra == nil {
		u.Extra = map[string]int{}
	}
	u.Extra[k] += n
}

type replayFile struct {
	Part    string   `json:"part"`
	InitA   *stateA  `json:"init_a,omitempty"`
	EventsA []eventA `json:"events_a,omitempty"`
	InitB   *stateB  `json:"init_b,omitempty"`
	EventsB []eventB `json:"events_b,omitempty"`
	Order   []int    `json:"fixpoint_order,omitempty"`
	CaseC   *caseC   `json:"case_c,omitempty"`
	Fraction string  `json:"gpu_fraction_annotation,omitempty"`
	History []string `json:"history"`
	Expect  string   `json:"expect_key"`
}

// ---------------------------------------------------------------- Part A: BFS over histories

type nodeA struct {
	s       *stateA
	parent  int
	ev      eventA
	depth   int
	hasFlip bool
}

func historyA(nodes []nodeA, i int) (evs []eventA, labels []string) {
	for ; nodes[i].parent >= 0; i = nodes[i].parent {
		evs = append([]eventA{nodes[i].ev}, evs...)
	}
	for _, e := range evs {
		labels = append(labels, e.String())
	}
	return
}

func describeA(s *stateA) map[string]any {
	pods := []string{}
	for _, p := range s.Pods {
		pods = append(pods, p.String())
	}
	return map[string]any{"priorityClass": s.PC, "preemptibility": s.Expl, "pods": pods,
		"allocated": rlCanon(s.RS.Allocated), "allocatedNonPreemptible": rlCanon(s.RS.AllocatedNonPreemptible), "requested": rlCanon(s.RS.Requested)}
}

// judgeA runs the fixpoint + oracle on one state and records findings.
func judgeA(u *unitStats, init *stateA, evs []eventA, labels []string, s *stateA, hasFlip bool, seenKeys map[string]bool) error {
	f, err := fixpointA(s, true)
	if err != nil {
		return err
	}
	u.Fixpoints++
	u.RealTransitions += f.Reconciles + 2*f.QueueRounds
	u.NoopWrites += f.NoopPatches
	if f.Converged && !(rlEmpty(f.Final.RS.Allocated) && rlEmpty(f.Final.RS.Requested) && rlEmpty(f.Final.RS.AllocatedNonPreemptible)) {
		u.Nontrivial++
	}
	fs := oracleA(f, hasFlip)
	propagated := ""
	if f.Converged && f.Err == "" {
		fs = append(fs, oracleQueuesA(f)...)
		if !rlEmpty(f.QueueRoot.Allocated) || !rlEmpty(f.QueueRoot.Requested) {
			u.MultiLevelNZ++
		}
		if f.Final.preemptible() && !rlEmpty(f.QueueRoot.AllocatedNonPreemptible) {
			u.inc("stale_nonpreemptible_propagated_to_root_queue", 1)
			propagated = fmt.Sprintf("; propagated: Queue root.status.allocatedNonPreemptible={%s}", rlCanon(f.QueueRoot.AllocatedNonPreemptible))
		}
	}
	for _, fd := range fs {
		u.inc("violating_fixpoints", 1)
		if seenKeys[fd.Key] {
			continue
		}
		seenKeys[fd.Key] = true
		hist := append(append([]string{}, labels...), "reconcile-to-fixpoint")
		u.Violations = append(u.Violations, engine.Violation{Property: "C20", Key: fd.Key,
			Message: fd.Msg + propagated + " | history: " + strings.Join(hist, " -> ") + " | initial: " + mustJSON(describeA(init)),
			Replay:  replayFile{Part: "A", InitA: init, EventsA: evs, History: hist, Expect: fd.Key}})
	}
	if len(u.Samples) < 2 && len(labels) >= 3 && f.Converged {
		u.Samples = append(u.Samples, map[string]any{"part": "A", "initial": describeA(init), "history": labels, "final": describeA(f.Final),
			"queue_root": qsCanon(&f.QueueRoot)})
	}
	return nil
}

func exploreA(name string, init *stateA, b *boundsA, maxStates int) *unitStats {
	u := &unitStats{Part: "A", Unit: name}
	init.canon()
	nodes := []nodeA{{s: init, parent: -1}}
	seen := map[string]int{init.key(): 0}
	seenKeys := map[string]bool{}
	for i := 0; i < len(nodes); i++ {
		n := nodes[i]
		evs, labels := historyA(nodes, i)
		if err := judgeA(u, init, evs, labels, n.s, n.hasFlip, seenKeys); err != nil {
			u.HarnessError = err.Error()
			return u
		}
		if n.depth > u.MaxDepth {
			u.MaxDepth = n.depth
		}
		if n.depth >= b.Depth {
			nodes[i].s = nil
			continue
		}
		if outOfTime() {
			u.CapHit = true
			break
		}
		for _, e := range enabledA(n.s, b) {
			r, err := applyA(n.s, e)
			if err != nil {
				u.HarnessError = fmt.Sprintf("apply %s: %v", e, err)
				return u
			}
			u.Transitions++
			if r.Real {
				if r.Executed {
					u.RealTransitions++
				}
				if n.hasFlip {
					u.FlipThenRec++
				}
				if r.Next.key() == n.s.key() && len(r.Calls) > 0 {
					u.NoopWrites++
				}
				if i%97 == 0 { // determinism discipline: re-execute a fixed fraction on a fresh store
					delete(recMemoA, n.s.key())
					r2, err := applyA(n.s, e)
					u.DeterminismCheck++
					if err != nil || r2.Next.key() != r.Next.key() || r2.Err != r.Err {
						u.HarnessError = "non-deterministic transition " + e.String()
						return u
					}
				}
			}
			k := r.Next.key()
			if _, ok := seen[k]; ok {
				continue
			}
			if len(nodes) >= maxStates {
				u.CapHit = true
				continue
			}
			seen[k] = len(nodes)
			nodes = append(nodes, nodeA{s: r.Next, parent: i, ev: e, depth: n.depth + 1, hasFlip: n.hasFlip || e.isFlip()})
		}
		nodes[i].s = nil
	}
	u.States = len(nodes)
	return u
}

// ---------------------------------------------------------------- Part A1: static grid of pod sets

var preemptCfgs = func() [][2]string {
	var out [][2]string
	for _, pc := range []string{"pc-lo", "pc-hi", "pc-none"} {
		for _, ex := range []string{"", "preemptible", "non-preemptible"} {
			out = append(out, [2]string{pc, ex})
		}
	}
	return out
}()

// fullPodGrid: kind x phase x scheduled condition x nodeName.
func fullPodGrid(kindIdx []int) []podM {
	var out []podM
	for _, k := range kindIdx {
		for _, ph := range []string{"Pending", "Running", "Succeeded", "Failed"} {
			for c := 0; c < 3; c++ {
				for _, n := range []bool{false, true} {
					out = append(out, podM{Kind: k, Phase: ph, Cond: c, Node: n})
				}
			}
		}
	}
	return out
}

// lifecyclePodGrid: the pod configurations a real cluster passes through.
func lifecyclePodGrid(kindIdx []int) []podM {
	var out []podM
	for _, k := range kindIdx {
		out = append(out, podM{Kind: k, Phase: "Pending"}, podM{Kind: k, Phase: "Pending", Cond: 1},
			podM{Kind: k, Phase: "Pending", Cond: 2, Node: true}, podM{Kind: k, Phase: "Running", Cond: 2, Node: true},
			podM{Kind: k, Phase: "Succeeded", Cond: 2, Node: true}, podM{Kind: k, Phase: "Failed", Cond: 2, Node: true})
	}
	return out
}

// staticCases enumerates the pod-set grid deterministically; case i belongs to chunk i%chunks.
func staticCases(tier string, visit func(i int, s *stateA)) int {
	all := []int{0, 1, 2, 3, 4, 5, 6}
	i := 0
	emit := func(pods []podM, cfgs [][2]string) {
		for _, c := range cfgs {
			s := &stateA{PC: c[0], Expl: c[1], Pods: append([]podM{}, pods...)}
			s.canon()
			visit(i, s)
			i++
		}
	}
	two := [][2]string{{"pc-lo", ""}, {"pc-hi", ""}}
	full := fullPodGrid(all)
	for _, p := range full { // every single pod x every preemptibility source
		emit([]podM{p}, preemptCfgs)
	}
	pairGrid := fullPodGrid([]int{0, 1, 2, 3, 4, 5})
	if tier == "quick" {
		pairGrid = lifecyclePodGrid(all)
	}
	for a := 0; a < len(pairGrid); a++ {
		for b := a; b < len(pairGrid); b++ {
			emit([]podM{pairGrid[a], pairGrid[b]}, two)
		}
	}
	tri := lifecyclePodGrid([]int{0, 2, 4, 5})
	if tier != "quick" {
		tri = lifecyclePodGrid(all)
	}
	for a := 0; a < len(tri); a++ {
		for b := a; b < len(tri); b++ {
			for c := b; c < len(tri); c++ {
				emit([]podM{tri[a], tri[b], tri[c]}, two[1:])
			}
		}
	}
	return i
}

func exploreStaticA(tier string, chunk, chunks int) *unitStats {
	u := &unitStats{Part: "A-grid", Unit: fmt.Sprintf("chunk %d/%d", chunk, chunks)}
	seenKeys := map[string]bool{}
	staticCases(tier, func(i int, s *stateA) {
		if i%chunks != chunk || u.HarnessError != "" {
			return
		}
		if outOfTime() {
			u.CapHit = true
			return
		}
		u.States++
		u.Transitions++ // one history: [reconcile-to-fixpoint] from a never-reconciled group
		if err := judgeA(u, s, nil, nil, s, false, seenKeys); err != nil {
			u.HarnessError = err.Error()
		}
		u.inc("pod_sets_of_size_"+strconv.Itoa(len(s.Pods)), 1)
	})
	return u
}

// ---------------------------------------------------------------- Part A0: odd-but-admitted gpu-fraction strings

var fractionStrings = []string{"0.5", ".5", "5e-1", "5E-1", "0.50", "+0.5", "0.5e0", "0.123456789123", "1e-10", "0.9999999999",
	"NaN", "nan", "0x1p-1", "0x.8p0", "0_5", "Inf", "1", "0", "-0.5", " 0.5", "0,5", "1/2"}

func exploreFractionStrings() *unitStats {
	u := &unitStats{Part: "A-annot", Unit: "gpu-fraction strings"}
	seenKeys := map[string]bool{}
	for _, str := range fractionStrings {
		pod, _ := buildPod(0, podM{Kind: 2, Phase: "Running", Cond: 2, Node: true})
		pod.Annotations["gpu-fraction"] = str
		// the REAL admission validator decides what the environment may contain
		if err := gpurequesthandler.ValidateGpuRequests(pod); err != nil {
			u.inc("strings_rejected_by_admission", 1)
			continue
		}
		u.inc("strings_admitted", 1)
		want, perr := strconv.ParseFloat(str, 64)
		s := &stateA{PC: "pc-hi"}
		objs := append(staticObjectsA(), s.podGroup(), pod)
		log := &callLog{}
		counted, raw := newStatusClient(objs, log)
		var errStr, panicStr string
		for i := 0; i < 2; i++ {
			errStr, panicStr = reconcilePG(counted)
			u.RealTransitions++
			u.Transitions++
		}
		u.States++
		u.Fixpoints++
		class := "decimal"
		switch {
		case want != want:
			class = "NaN"
		case strings.HasPrefix(strings.TrimLeft(str, "+-"), "0x"):
			class = "hex-float"
		}
		var fd *finding
		switch {
		case panicStr != "":
			fd = &finding{"C20/podgroup-reconcile-panic-on-admitted-annotation gpu-fraction-class=" + class, "panic: " + panicStr}
		case errStr != "":
			fd = &finding{"C20/podgroup-reconcile-error-on-admitted-annotation gpu-fraction-class=" + class,
				"PodGroupReconciler.Reconcile fails on every attempt (status of the whole group never updated): " + errStr}
		default:
			after, err := snapshotA(raw)
			if err != nil {
				u.HarnessError = err.Error()
				return u
			}
			got := after.RS.Allocated["nvidia.com/gpu"]
			if perr != nil || abs(got.AsApproximateFloat64()-want) > 2e-9 {
				fd = &finding{"C20/podgroup-allocated-mismatch-on-admitted-annotation gpu-fraction-class=" + class,
					fmt.Sprintf("allocated nvidia.com/gpu=%s, annotation value %v", got.String(), want)}
			} else {
				u.Nontrivial++
			}
		}
		if fd != nil && !seenKeys[fd.Key] {
			seenKeys[fd.Key] = true
			u.Violations = append(u.Violations, engine.Violation{Property: "C20", Key: fd.Key,
				Message: fmt.Sprintf("pod admitted by ValidateGpuRequests with gpu-fraction=%q, Running on a node, group of 1: %s", str, fd.Msg),
				Replay:  replayFile{Part: "A-annot", Fraction: str, History: []string{"reconcile(pg)", "reconcile(pg)"}, Expect: fd.Key}})
		}
		u.Samples = appendCap(u.Samples, map[string]any{"part": "A-annot", "gpu-fraction": str, "admitted": true, "reconcile_error": errStr, "panic": panicStr}, 3)
	}
	return u
}

func abs(f float64) float64 {
	if f < 0 {
		return -f
	}
	return f
}

func appendCap(s []any, v any, n int) []any {
	if len(s) < n {
		return append(s, v)
	}
	return s
}

// ---------------------------------------------------------------- Part B: BFS over queue histories

type nodeB struct {
	s      *stateB
	parent int
	ev     eventB
	depth  int
	class  string
}

func historyB(nodes []nodeB, i int) (evs []eventB, labels []string) {
	for ; nodes[i].parent >= 0; i = nodes[i].parent {
		evs = append([]eventB{nodes[i].ev}, evs...)
	}
	for _, e := range evs {
		labels = append(labels, e.String())
	}
	return
}

func describeB(s *stateB) map[string]any {
	qs := []string{}
	for i, q := range s.Queues {
		p := "-"
		if q.Parent >= 0 {
			p = qName(q.Parent)
		}
		qs = append(qs, fmt.Sprintf("%s(parent %s) %s", qName(i), p, qsCanon(&q.Status)))
	}
	gs := []string{}
	for _, g := range s.PGs {
		st := rsPalette[g.RS].status()
		gs = append(gs, fmt.Sprintf("g%d@%s %s", g.Slot, qName(g.Queue), rsCanon(&st)))
	}
	return map[string]any{"queues": qs, "podGroups": gs}
}

// fixpoint orders: parent-first (worst case, needs one round per level) and child-first.
func ordersB(s *stateB) [][]int {
	ps := s.parents()
	idx := make([]int, len(ps))
	for i := range idx {
		idx[i] = i
	}
	parentFirst := append([]int{}, idx...)
	// stable sort by depth
	for i := 1; i < len(parentFirst); i++ {
		for j := i; j > 0 && depthOf(ps, parentFirst[j]) < depthOf(ps, parentFirst[j-1]); j-- {
			parentFirst[j], parentFirst[j-1] = parentFirst[j-1], parentFirst[j]
		}
	}
	childFirst := make([]int, len(parentFirst))
	for i, v := range parentFirst {
		childFirst[len(parentFirst)-1-i] = v
	}
	return [][]int{parentFirst, childFirst}
}

func judgeB(u *unitStats, init *stateB, evs []eventB, labels []string, s *stateB, class string, seenKeys map[string]bool, bothOrders bool) error {
	var finals []string
	orders := ordersB(s)
	if !bothOrders {
		orders = orders[:1] // parent-first: the order that needs one round per level
	}
	for _, order := range orders {
		f, err := fixpointB(s, order, len(s.Queues)+3)
		if err != nil {
			return err
		}
		u.Fixpoints++
		u.RealTransitions += f.Reconciles
		if f.BoundHit {
			u.BoundHits++
		}
		if f.Converged {
			u.NoopWrites += len(order) // the closing, change-free round patches unchanged objects
			finals = append(finals, f.Final.key())
			nz := false
			ps := f.Final.parents()
			for i, q := range f.Final.Queues {
				if !rlEmpty(q.Status.Allocated) || !rlEmpty(q.Status.Requested) {
					nz = true
					hasChild := false
					for _, p := range ps {
						if p == i {
							hasChild = true
						}
					}
					if hasChild {
						u.inc("parent_queues_with_nonzero_sums", 1)
					}
				}
			}
			if nz {
				u.Nontrivial++
				if f.Final.levels() >= 2 {
					u.MultiLevelNZ++
				}
			}
			if f.Rounds > 2 {
				u.inc("fixpoints_needing_more_than_one_round", 1)
			}
		}
		for _, fd := range oracleB(f, class) {
			u.inc("violating_fixpoints", 1)
			if seenKeys[fd.Key] {
				continue
			}
			seenKeys[fd.Key] = true
			hist := append(append([]string{}, labels...), fmt.Sprintf("reconcile-all-to-fixpoint(order %v)", order))
			u.Violations = append(u.Violations, engine.Violation{Property: "C20", Key: fd.Key,
				Message: fd.Msg + " | history: " + strings.Join(hist, " -> ") + " | initial: " + mustJSON(describeB(init)),
				Replay:  replayFile{Part: "B", InitB: init, EventsB: evs, Order: order, History: hist, Expect: fd.Key}})
		}
		if len(u.Samples) < 2 && len(labels) >= 3 && f.Converged && f.Final.levels() >= 2 {
			u.Samples = append(u.Samples, map[string]any{"part": "B", "initial": describeB(init), "history": labels,
				"fixpoint_order": order, "rounds": f.Rounds, "final": describeB(f.Final)})
		}
	}
	if len(finals) == 2 && finals[0] != finals[1] && !seenKeys["C20/queue-fixpoint-depends-on-reconcile-order"] {
		seenKeys["C20/queue-fixpoint-depends-on-reconcile-order"] = true
		u.Violations = append(u.Violations, engine.Violation{Property: "C20", Key: "C20/queue-fixpoint-depends-on-reconcile-order",
			Message: "parent-first and child-first reconcile orders end in different fixpoints | history: " + strings.Join(labels, " -> ") + " | initial: " + mustJSON(describeB(init)),
			Replay:  replayFile{Part: "B", InitB: init, EventsB: evs, History: labels, Expect: "C20/queue-fixpoint-depends-on-reconcile-order"}})
	}
	return nil
}

func exploreB(name string, init *stateB, b *boundsB, maxStates int) *unitStats {
	u := &unitStats{Part: "B", Unit: name}
	nodes := []nodeB{{s: init, parent: -1, class: "initial"}}
	seen := map[string]int{init.key(): 0}
	seenKeys := map[string]bool{}
	for i := 0; i < len(nodes); i++ {
		n := nodes[i]
		evs, labels := historyB(nodes, i)
		if err := judgeB(u, init, evs, labels, n.s, n.class, seenKeys, b.BothOrders || n.depth <= 1); err != nil {
			u.HarnessError = err.Error()
			return u
		}
		if n.depth > u.MaxDepth {
			u.MaxDepth = n.depth
		}
		if n.depth >= b.Depth {
			nodes[i].s = nil
			continue
		}
		if outOfTime() {
			u.CapHit = true
			break
		}
		for _, e := range enabledB(n.s, b) {
			r, err := applyB(n.s, e)
			if err != nil {
				u.HarnessError = fmt.Sprintf("apply %s: %v", e, err)
				return u
			}
			u.Transitions++
			if r.Real {
				if r.Executed {
					u.RealTransitions++
				}
				if r.Err != "" {
					u.inc("reconcile_errors", 1)
				}
				if r.Next.key() == n.s.key() {
					u.NoopWrites++
				}
				// parent reconciled while one of its children is stale = parent-before-child order
				if n.s.Queues[e.I].Parent < 0 && n.s.levels() >= 2 {
					u.inc("reconcile_of_top_queue_in_multilevel_tree", 1)
				}
				if i%97 == 0 {
					delete(recMemoB, n.s.key()+"#"+strconv.Itoa(e.I))
					r2, err := applyB(n.s, e)
					u.DeterminismCheck++
					if err != nil || r2.Next.key() != r.Next.key() {
						u.HarnessError = "non-deterministic transition " + e.String()
						return u
					}
				}
			}
			k := r.Next.key()
			if _, ok := seen[k]; ok {
				continue
			}
			if len(nodes) >= maxStates {
				u.CapHit = true
				continue
			}
			seen[k] = len(nodes)
			class := n.class
			switch {
			case e.Op == "reparent":
				class = "re-parent"
			case e.Op != "reconcile" && class != "re-parent":
				class = "pod-group-change"
			}
			nodes = append(nodes, nodeB{s: r.Next, parent: i, ev: e, depth: n.depth + 1, class: class})
		}
		nodes[i].s = nil
	}
	u.States = len(nodes)
	return u
}

// initialStatesB: forests x a fixed, non-trivial placement of pod groups (the history events move,
// add, delete and change them).
func initialStatesB(tier string) (names []string, inits []*stateB) {
	add := func(parents []int, tag string) {
		s := &stateB{}
		for _, p := range parents {
			s.Queues = append(s.Queues, queueB{Parent: p})
		}
		// g0 (non-preemptible allocation) in the deepest queue, g1 in the first top-level queue
		deepest, dd := 0, 0
		for i := range parents {
			if d := depthOf(parents, i); d > dd {
				deepest, dd = i, d
			}
		}
		top := 0
		for i, p := range parents {
			if p < 0 {
				top = i
				break
			}
		}
		s.PGs = []pgB{{Slot: 0, Queue: deepest, RS: 1}}
		if len(parents) > 1 {
			s.PGs = append(s.PGs, pgB{Slot: 1, Queue: top, RS: 2})
		}
		names = append(names, fmt.Sprintf("%s parents=%v", tag, parents))
		inits = append(inits, s)
	}
	for n := 1; n <= 3; n++ {
		for _, f := range allForests(n, 3) {
			add(f, "forest")
		}
	}
	for _, f := range allForests(4, 3) {
		increasing, decreasing := true, true
		for i, p := range f {
			if p >= 0 && p > i {
				increasing = false
			}
			if p >= 0 && p < i {
				decreasing = false
			}
		}
		if tier != "quick" || increasing || decreasing {
			add(f, "forest")
		}
	}
	return
}

var _ = metav1.ObjectMeta{}
var _ client.Object = (*v1.Pod)(nil)
