// Package c20 checks property C20 "status controllers and operator converge to the true
// aggregate" by exhaustive exploration of histories / reconcile orders on the REAL
// PodGroupReconciler, QueueReconciler and operator DeployableOperands (engine B-iii, DESIGN §3).
package c20

import (
	"context"
	"fmt"
	"sort"
	"strings"

	nvidiav1 "github.com/NVIDIA/gpu-operator/api/nvidia/v1"
	monitoringv1 "github.com/prometheus-operator/prometheus-operator/pkg/apis/monitoring/v1"
	admissionregistrationv1 "k8s.io/api/admissionregistration/v1"
	appsv1 "k8s.io/api/apps/v1"
	v1 "k8s.io/api/core/v1"
	resourceapi "k8s.io/api/resource/v1"
	schedulingv1 "k8s.io/api/scheduling/v1"
	apiextensionsv1 "k8s.io/apiextensions-apiserver/pkg/apis/apiextensions/v1"
	"k8s.io/apimachinery/pkg/runtime"
	"k8s.io/apimachinery/pkg/util/managedfields"
	clientgoapplyconfigurations "k8s.io/client-go/applyconfigurations"
	utilruntime "k8s.io/apimachinery/pkg/util/runtime"
	clientgoscheme "k8s.io/client-go/kubernetes/scheme"
	"sigs.k8s.io/controller-runtime/pkg/client"
	"sigs.k8s.io/controller-runtime/pkg/client/fake"
	"sigs.k8s.io/controller-runtime/pkg/client/interceptor"

	kaiv1 "github.com/NVIDIA/KAI-scheduler/pkg/apis/kai/v1"
	kaiv1alpha1 "github.com/NVIDIA/KAI-scheduler/pkg/apis/kai/v1alpha1"
	v2 "github.com/NVIDIA/KAI-scheduler/pkg/apis/scheduling/v2"
	"github.com/NVIDIA/KAI-scheduler/pkg/apis/scheduling/v2alpha2"
	"github.com/NVIDIA/KAI-scheduler/pkg/podgroupcontroller/controllers/cluster_relations"
	qcommon "github.com/NVIDIA/KAI-scheduler/pkg/queuecontroller/common"
	qcontrollers "github.com/NVIDIA/KAI-scheduler/pkg/queuecontroller/controllers"
)

var ctx = context.Background()

// statusScheme: cmd/podgroupcontroller/app and cmd/queuecontroller/app register clientgoscheme +
// scheduling v2 + v2alpha2. Only the groups the two reconcilers read or write are registered here
// (core, scheduling.k8s.io, resource.k8s.io): the fake store rebuilds a REST mapper from the whole
// scheme on every Patch, which with the ~50 groups of clientgoscheme costs 4 ms per reconcile.
var statusScheme = func() *runtime.Scheme {
	s := runtime.NewScheme()
	utilruntime.Must(v1.AddToScheme(s))
	utilruntime.Must(schedulingv1.AddToScheme(s))
	utilruntime.Must(resourceapi.AddToScheme(s))
	utilruntime.Must(v2.AddToScheme(s))
	utilruntime.Must(v2alpha2.AddToScheme(s))
	return s
}()

// operatorScheme: cmd/operator/app registers clientgoscheme + apiextensions + kai v1/v1alpha1 +
// nvidia v1 + monitoring v1; of clientgoscheme only the groups the operands read or write are
// registered (core, apps, admissionregistration) - same reason as statusScheme. A kind the
// operands touched outside these groups would fail loudly ("no kind is registered").
var operatorScheme = func() *runtime.Scheme {
	s := runtime.NewScheme()
	utilruntime.Must(v1.AddToScheme(s))
	utilruntime.Must(appsv1.AddToScheme(s))
	utilruntime.Must(admissionregistrationv1.AddToScheme(s))
	utilruntime.Must(apiextensionsv1.AddToScheme(s))
	utilruntime.Must(kaiv1.AddToScheme(s))
	utilruntime.Must(kaiv1alpha1.AddToScheme(s))
	utilruntime.Must(nvidiav1.AddToScheme(s))
	utilruntime.Must(monitoringv1.AddToScheme(s))
	return s
}()

// typeConverters: exactly the defaults fake.ClientBuilder.Build constructs when none are given
// (client-go apply-configuration converter over the client-go scheme + deduced converter), built
// once instead of once per Build (Build otherwise re-registers the whole client-go scheme: 2.5 ms).
var typeConverters = func() []managedfields.TypeConverter {
	s := runtime.NewScheme()
	utilruntime.Must(clientgoscheme.AddToScheme(s))
	return []managedfields.TypeConverter{clientgoapplyconfigurations.NewTypeConverter(s), managedfields.NewDeducedTypeConverter()}
}()

// callLog records every mutating client call of one execution ("verb kind[/sub] ns/name").
type callLog struct{ calls []string }

func (l *callLog) add(verb string, obj client.Object, sub string) {
	if l == nil {
		return
	}
	kind := fmt.Sprintf("%T", obj)
	kind = kind[strings.LastIndex(kind, ".")+1:]
	if sub != "" {
		kind += "/" + sub
	}
	l.calls = append(l.calls, fmt.Sprintf("%s %s %s/%s", verb, kind, obj.GetNamespace(), obj.GetName()))
}

func (l *callLog) reset() { l.calls = l.calls[:0] }

// countingFuncs counts every mutating verb, including every sub-resource verb (per-verb hooks:
// interceptor.Funcs.SubResource is deliberately NOT set, it would replace them).
func countingFuncs(l *callLog) interceptor.Funcs {
	return interceptor.Funcs{
		Create: func(ctx context.Context, c client.WithWatch, obj client.Object, opts ...client.CreateOption) error {
			l.add("create", obj, "")
			return c.Create(ctx, obj, opts...)
		},
		Update: func(ctx context.Context, c client.WithWatch, obj client.Object, opts ...client.UpdateOption) error {
			l.add("update", obj, "")
			return c.Update(ctx, obj, opts...)
		},
		Patch: func(ctx context.Context, c client.WithWatch, obj client.Object, p client.Patch, opts ...client.PatchOption) error {
			l.add("patch", obj, "")
			return c.Patch(ctx, obj, p, opts...)
		},
		Delete: func(ctx context.Context, c client.WithWatch, obj client.Object, opts ...client.DeleteOption) error {
			l.add("delete", obj, "")
			return c.Delete(ctx, obj, opts...)
		},
		DeleteAllOf: func(ctx context.Context, c client.WithWatch, obj client.Object, opts ...client.DeleteAllOfOption) error {
			l.add("deleteallof", obj, "")
			return c.DeleteAllOf(ctx, obj, opts...)
		},
		SubResourceCreate: func(ctx context.Context, c client.Client, sub string, obj client.Object, so client.Object, opts ...client.SubResourceCreateOption) error {
			l.add("create", obj, sub)
			return c.SubResource(sub).Create(ctx, obj, so, opts...)
		},
		SubResourceUpdate: func(ctx context.Context, c client.Client, sub string, obj client.Object, opts ...client.SubResourceUpdateOption) error {
			l.add("update", obj, sub)
			return c.SubResource(sub).Update(ctx, obj, opts...)
		},
		SubResourcePatch: func(ctx context.Context, c client.Client, sub string, obj client.Object, p client.Patch, opts ...client.SubResourcePatchOption) error {
			l.add("patch", obj, sub)
			return c.SubResource(sub).Patch(ctx, obj, p, opts...)
		},
	}
}

// newStatusClient = fake API store with the status sub-resources and the field indexes that
// PodGroupReconciler.SetupWithManager and QueueReconciler.SetupWithManager register.
// raw is the un-intercepted client the environment (harness events) writes through.
func newStatusClient(objs []client.Object, l *callLog) (counted client.Client, raw client.WithWatch) {
	raw = fake.NewClientBuilder().WithScheme(statusScheme).WithTypeConverters(typeConverters...).
		WithStatusSubresource(&v2alpha2.PodGroup{}, &v2.Queue{}, &v1.Pod{}).
		WithIndex(&v1.Pod{}, cluster_relations.PodGroupToPodsIndexer, cluster_relations.PodGroupNameIndexerFunc).
		WithIndex(&v2.Queue{}, qcommon.ParentQueueIndexName, qcontrollers.VerifIndexQueueByParent).
		WithIndex(&v2alpha2.PodGroup{}, qcommon.PodGroupQueueIndexName, qcontrollers.VerifIndexPodGroupByQueue).
		WithObjects(objs...).Build()
	return interceptor.NewClient(raw, countingFuncs(l)), raw
}

// ---------------------------------------------------------------- resource-list helpers

// rlCanon renders a ResourceList canonically (sorted, zero entries dropped).
func rlCanon(rl v1.ResourceList) string {
	names := make([]string, 0, len(rl))
	for n, q := range rl {
		if q.IsZero() {
			continue
		}
		names = append(names, string(n))
	}
	sort.Strings(names)
	var b strings.Builder
	for i, n := range names {
		if i > 0 {
			b.WriteByte(',')
		}
		q := rl[v1.ResourceName(n)]
		b.WriteString(n)
		b.WriteByte('=')
		b.WriteString(q.String())
	}
	return b.String()
}

// rlEqual: semantic equality (Cmp), a missing entry equals a zero entry.
func rlEqual(a, b v1.ResourceList) bool {
	for n, qa := range a {
		qb := b[n]
		if qa.Cmp(qb) != 0 {
			return false
		}
	}
	for n, qb := range b {
		if _, ok := a[n]; !ok && !qb.IsZero() {
			return false
		}
	}
	return true
}

// rlAdd is the reference sum (own code, plain Quantity.Add).
func rlAdd(dst v1.ResourceList, src v1.ResourceList) {
	for n, q := range src {
		cur := dst[n]
		cur.Add(q)
		dst[n] = cur
	}
}

func rlEmpty(rl v1.ResourceList) bool { return rlCanon(rl) == "" }
