package c20

import (
	"testing"
	"time"
)

func TestProbeCost(t *testing.T) {
	s := &stateA{PC: "pc-hi", Pods: []podM{{Kind: 2, Phase: "Running", Cond: 2, Node: true}}}
	objs := s.objects()
	t0 := time.Now()
	for i := 0; i < 200; i++ {
		newStatusClient(objs, &callLog{})
	}
	t.Logf("client build: %v each", time.Since(t0)/200)
	c, _ := newStatusClient(objs, &callLog{})
	t0 = time.Now()
	for i := 0; i < 200; i++ {
		reconcilePG(c)
	}
	t.Logf("reconcile pg: %v each", time.Since(t0)/200)
	t0 = time.Now()
	for i := 0; i < 200; i++ {
		reconcileQueue(c, "leaf")
	}
	t.Logf("reconcile queue: %v each", time.Since(t0)/200)
}
