package c20

import (
	"encoding/json"
	"fmt"
	"sort"
	"strconv"
	"strings"

	v1 "k8s.io/api/core/v1"
	resourceapi "k8s.io/api/resource/v1"
	schedulingv1 "k8s.io/api/scheduling/v1"
	"k8s.io/apimachinery/pkg/api/resource"
	metav1 "k8s.io/apimachinery/pkg/apis/meta/v1"
	"k8s.io/apimachinery/pkg/types"
	ctrl "sigs.k8s.io/controller-runtime"
	"sigs.k8s.io/controller-runtime/pkg/client"

	v2 "github.com/NVIDIA/KAI-scheduler/pkg/apis/scheduling/v2"
	"github.com/NVIDIA/KAI-scheduler/pkg/apis/scheduling/v2alpha2"
	pgcontrollers "github.com/NVIDIA/KAI-scheduler/pkg/podgroupcontroller/controllers"
)

// ---------------------------------------------------------------- Part A world

const (
	nsA          = "ns"
	pgName       = "pg"
	nodeName     = "n1"
	nodeGpuMemMB = 16000 // node label nvidia.com/gpu.memory
	draClass     = "gpu.nvidia.com"
	kindLabel    = "verif/kind"
)

// request kinds. Numbers are the reference truth; annotation strings are rendered from them.
type kindSpec struct {
	Name      string
	Cpu       int64 // millicpu
	MemMi     int64
	WholeGpu  int64
	FracMilli int64 // gpu-fraction annotation (milli GPUs per device)
	GpuMemMB  int64 // gpu-memory annotation
	NDev      int64 // gpu-fraction-num-devices annotation (0 = absent)
	DraCount  int64 // one ResourceClaim, ExactCount
}

var kinds = []kindSpec{
	{Name: "cpu-mem", Cpu: 500, MemMi: 1024},
	{Name: "whole-gpu", Cpu: 1000, WholeGpu: 1},
	{Name: "gpu-fraction", Cpu: 250, FracMilli: 500},
	{Name: "gpu-memory", Cpu: 250, GpuMemMB: 4000},
	{Name: "multi-fraction", Cpu: 250, FracMilli: 250, NDev: 2},
	{Name: "dra-claim", Cpu: 250, DraCount: 2},
	{Name: "multi-gpu-memory", Cpu: 250, GpuMemMB: 2000, NDev: 3},
}

func (k *kindSpec) fractional() bool { return k.FracMilli > 0 || k.GpuMemMB > 0 }
func (k *kindSpec) ndev() int64 {
	if k.NDev == 0 {
		return 1
	}
	return k.NDev
}

type podM struct {
	Kind  int    `json:"kind"`
	Phase string `json:"phase"`
	Cond  int    `json:"scheduledCond"` // 0 absent, 1 False, 2 True
	Node  bool   `json:"nodeName"`      // spec.nodeName set (the binder then also wrote received-resource-type)
}

func (p podM) String() string {
	return fmt.Sprintf("%s/%s/%s/%s", kinds[p.Kind].Name, p.Phase, [...]string{"cond-absent", "cond-false", "cond-true"}[p.Cond],
		map[bool]string{false: "unbound", true: "bound"}[p.Node])
}

func (p podM) less(q podM) bool {
	if p.Kind != q.Kind {
		return p.Kind < q.Kind
	}
	if p.Phase != q.Phase {
		return p.Phase < q.Phase
	}
	if p.Cond != q.Cond {
		return p.Cond < q.Cond
	}
	return !p.Node && q.Node
}

var pcValues = map[string]int32{"pc-lo": 99, "pc-hi": 100} // "pc-none" does not exist: default priority 50

type stateA struct {
	PC   string                           `json:"priorityClassName"`
	Expl string                           `json:"preemptibility"`
	Pods []podM                           `json:"pods"`
	RS   v2alpha2.PodGroupResourcesStatus `json:"resourcesStatus"`
}

func (s *stateA) clone() *stateA {
	c := &stateA{PC: s.PC, Expl: s.Expl, Pods: append([]podM{}, s.Pods...), RS: *s.RS.DeepCopy()}
	return c
}

func (s *stateA) canon() {
	sort.Slice(s.Pods, func(i, j int) bool { return s.Pods[i].less(s.Pods[j]) })
}

func rsCanon(rs *v2alpha2.PodGroupResourcesStatus) string {
	return "A[" + rlCanon(rs.Allocated) + "]N[" + rlCanon(rs.AllocatedNonPreemptible) + "]R[" + rlCanon(rs.Requested) + "]"
}

func (s *stateA) key() string {
	var b strings.Builder
	b.WriteString(s.PC + "|" + s.Expl + "|")
	for _, p := range s.Pods {
		fmt.Fprintf(&b, "%d%c%d%t;", p.Kind, p.Phase[0], p.Cond, p.Node)
	}
	b.WriteString(rsCanon(&s.RS))
	return b.String()
}

// preemptible is the reference definition of the group's CURRENT preemptibility.
func (s *stateA) preemptible() bool {
	switch s.Expl {
	case "preemptible":
		return true
	case "non-preemptible":
		return false
	}
	prio, ok := pcValues[s.PC]
	if !ok {
		prio = 50
	}
	return prio < 100
}

func podName(i int) string { return "p" + strconv.Itoa(i) }

func buildPod(i int, p podM) (*v1.Pod, *resourceapi.ResourceClaim) {
	k := &kinds[p.Kind]
	req := v1.ResourceList{}
	if k.Cpu > 0 {
		req[v1.ResourceCPU] = *resource.NewMilliQuantity(k.Cpu, resource.DecimalSI)
	}
	if k.MemMi > 0 {
		req[v1.ResourceMemory] = *resource.NewQuantity(k.MemMi<<20, resource.BinarySI)
	}
	lim := v1.ResourceList{}
	if k.WholeGpu > 0 {
		req["nvidia.com/gpu"] = *resource.NewQuantity(k.WholeGpu, resource.DecimalSI)
		lim["nvidia.com/gpu"] = *resource.NewQuantity(k.WholeGpu, resource.DecimalSI)
	}
	ann := map[string]string{"pod-group-name": pgName}
	if k.FracMilli > 0 {
		ann["gpu-fraction"] = strconv.FormatFloat(float64(k.FracMilli)/1000, 'f', -1, 64)
	}
	if k.GpuMemMB > 0 {
		ann["gpu-memory"] = strconv.FormatInt(k.GpuMemMB, 10)
	}
	if k.NDev > 0 {
		ann["gpu-fraction-num-devices"] = strconv.FormatInt(k.NDev, 10)
	}
	pod := &v1.Pod{
		ObjectMeta: metav1.ObjectMeta{Name: podName(i), Namespace: nsA, Annotations: ann,
			Labels: map[string]string{kindLabel: strconv.Itoa(p.Kind)}},
		Spec: v1.PodSpec{SchedulerName: "kai-scheduler",
			Containers: []v1.Container{{Name: "c", Image: "i", Resources: v1.ResourceRequirements{Requests: req, Limits: lim}}}},
		Status: v1.PodStatus{Phase: v1.PodPhase(p.Phase)},
	}
	var claim *resourceapi.ResourceClaim
	if k.DraCount > 0 {
		cn := "claim-" + podName(i)
		pod.Spec.ResourceClaims = []v1.PodResourceClaim{{Name: "gpu", ResourceClaimName: &cn}}
		claim = &resourceapi.ResourceClaim{ObjectMeta: metav1.ObjectMeta{Name: cn, Namespace: nsA},
			Spec: resourceapi.ResourceClaimSpec{Devices: resourceapi.DeviceClaim{Requests: []resourceapi.DeviceRequest{{Name: "gpu",
				Exactly: &resourceapi.ExactDeviceRequest{DeviceClassName: draClass, AllocationMode: resourceapi.DeviceAllocationModeExactCount, Count: k.DraCount}}}}}}
	}
	applyPodDynamic(pod, p)
	return pod, claim
}

// applyPodDynamic writes the mutable part of the model pod (what kubelet / binder / scheduler write).
func applyPodDynamic(pod *v1.Pod, p podM) {
	k := &kinds[p.Kind]
	pod.Status.Phase = v1.PodPhase(p.Phase)
	pod.Status.Conditions = nil
	switch p.Cond {
	case 1:
		pod.Status.Conditions = []v1.PodCondition{{Type: v1.PodScheduled, Status: v1.ConditionFalse, Reason: "Unschedulable"}}
	case 2:
		pod.Status.Conditions = []v1.PodCondition{{Type: v1.PodScheduled, Status: v1.ConditionTrue}}
	}
	delete(pod.Annotations, "received-resource-type")
	pod.Spec.NodeName = ""
	if p.Node {
		pod.Spec.NodeName = nodeName
		// the KAI binder patches this annotation before it creates the Binding (pkg/binder/binding/binder.go)
		if k.fractional() {
			pod.Annotations["received-resource-type"] = "Fraction"
		} else {
			pod.Annotations["received-resource-type"] = "Regular"
		}
	}
}

func (s *stateA) podGroup() *v2alpha2.PodGroup {
	return &v2alpha2.PodGroup{
		ObjectMeta: metav1.ObjectMeta{Name: pgName, Namespace: nsA},
		Spec: v2alpha2.PodGroupSpec{MinMember: 1, Queue: "leaf", PriorityClassName: s.PC,
			Preemptibility: v2alpha2.Preemptibility(s.Expl)},
		Status: v2alpha2.PodGroupStatus{ResourcesStatus: *s.RS.DeepCopy()},
	}
}

func staticObjectsA() []client.Object {
	return []client.Object{
		&v1.Node{ObjectMeta: metav1.ObjectMeta{Name: nodeName, Labels: map[string]string{"nvidia.com/gpu.memory": strconv.Itoa(nodeGpuMemMB)}}},
		&schedulingv1.PriorityClass{ObjectMeta: metav1.ObjectMeta{Name: "pc-lo"}, Value: 99},
		&schedulingv1.PriorityClass{ObjectMeta: metav1.ObjectMeta{Name: "pc-hi"}, Value: 100},
		&v2.Queue{ObjectMeta: metav1.ObjectMeta{Name: "root"}},
		&v2.Queue{ObjectMeta: metav1.ObjectMeta{Name: "leaf"}, Spec: v2.QueueSpec{ParentQueue: "root"}},
	}
}

func (s *stateA) objects() []client.Object {
	objs := staticObjectsA()
	objs = append(objs, s.podGroup())
	for i, p := range s.Pods {
		pod, claim := buildPod(i, p)
		objs = append(objs, pod)
		if claim != nil {
			objs = append(objs, claim)
		}
	}
	return objs
}

// snapshotA reads the model state back from the store (names are forgotten: pods are symmetric).
func snapshotA(c client.Client) (*stateA, error) {
	pg := &v2alpha2.PodGroup{}
	if err := c.Get(ctx, types.NamespacedName{Namespace: nsA, Name: pgName}, pg); err != nil {
		return nil, err
	}
	pods := &v1.PodList{}
	if err := c.List(ctx, pods, client.InNamespace(nsA)); err != nil {
		return nil, err
	}
	s := &stateA{PC: pg.Spec.PriorityClassName, Expl: string(pg.Spec.Preemptibility), RS: *pg.Status.ResourcesStatus.DeepCopy()}
	for _, p := range pods.Items {
		k, err := strconv.Atoi(p.Labels[kindLabel])
		if err != nil {
			return nil, fmt.Errorf("pod %s without kind label", p.Name)
		}
		m := podM{Kind: k, Phase: string(p.Status.Phase), Node: p.Spec.NodeName != ""}
		for _, cnd := range p.Status.Conditions {
			if cnd.Type == v1.PodScheduled {
				m.Cond = 1
				if cnd.Status == v1.ConditionTrue {
					m.Cond = 2
				}
			}
		}
		s.Pods = append(s.Pods, m)
	}
	s.canon()
	return s, nil
}

// ---------------------------------------------------------------- reference (the oracle's own sums)

type refA struct{ Req, Alloc, NP v1.ResourceList }

func mq(milli int64) resource.Quantity { return *resource.NewMilliQuantity(milli, resource.DecimalSI) }

// refPod: what ONE pod contributes. Definitions (weakest reading of the statement + API comments):
//   - requested: pods in phase Pending or Running ("running and pending"); container requests +
//     gpu-fraction x num-devices as nvidia.com/gpu + gpu-memory x num-devices as run.ai/gpu.memory
//     (an unplaced pod has no node to convert MB into a GPU share) + DRA device counts per class.
//   - allocated: Running pods and Pending pods whose PodScheduled condition is True; container
//     requests + the GPU share the binder granted (received-resource-type=Fraction):
//     fraction x num-devices, or gpu-memory / node GPU memory x num-devices + DRA device counts.
//     ignoreNDev renders the alternative reading in which the allocated share is per device
//     (used only to NAME a mismatch, never to accept it).
func refPod(p podM, ignoreNDev bool) (req, alloc v1.ResourceList) {
	k := &kinds[p.Kind]
	req, alloc = v1.ResourceList{}, v1.ResourceList{}
	base := v1.ResourceList{}
	if k.Cpu > 0 {
		base[v1.ResourceCPU] = mq(k.Cpu)
	}
	if k.MemMi > 0 {
		base[v1.ResourceMemory] = *resource.NewQuantity(k.MemMi<<20, resource.BinarySI)
	}
	if k.WholeGpu > 0 {
		base["nvidia.com/gpu"] = mq(k.WholeGpu * 1000)
	}
	if k.DraCount > 0 {
		base[draClass] = mq(k.DraCount * 1000)
	}
	active := p.Phase == "Pending" || p.Phase == "Running"
	allocated := p.Phase == "Running" || (p.Phase == "Pending" && p.Cond == 2)
	if active {
		rlAdd(req, base)
		if k.FracMilli > 0 {
			rlAdd(req, v1.ResourceList{"nvidia.com/gpu": mq(k.FracMilli * k.ndev())})
		}
		if k.GpuMemMB > 0 {
			rlAdd(req, v1.ResourceList{"run.ai/gpu.memory": mq(k.GpuMemMB * k.ndev() * 1000)})
		}
	}
	if allocated {
		rlAdd(alloc, base)
		if k.fractional() && p.Node { // binder recorded a granted fraction
			n := k.ndev()
			if ignoreNDev {
				n = 1
			}
			if k.FracMilli > 0 {
				rlAdd(alloc, v1.ResourceList{"nvidia.com/gpu": mq(k.FracMilli * n)})
			} else {
				rlAdd(alloc, v1.ResourceList{"nvidia.com/gpu": mq(k.GpuMemMB * 1000 / nodeGpuMemMB * n)})
			}
		}
	}
	return req, alloc
}

func refGroup(s *stateA, ignoreNDev bool) refA {
	r := refA{Req: v1.ResourceList{}, Alloc: v1.ResourceList{}, NP: v1.ResourceList{}}
	for _, p := range s.Pods {
		rq, al := refPod(p, ignoreNDev)
		rlAdd(r.Req, rq)
		rlAdd(r.Alloc, al)
	}
	if !s.preemptible() {
		rlAdd(r.NP, r.Alloc)
	}
	return r
}

// ---------------------------------------------------------------- events

type eventA struct {
	Op  string `json:"op"` // add | unsched | bind | run | succeed | fail | delete | set-pc | set-preemptibility | reconcile
	I   int    `json:"i,omitempty"`
	Arg string `json:"arg,omitempty"`
}

func (e eventA) String() string {
	switch e.Op {
	case "add":
		return "add(" + e.Arg + ")"
	case "set-pc", "set-preemptibility":
		return e.Op + "(" + e.Arg + ")"
	case "reconcile":
		return "reconcile(pg)"
	}
	return fmt.Sprintf("%s(pod#%d)", e.Op, e.I)
}

func (e eventA) isFlip() bool { return e.Op == "set-pc" || e.Op == "set-preemptibility" }

type boundsA struct {
	MaxPods  int
	AddKinds []int
	Depth    int
}

// enabledA lists every enabled event of a state (canonical order).
func enabledA(s *stateA, b *boundsA) []eventA {
	ev := []eventA{{Op: "reconcile"}}
	for _, pc := range []string{"pc-lo", "pc-hi"} {
		if pc != s.PC {
			ev = append(ev, eventA{Op: "set-pc", Arg: pc})
		}
	}
	for _, ex := range []string{"", "preemptible", "non-preemptible"} {
		if ex != s.Expl {
			ev = append(ev, eventA{Op: "set-preemptibility", Arg: ex})
		}
	}
	if len(s.Pods) < b.MaxPods {
		for _, k := range b.AddKinds {
			ev = append(ev, eventA{Op: "add", Arg: kinds[k].Name, I: k})
		}
	}
	for i, p := range s.Pods {
		if i > 0 && p == s.Pods[i-1] {
			continue // identical pods are symmetric
		}
		switch p.Phase {
		case "Pending":
			if p.Cond == 0 {
				ev = append(ev, eventA{Op: "unsched", I: i})
			}
			if p.Cond != 2 {
				ev = append(ev, eventA{Op: "bind", I: i})
			} else {
				ev = append(ev, eventA{Op: "run", I: i})
			}
		case "Running":
			ev = append(ev, eventA{Op: "succeed", I: i}, eventA{Op: "fail", I: i})
		}
		ev = append(ev, eventA{Op: "delete", I: i})
	}
	return ev
}

type stepResult struct {
	Next      *stateA
	Calls     []string // mutating calls issued by the real reconciler
	Err       string   // reconcile error
	Panic     string
	Real      bool // a reconcile transition (real controller code)
	Executed  bool // false: this (state, reconcile) pair had already been executed (memo)
	QueueInfo string
}

func reconcilePG(c client.Client) (errStr, panicStr string) {
	defer func() {
		if r := recover(); r != nil {
			panicStr = fmt.Sprint(r)
		}
	}()
	r := &pgcontrollers.PodGroupReconciler{Client: c, Scheme: statusScheme}
	_, err := r.Reconcile(ctx, ctrl.Request{NamespacedName: types.NamespacedName{Namespace: nsA, Name: pgName}})
	if err != nil {
		errStr = err.Error()
	}
	return
}

// applyA executes one transition on a fresh store holding exactly state s.
func applyA(s *stateA, e eventA) (*stepResult, error) {
	res := &stepResult{}
	if e.Op == "reconcile" {
		r, executed, err := reconcileMemoA(s)
		if err != nil {
			return nil, err
		}
		res.Real, res.Executed, res.Err, res.Panic, res.Calls, res.Next = true, executed, r.err, r.panic, r.calls, r.next
		return res, nil
	}
	_, raw := newStatusClient(s.objects(), nil)
	switch e.Op {
	case "set-pc", "set-preemptibility":
		pg := &v2alpha2.PodGroup{}
		if err := raw.Get(ctx, types.NamespacedName{Namespace: nsA, Name: pgName}, pg); err != nil {
			return nil, err
		}
		if e.Op == "set-pc" {
			pg.Spec.PriorityClassName = e.Arg
		} else {
			pg.Spec.Preemptibility = v2alpha2.Preemptibility(e.Arg)
		}
		if err := raw.Update(ctx, pg); err != nil {
			return nil, err
		}
	case "add":
		pod, claim := buildPod(len(s.Pods), podM{Kind: e.I, Phase: "Pending"})
		if claim != nil {
			if err := raw.Create(ctx, claim); err != nil {
				return nil, err
			}
		}
		st := pod.Status
		if err := raw.Create(ctx, pod); err != nil {
			return nil, err
		}
		pod.Status = st
		if err := raw.Status().Update(ctx, pod); err != nil {
			return nil, err
		}
	case "delete":
		pod := &v1.Pod{ObjectMeta: metav1.ObjectMeta{Namespace: nsA, Name: podName(e.I)}}
		if err := raw.Delete(ctx, pod); err != nil {
			return nil, err
		}
		if kinds[s.Pods[e.I].Kind].DraCount > 0 {
			_ = raw.Delete(ctx, &resourceapi.ResourceClaim{ObjectMeta: metav1.ObjectMeta{Namespace: nsA, Name: "claim-" + podName(e.I)}})
		}
	default: // pod lifecycle
		m := s.Pods[e.I]
		switch e.Op {
		case "unsched":
			m.Cond = 1
		case "bind":
			m.Cond, m.Node = 2, true
		case "run":
			m.Phase = "Running"
		case "succeed":
			m.Phase = "Succeeded"
		case "fail":
			m.Phase = "Failed"
		default:
			return nil, fmt.Errorf("unknown event %q", e.Op)
		}
		pod := &v1.Pod{}
		if err := raw.Get(ctx, types.NamespacedName{Namespace: nsA, Name: podName(e.I)}, pod); err != nil {
			return nil, err
		}
		applyPodDynamic(pod, m)
		st := *pod.Status.DeepCopy()
		if err := raw.Update(ctx, pod); err != nil { // spec.nodeName + annotations (binder)
			return nil, err
		}
		pod.Status = st
		if err := raw.Status().Update(ctx, pod); err != nil { // phase + conditions (kubelet / scheduler)
			return nil, err
		}
	}
	next, err := snapshotA(raw)
	if err != nil {
		return nil, err
	}
	res.Next = next
	return res, nil
}

// ---------------------------------------------------------------- fixpoint + oracle

type fixA struct {
	Final       *stateA
	Reconciles  int
	Converged   bool
	Err, Panic  string
	ExtraCalls  []string // mutating calls other than the pod group's status patch
	NoopPatches int      // status patches that left the object unchanged
	QueueRoot   v2.QueueStatus
	QueueLeaf   v2.QueueStatus
	QueueRounds int
	QueueErr    string
}

func reconcileQueue(c client.Client, name string) (errStr string) {
	defer func() {
		if r := recover(); r != nil {
			errStr = "panic: " + fmt.Sprint(r)
		}
	}()
	r := newQueueReconciler(c)
	if _, err := r.Reconcile(ctx, ctrl.Request{NamespacedName: types.NamespacedName{Name: name}}); err != nil {
		errStr = err.Error()
	}
	return
}

// recMemoA: one real reconcile per distinct store state (a reconcile is a deterministic function
// of the store; the determinism replays re-execute a fixed fraction and compare). Both the
// reconcile(pg) history event and the fixpoint walk go through it.
type recResA struct {
	next       *stateA
	err, panic string
	calls      []string
}

var recMemoA = map[string]*recResA{}

func reconcileMemoA(s *stateA) (r *recResA, executed bool, err error) {
	k := s.key()
	if r, ok := recMemoA[k]; ok {
		return r, false, nil
	}
	log := &callLog{}
	counted, raw := newStatusClient(s.objects(), log)
	r = &recResA{}
	r.err, r.panic = reconcilePG(counted)
	r.calls = append([]string{}, log.calls...)
	if r.next, err = snapshotA(raw); err != nil {
		return nil, true, err
	}
	recMemoA[k] = r
	return r, true, nil
}

// fixpointA reconciles the pod group until nothing changes, then (end-to-end) the two queues
// above it: child, parent, then both once more.
func fixpointA(s *stateA, withQueues bool) (*fixA, error) {
	f := &fixA{}
	cur := s
	for i := 0; i < 4; i++ {
		r, executed, err := reconcileMemoA(cur)
		if err != nil {
			return nil, err
		}
		if executed {
			f.Reconciles++
		}
		f.Err, f.Panic = r.err, r.panic
		for _, cl := range r.calls {
			if cl != "patch PodGroup/status "+nsA+"/"+pgName {
				f.ExtraCalls = append(f.ExtraCalls, cl)
			}
		}
		if f.Err != "" || f.Panic != "" {
			f.Final = cur
			return f, nil
		}
		same := r.next.key() == cur.key()
		if same && len(r.calls) > 0 && executed {
			f.NoopPatches++
		}
		cur = r.next
		if same {
			f.Converged = true
			break
		}
	}
	f.Final = cur
	if withQueues && f.Converged {
		// the queues start empty, so their fixpoint is a function of the group's final status only
		ck := rsCanon(&cur.RS)
		if c, ok := queueE2ECache[ck]; ok {
			f.QueueRoot, f.QueueLeaf, f.QueueErr = c.root, c.leaf, c.err
			return f, nil
		}
		counted, raw := newStatusClient(cur.objects(), &callLog{})
		for r := 0; r < 2; r++ {
			f.QueueRounds++
			for _, q := range []string{"leaf", "root"} {
				if e := reconcileQueue(counted, q); e != "" {
					f.QueueErr = e
				}
			}
		}
		root, leaf := &v2.Queue{}, &v2.Queue{}
		if err := raw.Get(ctx, types.NamespacedName{Name: "root"}, root); err != nil {
			return nil, err
		}
		if err := raw.Get(ctx, types.NamespacedName{Name: "leaf"}, leaf); err != nil {
			return nil, err
		}
		f.QueueRoot, f.QueueLeaf = root.Status, leaf.Status
		queueE2ECache[ck] = queueE2E{root.Status, leaf.Status, f.QueueErr}
	}
	return f, nil
}

type queueE2E struct {
	root, leaf v2.QueueStatus
	err        string
}

var queueE2ECache = map[string]queueE2E{}

type finding struct {
	Key string
	Msg string
}

func diffDir(got, want v1.ResourceList) string {
	var parts []string
	names := map[string]bool{}
	for n := range got {
		names[string(n)] = true
	}
	for n := range want {
		names[string(n)] = true
	}
	sorted := make([]string, 0, len(names))
	for n := range names {
		sorted = append(sorted, n)
	}
	sort.Strings(sorted)
	for _, n := range sorted {
		g, w := got[v1.ResourceName(n)], want[v1.ResourceName(n)]
		switch g.Cmp(w) {
		case -1:
			parts = append(parts, n+":under")
		case 1:
			parts = append(parts, n+":over")
		}
	}
	return strings.Join(parts, ",")
}

// firstDiff: the alphabetically first differing resource and its direction (keeps keys few and stable;
// the message carries both full lists).
func firstDiff(got, want v1.ResourceList) string {
	d := diffDir(got, want)
	if i := strings.Index(d, ","); i >= 0 {
		return d[:i]
	}
	return d
}

// oracleA judges a fixpoint. hasFlip: the (shortest) history to it contains a preemptibility flip.
func oracleA(f *fixA, hasFlip bool) []finding {
	var out []finding
	s := f.Final
	after := "no-flip"
	if hasFlip {
		after = "preemptibility-flip"
	}
	if f.Panic != "" {
		return []finding{{"C20/podgroup-reconcile-panic", "PodGroupReconciler.Reconcile panicked: " + f.Panic}}
	}
	if f.Err != "" {
		return []finding{{"C20/podgroup-reconcile-error", "PodGroupReconciler.Reconcile keeps failing: " + f.Err}}
	}
	if !f.Converged {
		out = append(out, finding{"C20/podgroup-no-fixpoint", fmt.Sprintf("status still changing after %d reconciles without any other change", f.Reconciles)})
	}
	if len(f.ExtraCalls) > 0 {
		out = append(out, finding{"C20/podgroup-controller-writes-other-objects", "unexpected mutating calls: " + strings.Join(f.ExtraCalls, "; ")})
	}
	ref := refGroup(s, false)
	alt := refGroup(s, true)
	check := func(field string, got, want, altWant v1.ResourceList) {
		if rlEqual(got, want) {
			return
		}
		var key string
		switch {
		case field == "allocatedNonPreemptible" && s.preemptible() && rlEmpty(want):
			key = "C20/podgroup-stale-allocatedNonPreemptible after=" + after
		case rlEqual(got, altWant):
			key = "C20/podgroup-" + field + "-mismatch cause=allocated-gpu-share-ignores-gpu-fraction-num-devices"
		default:
			key = "C20/podgroup-" + field + "-mismatch cause=unexplained diff=" + firstDiff(got, want) + " after=" + after
		}
		out = append(out, finding{key, fmt.Sprintf("PodGroup status.resourcesStatus.%s = {%s} but the sum over its pods is {%s} (group currently %s; pods %v)",
			field, rlCanon(got), rlCanon(want), map[bool]string{true: "preemptible", false: "non-preemptible"}[s.preemptible()], s.Pods)})
	}
	check("requested", s.RS.Requested, ref.Req, alt.Req)
	check("allocated", s.RS.Allocated, ref.Alloc, alt.Alloc)
	check("allocatedNonPreemptible", s.RS.AllocatedNonPreemptible, ref.NP, alt.NP)
	return out
}

// oracleQueuesA: end-to-end, the two queues above the group must equal the group's status
// (queue law), and - when the group's own status is right - the pods' true aggregate.
func oracleQueuesA(f *fixA) []finding {
	var out []finding
	if f.QueueErr != "" {
		return []finding{{"C20/queue-reconcile-error e2e", f.QueueErr}}
	}
	s := f.Final
	for _, q := range []struct {
		name string
		st   v2.QueueStatus
	}{{"leaf", f.QueueLeaf}, {"root", f.QueueRoot}} {
		for _, fld := range []struct {
			name      string
			got, want v1.ResourceList
		}{{"allocated", q.st.Allocated, s.RS.Allocated}, {"allocatedNonPreemptible", q.st.AllocatedNonPreemptible, s.RS.AllocatedNonPreemptible},
			{"requested", q.st.Requested, s.RS.Requested}} {
			if !rlEqual(fld.got, fld.want) {
				out = append(out, finding{"C20/queue-" + fld.name + "-mismatch e2e level=" + q.name,
					fmt.Sprintf("Queue %s status.%s = {%s} but its only pod group reports {%s}", q.name, fld.name, rlCanon(fld.got), rlCanon(fld.want))})
			}
		}
	}
	return out
}

func mustJSON(v any) string {
	b, _ := json.Marshal(v)
	return string(b)
}
