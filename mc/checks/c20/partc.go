package c20

import (
	"crypto/sha256"
	"encoding/hex"
	"encoding/json"
	"fmt"
	"sort"
	"strings"

	monitoringv1 "github.com/prometheus-operator/prometheus-operator/pkg/apis/monitoring/v1"
	admissionv1 "k8s.io/api/admissionregistration/v1"
	appsv1 "k8s.io/api/apps/v1"
	v1 "k8s.io/api/core/v1"
	apiextensionsv1 "k8s.io/apiextensions-apiserver/pkg/apis/apiextensions/v1"
	metav1 "k8s.io/apimachinery/pkg/apis/meta/v1"
	"k8s.io/utils/ptr"
	"sigs.k8s.io/controller-runtime/pkg/client"
	"sigs.k8s.io/controller-runtime/pkg/client/fake"
	"sigs.k8s.io/controller-runtime/pkg/client/interceptor"

	kaiv1 "github.com/NVIDIA/KAI-scheduler/pkg/apis/kai/v1"
	kaiadmission "github.com/NVIDIA/KAI-scheduler/pkg/apis/kai/v1/admission"
	kaibinder "github.com/NVIDIA/KAI-scheduler/pkg/apis/kai/v1/binder"
	kaicommon "github.com/NVIDIA/KAI-scheduler/pkg/apis/kai/v1/common"
	kainsa "github.com/NVIDIA/KAI-scheduler/pkg/apis/kai/v1/node_scale_adjuster"
	kaipgc "github.com/NVIDIA/KAI-scheduler/pkg/apis/kai/v1/pod_group_controller"
	kaipg "github.com/NVIDIA/KAI-scheduler/pkg/apis/kai/v1/pod_grouper"
	kaiprom "github.com/NVIDIA/KAI-scheduler/pkg/apis/kai/v1/prometheus"
	kaiqc "github.com/NVIDIA/KAI-scheduler/pkg/apis/kai/v1/queue_controller"
	kaisched "github.com/NVIDIA/KAI-scheduler/pkg/apis/kai/v1/scheduler"
	"github.com/NVIDIA/KAI-scheduler/pkg/operator/operands"
	"github.com/NVIDIA/KAI-scheduler/pkg/operator/operands/admission"
	"github.com/NVIDIA/KAI-scheduler/pkg/operator/operands/binder"
	"github.com/NVIDIA/KAI-scheduler/pkg/operator/operands/deployable"
	"github.com/NVIDIA/KAI-scheduler/pkg/operator/operands/known_types"
	"github.com/NVIDIA/KAI-scheduler/pkg/operator/operands/node_scale_adjuster"
	"github.com/NVIDIA/KAI-scheduler/pkg/operator/operands/pod_group_controller"
	"github.com/NVIDIA/KAI-scheduler/pkg/operator/operands/pod_grouper"
	"github.com/NVIDIA/KAI-scheduler/pkg/operator/operands/prometheus"
	"github.com/NVIDIA/KAI-scheduler/pkg/operator/operands/queue_controller"
	"github.com/NVIDIA/KAI-scheduler/pkg/operator/operands/scheduler"

	"verif/mc/engine"
)

// ---------------------------------------------------------------- configuration lattice

// A configuration = 8 on/off switches (the 7 services' Service.Enabled + Prometheus.Enabled) and a
// "variant" that changes non-switch fields (replica count, a service image tag, namespace kept).
var switchNames = []string{"podGrouper", "binder", "queueController", "podGroupController", "nodeScaleAdjuster", "admission", "scheduler", "prometheus"}

type cfgC struct {
	Mask    uint `json:"enabled_mask"` // bit i = switchNames[i] enabled
	Variant int  `json:"variant"`      // 0 defaults, 1 = global replicaCount 2 + binder image tag "v2"
}

func (c cfgC) String() string {
	var on []string
	for i, n := range switchNames {
		if c.Mask&(1<<uint(i)) != 0 {
			on = append(on, n)
		}
	}
	return fmt.Sprintf("{%s}/v%d", strings.Join(on, ","), c.Variant)
}

const kaiNS = "kai-scheduler"

func (c cfgC) config() *kaiv1.Config {
	on := func(i int) *bool { return ptr.To(c.Mask&(1<<uint(i)) != 0) }
	svc := func(i int) *kaicommon.Service { return &kaicommon.Service{Enabled: on(i)} }
	cfg := &kaiv1.Config{
		TypeMeta:   metav1.TypeMeta{Kind: "Config", APIVersion: kaiv1.GroupVersion.String()},
		ObjectMeta: metav1.ObjectMeta{Name: known_types.SingletonInstanceName, UID: "kai-config-uid"},
		Spec: kaiv1.ConfigSpec{
			Namespace:          kaiNS,
			PodGrouper:         &kaipg.PodGrouper{Service: svc(0)},
			Binder:             &kaibinder.Binder{Service: svc(1)},
			QueueController:    &kaiqc.QueueController{Service: svc(2)},
			PodGroupController: &kaipgc.PodGroupController{Service: svc(3)},
			NodeScaleAdjuster:  &kainsa.NodeScaleAdjuster{Service: svc(4)},
			Admission:          &kaiadmission.Admission{Service: svc(5)},
			Scheduler:          &kaisched.Scheduler{Service: svc(6)},
			Prometheus:         &kaiprom.Prometheus{Enabled: on(7)},
		},
	}
	if c.Variant == 1 {
		cfg.Spec.Global = &kaiv1.GlobalConfig{ReplicaCount: ptr.To(int32(2))}
		cfg.Spec.Binder.Service.Image = &kaicommon.Image{Tag: ptr.To("v2")}
	}
	cfg.Spec.SetDefaultsWhereNeeded() // ConfigReconciler.Reconcile does this before Deploy
	return cfg
}

// ---------------------------------------------------------------- operator store

func newOperands() []operands.Operand {
	// fresh instances of exactly controller.ConfigReconcilerOperands (the operands keep state)
	return []operands.Operand{
		&pod_grouper.PodGrouper{}, &binder.Binder{}, &queue_controller.QueueController{},
		&pod_group_controller.PodGroupController{}, &node_scale_adjuster.NodeScaleAdjuster{},
		&admission.Admission{}, &prometheus.Prometheus{}, &scheduler.SchedulerForConfig{},
	}
}

// newDeployable wires DeployableOperands as ConfigReconciler.SetOperands + SetupWithManager do.
func newDeployable() *deployable.DeployableOperands {
	d := deployable.New(newOperands(), known_types.KAIConfigRegisteredCollectible)
	d.RegisterFieldsInheritFromClusterObjects(&admissionv1.ValidatingWebhookConfiguration{}, known_types.ValidatingWebhookConfigurationFieldInherit)
	d.RegisterFieldsInheritFromClusterObjects(&admissionv1.MutatingWebhookConfiguration{}, known_types.MutatingWebhookConfigurationFieldInherit)
	return d
}

func newOperatorClient(objs []client.Object, l *callLog) (client.Client, client.WithWatch) {
	b := fake.NewClientBuilder().WithScheme(operatorScheme).WithTypeConverters(typeConverters...).WithObjects(objs...)
	for _, col := range known_types.KAIConfigRegisteredCollectible {
		if col.InitWithFakeClientBuilder != nil {
			col.InitWithFakeClientBuilder(b)
		}
	}
	raw := b.Build()
	return interceptor.NewClient(raw, countingFuncs(l)), raw
}

// crds that the operands probe for (prometheus operator installed or not).
func prometheusCRDs() []client.Object {
	var out []client.Object
	for _, n := range []string{"prometheuses.monitoring.coreos.com", "servicemonitors.monitoring.coreos.com"} {
		out = append(out, &apiextensionsv1.CustomResourceDefinition{ObjectMeta: metav1.ObjectMeta{Name: n}})
	}
	return out
}

// foreign objects: same kinds, same namespace, not owned by the Config (one even owned by some
// other controller) - Deploy must neither touch nor adopt nor delete them.
func foreignObjects() []client.Object {
	other := []metav1.OwnerReference{{APIVersion: "apps/v1", Kind: "Deployment", Name: "someone-else", UID: "x", Controller: ptr.To(true)}}
	return []client.Object{
		&appsv1.Deployment{ObjectMeta: metav1.ObjectMeta{Name: "foreign-deploy", Namespace: kaiNS, Labels: map[string]string{"app": "foreign"}},
			Spec: appsv1.DeploymentSpec{Selector: &metav1.LabelSelector{MatchLabels: map[string]string{"app": "foreign"}}}},
		&v1.ConfigMap{ObjectMeta: metav1.ObjectMeta{Name: "foreign-cm", Namespace: kaiNS, OwnerReferences: other}, Data: map[string]string{"k": "v"}},
		&v1.Secret{ObjectMeta: metav1.ObjectMeta{Name: "foreign-secret", Namespace: kaiNS}, Data: map[string][]byte{"k": []byte("v")}},
		&v1.ServiceAccount{ObjectMeta: metav1.ObjectMeta{Name: "foreign-sa", Namespace: "default"}},
		&v1.Service{ObjectMeta: metav1.ObjectMeta{Name: "foreign-svc", Namespace: kaiNS}},
		&admissionv1.ValidatingWebhookConfiguration{ObjectMeta: metav1.ObjectMeta{Name: "foreign-vwc"}},
	}
}

// snapshotC lists every object of every kind the operator manages and renders it canonically:
// resourceVersion dropped, generated certificate material replaced by its key names (each Deploy
// from an empty cluster draws fresh random keys), caBundle checked against the secret and blanked.
func snapshotC(c client.Client) (map[string]string, error) {
	out := map[string]string{}
	lists := []client.ObjectList{&appsv1.DeploymentList{}, &appsv1.DaemonSetList{}, &v1.ServiceAccountList{}, &v1.ConfigMapList{},
		&v1.ServiceList{}, &v1.SecretList{}, &admissionv1.MutatingWebhookConfigurationList{}, &admissionv1.ValidatingWebhookConfigurationList{},
		&apiextensionsv1.CustomResourceDefinitionList{}, &monitoringv1.PrometheusList{}, &monitoringv1.ServiceMonitorList{}}
	for _, l := range lists {
		if err := c.List(ctx, l); err != nil {
			return nil, err
		}
		b, err := json.Marshal(l)
		if err != nil {
			return nil, err
		}
		var generic struct {
			Items []map[string]any `json:"items"`
		}
		if err := json.Unmarshal(b, &generic); err != nil {
			return nil, err
		}
		kind := strings.TrimSuffix(fmt.Sprintf("%T", l), "List")
		kind = kind[strings.LastIndex(kind, ".")+1:]
		for _, it := range generic.Items {
			md, _ := it["metadata"].(map[string]any)
			delete(md, "resourceVersion")
			delete(md, "managedFields")
			delete(md, "creationTimestamp")
			delete(it, "kind")
			delete(it, "apiVersion")
			if kind == "Secret" {
				if data, ok := it["data"].(map[string]any); ok {
					for k := range data {
						data[k] = "<generated>"
					}
				}
			}
			if whs, ok := it["webhooks"].([]any); ok {
				for _, w := range whs {
					if wm, ok := w.(map[string]any); ok {
						if cc, ok := wm["clientConfig"].(map[string]any); ok {
							if _, has := cc["caBundle"]; has {
								cc["caBundle"] = "<ca>"
							}
						}
					}
				}
			}
			cb, _ := json.Marshal(it)
			out[fmt.Sprintf("%s %v/%v", kind, md["namespace"], md["name"])] = string(cb)
		}
	}
	return out, nil
}

func diffSnap(a, b map[string]string) []string {
	var d []string
	for k, va := range a {
		vb, ok := b[k]
		switch {
		case !ok:
			d = append(d, "only-in-first:"+k)
		case va != vb:
			d = append(d, "differs:"+k)
		}
	}
	for k := range b {
		if _, ok := a[k]; !ok {
			d = append(d, "only-in-second:"+k)
		}
	}
	sort.Strings(d)
	return d
}

func snapHash(m map[string]string) string {
	keys := make([]string, 0, len(m))
	for k := range m {
		keys = append(keys, k)
	}
	sort.Strings(keys)
	h := sha256.New()
	for _, k := range keys {
		h.Write([]byte(k))
		h.Write([]byte(m[k]))
	}
	return hex.EncodeToString(h.Sum(nil))[:16]
}

func kindOfKey(k string) string { return strings.SplitN(k, " ", 2)[0] }

// ---------------------------------------------------------------- cases

type caseC struct {
	C1      cfgC   `json:"c1"`
	C2      cfgC   `json:"c2"`
	Start   string `json:"start"` // empty | deployed-c1 | foreign | foreign+deployed-c1
	PromCRD bool   `json:"prometheus_crds_installed"`
}

func (c caseC) String() string {
	return fmt.Sprintf("start=%s promCRDs=%t C1=%s C2=%s", c.Start, c.PromCRD, c.C1, c.C2)
}

// deployOnce = one real DeployableOperands.Deploy with fresh operand instances (a new operator
// process) or the given ones (same process).
func deployOnce(d *deployable.DeployableOperands, c client.Client, cfg cfgC) (errStr string) {
	defer func() {
		if r := recover(); r != nil {
			errStr = "panic: " + fmt.Sprint(r)
		}
	}()
	k := cfg.config()
	if err := d.Deploy(ctx, c, k, k); err != nil {
		return err.Error()
	}
	return ""
}

type resultC struct {
	Findings  []finding
	Deploys   int
	Objects   int
	Hash      string
	NoopCalls int
}

// runCaseC: the differential + fixpoint oracle for one (start, C1, C2).
func runCaseC(cs caseC) (*resultC, error) {
	res := &resultC{}
	base := []client.Object{cs.C2.config()}
	if cs.PromCRD {
		base = append(base, prometheusCRDs()...)
	}
	var foreignBefore map[string]string
	withForeign := strings.HasPrefix(cs.Start, "foreign")
	if withForeign {
		base = append(base, foreignObjects()...)
	}

	// reference run: Deploy(C2) from the start state without C1 ever deployed
	refLog := &callLog{}
	refC, refRaw := newOperatorClient(base, refLog)
	if withForeign {
		var err error
		if foreignBefore, err = snapshotC(refRaw); err != nil {
			return nil, err
		}
	}
	if e := deployOnce(newDeployable(), refC, cs.C2); e != "" {
		res.Findings = append(res.Findings, finding{"C20/operator-deploy-error", "Deploy(C2) from a cluster without operands failed: " + e})
		return res, nil
	}
	res.Deploys++
	want, err := snapshotC(refRaw)
	if err != nil {
		return nil, err
	}

	// run under test
	log := &callLog{}
	c, raw := newOperatorClient(base, log)
	d := newDeployable()
	if strings.HasSuffix(cs.Start, "deployed-c1") {
		if e := deployOnce(d, c, cs.C1); e != "" {
			res.Findings = append(res.Findings, finding{"C20/operator-deploy-error", "Deploy(C1) failed: " + e})
			return res, nil
		}
		res.Deploys++
	}
	if e := deployOnce(d, c, cs.C2); e != "" {
		res.Findings = append(res.Findings, finding{"C20/operator-deploy-error", "Deploy(C2) after Deploy(C1) failed: " + e})
		return res, nil
	}
	res.Deploys++
	got, err := snapshotC(raw)
	if err != nil {
		return nil, err
	}
	res.Objects = len(got)
	res.Hash = snapHash(got)
	if d := diffSnap(got, want); len(d) > 0 {
		kinds := map[string]bool{}
		for _, x := range d {
			kinds[strings.SplitN(x, ":", 2)[0]+":"+kindOfKey(strings.SplitN(x, ":", 2)[1])] = true
		}
		ks := []string{}
		for k := range kinds {
			ks = append(ks, k)
		}
		sort.Strings(ks)
		res.Findings = append(res.Findings, finding{"C20/operator-deploy-depends-on-history " + strings.Join(ks, ","),
			fmt.Sprintf("Deploy(C2) after Deploy(C1) differs from Deploy(C2) on a cluster that never saw C1 (first = after C1): %v", d)})
	}
	// fixpoint: repeat Deploy(C2) in the same process, and once more as a restarted operator
	for i, dd := range []*deployable.DeployableOperands{d, newDeployable()} {
		log.reset()
		if e := deployOnce(dd, c, cs.C2); e != "" {
			res.Findings = append(res.Findings, finding{"C20/operator-deploy-error", "repeated Deploy(C2) failed: " + e})
			return res, nil
		}
		res.Deploys++
		again, err := snapshotC(raw)
		if err != nil {
			return nil, err
		}
		who := [...]string{"same-process", "restarted-operator"}[i]
		if len(log.calls) > 0 {
			verbs := map[string]bool{}
			for _, cl := range log.calls {
				f := strings.Fields(cl)
				verbs[f[0]+" "+f[1]] = true
			}
			vs := []string{}
			for v := range verbs {
				vs = append(vs, v)
			}
			sort.Strings(vs)
			if len(diffSnap(again, got)) == 0 {
				res.NoopCalls += len(log.calls)
			}
			res.Findings = append(res.Findings, finding{"C20/operator-repeated-deploy-writes " + who + " calls=" + strings.Join(vs, ","),
				fmt.Sprintf("a repeated Deploy of the unchanged configuration issued %d mutating calls: %v", len(log.calls), log.calls)})
		}
		if dfs := diffSnap(again, got); len(dfs) > 0 {
			res.Findings = append(res.Findings, finding{"C20/operator-repeated-deploy-changes-objects " + who, fmt.Sprintf("objects changed by a repeated Deploy: %v", dfs)})
		}
		got = again
	}
	if withForeign {
		for k, v := range foreignBefore {
			if got[k] != v {
				res.Findings = append(res.Findings, finding{"C20/operator-touches-foreign-object kind=" + kindOfKey(k), "foreign object changed or deleted: " + k})
			}
		}
	}
	return res, nil
}

// casesC: the lattice. quick: all 256 switch subsets as C2 from {empty, foreign}; for C1->C2 the
// pairs where C1 is all-on, all-off, or differs from C2 in exactly one switch, or only in the
// variant; thorough adds every pair of subsets over the 7 services (prometheus off).
func casesC(tier string) []caseC {
	var out []caseC
	all := uint(1<<uint(len(switchNames))) - 1
	for m := uint(0); m <= all; m++ {
		for _, prom := range []bool{false, true} {
			if !prom && m&(1<<7) != 0 && m != all && m != 1<<7 {
				continue // prometheus requested without its CRDs: two representatives are enough
			}
			out = append(out, caseC{C2: cfgC{Mask: m}, C1: cfgC{Mask: m}, Start: "empty", PromCRD: prom})
		}
		out = append(out, caseC{C2: cfgC{Mask: m}, C1: cfgC{Mask: m}, Start: "foreign", PromCRD: true})
		c1s := []cfgC{{Mask: all}, {Mask: 0}, {Mask: m, Variant: 1}}
		for i := range switchNames {
			c1s = append(c1s, cfgC{Mask: m ^ (1 << uint(i))})
		}
		for _, c1 := range c1s {
			out = append(out, caseC{C1: c1, C2: cfgC{Mask: m}, Start: "deployed-c1", PromCRD: true})
		}
		out = append(out, caseC{C1: cfgC{Mask: all}, C2: cfgC{Mask: m, Variant: 1}, Start: "foreign+deployed-c1", PromCRD: true})
	}
	if tier != "quick" {
		for m1 := uint(0); m1 < 128; m1++ {
			for m2 := uint(0); m2 < 128; m2++ {
				out = append(out, caseC{C1: cfgC{Mask: m1}, C2: cfgC{Mask: m2}, Start: "deployed-c1", PromCRD: true})
			}
		}
	}
	return out
}

func exploreC(tier string, chunk, chunks int) *unitStats {
	u := &unitStats{Part: "C", Unit: fmt.Sprintf("chunk %d/%d", chunk, chunks)}
	seenKeys := map[string]bool{}
	hashes := map[string]bool{}
	for i, cs := range casesC(tier) {
		if i%chunks != chunk {
			continue
		}
		if outOfTime() {
			u.CapHit = true
			break
		}
		r, err := runCaseC(cs)
		if err != nil {
			u.HarnessError = err.Error()
			return u
		}
		u.States++
		u.Transitions += r.Deploys
		u.RealTransitions += r.Deploys
		u.Fixpoints++
		u.NoopWrites += r.NoopCalls
		if r.Objects > 0 {
			u.Nontrivial++
		}
		hashes[r.Hash] = true
		u.inc("start_"+cs.Start, 1)
		for _, fd := range r.Findings {
			u.inc("violating_cases", 1)
			if seenKeys[fd.Key] {
				continue
			}
			seenKeys[fd.Key] = true
			cc := cs
			u.Violations = append(u.Violations, engine.Violation{Property: "C20", Key: fd.Key, Message: fd.Msg + " | case: " + cs.String(),
				Replay: replayFile{Part: "C", CaseC: &cc, History: []string{"start=" + cs.Start, "Deploy(C1)", "Deploy(C2)", "Deploy(C2)", "Deploy(C2) as restarted operator"}, Expect: fd.Key}})
		}
		if len(u.Samples) < 1 && cs.Start == "deployed-c1" && r.Objects > 3 {
			u.Samples = append(u.Samples, map[string]any{"part": "C", "case": cs.String(), "owned_objects_after": r.Objects, "state_hash": r.Hash, "deploys": r.Deploys})
		}
	}
	for h := range hashes {
		u.inc("distinct_final_stores:"+h, 1)
	}
	return u
}
