package c20

import (
	"verif/mc/maporder"
	"context"
	"crypto/sha256"
	"encoding/hex"
	"encoding/json"
	"fmt"
	"sort"
	"strings"

	monitoringv1 "github.com/prometheus-operator/prometheus-operator/pkg/apis/monitoring/v1"
	admissionv1 "k8s.io/api/admissionregistration/v1"
	appsv1 "k8s.io/api/apps/v1"
	v1 "k8s.io/api/core/v1"
	apiextensionsv1 "k8s.io/apiextensions-apiserver/pkg/apis/apiextensions/v1"
	"k8s.io/apimachinery/pkg/api/meta"
	metav1 "k8s.io/apimachinery/pkg/apis/meta/v1"
	"k8s.io/apimachinery/pkg/runtime"
	"k8s.io/utils/ptr"
	"sigs.k8s.io/controller-runtime/pkg/client"
	"sigs.k8s.io/controller-runtime/pkg/client/apiutil"
	"sigs.k8s.io/controller-runtime/pkg/client/fake"
	"sigs.k8s.io/controller-runtime/pkg/client/interceptor"

	kaiv1 "github.com/NVIDIA/KAI-scheduler/pkg/apis/kai/v1"
	kaiadmission "github.com/NVIDIA/KAI-scheduler/pkg/apis/kai/v1/admission"
	kaibinder "github.com/NVIDIA/KAI-scheduler/pkg/apis/kai/v1/binder"
	kaicommon "github.com/NVIDIA/KAI-scheduler/pkg/apis/kai/v1/common"
	kainsa "github.com/NVIDIA/KAI-scheduler/pkg/apis/kai/v1/node_scale_adjuster"
	kaipgc "github.com/NVIDIA/KAI-scheduler/pkg/apis/kai/v1/pod_group_controller"
	kaipg "github.com/NVIDIA/KAI-scheduler/pkg/apis/kai/v1/pod_grouper"
	kaiprom "github.com/NVIDIA/KAI-scheduler/pkg/apis/kai/v1/prometheus"
	kaiqc "github.com/NVIDIA/KAI-scheduler/pkg/apis/kai/v1/queue_controller"
	kaisched "github.com/NVIDIA/KAI-scheduler/pkg/apis/kai/v1/scheduler"
	"github.com/NVIDIA/KAI-scheduler/pkg/operator/operands"
	"github.com/NVIDIA/KAI-scheduler/pkg/operator/operands/admission"
	"github.com/NVIDIA/KAI-scheduler/pkg/operator/operands/binder"
	"github.com/NVIDIA/KAI-scheduler/pkg/operator/operands/deployable"
	"github.com/NVIDIA/KAI-scheduler/pkg/operator/operands/known_types"
	"github.com/NVIDIA/KAI-scheduler/pkg/operator/operands/node_scale_adjuster"
	"github.com/NVIDIA/KAI-scheduler/pkg/operator/operands/pod_group_controller"
	"github.com/NVIDIA/KAI-scheduler/pkg/operator/operands/pod_grouper"
	"github.com/NVIDIA/KAI-scheduler/pkg/operator/operands/prometheus"
	"github.com/NVIDIA/KAI-scheduler/pkg/operator/operands/queue_controller"
	"github.com/NVIDIA/KAI-scheduler/pkg/operator/operands/scheduler"

	"verif/mc/engine"
)

// ---------------------------------------------------------------- configuration lattice

// A configuration = 8 on/off switches (the 7 services' Service.Enabled + Prometheus.Enabled) and a
// "variant" that changes non-switch fields (replica count, a service image tag, namespace kept).
var switchNames = []string{"podGrouper", "binder", "queueController", "podGroupController", "nodeScaleAdjuster", "admission", "scheduler", "prometheus"}

type cfgC struct {
	Mask    uint `json:"enabled_mask"` // bit i = switchNames[i] enabled
	Variant int  `json:"variant"`      // 0 defaults, 1 = global replicaCount 2 + binder image tag "v2", 2 = global nodeSelector + tolerations + security context 3 = label selectors / pull secrets / node selector with several entries; (variant 2 has no pull secrets: the operator merges them into service accounts that other actors add secrets to, deliberately never removing any)
}

func (c cfgC) String() string {
	var on []string
	for i, n := range switchNames {
		if c.Mask&(1<<uint(i)) != 0 {
			on = append(on, n)
		}
	}
	return fmt.Sprintf("{%s}/v%d", strings.Join(on, ","), c.Variant)
}

const kaiNS = "kai-scheduler"

func (c cfgC) config() *kaiv1.Config {
	on := func(i int) *bool { return ptr.To(c.Mask&(1<<uint(i)) != 0) }
	svc := func(i int) *kaicommon.Service { return &kaicommon.Service{Enabled: on(i)} }
	cfg := &kaiv1.Config{
		TypeMeta:   metav1.TypeMeta{Kind: "Config", APIVersion: kaiv1.GroupVersion.String()},
		ObjectMeta: metav1.ObjectMeta{Name: known_types.SingletonInstanceName, UID: "kai-config-uid"},
		Spec: kaiv1.ConfigSpec{
			Namespace:          kaiNS,
			PodGrouper:         &kaipg.PodGrouper{Service: svc(0)},
			Binder:             &kaibinder.Binder{Service: svc(1)},
			QueueController:    &kaiqc.QueueController{Service: svc(2)},
			PodGroupController: &kaipgc.PodGroupController{Service: svc(3)},
			NodeScaleAdjuster:  &kainsa.NodeScaleAdjuster{Service: svc(4)},
			Admission:          &kaiadmission.Admission{Service: svc(5)},
			Scheduler:          &kaisched.Scheduler{Service: svc(6)},
			Prometheus:         &kaiprom.Prometheus{Enabled: on(7)},
		},
	}
	if c.Variant == 1 {
		cfg.Spec.Global = &kaiv1.GlobalConfig{ReplicaCount: ptr.To(int32(2))}
		cfg.Spec.Binder.Service.Image = &kaicommon.Image{Tag: ptr.To("v2")}
	}
	if c.Variant == 3 {
		// configuration MAPS and lists with several entries (rendered into arguments / object lists)
		cfg.Spec.Global = &kaiv1.GlobalConfig{
			NamespaceLabelSelector: map[string]string{"team": "ml", "env": "prod", "tier": "gpu"},
			PodLabelSelector:       map[string]string{"app": "train", "owner": "kai", "zone": "a"},
			ImagePullSecrets:       []string{"regcred-a", "regcred-b", "regcred-c"},
			NodeSelector:           map[string]string{"pool": "system", "arch": "amd64"},
		}
	}
	if c.Variant == 2 {
		// scheduling constraints of the components themselves: set in one configuration, gone in the next
		cfg.Spec.Global = &kaiv1.GlobalConfig{
			NodeSelector:     map[string]string{"pool": "system"},
			Tolerations:      []v1.Toleration{{Key: "dedicated", Operator: v1.TolerationOpExists, Effect: v1.TaintEffectNoSchedule}},
			SecurityContext:  &v1.SecurityContext{RunAsNonRoot: ptr.To(true)},
		}
	}
	cfg.Spec.SetDefaultsWhereNeeded() // ConfigReconciler.Reconcile does this before Deploy
	return cfg
}

// ---------------------------------------------------------------- operator store

func newOperands() []operands.Operand {
	// fresh instances of exactly controller.ConfigReconcilerOperands (the operands keep state)
	return []operands.Operand{
		&pod_grouper.PodGrouper{}, &binder.Binder{}, &queue_controller.QueueController{},
		&pod_group_controller.PodGroupController{}, &node_scale_adjuster.NodeScaleAdjuster{},
		&admission.Admission{}, &prometheus.Prometheus{}, &scheduler.SchedulerForConfig{},
	}
}

// newDeployable wires DeployableOperands as ConfigReconciler.SetOperands + SetupWithManager do.
func newDeployable() *deployable.DeployableOperands {
	d := deployable.New(newOperands(), known_types.KAIConfigRegisteredCollectible)
	d.RegisterFieldsInheritFromClusterObjects(&admissionv1.ValidatingWebhookConfiguration{}, known_types.ValidatingWebhookConfigurationFieldInherit)
	d.RegisterFieldsInheritFromClusterObjects(&admissionv1.MutatingWebhookConfiguration{}, known_types.MutatingWebhookConfigurationFieldInherit)
	return d
}

func newOperatorClient(objs []client.Object, l *callLog) (client.Client, client.WithWatch) {
	b := fake.NewClientBuilder().WithScheme(operatorScheme).WithTypeConverters(typeConverters...).WithObjects(objs...)
	for _, col := range known_types.KAIConfigRegisteredCollectible {
		if col.InitWithFakeClientBuilder != nil {
			col.InitWithFakeClientBuilder(b)
		}
	}
	raw := b.Build()
	fn := countingFuncs(l)
	// The operator reads through the manager's delegating client, i.e. from the informer cache,
	// and controller-runtime's CacheReader.Get/List stamp the GroupVersionKind on every typed
	// object they return (pkg/cache/internal/cache_reader.go). The fake client instead blanks
	// TypeMeta of typed objects (ensureTypeMeta), which would make every key of
	// known_types.GetKey(obj.GroupVersionKind(), ...) collide. Model the cache reader.
	fn.Get = func(ctx context.Context, c client.WithWatch, key client.ObjectKey, obj client.Object, opts ...client.GetOption) error {
		if err := c.Get(ctx, key, obj, opts...); err != nil {
			return err
		}
		stampGVK(obj)
		return nil
	}
	fn.List = func(ctx context.Context, c client.WithWatch, list client.ObjectList, opts ...client.ListOption) error {
		if err := c.List(ctx, list, opts...); err != nil {
			return err
		}
		return meta.EachListItem(list, func(o runtime.Object) error { stampGVK(o); return nil })
	}
	return interceptor.NewClient(raw, fn), raw
}

func stampGVK(o runtime.Object) {
	if _, ok := o.(*metav1.PartialObjectMetadata); ok {
		return
	}
	if gvk, err := apiutil.GVKForObject(o, operatorScheme); err == nil {
		o.GetObjectKind().SetGroupVersionKind(gvk)
	}
}

// crds that the operands probe for (prometheus operator installed or not).
func prometheusCRDs() []client.Object {
	var out []client.Object
	for _, n := range []string{"prometheuses.monitoring.coreos.com", "servicemonitors.monitoring.coreos.com"} {
		out = append(out, &apiextensionsv1.CustomResourceDefinition{ObjectMeta: metav1.ObjectMeta{Name: n}})
	}
	return out
}

// foreign objects: same kinds, same namespace, not owned by the Config (one even owned by some
// other controller) - Deploy must neither touch nor adopt nor delete them.
func foreignObjects() []client.Object {
	other := []metav1.OwnerReference{{APIVersion: "apps/v1", Kind: "Deployment", Name: "someone-else", UID: "x", Controller: ptr.To(true)}}
	return []client.Object{
		&appsv1.Deployment{ObjectMeta: metav1.ObjectMeta{Name: "foreign-deploy", Namespace: kaiNS, Labels: map[string]string{"app": "foreign"}},
			Spec: appsv1.DeploymentSpec{Selector: &metav1.LabelSelector{MatchLabels: map[string]string{"app": "foreign"}}}},
		&v1.ConfigMap{ObjectMeta: metav1.ObjectMeta{Name: "foreign-cm", Namespace: kaiNS, OwnerReferences: other}, Data: map[string]string{"k": "v"}},
		&v1.Secret{ObjectMeta: metav1.ObjectMeta{Name: "foreign-secret", Namespace: kaiNS}, Data: map[string][]byte{"k": []byte("v")}},
		&v1.ServiceAccount{ObjectMeta: metav1.ObjectMeta{Name: "foreign-sa", Namespace: "default"}},
		&v1.Service{ObjectMeta: metav1.ObjectMeta{Name: "foreign-svc", Namespace: kaiNS}},
		&admissionv1.ValidatingWebhookConfiguration{ObjectMeta: metav1.ObjectMeta{Name: "foreign-vwc"}},
	}
}

// snapshotC lists every object of every kind the operator manages and renders it canonically:
// resourceVersion dropped, generated certificate material replaced by its key names (each Deploy
// from an empty cluster draws fresh random keys), caBundle checked against the secret and blanked.
func snapshotC(c client.Client) (map[string]string, error) {
	out := map[string]string{}
	lists := []client.ObjectList{&appsv1.DeploymentList{}, &appsv1.DaemonSetList{}, &v1.ServiceAccountList{}, &v1.ConfigMapList{},
		&v1.ServiceList{}, &v1.SecretList{}, &admissionv1.MutatingWebhookConfigurationList{}, &admissionv1.ValidatingWebhookConfigurationList{},
		&apiextensionsv1.CustomResourceDefinitionList{}, &monitoringv1.PrometheusList{}, &monitoringv1.ServiceMonitorList{}}
	for _, l := range lists {
		if err := c.List(ctx, l); err != nil {
			return nil, err
		}
		b, err := json.Marshal(l)
		if err != nil {
			return nil, err
		}
		var generic struct {
			Items []map[string]any `json:"items"`
		}
		if err := json.Unmarshal(b, &generic); err != nil {
			return nil, err
		}
		kind := strings.TrimSuffix(fmt.Sprintf("%T", l), "List")
		kind = kind[strings.LastIndex(kind, ".")+1:]
		for _, it := range generic.Items {
			md, _ := it["metadata"].(map[string]any)
			delete(md, "resourceVersion")
			delete(md, "managedFields")
			delete(md, "creationTimestamp")
			if an, ok := md["annotations"].(map[string]any); ok {
				for k := range an {
					if strings.Contains(k, "deprecation-timestamp") {
						an[k] = "<wall-clock>"
					}
				}
			}
			delete(it, "kind")
			delete(it, "apiVersion")
			if kind == "Secret" {
				if data, ok := it["data"].(map[string]any); ok {
					for k := range data {
						data[k] = "<generated>"
					}
				}
			}
			if whs, ok := it["webhooks"].([]any); ok {
				for _, w := range whs {
					if wm, ok := w.(map[string]any); ok {
						if cc, ok := wm["clientConfig"].(map[string]any); ok {
							if _, has := cc["caBundle"]; has {
								cc["caBundle"] = "<ca>"
							}
						}
					}
				}
			}
			cb, _ := json.Marshal(it)
			out[fmt.Sprintf("%s %v/%v", kind, md["namespace"], md["name"])] = string(cb)
		}
	}
	return out, nil
}

func diffSnap(a, b map[string]string) []string {
	var d []string
	for k, va := range a {
		vb, ok := b[k]
		switch {
		case !ok:
			d = append(d, "only-in-first:"+k)
		case va != vb:
			d = append(d, "differs:"+k)
		}
	}
	for k := range b {
		if _, ok := a[k]; !ok {
			d = append(d, "only-in-second:"+k)
		}
	}
	sort.Strings(d)
	return d
}

func snapHash(m map[string]string) string {
	keys := make([]string, 0, len(m))
	for k := range m {
		keys = append(keys, k)
	}
	sort.Strings(keys)
	h := sha256.New()
	for _, k := range keys {
		h.Write([]byte(k))
		h.Write([]byte(m[k]))
	}
	return hex.EncodeToString(h.Sum(nil))[:16]
}

func kindOfKey(k string) string { return strings.SplitN(k, " ", 2)[0] }

// ---------------------------------------------------------------- cases

// Start states. Each is a "+"-joined set of:
//   - "empty"        nothing but the Config (and, if PromCRD, the two prometheus-operator CRDs);
//   - "tls"          the three Config-owned webhook TLS secrets are already there (what a previous
//     installation leaves; spares a 2048-bit RSA key generation per secret and Deploy);
//   - "foreign"      unrelated objects of the managed kinds exist;
//   - "deployed-c1"  Deploy(C1) ran before.
type caseC struct {
	C1      cfgC   `json:"c1"`
	C2      cfgC   `json:"c2"`
	Start   string `json:"start"`
	PromCRD bool   `json:"prometheus_crds_installed"`
}

func (c caseC) has(tag string) bool { return strings.Contains("+"+c.Start+"+", "+"+tag+"+") }

func (c caseC) String() string {
	return fmt.Sprintf("start=%s promCRDs=%t C1=%s C2=%s", c.Start, c.PromCRD, c.C1, c.C2)
}

func seededSecrets() []client.Object {
	owner := []metav1.OwnerReference{{APIVersion: kaiv1.GroupVersion.String(), Kind: "Config", Name: known_types.SingletonInstanceName,
		UID: "kai-config-uid", Controller: ptr.To(true)}}
	var out []client.Object
	for _, n := range []string{"queue-webhook-tls-secret", "podgroup-webhook-tls-secret", "kai-admission-webhook-tls-secret"} {
		out = append(out, &v1.Secret{ObjectMeta: metav1.ObjectMeta{Name: n, Namespace: kaiNS, OwnerReferences: owner},
			Data: map[string][]byte{"tls.crt": []byte("-----BEGIN CERTIFICATE-----\nverif\n-----END CERTIFICATE-----\n"), "tls.key": []byte("verif-key")}})
	}
	return out
}

// deployOnce = one real DeployableOperands.Deploy (ConfigSpec defaults applied as Reconcile does).
func deployOnce(d *deployable.DeployableOperands, c client.Client, cfg cfgC) (errStr string) {
	defer func() {
		if r := recover(); r != nil {
			errStr = "panic: " + fmt.Sprint(r)
		}
	}()
	k := cfg.config()
	if err := d.Deploy(ctx, c, k, k); err != nil {
		return err.Error()
	}
	return ""
}

type resultC struct {
	Findings  []finding
	Deploys   int
	Objects   int
	Hash      string
	NoopCalls int
	// PromRetention: objects kept by the documented Prometheus retention period (not judged)
	PromRetention int
}

func (cs caseC) baseObjects() []client.Object {
	base := []client.Object{cs.C2.config()}
	if cs.PromCRD {
		base = append(base, prometheusCRDs()...)
	}
	if cs.has("tls") {
		base = append(base, seededSecrets()...)
	}
	if cs.has("foreign") {
		base = append(base, foreignObjects()...)
	}
	return base
}

type refC struct {
	snap    map[string]string
	err     string
	foreign map[string]string
}

var refCacheC = map[string]*refC{}

// referenceC: Deploy(C2) on the same start state but without C1 ever having been deployed.
func referenceC(cs caseC) (*refC, bool, error) {
	k := fmt.Sprintf("%v|%t|%t|%t", cs.C2, cs.PromCRD, cs.has("tls"), cs.has("foreign"))
	if r, ok := refCacheC[k]; ok {
		return r, false, nil
	}
	r := &refC{}
	c, raw := newOperatorClient(cs.baseObjects(), nil)
	var err error
	if cs.has("foreign") {
		if r.foreign, err = snapshotC(raw); err != nil {
			return nil, true, err
		}
		for key := range r.foreign {
			if !strings.Contains(key, "foreign-") {
				delete(r.foreign, key)
			}
		}
	}
	r.err = deployOnce(newDeployable(), c, cs.C2)
	if r.snap, err = snapshotC(raw); err != nil {
		return nil, true, err
	}
	refCacheC[k] = r
	return r, true, nil
}

// runCaseC: the differential + fixpoint oracle for one (start, C1, C2).
func runCaseC(cs caseC) (*resultC, error) {
	res := &resultC{}
	ref, executed, err := referenceC(cs)
	if err != nil {
		return nil, err
	}
	if executed {
		res.Deploys++
	}
	if ref.err != "" {
		res.Findings = append(res.Findings, finding{"C20/operator-deploy-error", "Deploy(C2) on a cluster that never saw C1 failed: " + ref.err})
		return res, nil
	}
	want := ref.snap

	// run under test
	log := &callLog{}
	c, raw := newOperatorClient(cs.baseObjects(), log)
	d := newDeployable()
	if cs.has("deployed-c1") {
		if e := deployOnce(d, c, cs.C1); e != "" {
			res.Findings = append(res.Findings, finding{"C20/operator-deploy-error", "Deploy(C1) failed: " + e})
			return res, nil
		}
		res.Deploys++
	}
	if e := deployOnce(d, c, cs.C2); e != "" {
		res.Findings = append(res.Findings, finding{"C20/operator-deploy-error", "Deploy(C2) after Deploy(C1) failed: " + e})
		return res, nil
	}
	res.Deploys++
	got, err := snapshotC(raw)
	if err != nil {
		return nil, err
	}
	res.Objects = len(got)
	res.Hash = snapHash(got)
	d0 := diffSnap(got, want)
	var dd []string
	for _, x := range d0 {
		// documented exception: a Prometheus instance that was enabled and is then switched off is kept
		// for a 30-day retention period (prometheus/resources.go deprecatePrometheusForKAIConfig), with
		// its ServiceAccount / ServiceMonitors / Service: history- and clock-dependent BY DESIGN.
		if cs.C1.Mask&(1<<7) != 0 && cs.C2.Mask&(1<<7) == 0 && cs.has("deployed-c1") && strings.HasPrefix(x, "only-in-first:") &&
			(strings.Contains(x, "Prometheus ") || strings.Contains(x, "ServiceMonitor ") || strings.Contains(x, "prometheus")) {
			res.PromRetention++
			continue
		}
		dd = append(dd, x)
	}
	if d := dd; len(d) > 0 {
		kinds := map[string]bool{}
		for _, x := range d {
			kinds[strings.SplitN(x, ":", 2)[0]+":"+kindOfKey(strings.SplitN(x, ":", 2)[1])] = true
		}
		ks := []string{}
		for k := range kinds {
			ks = append(ks, k)
		}
		sort.Strings(ks)
		res.Findings = append(res.Findings, finding{"C20/operator-deploy-depends-on-history " + strings.Join(ks, ","),
			fmt.Sprintf("Deploy(C2) after Deploy(C1) differs from Deploy(C2) on a cluster that never saw C1 (first = after C1): %v", d)})
	}
	// fixpoint: repeat Deploy(C2) in the same process, and once more as a restarted operator
	// (the repeated deployments run under OTHER Go map-iteration orders: what the operator renders must
	// not depend on the order in which it happens to walk a configuration map)
	defer maporder.Set(0)
	for i, dd := range []*deployable.DeployableOperands{d, newDeployable(), newDeployable()} {
		log.reset()
		maporder.Set(uint64(i + 1))
		if e := deployOnce(dd, c, cs.C2); e != "" {
			res.Findings = append(res.Findings, finding{"C20/operator-deploy-error", "repeated Deploy(C2) failed: " + e})
			return res, nil
		}
		res.Deploys++
		again, err := snapshotC(raw)
		if err != nil {
			return nil, err
		}
		who := [...]string{"same-process", "restarted-operator", "restarted-operator"}[i]
		if len(log.calls) > 0 {
			if len(diffSnap(again, got)) == 0 {
				res.NoopCalls += len(log.calls)
			}
			// Calls that leave every object semantically unchanged are counted (NoopCalls) but are not
			// a finding: the statement requires that a repeated deployment leaves every object
			// unchanged, not that it issues no API write (corrected false alarm, see DESIGN.md).
		}
		if dfs := diffSnap(again, got); len(dfs) > 0 {
			res.Findings = append(res.Findings, finding{"C20/operator-repeated-deploy-changes-objects " + who, fmt.Sprintf("objects changed by a repeated Deploy: %v", dfs)})
		}
		got = again
	}
	for k, v := range ref.foreign {
		if got[k] != v {
			res.Findings = append(res.Findings, finding{"C20/operator-touches-foreign-object kind=" + kindOfKey(k), "foreign object changed or deleted: " + k})
		}
	}
	return res, nil
}

func popcount(m uint) int {
	n := 0
	for ; m != 0; m &= m - 1 {
		n++
	}
	return n
}

// casesC: the lattice over the 8 switches (+ a variant bit for non-switch fields).
//   - every one of the 256 switch subsets as C2: Deploy from "tls" and from "tls+foreign", then twice more;
//   - truly empty cluster (certificate generation path): all-off, all-on, the 8 single-switch subsets,
//     with and without the prometheus-operator CRDs; and all-on -> each single-switch subset;
//   - C1 -> C2 for every C2 with C1 in {all-on, all-off, same switches with other variant};
//   - C1 -> C2 where C1 differs from C2 in exactly one switch: quick for the C2 with <=2 or >=6
//     switches on (74 subsets), thorough for all 256;
//   - thorough additionally: every ordered pair of subsets of the 7 services (prometheus off).
func casesC(tier string) []caseC {
	var out []caseC
	all := uint(1<<uint(len(switchNames))) - 1
	singles := []uint{0, all}
	for i := range switchNames {
		singles = append(singles, 1<<uint(i))
	}
	for _, m := range singles {
		for _, prom := range []bool{false, true} {
			out = append(out, caseC{C1: cfgC{Mask: m}, C2: cfgC{Mask: m}, Start: "empty", PromCRD: prom})
		}
		out = append(out, caseC{C1: cfgC{Mask: all}, C2: cfgC{Mask: m}, Start: "empty+deployed-c1", PromCRD: true})
	}
	for m := uint(0); m <= all; m++ {
		c2 := cfgC{Mask: m}
		out = append(out, caseC{C1: c2, C2: c2, Start: "tls", PromCRD: true})
		out = append(out, caseC{C1: c2, C2: c2, Start: "tls+foreign", PromCRD: true})
		if n := popcount(m); n == 1 || n == 8 {
			out = append(out, caseC{C1: cfgC{Mask: m, Variant: 3}, C2: cfgC{Mask: m, Variant: 3}, Start: "tls", PromCRD: true})
		}
		for _, c1 := range []cfgC{{Mask: all}, {Mask: 0}, {Mask: m, Variant: 1}, {Mask: m, Variant: 2}} {
			out = append(out, caseC{C1: c1, C2: c2, Start: "tls+deployed-c1", PromCRD: true})
		}
		out = append(out, caseC{C1: cfgC{Mask: all}, C2: cfgC{Mask: m, Variant: 1}, Start: "tls+foreign+deployed-c1", PromCRD: true})
		out = append(out, caseC{C1: cfgC{Mask: m}, C2: cfgC{Mask: m, Variant: 2}, Start: "tls+deployed-c1", PromCRD: true})
		if n := popcount(m); tier != "quick" || n <= 2 || n >= 6 {
			for i := range switchNames {
				out = append(out, caseC{C1: cfgC{Mask: m ^ (1 << uint(i))}, C2: c2, Start: "tls+deployed-c1", PromCRD: true})
			}
		}
	}
	if tier != "quick" {
		for m1 := uint(0); m1 < 128; m1++ {
			for m2 := uint(0); m2 < 128; m2++ {
				out = append(out, caseC{C1: cfgC{Mask: m1}, C2: cfgC{Mask: m2}, Start: "tls+deployed-c1", PromCRD: true})
			}
		}
	}
	return out
}

func exploreC(tier string, chunk, chunks int) *unitStats {
	u := &unitStats{Part: "C", Unit: fmt.Sprintf("chunk %d/%d", chunk, chunks)}
	seenKeys := map[string]bool{}
	hashes := map[string]bool{}
	for _, cs := range casesC(tier) {
		if int(cs.C2.Mask)%chunks != chunk { // all cases of one C2 share a worker (reference cache)
			continue
		}
		if outOfTime() {
			u.CapHit = true
			break
		}
		r, err := runCaseC(cs)
		if err != nil {
			u.HarnessError = err.Error()
			return u
		}
		u.States++
		u.Transitions += r.Deploys
		u.RealTransitions += r.Deploys
		u.Fixpoints++
		u.NoopWrites += r.NoopCalls
		if r.PromRetention > 0 {
			u.inc("cases_with_prometheus_retention_leftovers_not_judged", 1)
		}
		if r.Objects > 0 {
			u.Nontrivial++
		}
		hashes[r.Hash] = true
		u.inc("start_"+cs.Start, 1)
		if cs.C1 != cs.C2 {
			u.inc("config_changes_C1_to_C2", 1)
		}
		for _, fd := range r.Findings {
			u.inc("violating_cases", 1)
			if seenKeys[fd.Key] {
				continue
			}
			seenKeys[fd.Key] = true
			cc := cs
			u.Violations = append(u.Violations, engine.Violation{Property: "C20", Key: fd.Key, Message: fd.Msg + " | case: " + cs.String(),
				Replay: replayFile{Part: "C", CaseC: &cc, History: []string{"start=" + cs.Start, "Deploy(C1)", "Deploy(C2)", "Deploy(C2)", "Deploy(C2) as restarted operator"}, Expect: fd.Key}})
		}
		if len(u.Samples) < 1 && cs.has("deployed-c1") && r.Objects > 8 && cs.C1.Mask != cs.C2.Mask {
			u.Samples = append(u.Samples, map[string]any{"part": "C", "case": cs.String(), "objects_after": r.Objects, "state_hash": r.Hash, "deploys": r.Deploys})
		}
	}
	for h := range hashes {
		u.inc("distinct_final_stores:"+h, 1)
	}
	return u
}
