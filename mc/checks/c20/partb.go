package c20

import (
	"fmt"
	"sort"
	"strconv"
	"strings"
	"sync"

	v1 "k8s.io/api/core/v1"
	"k8s.io/apimachinery/pkg/api/resource"
	metav1 "k8s.io/apimachinery/pkg/apis/meta/v1"
	"k8s.io/apimachinery/pkg/types"
	"sigs.k8s.io/controller-runtime/pkg/client"

	v2 "github.com/NVIDIA/KAI-scheduler/pkg/apis/scheduling/v2"
	"github.com/NVIDIA/KAI-scheduler/pkg/apis/scheduling/v2alpha2"
	qcontrollers "github.com/NVIDIA/KAI-scheduler/pkg/queuecontroller/controllers"
	qmetrics "github.com/NVIDIA/KAI-scheduler/pkg/queuecontroller/metrics"
)

var metricsOnce sync.Once

// newQueueReconciler: the real reconciler, wired as SetupWithManager wires it (verif hook), with
// the metrics initialised as cmd/queuecontroller/app.Run does before starting the manager.
func newQueueReconciler(c client.Client) *qcontrollers.QueueReconciler {
	metricsOnce.Do(func() { qmetrics.InitMetrics("kai", nil, nil) })
	return qcontrollers.NewVerifQueueReconciler(c, statusScheme)
}

// ---------------------------------------------------------------- Part B world

const nsB = "team"

// palette of pod-group status.resourcesStatus values (index 0 = empty).
type rsSpec struct{ Alloc, NP, Req map[string]string }

var rsPalette = []rsSpec{
	{},
	{Alloc: map[string]string{"cpu": "1", "nvidia.com/gpu": "1"}, NP: map[string]string{"cpu": "1", "nvidia.com/gpu": "1"},
		Req: map[string]string{"cpu": "2", "nvidia.com/gpu": "2"}},
	{Alloc: map[string]string{"nvidia.com/gpu": "500m", "memory": "1Gi"}, Req: map[string]string{"nvidia.com/gpu": "500m", "memory": "1Gi"}},
	{Req: map[string]string{"cpu": "3", "run.ai/gpu.memory": "4k"}},
}

func mkRL(m map[string]string) v1.ResourceList {
	if len(m) == 0 {
		return nil
	}
	rl := v1.ResourceList{}
	for k, v := range m {
		rl[v1.ResourceName(k)] = resource.MustParse(v)
	}
	return rl
}

func (r rsSpec) status() v2alpha2.PodGroupResourcesStatus {
	return v2alpha2.PodGroupResourcesStatus{Allocated: mkRL(r.Alloc), AllocatedNonPreemptible: mkRL(r.NP), Requested: mkRL(r.Req)}
}

type pgB struct {
	Slot  int `json:"slot"`  // name g<slot>
	Queue int `json:"queue"` // index of its queue
	RS    int `json:"rs"`    // palette index
}

type queueB struct {
	Parent int            `json:"parent"` // -1 = top level
	Status v2.QueueStatus `json:"status"`
}

type stateB struct {
	Queues []queueB `json:"queues"` // q0..q(n-1)
	PGs    []pgB    `json:"podGroups"`
}

func qName(i int) string { return "q" + strconv.Itoa(i) }

func qsCanon(st *v2.QueueStatus) string {
	return "A[" + rlCanon(st.Allocated) + "]N[" + rlCanon(st.AllocatedNonPreemptible) + "]R[" + rlCanon(st.Requested) + "]C[" + strings.Join(st.ChildQueues, ",") + "]"
}

func (s *stateB) key() string {
	var b strings.Builder
	for _, q := range s.Queues {
		fmt.Fprintf(&b, "%d:%s;", q.Parent, qsCanon(&q.Status))
	}
	b.WriteByte('|')
	for _, g := range s.PGs {
		fmt.Fprintf(&b, "g%d@%d=%d;", g.Slot, g.Queue, g.RS)
	}
	return b.String()
}

func (s *stateB) objects() []client.Object {
	var objs []client.Object
	for i, q := range s.Queues {
		qo := &v2.Queue{ObjectMeta: metav1.ObjectMeta{Name: qName(i)}, Status: *q.Status.DeepCopy()}
		if q.Parent >= 0 {
			qo.Spec.ParentQueue = qName(q.Parent)
		}
		objs = append(objs, qo)
	}
	for _, g := range s.PGs {
		objs = append(objs, &v2alpha2.PodGroup{ObjectMeta: metav1.ObjectMeta{Name: "g" + strconv.Itoa(g.Slot), Namespace: nsB},
			Spec:   v2alpha2.PodGroupSpec{MinMember: 1, Queue: qName(g.Queue)},
			Status: v2alpha2.PodGroupStatus{ResourcesStatus: rsPalette[g.RS].status()}})
	}
	return objs
}

func paletteIndex(rs *v2alpha2.PodGroupResourcesStatus) int {
	k := rsCanon(rs)
	for i, p := range rsPalette {
		st := p.status()
		if rsCanon(&st) == k {
			return i
		}
	}
	return -1
}

func snapshotB(c client.Client, nQueues int) (*stateB, error) {
	s := &stateB{}
	for i := 0; i < nQueues; i++ {
		q := &v2.Queue{}
		if err := c.Get(ctx, types.NamespacedName{Name: qName(i)}, q); err != nil {
			return nil, err
		}
		p := -1
		if q.Spec.ParentQueue != "" {
			v, err := strconv.Atoi(strings.TrimPrefix(q.Spec.ParentQueue, "q"))
			if err != nil {
				return nil, err
			}
			p = v
		}
		s.Queues = append(s.Queues, queueB{Parent: p, Status: *q.Status.DeepCopy()})
	}
	pgs := &v2alpha2.PodGroupList{}
	if err := c.List(ctx, pgs, client.InNamespace(nsB)); err != nil {
		return nil, err
	}
	for _, g := range pgs.Items {
		slot, _ := strconv.Atoi(strings.TrimPrefix(g.Name, "g"))
		qi, _ := strconv.Atoi(strings.TrimPrefix(g.Spec.Queue, "q"))
		pi := paletteIndex(&g.Status.ResourcesStatus)
		if pi < 0 {
			return nil, fmt.Errorf("pod group %s: status not in palette", g.Name)
		}
		s.PGs = append(s.PGs, pgB{Slot: slot, Queue: qi, RS: pi})
	}
	sort.Slice(s.PGs, func(i, j int) bool { return s.PGs[i].Slot < s.PGs[j].Slot })
	return s, nil
}

// ---------------------------------------------------------------- forest helpers

func depthOf(parents []int, i int) int {
	d := 1
	for p := parents[i]; p >= 0; p = parents[p] {
		d++
		if d > len(parents)+1 {
			return 1 << 20 // cycle
		}
	}
	return d
}

func forestOK(parents []int, maxLevels int) bool {
	for i := range parents {
		if depthOf(parents, i) > maxLevels {
			return false
		}
	}
	return true
}

// allForests: every parent function on n labelled queues that is a forest of height <= maxLevels.
func allForests(n, maxLevels int) [][]int {
	var out [][]int
	cur := make([]int, n)
	var rec func(i int)
	rec = func(i int) {
		if i == n {
			if forestOK(cur, maxLevels) {
				out = append(out, append([]int{}, cur...))
			}
			return
		}
		for p := -1; p < n; p++ {
			if p == i {
				continue
			}
			cur[i] = p
			rec(i + 1)
		}
	}
	rec(0)
	return out
}

func (s *stateB) parents() []int {
	ps := make([]int, len(s.Queues))
	for i, q := range s.Queues {
		ps[i] = q.Parent
	}
	return ps
}

func (s *stateB) levels() int {
	m := 0
	ps := s.parents()
	for i := range ps {
		if d := depthOf(ps, i); d > m {
			m = d
		}
	}
	return m
}

// ---------------------------------------------------------------- events

type eventB struct {
	Op  string `json:"op"` // reconcile | set-status | add-pg | del-pg | reparent
	I   int    `json:"i"`
	Arg int    `json:"arg,omitempty"`
	Q   int    `json:"q,omitempty"`
}

func (e eventB) String() string {
	switch e.Op {
	case "reconcile":
		return "reconcile(" + qName(e.I) + ")"
	case "set-status":
		return fmt.Sprintf("set-status(g%d,rs%d)", e.I, e.Arg)
	case "add-pg":
		return fmt.Sprintf("add-pg(g%d@%s,rs%d)", e.I, qName(e.Q), e.Arg)
	case "del-pg":
		return fmt.Sprintf("del-pg(g%d)", e.I)
	case "reparent":
		if e.Arg < 0 {
			return fmt.Sprintf("reparent(%s,none)", qName(e.I))
		}
		return fmt.Sprintf("reparent(%s,%s)", qName(e.I), qName(e.Arg))
	}
	return e.Op
}

type boundsB struct {
	MaxPGs    int
	Palette   []int // statuses the environment may write
	MaxLevels int
	Depth     int
	// BothOrders: close every state with parent-first AND child-first fixpoint rounds (otherwise
	// both only for states at depth <= 1, parent-first elsewhere).
	BothOrders bool
	// NoReparent: the history events exclude queue re-parenting (used for 4-queue trees in the
	// quick tier, where every forest shape is an initial state anyway).
	NoReparent bool
}

func enabledB(s *stateB, b *boundsB) []eventB {
	var ev []eventB
	for i := range s.Queues {
		ev = append(ev, eventB{Op: "reconcile", I: i})
	}
	used := map[int]bool{}
	for _, g := range s.PGs {
		used[g.Slot] = true
		for _, r := range b.Palette {
			if r != g.RS {
				ev = append(ev, eventB{Op: "set-status", I: g.Slot, Arg: r})
			}
		}
		ev = append(ev, eventB{Op: "del-pg", I: g.Slot})
	}
	if len(s.PGs) < b.MaxPGs {
		slot := 0
		for used[slot] {
			slot++
		}
		for q := range s.Queues {
			for _, r := range b.Palette {
				if r != 0 {
					ev = append(ev, eventB{Op: "add-pg", I: slot, Q: q, Arg: r})
				}
			}
		}
	}
	if b.NoReparent {
		return ev
	}
	ps := s.parents()
	for i := range s.Queues {
		old := ps[i]
		for p := -1; p < len(s.Queues); p++ {
			if p == i || p == old {
				continue
			}
			ps[i] = p
			if forestOK(ps, b.MaxLevels) {
				ev = append(ev, eventB{Op: "reparent", I: i, Arg: p})
			}
		}
		ps[i] = old
	}
	return ev
}

type stepB struct {
	Next  *stateB
	Calls []string
	Err   string
	Real  bool
	// Executed is false when this (state, reconcile) pair had already been executed (memo).
	Executed bool
}

// recMemoB: one real reconcile per distinct (store state, queue) pair: a reconcile is a
// deterministic function of the store (the determinism replays re-execute a fixed fraction on a
// fresh store and compare). Both the reconcile(q) history event and the fixpoint walk use it.
type recResB struct {
	next  *stateB
	err   string
	calls []string
}

var recMemoB = map[string]*recResB{}

func reconcileMemoB(s *stateB, qi int) (r *recResB, executed bool, err error) {
	k := s.key() + "#" + strconv.Itoa(qi)
	if r, ok := recMemoB[k]; ok {
		return r, false, nil
	}
	log := &callLog{}
	counted, raw := newStatusClient(s.objects(), log)
	r = &recResB{err: reconcileQueue(counted, qName(qi))}
	r.calls = append([]string{}, log.calls...)
	if r.next, err = snapshotB(raw, len(s.Queues)); err != nil {
		return nil, true, err
	}
	recMemoB[k] = r
	return r, true, nil
}

func applyB(s *stateB, e eventB) (*stepB, error) {
	res := &stepB{}
	if e.Op == "reconcile" {
		r, executed, err := reconcileMemoB(s, e.I)
		if err != nil {
			return nil, err
		}
		res.Real, res.Executed, res.Err, res.Calls, res.Next = true, executed, r.err, r.calls, r.next
		return res, nil
	}
	_, raw := newStatusClient(s.objects(), nil)
	switch e.Op {
	case "set-status":
		g := &v2alpha2.PodGroup{}
		if err := raw.Get(ctx, types.NamespacedName{Namespace: nsB, Name: "g" + strconv.Itoa(e.I)}, g); err != nil {
			return nil, err
		}
		g.Status.ResourcesStatus = rsPalette[e.Arg].status()
		if err := raw.Status().Update(ctx, g); err != nil {
			return nil, err
		}
	case "add-pg":
		g := &v2alpha2.PodGroup{ObjectMeta: metav1.ObjectMeta{Name: "g" + strconv.Itoa(e.I), Namespace: nsB},
			Spec: v2alpha2.PodGroupSpec{MinMember: 1, Queue: qName(e.Q)}}
		if err := raw.Create(ctx, g); err != nil {
			return nil, err
		}
		g.Status.ResourcesStatus = rsPalette[e.Arg].status()
		if err := raw.Status().Update(ctx, g); err != nil {
			return nil, err
		}
	case "del-pg":
		if err := raw.Delete(ctx, &v2alpha2.PodGroup{ObjectMeta: metav1.ObjectMeta{Name: "g" + strconv.Itoa(e.I), Namespace: nsB}}); err != nil {
			return nil, err
		}
	case "reparent":
		q := &v2.Queue{}
		if err := raw.Get(ctx, types.NamespacedName{Name: qName(e.I)}, q); err != nil {
			return nil, err
		}
		q.Spec.ParentQueue = ""
		if e.Arg >= 0 {
			q.Spec.ParentQueue = qName(e.Arg)
		}
		if err := raw.Update(ctx, q); err != nil {
			return nil, err
		}
	default:
		return nil, fmt.Errorf("unknown event %q", e.Op)
	}
	next, err := snapshotB(raw, len(s.Queues))
	if err != nil {
		return nil, err
	}
	res.Next = next
	return res, nil
}

// ---------------------------------------------------------------- fixpoint + oracle

type fixB struct {
	Final      *stateB
	Rounds     int
	Reconciles int // reconciles actually executed (not served by the memo)
	Converged  bool
	Cycle      bool // a state repeated without reaching a fixpoint
	BoundHit   bool
	Err        string
	ExtraCalls []string
}

// fixpointB reconciles every queue, round after round, in the given order, until a whole round
// changes nothing. A reconcile of queue q can only write q's own status (checked: ExtraCalls), so
// a change-free round means every single reconcile of it left every object unchanged - that
// last round IS the "one more reconcile of anything changes nothing" check.
func fixpointB(s *stateB, order []int, maxRounds int) (*fixB, error) {
	f := &fixB{}
	cur := s
	seen := map[string]bool{cur.key(): true}
	for r := 0; r < maxRounds; r++ {
		f.Rounds++
		startKey := cur.key()
		for _, qi := range order {
			res, executed, err := reconcileMemoB(cur, qi)
			if err != nil {
				return nil, err
			}
			if executed {
				f.Reconciles++
			}
			if res.err != "" {
				f.Err = res.err
				f.Final = cur
				return f, nil
			}
			for _, cl := range res.calls {
				if cl != "patch Queue/status /"+qName(qi) {
					f.ExtraCalls = append(f.ExtraCalls, cl)
				}
			}
			cur = res.next
		}
		if cur.key() == startKey {
			f.Converged = true
			break
		}
		if seen[cur.key()] {
			f.Cycle = true
			break
		}
		seen[cur.key()] = true
	}
	f.Final = cur
	if !f.Converged && !f.Cycle {
		f.BoundHit = true
	}
	return f, nil
}

// refQueues: reference sums, recursively over the forest (own code).
func refQueues(s *stateB) []v2.QueueStatus {
	out := make([]v2.QueueStatus, len(s.Queues))
	var sum func(i int) v2.QueueStatus
	sum = func(i int) v2.QueueStatus {
		st := v2.QueueStatus{Allocated: v1.ResourceList{}, AllocatedNonPreemptible: v1.ResourceList{}, Requested: v1.ResourceList{}}
		for _, g := range s.PGs {
			if g.Queue == i {
				rs := rsPalette[g.RS].status()
				rlAdd(st.Allocated, rs.Allocated)
				rlAdd(st.AllocatedNonPreemptible, rs.AllocatedNonPreemptible)
				rlAdd(st.Requested, rs.Requested)
			}
		}
		for j, q := range s.Queues {
			if q.Parent == i {
				c := sum(j)
				rlAdd(st.Allocated, c.Allocated)
				rlAdd(st.AllocatedNonPreemptible, c.AllocatedNonPreemptible)
				rlAdd(st.Requested, c.Requested)
				st.ChildQueues = append(st.ChildQueues, qName(j))
			}
		}
		return st
	}
	for i := range s.Queues {
		out[i] = sum(i)
	}
	return out
}

func oracleB(f *fixB, after string) []finding {
	var out []finding
	if f.Err != "" {
		return []finding{{"C20/queue-reconcile-error", "QueueReconciler.Reconcile failed: " + f.Err}}
	}
	if f.Cycle {
		return []finding{{"C20/queue-no-fixpoint oscillation", fmt.Sprintf("reconciling every queue repeats a state after %d rounds without reaching a fixpoint", f.Rounds)}}
	}
	if f.BoundHit {
		return nil // reported as exhaustive:false by the caller
	}
	if len(f.ExtraCalls) > 0 {
		out = append(out, finding{"C20/queue-controller-writes-other-objects", "unexpected mutating calls: " + strings.Join(f.ExtraCalls, "; ")})
	}
	s := f.Final
	ref := refQueues(s)
	ps := s.parents()
	for i, q := range s.Queues {
		lvl := depthOf(ps, i)
		hasChildren := len(ref[i].ChildQueues) > 0
		for _, fld := range []struct {
			name      string
			got, want v1.ResourceList
		}{{"allocated", q.Status.Allocated, ref[i].Allocated}, {"allocatedNonPreemptible", q.Status.AllocatedNonPreemptible, ref[i].AllocatedNonPreemptible},
			{"requested", q.Status.Requested, ref[i].Requested}} {
			if !rlEqual(fld.got, fld.want) {
				out = append(out, finding{fmt.Sprintf("C20/queue-%s-mismatch parent=%t diff=%s after=%s", fld.name, hasChildren, firstDiff(fld.got, fld.want), after),
					fmt.Sprintf("Queue %s (level %d) status.%s = {%s} but the sum over its pod groups and child queues is {%s}", qName(i), lvl, fld.name, rlCanon(fld.got), rlCanon(fld.want))})
			}
		}
		got := append([]string{}, q.Status.ChildQueues...)
		sort.Strings(got)
		if strings.Join(got, ",") != strings.Join(ref[i].ChildQueues, ",") {
			out = append(out, finding{"C20/queue-childQueues-wrong after=" + after,
				fmt.Sprintf("Queue %s status.childQueues = %v but its children are %v", qName(i), q.Status.ChildQueues, ref[i].ChildQueues)})
		}
	}
	return out
}
