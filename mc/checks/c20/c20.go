package c20

import (
	"crypto/sha256"
	"encoding/hex"
	"encoding/json"
	"fmt"
	"os"
	"path/filepath"
	"runtime"
	"sort"
	"strconv"
	"strings"
	"time"

	"verif/mc/engine"
	"verif/mc/registry"
)

func init() { registry.Register("C20", run, replay) }

// ---------------------------------------------------------------- work units

type unit struct {
	Part string
	Name string
	Run  func() *unitStats
}

type tierBounds struct {
	ADepth, AMaxPods, ACap int
	AKinds                 []int
	BDepth3, BDepth4, BCap int
	BPalette               []int
	BBothOrders            bool
	BNoReparent4           bool
	GridChunks, CChunks    int
}

func boundsFor(tier string) tierBounds {
	if tier == "quick" {
		return tierBounds{ADepth: 5, AMaxPods: 2, ACap: 400000, AKinds: []int{0, 2, 4, 5},
			BDepth3: 4, BDepth4: 3, BCap: 400000, BPalette: []int{1, 2}, BNoReparent4: true, GridChunks: 14, CChunks: 14}
	}
	return tierBounds{ADepth: 6, AMaxPods: 3, ACap: 400000, AKinds: []int{0, 1, 2, 3, 4, 5},
		BDepth3: 5, BDepth4: 3, BCap: 400000, BPalette: []int{1, 2, 3}, BBothOrders: true, GridChunks: 28, CChunks: 28}
}

func units(tier string) []unit {
	tb := boundsFor(tier)
	var us []unit
	// Part A: BFS over histories. Initial states: a never-reconciled empty group and a reconciled
	// group with one running pod of each kind, under both priority classes (explicit field unset;
	// the flip events reach the other four preemptibility sources).
	for _, pc := range []string{"pc-hi", "pc-lo"} {
		inits := []*stateA{{PC: pc}}
		names := []string{pc + " empty"}
		for _, k := range tb.AKinds {
			inits = append(inits, &stateA{PC: pc, Pods: []podM{{Kind: k, Phase: "Running", Cond: 2, Node: true}}})
			names = append(names, pc+" running "+kinds[k].Name)
		}
		for i := range inits {
			init, name := inits[i], names[i]
			us = append(us, unit{"A", name, func() *unitStats {
				start := init
				if len(init.Pods) > 0 { // start from the reconciled state
					f, err := fixpointA(init, false)
					if err != nil {
						return &unitStats{Part: "A", Unit: name, HarnessError: err.Error()}
					}
					start = f.Final
				}
				return exploreA(name, start, &boundsA{MaxPods: tb.AMaxPods, AddKinds: tb.AKinds, Depth: tb.ADepth}, tb.ACap)
			}})
		}
	}
	us = append(us, unit{"A-annot", "gpu-fraction strings", exploreFractionStrings})
	for c := 0; c < tb.GridChunks; c++ {
		c := c
		us = append(us, unit{"A-grid", fmt.Sprintf("chunk %d", c), func() *unitStats { return exploreStaticA(tier, c, tb.GridChunks) }})
	}
	// Part B
	names, inits := initialStatesB(tier)
	for i := range inits {
		init, name := inits[i], names[i]
		depth, noRep := tb.BDepth3, false
		if len(init.Queues) == 4 {
			depth, noRep = tb.BDepth4, tb.BNoReparent4
		}
		us = append(us, unit{"B", name, func() *unitStats {
			return exploreB(name, init, &boundsB{MaxPGs: 2, Palette: tb.BPalette, MaxLevels: 3, Depth: depth, BothOrders: tb.BBothOrders, NoReparent: noRep}, tb.BCap)
		}})
	}
	// Part C
	for c := 0; c < tb.CChunks; c++ {
		c := c
		us = append(us, unit{"C", fmt.Sprintf("chunk %d", c), func() *unitStats { return exploreC(tier, c, tb.CChunks) }})
	}
	// Execution order inside a worker (unit i runs on worker i%n, in list order): cheap parts first,
	// the two BFS parts last, so that a deadline truncates the largest explorations only.
	rank := map[string]int{"C": 0, "A-annot": 1, "A-grid": 2, "A": 3, "B": 4}
	sort.SliceStable(us, func(i, j int) bool { return rank[us[i].Part] < rank[us[j].Part] })
	if only := os.Getenv("VERIF_C20_ONLY"); only != "" { // debugging aid: restrict to some parts (the vacuity guard then fails by design)
		var f []unit
		for _, u := range us {
			if strings.Contains(","+only+",", ","+u.Part+",") {
				f = append(f, u)
			}
		}
		us = f
	}
	return us
}

func envInt(name string, def int) int {
	if s := os.Getenv(name); s != "" {
		if v, err := strconv.Atoi(s); err == nil {
			return v
		}
	}
	return def
}

// ---------------------------------------------------------------- run

var assumptions = []string{
	"API store = controller-runtime fake client (v0.22) with the status sub-resources and field indexes the three apps register and, of their schemes, the API groups the controllers actually touch (core, scheduling.k8s.io, resource.k8s.io, scheduling.run.ai; operator: core, apps, admissionregistration, apiextensions, kai.scheduler, nvidia.com, monitoring.coreos.com - the fake rebuilds a REST mapper from the whole scheme on every write); it applies no server-side defaulting, no admission and no conflict detection beyond resourceVersion, so hot loops that only arise from apiserver defaulting of Deployment/Service/webhook fields are invisible to Part C.",
	"Environment events (pod add/delete/phase/bind, preemptibility flips, pod-group status writes, queue re-parenting) are written through the same store with plain Create/Update/Status().Update/Delete; the binder's received-resource-type annotation is written together with spec.nodeName (pkg/binder/binding/binder.go patches it before creating the Binding).",
	"Reference definitions (weakest reading): requested = pods in phase Pending|Running; allocated = Running, or Pending with PodScheduled=True; GPU share of a fractional pod is counted in allocated only when the binder recorded it (received-resource-type=Fraction) and equals fraction x gpu-fraction-num-devices resp. gpu-memory / node nvidia.com/gpu.memory x num-devices; requested gpu-memory is reported as run.ai/gpu.memory (no node to convert against); allocatedNonPreemptible = allocated if the group is CURRENTLY non-preemptible (explicit spec.preemptibility, else priority class value >= 100, missing class = 50) and empty otherwise; a missing ResourceList entry equals a zero entry.",
	"'Unchanged' on a repeated reconcile means semantically identical objects (resourceVersion ignored): both status controllers issue a status Patch on every reconcile whose merge-patch body is empty, which a real apiserver treats as a no-op; these are counted (noop_writes) and not reported. For the operator the code compares desired and current with reflect.DeepEqual and only then calls Update, so there the oracle is ZERO mutating calls on a repeated Deploy.",
	"Queue trees are forests (cycles belong to C10), at most 3 levels and 4 queues; pod-group statuses in Part B come from a 4-value palette; quantities from the listed request kinds only.",
	"Part C reads go through a wrapper that stamps the GroupVersionKind on typed objects returned by Get/List, as controller-runtime's informer-backed CacheReader does for the manager client the operator uses (the fake client blanks TypeMeta, which would collapse known_types.GetKey). Most Part C start states pre-seed the three Config-owned webhook TLS secrets to avoid a 2048-bit RSA key generation per Deploy; 30 cases start from a truly empty cluster. The Prometheus instance is kept for a 30-day retention period after being switched off (documented, clock-dependent): its left-over objects are not judged.",
	"Part C drives deployable.DeployableOperands.Deploy with the real operand list of controller.ConfigReconcilerOperands, known_types.KAIConfigRegisteredCollectible and the two webhook field-inherit functions, exactly as ConfigReconciler.SetOperands + SetupWithManager wire it, after ConfigSpec.SetDefaultsWhereNeeded as Reconcile does. NOT covered: ConfigReconciler.Reconcile itself (its StatusReconciler and deployable are only wired inside SetupWithManager, which needs a manager with a live REST config and discovery for checkForClusterPolicy), status conditions, the SchedulingShard reconciler, Monitor(), and the ClusterPolicy watch. Generated certificate bytes are random per fresh deployment and are compared by key name only.",
	"DRA is covered through the code path the pod-group controller actually uses (ExtractDRAGPUResources: Get of the ResourceClaim named in pod.spec.resourceClaims, ExactCount requests of a device class containing 'gpu'); template claims without status and AllocationMode=All are not enumerated.",
}

func run(tier string) int {
	us := units(tier)
	idx, n, isWorker := engine.WorkerShard()
	if isWorker {
		deadline = engine.NewBudget(time.Duration(envInt("VERIF_C20_BUDGET_S", map[string]int{"quick": 150, "thorough": 1300}[tier])) * time.Second)
		// cost-balanced static assignment: unit i -> worker i%n (units are listed part by part)
		for i, u := range us {
			if i%n != idx {
				continue
			}
			if deadline.Exceeded() {
				engine.Emit(&unitStats{Part: u.Part, Unit: u.Name, CapHit: true, Extra: map[string]int{"units_skipped_by_deadline": 1}})
				continue
			}
			engine.Emit(u.Run())
			engine.FlushEmit()
		}
		engine.FlushEmit()
		return 0
	}

	start := time.Now()
	rep := engine.NewReporter("C20")
	type agg struct {
		units, states, transitions, real, fixpoints, nontrivial, noop, maxDepth, flipRec, multiNZ, boundHits, capHits, detReplays int
	}
	parts := map[string]*agg{}
	total := &agg{}
	extra := map[string]int{}
	distinctStores := map[string]bool{}
	var samples []any
	allSamples := map[string][]any{}
	harnessErr := ""
	best := map[string]engine.Violation{}
	workers := envInt("VERIF_WORKERS", min(max(runtime.NumCPU()-2, 1), 14))
	err := engine.RunWorkers(workers, nil, 6*1024*1024, func(w int, line []byte) {
		var st unitStats
		if err := json.Unmarshal(line, &st); err != nil {
			return
		}
		if st.HarnessError != "" && harnessErr == "" {
			harnessErr = st.Part + " " + st.Unit + ": " + st.HarnessError
		}
		if os.Getenv("VERIF_C20_DEBUG") != "" {
			fmt.Fprintf(os.Stderr, "unit %-8s %-40s states=%d trans=%d real=%d cap=%v\n", st.Part, st.Unit, st.States, st.Transitions, st.RealTransitions, st.CapHit)
		}
		a := parts[st.Part]
		if a == nil {
			a = &agg{}
			parts[st.Part] = a
		}
		for _, x := range []*agg{a, total} {
			x.units++
			x.states += st.States
			x.transitions += st.Transitions
			x.real += st.RealTransitions
			x.fixpoints += st.Fixpoints
			x.nontrivial += st.Nontrivial
			x.noop += st.NoopWrites
			x.flipRec += st.FlipThenRec
			x.multiNZ += st.MultiLevelNZ
			x.boundHits += st.BoundHits
			x.detReplays += st.DeterminismCheck
			if st.MaxDepth > x.maxDepth {
				x.maxDepth = st.MaxDepth
			}
			if st.CapHit {
				x.capHits++
			}
		}
		for k, v := range st.Extra {
			if strings.HasPrefix(k, "distinct_final_stores:") {
				distinctStores[k] = true
				continue
			}
			extra[st.Part+"."+k] += v
		}
		for _, s := range st.Samples {
			allSamples[st.Part] = append(allSamples[st.Part], s)
		}
		for _, v := range st.Violations {
			// deterministic representative per key: shortest history, then smallest message
			if cur, ok := best[v.Key]; !ok || len(v.Message) < len(cur.Message) || (len(v.Message) == len(cur.Message) && v.Message < cur.Message) {
				best[v.Key] = v
			}
		}
	})
	keys := make([]string, 0, len(best))
	for k := range best {
		keys = append(keys, k)
	}
	sort.Strings(keys)
	for _, k := range keys {
		rep.Add(best[k])
	}
	if err != nil {
		fmt.Fprintf(os.Stderr, "harness error: %v\n", err)
		return 2
	}
	if harnessErr != "" {
		fmt.Fprintf(os.Stderr, "harness error: %s\n", harnessErr)
		return 2
	}
	tb := boundsFor(tier)
	exhaustive := total.capHits == 0 && total.boundHits == 0
	perPart := map[string]any{}
	partNames := []string{}
	for p, a := range parts {
		partNames = append(partNames, p)
		perPart[p] = map[string]any{"units": a.units, "states": a.states, "transitions": a.transitions, "real_controller_executions": a.real,
			"fixpoints_reached": a.fixpoints, "nontrivial_fixpoints": a.nontrivial, "noop_writes": a.noop, "max_history_depth": a.maxDepth,
			"caps_hit": a.capHits, "fixpoint_bound_hits": a.boundHits}
	}
	sort.Strings(partNames)
	for _, p := range partNames { // deterministic choice: the two smallest samples of each part
		ss := allSamples[p]
		sort.Slice(ss, func(i, j int) bool { return mustJSON(ss[i]) < mustJSON(ss[j]) })
		samples = append(samples, ss[:min(2, len(ss))]...)
	}
	cov := map[string]any{
		"states":                        total.states,
		"transitions":                   total.transitions,
		"traces_validated_against_impl": total.transitions,
		"real_controller_executions":    total.real,
		"samples":                       samples,
		"per_part":                      perPart,
		"fixpoints_reached":             total.fixpoints,
		"nontrivial_fixpoints":          total.nontrivial,
		"noop_writes_observed":          total.noop,
		"histories_with_flip_then_reconcile": total.flipRec,
		"multi_level_trees_with_nonzero_sums": total.multiNZ,
		"operator_distinct_final_stores":      len(distinctStores),
		"determinism_replays":                 total.detReplays,
		"exhaustive":                          exhaustive,
		"caps_hit":                            total.capHits,
		"fixpoint_bound_hits":                 total.boundHits,
		"bounds": map[string]any{"partA_history_depth": tb.ADepth, "partA_max_pods_in_histories": tb.AMaxPods, "partA_grid_max_pods": 3,
			"partA_add_kinds": kindNames(tb.AKinds), "partB_depth_le3_queues": tb.BDepth3, "partB_depth_4_queues": tb.BDepth4,
			"partB_max_levels": 3, "partB_max_pod_groups": 2, "partB_status_palette": tb.BPalette, "partB_reparent_events_for_4_queues": !tb.BNoReparent4,
			"partB_both_fixpoint_orders_everywhere": tb.BBothOrders, "partC_switches": switchNames},
		"counters":    extra,
		"explanation": "every transition is executed on a controller-runtime fake store: reconcile/deploy transitions run the real PodGroupReconciler.Reconcile / QueueReconciler.Reconcile / DeployableOperands.Deploy, environment transitions write through the same store; every distinct state is additionally driven to a fixpoint by real reconciles and judged by reference sums. A reconcile from a store state byte-identical to one already executed in the same worker is served from a memo (real_controller_executions counts the executions actually performed; 1 in 97 is re-executed on a fresh store and compared = determinism_replays)",
	}
	if kh := rep.KnownHits(); len(kh) > 0 {
		cov["known_finding_hits"] = kh
	}
	cov["violation_keys"] = keys
	// engine.Reporter writes replay files for the first five keys only; write one for every key
	// (same naming scheme), so that each distinct finding can be re-executed.
	known := engine.LoadKnownFindings()
	rdir := filepath.Join(engine.OutDir(), "evidence", "replays")
	_ = os.MkdirAll(rdir, 0o755)
	for _, k := range keys {
		isKnown := false
		for _, kf := range known {
			if kf.Property == "C20" && kf.Status == "open" && strings.Contains(k, kf.Match) {
				isKnown = true
			}
		}
		h := sha256.Sum256([]byte(k))
		name := fmt.Sprintf("C20-%s.json", hex.EncodeToString(h[:6]))
		if isKnown {
			name = "C20-known-" + hex.EncodeToString(h[:6]) + ".json"
		}
		b, _ := json.MarshalIndent(best[k], "", " ")
		_ = os.WriteFile(filepath.Join(rdir, name), b, 0o644)
	}
	code := rep.Finish()
	ev := &engine.Evidence{PropertyID: "C20", Tier: tier, Seed: engine.SeedFromEnv(), Level: "model_checking", Coverage: cov,
		Assumptions: assumptions, WallS: time.Since(start).Seconds(), Violations: rep.NewCount()}
	if err := engine.WriteEvidence(ev); err != nil {
		fmt.Fprintf(os.Stderr, "harness error: %v\n", err)
		return 2
	}
	for _, p := range partNames {
		a := parts[p]
		fmt.Printf("C20 %s part %-7s units=%d states=%d transitions=%d real=%d fixpoints=%d nontrivial=%d depth=%d caps=%d\n",
			tier, p, a.units, a.states, a.transitions, a.real, a.fixpoints, a.nontrivial, a.maxDepth, a.capHits)
	}
	fmt.Printf("C20 %s: states=%d transitions=%d real_controller_executions=%d fixpoints=%d flip-then-reconcile=%d multi-level-nonzero=%d exhaustive=%v wall=%.1fs\n",
		tier, total.states, total.transitions, total.real, total.fixpoints, total.flipRec, total.multiNZ, exhaustive, time.Since(start).Seconds())
	for _, k := range keys {
		fmt.Printf("C20 finding key: %s\n", k)
	}
	// vacuity guards
	if total.flipRec == 0 || total.multiNZ == 0 || total.nontrivial == 0 || parts["A"] == nil || parts["B"] == nil || parts["C"] == nil ||
		parts["B"].multiNZ == 0 || parts["C"].nontrivial == 0 || parts["A-grid"] == nil || parts["A-grid"].nontrivial == 0 {
		fmt.Fprintf(os.Stderr, "harness error: vacuous run (flip-then-reconcile=%d multi-level-nonzero=%d nontrivial=%d)\n", total.flipRec, total.multiNZ, total.nontrivial)
		return 2
	}
	return code
}

func kindNames(idx []int) []string {
	var out []string
	for _, i := range idx {
		out = append(out, kinds[i].Name)
	}
	return out
}

// ---------------------------------------------------------------- replay

func replay(path string) int {
	b, err := os.ReadFile(path)
	if err != nil {
		fmt.Fprintln(os.Stderr, err)
		return 2
	}
	var v struct {
		Key    string     `json:"key"`
		Replay replayFile `json:"replay"`
	}
	if err := json.Unmarshal(b, &v); err != nil {
		fmt.Fprintln(os.Stderr, err)
		return 2
	}
	r := v.Replay
	var found []finding
	switch r.Part {
	case "A":
		s := r.InitA
		s.canon()
		flip := false
		for _, e := range r.EventsA {
			res, err := applyA(s, e)
			if err != nil {
				fmt.Fprintf(os.Stderr, "replay diverged at %s: %v\n", e, err)
				return 2
			}
			flip = flip || e.isFlip()
			s = res.Next
			fmt.Printf("  %-40s -> %s\n", e.String(), mustJSON(describeA(s)))
		}
		f, err := fixpointA(s, true)
		if err != nil {
			fmt.Fprintln(os.Stderr, err)
			return 2
		}
		fmt.Printf("  %-40s -> %s root=%s\n", "reconcile-to-fixpoint", mustJSON(describeA(f.Final)), qsCanon(&f.QueueRoot))
		found = oracleA(f, flip)
		if f.Converged && f.Err == "" {
			found = append(found, oracleQueuesA(f)...)
		}
	case "B":
		s := r.InitB
		class := "initial"
		for _, e := range r.EventsB {
			res, err := applyB(s, e)
			if err != nil {
				fmt.Fprintf(os.Stderr, "replay diverged at %s: %v\n", e, err)
				return 2
			}
			switch {
			case e.Op == "reparent":
				class = "re-parent"
			case e.Op != "reconcile" && class != "re-parent":
				class = "pod-group-change"
			}
			s = res.Next
			fmt.Printf("  %-40s -> %s\n", e.String(), mustJSON(describeB(s)))
		}
		orders := ordersB(s)
		if len(r.Order) > 0 {
			orders = [][]int{r.Order}
		}
		var finals []string
		for _, o := range orders {
			f, err := fixpointB(s, o, len(s.Queues)+3)
			if err != nil {
				fmt.Fprintln(os.Stderr, err)
				return 2
			}
			fmt.Printf("  reconcile-all-to-fixpoint(order %v) rounds=%d -> %s\n", o, f.Rounds, mustJSON(describeB(f.Final)))
			found = append(found, oracleB(f, class)...)
			finals = append(finals, f.Final.key())
		}
		if len(finals) == 2 && finals[0] != finals[1] {
			found = append(found, finding{"C20/queue-fixpoint-depends-on-reconcile-order", ""})
		}
	case "C":
		res, err := runCaseC(*r.CaseC)
		if err != nil {
			fmt.Fprintln(os.Stderr, err)
			return 2
		}
		found = res.Findings
	case "A-annot":
		saved := fractionStrings
		fractionStrings = []string{r.Fraction}
		u := exploreFractionStrings()
		fractionStrings = saved
		for _, vv := range u.Violations {
			found = append(found, finding{vv.Key, vv.Message})
		}
	default:
		fmt.Fprintf(os.Stderr, "unknown replay part %q\n", r.Part)
		return 2
	}
	for _, f := range found {
		fmt.Printf("  finding: %s: %s\n", f.Key, f.Msg)
		if f.Key == r.Expect {
			fmt.Printf("VIOLATION property=C20 replay=%s\n", path)
			return 1
		}
	}
	fmt.Println("replay did not reproduce " + r.Expect)
	return 0
}
