// Package checks links every property check into the check binary (each registers itself).
package checks

import (
	_ "verif/mc/families"
)
