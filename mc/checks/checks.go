// Package checks links every property check into the check binary (each registers itself).
package checks

import (
	_ "verif/mc/checks/c09"
	_ "verif/mc/checks/c11"
	_ "verif/mc/checks/c12binder"
	_ "verif/mc/checks/c17"
	_ "verif/mc/checks/c18"
	_ "verif/mc/checks/c19"
	_ "verif/mc/checks/c20"
	_ "verif/mc/families"
)
