// Package c19 checks property C19 "admission, scheduler and binder agree on GPU requests" by
// bounded-exhaustive enumeration of annotation strings (InputMC, DESIGN.md §4 / §5 C19) on the real
// admission webhook, scheduler PodInfo constructor, binder validator/helpers and podgroup-controller
// extractors, against an exact big.Rat reference reading (ref.go).
package c19

import (
	"encoding/json"
	"fmt"
	"os"
	"runtime"
	"sort"
	"strconv"
	"strings"
	"time"

	"verif/mc/engine"
	"verif/mc/registry"
)

func init() { registry.Register("C19", run, replay) }

// ---------------------------------------------------------------- the grid

const alphabet = "01259.-+expNaInf_ "

// boundary literals (beyond the enumerated length, or outside the alphabet)
var literals = []string{
	"9223372036854775807", "9223372036854775808", "18446744073709551615", "18446744073709551616",
	"92233720368547758", "92233720368547759", "184467440737095517", "9007199254740993", "100000", "2147483648", "4294967296",
	"1e309", "1e-400", "1e-320", "4.9e-324", "2e-324", "1e-9", "1e-10", "0.0000000001", "1e-7",
	"0x1p-2", "0X1P-2", "0x1p-20", "0x.8p0", "0x1p0", "0x1.8p-1", "0x10", "0x1", "0x_1p-2", "0x1p-1074", "0x1p-1080",
	"0.004", "0.005", "0.0049999", "0.0050001", "0.0149", "0.015", "0.994", "0.995", "0.999", "0.9999999999",
	"0.99999999999999999999", "1.0", "1.00", "1.0000000001", "0.25", "0.333", "0.50", "00.5", "0.5e0", "5e-1", "5E-1", "50e-2",
	"01", "001", "+1", "+0.5", "+.5", "-0", "-0.0", "-0.5", "-1", "+0", " 1", "1 ", " 0.5", "0.5 ", "0.5\t", "0.5\n", "\t1", "\n1",
	"NaN", "nan", "NAN", "+NaN", "-NaN", "Inf", "+Inf", "-Inf", "inf", "infinity", "Infinity", "+Infinity", "-infinity",
	"1_0", "0_5", "0.5_0", "0_0.5", "1_000", "0b1", "0o7", "0B1", "0O7",
	"1e0", "1e1", "1E1", "1.5", "1.0e0", "10.0", "500m", "1k", "1Ki", "2Gi", "1024Mi", "0.5f", "0,5", "1/2", "50%", "１", "1\x00",
}

type gridCtx struct {
	Varied  annKind
	Other1  *string // see mkCase
	Other2  *string
	Limit   string
	Named   string
	Sharing bool
}

func sp(s string) *string { return &s }

var (
	repFraction = "0.5"
	repMemory   = "1024"
	repDevices  = "2"
	limits      = []string{"none", "container", "init"}
	nameds      = []string{"absent", "regular", "init", "missing"}
)

func (g gridCtx) mkCase(v string) podCase {
	pc := podCase{Limit: g.Limit, Named: g.Named, Sharing: g.Sharing}
	switch g.Varied {
	case kFraction:
		pc.Fraction, pc.Memory, pc.Devices = &v, g.Other1, g.Other2
	case kMemory:
		pc.Memory, pc.Fraction, pc.Devices = &v, g.Other1, g.Other2
	case kDevices:
		pc.Devices, pc.Fraction, pc.Memory = &v, g.Other1, g.Other2
	}
	return pc
}

func (g gridCtx) othersTag() string {
	t := func(p *string) string {
		if p == nil {
			return "-"
		}
		return *p
	}
	return t(g.Other1) + "," + t(g.Other2)
}

// contexts: for each varied annotation, the presence combinations of the other two (small representative valid
// values) x limit placement x named fraction container x sharing enabled/disabled.
func contexts() []gridCtx {
	var out []gridCtx
	for _, k := range []annKind{kFraction, kMemory, kDevices} {
		var o1, o2 []*string
		switch k {
		case kFraction:
			o1, o2 = []*string{nil, &repMemory}, []*string{nil, &repDevices}
		case kMemory:
			o1, o2 = []*string{nil, &repFraction}, []*string{nil, &repDevices}
		case kDevices:
			o1, o2 = []*string{&repFraction, nil}, []*string{nil, &repMemory}
		}
		for _, a := range o1 {
			for _, b := range o2 {
				for _, l := range limits {
					for _, n := range nameds {
						for _, s := range []bool{true, false} {
							out = append(out, gridCtx{Varied: k, Other1: a, Other2: b, Limit: l, Named: n, Sharing: s})
						}
					}
				}
			}
		}
	}
	return out
}

// enumerated strings: index -> string, all lengths 0..maxLen over the alphabet, in length-lexicographic order.
func numEnumerated(maxLen int) int {
	n, p := 0, 1
	for l := 0; l <= maxLen; l++ {
		n += p
		p *= len(alphabet)
	}
	return n
}

func enumString(i int, buf []byte) string {
	p := 1
	l := 0
	for i >= p {
		i -= p
		p *= len(alphabet)
		l++
	}
	buf = buf[:l]
	for j := l - 1; j >= 0; j-- {
		buf[j] = alphabet[i%len(alphabet)]
		i /= len(alphabet)
	}
	return string(buf)
}

func inAlphabetUpTo(s string, maxLen int) bool {
	if len(s) > maxLen {
		return false
	}
	for i := 0; i < len(s); i++ {
		ok := false
		for j := 0; j < len(alphabet); j++ {
			if s[i] == alphabet[j] {
				ok = true
			}
		}
		if !ok {
			return false
		}
	}
	return true
}

func extraLiterals(maxLen int) []string {
	var out []string
	seen := map[string]bool{}
	for _, s := range literals {
		if !inAlphabetUpTo(s, maxLen) && !seen[s] {
			seen[s] = true
			out = append(out, s)
		}
	}
	return out
}

// ---------------------------------------------------------------- worker

type findingAgg struct {
	Count   int     `json:"count"`
	Order   string  `json:"order"` // smallest example wins (deterministic across shards)
	Example podCase `json:"example"`
	Msg     string  `json:"msg"`
}

type shardResult struct {
	Shard       int                    `json:"shard"`
	Evaluations int                    `json:"evaluations"`
	Counters    map[string]int         `json:"counters"`
	Pairs       map[string]int         `json:"pairs"`
	Findings    map[string]*findingAgg `json:"findings"`
	Skipped     int                    `json:"skipped_values"`
	// Reps: per class of admission-accepted sharing request, the smallest example (input of the end-to-end stage)
	Reps map[string]*findingAgg `json:"reps"`
}

type worker struct {
	c   *components
	res *shardResult
}

func (w *worker) one(pc podCase, inputClass func() string, order string) {
	o := w.c.evaluate(pc)
	w.res.Evaluations++
	cnt := w.res.Counters
	if o.AdmAccept {
		cnt["admission_accepted"]++
		if pc.Fraction != nil || pc.Memory != nil {
			cnt["admission_accepted_sharing_requests"]++
		}
	}
	if o.MutErr == "" {
		cnt["mutations_succeeded"]++
		if len(o.EnvContainers) > 0 {
			cnt["mutations_injecting_env"]++
		}
	}
	if o.SShared {
		cnt["scheduler_sees_sharing_request"]++
		if o.AdmAccept {
			cnt["scheduler_sees_sharing_request_and_admission_accepted"]++
		} else {
			cnt["scheduler_sees_sharing_request_and_admission_rejected"]++
		}
	}
	if o.SRequireGPU && !o.SShared {
		cnt["scheduler_sees_whole_gpu_request"]++
	}
	if o.BinderVal == "" && o.BinderPanic == "" {
		cnt["binder_validator_accepted"]++
	}
	if o.PgcReqErr == "" && o.PgcReqPanic == "" {
		cnt["podgroupcontroller_requested_ok"]++
	}
	if o.PgcRecvErr == "" && o.PgcRecvPanic == "" {
		cnt["podgroupcontroller_received_ok"]++
	}
	if o.AdmPanic != "" {
		cnt["panics_recovered_admission"]++
	}
	if o.SchedPanic != "" {
		cnt["panics_recovered_scheduler"]++
	}
	if o.BinderPanic != "" {
		cnt["panics_recovered_binder"]++
	}
	if o.PgcReqPanic != "" {
		cnt["panics_recovered_podgroupcontroller_requested"]++
	}
	if o.PgcRecvPanic != "" {
		cnt["panics_recovered_podgroupcontroller_received"]++
	}
	if o.AdmAccept && pc.Sharing && (pc.Fraction != nil || pc.Memory != nil) {
		k := repClass(pc)
		if a := w.res.Reps[k]; a == nil {
			w.res.Reps[k] = &findingAgg{Order: order, Example: pc, Count: 1}
		} else {
			a.Count++
			if order < a.Order {
				a.Order, a.Example = order, pc
			}
		}
	}
	if !o.trivial() {
		cnt["nontrivial_evaluations"]++
		w.res.Pairs[inputClass()+" => "+o.vector()]++
	}
	for _, f := range judge(pc, o) {
		cnt["violating_evaluations"]++
		a := w.res.Findings[f.Key]
		if a == nil {
			a = &findingAgg{Order: order, Example: pc, Msg: f.Msg}
			w.res.Findings[f.Key] = a
		} else if order < a.Order {
			a.Order, a.Example, a.Msg = order, pc, f.Msg
		}
		a.Count++
	}
}

// repClass: the class of an accepted sharing request for the end-to-end stage.
func repClass(pc podCase) string {
	t := func(k annKind, p *string) string {
		if p == nil {
			return "-"
		}
		n, cls := class(k, *p)
		if k == kDevices && n.Valued {
			if v, ok := ratInt64(n.Rat); ok && v == 1 {
				cls += "(=1)"
			} else if ok && v <= e2eNodeGPUs {
				cls += "(fits)"
			}
		}
		return cls
	}
	return fmt.Sprintf("fraction=%s memory=%s devices=%s named=%s", t(kFraction, pc.Fraction), t(kMemory, pc.Memory), t(kDevices, pc.Devices), pc.Named)
}

func orderKey(v string, ctx int) string { return fmt.Sprintf("%03d|%q|%04d", len(v), v, ctx) }

func presence(pc podCase) string {
	b := []byte("---")
	if pc.Fraction != nil {
		b[0] = 'F'
	}
	if pc.Memory != nil {
		b[1] = 'M'
	}
	if pc.Devices != nil {
		b[2] = 'D'
	}
	return string(b)
}

func ctxClass(pc podCase) string {
	return fmt.Sprintf("present=%s limit=%s named=%s sharing=%v", presence(pc), pc.Limit, pc.Named, pc.Sharing)
}

// core contexts: default container, no whole-GPU limit (all presence combinations, sharing on and off)
func (g gridCtx) core() bool { return g.Limit == "none" && g.Named == "absent" }

func runShard(idx, n int, b bounds, budget *engine.Budget) *shardResult {
	w := &worker{c: newComponents(), res: &shardResult{Shard: idx, Counters: map[string]int{}, Pairs: map[string]int{}, Findings: map[string]*findingAgg{}, Reps: map[string]*findingAgg{}}}
	ctxs := contexts()
	// which: 'a' = all contexts, 'c' = core contexts only, 'r' = the rest (non-core) only
	doValue := func(v string, which byte) {
		for ci, g := range ctxs {
			if (which == 'c' && !g.core()) || (which == 'r' && g.core()) {
				continue
			}
			pc := g.mkCase(v)
			w.one(pc, func() string {
				_, cls := class(g.Varied, v)
				return fmt.Sprintf("vary=%s class=%s others=%s %s", g.Varied.name(), cls, g.othersTag(), ctxClass(pc))
			}, orderKey(v, ci))
		}
	}
	total := numEnumerated(b.CoreLen)
	fullBelow := numEnumerated(b.FullLen) // indices below this are strings of length <= FullLen
	buf := make([]byte, 0, 16)
	for i, iter := idx, 0; i < total; i, iter = i+n, iter+1 {
		if iter&0x3f == 0 && budget.Exceeded() {
			w.res.Skipped += (total - i + n - 1) / n
			break
		}
		which := byte('c')
		if i < fullBelow {
			which = 'a'
		}
		doValue(enumString(i, buf), which)
	}
	// boundary literals get all contexts (those already enumerated above with the core contexts: only the rest)
	lits := extraLiterals(b.FullLen)
	for i, v := range lits {
		if i%n == idx {
			which := byte('a')
			if inAlphabetUpTo(v, b.CoreLen) {
				which = 'r'
			}
			doValue(v, which)
		}
	}
	// block B: the varied annotation absent - every presence combination of representative values
	if idx == 0 {
		ci := 0
		for _, f := range []*string{nil, &repFraction} {
			for _, m := range []*string{nil, &repMemory} {
				for _, d := range []*string{nil, &repDevices} {
					for _, l := range limits {
						for _, nm := range nameds {
							for _, s := range []bool{true, false} {
								for _, preset := range []bool{false, true} {
									pc := podCase{Fraction: f, Memory: m, Devices: d, Limit: l, Named: nm, Sharing: s, Preset: preset}
									w.one(pc, func() string { return "representative-values " + ctxClass(pc) }, orderKey("", 1000+ci))
									ci++
								}
							}
						}
					}
				}
			}
		}
	}
	// block C: pairs of boundary literals (portion x device count), default container, no limit, sharing enabled
	all := literals
	j := 0
	for _, a := range all {
		for _, d := range all {
			j++
			if j%n != idx {
				continue
			}
			pc := podCase{Fraction: sp(a), Devices: sp(d), Limit: "none", Named: "absent", Sharing: true}
			w.one(pc, func() string {
				_, ca := class(kFraction, a)
				_, cd := class(kDevices, d)
				return fmt.Sprintf("pair fraction-class=%s devices-class=%s", ca, cd)
			}, orderKey(a+"\x00"+d, 2000))
			pc2 := podCase{Memory: sp(a), Devices: sp(d), Limit: "none", Named: "absent", Sharing: true}
			w.one(pc2, func() string {
				_, cm := class(kMemory, a)
				_, cd := class(kDevices, d)
				return fmt.Sprintf("pair memory-class=%s devices-class=%s", cm, cd)
			}, orderKey(a+"\x00"+d, 2001))
		}
	}
	return w.res
}

// ---------------------------------------------------------------- parent

func envInt(name string, def int) int {
	if s := os.Getenv(name); s != "" {
		if v, err := strconv.Atoi(s); err == nil {
			return v
		}
	}
	return def
}

// bounds of a tier: strings up to FullLen are crossed with all contexts, strings up to CoreLen with the core contexts.
type bounds struct{ CoreLen, FullLen int }

func boundsFor(tier string) bounds {
	b := bounds{CoreLen: 4, FullLen: 3}
	if tier == "thorough" {
		b = bounds{CoreLen: 5, FullLen: 4}
	}
	b.CoreLen = envInt("VERIF_C19_MAXLEN", b.CoreLen)
	b.FullLen = min(envInt("VERIF_C19_FULLLEN", b.FullLen), b.CoreLen)
	return b
}

var showcase = []podCase{
	{Fraction: sp("0.5"), Limit: "none", Named: "absent", Sharing: true},
	{Fraction: sp("0.5"), Devices: sp("2"), Limit: "none", Named: "init", Sharing: true},
	{Memory: sp("1024"), Limit: "none", Named: "regular", Sharing: true},
	{Fraction: sp("0.5"), Limit: "none", Named: "absent", Sharing: false},
	{Fraction: sp("0.5"), Limit: "container", Named: "absent", Sharing: true},
	{Fraction: sp("0.5"), Limit: "none", Named: "missing", Sharing: true},
	{Fraction: sp("1.0"), Limit: "none", Named: "absent", Sharing: true},
	{Fraction: sp("0x1p-2"), Limit: "none", Named: "absent", Sharing: true},
	{Fraction: sp("NaN"), Limit: "none", Named: "absent", Sharing: true},
	{Fraction: sp("0.004"), Limit: "none", Named: "absent", Sharing: true},
	{Memory: sp("9223372036854775808"), Limit: "none", Named: "absent", Sharing: true},
	{Fraction: sp("0.5"), Devices: sp("9223372036854775808"), Limit: "none", Named: "absent", Sharing: true},
	{Limit: "init", Named: "absent", Sharing: false},
}

func run(tier string) int {
	bnd := boundsFor(tier)
	maxLen := bnd.CoreLen
	deadline := 150 * time.Second
	if tier == "thorough" {
		deadline = 21 * time.Minute
	}
	if s := envInt("VERIF_C19_BUDGET_S", 0); s > 0 { // for testing the deadline path
		deadline = time.Duration(s) * time.Second
	}
	if idx, n, isWorker := engine.WorkerShard(); isWorker {
		res := runShard(idx, n, bnd, engine.NewBudget(deadline))
		engine.Emit(res)
		engine.FlushEmit()
		return 0
	}

	start := time.Now()
	workers := envInt("VERIF_WORKERS", max(1, min(runtime.NumCPU(), 16)))
	rep := engine.NewReporter("C19")
	total := &shardResult{Counters: map[string]int{}, Pairs: map[string]int{}, Findings: map[string]*findingAgg{}, Reps: map[string]*findingAgg{}}
	shards := 0
	err := engine.RunWorkers(workers, []string{"GOGC=400"}, 4*1024*1024, func(_ int, line []byte) {
		var r shardResult
		if err := json.Unmarshal(line, &r); err != nil || r.Counters == nil {
			return
		}
		shards++
		total.Evaluations += r.Evaluations
		total.Skipped += r.Skipped
		for k, v := range r.Counters {
			total.Counters[k] += v
		}
		for k, v := range r.Pairs {
			total.Pairs[k] += v
		}
		for k, f := range r.Reps {
			a := total.Reps[k]
			if a == nil {
				c := *f
				total.Reps[k] = &c
				continue
			}
			a.Count += f.Count
			if f.Order < a.Order {
				a.Order, a.Example = f.Order, f.Example
			}
		}
		for k, f := range r.Findings {
			a := total.Findings[k]
			if a == nil {
				c := *f
				total.Findings[k] = &c
				continue
			}
			a.Count += f.Count
			if f.Order < a.Order {
				a.Order, a.Example, a.Msg = f.Order, f.Example, f.Msg
			}
		}
	})
	if err != nil {
		fmt.Fprintf(os.Stderr, "harness error: %v\n", err)
		return 2
	}
	if shards != workers {
		fmt.Fprintf(os.Stderr, "harness error: %d of %d shards reported\n", shards, workers)
		return 2
	}

	comp := newComponents()
	// ---- end-to-end stage: one real scheduler cycle + real binder PreBind per class of accepted sharing request
	repKeys := make([]string, 0, len(total.Reps))
	for k := range total.Reps {
		repKeys = append(repKeys, k)
	}
	sort.Strings(repKeys)
	e2eSamples := []any{}
	e2eVectors := map[string]bool{}
	for i, k := range repKeys {
		r := total.Reps[k]
		e := comp.endToEnd(r.Example)
		if e.CycleErr != "" {
			fmt.Fprintf(os.Stderr, "harness error: end-to-end cycle failed for %s: %s\n", r.Example, e.CycleErr)
			return 2
		}
		total.Counters["e2e_cycles"]++
		if e.Bound {
			total.Counters["e2e_bindrequests_created"]++
		}
		if e.Bound && e.RecvType == "Fraction" {
			total.Counters["e2e_bindrequests_shared"]++
		}
		if e.CapData != nil && e.EvarExists {
			total.Counters["e2e_configmaps_materialised"]++
		}
		e2eVectors[e.vector()] = true
		fs := judgeE2E(r.Example, e)
		for _, f := range fs {
			a := total.Findings[f.Key]
			if a == nil {
				a = &findingAgg{Order: r.Order, Example: r.Example, Msg: f.Msg}
				total.Findings[f.Key] = a
			} else if r.Order < a.Order {
				a.Order, a.Example, a.Msg = r.Order, r.Example, f.Msg
			}
			a.Count++
		}
		if i%max(1, len(repKeys)/6) == 0 || (len(fs) > 0 && len(e2eSamples) < 8) {
			keys := []string{}
			for _, f := range fs {
				keys = append(keys, f.Key)
			}
			e2eSamples = append(e2eSamples, map[string]any{"class": k, "pod": r.Example, "accepted_pods_in_class": r.Count, "end_to_end": e.vector(), "oracle": keys})
		}
	}
	// confirm every candidate 5x from its replay input before reporting it (determinism discipline)
	keys := make([]string, 0, len(total.Findings))
	for k := range total.Findings {
		keys = append(keys, k)
	}
	sort.Strings(keys)
	violationSummary := []map[string]any{}
	for _, k := range keys {
		f := total.Findings[k]
		for i := 0; i < 5; i++ {
			found := false
			var fs []finding
			if strings.HasPrefix(k, "C19/e2e-") {
				fs = judgeE2E(f.Example, comp.endToEnd(f.Example))
			} else {
				fs = judge(f.Example, comp.evaluate(f.Example))
			}
			for _, g := range fs {
				if g.Key == k {
					found = true
				}
			}
			if !found {
				fmt.Fprintf(os.Stderr, "harness error: candidate %q not reproducible from its replay input %s\n", k, f.Example)
				return 2
			}
		}
		rep.Add(engine.Violation{Property: "C19", Key: k, Message: fmt.Sprintf("%s  [%s; %d evaluations]", k, f.Msg, f.Count),
			Replay: map[string]any{"pod": f.Example, "key": k}})
		violationSummary = append(violationSummary, map[string]any{"key": k, "evaluations": f.Count, "smallest_input": f.Example, "message": f.Msg})
	}

	samples := []any{}
	for _, pc := range showcase {
		o := comp.evaluate(pc)
		fs := []string{}
		for _, g := range judge(pc, o) {
			fs = append(fs, g.Key)
		}
		samples = append(samples, map[string]any{"pod": pc, "outcome": o.vector(), "oracle": fs})
	}
	pairKeys := make([]string, 0, len(total.Pairs))
	for k := range total.Pairs {
		pairKeys = append(pairKeys, k)
	}
	sort.Strings(pairKeys)
	outcomeVectors := map[string]bool{}
	for _, k := range pairKeys {
		for i := 0; i+4 <= len(k); i++ {
			if k[i:i+4] == " => " {
				outcomeVectors[k[i+4:]] = true
				break
			}
		}
	}
	for i := 0; i < len(pairKeys) && i < 3; i++ {
		k := pairKeys[i*len(pairKeys)/3]
		samples = append(samples, map[string]any{"class_pair": k, "evaluations": total.Pairs[k]})
	}

	nEnum := numEnumerated(maxLen)
	nLit := len(extraLiterals(bnd.FullLen))
	nCtx, nCore := len(contexts()), 0
	for _, g := range contexts() {
		if g.core() {
			nCore++
		}
	}
	exhaustive := total.Skipped == 0
	cov := map[string]any{
		"evaluations":         total.Evaluations,
		"distinct_nontrivial": len(total.Pairs),
		"rule": "one evaluation = one pod run through the real admission mutator+validator (Mutate twice), scheduler NewTaskInfo, binder validator/helpers and podgroup-controller extractors. " +
			"distinct_nontrivial = number of distinct (input class, outcome vector) pairs among evaluations that are NOT trivially 'rejected by admission and invisible to the scheduler'; " +
			"input class = (varied annotation, <syntax>/<range> class of its value under the exact reference, values of the other annotations, limit placement, named container, sharing flag); " +
			"outcome vector = per-component verdicts (which admission guard rejected, idempotence, scheduler request type / portion / count / gpus sign, binder validator and helper errors, podgroup-controller ok/err/panic)",
		"samples":                    samples,
		"exhaustive":                 exhaustive,
		"max_string_length":          maxLen,
		"alphabet":                   alphabet,
		"enumerated_strings":         nEnum,
		"boundary_literals":          nLit,
		"contexts_per_string_full":   nCtx,
		"contexts_per_string_core":   nCore,
		"full_context_string_length": bnd.FullLen,
		"distinct_outcome_vectors":   len(outcomeVectors),
		"values_skipped_by_deadline": total.Skipped,
		"grid": fmt.Sprintf("block A: every string of length<=%d over the %d-char alphabet %q (%d strings) as the value of each of gpu-fraction / gpu-memory / gpu-fraction-num-devices in turn, "+
			"x presence combinations of the other two annotations (fraction %q, memory %q, devices %q or absent; 4 per varied annotation) x admission gpuSharingEnabled {true,false}, default fraction container, no whole-GPU limit = %d core contexts per string; "+
			"every string of length<=%d (%d strings) and every boundary literal (%d not already among them, list in checks/c19/c19.go) additionally x nvidia.com/gpu limit {none, container main, init container init0} (=%d, requests=limits) "+
			"x gpu-fraction-container-name {absent, sidecar (regular #1), init0 (init #0), nope (missing)} = %d contexts per string; "+
			"block B: varied annotation absent: all 8 presence combinations of the representative values x 24 (limit x named x sharing) contexts; "+
			"block C: all ordered pairs of the %d boundary literals as (gpu-fraction, devices) and (gpu-memory, devices), default container, no limit, sharing enabled. "+
			"Pod: containers main+sidecar, init container init0, schedulerName kai-scheduler; admission plugins gpusharing + runtimeenforcement(nvidia) behind the real podhooks mutator/validator.",
			maxLen, len(alphabet), alphabet, nEnum, repFraction, repMemory, repDevices, nCore, bnd.FullLen, numEnumerated(bnd.FullLen), nLit, wholeGPUs, nCtx, len(literals)),
		"end_to_end_stage": map[string]any{
			"what":             "for the smallest member of every class of admission-accepted sharing request (class = reference classes of the three annotation values x named container): real mutating webhook -> ONE real scheduler cycle (schedrun.RunCycle) on an empty node with 4 GPUs x 16384 MiB -> the BindRequest the scheduler created -> real binder gpusharing plugin PreBind on a controller-runtime fake client -> the config maps the admitted container reads",
			"classes":          len(repKeys),
			"distinct_results": len(e2eVectors),
			"samples":          e2eSamples,
		},
		"component_counts":   total.Counters,
		"violation_keys":     violationSummary,
		"known_finding_hits": rep.KnownHits(),
	}
	code := rep.Finish()
	ev := &engine.Evidence{PropertyID: "C19", Tier: tier, Seed: engine.SeedFromEnv(), Level: "exploration", Coverage: cov,
		Assumptions: []string{
			"the reference reading (checks/c19/ref.go: exact big.Rat valuation of sign/decimal/exponent/hex-float notation; NaN, Inf, whitespace, underscores, base prefixes and anything else denote no number) is the specification of what an annotation string means",
			"documented domains: gpu-fraction strictly inside (0,1); gpu-memory and gpu-fraction-num-devices positive integers",
			"the scheduler accounts GPUs in 1/100 units: |GPUs - count*fraction| <= 0.005*count is not reported, accounting an accepted positive request as 0 GPUs is",
			"admission verdict = mutating webhook succeeded and validating webhook accepted the mutated pod (API-server order); pods are built with requests=limits for nvidia.com/gpu as API defaulting does",
			"the node the pod is bound to carries nvidia.com/gpu.memory=16384 (only used by the podgroup-controller received path for gpu-memory pods, via a stub client.Client whose Get returns that node)",
		},
		WallS: time.Since(start).Seconds(), Violations: rep.NewCount()}
	if err := engine.WriteEvidence(ev); err != nil {
		fmt.Fprintf(os.Stderr, "harness error: %v\n", err)
		return 2
	}
	fmt.Printf("C19 %s: strings=%d(+%d literals) contexts=%d evaluations=%d admission_accepted=%d scheduler_sharing=%d nontrivial=%d distinct_pairs=%d outcome_vectors=%d violation_keys=%d exhaustive=%v wall=%.1fs\n",
		tier, nEnum, nLit, nCtx, total.Evaluations, total.Counters["admission_accepted"], total.Counters["scheduler_sees_sharing_request"],
		total.Counters["nontrivial_evaluations"], len(total.Pairs), len(outcomeVectors), len(keys), exhaustive, time.Since(start).Seconds())
	for _, k := range keys {
		fmt.Printf("  finding: %s (x%d) e.g. %s\n", k, total.Findings[k].Count, total.Findings[k].Example)
	}
	// vacuity guards
	c := total.Counters
	if c["admission_accepted_sharing_requests"] < 1000 || c["scheduler_sees_sharing_request_and_admission_accepted"] < 1000 ||
		c["scheduler_sees_sharing_request_and_admission_rejected"] == 0 || c["scheduler_sees_whole_gpu_request"] == 0 ||
		c["mutations_injecting_env"] < 1000 || c["podgroupcontroller_received_ok"] == 0 || len(total.Pairs) < 20 ||
		c["e2e_bindrequests_shared"] < 10 || c["e2e_configmaps_materialised"] < 10 {
		fmt.Fprintf(os.Stderr, "harness error: vacuous exploration: %v\n", c)
		return 2
	}
	return code
}

// ---------------------------------------------------------------- replay

func replay(path string) int {
	b, err := os.ReadFile(path)
	if err != nil {
		fmt.Fprintln(os.Stderr, err)
		return 2
	}
	var v struct {
		Key    string `json:"key"`
		Replay struct {
			Pod podCase `json:"pod"`
		} `json:"replay"`
	}
	if err := json.Unmarshal(b, &v); err != nil {
		fmt.Fprintln(os.Stderr, err)
		return 2
	}
	comp := newComponents()
	o := comp.evaluate(v.Replay.Pod)
	fmt.Printf("pod: %s\noutcome: %s\n", v.Replay.Pod, o.vector())
	fmt.Printf("observed: %+v\n", *o)
	found := false
	fs := judge(v.Replay.Pod, o)
	if o.AdmAccept && (v.Replay.Pod.Fraction != nil || v.Replay.Pod.Memory != nil) {
		e := comp.endToEnd(v.Replay.Pod)
		fmt.Printf("end-to-end: %s\n", e.vector())
		fs = append(fs, judgeE2E(v.Replay.Pod, e)...)
	}
	for _, f := range fs {
		fmt.Printf("  oracle: %s: %s\n", f.Key, f.Msg)
		if f.Key == v.Key {
			found = true
		}
	}
	if found {
		fmt.Printf("VIOLATION property=C19 replay=%s\n", path)
		return 1
	}
	fmt.Println("replay: violation not reproduced")
	return 0
}
