package c19

// Exact reference valuation of the three GPU-request annotation strings. Deliberately boring:
// a hand-written recogniser for decimal / exponent / hex-float notation producing an exact
// big.Rat, independent of strconv.ParseFloat / ParseInt / ParseUint and of resource.Quantity
// (the four parsers whose agreement C19 is about).

import (
	"math/big"
	"strings"
)

type annKind int

const (
	kFraction annKind = iota // gpu-fraction: documented domain is a number in (0,1)
	kMemory                  // gpu-memory: positive integer (MiB)
	kDevices                 // gpu-fraction-num-devices: positive integer
)

func (k annKind) name() string {
	return [...]string{"gpu-fraction", "gpu-memory", "gpu-fraction-num-devices"}[k]
}

// refNum is the reference reading of a string.
type refNum struct {
	Valued bool     // the string denotes a real number (lenient: optional sign, decimal, exponent, hex-float)
	Rat    *big.Rat // exact value when Valued
	Syntax string   // plain | leading-plus | negative-sign | exponent | bare-dot | leading-zero | hexfloat |
	//                 (not valued:) empty | whitespace | underscore | NaN | Inf | base-prefix | garbage
}

func isDigit(c byte) bool { return c >= '0' && c <= '9' }
func hexVal(c byte) int {
	switch {
	case c >= '0' && c <= '9':
		return int(c - '0')
	case c >= 'a' && c <= 'f':
		return int(c-'a') + 10
	case c >= 'A' && c <= 'F':
		return int(c-'A') + 10
	}
	return -1
}

func stripUnderscores(s string) (string, bool) {
	body := s
	if body[0] == '+' || body[0] == '-' {
		body = body[1:]
	}
	i, hex, prev := 0, false, byte('^')
	if len(body) >= 2 && body[0] == '0' && strings.ContainsRune("xXbBoO", rune(body[1])) {
		i, prev, hex = 2, '0', body[1] == 'x' || body[1] == 'X'
	}
	for ; i < len(body); i++ {
		c := body[i]
		switch {
		case isDigit(c) || (hex && hexVal(c) >= 0):
			prev = '0'
		case c == '_':
			if prev != '0' {
				return "", false
			}
			prev = '_'
		default:
			if prev == '_' {
				return "", false
			}
			prev = '!'
		}
	}
	if prev == '_' {
		return "", false
	}
	return strings.ReplaceAll(s, "_", ""), true
}

const maxRefExponent = 100000 // |exponent| above this is outside every grid of this check

// parseRef values s exactly (memoised per process; the memo is dropped when it grows large).
var refMemo = map[string]refNum{}

func parseRef(s string) refNum {
	if n, ok := refMemo[s]; ok {
		return n
	}
	if len(refMemo) > 1<<16 {
		refMemo = map[string]refNum{}
	}
	n := parseRefUncached(s)
	refMemo[s] = n
	return n
}

// parseRefUncached values s exactly. It never rounds.
func parseRefUncached(s string) refNum {
	if s == "" {
		return refNum{Syntax: "empty"}
	}
	if strings.ContainsAny(s, " \t\n\r\v\f") {
		return refNum{Syntax: "whitespace"}
	}
	if strings.Contains(s, "_") {
		// Go number syntax: an underscore may only separate two digits or follow a base prefix; it does not
		// change the value. Anything else containing '_' denotes no number.
		stripped, ok := stripUnderscores(s)
		if !ok {
			return refNum{Syntax: "underscore"}
		}
		n := parseRefUncached(stripped)
		if n.Valued {
			n.Syntax = "underscore"
		}
		return n
	}
	body := s
	if body[0] == '+' || body[0] == '-' {
		body = body[1:]
	}
	switch strings.ToLower(body) {
	case "nan":
		return refNum{Syntax: "NaN"}
	case "inf", "infinity":
		return refNum{Syntax: "Inf"}
	}
	neg := s[0] == '-'
	syntax := "plain"
	if s[0] == '+' {
		syntax = "leading-plus"
	} else if neg {
		syntax = "negative-sign"
	}
	setSyntax := func(v string) {
		if syntax == "plain" {
			syntax = v
		}
	}
	if len(body) >= 2 && body[0] == '0' && (body[1] == 'b' || body[1] == 'B' || body[1] == 'o' || body[1] == 'O') {
		return refNum{Syntax: "base-prefix"}
	}
	hex := len(body) >= 2 && body[0] == '0' && (body[1] == 'x' || body[1] == 'X')
	i := 0
	base := int64(10)
	if hex {
		i = 2
		base = 16
		syntax = "hexfloat"
	}
	mant := new(big.Int)
	bigBase := big.NewInt(base)
	intDigits, fracDigits := 0, 0
	digit := func(c byte) int {
		if hex {
			return hexVal(c)
		}
		if isDigit(c) {
			return int(c - '0')
		}
		return -1
	}
	firstInt := -1
	for ; i < len(body) && digit(body[i]) >= 0; i++ {
		if firstInt < 0 {
			firstInt = digit(body[i])
		}
		mant.Mul(mant, bigBase).Add(mant, big.NewInt(int64(digit(body[i]))))
		intDigits++
	}
	sawDot := false
	if i < len(body) && body[i] == '.' {
		sawDot = true
		i++
		for ; i < len(body) && digit(body[i]) >= 0; i++ {
			mant.Mul(mant, bigBase).Add(mant, big.NewInt(int64(digit(body[i]))))
			fracDigits++
		}
	}
	if intDigits+fracDigits == 0 {
		return refNum{Syntax: "garbage"}
	}
	if !hex {
		if sawDot && (intDigits == 0 || fracDigits == 0) {
			setSyntax("bare-dot")
		}
		if intDigits > 1 && firstInt == 0 {
			setSyntax("leading-zero")
		}
	}
	exp := int64(0)
	sawExp := false
	if i < len(body) {
		c := body[i]
		if (!hex && (c == 'e' || c == 'E')) || (hex && (c == 'p' || c == 'P')) {
			i++
			eneg := false
			if i < len(body) && (body[i] == '+' || body[i] == '-') {
				eneg = body[i] == '-'
				i++
			}
			nd := 0
			for ; i < len(body) && isDigit(body[i]); i++ {
				if exp <= maxRefExponent {
					exp = exp*10 + int64(body[i]-'0')
				}
				nd++
			}
			if nd == 0 {
				return refNum{Syntax: "garbage"}
			}
			if eneg {
				exp = -exp
			}
			sawExp = true
		}
	}
	if i != len(body) {
		return refNum{Syntax: "garbage"}
	}
	if hex && !sawExp {
		// Go's hex-float syntax requires the binary exponent; a bare "0x10" is an integer literal,
		// which none of the base-10 readers may accept: it is not a decimal quantity.
		return refNum{Syntax: "base-prefix"}
	}
	if sawExp && !hex {
		setSyntax("exponent")
	}
	if exp > maxRefExponent || exp < -maxRefExponent {
		return refNum{Syntax: "garbage"}
	}
	r := new(big.Rat).SetInt(mant)
	// scale by base^-fracDigits
	if fracDigits > 0 {
		den := new(big.Int).Exp(bigBase, big.NewInt(int64(fracDigits)), nil)
		r.Quo(r, new(big.Rat).SetInt(den))
	}
	if sawExp && exp != 0 {
		eb := int64(10)
		if hex {
			eb = 2
		}
		a := exp
		if a < 0 {
			a = -a
		}
		p := new(big.Rat).SetInt(new(big.Int).Exp(big.NewInt(eb), big.NewInt(a), nil))
		if exp > 0 {
			r.Mul(r, p)
		} else {
			r.Quo(r, p)
		}
	}
	if neg {
		r.Neg(r)
	}
	return refNum{Valued: true, Rat: r, Syntax: syntax}
}

var (
	ratZero     = new(big.Rat)
	ratOne      = big.NewRat(1, 1)
	ratHalfCent = big.NewRat(5, 1000)
	rat2p63     = new(big.Rat).SetInt(new(big.Int).Lsh(big.NewInt(1), 63))
	rat2p64     = new(big.Rat).SetInt(new(big.Int).Lsh(big.NewInt(1), 64))
	ratSmallInt = big.NewRat(1<<31-1, 1)
	// smallest positive float64 is 2^-1074; anything <= 2^-1075 rounds to zero
	ratF64Under = new(big.Rat).SetFrac(big.NewInt(1), new(big.Int).Lsh(big.NewInt(1), 1075))
)

// rangeTag buckets the exact value into the few ranges in which the components behave uniformly.
func rangeTag(k annKind, n refNum) string {
	if !n.Valued {
		return "none"
	}
	r := n.Rat
	if r.Sign() < 0 {
		return "negative"
	}
	if r.Sign() == 0 {
		return "zero"
	}
	if k == kFraction {
		switch {
		case r.Cmp(ratF64Under) <= 0:
			return "below-float64"
		case r.Cmp(ratHalfCent) < 0:
			return "lt-0.005"
		case r.Cmp(ratOne) < 0:
			return "in-range"
		case r.Cmp(ratOne) == 0:
			return "eq-1"
		}
		return "gt-1"
	}
	if !r.IsInt() {
		return "non-integer"
	}
	switch {
	case r.Cmp(ratSmallInt) <= 0:
		return "in-range"
	case r.Cmp(rat2p63) < 0:
		return "large-lt-2^63"
	case r.Cmp(rat2p64) < 0:
		return "ge-2^63"
	}
	return "ge-2^64"
}

// inDomain: the documented domain of the annotation under the reference (finite, positive,
// fraction strictly inside (0,1); memory / device count a positive integer).
func inDomain(k annKind, n refNum) bool {
	if !n.Valued || n.Rat.Sign() <= 0 {
		return false
	}
	if k == kFraction {
		return n.Rat.Cmp(ratOne) < 0
	}
	return n.Rat.IsInt()
}

// class is the stable input class of a value: "<syntax>/<range>" (or just the syntax when the
// string has no value).
func class(k annKind, s string) (n refNum, cls string) {
	n = parseRef(s)
	if !n.Valued {
		return n, n.Syntax
	}
	return n, n.Syntax + "/" + rangeTag(k, n)
}

// causeClass picks the part of the class that names the CAUSE of a violation, so that keys stay few:
// numeric disagreements are caused by the value range, parser disagreements by the notation.
func causeClass(k annKind, s string, preferSyntax bool) string {
	n := parseRef(s)
	if !n.Valued {
		return n.Syntax
	}
	rt := rangeTag(k, n)
	switch {
	case preferSyntax && n.Syntax != "plain":
		return n.Syntax
	case rt != "in-range":
		return rt
	case n.Syntax != "plain":
		return n.Syntax
	}
	return "plain-in-range"
}
