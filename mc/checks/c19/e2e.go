package c19

// End-to-end stage ("the binder ... materialises identically"): for one representative of every class of
// admission-accepted sharing request, the admitted (mutated) pod goes through ONE REAL scheduler cycle
// (schedrun.RunCycle: cache + OpenSession + actions + CloseSession on fake clientsets) on an empty node
// with ample capacity, and the BindRequest the scheduler wrote is handed to the REAL binder gpusharing
// plugin (PreBind on a controller-runtime fake client). Observed: the BindRequest (received type, count,
// portion string, GPU groups) and the config maps the container was told to read by admission.

import (
	"context"
	"fmt"
	"math/big"
	"strings"
	"time"

	v1 "k8s.io/api/core/v1"
	metav1 "k8s.io/apimachinery/pkg/apis/meta/v1"
	"k8s.io/apimachinery/pkg/types"
	clientgoscheme "k8s.io/client-go/kubernetes/scheme"
	"sigs.k8s.io/controller-runtime/pkg/client"
	crfake "sigs.k8s.io/controller-runtime/pkg/client/fake"

	schedv1alpha2 "github.com/NVIDIA/KAI-scheduler/pkg/apis/scheduling/v1alpha2"
	bindercommon "github.com/NVIDIA/KAI-scheduler/pkg/binder/common"
	bindergpusharing "github.com/NVIDIA/KAI-scheduler/pkg/binder/plugins/gpusharing"
	"github.com/NVIDIA/KAI-scheduler/pkg/binder/plugins/state"
	"github.com/NVIDIA/KAI-scheduler/pkg/common/constants"

	"verif/mc/schedrun"
	"verif/mc/world"
)

const e2eNodeGPUs = 4

type e2eOutcome struct {
	Skipped     string // why the stage does not apply
	CycleErr    string // harness-level failure of the cycle
	SchedPanic  string
	Hung        bool
	Decisions   []string
	Bound       bool
	RecvType    string
	Count       int
	Portion     string
	Groups      int
	PreBindErr  string
	BinderPanic string
	CapData     map[string]string // data of the capabilities config map admission pointed the container at (nil = absent)
	EvarExists  bool
}

func (e *e2eOutcome) vector() string {
	switch {
	case e.Skipped != "":
		return "e2e=skipped(" + e.Skipped + ")"
	case e.Hung:
		return "e2e=HUNG"
	case e.SchedPanic != "":
		return "e2e=sched-PANIC"
	case e.CycleErr != "":
		return "e2e=cycle-error"
	case !e.Bound:
		return fmt.Sprintf("e2e=not-bound %v", e.Decisions)
	}
	cm := "absent"
	if e.CapData != nil {
		cm = fmt.Sprintf("{GPU_PORTION=%s NVIDIA_VISIBLE_DEVICES=%s}", e.CapData[bindercommon.GPUPortion], e.CapData[constants.NvidiaVisibleDevices])
	}
	return fmt.Sprintf("e2e=bound recv=%q count=%d portion=%q groups=%d prebind=%s configmap=%s evar=%v", e.RecvType, e.Count, e.Portion, e.Groups,
		okOr(e.PreBindErr+e.BinderPanic, "ERR"), cm, e.EvarExists)
}

// endToEnd runs the stage for an admission-accepted pod case.
func (c *components) endToEnd(pc podCase) *e2eOutcome {
	e := &e2eOutcome{}
	pod := pc.build()
	pod.Namespace = world.NS
	ctx := c.ctxFor(world.NS)
	if err := c.mutator[b2i(pc.Sharing)].Default(ctx, pod); err != nil {
		e.Skipped = "mutation failed"
		return e
	}
	pod.TypeMeta = metav1.TypeMeta{APIVersion: "v1", Kind: "Pod"}
	pod.UID = types.UID(pod.Name)
	pod.Annotations[world.PodGroupAnno] = "pg"
	pod.CreationTimestamp = metav1.NewTime(world.Epoch.Add(2 * time.Second))

	b := world.NewBuilder()
	b.Node(world.NodeOpt{Name: "n1", CPU: "8", Mem: "16Gi", Pods: 110, GPUs: e2eNodeGPUs, GPUMemMiB: nodeGPUMemoryMiB})
	b.GQueue("dept", "", -1, -1, 1).GQueue("qa", "dept", -1, -1, 1)
	w := b.Done()
	w.PodGroups = append(w.PodGroups, world.MkPodGroup(world.PGOpt{Name: "pg", Queue: "qa", MinMember: 1, PriorityClass: "p50", Rank: 1}))
	w.Pods = append(w.Pods, pod)

	type cycleRes struct {
		res *schedrun.Result
		err error
	}
	ch := make(chan cycleRes, 1)
	go func() {
		r, err := schedrun.RunCycle(w, schedrun.Config{}, nil)
		ch <- cycleRes{r, err}
	}()
	var cr cycleRes
	select {
	case cr = <-ch:
	case <-time.After(10 * time.Minute): // generous: machine load must never look like a hang
		e.Hung = true
		return e
	}
	if cr.err != nil {
		e.CycleErr = cr.err.Error()
		return e
	}
	if cr.res.OpenErr != nil {
		e.CycleErr = "OpenSession: " + cr.res.OpenErr.Error()
		return e
	}
	e.SchedPanic = cr.res.Panic
	for _, d := range cr.res.Decisions {
		e.Decisions = append(e.Decisions, d.String())
	}
	br := cr.res.After.BindRequestFor(pod.Name)
	if br == nil {
		return e
	}
	e.Bound = true
	e.RecvType = br.Spec.ReceivedResourceType
	if br.Spec.ReceivedGPU != nil {
		e.Count, e.Portion = br.Spec.ReceivedGPU.Count, br.Spec.ReceivedGPU.Portion
	}
	e.Groups = len(br.Spec.SelectedGPUGroups)

	// ---- the real binder plugin materialises the allocation
	cl := crfake.NewClientBuilder().WithScheme(clientgoscheme.Scheme).WithObjects(pod.DeepCopy()).Build()
	ids := []string{}
	for i := 0; i < e.Groups; i++ {
		ids = append(ids, fmt.Sprint(i))
	}
	guard(&e.BinderPanic, func() {
		plugin := bindergpusharing.New(cl, false)
		e.PreBindErr = errStr(plugin.PreBind(context.Background(), pod.DeepCopy(), w.Node("n1"), br, &state.BindingState{ReservedGPUIds: ids}))
	})
	o := &outcome{}
	o.observeMutation(pod)
	if o.EnvCapName != "" {
		cm := &v1.ConfigMap{}
		if err := cl.Get(context.Background(), client.ObjectKey{Namespace: pod.Namespace, Name: o.EnvCapName}, cm); err == nil {
			e.CapData = cm.Data
			if e.CapData == nil {
				e.CapData = map[string]string{}
			}
		}
		if err := cl.Get(context.Background(), client.ObjectKey{Namespace: pod.Namespace, Name: o.EnvCapName + "-evar"}, cm); err == nil {
			e.EvarExists = true
		}
	}
	return e
}

// judgeE2E: an accepted, well-formed sharing request that fits an empty node is placed, the BindRequest
// carries exactly that request, and the container finds the config maps admission wired it to.
func judgeE2E(pc podCase, e *e2eOutcome) []finding {
	var out []finding
	fr, me, de := parseOpt(kFraction, pc.Fraction), parseOpt(kMemory, pc.Memory), parseOpt(kDevices, pc.Devices)
	portionAnn := fr
	if !fr.present {
		portionAnn = me
	}
	// attribute to the annotation with the unusual value range (device count first), else to the unusual notation
	unusualRange := func(a annVal) bool { return a.present && a.ref.Valued && rangeTag(a.kind, a.ref) != "in-range" }
	beyondInt64 := func(a annVal) bool { return unusualRange(a) && strings.HasPrefix(rangeTag(a.kind, a.ref), "ge-2^") }
	who := portionAnn.tag(false)
	switch {
	case beyondInt64(portionAnn):
	case unusualRange(de):
		who = de.tag(false)
	case unusualRange(portionAnn):
	case de.present && causeClass(kDevices, de.s, false) != "plain-in-range" && causeClass(portionAnn.kind, portionAnn.s, false) == "plain-in-range":
		who = de.tag(false)
	}
	add := func(key, format string, args ...any) {
		out = append(out, finding{Key: "C19/" + key + " " + who, Msg: fmt.Sprintf(format, args...) + " | " + e.vector() + " | pod: " + pc.String()})
	}
	if e.Skipped != "" {
		return nil
	}
	// (6) applies to every accepted input, well-formed or not
	if e.Hung {
		add("e2e-scheduler-hangs", "the real scheduler cycle did not finish within 60s on an admission-accepted pod")
		return out
	}
	if e.SchedPanic != "" {
		add("e2e-scheduler-panics", "the real scheduler cycle panicked on an admission-accepted pod: %s", short(e.SchedPanic, 300))
	}
	if e.BinderPanic != "" {
		add("e2e-binder-panics", "the real binder plugin panicked on an admission-accepted pod: %s", short(e.BinderPanic, 300))
	}
	for _, a := range []annVal{fr, me, de} {
		if a.present && !inDomain(a.kind, a.ref) {
			return out // malformed but accepted: reported by oracle (1); nothing more to expect downstream
		}
	}
	n := int64(1)
	if de.present {
		v, ok := ratInt64(de.ref.Rat)
		if !ok {
			v = 1 << 62 // does not fit any node
		}
		n = v
	}
	var wantPortion *big.Rat
	if fr.present {
		wantPortion = fr.ref.Rat
	} else {
		wantPortion = new(big.Rat).Quo(me.ref.Rat, big.NewRat(nodeGPUMemoryMiB, 1))
	}
	// a fraction is materialised with 2 decimals (half a cent of rounding); a memory request is converted to a
	// portion of the node's GPU memory rounded UP to the next cent
	portionTol := centTol
	if !fr.present {
		portionTol = big.NewRat(1, 100)
	}
	fits := n <= e2eNodeGPUs && wantPortion.Cmp(ratOne) <= 0
	if !fits {
		if e.Bound {
			devs := "1"
			if de.present {
				devs = de.s
			}
			add("e2e-places-request-that-cannot-fit", "a request of %s devices x %s of a GPU does not fit a node with %d GPUs of %d MiB but was placed", devs, wantPortion.FloatString(4), e2eNodeGPUs, nodeGPUMemoryMiB)
		}
		return out
	}
	if e.CycleErr != "" || e.SchedPanic != "" {
		return out
	}
	if !e.Bound {
		add("e2e-accepted-request-not-placed", "an accepted request of %d x %s GPU that fits an empty %d-GPU node is not placed", n, wantPortion.FloatString(6), e2eNodeGPUs)
		return out
	}
	if e.RecvType != "Fraction" {
		add("e2e-bindrequest-not-shared", "BindRequest receivedResourceType=%q for an accepted sharing request", e.RecvType)
	} else {
		if int64(e.Count) != n || int64(e.Groups) != n {
			add("e2e-bindrequest-alters-accepted field=device-count", "BindRequest count=%d gpuGroups=%d, reference %d", e.Count, e.Groups, n)
		}
		got := parseRefUncached(e.Portion)
		switch {
		case !got.Valued || got.Rat.Sign() <= 0:
			add("e2e-bindrequest-zero-portion", "BindRequest receivedGPU.portion=%q for an accepted request of %s GPU", e.Portion, wantPortion.FloatString(6))
		case !near(got.Rat, wantPortion, portionTol, relTol):
			add("e2e-bindrequest-alters-accepted field=portion", "BindRequest receivedGPU.portion=%q, reference %s", e.Portion, wantPortion.FloatString(6))
		}
	}
	if e.PreBindErr != "" {
		add("e2e-binder-fails-accepted", "binder gpusharing PreBind: %s", short(e.PreBindErr, 200))
	}
	if e.BinderPanic == "" && e.PreBindErr == "" {
		switch {
		case e.CapData == nil || !e.EvarExists:
			add("e2e-configmaps-not-materialised", "the container reads config maps (env valueFrom + required envFrom) that the binder never created: the pod cannot start")
		case e.CapData[bindercommon.GPUPortion] != e.Portion || e.CapData[bindercommon.NumOfGpusEnvVarBC] != e.Portion ||
			strings.Count(e.CapData[constants.NvidiaVisibleDevices], ",")+1 != int(n) || e.CapData[constants.NvidiaVisibleDevices] == "":
			add("e2e-configmap-values-differ", "config map data %v, BindRequest portion %q, %d devices", e.CapData, e.Portion, n)
		}
	}
	return out
}

func parseOpt(k annKind, p *string) annVal {
	if p == nil {
		return annVal{kind: k}
	}
	return annVal{kind: k, present: true, s: *p, ref: parseRef(*p)}
}

var _ = schedv1alpha2.BindRequest{}
