package c19

// The oracle: relates the observed outcome of the real components to the exact reference reading.

import (
	"fmt"
	"math/big"
	"strings"

	"k8s.io/apimachinery/pkg/api/resource"
)

type finding struct {
	Key string
	Msg string
}

var (
	relTol  = big.NewRat(1, 1_000_000_000) // 1e-9
	centTol = big.NewRat(5, 1000)          // the scheduler accounts GPUs in 1/100: half a unit of rounding per device
)

func ratOfFloat(f float64) *big.Rat {
	r := new(big.Rat)
	if r.SetFloat64(f) == nil { // NaN / Inf
		return nil
	}
	return r
}

func ratOfQuantity(q *resource.Quantity) *big.Rat {
	if q == nil {
		return nil
	}
	r, ok := new(big.Rat).SetString(q.AsDec().String())
	if !ok {
		return nil
	}
	return r
}

func absDiff(a, b *big.Rat) *big.Rat {
	d := new(big.Rat).Sub(a, b)
	return d.Abs(d)
}

// near: |got-want| <= abs + rel*|want|
func near(got, want, abs, rel *big.Rat) bool {
	if got == nil || want == nil {
		return false
	}
	tol := new(big.Rat).Mul(rel, new(big.Rat).Abs(want))
	tol.Add(tol, abs)
	return absDiff(got, want).Cmp(tol) <= 0
}

func ratInt64(r *big.Rat) (int64, bool) {
	if r == nil || !r.IsInt() || !r.Num().IsInt64() {
		return 0, false
	}
	return r.Num().Int64(), true
}

type annVal struct {
	kind    annKind
	present bool
	s       string
	ref     refNum
}

func (a annVal) tag(preferSyntax bool) string {
	return fmt.Sprintf("annotation=%s class=%s", a.kind.name(), causeClass(a.kind, a.s, preferSyntax))
}

func judge(pc podCase, o *outcome) []finding {
	var out []finding
	add := func(key, format string, args ...any) {
		out = append(out, finding{Key: "C19/" + key, Msg: fmt.Sprintf(format, args...) + " | pod: " + pc.String()})
	}
	mk := func(k annKind, p *string) annVal {
		if p == nil {
			return annVal{kind: k}
		}
		return annVal{kind: k, present: true, s: *p, ref: parseRef(*p)}
	}
	fr, me, de := mk(kFraction, pc.Fraction), mk(kMemory, pc.Memory), mk(kDevices, pc.Devices)
	anns := []annVal{fr, me, de}
	sharingRequested := fr.present || me.present
	// the annotation a whole-pod disagreement is attributed to: a malformed one if any, else the first one whose
	// notation (preferSyntax) or value range is unusual, else the first present
	culprit := func(preferSyntax bool) string {
		for _, a := range anns {
			if a.present && !inDomain(a.kind, a.ref) {
				return a.tag(preferSyntax)
			}
		}
		for _, a := range anns {
			if a.present && causeClass(a.kind, a.s, preferSyntax) != "plain-in-range" {
				return a.tag(preferSyntax)
			}
		}
		for _, a := range anns {
			if a.present {
				return a.tag(preferSyntax)
			}
		}
		return "annotation=none class=none"
	}
	unusualRange := func(a annVal) bool { return a.present && a.ref.Valued && rangeTag(a.kind, a.ref) != "in-range" }
	// (6a) admission must not panic on ANY input (it is the component that sees arbitrary strings)
	if o.AdmPanic != "" {
		add("admission-panics "+culprit(true), "admission webhook panicked: %s", short(o.AdmPanic, 200))
	}
	// (5) idempotent mutation; mutation must not change validity
	if o.MutErr == "" && o.AdmPanic == "" {
		if !o.Idempotent {
			add(fmt.Sprintf("mutate-not-idempotent named=%s", pc.Named), "Mutate(Mutate(p)) != Mutate(p) (second error: %q)", o.Mut2Err)
		}
		// the verdict on an object does not depend on HOW it arrives: an update that only adds the
		// GPU-sharing annotations to an accepted pod is validated like the creation of that pod
		if o.ValUpdRan && (o.ValUpd == "") != (o.ValMut == "") {
			add("update-validation-differs-from-create "+culprit(true), "ValidateCreate(p)=%q but ValidateUpdate(p without GPU annotations -> p)=%q", o.ValMut, o.ValUpd)
		}
		if (o.ValOrig == "") != (o.ValMut == "") {
			add(fmt.Sprintf("mutation-changes-validity named=%s", pc.Named), "Validate(p)=%q but Validate(Mutate(p))=%q", o.ValOrig, o.ValMut)
		}
	}

	malformedAccepted := false
	if o.AdmAccept {
		// (1) accepted => every present value is a finite positive quantity of the documented domain
		for _, a := range anns {
			if !a.present || inDomain(a.kind, a.ref) {
				continue
			}
			malformedAccepted = true
			switch {
			case a.ref.Syntax == "NaN" || a.ref.Syntax == "Inf":
				add("admission-accepts-nonfinite "+a.tag(true), "admission accepted %s=%q which is not a finite number", a.kind.name(), a.s)
			case !a.ref.Valued:
				add("admission-accepts-malformed "+a.tag(true), "admission accepted %s=%q which does not denote a number", a.kind.name(), a.s)
			default:
				add("admission-accepts-out-of-domain "+a.tag(false), "admission accepted %s=%q = %s, outside the documented domain", a.kind.name(), a.s, a.ref.Rat.FloatString(6))
			}
		}
		if de.present && !sharingRequested {
			add("admission-accepts-devices-without-portion", "admission accepted a device count without a fraction or memory request")
		}
		if fr.present && me.present {
			add("admission-accepts-conflicting-requests kinds=fraction+memory", "admission accepted both gpu-fraction and gpu-memory")
		}
		if sharingRequested && pc.Limit != "none" {
			add("admission-accepts-conflicting-requests kinds=sharing+whole-gpu limit="+pc.Limit, "admission accepted a GPU-sharing request together with a whole-GPU limit")
		}
		// (4) sharing disabled => anything the scheduler treats as GPU sharing is rejected
		if !pc.Sharing && o.SShared {
			add("admission-accepts-sharing-while-disabled request="+o.SType, "GPU sharing is disabled but admission accepted a pod the scheduler treats as %s", o.SType)
		}
		// (4) malformed => rejected: implied by (1); reported separately only if (1) did not already name it
		if o.SShared && !malformedAccepted {
			for _, a := range anns {
				if a.present && !inDomain(a.kind, a.ref) {
					add("scheduler-shares-malformed-accepted "+a.tag(true), "scheduler treats the pod as %s although %s=%q is malformed", o.SType, a.kind.name(), a.s)
				}
			}
		}
	}

	// (3) binder validator verdict == admission verdict (modulo the admission-only guards:
	// sharing disabled, fraction container not found)
	if o.BinderPanic != "" && o.AdmAccept {
		add("binder-panics "+culprit(true), "binder code panicked on an admission-accepted pod: %s", short(o.BinderPanic, 200))
	}
	if o.BinderPanic == "" {
		if o.AdmAccept && o.BinderVal != "" {
			add("binder-rejects-accepted "+culprit(false), "binder validator rejects (%s) what admission accepted", o.BinderVal)
		}
		if !o.AdmAccept && o.AdmPanic == "" && o.MutErr == "" && pc.Sharing && o.BinderVal == "" {
			add("binder-accepts-rejected "+culprit(false), "binder validator accepts what admission rejected (%s)", o.ValMut)
		}
	}

	if !o.AdmAccept || malformedAccepted {
		// (2)/(6) only constrain how accepted, well-formed requests are interpreted; what happens downstream
		// of an accepted malformed value is already reported by (1). Panics are still reported below.
		if o.AdmAccept {
			out = append(out, panicsOnAccepted(pc, o, culprit)...)
		}
		return out
	}
	out = append(out, panicsOnAccepted(pc, o, culprit)...)

	// ---- reference request of this accepted, well-formed pod
	var wantCount *big.Rat
	if sharingRequested {
		wantCount = big.NewRat(1, 1)
		if de.present {
			wantCount = de.ref.Rat
		}
	}
	wantType := "Regular"
	switch {
	case fr.present:
		wantType = "Fraction"
	case me.present:
		wantType = "GpuMemory"
	}

	// (2) scheduler interprets exactly that request
	if o.SchedPanic == "" {
		portionAnn := fr
		if me.present {
			portionAnn = me
		}
		switch {
		case o.SType == wantType:
		case sharingRequested && o.SType == "Regular":
			add("scheduler-drops-accepted "+portionAnn.tag(false), "scheduler sees request type %s (gpus=%v, needs-gpu=%v) for an accepted %s request", o.SType, o.SGPUs, o.SRequireGPU, wantType)
		default:
			add(fmt.Sprintf("scheduler-retypes-accepted want=%s got=%s %s", wantType, o.SType, culprit(false)), "scheduler request type %s, reference %s", o.SType, wantType)
		}
		if o.SType == wantType && sharingRequested {
			if n, ok := ratInt64(wantCount); !ok || n != o.SCount {
				countAnn := de
				if !de.present {
					countAnn = portionAnn
				}
				add("scheduler-alters-accepted field=device-count "+countAnn.tag(false), "scheduler device count %d, reference %s", o.SCount, wantCount.FloatString(0))
			} else {
				switch wantType {
				case "Fraction":
					got := ratOfFloat(o.SPortion)
					if !near(got, fr.ref.Rat, relTol, ratZero) {
						add("scheduler-alters-accepted field=portion "+fr.tag(false), "scheduler portion %v, reference %s", o.SPortion, fr.ref.Rat.FloatString(12))
					} else {
						wantG := new(big.Rat).Mul(wantCount, fr.ref.Rat)
						tol := new(big.Rat).Mul(wantCount, centTol)
						gotG := ratOfFloat(o.SGPUs)
						zero := gotG == nil || gotG.Sign() <= 0 || !o.SRequireGPU
						switch {
						case zero && rangeTag(kFraction, fr.ref) == "lt-0.005":
							add("scheduler-rounds-accepted-to-zero "+fr.tag(false), "accepted request of %s x %s GPU is accounted as %v GPUs (needs-gpu=%v) by the scheduler", wantCount.FloatString(0), fr.s, o.SGPUs, o.SRequireGPU)
						case zero || !near(gotG, wantG, tol, relTol):
							cause := fr
							if unusualRange(de) || !unusualRange(fr) && de.present {
								cause = de
							}
							add("scheduler-alters-accepted field=gpus "+cause.tag(false), "scheduler accounts %v GPUs (needs-gpu=%v), reference %s (+-%s)", o.SGPUs, o.SRequireGPU, wantG.FloatString(6), tol.FloatString(3))
						}
					}
				case "GpuMemory":
					if m, ok := ratInt64(me.ref.Rat); !ok || m != o.SMem {
						add("scheduler-alters-accepted field=gpu-memory "+me.tag(false), "scheduler gpu memory %d, reference %s", o.SMem, me.ref.Rat.FloatString(0))
					}
					if !o.SRequireGPU {
						add("scheduler-rounds-accepted-to-zero "+me.tag(false), "accepted gpu-memory request does not require a GPU in the scheduler")
					}
				}
			}
		}
		if !sharingRequested {
			want := 0.0
			if pc.Limit != "none" {
				want = wholeGPUs
			}
			if o.SGPUs != want || o.SShared || o.SRequireGPU != (want > 0) || (want > 0 && o.SCount != int64(want)) {
				add("scheduler-alters-accepted field=whole-gpus limit="+pc.Limit, "scheduler sees gpus=%v count=%d shared=%v needs-gpu=%v, reference %v whole GPUs", o.SGPUs, o.SCount, o.SShared, o.SRequireGPU, want)
			}
		}
	}

	// (3) binder reads and materialises the same request
	if o.BinderPanic == "" && sharingRequested {
		if fr.present {
			if o.HFracErr != "" {
				add("helper-rejects-accepted helper=resources.GetGPUFraction "+fr.tag(true), "%s", o.HFracErr)
			} else if !near(ratOfFloat(o.HFrac), fr.ref.Rat, relTol, ratZero) {
				add("helper-alters-accepted helper=resources.GetGPUFraction "+fr.tag(false), "got %v, reference %s", o.HFrac, fr.ref.Rat.FloatString(12))
			}
		}
		if me.present {
			if m, ok := ratInt64(me.ref.Rat); o.HMemErr != "" {
				add("helper-rejects-accepted helper=resources.GetGPUMemory "+me.tag(false), "%s", o.HMemErr)
			} else if !ok || m != o.HMem {
				add("helper-alters-accepted helper=resources.GetGPUMemory "+me.tag(false), "got %d, reference %s", o.HMem, me.ref.Rat.FloatString(0))
			}
		}
		countAnn := de
		if !de.present {
			countAnn = fr
			if me.present {
				countAnn = me
			}
		}
		n, ok := ratInt64(wantCount)
		if o.HDevErr != "" {
			add("helper-rejects-accepted helper=resources.GetNumGPUFractionDevices "+countAnn.tag(false), "%s", o.HDevErr)
		} else if !ok || n != o.HDev {
			add("helper-alters-accepted helper=resources.GetNumGPUFractionDevices "+countAnn.tag(false), "got %d, reference %s", o.HDev, wantCount.FloatString(0))
		}
		if o.HMultiErr != "" {
			add("helper-rejects-accepted helper=resources.IsMultiFraction "+countAnn.tag(false), "%s", o.HMultiErr)
		} else if o.HMulti != (wantCount.Cmp(ratOne) > 0) {
			add("helper-alters-accepted helper=resources.IsMultiFraction "+countAnn.tag(false), "got %v, reference count %s", o.HMulti, wantCount.FloatString(0))
		}
		// per-container selection: admission injects into exactly the selected container, the binder resolves the
		// same container and the same config-map names
		wantC := map[string]string{"absent": "c:0", "regular": "c:1", "init": "i:0"}[pc.Named]
		sel := fmt.Sprintf("named=%s", pc.Named)
		if len(o.EnvContainers) != 1 || o.EnvContainers[0] != wantC || !o.VolumeOK {
			add("admission-mutates-wrong-container "+sel, "GPU-sharing env injected into %v (volume ok=%v), reference %s", o.EnvContainers, o.VolumeOK, wantC)
		}
		switch {
		case o.RefErr != "":
			add("binder-rejects-accepted stage=fraction-container "+sel, "%s", o.RefErr)
		case o.RefContainer != wantC:
			add("binder-selects-different-container "+sel, "binder resolves %s, reference %s", o.RefContainer, wantC)
		case o.CapNameErr != "":
			add("binder-configmap-name-mismatch "+sel, "%s", o.CapNameErr)
		case o.CapName != o.EnvCapName:
			add("binder-configmap-name-mismatch "+sel, "binder will write config map %q, admission made the container read %q", o.CapName, o.EnvCapName)
		}
	}
	if !sharingRequested && (len(o.EnvContainers) != 0) {
		add("admission-mutates-non-sharing-pod", "GPU-sharing env injected into %v of a pod without a sharing request", o.EnvContainers)
	}

	// podgroup controller: the fourth reader
	if sharingRequested {
		portionAnn := fr
		if !fr.present {
			portionAnn = me
		}
		if o.PgcReqPanic == "" {
			if o.PgcReqErr != "" {
				// attribute by the stage that failed inside ExtractGPUSharingRequestedResources
				who := culprit(true)
				switch {
				case strings.Contains(o.PgcReqErr, "failed to parse gpu fraction count"):
					who = de.tag(true)
				case strings.Contains(o.PgcReqErr, "failed to extract int value"):
					who = de.tag(false)
				case strings.Contains(o.PgcReqErr, "failed to parse gpu fraction annotation"):
					who = fr.tag(true)
				case strings.Contains(o.PgcReqErr, "failed to parse gpu memory"):
					who = me.tag(true)
				case strings.Contains(o.PgcReqErr, "failed to multiple"):
					who = portionAnn.tag(false)
					if unusualRange(de) || !unusualRange(portionAnn) && de.present {
						who = de.tag(false)
					}
				}
				add("podgroupcontroller-rejects-accepted stage=requested "+who, "%s", short(o.PgcReqErr, 200))
			} else {
				nanoPerDev := new(big.Rat).Mul(wantCount, relTol)
				if fr.present {
					want := new(big.Rat).Mul(wantCount, fr.ref.Rat)
					if !near(ratOfQuantity(o.PgcReqGPU), want, nanoPerDev, ratZero) {
						add("podgroupcontroller-alters-accepted stage=requested field=gpu "+culprit(false), "requested %v, reference %s", o.PgcReqGPU, want.FloatString(12))
					}
				}
				if me.present {
					want := new(big.Rat).Mul(wantCount, me.ref.Rat)
					if !near(ratOfQuantity(o.PgcReqMem), want, ratZero, ratZero) {
						add("podgroupcontroller-alters-accepted stage=requested field=gpu-memory "+culprit(false), "requested %v, reference %s", o.PgcReqMem, want.FloatString(0))
					}
				}
			}
		}
		if o.PgcRecvPanic == "" {
			if o.PgcRecvErr != "" {
				add("podgroupcontroller-rejects-accepted stage=received "+portionAnn.tag(false), "%s", short(o.PgcRecvErr, 200))
			} else {
				// the allocated share of the pod is devices x per-device portion, exactly as the
				// "requested" stage above and as the scheduler charges it (the reference used to be
				// the per-device portion, mirroring the controller before fix 05cc6da; corrected)
				want := fr.ref.Rat
				if !fr.present {
					want = new(big.Rat).Quo(me.ref.Rat, big.NewRat(nodeGPUMemoryMiB, 1))
				}
				want = new(big.Rat).Mul(wantCount, want)
				if !near(ratOfQuantity(o.PgcRecvGPU), want, new(big.Rat).Mul(wantCount, relTol), relTol) {
					add("podgroupcontroller-alters-accepted stage=received "+portionAnn.tag(false), "received %v, reference %s", o.PgcRecvGPU, want.FloatString(12))
				}
			}
		}
	}
	return out
}

// (6) no function panics on an admission-accepted input
func panicsOnAccepted(pc podCase, o *outcome, culprit func(bool) string) []finding {
	var out []finding
	add := func(key, msg string) {
		out = append(out, finding{Key: "C19/" + key + " " + culprit(true), Msg: "panic on an admission-accepted pod: " + short(msg, 200) + " | pod: " + pc.String()})
	}
	if o.SchedPanic != "" {
		add("scheduler-panics", o.SchedPanic)
	}
	if o.PgcReqPanic != "" {
		add("podgroupcontroller-panics stage=requested", o.PgcReqPanic)
	}
	if o.PgcRecvPanic != "" {
		add("podgroupcontroller-panics stage=received", o.PgcRecvPanic)
	}
	return out
}
