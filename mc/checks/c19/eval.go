package c19

// Runs the REAL readers of the GPU-request annotations on one pod:
//   admission  : podhooks.NewPodMutator(...).Default + podhooks.NewPodValidator(...).ValidateCreate with the
//                gpusharing (+ runtimeenforcement) admission plugins registered exactly as cmd/admission does
//   scheduler  : pod_info.NewTaskInfo(pod, nil, resource_info.NewResourceVectorMap())
//   binder     : gpurequesthandler.ValidateGpuRequests, common/resources.{GetGPUFraction,GetGPUMemory,
//                GetNumGPUFractionDevices,IsMultiFraction}, binder/common.GetFractionContainerRef,
//                gpusharingconfigmap.Extract{Capabilities,DirectEnvVars}ConfigMapName
//   podgroup-controller : resources.ExtractGPUSharingRequestedResources / ExtractGPUSharingReceivedResources

import (
	"context"
	"fmt"
	"math"
	"reflect"
	"strings"

	"github.com/go-logr/logr"
	admissionv1 "k8s.io/api/admission/v1"
	v1 "k8s.io/api/core/v1"
	"k8s.io/apimachinery/pkg/api/equality"
	"k8s.io/apimachinery/pkg/api/resource"
	metav1 "k8s.io/apimachinery/pkg/apis/meta/v1"
	utilrand "k8s.io/apimachinery/pkg/util/rand"
	"sigs.k8s.io/controller-runtime/pkg/client"
	logf "sigs.k8s.io/controller-runtime/pkg/log"
	"sigs.k8s.io/controller-runtime/pkg/webhook/admission"

	admissionplugins "github.com/NVIDIA/KAI-scheduler/pkg/admission/plugins"
	admgpusharing "github.com/NVIDIA/KAI-scheduler/pkg/admission/webhook/v1alpha2/gpusharing"
	"github.com/NVIDIA/KAI-scheduler/pkg/admission/webhook/v1alpha2/podhooks"
	"github.com/NVIDIA/KAI-scheduler/pkg/admission/webhook/v1alpha2/runtimeenforcement"
	bindercommon "github.com/NVIDIA/KAI-scheduler/pkg/binder/common"
	"github.com/NVIDIA/KAI-scheduler/pkg/binder/common/gpusharingconfigmap"
	gpurequesthandler "github.com/NVIDIA/KAI-scheduler/pkg/binder/plugins/gpusharing/gpu-request"
	"github.com/NVIDIA/KAI-scheduler/pkg/common/constants"
	commonresources "github.com/NVIDIA/KAI-scheduler/pkg/common/resources"
	pgcresources "github.com/NVIDIA/KAI-scheduler/pkg/podgroupcontroller/controllers/resources"
	"github.com/NVIDIA/KAI-scheduler/pkg/scheduler/api/pod_info"
	"github.com/NVIDIA/KAI-scheduler/pkg/scheduler/api/resource_info"
)

const (
	wholeGPUs        = 2     // value of the nvidia.com/gpu limit when one is present
	nodeGPUMemoryMiB = 16384 // nvidia.com/gpu.memory label of the node the pod is "bound" to
	cfgMapAnnotation = "runai/shared-gpu-configmap"
	recvTypeAnn      = "received-resource-type"
)

// podCase is one enumerated input (also the replay artefact).
type podCase struct {
	Fraction *string `json:"gpu-fraction"`             // nil = annotation absent
	Memory   *string `json:"gpu-memory"`               // nil = absent
	Devices  *string `json:"gpu-fraction-num-devices"` // nil = absent
	Limit    string  `json:"nvidia_gpu_limit"`         // none | container | init
	Named    string  `json:"fraction_container_name"`  // absent | regular | init | missing
	Sharing  bool    `json:"admission_gpu_sharing_enabled"`
	// Preset: the pod arrives with the runai/shared-gpu-configmap annotation already set (a template that
	// pins the config-map prefix, or a webhook re-invocation) but WITHOUT the env / volume wiring
	Preset bool `json:"configmap_annotation_preset,omitempty"`
}

func (p podCase) String() string {
	f := func(s *string) string {
		if s == nil {
			return "-"
		}
		return fmt.Sprintf("%q", *s)
	}
	pre := ""
	if p.Preset {
		pre = " configmap-annotation=preset"
	}
	return fmt.Sprintf("fraction=%s memory=%s devices=%s limit=%s named=%s sharing=%v%s",
		f(p.Fraction), f(p.Memory), f(p.Devices), p.Limit, p.Named, p.Sharing, pre)
}

func gpuList() v1.ResourceList {
	return v1.ResourceList{constants.NvidiaGpuResource: resource.MustParse(fmt.Sprint(wholeGPUs))}
}

func (p podCase) build() *v1.Pod {
	pod := &v1.Pod{
		ObjectMeta: metav1.ObjectMeta{Name: "p", Namespace: "ns", UID: "uid-p", Annotations: map[string]string{}},
		Spec: v1.PodSpec{
			SchedulerName:  constants.DefaultSchedulerName,
			InitContainers: []v1.Container{{Name: "init0", Image: "i"}},
			Containers:     []v1.Container{{Name: "main", Image: "i"}, {Name: "sidecar", Image: "i"}},
		},
		Status: v1.PodStatus{Phase: v1.PodPending},
	}
	if p.Fraction != nil {
		pod.Annotations[constants.GpuFraction] = *p.Fraction
	}
	if p.Memory != nil {
		pod.Annotations[constants.GpuMemory] = *p.Memory
	}
	if p.Devices != nil {
		pod.Annotations[constants.GpuFractionsNumDevices] = *p.Devices
	}
	if p.Preset {
		pod.Annotations["runai/shared-gpu-configmap"] = "preset-cm"
	}
	switch p.Named {
	case "regular":
		pod.Annotations[constants.GpuFractionContainerName] = "sidecar"
	case "init":
		pod.Annotations[constants.GpuFractionContainerName] = "init0"
	case "missing":
		pod.Annotations[constants.GpuFractionContainerName] = "nope"
	}
	// the API server defaults requests from limits for extended resources: set both
	switch p.Limit {
	case "container":
		pod.Spec.Containers[0].Resources = v1.ResourceRequirements{Limits: gpuList(), Requests: gpuList()}
	case "init":
		pod.Spec.InitContainers[0].Resources = v1.ResourceRequirements{Limits: gpuList(), Requests: gpuList()}
	}
	return pod
}

// outcome is everything observed from the real components for one pod.
type outcome struct {
	// admission
	MutErr, Mut2Err string
	Idempotent      bool
	ValOrig, ValMut string
	// ValUpd: verdict of the validating webhook when the SAME mutated object arrives as an UPDATE of a
	// pod that was created (and accepted) without the GPU-sharing annotations - spec unchanged
	ValUpd    string
	ValUpdRan bool
	AdmPanic        string
	AdmAccept       bool
	EnvContainers   []string // containers carrying the GPU-sharing env after Mutate ("c:<idx>" / "i:<idx>")
	EnvCapName      string   // config-map name referenced by that env
	VolumeOK        bool
	// scheduler
	SchedPanic           string
	SType                string
	SPortion, SGPUs      float64
	SCount, SMem         int64
	SShared, SRequireGPU bool
	// binder
	BinderVal                                 string
	BinderPanic                               string
	HFracErr, HMemErr, HDevErr, HMultiErr     string
	HFrac                                     float64
	HMem, HDev                                int64
	HMulti                                    bool
	RefErr, RefContainer, CapName, CapNameErr string
	// podgroup controller
	PgcReqErr, PgcReqPanic   string
	PgcReqGPU, PgcReqMem     *resource.Quantity
	PgcRecvErr, PgcRecvPanic string
	PgcRecvGPU               *resource.Quantity
}

type nodeClient struct {
	client.Client
	node *v1.Node
}

func (c nodeClient) Get(_ context.Context, _ client.ObjectKey, obj client.Object, _ ...client.GetOption) error {
	n, ok := obj.(*v1.Node)
	if !ok {
		return fmt.Errorf("nodeClient: unexpected Get of %T", obj)
	}
	c.node.DeepCopyInto(n)
	return nil
}

// components holds the constructed real objects (per process).
type components struct {
	mutator   [2]podhooks.PodMutator   // [sharing disabled, enabled]
	validator [2]podhooks.PodValidator // idem
	vectorMap *resource_info.ResourceVectorMap
	ctx       context.Context
	nodes     nodeClient
}

func newComponents() *components {
	logf.SetLogger(logr.Discard())
	utilrand.Seed(19) // the config-map name prefix carries 7 random chars; fixed per process
	c := &components{vectorMap: resource_info.NewResourceVectorMap()}
	for i, enabled := range []bool{false, true} {
		pl := admissionplugins.New()
		pl.RegisterPlugin(admgpusharing.New(nil, enabled))
		pl.RegisterPlugin(runtimeenforcement.New(constants.DefaultRuntimeClassName))
		c.mutator[i] = podhooks.NewPodMutator(nil, pl, constants.DefaultSchedulerName)
		c.validator[i] = podhooks.NewPodValidator(nil, pl, constants.DefaultSchedulerName)
	}
	c.ctx = admission.NewContextWithRequest(context.Background(),
		admission.Request{AdmissionRequest: admissionv1.AdmissionRequest{Namespace: "ns"}})
	c.nodes = nodeClient{node: &v1.Node{ObjectMeta: metav1.ObjectMeta{Name: "n1",
		Labels: map[string]string{constants.NvidiaGpuMemory: fmt.Sprint(nodeGPUMemoryMiB)}}}}
	return c
}

func (c *components) ctxFor(ns string) context.Context {
	return admission.NewContextWithRequest(context.Background(),
		admission.Request{AdmissionRequest: admissionv1.AdmissionRequest{Namespace: ns}})
}

func errStr(err error) string {
	if err == nil {
		return ""
	}
	return err.Error()
}

func guard(panicked *string, f func()) {
	defer func() {
		if r := recover(); r != nil {
			*panicked = fmt.Sprint(r)
		}
	}()
	f()
}

func b2i(b bool) int {
	if b {
		return 1
	}
	return 0
}

func (c *components) evaluate(pc podCase) *outcome {
	o := &outcome{}
	orig := pc.build()
	sh := b2i(pc.Sharing)

	// ---- admission: mutating webhook, then validating webhook on the mutated object
	m1 := orig.DeepCopy()
	guard(&o.AdmPanic, func() {
		_, err := c.validator[sh].ValidateCreate(c.ctx, orig)
		o.ValOrig = errStr(err)
		o.MutErr = errStr(c.mutator[sh].Default(c.ctx, m1))
		if o.MutErr == "" {
			m2 := m1.DeepCopy()
			o.Mut2Err = errStr(c.mutator[sh].Default(c.ctx, m2))
			// fast path: m2 started as a deep copy of m1; fall back to semantic equality before calling it a difference
			o.Idempotent = o.Mut2Err == "" && (reflect.DeepEqual(m1, m2) || equality.Semantic.DeepEqual(m1, m2))
			_, err = c.validator[sh].ValidateCreate(c.ctx, m1)
			o.ValMut = errStr(err)
			old := m1.DeepCopy()
			for _, k := range []string{constants.GpuFraction, constants.GpuMemory, constants.GpuFractionsNumDevices} {
				delete(old.Annotations, k)
			}
			_, err = c.validator[sh].ValidateUpdate(c.ctx, old, m1)
			o.ValUpd, o.ValUpdRan = errStr(err), true
		}
	})
	o.AdmAccept = o.AdmPanic == "" && o.MutErr == "" && o.ValMut == ""
	seen := m1 // what the rest of the system sees: the mutated object when mutation succeeded
	if o.MutErr != "" || o.AdmPanic != "" {
		seen = orig.DeepCopy()
	}
	o.observeMutation(seen)

	// ---- scheduler
	guard(&o.SchedPanic, func() {
		pi := pod_info.NewTaskInfo(seen, nil, c.vectorMap)
		o.SType = string(pi.ResourceRequestType)
		o.SPortion = pi.ResReq.GpuFractionalPortion()
		o.SGPUs = pi.ResReq.GPUs()
		o.SCount = pi.ResReq.GetNumOfGpuDevices()
		o.SMem = pi.ResReq.GpuMemory()
		o.SShared = pi.IsSharedGPURequest()
		o.SRequireGPU = pi.IsRequireAnyKindOfGPU()
	})

	// ---- binder
	guard(&o.BinderPanic, func() {
		o.BinderVal = errStr(gpurequesthandler.ValidateGpuRequests(seen))
		var err error
		o.HFrac, err = commonresources.GetGPUFraction(seen)
		o.HFracErr = errStr(err)
		o.HMem, err = commonresources.GetGPUMemory(seen)
		o.HMemErr = errStr(err)
		o.HDev, err = commonresources.GetNumGPUFractionDevices(seen)
		o.HDevErr = errStr(err)
		o.HMulti, err = commonresources.IsMultiFraction(seen)
		o.HMultiErr = errStr(err)
		ref, err := bindercommon.GetFractionContainerRef(seen)
		o.RefErr = errStr(err)
		if err == nil {
			o.RefContainer = containerTag(ref.Type == gpusharingconfigmap.InitContainer, ref.Index)
			name, err := gpusharingconfigmap.ExtractCapabilitiesConfigMapName(seen, ref)
			o.CapName, o.CapNameErr = name, errStr(err)
			if err == nil {
				if evar, err := gpusharingconfigmap.ExtractDirectEnvVarsConfigMapName(seen, ref); err != nil || evar != name+"-evar" {
					o.CapNameErr = fmt.Sprintf("direct env vars config map name %q err=%v", evar, err)
				}
			}
		}
	})

	// ---- podgroup controller (requested: every active pod; received: once the binder marked the pod)
	guard(&o.PgcReqPanic, func() {
		rl, err := pgcresources.ExtractGPUSharingRequestedResources(seen)
		o.PgcReqErr = errStr(err)
		if q, ok := rl[constants.NvidiaGpuResource]; ok {
			o.PgcReqGPU = &q
		}
		if q, ok := rl["run.ai/gpu.memory"]; ok {
			o.PgcReqMem = &q
		}
	})
	if pc.Fraction == nil && pc.Memory == nil {
		o.PgcRecvErr = "n/a"
		return o
	}
	seen.Annotations[recvTypeAnn] = "Fraction" // what the binder sets once a shared GPU was allocated
	seen.Spec.NodeName = "n1"
	guard(&o.PgcRecvPanic, func() {
		rl, err := pgcresources.ExtractGPUSharingReceivedResources(c.ctx, seen, c.nodes)
		o.PgcRecvErr = errStr(err)
		if q, ok := rl[constants.NvidiaGpuResource]; ok && err == nil {
			o.PgcRecvGPU = &q
		}
	})
	return o
}

func containerTag(init bool, idx int) string {
	if init {
		return fmt.Sprintf("i:%d", idx)
	}
	return fmt.Sprintf("c:%d", idx)
}

// observeMutation records which containers carry the GPU-sharing env vars and what they reference.
func (o *outcome) observeMutation(pod *v1.Pod) {
	scan := func(init bool, cs []v1.Container) {
		for i := range cs {
			n := 0
			name := ""
			for _, e := range cs[i].Env {
				if (e.Name == constants.NvidiaVisibleDevices || e.Name == bindercommon.NumOfGpusEnvVarBC ||
					e.Name == bindercommon.GPUPortion) && e.ValueFrom != nil && e.ValueFrom.ConfigMapKeyRef != nil {
					n++
					if name == "" {
						name = e.ValueFrom.ConfigMapKeyRef.Name
					} else if name != e.ValueFrom.ConfigMapKeyRef.Name {
						name = "<inconsistent>"
					}
				}
			}
			evar := false
			for _, ef := range cs[i].EnvFrom {
				if ef.ConfigMapRef != nil && ef.ConfigMapRef.Name == name+"-evar" {
					evar = true
				}
			}
			if n > 0 || evar {
				tag := containerTag(init, i)
				if n != 3 || !evar {
					tag += fmt.Sprintf("(incomplete env=%d envFrom=%v)", n, evar)
				}
				o.EnvContainers = append(o.EnvContainers, tag)
				o.EnvCapName = name
			}
		}
	}
	scan(true, pod.Spec.InitContainers)
	scan(false, pod.Spec.Containers)
	for _, v := range pod.Spec.Volumes {
		if v.ConfigMap != nil && v.ConfigMap.Name == o.EnvCapName && v.Name == o.EnvCapName+"-vol" {
			o.VolumeOK = true
		}
	}
}

func short(s string, n int) string {
	if len(s) > n {
		return s[:n]
	}
	return s
}

// vector is the abstract outcome: who accepted / rejected / failed, without run-specific values.
func (o *outcome) vector() string {
	var b strings.Builder
	switch {
	case o.AdmPanic != "":
		b.WriteString("adm=PANIC")
	case o.MutErr != "":
		b.WriteString("adm=rej@mutate:" + guardName(o.MutErr))
	case o.ValMut != "":
		b.WriteString("adm=rej@validate:" + guardName(o.ValMut))
	default:
		b.WriteString("adm=accept")
	}
	if (o.ValOrig == "") != (o.ValMut == "") && o.MutErr == "" {
		b.WriteString(" validity-changed-by-mutation")
	}
	if o.MutErr == "" && !o.Idempotent {
		b.WriteString(" NOT-idempotent")
	}
	fmt.Fprintf(&b, " env=%v vol=%v", o.EnvContainers, o.VolumeOK)
	if o.SchedPanic != "" {
		b.WriteString(" sched=PANIC")
	} else {
		p := "0"
		switch {
		case math.IsNaN(o.SPortion):
			p = "NaN"
		case math.IsInf(o.SPortion, 0):
			p = "Inf"
		case o.SPortion == 1:
			p = "1"
		case o.SPortion > 0:
			p = "frac"
		case o.SPortion < 0:
			p = "neg"
		}
		g := "0"
		switch {
		case math.IsNaN(o.SGPUs):
			g = "NaN"
		case o.SGPUs < 0:
			g = "neg"
		case o.SGPUs > 0:
			g = "pos"
		}
		cnt := "n"
		switch {
		case o.SCount <= 0:
			cnt = fmt.Sprint(sign(o.SCount))
		case o.SCount == 1:
			cnt = "1"
		}
		fmt.Fprintf(&b, " sched=%s/portion:%s/count:%s/mem:%d/gpus:%s/shared:%v/needsgpu:%v", o.SType, p, cnt, sign(o.SMem), g, o.SShared, o.SRequireGPU)
	}
	if o.BinderPanic != "" {
		b.WriteString(" binder=PANIC")
	} else {
		fmt.Fprintf(&b, " binder=%s/helpers:%d%d%d%d/ref:%s", okOr(o.BinderVal, "rej:"+guardName(o.BinderVal)),
			b2i(o.HFracErr == ""), b2i(o.HMemErr == ""), b2i(o.HDevErr == ""), b2i(o.HMultiErr == ""), okOr(o.RefErr, "err"))
	}
	fmt.Fprintf(&b, " pgc-requested=%s pgc-received=%s", pgcTag(o.PgcReqPanic, o.PgcReqErr), pgcTag(o.PgcRecvPanic, o.PgcRecvErr))
	return b.String()
}

func sign(v int64) int {
	switch {
	case v < 0:
		return -1
	case v > 0:
		return 1
	}
	return 0
}

func okOr(e, alt string) string {
	if e == "" {
		return "ok"
	}
	return alt
}

func pgcTag(p, e string) string {
	if p != "" {
		return "PANIC"
	}
	if e == "n/a" {
		return e
	}
	return okOr(e, "err")
}

// guardName abbreviates an error message to the guard that produced it (messages embed no input text
// except the missing container name, which is a constant of the grid).
func guardName(msg string) string {
	switch {
	case strings.Contains(msg, "GPU sharing is disabled"):
		return "sharing-disabled"
	case strings.Contains(msg, "both GPU fraction request and whole GPU"):
		return "fraction+whole-gpu"
	case strings.Contains(msg, "both GPU and GPU memory"):
		return "memory+gpu"
	case strings.Contains(msg, "multiple fractional devices without"):
		return "devices-without-portion"
	case strings.Contains(msg, "gpu-memory annotation value"):
		return "bad-memory"
	case strings.Contains(msg, "gpu-fraction annotation value"):
		return "bad-fraction"
	case strings.Contains(msg, "fraction count annotation value"):
		return "bad-devices"
	case strings.Contains(msg, "not found for fraction request"):
		return "container-not-found"
	}
	return "other:" + short(msg, 40)
}

// trivial: rejected by admission, and neither the scheduler nor anybody else made anything of the pod.
func (o *outcome) trivial() bool {
	return !o.AdmAccept && o.AdmPanic == "" && o.SchedPanic == "" && o.BinderPanic == "" && o.PgcReqPanic == "" &&
		o.PgcRecvPanic == "" && !o.SShared && !o.SRequireGPU
}
