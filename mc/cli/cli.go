// check <property-id> --tier quick|thorough [--replay file]
package cli

import (
	"flag"
	"fmt"
	"io"
	"os"
	"sort"

	"k8s.io/klog/v2"

	"verif/mc/families"
	"verif/mc/registry"
)

func Main() {
	if len(os.Args) < 2 {
		fmt.Fprintln(os.Stderr, "usage: check <id> [--tier quick|thorough] [--replay f]")
		os.Exit(2)
	}
	id := os.Args[1]
	fs := flag.NewFlagSet("check", flag.ExitOnError)
	tier := fs.String("tier", "quick", "quick|thorough")
	replay := fs.String("replay", "", "replay file")
	show := fs.String("show", "", "diagnostic: print one cycle's decisions for scenarios whose name contains this")
	_ = fs.Parse(os.Args[2:])
	if t := os.Getenv("VERIF_TIER"); t != "" && !flagSet(fs, "tier") {
		*tier = t
	}
	klog.SetOutput(io.Discard)
	klog.LogToStderr(false)

	if id == "list" {
		ids := []string{}
		for k := range registry.Checks {
			ids = append(ids, k)
		}
		sort.Strings(ids)
		fmt.Println(ids)
		return
	}
	if *show != "" {
		if f, ok := families.Shows[id]; ok {
			os.Exit(f(*tier, *show))
		}
		fmt.Fprintf(os.Stderr, "no --show for %s\n", id)
		os.Exit(2)
	}
	if *replay != "" {
		if f, ok := registry.Replays[id]; ok {
			os.Exit(f(*replay))
		}
		fmt.Fprintf(os.Stderr, "no replay for %s\n", id)
		os.Exit(2)
	}
	if f, ok := registry.Checks[id]; ok {
		os.Exit(f(*tier))
	}
	fmt.Fprintf(os.Stderr, "unknown property %s\n", id)
	os.Exit(2)
}

func flagSet(fs *flag.FlagSet, name string) bool {
	set := false
	fs.Visit(func(f *flag.Flag) {
		if f.Name == name {
			set = true
		}
	})
	return set
}
