package schedrun

import (
	"fmt"
	"runtime"
	"strings"
	"time"

	corev1 "k8s.io/api/core/v1"
	"k8s.io/apimachinery/pkg/api/equality"
	"k8s.io/apimachinery/pkg/api/meta"
	k8sruntime "k8s.io/apimachinery/pkg/runtime"
	"k8s.io/apimachinery/pkg/runtime/schema"
	k8stesting "k8s.io/client-go/testing"

	schedv1alpha2 "github.com/NVIDIA/KAI-scheduler/pkg/apis/scheduling/v1alpha2"
	schedv2 "github.com/NVIDIA/KAI-scheduler/pkg/apis/scheduling/v2"
	schedv2alpha2 "github.com/NVIDIA/KAI-scheduler/pkg/apis/scheduling/v2alpha2"

	"verif/mc/world"
)

type storeVersions interface{ VerifStoreVersions() map[string]string }

var (
	gvrPods   = corev1.SchemeGroupVersion.WithResource("pods")
	gvrNodes  = corev1.SchemeGroupVersion.WithResource("nodes")
	gvrPGs    = schedv2alpha2.SchemeGroupVersion.WithResource("podgroups")
	gvrQueues = schedv2.SchemeGroupVersion.WithResource("queues")
	gvrBRs    = schedv1alpha2.SchemeGroupVersion.WithResource("bindrequests")
)

// Apply makes the API contents of a LIVE cluster equal to w for the kinds the environment changes between
// cycles (pods, nodes, pod groups, queues, bind requests) - objects are added, updated or deleted in the
// fake trackers, which feeds the running informers - and then waits until the cache's informer stores
// show exactly those objects in exactly those versions (every object written here carries a fresh
// resourceVersion stamp).
func (cl *Cluster) Apply(w *world.World) error {
	sv, ok := cl.real.(storeVersions)
	if !ok {
		return fmt.Errorf("harness: cache has no VerifStoreVersions hook (build with -tags verif)")
	}
	want := map[string]string{} // Kind/ns/name -> expected resourceVersion ("" = whatever is there)
	gone := map[string]bool{}
	goneObj := map[string]k8sruntime.Object{}
	sync := func(kind string, gvr schema.GroupVersionResource, tr k8stesting.ObjectTracker, gvk schema.GroupVersionKind, desired []k8sruntime.Object) error {
		cur, err := tr.List(gvr, gvk, "")
		if err != nil {
			return err
		}
		curItems, err := meta.ExtractList(cur)
		if err != nil {
			return err
		}
		have := map[string]k8sruntime.Object{}
		for _, o := range curItems {
			m, _ := meta.Accessor(o)
			have[m.GetNamespace()+"/"+m.GetName()] = o
		}
		seen := map[string]bool{}
		for _, d := range desired {
			d = d.DeepCopyObject()
			m, _ := meta.Accessor(d)
			key := m.GetNamespace() + "/" + m.GetName()
			seen[key] = true
			old, exists := have[key]
			if exists {
				om, _ := meta.Accessor(old)
				m.SetResourceVersion(om.GetResourceVersion())
				if equality.Semantic.DeepEqual(old, d) {
					continue
				}
			}
			cl.rv++
			m.SetResourceVersion(fmt.Sprintf("verif-%d", cl.rv))
			if exists {
				err = tr.Update(gvr, d, m.GetNamespace())
			} else {
				err = tr.Create(gvr, d, m.GetNamespace())
			}
			if err != nil {
				return fmt.Errorf("apply %s %s: %w", kind, key, err)
			}
			want[kind+"/"+key] = m.GetResourceVersion()
		}
		for key, o := range have {
			if !seen[key] {
				m, _ := meta.Accessor(o)
				if err := tr.Delete(gvr, m.GetNamespace(), m.GetName()); err != nil {
					return fmt.Errorf("apply delete %s %s: %w", kind, key, err)
				}
				gone[kind+"/"+key] = true
				goneObj[kind+"/"+key] = o
			}
		}
		return nil
	}
	objs := func(n int, at func(i int) k8sruntime.Object) []k8sruntime.Object {
		out := make([]k8sruntime.Object, n)
		for i := range out {
			out[i] = at(i)
		}
		return out
	}
	if err := sync("Pod", gvrPods, cl.kube.Tracker(), corev1.SchemeGroupVersion.WithKind("Pod"), objs(len(w.Pods), func(i int) k8sruntime.Object { return w.Pods[i] })); err != nil {
		return err
	}
	if err := sync("Node", gvrNodes, cl.kube.Tracker(), corev1.SchemeGroupVersion.WithKind("Node"), objs(len(w.Nodes), func(i int) k8sruntime.Object { return w.Nodes[i] })); err != nil {
		return err
	}
	if err := sync("PodGroup", gvrPGs, cl.kai.Tracker(), schedv2alpha2.SchemeGroupVersion.WithKind("PodGroup"), objs(len(w.PodGroups), func(i int) k8sruntime.Object { return w.PodGroups[i] })); err != nil {
		return err
	}
	if err := sync("Queue", gvrQueues, cl.kai.Tracker(), schedv2.SchemeGroupVersion.WithKind("Queue"), objs(len(w.Queues), func(i int) k8sruntime.Object { return w.Queues[i] })); err != nil {
		return err
	}
	if err := sync("BindRequest", gvrBRs, cl.kai.Tracker(), schedv1alpha2.SchemeGroupVersion.WithKind("BindRequest"), objs(len(w.BindRequests), func(i int) k8sruntime.Object { return w.BindRequests[i] })); err != nil {
		return err
	}
	// wait until, for every object touched above, the informer store shows what the API store holds NOW
	// (normally the version stamped above; if the scheduler's own asynchronous writers touched the object
	// in the meantime, whatever they left)
	trackerOf := map[string]struct {
		tr  k8stesting.ObjectTracker
		gvr schema.GroupVersionResource
	}{"Pod": {cl.kube.Tracker(), gvrPods}, "Node": {cl.kube.Tracker(), gvrNodes}, "PodGroup": {cl.kai.Tracker(), gvrPGs}, "Queue": {cl.kai.Tracker(), gvrQueues}, "BindRequest": {cl.kai.Tracker(), gvrBRs}}
	touched := map[string]bool{}
	for k := range want {
		touched[k] = true
	}
	for k := range gone {
		touched[k] = true
	}
	current := func(key string) (string, bool) {
		parts := strings.SplitN(key, "/", 3)
		t := trackerOf[parts[0]]
		o, err := t.tr.Get(t.gvr, parts[1], parts[2])
		if err != nil {
			return "", false
		}
		m, _ := meta.Accessor(o)
		return m.GetResourceVersion(), true
	}
	start := time.Now()
	lastPush := start
	for i := 0; ; i++ {
		got := sv.VerifStoreVersions()
		ok := true
		miss := ""
		for k := range touched {
			rv, exists := current(k)
			g, inStore := got[k]
			if exists != inStore || (exists && g != rv) {
				ok = false
				miss = fmt.Sprintf("%s: API store has (%q, exists=%v), informer store has (%q, exists=%v)", k, rv, exists, g, inStore)
				break
			}
		}
		if ok {
			break
		}
		runtime.Gosched()
		if i > 1000 {
			time.Sleep(50 * time.Microsecond)
		}
		// The fake API server replays nothing: a change made between an informer's LIST and the start of
		// its WATCH is never delivered (seen under heavy machine load). After two seconds without progress
		// the change is announced again - the object is written once more under a new version (a deleted
		// one is created and deleted again).
		if time.Since(lastPush) > 2*time.Second {
			lastPush = time.Now()
			for k := range touched {
				rv, exists := current(k)
				g, inStore := got[k]
				if exists == inStore && (!exists || g == rv) {
					continue
				}
				parts := strings.SplitN(k, "/", 3)
				t := trackerOf[parts[0]]
				if exists {
					if o, err := t.tr.Get(t.gvr, parts[1], parts[2]); err == nil {
						o = o.DeepCopyObject()
						m, _ := meta.Accessor(o)
						cl.rv++
						m.SetResourceVersion(fmt.Sprintf("verif-%d", cl.rv))
						_ = t.tr.Update(t.gvr, o, parts[1])
					}
				} else if o := goneObj[k]; o != nil {
					if err := t.tr.Create(t.gvr, o.DeepCopyObject(), parts[1]); err == nil {
						_ = t.tr.Delete(t.gvr, parts[1], parts[2])
					}
				}
			}
		}
		if time.Since(start) > 10*time.Minute {
			return fmt.Errorf("harness: informers did not observe the applied world: %s", miss)
		}
	}
	cl.w = w
	return nil
}

// PathStep is one step of a path replayed on ONE live cluster: a cycle (Cfg) or an environment change (Env).
type PathStep struct {
	Cfg *Config
	Env func(w *world.World) error
}

// RunPath opens ONE cluster on w0 and replays steps on it; it returns the result of the LAST cycle.
// The cache (and everything it remembers) lives across all cycles of the path.
func RunPath(w0 *world.World, steps []PathStep, obs Observer) (*Result, error) {
	var first Config
	for _, s := range steps {
		if s.Cfg != nil {
			first = *s.Cfg
			break
		}
	}
	cl, err := OpenCluster(w0, first)
	if err != nil {
		return nil, err
	}
	defer cl.Close()
	cur := w0
	var last *Result
	for i, s := range steps {
		if s.Cfg != nil {
			var o Observer
			if i == len(steps)-1 {
				o = obs
			}
			r, err := cl.Cycle(*s.Cfg, o)
			if err != nil {
				return nil, err
			}
			last, cur = r, r.After
			continue
		}
		nw := cur.Clone()
		if err := s.Env(nw); err != nil {
			return nil, err
		}
		if err := cl.Apply(nw); err != nil {
			return nil, err
		}
		cur = nw
	}
	return last, nil
}
