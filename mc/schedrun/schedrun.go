// Package schedrun executes ONE REAL scheduler cycle (cache.New + framework.OpenSession + every
// configured Action.Execute + framework.CloseSession) on a world, and returns the decisions the
// scheduler emitted together with the successor world read back from the API store.
package schedrun

import (
	"context"
	"fmt"
	"net/http"
	"os"
	"runtime"
	"sort"
	"strings"
	"sync"
	"time"

	corev1 "k8s.io/api/core/v1"
	resourceapi "k8s.io/api/resource/v1"
	metav1 "k8s.io/apimachinery/pkg/apis/meta/v1"
	k8sruntime "k8s.io/apimachinery/pkg/runtime"
	"k8s.io/apimachinery/pkg/version"
	featureutil "k8s.io/apiserver/pkg/util/feature"
	fakediscovery "k8s.io/client-go/discovery/fake"
	"k8s.io/client-go/kubernetes/fake"
	k8stesting "k8s.io/client-go/testing"
	k8sfeatures "k8s.io/kubernetes/pkg/features"

	kaifake "github.com/NVIDIA/KAI-scheduler/pkg/apis/client/clientset/versioned/fake"
	schedv1alpha2 "github.com/NVIDIA/KAI-scheduler/pkg/apis/scheduling/v1alpha2"
	schedv2alpha2 "github.com/NVIDIA/KAI-scheduler/pkg/apis/scheduling/v2alpha2"
	"github.com/NVIDIA/KAI-scheduler/pkg/scheduler/actions"
	"github.com/NVIDIA/KAI-scheduler/pkg/scheduler/api/eviction_info"
	"github.com/NVIDIA/KAI-scheduler/pkg/scheduler/api/pod_info"
	"github.com/NVIDIA/KAI-scheduler/pkg/scheduler/api/podgroup_info"
	"github.com/NVIDIA/KAI-scheduler/pkg/scheduler/cache"
	"github.com/NVIDIA/KAI-scheduler/pkg/scheduler/conf"
	"github.com/NVIDIA/KAI-scheduler/pkg/scheduler/conf_util"
	"github.com/NVIDIA/KAI-scheduler/pkg/scheduler/framework"
	"github.com/NVIDIA/KAI-scheduler/pkg/scheduler/plugins"

	"verif/mc/maporder"
	"verif/mc/world"
)

// Config selects the scheduler configuration of one cycle.
type Config struct {
	Actions              string // default: the repo default list
	Placement            string // "binpack" (default) | "spread"
	// GpuSpread: order the GPUs of a node with the gpuspread plugin instead of gpupack - what the
	// operator deploys for placementStrategy.gpu = spread
	GpuSpread bool
	Consolidation        bool   // include consolidation action (default list has it; false removes it)
	NoConsolidation      bool
	ConsolidatingReclaim bool
	Signatures           bool
	// ProjectLevelFairness: run with fullHierarchyFairness=false (queues are re-parented to one
	// generated "default" parent); default = full hierarchy fairness, the scheduler's default
	ProjectLevelFairness bool
	SaturationMultiplier string // proportion plugin arg, "" = default
	StalenessGrace       time.Duration
	NodePoolKey          string
	NodePoolValue        string
	QueueDepth           map[string]int
	MaxConsolidationPreemptees int
	ExtraPluginArgs      map[string]map[string]string
	// Faults: API write failures. Keys "bind:<pod>" and "evict:<pod>".
	Faults map[string]bool
	// MapSeed: Go map iteration seed for this cycle (O-maporder overlay): small maps iterate in
	// insertion order rotated by the seed.
	MapSeed uint64
}

func (c Config) Label() string {
	parts := []string{}
	if c.Placement != "" {
		parts = append(parts, c.Placement)
	}
	if c.GpuSpread {
		parts = append(parts, "gpuspread")
	}
	if c.NoConsolidation {
		parts = append(parts, "nocons")
	}
	if c.ConsolidatingReclaim {
		parts = append(parts, "consreclaim")
	}
	if c.Signatures {
		parts = append(parts, "sig")
	}
	if c.ProjectLevelFairness {
		parts = append(parts, "projfair")
	}
	if c.SaturationMultiplier != "" {
		parts = append(parts, "sat"+c.SaturationMultiplier)
	}
	if c.Actions != "" {
		parts = append(parts, "actions="+c.Actions)
	}
	if c.MapSeed != 0 {
		parts = append(parts, fmt.Sprintf("mapseed=%d", c.MapSeed))
	}
	fk := []string{}
	for k := range c.Faults {
		fk = append(fk, k)
	}
	sort.Strings(fk)
	if len(fk) > 0 {
		parts = append(parts, "faults="+strings.Join(fk, "|"))
	}
	if len(parts) == 0 {
		return "default"
	}
	return strings.Join(parts, ",")
}

// Decision is one call the scheduler made on its Cache (the only way decisions leave a session).
type Decision struct {
	Kind      string   `json:"kind"` // bind | evict | pipeline
	Pod       string   `json:"pod"`
	Group     string   `json:"group,omitempty"`
	Node      string   `json:"node,omitempty"`
	GPUGroups []string `json:"gpuGroups,omitempty"`
	Action    string   `json:"action,omitempty"`    // evict: which action
	Preemptor string   `json:"preemptor,omitempty"` // evict: for which job
	GangSize  int      `json:"gangSize,omitempty"`
	Failed    bool     `json:"failed,omitempty"` // the API write failed (injected)
	AfterAction string `json:"afterAction,omitempty"`
}

func (d Decision) String() string {
	s := d.Kind + " " + d.Pod
	if d.Node != "" {
		s += "->" + d.Node
	}
	if len(d.GPUGroups) > 0 {
		s += " groups=" + strings.Join(d.GPUGroups, ",")
	}
	if d.Action != "" {
		s += " by=" + d.Action
	}
	if d.Preemptor != "" {
		s += " for=" + d.Preemptor
	}
	if d.Failed {
		s += " FAILED"
	}
	return s
}

// Observer lets a property check look inside the real session at well-defined points.
type Observer interface {
	SessionOpened(ssn *framework.Session)
	// AfterAction is called after each real action (name) has executed.
	AfterAction(name string, ssn *framework.Session, decisionsSoFar []Decision)
}

type Result struct {
	Decisions []Decision
	After     *world.World
	OpenErr   error
	Duration  time.Duration
	// Panic: the real scheduler panicked inside the cycle (recovered by the harness); Decisions
	// then holds what had been emitted before the crash and After the store at that moment.
	Panic string
	// APIErrors: errors the fake API server returned for patch/update calls (not injected faults).
	APIErrors []string
}

var initOnce sync.Once

const monitorPlugin = "verifmonitor"

type monitor struct{ obs Observer }

func (m *monitor) Name() string                          { return monitorPlugin }
func (m *monitor) OnSessionOpen(ssn *framework.Session)  { if m.obs != nil { m.obs.SessionOpened(ssn) } }
func (m *monitor) OnSessionClose(ssn *framework.Session) {}

var currentObserver Observer

func initRepo() {
	initOnce.Do(func() {
		actions.InitDefaultActions()
		plugins.InitDefaultPlugins()
		framework.RegisterPluginBuilder(monitorPlugin, func(framework.PluginArguments) framework.Plugin {
			return &monitor{obs: currentObserver}
		})
	})
}

// recorder decorates the real cache and records every decision.
type recorder struct {
	cache.Cache
	mu        sync.Mutex
	decisions []Decision
	faults    map[string]bool
	curAction string
}

func (r *recorder) add(d Decision) {
	r.mu.Lock()
	d.AfterAction = r.curAction
	r.decisions = append(r.decisions, d)
	r.mu.Unlock()
}

func (r *recorder) Bind(p *pod_info.PodInfo, hostname string, annos map[string]string) error {
	err := r.Cache.Bind(p, hostname, annos)
	r.add(Decision{Kind: "bind", Pod: p.Name, Group: string(p.Job), Node: hostname,
		GPUGroups: append([]string{}, p.GPUGroups...), Failed: err != nil})
	return err
}

func (r *recorder) Evict(pod *corev1.Pod, job *podgroup_info.PodGroupInfo, md eviction_info.EvictionMetadata, msg string) error {
	var err error
	if r.faults["evict-refused:"+pod.Name] {
		// what SchedulerCache.Evict answers for a victim that terminated / was deleted after the snapshot
		err = fmt.Errorf("received an eviction attempt for a terminated task: <%v/%v>", pod.Namespace, pod.Name)
	} else {
		err = r.Cache.Evict(pod, job, md, msg)
	}
	d := Decision{Kind: "evict", Pod: pod.Name, Group: job.Name, Node: pod.Spec.NodeName, Action: md.Action,
		GangSize: md.EvictionGangSize, Failed: err != nil || r.faults["evict:"+pod.Name]}
	if md.Preemptor != nil {
		d.Preemptor = md.Preemptor.Name
	}
	r.add(d)
	return err
}

func (r *recorder) TaskPipelined(p *pod_info.PodInfo, msg string) {
	r.Cache.TaskPipelined(p, msg)
	r.add(Decision{Kind: "pipeline", Pod: p.Name, Group: string(p.Job), Node: p.NodeName,
		GPUGroups: append([]string{}, p.GPUGroups...)})
}

func buildConf(c Config) (*conf.SchedulerConfiguration, *conf.SchedulerParams) {
	sc, err := conf_util.GetDefaultSchedulerConf()
	if err != nil {
		panic(err)
	}
	if c.Actions != "" {
		sc.Actions = c.Actions
	} else if c.NoConsolidation {
		sc.Actions = "allocate, reclaim, preempt, stalegangeviction"
	}
	for ti := range sc.Tiers {
		for pi := range sc.Tiers[ti].Plugins {
			p := &sc.Tiers[ti].Plugins[pi]
			if p.Name == "gpupack" && c.GpuSpread {
				p.Name = "gpuspread"
			}
			if p.Name == "nodeplacement" && c.Placement != "" {
				p.Arguments = map[string]string{"cpu": c.Placement, "gpu": c.Placement}
			}
			if p.Name == "proportion" && c.SaturationMultiplier != "" {
				if p.Arguments == nil {
					p.Arguments = map[string]string{}
				}
				p.Arguments["relcaimerSaturationMultiplier"] = c.SaturationMultiplier
			}
			if extra, ok := c.ExtraPluginArgs[p.Name]; ok {
				if p.Arguments == nil {
					p.Arguments = map[string]string{}
				}
				for k, v := range extra {
					p.Arguments[k] = v
				}
			}
		}
	}
	// drop the snapshot plugin (http handler only) and add the monitor last
	last := &sc.Tiers[len(sc.Tiers)-1]
	kept := last.Plugins[:0]
	for _, p := range last.Plugins {
		if p.Name != "snapshot" {
			kept = append(kept, p)
		}
	}
	last.Plugins = append(kept, conf.PluginOption{Name: monitorPlugin})
	if c.QueueDepth != nil {
		sc.QueueDepthPerAction = c.QueueDepth
	}
	grace := c.StalenessGrace
	if grace == 0 {
		grace = -1 // never stale-evict unless asked: keeps the wall clock out of decisions
	}
	maxCons := c.MaxConsolidationPreemptees
	if maxCons == 0 {
		maxCons = 16
	}
	params := &conf.SchedulerParams{
		SchedulerName:                     world.SchedulerName,
		QueueLabelKey:                     world.QueueLabel, // the scheduler's default; only the DRA plugin reads it
		PartitionParams:                   &conf.SchedulingNodePoolParams{NodePoolLabelKey: c.NodePoolKey, NodePoolLabelValue: c.NodePoolValue},
		MaxNumberConsolidationPreemptees:  maxCons,
		UseSchedulingSignatures:           c.Signatures,
		FullHierarchyFairness:             !c.ProjectLevelFairness,
		AllowConsolidatingReclaim:         c.ConsolidatingReclaim,
		NumOfStatusRecordingWorkers:       2,
		GlobalDefaultStalenessGracePeriod: grace,
		DetailedFitErrors:                 false,
	}
	return sc, params
}

// Materialise builds fresh fake clientsets holding the world.
func Materialise(w *world.World) (*fake.Clientset, *kaifake.Clientset) {
	var kobjs, kaiobjs []k8sruntime.Object
	for _, o := range w.Nodes {
		kobjs = append(kobjs, o.DeepCopy())
	}
	for _, o := range w.Pods {
		kobjs = append(kobjs, o.DeepCopy())
	}
	for _, o := range w.PriorityClasses {
		kobjs = append(kobjs, o.DeepCopy())
	}
	for _, o := range w.ConfigMaps {
		kobjs = append(kobjs, o.DeepCopy())
	}
	for _, o := range w.Queues {
		kaiobjs = append(kaiobjs, o.DeepCopy())
	}
	for _, o := range w.PodGroups {
		kaiobjs = append(kaiobjs, o.DeepCopy())
	}
	for _, o := range w.BindRequests {
		kaiobjs = append(kaiobjs, o.DeepCopy())
	}
	for _, o := range w.Topologies {
		kaiobjs = append(kaiobjs, o.DeepCopy())
	}
	for _, o := range w.DeviceClasses {
		kobjs = append(kobjs, o.DeepCopy())
	}
	for _, o := range w.ResourceSlices {
		kobjs = append(kobjs, o.DeepCopy())
	}
	for _, o := range w.ResourceClaims {
		kobjs = append(kobjs, o.DeepCopy())
	}
	kube := fake.NewSimpleClientset(kobjs...)
	if w.HasDRA() {
		// The scheduler's cache derives the process-global DynamicResourceAllocation feature gate from
		// discovery on EVERY cache.New (featuregates.SetDRAFeatureGate): a server >= 1.26 that serves
		// resource.k8s.io >= v1beta1 turns it on, anything else turns it off. The fake discovery of a
		// world without DRA objects is left exactly as it always was (no parsable server version, no
		// groups => gate off), so such worlds behave as before DRA support existed.
		disc := kube.Discovery().(*fakediscovery.FakeDiscovery)
		disc.FakedServerVersion = &version.Info{Major: "1", Minor: "34", GitVersion: "v1.34.0"}
		kube.Resources = append(kube.Resources, &metav1.APIResourceList{
			GroupVersion: resourceapi.SchemeGroupVersion.String(),
			APIResources: []metav1.APIResource{
				{Name: "resourceclaims", Namespaced: true, Kind: "ResourceClaim"},
				{Name: "resourceslices", Kind: "ResourceSlice"},
				{Name: "deviceclasses", Kind: "DeviceClass"},
			}})
	}
	return kube, kaifake.NewSimpleClientset(kaiobjs...)
}

// DRAEnabled reports the current state of the process-global DRA feature gate (set by the last
// cache.New from the discovery of the world it was given).
func DRAEnabled() bool {
	return featureutil.DefaultFeatureGate.Enabled(k8sfeatures.DynamicResourceAllocation)
}

// draSynced: the scheduler's DRA manager (claim assume-cache + allocated-device index, both fed by
// informer event handlers, i.e. later than the informers' own HasSynced) shows every claim and
// every allocated device of the world.
func draSynced(w *world.World, c cache.Cache) bool {
	plugins := c.InternalK8sPlugins()
	if plugins == nil || plugins.FrameworkHandle == nil {
		return true
	}
	mgr := plugins.FrameworkHandle.SharedDRAManager()
	if mgr == nil {
		return true
	}
	claims, err := mgr.ResourceClaims().List()
	if err != nil || len(claims) != len(w.ResourceClaims) {
		return false
	}
	want := 0
	for _, cl := range w.ResourceClaims {
		if cl.Status.Allocation != nil {
			want += len(cl.Status.Allocation.Devices.Results)
		}
	}
	devs, err := mgr.ResourceClaims().ListAllAllocatedDevices()
	if err != nil || devs.Len() != want {
		return false
	}
	slices, err := mgr.ResourceSlices().ListWithDeviceTaintRules()
	if err != nil || len(slices) != len(w.ResourceSlices) {
		return false
	}
	classes, err := mgr.DeviceClasses().List()
	return err == nil && len(classes) == len(w.DeviceClasses)
}

type waiter interface {
	VerifInformersSynced() bool
	VerifStatusUpdaterIdle() bool
	VerifInFlightPods() ([]string, bool)
}

// Cluster is one scheduler process image: fake API server contents + a REAL SchedulerCache started on
// them. RunCycle uses a fresh one per cycle (the scheduler keeps nothing it needs between cycles);
// RunPath keeps ONE alive across several cycles and environment events, so that whatever the cache
// does remember between cycles (in-flight status updates, memories of earlier clean-ups) is exercised.
type Cluster struct {
	kube    *fake.Clientset
	kai     *kaifake.Clientset
	real    cache.Cache
	wt      waiter
	stopCh  chan struct{}
	faults  map[string]bool // API faults of the CURRENT cycle (read by the reactors)
	w       *world.World    // the world the API contents correspond to
	apiErrMu sync.Mutex
	apiErrs  []string
	rv       int // counter stamped as resourceVersion on objects written by Apply
}

// RunCycle runs one real scheduling cycle on w (w is not modified).
func RunCycle(w *world.World, c Config, obs Observer) (res *Result, err error) {
	cl, err := OpenCluster(w, c)
	if err != nil {
		return nil, err
	}
	defer cl.Close()
	return cl.Cycle(c, obs)
}

// Close stops the informers and workers of the cluster's cache.
func (cl *Cluster) Close() { close(cl.stopCh) }

// OpenCluster materialises w and starts a real cache on it (c supplies the cache-level parameters).
func OpenCluster(w *world.World, c Config) (*Cluster, error) {
	maporder.Set(c.MapSeed)
	initRepo()
	start := time.Now()
	kube, kai := Materialise(w)
	cl := &Cluster{kube: kube, kai: kai, w: w, faults: c.Faults, stopCh: make(chan struct{})}

	// Graceful deletion: the API server marks a pod terminating; it disappears only when the
	// kubelet confirms (environment event "terminate"). Injected faults fail the call instead.
	kube.PrependReactor("delete", "pods", func(a k8stesting.Action) (bool, k8sruntime.Object, error) {
		da := a.(k8stesting.DeleteAction)
		if cl.faults["evict:"+da.GetName()] {
			return true, nil, fmt.Errorf("injected: delete pod %s failed", da.GetName())
		}
		obj, gerr := kube.Tracker().Get(a.GetResource(), da.GetNamespace(), da.GetName())
		if gerr != nil {
			return true, nil, gerr
		}
		pod := obj.(*corev1.Pod).DeepCopy()
		if pod.Spec.NodeName == "" {
			// a pod not assigned to a node has no kubelet to wait for: the API server removes it at
			// once (grace period 0 in the pod strategy's CheckGracefulDelete), and it can never be
			// bound afterwards
			return false, nil, nil
		}
		if pod.DeletionTimestamp == nil {
			t := metav1.NewTime(world.Epoch.Add(24 * time.Hour))
			pod.DeletionTimestamp = &t
			pod.Finalizers = append(pod.Finalizers, "verif/terminating")
			if uerr := kube.Tracker().Update(a.GetResource(), pod, da.GetNamespace()); uerr != nil {
				return true, nil, uerr
			}
		}
		return true, nil, nil
	})
	kai.PrependReactor("create", "bindrequests", func(a k8stesting.Action) (bool, k8sruntime.Object, error) {
		ca := a.(k8stesting.CreateAction)
		br := ca.GetObject().(*schedv1alpha2.BindRequest)
		if cl.faults["bind:"+br.Spec.PodName] {
			return true, nil, fmt.Errorf("injected: create bindrequest %s failed", br.Name)
		}
		return false, nil, nil
	})

	logErrors := func(name string, tracker k8stesting.ObjectTracker) k8stesting.ReactionFunc {
		inner := k8stesting.ObjectReaction(tracker)
		return func(a k8stesting.Action) (bool, k8sruntime.Object, error) {
			handled, obj, err := inner(a)
			if err != nil {
				cl.apiErrMu.Lock()
				if len(cl.apiErrs) < 20 {
					detail := ""
					if pa, ok := a.(k8stesting.PatchAction); ok {
						detail = " patch=" + string(pa.GetPatch())
					}
					cl.apiErrs = append(cl.apiErrs, fmt.Sprintf("%s %s %s/%s: %v%s", name, a.GetVerb(), a.GetResource().Resource, a.GetSubresource(), err, detail))
				}
				cl.apiErrMu.Unlock()
				if os.Getenv("VERIF_DEBUG") != "" {
					fmt.Fprintln(os.Stderr, "APIERR", cl.apiErrs[len(cl.apiErrs)-1])
				}
			}
			return handled, obj, err
		}
	}
	kube.PrependReactor("patch", "*", logErrors("kube", kube.Tracker()))
	kube.PrependReactor("update", "*", logErrors("kube", kube.Tracker()))
	kai.PrependReactor("patch", "*", logErrors("kai", kai.Tracker()))
	kai.PrependReactor("update", "*", logErrors("kai", kai.Tracker()))

	// API-server semantics the fake tracker lacks: an update through the status sub-resource
	// changes ONLY .status (the tracker would overwrite metadata and spec as well).
	kai.PrependReactor("update", "podgroups", func(a k8stesting.Action) (bool, k8sruntime.Object, error) {
		ua := a.(k8stesting.UpdateAction)
		if ua.GetSubresource() != "status" {
			return false, nil, nil
		}
		npg := ua.GetObject().(*schedv2alpha2.PodGroup)
		obj, gerr := kai.Tracker().Get(a.GetResource(), npg.Namespace, npg.Name)
		if gerr != nil {
			return true, nil, gerr
		}
		cur := obj.(*schedv2alpha2.PodGroup).DeepCopy()
		cur.Status = *npg.Status.DeepCopy()
		if uerr := kai.Tracker().Update(a.GetResource(), cur, npg.Namespace); uerr != nil {
			return true, nil, uerr
		}
		return true, cur, nil
	})
	_, params := buildConf(c)
	real := cache.New(&cache.SchedulerCacheParams{
		KubeClient:                  kube,
		KAISchedulerClient:          kai,
		SchedulerName:               params.SchedulerName,
		NodePoolParams:              params.PartitionParams,
		FullHierarchyFairness:       params.FullHierarchyFairness,
		AllowConsolidatingReclaim:   params.AllowConsolidatingReclaim,
		NumOfStatusRecordingWorkers: params.NumOfStatusRecordingWorkers,
		DiscoveryClient:             kube.Discovery(),
	})
	stopCh := cl.stopCh
	real.Run(stopCh)
	wt := real.(waiter)
	cl.real, cl.wt = real, wt
	for i := 0; !wt.VerifInformersSynced(); i++ {
		runtime.Gosched()
		if i > 1000 {
			time.Sleep(50 * time.Microsecond)
		}
		if time.Since(start) > 10*time.Minute {
			return nil, fmt.Errorf("harness: informers did not sync")
		}
	}
	if DRAEnabled() != w.HasDRA() {
		return nil, fmt.Errorf("harness: DRA feature gate is %v but the world has DRA objects: %v", DRAEnabled(), w.HasDRA())
	}
	if w.HasDRA() {
		for i := 0; !draSynced(w, real); i++ {
			runtime.Gosched()
			if i > 1000 {
				time.Sleep(50 * time.Microsecond)
			}
			if time.Since(start) > 10*time.Minute {
				return nil, fmt.Errorf("harness: the scheduler's DRA manager did not sync")
			}
		}
	}
	return cl, nil
}

// Cycle runs one real scheduling cycle (session conf and API faults from c) on the cluster.
func (cl *Cluster) Cycle(c Config, obs Observer) (res *Result, err error) {
	currentObserver = obs
	maporder.Set(c.MapSeed)
	start := time.Now()
	w, kube, kai, real, wt, stopCh := cl.w, cl.kube, cl.kai, cl.real, cl.wt, cl.stopCh
	cl.faults = c.Faults
	cl.apiErrMu.Lock()
	cl.apiErrs = nil
	cl.apiErrMu.Unlock()
	sc, params := buildConf(c)

	rec := &recorder{Cache: real, faults: c.Faults}
	res = &Result{}
	ssn, oerr := framework.OpenSession(rec, sc, params, "", &http.ServeMux{})
	if oerr != nil {
		res.OpenErr = oerr
		res.After = w.Clone()
		return res, nil
	}
	acts, aerr := conf_util.GetActionsFromConfig(sc)
	if aerr != nil {
		return nil, aerr
	}
	func() {
		defer func() {
			if r := recover(); r != nil {
				buf := make([]byte, 4096)
				buf = buf[:runtime.Stack(buf, false)]
				res.Panic = fmt.Sprintf("%v\n%s", r, buf)
			}
		}()
		for _, a := range acts {
			rec.curAction = string(a.Name())
			a.Execute(ssn)
			if obs != nil {
				rec.mu.Lock()
				ds := append([]Decision{}, rec.decisions...)
				rec.mu.Unlock()
				obs.AfterAction(string(a.Name()), ssn, ds)
			}
		}
		framework.CloseSession(ssn)
	}()
	if res.Panic != "" {
		real.WaitForWorkers(stopCh)
	}
	idleStart := time.Now()
	// idle = nothing in flight, or only pod updates whose pod no longer exists: their patch failed
	// with NotFound, the updater keeps the entry but never retries it (inert)
	idle := func() bool {
		if wt.VerifStatusUpdaterIdle() {
			return true
		}
		pods, pgs := wt.VerifInFlightPods()
		if pgs {
			return false
		}
		for _, key := range pods {
			ns, name, ok := strings.Cut(key, "/")
			if !ok {
				return false
			}
			if _, gerr := kube.Tracker().Get(corev1.SchemeGroupVersion.WithResource("pods"), ns, name); gerr == nil {
				return false
			}
		}
		return true
	}
	for i := 0; !idle(); i++ {
		runtime.Gosched()
		if i > 1000 {
			time.Sleep(50 * time.Microsecond)
		}
		if time.Since(idleStart) > 10*time.Minute {
			return nil, fmt.Errorf("harness: status updater did not become idle; api errors: %v", cl.apiErrs)
		}
		cl.apiErrMu.Lock()
		nerr := len(cl.apiErrs)
		cl.apiErrMu.Unlock()
		if nerr >= 20 {
			return nil, fmt.Errorf("harness: status updater is retrying a failing write forever; api errors: %v", cl.apiErrs[:3])
		}
	}
	res.Decisions = rec.decisions
	res.APIErrors = cl.apiErrs
	res.After, err = ReadBack(w, kube, kai)
	if err == nil {
		cl.w = res.After
	}
	res.Duration = time.Since(start)
	return res, err
}

// ReadBack lists the store into a world (objects the scheduler cannot write are taken from w).
func ReadBack(w *world.World, kube *fake.Clientset, kai *kaifake.Clientset) (*world.World, error) {
	ctx := context.Background()
	out := &world.World{}
	for _, n := range w.Nodes {
		out.Nodes = append(out.Nodes, n.DeepCopy())
	}
	for _, q := range w.Queues {
		out.Queues = append(out.Queues, q.DeepCopy())
	}
	for _, q := range w.PriorityClasses {
		out.PriorityClasses = append(out.PriorityClasses, q.DeepCopy())
	}
	for _, q := range w.Topologies {
		out.Topologies = append(out.Topologies, q.DeepCopy())
	}
	for _, q := range w.ConfigMaps {
		out.ConfigMaps = append(out.ConfigMaps, q.DeepCopy())
	}
	pods, err := kube.CoreV1().Pods("").List(ctx, metav1.ListOptions{})
	if err != nil {
		return nil, err
	}
	for i := range pods.Items {
		p := pods.Items[i].DeepCopy()
		p.TypeMeta = metav1.TypeMeta{APIVersion: "v1", Kind: "Pod"}
		out.Pods = append(out.Pods, p)
	}
	sort.Slice(out.Pods, func(i, j int) bool {
		return out.Pods[i].Namespace+"/"+out.Pods[i].Name < out.Pods[j].Namespace+"/"+out.Pods[j].Name
	})
	pgs, err := kai.SchedulingV2alpha2().PodGroups("").List(ctx, metav1.ListOptions{})
	if err != nil {
		return nil, err
	}
	for i := range pgs.Items {
		out.PodGroups = append(out.PodGroups, pgs.Items[i].DeepCopy())
	}
	sort.Slice(out.PodGroups, func(i, j int) bool { return out.PodGroups[i].Name < out.PodGroups[j].Name })
	brs, err := kai.SchedulingV1alpha2().BindRequests("").List(ctx, metav1.ListOptions{})
	if err != nil {
		return nil, err
	}
	for i := range brs.Items {
		b := &brs.Items[i]
		if w.Pod(b.Spec.PodName) != nil && out.Pod(b.Spec.PodName) == nil {
			continue // its owner pod was deleted outright during the cycle: owner-reference GC
		}
		out.BindRequests = append(out.BindRequests, b.DeepCopy())
	}
	sort.Slice(out.BindRequests, func(i, j int) bool { return out.BindRequests[i].Name < out.BindRequests[j].Name })
	if w.HasDRA() {
		claims, err := kube.ResourceV1().ResourceClaims("").List(ctx, metav1.ListOptions{})
		if err != nil {
			return nil, err
		}
		for i := range claims.Items {
			c := claims.Items[i].DeepCopy()
			c.TypeMeta = metav1.TypeMeta{APIVersion: resourceapi.SchemeGroupVersion.String(), Kind: "ResourceClaim"}
			out.ResourceClaims = append(out.ResourceClaims, c)
		}
		slices, err := kube.ResourceV1().ResourceSlices().List(ctx, metav1.ListOptions{})
		if err != nil {
			return nil, err
		}
		for i := range slices.Items {
			c := slices.Items[i].DeepCopy()
			c.TypeMeta = metav1.TypeMeta{APIVersion: resourceapi.SchemeGroupVersion.String(), Kind: "ResourceSlice"}
			out.ResourceSlices = append(out.ResourceSlices, c)
		}
		classes, err := kube.ResourceV1().DeviceClasses().List(ctx, metav1.ListOptions{})
		if err != nil {
			return nil, err
		}
		for i := range classes.Items {
			c := classes.Items[i].DeepCopy()
			c.TypeMeta = metav1.TypeMeta{APIVersion: resourceapi.SchemeGroupVersion.String(), Kind: "DeviceClass"}
			out.DeviceClasses = append(out.DeviceClasses, c)
		}
		out.SortDRA()
	}
	return out, nil
}
