// Package maporder lets the harness own Go's map-iteration nondeterminism (needs the O-maporder
// overlay, see /verif/overlays/gen_maporder.sh). Without the overlay the build fails at link time.
package maporder

import _ "unsafe"

//go:linkname mapMode internal/runtime/maps.VerifMapMode
var mapMode uint32

//go:linkname mapSeed internal/runtime/maps.VerifMapSeed
var mapSeed uint64

// Set fixes the seed used for every map created / iterated from now on.
func Set(seed uint64) { mapSeed = seed; mapMode = 1 }

// Off restores Go's randomised behaviour.
func Off() { mapMode = 0 }
