package families

import (
	"k8s.io/apimachinery/pkg/api/resource"
	corev1 "k8s.io/api/core/v1"
	"strings"
	"fmt"

	"verif/mc/clustermc"
	"verif/mc/oracle"
	"verif/mc/schedrun"
	"verif/mc/world"
)

// capMenu: workload menu of the *cap* grammar (C01): shapes x lifecycle x queue/priority.
type menuItem struct {
	tag   string
	queue string
	pc    string
	pods  []world.PodSpec
	min   int32
}

func capMenu() []menuItem {
	var m []menuItem
	type sh struct {
		tag string
		s   world.Shape
	}
	shapes := []sh{{"cpu", shCPU}, {"g1", shG1}, {"g2", shG2}, {"f5", shF5}, {"mf2", shMF2}}
	// pending workloads in queue qa (train, preemptible) and qb (build p100, non-preemptible)
	for _, s := range shapes {
		m = append(m, menuItem{tag: "pend-" + s.tag + "-qa", queue: "qa", pc: "p50", pods: []world.PodSpec{{Shape: s.s}}})
	}
	m = append(m, menuItem{tag: "pend-g1-qb-np", queue: "qb", pc: "p100", pods: []world.PodSpec{{Shape: shG1}}})
	m = append(m, menuItem{tag: "pend-g1x2-qb", queue: "qb", pc: "p50", min: 2, pods: []world.PodSpec{{Shape: shG1}, {Shape: shG1}}})
	// occupying workloads on n1
	for _, s := range shapes {
		m = append(m, menuItem{tag: "run-" + s.tag + "-qa", queue: "qa", pc: "p50", pods: []world.PodSpec{{Shape: s.s, State: world.StRunning, Node: "n1"}}})
	}
	m = append(m, menuItem{tag: "term-g1-qa", queue: "qa", pc: "p50", pods: []world.PodSpec{{Shape: shG1, State: world.StTerminating, Node: "n1"}}})
	m = append(m, menuItem{tag: "term-cpu-qa", queue: "qa", pc: "p50", pods: []world.PodSpec{{Shape: shCPU, State: world.StTerminating, Node: "n1"}}})
	m = append(m, menuItem{tag: "term-f5-qa", queue: "qa", pc: "p50", pods: []world.PodSpec{{Shape: shF5, State: world.StTerminating, Node: "n1"}}})
	m = append(m, menuItem{tag: "binding-g1-qa", queue: "qa", pc: "p50", pods: []world.PodSpec{{Shape: shG1, State: world.StBinding, Node: "n1"}}})
	m = append(m, menuItem{tag: "binding-f5-qa", queue: "qa", pc: "p50", pods: []world.PodSpec{{Shape: shF5, State: world.StBinding, Node: "n1"}}})
	m = append(m, menuItem{tag: "run-g1-qb", queue: "qb", pc: "p50", pods: []world.PodSpec{{Shape: shG1, State: world.StRunning, Node: "n1"}}})
	return m
}

type nodeLayout struct {
	tag   string
	nodes []world.NodeOpt
}

func capLayouts(tier string) []nodeLayout {
	l := []nodeLayout{
		{"1n-2gpu-slots4", []world.NodeOpt{{Name: "n1", CPU: "4", Mem: "8Gi", Pods: 4, GPUs: 2, GPUMemMiB: 40000}}},
		{"2n", []world.NodeOpt{{Name: "n1", CPU: "4", Mem: "8Gi", Pods: 110, GPUs: 2, GPUMemMiB: 40000}, {Name: "n2", CPU: "2", Mem: "8Gi", Pods: 3, GPUs: 1, GPUMemMiB: 40000}}},
	}
	if tier == "thorough" {
		l = append(l, nodeLayout{"1n-1gpu-nolabel", []world.NodeOpt{{Name: "n1", CPU: "8", Mem: "8Gi", Pods: 3, GPUs: 1}}})
		l = append(l, nodeLayout{"3n", []world.NodeOpt{{Name: "n1", CPU: "4", Mem: "8Gi", Pods: 110, GPUs: 2, GPUMemMiB: 40000}, {Name: "n2", CPU: "2", Mem: "8Gi", Pods: 3, GPUs: 1, GPUMemMiB: 40000}, {Name: "n3", CPU: "4", Mem: "8Gi", Pods: 110, GPUs: 4, GPUMemMiB: 40000}}})
	}
	return l
}

func buildMenuWorld(layout nodeLayout, menu []menuItem, pick []int) *world.World {
	b := world.NewBuilder()
	for _, n := range layout.nodes {
		b.Node(n)
	}
	b.GQueue("dept", "", -1, -1, 1).GQueue("qa", "dept", 1, -1, 1).GQueue("qb", "dept", 1, -1, 1)
	for i, mi := range pick {
		it := menu[mi]
		pods := make([]world.PodSpec, len(it.pods))
		copy(pods, it.pods)
		for pi := range pods {
			if len(pods[pi].Groups) > 0 { // explicit shared groups are per workload instance
				gs := []string{}
				for _, g := range pods[pi].Groups {
					gs = append(gs, fmt.Sprintf("w%d-%s", i, g))
				}
				pods[pi].Groups = gs
			}
		}
		it.pods = pods
		b.Workload(world.WL{Name: fmt.Sprintf("w%d", i), Queue: it.queue, PC: it.pc, MinMember: it.min, Pods: it.pods})
	}
	return b.Done()
}

// podSlotScenarios: nodes with 2-4 pod slots; every way of asking for a GPU share (fraction, gpu-memory,
// two devices) next to whole-GPU and cpu pods. A pod that opens a new shared device brings the device's
// reservation pod to the node.
func podSlotScenarios(tier string) []clustermc.Scenario {
	var menu []menuItem
	for _, s := range []struct {
		tag string
		s   world.Shape
	}{{"cpu", shCPU}, {"g1", shG1}, {"f5", shF5}, {"m10", shM10}, {"mf2", shMF2}} {
		menu = append(menu, menuItem{tag: "pend-" + s.tag, queue: "qa", pc: "p50", pods: []world.PodSpec{{Shape: s.s}}})
		if s.tag != "mf2" {
			menu = append(menu, menuItem{tag: "run-" + s.tag, queue: "qa", pc: "p50", pods: []world.PodSpec{{Shape: s.s, State: world.StRunning, Node: "n1"}}})
		}
	}
	var out []clustermc.Scenario
	cfgs := []schedrun.Config{{}, {Placement: "spread", ConsolidatingReclaim: true}, {GpuSpread: true}}
	for _, slots := range []int{2, 3, 4} {
		lay := nodeLayout{fmt.Sprintf("slots-1n-2gpu-pods%d", slots), []world.NodeOpt{{Name: "n1", CPU: "8", Mem: "8Gi", Pods: slots, GPUs: 2, GPUMemMiB: 40000}}}
		for _, pick := range multisetsUpTo(len(menu), 3) {
			pending := false
			for _, i := range pick {
				pending = pending || menu[i].pods[0].State == ""
			}
			if !pending {
				continue
			}
			w := buildMenuWorld(lay, menu, pick)
			if oracle.Oversubscribed(w) {
				continue
			}
			tags := ""
			for _, i := range pick {
				tags += menu[i].tag + ","
			}
			out = append(out, clustermc.Scenario{Name: lay.tag + ":" + tags, World: w, Configs: cfgs})
		}
	}
	return out
}

func capScenarios(tier string) []clustermc.Scenario {
	menu := capMenu()
	k := 3
	var out []clustermc.Scenario
	cfgs := []schedrun.Config{{}, {Placement: "spread", NoConsolidation: true, ConsolidatingReclaim: true}}
	for _, lay := range capLayouts(tier) {
		picks := multisetsUpTo(len(menu), k)
		if tier == "thorough" {
			picks = append(picks, multisets(len(menu), 4)...)
		}
		for _, pick := range picks {
			// at least one pending workload, otherwise the scheduler has nothing to decide
			pending := false
			for _, i := range pick {
				if menu[i].pods[0].State == "" {
					pending = true
				}
			}
			if !pending {
				continue
			}
			tags := ""
			for _, i := range pick {
				tags += menu[i].tag + ","
			}
			out = append(out, clustermc.Scenario{Name: lay.tag + ":" + tags, World: buildMenuWorld(lay, menu, pick), Configs: cfgs})
		}
	}
	return out
}

// extScenarios: extended resources, MIG instances and pod slots, with near-zero cpu/memory requests
// (the scheduler's "best effort" shortcut must not apply to a pod that asks for a countable resource).
func extScenarios(tier string) []clustermc.Scenario {
	const foo, mig = "example.com/foo", "nvidia.com/mig-1g.5gb"
	tiny := func(extra map[string]int64) world.Shape { return world.Shape{CPUm: 5, MemMi: 5, Extra: extra} }
	norm := func(extra map[string]int64) world.Shape { return world.Shape{CPUm: 1000, MemMi: 512, Extra: extra} }
	one := func(tag, st string, sh world.Shape) menuItem {
		node := ""
		if st != "" {
			node = "n1"
		}
		return menuItem{tag: tag, queue: "qa", pc: "p50", pods: []world.PodSpec{{Shape: sh, State: st, Node: node}}}
	}
	menu := []menuItem{
		one("pend-foo-tiny", "", tiny(map[string]int64{foo: 1})),
		one("pend-foo", "", norm(map[string]int64{foo: 1})),
		one("pend-mig-tiny", "", tiny(map[string]int64{mig: 1})),
		one("pend-besteffort", "", world.Shape{}),
		one("pend-foo2-tiny", "", tiny(map[string]int64{foo: 2})),
		one("run-foo", world.StRunning, norm(map[string]int64{foo: 1})),
		one("term-foo", world.StTerminating, norm(map[string]int64{foo: 1})),
		one("term-foo-tiny", world.StTerminating, tiny(map[string]int64{foo: 1})),
		one("term-mig", world.StTerminating, norm(map[string]int64{mig: 1})),
		one("binding-foo", world.StBinding, norm(map[string]int64{foo: 1})),
		one("term-besteffort", world.StTerminating, world.Shape{}),
	}
	lays := []nodeLayout{
		{"ext-1n", []world.NodeOpt{{Name: "n1", CPU: "4", Mem: "8Gi", Pods: 3, GPUs: 1, GPUMemMiB: 40000, Extra: map[string]int64{foo: 1, mig: 1}}}},
		{"ext-2n", []world.NodeOpt{{Name: "n1", CPU: "4", Mem: "8Gi", Pods: 2, GPUs: 1, GPUMemMiB: 40000, Extra: map[string]int64{foo: 2, mig: 1}}, {Name: "n2", CPU: "2", Mem: "8Gi", Pods: 2, Extra: map[string]int64{foo: 1}}}},
	}
	k := 3
	if tier == "thorough" {
		k = 4
	}
	var out []clustermc.Scenario
	cfgs := []schedrun.Config{{}, {Placement: "spread", NoConsolidation: true, ConsolidatingReclaim: true}}
	for _, lay := range lays {
		for _, pick := range multisetsUpTo(len(menu), k) {
			pending := false
			tags := ""
			for _, i := range pick {
				if menu[i].pods[0].State == "" {
					pending = true
				}
				tags += menu[i].tag + ","
			}
			if !pending {
				continue
			}
			out = append(out, clustermc.Scenario{Name: lay.tag + ":" + tags, World: buildMenuWorld(lay, menu, pick), Configs: cfgs})
		}
	}
	return out
}

// podShapeScenarios: what a pod asks for is max(sum of app containers, largest init container) + pod
// overhead (RuntimeClass) - pods with init containers and / or overhead next to plain ones on nodes whose
// free CPU / memory lies between the possible readings of that formula.
func podShapeScenarios(tier string) []clustermc.Scenario {
	q := func(cpu, mem string) corev1.ResourceList {
		return corev1.ResourceList{corev1.ResourceCPU: resource.MustParse(cpu), corev1.ResourceMemory: resource.MustParse(mem)}
	}
	initC := func(cpu, mem string) func(p *corev1.Pod) {
		return func(p *corev1.Pod) {
			p.Spec.InitContainers = append(p.Spec.InitContainers, corev1.Container{Name: "init", Image: "img", Resources: corev1.ResourceRequirements{Requests: q(cpu, mem), Limits: q(cpu, mem)}})
		}
	}
	overhead := func(cpu, mem string) func(p *corev1.Pod) {
		return func(p *corev1.Pod) { p.Spec.Overhead = q(cpu, mem) }
	}
	both := func(fs ...func(p *corev1.Pod)) func(p *corev1.Pod) {
		return func(p *corev1.Pod) {
			for _, f := range fs {
				f(p)
			}
		}
	}
	app := world.Shape{CPUm: 1000, MemMi: 1024}
	one := func(tag, st string, mut func(p *corev1.Pod)) menuItem {
		node := ""
		if st != "" {
			node = "n1"
		}
		return menuItem{tag: tag, queue: "qa", pc: "p50", pods: []world.PodSpec{{Shape: app, State: st, Node: node, Mutate: mut}}}
	}
	menu := []menuItem{
		one("pend-plain", "", nil),
		one("pend-init3", "", initC("3", "3Gi")),
		one("pend-ovh1", "", overhead("1", "1Gi")),
		one("pend-init3+ovh1", "", both(initC("3", "3Gi"), overhead("1", "1Gi"))),
		one("pend-init2+ovh2", "", both(initC("2", "2Gi"), overhead("2", "2Gi"))),
		one("run-plain", world.StRunning, nil),
		one("run-init3+ovh1", world.StRunning, both(initC("3", "3Gi"), overhead("1", "1Gi"))),
		one("term-plain", world.StTerminating, nil),
	}
	lays := []nodeLayout{
		{"shape-1n-cpu4", []world.NodeOpt{{Name: "n1", CPU: "4", Mem: "4Gi", Pods: 110, GPUs: 1, GPUMemMiB: 40000}}},
		{"shape-1n-cpu5", []world.NodeOpt{{Name: "n1", CPU: "5", Mem: "5Gi", Pods: 110, GPUs: 1, GPUMemMiB: 40000}}},
		{"shape-1n-cpu6", []world.NodeOpt{{Name: "n1", CPU: "6", Mem: "6Gi", Pods: 110, GPUs: 1, GPUMemMiB: 40000}}},
	}
	var out []clustermc.Scenario
	cfgs := []schedrun.Config{{}}
	for _, lay := range lays {
		for _, pick := range multisetsUpTo(len(menu), 3) {
			pending := false
			tags := ""
			for _, i := range pick {
				if menu[i].pods[0].State == "" {
					pending = true
				}
				tags += menu[i].tag + ","
			}
			if !pending {
				continue
			}
			w := buildMenuWorld(lay, menu, pick)
			if oracle.Oversubscribed(w) {
				continue
			}
			out = append(out, clustermc.Scenario{Name: lay.tag + ":" + tags, World: w, Configs: cfgs})
		}
	}
	return out
}

func C01() *clustermc.Family {
	return &clustermc.Family{
		Property:  "C01",
		Scenarios: func(tier string) []clustermc.Scenario {
			out := append(append(append(capScenarios(tier), extScenarios(tier)...), podShapeScenarios(tier)...), podSlotScenarios(tier)...)
			// fractional capacity that is only terminating must not be handed to a bind either: the share
			// grammar's worlds with a terminating sharer, judged by the per-device clauses as well
			for _, sc := range shareScenarios(tier) {
				if strings.Contains(sc.Name, "term-") {
					sc.Name = "share:" + sc.Name
					out = append(out, sc)
				}
			}
			return out
		},
		Depth: func(tier string) int {
			if tier == "thorough" {
				return 4
			}
			return 3
		},
		FaultDepth: func(tier string) int {
			if tier == "thorough" {
				return 2
			}
			return 1
		},
		Env:     clustermc.EnvOpts{BindOK: true, Terminate: true},
		Oracles: []clustermc.Oracle{oracle.CapacityOracle("C01", "C02")},
	}
}
