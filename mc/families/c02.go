package families

import (
	corev1 "k8s.io/api/core/v1"
	"fmt"

	"verif/mc/clustermc"
	"verif/mc/oracle"
	"verif/mc/schedrun"
	"verif/mc/world"
)

// shareMenu: the *share* grammar (C02): sharing requests of every kind against existing group
// occupancies (running, terminating, binding sharers) and whole-GPU competitors.
func shareMenu() []menuItem {
	var m []menuItem
	type sh struct {
		tag string
		s   world.Shape
	}
	// m80: gpu-memory of exactly TWICE a device's memory (no device can hold it)
	pend := []sh{{"f3", shF3}, {"f5", shF5}, {"f7", shF7}, {"m10", shM10}, {"m30", shM30}, {"mf2", shMF2}, {"g1", shG1}, {"g2", shG2}, {"m80", world.Shape{CPUm: 500, GPUMem: "80000"}}}
	for _, s := range pend {
		m = append(m, menuItem{tag: "pend-" + s.tag, queue: "qa", pc: "p50", pods: []world.PodSpec{{Shape: s.s}}})
	}
	occ := []sh{{"f5", shF5}, {"f7", shF7}, {"m30", shM30}, {"mf2", shMF2}, {"g1", shG1}}
	for _, s := range occ {
		m = append(m, menuItem{tag: "run-" + s.tag, queue: "qa", pc: "p50", pods: []world.PodSpec{{Shape: s.s, State: world.StRunning, Node: "n1"}}})
	}
	m = append(m, menuItem{tag: "term-f5", queue: "qa", pc: "p50", pods: []world.PodSpec{{Shape: shF5, State: world.StTerminating, Node: "n1"}}})
	m = append(m, menuItem{tag: "term-f7", queue: "qa", pc: "p50", pods: []world.PodSpec{{Shape: shF7, State: world.StTerminating, Node: "n1"}}})
	m = append(m, menuItem{tag: "binding-f5", queue: "qa", pc: "p50", pods: []world.PodSpec{{Shape: shF5, State: world.StBinding, Node: "n1"}}})
	m = append(m, menuItem{tag: "binding-mf2", queue: "qa", pc: "p50", pods: []world.PodSpec{{Shape: shMF2, State: world.StBinding, Node: "n1"}}})
	// two sharers of ONE device (f3 running + f5 terminating on the same group)
	m = append(m, menuItem{tag: "run-f3+term-f5-samegroup", queue: "qa", pc: "p50", pods: []world.PodSpec{
		{Shape: shF3, State: world.StRunning, Node: "n1", Groups: []string{"shared-A"}},
		{Shape: shF5, State: world.StTerminating, Node: "n1", Groups: []string{"shared-A"}}}})
	return m
}

func shareLayouts(tier string) []nodeLayout {
	l := []nodeLayout{
		{"1n-2gpu", []world.NodeOpt{{Name: "n1", CPU: "8", Mem: "8Gi", Pods: 110, GPUs: 2, GPUMemMiB: 40000}}},
		{"1n-1gpu-nomemlabel", []world.NodeOpt{{Name: "n1", CPU: "8", Mem: "8Gi", Pods: 110, GPUs: 1}}},
	}
	if tier == "thorough" {
		l = append(l, nodeLayout{"2n", []world.NodeOpt{{Name: "n1", CPU: "8", Mem: "8Gi", Pods: 110, GPUs: 2, GPUMemMiB: 40000}, {Name: "n2", CPU: "8", Mem: "8Gi", Pods: 110, GPUs: 1, GPUMemMiB: 40000}}})
		l = append(l, nodeLayout{"1n-2gpu-pods5", []world.NodeOpt{{Name: "n1", CPU: "8", Mem: "8Gi", Pods: 5, GPUs: 2, GPUMemMiB: 40000}}})
	}
	return l
}

func shareScenarios(tier string) []clustermc.Scenario {
	menu := shareMenu()
	var out []clustermc.Scenario
	// third configuration: what the operator deploys for the GPU placement strategy "spread" (the GPUs of
	// a node are ordered by the gpuspread plugin instead of gpupack)
	cfgs := []schedrun.Config{{}, {Placement: "spread", ConsolidatingReclaim: true}, {GpuSpread: true}}
	for _, lay := range shareLayouts(tier) {
		picks := multisetsUpTo(len(menu), 3)
		if tier == "thorough" {
			picks = append(picks, multisets(len(menu), 4)...)
		}
		for _, pick := range picks {
			pending := false
			for _, i := range pick {
				if menu[i].pods[0].State == "" {
					pending = true
				}
			}
			if !pending {
				continue
			}
			tags := ""
			for _, i := range pick {
				tags += menu[i].tag + ","
			}
			out = append(out, clustermc.Scenario{Name: lay.tag + ":" + tags, World: buildMenuWorld(lay, menu, pick), Configs: cfgs})
		}
	}
	return out
}

// shareGangFaultScenarios: fractional GANGS (several allocations committed by one statement) next to
// single sharers, explored with every single bind failing in turn - a failed bind in the middle of
// a statement must not free what the statement's earlier, successful binds occupy.
func shareGangFaultScenarios(tier string) []clustermc.Scenario {
	menu := []menuItem{
		{tag: "pend-gang2-f5", queue: "qa", pc: "p50", min: 2, pods: []world.PodSpec{{Shape: shF5}, {Shape: shF5}}},
		{tag: "pend-gang2-f3", queue: "qa", pc: "p50", min: 2, pods: []world.PodSpec{{Shape: shF3}, {Shape: shF3}}},
		{tag: "pend-gang3-f5", queue: "qa", pc: "p50", min: 3, pods: []world.PodSpec{{Shape: shF5}, {Shape: shF5}, {Shape: shF5}}},
		{tag: "pend-gang2-f5+g1", queue: "qa", pc: "p50", min: 2, pods: []world.PodSpec{{Shape: shF5}, {Shape: shG1}}},
		{tag: "pend-f5", queue: "qa", pc: "p50", pods: []world.PodSpec{{Shape: shF5}}},
		{tag: "pend-f7", queue: "qa", pc: "p50", pods: []world.PodSpec{{Shape: shF7}}},
		{tag: "pend-mf2", queue: "qa", pc: "p50", pods: []world.PodSpec{{Shape: shMF2}}},
		{tag: "run-f5", queue: "qa", pc: "p50", pods: []world.PodSpec{{Shape: shF5, State: world.StRunning, Node: "n1"}}},
		{tag: "run-f3", queue: "qa", pc: "p50", pods: []world.PodSpec{{Shape: shF3, State: world.StRunning, Node: "n1"}}},
		{tag: "term-f5", queue: "qa", pc: "p50", pods: []world.PodSpec{{Shape: shF5, State: world.StTerminating, Node: "n1"}}},
	}
	variant := &clustermc.Family{
		Property:   "C02",
		Depth:      func(string) int { return 2 },
		FaultDepth: func(tier string) int { return 1 },
		Env:        clustermc.EnvOpts{BindOK: true, Terminate: true},
		Oracles:    []clustermc.Oracle{oracle.CapacityOracle("C02")},
	}
	lays := []nodeLayout{
		{"1n-2gpu", []world.NodeOpt{{Name: "n1", CPU: "8", Mem: "8Gi", Pods: 110, GPUs: 2, GPUMemMiB: 40000}}},
		{"1n-3gpu", []world.NodeOpt{{Name: "n1", CPU: "8", Mem: "8Gi", Pods: 110, GPUs: 3, GPUMemMiB: 40000}}},
	}
	k := 3
	if tier == "thorough" {
		k = 4
	}
	var out []clustermc.Scenario
	for _, lay := range lays {
		for _, pick := range multisetsUpTo(len(menu), k) {
			gang := false
			for _, i := range pick {
				if menu[i].min >= 2 {
					gang = true
				}
			}
			if !gang {
				continue
			}
			tags := ""
			for _, i := range pick {
				tags += menu[i].tag + ","
			}
			out = append(out, clustermc.Scenario{Name: "gangfault:" + lay.tag + ":" + tags, World: buildMenuWorld(lay, menu, pick), Configs: []schedrun.Config{{}, {Placement: "spread", ConsolidatingReclaim: true}}, Variant: variant})
		}
	}
	return out
}

// pinnedGangShareScenarios: a fractional gang whose members are pinned to DIFFERENT nodes, one of
// which only has terminating capacity: the member that was allocated on an idle GPU is converted to a
// nomination together with the rest of the gang, and the device group it opened must not be treated as
// a real device by the pods that follow (a whole-GPU pod and a fractional pod, in every creation order).
func pinnedGangShareScenarios(tier string) []clustermc.Scenario {
	pin := func(pool string) func(p *corev1.Pod) {
		return func(p *corev1.Pod) { p.Spec.NodeSelector = map[string]string{"pool": pool} }
	}
	type item struct {
		tag string
		wl  world.WL
	}
	gang := item{"gang2-f5(x,y)", world.WL{Queue: "qa", PC: "p50", MinMember: 2, Pods: []world.PodSpec{{Shape: shF5, Mutate: pin("x")}, {Shape: shF5, Mutate: pin("y")}}}}
	whole := item{"pend-g1(x)", world.WL{Queue: "qa", PC: "p50", Pods: []world.PodSpec{{Shape: shG1, Mutate: pin("x")}}}}
	frac := item{"pend-f5(x)", world.WL{Queue: "qa", PC: "p50", Pods: []world.PodSpec{{Shape: shF5, Mutate: pin("x")}}}}
	frac3 := item{"pend-f3(x)", world.WL{Queue: "qa", PC: "p50", Pods: []world.PodSpec{{Shape: shF3, Mutate: pin("x")}}}}
	orders := [][]item{{gang, whole, frac}, {gang, frac, whole}, {whole, gang, frac}, {frac, gang, whole}, {gang, frac}, {gang, whole}, {gang, frac, frac3}, {gang, frac3, whole}}
	var out []clustermc.Scenario
	for _, n1gpus := range []int{1, 2} {
		for _, n1term := range []bool{false, true} {
			for oi, ord := range orders {
				b := world.NewBuilder()
				b.Node(world.NodeOpt{Name: "n1", CPU: "8", Mem: "8Gi", Pods: 110, GPUs: n1gpus, GPUMemMiB: 40000, Labels: map[string]string{"pool": "x"}})
				b.Node(world.NodeOpt{Name: "n2", CPU: "8", Mem: "8Gi", Pods: 110, GPUs: 1, GPUMemMiB: 40000, Labels: map[string]string{"pool": "y"}})
				b.GQueue("dept", "", -1, -1, 1).GQueue("qa", "dept", 8, -1, 1)
				b.Workload(world.WL{Name: "t2", Queue: "qa", PC: "p50", Pods: []world.PodSpec{{Shape: shG1, State: world.StTerminating, Node: "n2"}}})
				if n1term {
					if n1gpus < 2 {
						continue
					}
					b.Workload(world.WL{Name: "t1", Queue: "qa", PC: "p50", Pods: []world.PodSpec{{Shape: shG1, State: world.StTerminating, Node: "n1"}}})
				}
				tags := ""
				for i, it := range ord {
					wl := it.wl
					wl.Name = fmt.Sprintf("w%d", i)
					b.Workload(wl)
					tags += it.tag + ","
				}
				out = append(out, clustermc.Scenario{Name: fmt.Sprintf("pinned-gang:n1=%dgpu,term=%v:order%d:%s", n1gpus, n1term, oi, tags), World: b.Done(), Configs: []schedrun.Config{{}, {Placement: "spread", ConsolidatingReclaim: true}}})
			}
		}
	}
	return out
}

func C02() *clustermc.Family {
	return &clustermc.Family{
		Property:  "C02",
		Scenarios: func(tier string) []clustermc.Scenario { return append(append(shareScenarios(tier), shareGangFaultScenarios(tier)...), pinnedGangShareScenarios(tier)...) },
		Depth: func(tier string) int {
			if tier == "thorough" {
				return 4
			}
			return 3
		},
		FaultDepth: func(tier string) int {
			if tier == "thorough" {
				return 1
			}
			return 0
		},
		// BindPartial: the binder is between two device reservations of a multi-device pod (the pod carries the
		// label of its first group only while its BindRequest still lists all of them)
		Env:     clustermc.EnvOpts{BindOK: true, BindPartial: true, Terminate: true},
		Oracles: []clustermc.Oracle{oracle.CapacityOracle("C02")},
	}
}

var _ = fmt.Sprintf
