package families

import (
	corev1 "k8s.io/api/core/v1"
	"github.com/NVIDIA/KAI-scheduler/pkg/scheduler/framework"

	"verif/mc/clustermc"
	"verif/mc/oracle"
	"verif/mc/schedrun"
	"verif/mc/sessioncheck"
	"verif/mc/world"
)

type fairShareObserver struct{ data oracle.FairShareData }

func (o *fairShareObserver) SessionOpened(ssn *framework.Session) {
	fs, err := sessioncheck.FairShares(ssn)
	if err != nil {
		o.data.Err = err.Error()
		return
	}
	o.data.Fair = map[string]oracle.Quant{}
	for q, v := range fs {
		o.data.Fair[q] = oracle.Quant{GPU: v.GPU, CPU: v.CPU, Mem: v.Mem}
	}
}
func (o *fairShareObserver) AfterAction(string, *framework.Session, []schedrun.Decision) {}
func (o *fairShareObserver) Data() any                                                { return o.data }

func reclaimMenu() []wlItem {
	var m []wlItem
	for _, q := range []string{"qa", "qb", "qc"} {
		m = append(m, wlItem{"run-g1-" + q, world.WL{Queue: q, Pods: pods(1, shG1, world.StRunning, "n1")}})
		m = append(m, wlItem{"pend-g1-" + q, world.WL{Queue: q, Pods: pods(1, shG1, "", "")}})
	}
	m = append(m, wlItem{"run-g1x2-qb", world.WL{Queue: "qb", MinMember: 1, Pods: pods(2, shG1, world.StRunning, "n1")}})
	m = append(m, wlItem{"run-f5-qb", world.WL{Queue: "qb", Pods: pods(1, shF5, world.StRunning, "n1")}})
	m = append(m, wlItem{"run-g1-np-qb", world.WL{Queue: "qb", PC: "p100", Pods: pods(1, shG1, world.StRunning, "n1")}})
	m = append(m, wlItem{"run-g1-n2-qc", world.WL{Queue: "qc", Pods: pods(1, shG1, world.StRunning, "n2")}})
	m = append(m, wlItem{"pend-gang2-qa", world.WL{Queue: "qa", MinMember: 2, Pods: pods(2, shG1, "", "")}})
	m = append(m, wlItem{"pend-g1-np-qc", world.WL{Queue: "qc", PC: "p100", Pods: pods(1, shG1, "", "")}})
	m = append(m, wlItem{"pend-g1-np-qa", world.WL{Queue: "qa", PC: "p100", Pods: pods(1, shG1, "", "")}})
	m = append(m, wlItem{"pend-f5-qc", world.WL{Queue: "qc", Pods: pods(1, shF5, "", "")}})
	return m
}

func reclaimQueues() []queueSetup {
	u := world.QUnlimited()
	g := func(q, l, w float64) world.QRes { return world.QRes{Quota: q, Limit: l, Weight: w} }
	one := 1
	zero := 0
	mk := func(tag string, qs ...world.QueueOpt) queueSetup {
		return queueSetup{tag, func(b *world.Builder) {
			for _, q := range qs {
				q.CPU, q.Mem = u, u
				b.Queue(q)
			}
		}}
	}
	return []queueSetup{
		mk("flat-q1q1q0", world.QueueOpt{Name: "qa", GPU: g(1, -1, 1)}, world.QueueOpt{Name: "qb", GPU: g(1, -1, 1)}, world.QueueOpt{Name: "qc", GPU: g(0, -1, 1)}),
		mk("flat-q0w1-q0w2-q0w1", world.QueueOpt{Name: "qa", GPU: g(0, -1, 1)}, world.QueueOpt{Name: "qb", GPU: g(0, -1, 2)}, world.QueueOpt{Name: "qc", GPU: g(0, -1, 1)}),
		mk("2lvl-d1q2(qa1,qb1)-d2q1(qc1)", world.QueueOpt{Name: "d1", GPU: g(2, -1, 1)}, world.QueueOpt{Name: "d2", GPU: g(1, -1, 1)},
			world.QueueOpt{Name: "qa", Parent: "d1", GPU: g(1, -1, 1)}, world.QueueOpt{Name: "qb", Parent: "d1", GPU: g(1, -1, 1)}, world.QueueOpt{Name: "qc", Parent: "d2", GPU: g(1, -1, 1)}),
		mk("2lvl-d1q1(qa1,qb0)-d2q1w2(qc0)", world.QueueOpt{Name: "d1", GPU: g(1, -1, 1)}, world.QueueOpt{Name: "d2", GPU: g(1, -1, 2)},
			world.QueueOpt{Name: "qa", Parent: "d1", GPU: g(1, -1, 1)}, world.QueueOpt{Name: "qb", Parent: "d1", GPU: g(0, -1, 1)}, world.QueueOpt{Name: "qc", Parent: "d2", GPU: g(0, -1, 1)}),
		mk("3lvl-org(d1(qa1,qb0),d2(qc1))", world.QueueOpt{Name: "org", GPU: g(-1, -1, 1)}, world.QueueOpt{Name: "d1", Parent: "org", GPU: g(1, -1, 1)}, world.QueueOpt{Name: "d2", Parent: "org", GPU: g(1, -1, 1)},
			world.QueueOpt{Name: "qa", Parent: "d1", GPU: g(1, -1, 1)}, world.QueueOpt{Name: "qb", Parent: "d1", GPU: g(0, -1, 1)}, world.QueueOpt{Name: "qc", Parent: "d2", GPU: g(1, -1, 1)}),
		mk("flat-prio-qa1-qb0-q0", world.QueueOpt{Name: "qa", GPU: g(0, -1, 1), Priority: &one}, world.QueueOpt{Name: "qb", GPU: g(0, -1, 1), Priority: &zero}, world.QueueOpt{Name: "qc", GPU: g(0, -1, 1), Priority: &zero}),
		mk("flat-q1-limit1-q1-q1", world.QueueOpt{Name: "qa", GPU: g(1, 1, 1)}, world.QueueOpt{Name: "qb", GPU: g(1, -1, 1)}, world.QueueOpt{Name: "qc", GPU: g(1, -1, 1)}),
	}
}

// crossDeptScenarios: a reclaimer of one department whose victims sit in SEVERAL leaf queues of
// another department that is only slightly above its deserved quota (fragmented over two nodes).
func crossDeptScenarios(tier string) []clustermc.Scenario {
	menu := []wlItem{
		{"run-g1-qb", world.WL{Queue: "qb", Pods: pods(1, shG1, world.StRunning, "n1")}},
		{"run-g1-qc", world.WL{Queue: "qc", Pods: pods(1, shG1, world.StRunning, "n1")}},
		{"run-g1-n2-qc", world.WL{Queue: "qc", Pods: pods(1, shG1, world.StRunning, "n2")}},
		{"run-g1-n2-qb", world.WL{Queue: "qb", Pods: pods(1, shG1, world.StRunning, "n2")}},
		{"pend-g2-qa", world.WL{Queue: "qa", Pods: pods(1, shG2, "", "")}},
		{"pend-gang2-qa", world.WL{Queue: "qa", MinMember: 2, Pods: pods(2, shG1, "", "")}},
		{"pend-g1-qa", world.WL{Queue: "qa", Pods: pods(1, shG1, "", "")}},
	}
	u := world.QUnlimited()
	g := func(q float64) world.QRes { return world.QRes{Quota: q, Limit: -1, Weight: 1} }
	var qsets []queueSetup
	for _, d2 := range []float64{1, 2, 3} {
		d2 := d2
		qsets = append(qsets, queueSetup{name("xdept-d1q2(qa2)-d2(qb1,qc1)-d2quota", []int{int(d2)}), func(b *world.Builder) {
			for _, q := range []world.QueueOpt{{Name: "d1", GPU: g(2)}, {Name: "d2", GPU: g(d2)}, {Name: "qa", Parent: "d1", GPU: g(2)},
				{Name: "qb", Parent: "d2", GPU: g(1)}, {Name: "qc", Parent: "d2", GPU: g(1)}} {
				q.CPU, q.Mem = u, u
				b.Queue(q)
			}
		}})
	}
	lay := []nodeLayout{{"2n-2+1gpu", []world.NodeOpt{{Name: "n1", CPU: "16", Mem: "32Gi", GPUs: 2, GPUMemMiB: 40000}, {Name: "n2", CPU: "16", Mem: "32Gi", GPUs: 1, GPUMemMiB: 40000}}},
		{"2n-2+2gpu", []world.NodeOpt{{Name: "n1", CPU: "16", Mem: "32Gi", GPUs: 2, GPUMemMiB: 40000}, {Name: "n2", CPU: "16", Mem: "32Gi", GPUs: 2, GPUMemMiB: 40000}}}}
	return wlScenarios(tier, menu, lay, qsets, []schedrun.Config{{}, {SaturationMultiplier: "1.5"}}, 4, 5)
}

// multiReclaimerScenarios: SEVERAL reclaimers (different leaf queues of one department) act in one
// cycle against a department that is above its deserved quota by less than their joint demand.
// What an earlier reclaimer of the cycle took must be visible to the later ones at every level of
// the hierarchy (4-6 workloads of a 5-item menu).
func multiReclaimerScenarios(tier string) []clustermc.Scenario {
	menu := []wlItem{
		{"run-g1-qc", world.WL{Queue: "qc", Pods: pods(1, shG1, world.StRunning, "n1")}},
		{"pend-g1-qa", world.WL{Queue: "qa", Pods: pods(1, shG1, "", "")}},
		{"pend-g1-qb", world.WL{Queue: "qb", Pods: pods(1, shG1, "", "")}},
		{"pend-g1-np-qb", world.WL{Queue: "qb", PC: "p100", Pods: pods(1, shG1, "", "")}},
		{"run-g1-qa", world.WL{Queue: "qa", Pods: pods(1, shG1, world.StRunning, "n1")}},
	}
	u := world.QUnlimited()
	g := func(q float64) world.QRes { return world.QRes{Quota: q, Limit: -1, Weight: 1} }
	mk := func(tag string, qs ...world.QueueOpt) queueSetup {
		return queueSetup{tag, func(b *world.Builder) {
			for _, q := range qs {
				q.CPU, q.Mem = u, u
				b.Queue(q)
			}
		}}
	}
	qsets := []queueSetup{
		mk("multi-d1q2(qa1,qb1)-d2q1(qc1)", world.QueueOpt{Name: "d1", GPU: g(2)}, world.QueueOpt{Name: "d2", GPU: g(1)},
			world.QueueOpt{Name: "qa", Parent: "d1", GPU: g(1)}, world.QueueOpt{Name: "qb", Parent: "d1", GPU: g(1)}, world.QueueOpt{Name: "qc", Parent: "d2", GPU: g(1)}),
		mk("multi-d1q2(qa1,qb1)-d2q2(qc2)", world.QueueOpt{Name: "d1", GPU: g(2)}, world.QueueOpt{Name: "d2", GPU: g(2)},
			world.QueueOpt{Name: "qa", Parent: "d1", GPU: g(1)}, world.QueueOpt{Name: "qb", Parent: "d1", GPU: g(1)}, world.QueueOpt{Name: "qc", Parent: "d2", GPU: g(2)}),
		mk("multi-3lvl-org(d1q2(qa1,qb1),d2q1(qc1))", world.QueueOpt{Name: "org", GPU: g(-1)}, world.QueueOpt{Name: "d1", Parent: "org", GPU: g(2)}, world.QueueOpt{Name: "d2", Parent: "org", GPU: g(1)},
			world.QueueOpt{Name: "qa", Parent: "d1", GPU: g(1)}, world.QueueOpt{Name: "qb", Parent: "d1", GPU: g(1)}, world.QueueOpt{Name: "qc", Parent: "d2", GPU: g(1)}),
	}
	lay := []nodeLayout{
		{"1n-2gpu", []world.NodeOpt{{Name: "n1", CPU: "16", Mem: "32Gi", GPUs: 2, GPUMemMiB: 40000}}},
		{"1n-3gpu", []world.NodeOpt{{Name: "n1", CPU: "16", Mem: "32Gi", GPUs: 3, GPUMemMiB: 40000}}},
		{"1n-4gpu", []world.NodeOpt{{Name: "n1", CPU: "16", Mem: "32Gi", GPUs: 4, GPUMemMiB: 40000}}},
	}
	kMax := 5
	if tier == "thorough" {
		kMax = 6
	}
	return wlScenariosRange(menu, lay, qsets, []schedrun.Config{{}, {SaturationMultiplier: "1.5"}}, 4, kMax)
}

// unbalancedTreeScenarios: the reclaimer's leaf and the victim's leaf sit at DIFFERENT depths
// (dA/qa against dB/tB1/qb and dB/tB2/qc). The level at which the two sides diverge is the
// department; a team below it may well be above its own quota while its department is not. Pods are
// pinned to node pools so that an idle GPU elsewhere does not help the reclaimer.
func unbalancedTreeScenarios(tier string) []clustermc.Scenario {
	pin := func(ps []world.PodSpec, pool string) []world.PodSpec {
		for i := range ps {
			ps[i].Mutate = func(p *corev1.Pod) { p.Spec.NodeSelector = map[string]string{"pool": pool} }
		}
		return ps
	}
	menu := []wlItem{
		{"run-g1-qb-x", world.WL{Queue: "qb", Pods: pin(pods(1, shG1, world.StRunning, "n1"), "x")}},
		{"run-g1-qc-x", world.WL{Queue: "qc", Pods: pin(pods(1, shG1, world.StRunning, "n1"), "x")}},
		{"run-g1-qc-y", world.WL{Queue: "qc", Pods: pin(pods(1, shG1, world.StRunning, "n2"), "y")}},
		{"run-g1-qa-y", world.WL{Queue: "qa", Pods: pin(pods(1, shG1, world.StRunning, "n2"), "y")}},
		{"pend-g1-qa-x", world.WL{Queue: "qa", Pods: pin(pods(1, shG1, "", ""), "x")}},
		{"pend-g1-qc-x", world.WL{Queue: "qc", Pods: pin(pods(1, shG1, "", ""), "x")}},
		{"pend-g1-np-qa-x", world.WL{Queue: "qa", PC: "p100", Pods: pin(pods(1, shG1, "", ""), "x")}},
	}
	u := world.QUnlimited()
	g := func(q float64) world.QRes { return world.QRes{Quota: q, Limit: -1, Weight: 1} }
	var qsets []queueSetup
	for _, qa := range []float64{1, 2} {
		for _, db := range []float64{2, 1} {
			qa, db := qa, db
			qsets = append(qsets, queueSetup{name("unbalanced-dA(qa)-dB(tB1(qb),tB2(qc))-q", []int{int(qa), int(db)}), func(b *world.Builder) {
				for _, q := range []world.QueueOpt{{Name: "dA", GPU: g(qa)}, {Name: "dB", GPU: g(db)}, {Name: "qa", Parent: "dA", GPU: g(qa)},
					{Name: "tB1", Parent: "dB", GPU: g(1)}, {Name: "tB2", Parent: "dB", GPU: g(1)}, {Name: "qb", Parent: "tB1", GPU: g(1)}, {Name: "qc", Parent: "tB2", GPU: g(1)}} {
					q.CPU, q.Mem = u, u
					b.Queue(q)
				}
			}})
		}
	}
	lay := []nodeLayout{
		{"2n-2x+1y", []world.NodeOpt{{Name: "n1", CPU: "16", Mem: "32Gi", GPUs: 2, GPUMemMiB: 40000, Labels: map[string]string{"pool": "x"}}, {Name: "n2", CPU: "16", Mem: "32Gi", GPUs: 1, GPUMemMiB: 40000, Labels: map[string]string{"pool": "y"}}}},
		{"2n-2x+2y", []world.NodeOpt{{Name: "n1", CPU: "16", Mem: "32Gi", GPUs: 2, GPUMemMiB: 40000, Labels: map[string]string{"pool": "x"}}, {Name: "n2", CPU: "16", Mem: "32Gi", GPUs: 2, GPUMemMiB: 40000, Labels: map[string]string{"pool": "y"}}}},
	}
	kMax := 4
	if tier == "thorough" {
		kMax = 5
	}
	return wlScenariosRange(menu, lay, qsets, []schedrun.Config{{}, {SaturationMultiplier: "1.5", ConsolidatingReclaim: true}}, 2, kMax)
}

// mixedVictimScenarios: ONE reclaimer whose victims have to come from a sibling leaf queue of its own
// department AND from a foreign department (over-quota weights 0: fair share = deserved quota); the
// reclaimer's department must not end above its fair share and more saturated than the department it took from.
func mixedVictimScenarios(tier string) []clustermc.Scenario {
	menu := []wlItem{
		{"run-g1-a2", world.WL{Queue: "a2", Pods: pods(1, shG1, world.StRunning, "n1")}},
		{"run-g1-b1", world.WL{Queue: "b1", Pods: pods(1, shG1, world.StRunning, "n1")}},
		{"pend-g2-a1", world.WL{Queue: "a1", Pods: pods(1, shG2, "", "")}},
		{"pend-gang2-a1", world.WL{Queue: "a1", MinMember: 2, Pods: pods(2, shG1, "", "")}},
		{"pend-g1-a1", world.WL{Queue: "a1", Pods: pods(1, shG1, "", "")}},
	}
	u := world.QUnlimited()
	g := func(q float64) world.QRes { return world.QRes{Quota: q, Limit: -1, Weight: 0} }
	var qsets []queueSetup
	for _, da := range []float64{2, 3} {
		da := da
		qsets = append(qsets, queueSetup{name("mixed-dA(a1q2,a2q1)-dB(b1q2)-w0-dAquota", []int{int(da)}), func(b *world.Builder) {
			for _, q := range []world.QueueOpt{{Name: "dA", GPU: g(da)}, {Name: "dB", GPU: g(2)}, {Name: "a1", Parent: "dA", GPU: g(2)}, {Name: "a2", Parent: "dA", GPU: g(1)}, {Name: "b1", Parent: "dB", GPU: g(2)}} {
				q.CPU, q.Mem = u, u
				b.Queue(q)
			}
		}})
	}
	lay := []nodeLayout{
		{"1n-5gpu", []world.NodeOpt{{Name: "n1", CPU: "16", Mem: "32Gi", GPUs: 5, GPUMemMiB: 40000}}},
		{"1n-4gpu", []world.NodeOpt{{Name: "n1", CPU: "16", Mem: "32Gi", GPUs: 4, GPUMemMiB: 40000}}},
	}
	kMax := 6
	if tier == "thorough" {
		kMax = 7
	}
	return wlScenariosRange(menu, lay, qsets, []schedrun.Config{{}, {ConsolidatingReclaim: true}, {SaturationMultiplier: "1.5", ConsolidatingReclaim: true}}, 4, kMax)
}

// bigVictimGangScenarios: a GANG reclaimer of 1-GPU pods against victims of 2 GPUs in the other
// department: the victim recorded for the gang's first pod already frees the room for the second, so a
// solver can finish the gang without looking for new victims - while the reclaimer's DEPARTMENT, whose
// leaves' quotas over-subscribe it, is within its fair share with one pod of the gang and above it with two.
func bigVictimGangScenarios(tier string) []clustermc.Scenario {
	menu := []wlItem{
		{"run-g1-np-a2", world.WL{Queue: "a2", PC: "p100", Pods: pods(1, shG1, world.StRunning, "n1")}},
		{"run-g2-b1", world.WL{Queue: "b1", Pods: pods(1, shG2, world.StRunning, "n1")}},
		{"run-g1-np-b1", world.WL{Queue: "b1", PC: "p100", Pods: pods(1, shG1, world.StRunning, "n1")}},
		{"run-g1-b1", world.WL{Queue: "b1", Pods: pods(1, shG1, world.StRunning, "n1")}},
		{"pend-gang2-a1", world.WL{Queue: "a1", MinMember: 2, Pods: pods(2, shG1, "", "")}},
		{"pend-gang3-a1", world.WL{Queue: "a1", MinMember: 3, Pods: pods(3, shG1, "", "")}},
	}
	u := world.QUnlimited()
	var qsets []queueSetup
	for _, w := range []float64{0, 1} {
		w := w
		g := func(q float64) world.QRes { return world.QRes{Quota: q, Limit: -1, Weight: w} }
		qsets = append(qsets, queueSetup{name("biggang-dA2(a1q2,a2q1)-dB2(b1q2)-w", []int{int(w)}), func(b *world.Builder) {
			for _, q := range []world.QueueOpt{{Name: "dA", GPU: g(2)}, {Name: "dB", GPU: g(2)}, {Name: "a1", Parent: "dA", GPU: g(2)}, {Name: "a2", Parent: "dA", GPU: g(1)}, {Name: "b1", Parent: "dB", GPU: g(2)}} {
				q.CPU, q.Mem = u, u
				b.Queue(q)
			}
		}})
	}
	lay := []nodeLayout{{"1n-4gpu", []world.NodeOpt{{Name: "n1", CPU: "16", Mem: "32Gi", GPUs: 4, GPUMemMiB: 40000}}}}
	return wlScenariosRange(menu, lay, qsets, []schedrun.Config{{}, {ConsolidatingReclaim: true}, {SaturationMultiplier: "1.5", ConsolidatingReclaim: true}}, 3, 5)
}

func C07() *clustermc.Family {
	return &clustermc.Family{
		Property: "C07",
		Scenarios: func(tier string) []clustermc.Scenario {
			lay := []nodeLayout{
				{"1n-2gpu", []world.NodeOpt{{Name: "n1", CPU: "16", Mem: "32Gi", GPUs: 2, GPUMemMiB: 40000}}},
				{"2n-3+1gpu", []world.NodeOpt{{Name: "n1", CPU: "16", Mem: "32Gi", GPUs: 3, GPUMemMiB: 40000}, {Name: "n2", CPU: "16", Mem: "32Gi", GPUs: 1, GPUMemMiB: 40000}}},
			}
			cfgs := []schedrun.Config{{}, {SaturationMultiplier: "1.5", ConsolidatingReclaim: true}}
			return append(append(append(append(wlScenarios(tier, reclaimMenu(), lay, reclaimQueues(), cfgs, 3, 4), crossDeptScenarios(tier)...), multiReclaimerScenarios(tier)...), unbalancedTreeScenarios(tier)...), append(mixedVictimScenarios(tier), bigVictimGangScenarios(tier)...)...)
		},
		Depth: func(tier string) int {
			if tier == "thorough" {
				return 3
			}
			return 2
		},
		Env:         clustermc.EnvOpts{BindOK: true, Terminate: true},
		Oracles:     []clustermc.Oracle{oracle.ReclaimOracle(1)},
		NewObserver: func(*world.World, schedrun.Config) clustermc.ObserverWithData { return &fairShareObserver{} },
		Vacuity: func(x map[string]int) string {
			if x["cycles_without_fair_share_data"] > 0 {
				return "fair-share data missing in some cycles"
			}
			if x["reclaim_statements_checked"] < 100 || x["reclaim_across_departments"] < 10 {
				return "too few reclaim decisions were checked"
			}
			return ""
		},
	}
}
