package families

import (
	"encoding/json"
	"fmt"
	"os"
	"sort"
	"strings"
	"time"

	"golang.org/x/exp/maps"

	"github.com/NVIDIA/KAI-scheduler/pkg/scheduler/actions/common"
	"github.com/NVIDIA/KAI-scheduler/pkg/scheduler/api/eviction_info"
	"github.com/NVIDIA/KAI-scheduler/pkg/scheduler/api/pod_info"
	"github.com/NVIDIA/KAI-scheduler/pkg/scheduler/api/pod_status"
	"github.com/NVIDIA/KAI-scheduler/pkg/scheduler/api/podgroup_info"
	"github.com/NVIDIA/KAI-scheduler/pkg/scheduler/framework"

	"verif/mc/engine"
	"verif/mc/registry"
	"verif/mc/schedrun"
	"verif/mc/sessioncheck"
	"verif/mc/world"
)

// C13: what-if simulations are transactional. Inside a REAL session (opened through the real
// snapshot path, all plugins registered) every sequence, up to a depth bound, of the operations
// the actions issue on a Statement is executed and then discarded / rolled back; the canonical
// dump of the scheduler's view must equal the dump taken at that point. A second family commits
// the sequence and checks the emitted calls against the net effect of the steps still valid.

type c13Op struct {
	Kind string // allocjob | pipejob | evict | unevict | checkpoint | rollback | convert
	Arg  string // job or task name
	CP   int    // rollback target (index into checkpoints taken so far)
}

func (o c13Op) String() string {
	if o.Kind == "rollback" {
		return fmt.Sprintf("rollback(cp%d)", o.CP)
	}
	if o.Arg == "" {
		return o.Kind
	}
	return o.Kind + "(" + o.Arg + ")"
}

type c13Explorer struct {
	ssn       *framework.Session
	depth     int
	commit    bool
	maxSeq    int
	deadline  time.Time
	sequences int
	ops       int
	rollbacks int
	distinct  map[string]bool // distinct post-sequence dumps (before discard)
	viol      []engine.Violation
	bad       map[string]bool // sequences that violated (in an earlier session of this base): not extended
	verified  map[string]bool // sequences already verified in an earlier session
	corrupted bool            // the live session is no longer pristine: stop and restart
	samples   []string
	capHit    bool
	base      string
	lastDiff  string
	lastChanged map[string]bool // tasks whose dump line differs in the last rollback mismatch
	pairChecks int // sequences ending with [evict(t); unevict(t)] whose view was compared with the view before the pair
	claimSeqs int // sequences after which (before the discard) the claim view differs from the pristine one
}

func sortedJobs(ssn *framework.Session) []*podgroup_info.PodGroupInfo {
	js := maps.Values(ssn.ClusterInfo.PodGroupInfos)
	sort.Slice(js, func(i, j int) bool { return js[i].Name < js[j].Name })
	return js
}

func sortedTasksOf(j *podgroup_info.PodGroupInfo) []*pod_info.PodInfo {
	ts := maps.Values(j.GetAllPodsMap())
	sort.Slice(ts, func(a, b int) bool { return ts[a].Name < ts[b].Name })
	return ts
}

// enabled lists the well-formed next operations in the current session state.
func (e *c13Explorer) enabled(ncp int, stmtOps int, evictFree bool) []c13Op {
	var out []c13Op
	for _, j := range sortedJobs(e.ssn) {
		if podgroup_info.HasTasksToAllocate(j, true) {
			out = append(out, c13Op{Kind: "allocjob", Arg: j.Name})
		}
		if podgroup_info.HasTasksToAllocate(j, false) {
			out = append(out, c13Op{Kind: "pipejob", Arg: j.Name})
		}
		hasAllocated := false
		for _, t := range sortedTasksOf(j) {
			switch {
			case (t.Status == pod_status.Running || t.Status == pod_status.Bound || t.Status == pod_status.Binding) && !t.IsVirtualStatus:
				// victims are pods that really hold resources (actions never evict what they just placed)
				out = append(out, c13Op{Kind: "evict", Arg: t.Name})
			case t.Status == pod_status.Releasing && t.IsVirtualStatus:
				out = append(out, c13Op{Kind: "unevict", Arg: t.Name})
			}
			if t.Status == pod_status.Allocated && t.IsVirtualStatus {
				hasAllocated = true
			}
		}
		if hasAllocated && evictFree {
			// allocated-to-pipelined conversion is issued by the allocate action only, on statements
			// that hold nothing but that job's allocation (no evictions)
			out = append(out, c13Op{Kind: "convert", Arg: j.Name})
		}
	}
	if stmtOps > 0 {
		out = append(out, c13Op{Kind: "checkpoint"})
	}
	for i := 0; i < ncp; i++ {
		out = append(out, c13Op{Kind: "rollback", CP: i})
	}
	return out
}

func (e *c13Explorer) findTask(name string) *pod_info.PodInfo {
	for _, j := range e.ssn.ClusterInfo.PodGroupInfos {
		for _, t := range j.GetAllPodsMap() {
			if t.Name == name {
				return t
			}
		}
	}
	return nil
}

func (e *c13Explorer) findJob(name string) *podgroup_info.PodGroupInfo {
	for _, j := range e.ssn.ClusterInfo.PodGroupInfos {
		if j.Name == name {
			return j
		}
	}
	return nil
}

type c13Run struct {
	stmt  *framework.Statement
	cps   []framework.Checkpoint
	dumps []string
	nops  int
}

// apply executes one op; returns a violation message if a rollback did not restore.
func (e *c13Explorer) apply(r *c13Run, op c13Op) string {
	e.ops++
	nodes := maps.Values(e.ssn.ClusterInfo.Nodes)
	sort.Slice(nodes, func(i, j int) bool { return nodes[i].Name < nodes[j].Name })
	switch op.Kind {
	case "allocjob":
		common.AllocateJob(e.ssn, r.stmt, nodes, e.findJob(op.Arg), false)
		r.nops++
	case "pipejob":
		common.AllocateJob(e.ssn, r.stmt, nodes, e.findJob(op.Arg), true)
		r.nops++
	case "evict":
		t := e.findTask(op.Arg)
		_ = r.stmt.Evict(t, "verif", eviction_info.EvictionMetadata{Action: "reclaim", EvictionGangSize: 1})
		r.nops++
	case "unevict":
		_ = r.stmt.Unevict(e.findTask(op.Arg))
		r.nops++
	case "convert":
		_ = r.stmt.ConvertAllAllocatedToPipelined(e.findJob(op.Arg).UID)
		r.nops++
	case "checkpoint":
		r.cps = append(r.cps, r.stmt.Checkpoint())
		r.dumps = append(r.dumps, sessioncheck.Dump(e.ssn))
	case "rollback":
		e.rollbacks++
		if err := r.stmt.Rollback(r.cps[op.CP]); err != nil {
			return "rollback returned error: " + err.Error()
		}
		if d := sessioncheck.Dump(e.ssn); d != r.dumps[op.CP] {
			e.lastDiff = "diff=" + diffClass(r.dumps[op.CP], d)
			return "state after Rollback differs from the state at the checkpoint:\n" + firstDiff(r.dumps[op.CP], d)
		}
		r.cps = r.cps[:op.CP+1]
		r.dumps = r.dumps[:op.CP+1]
	}
	return ""
}

func firstDiff(a, b string) string {
	la, lb := strings.Split(a, "\n"), strings.Split(b, "\n")
	var out []string
	n := len(la)
	if len(lb) > n {
		n = len(lb)
	}
	for i := 0; i < n && len(out) < 8; i++ {
		var x, y string
		if i < len(la) {
			x = la[i]
		}
		if i < len(lb) {
			y = lb[i]
		}
		if x != y {
			out = append(out, "  was: "+x, "  now: "+y)
		}
	}
	return strings.Join(out, "\n")
}

// diffClass names WHAT differs between two dumps (stable, small vocabulary).
func diffClass(a, b string) string {
	la, lb := strings.Split(a, "\n"), strings.Split(b, "\n")
	set := map[string]bool{}
	n := len(la)
	if len(lb) > n {
		n = len(lb)
	}
	field := func(l, name string) string {
		i := strings.Index(l, name+"=")
		if i < 0 {
			return ""
		}
		rest := l[i+len(name)+1:]
		if j := strings.Index(rest, " "); j >= 0 && !strings.HasPrefix(rest, "CPU") {
			rest = rest[:j]
		}
		return rest
	}
	for i := 0; i < n; i++ {
		var x, y string
		if i < len(la) {
			x = la[i]
		}
		if i < len(lb) {
			y = lb[i]
		}
		if x == y {
			continue
		}
		tx := strings.TrimSpace(x)
		if tx == "" {
			tx = strings.TrimSpace(y)
		}
		switch {
		case strings.HasPrefix(tx, "N "):
			// only the whole-GPU counters (Gpus / 3rd vector entry) differ?
			strip := func(l string) string {
				out := []string{}
				for _, f := range strings.Fields(l) {
					if strings.HasPrefix(f, "Gpus:") {
						continue
					}
					out = append(out, f)
				}
				return strings.Join(out, " ")
			}
			gpuOnly := func(a, b string) bool {
				fa, fb := strings.Fields(a), strings.Fields(b)
				if len(fa) != len(fb) {
					return false
				}
				for i := range fa {
					if fa[i] != fb[i] {
						prev := ""
						if i > 0 {
							prev = fa[i-1]
						}
						isGpuScalar := prev == "Gpus:"
						isVecGpu := i >= 2 && (strings.HasPrefix(fa[i-2], "idleV=[") || strings.HasPrefix(fa[i-2], "usedV=[") || strings.HasPrefix(fa[i-2], "relV=["))
						if !isGpuScalar && !isVecGpu {
							return false
						}
					}
				}
				return true
			}
			_ = strip
			if gpuOnly(x, y) {
				set["node-whole-gpu-counters"] = true
			} else {
				set["node-counters"] = true
			}
		case strings.HasPrefix(tx, "sharing "):
			set["node-device-memory"] = true
		case strings.HasPrefix(tx, "P "):
			set["node-pods"] = true
		case strings.HasPrefix(tx, "J "):
			set["job-counters"] = true
		case strings.HasPrefix(tx, "PS "):
			set["podset-counters"] = true
		case strings.HasPrefix(tx, "Q "):
			set["queue-usage"] = true
		case strings.HasPrefix(tx, "T "):
			sameState := field(x, "st") == field(y, "st") && field(x, "node") == field(y, "node") && field(x, "groups") == field(y, "groups")
			sameClaims := claimsOf(x) == claimsOf(y)
			switch {
			case sameState && sameClaims:
				set["task-virtual-flag"] = true
			case sameState:
				set["task-claim-devices"] = true
			default:
				set["task-state"] = true
			}
		case strings.HasPrefix(tx, "C "), strings.HasPrefix(tx, "CS "), strings.HasPrefix(tx, "CD "), strings.HasPrefix(tx, "CP "):
			set["claim-view"] = true
		default:
			set["other"] = true
		}
	}
	ks := maps.Keys(set)
	sort.Strings(ks)
	return strings.Join(ks, "+")
}

// claimsOf: the claims=[...] suffix of a task line of the dump.
func claimsOf(l string) string {
	if i := strings.Index(l, " claims="); i >= 0 {
		return l[i:]
	}
	return ""
}

// claimUndoClass refines the key of a violation that concerns resource claims (and only of those:
// every other key stays as it was): did the abandoned sequence already un-evict a pod before the
// final Discard / Rollback (un-evict; pipeline-only allocation of the victim's job, which un-evicts
// a victim that fits back; rollback across an eviction)? "undo=first" = the very first undo of an
// eviction restores the wrong claim devices; "undo=after-unevict" = only an eviction that was
// undone, redone (by undoing the un-eviction) and undone again does.
func claimUndoClass(diff string, changed map[string]bool, before []c13Op) string {
	if !strings.Contains(diff, "claim") {
		return ""
	}
	evicted := map[string]bool{}
	var cps []map[string]bool
	unevicted := map[string]bool{} // tasks un-evicted at least once before the final undo
	for _, o := range before {
		switch o.Kind {
		case "evict":
			evicted[o.Arg] = true
		case "unevict":
			if evicted[o.Arg] {
				unevicted[o.Arg] = true
				delete(evicted, o.Arg)
			}
		case "pipejob":
			for t := range evicted {
				if strings.HasPrefix(t, o.Arg+"-") {
					unevicted[t] = true
					delete(evicted, t)
				}
			}
		case "checkpoint":
			cps = append(cps, maps.Clone(evicted))
		case "rollback":
			if o.CP < len(cps) {
				for t := range evicted {
					if !cps[o.CP][t] {
						unevicted[t] = true
					}
				}
				evicted = maps.Clone(cps[o.CP])
				cps = cps[:o.CP+1]
			}
		}
	}
	for t := range unevicted {
		// (no task line differs, only the claim view: any earlier un-eviction counts)
		if changed[t] || len(changed) == 0 {
			return " undo=after-unevict"
		}
	}
	return " undo=first"
}

// claimPart: the resource-claim section of a dump (task claim devices + claim view lines).
func claimPart(d string) string {
	var sb strings.Builder
	for _, l := range strings.Split(d, "\n") {
		t := strings.TrimSpace(l)
		switch {
		case strings.HasPrefix(t, "T "):
			sb.WriteString(claimsOf(t) + "\n")
		case strings.HasPrefix(t, "C "), strings.HasPrefix(t, "CD "), strings.HasPrefix(t, "CP "):
			sb.WriteString(t + "\n")
		}
	}
	return sb.String()
}

// changedTasks: names of the tasks whose "T" line differs between two dumps.
func changedTasks(a, b string) map[string]bool {
	lines := func(d string) map[string]string {
		out := map[string]string{}
		for _, l := range strings.Split(d, "\n") {
			if t := strings.TrimSpace(l); strings.HasPrefix(t, "T ") {
				if f := strings.Fields(t); len(f) > 1 {
					out[f[1]] = t
				}
			}
		}
		return out
	}
	la, lb := lines(a), lines(b)
	out := map[string]bool{}
	for n, l := range la {
		if lb[n] != l {
			out[n] = true
		}
	}
	for n := range lb {
		if _, ok := la[n]; !ok {
			out[n] = true
		}
	}
	return out
}

func seqString(seq []c13Op) string {
	s := make([]string, len(seq))
	for i, o := range seq {
		s[i] = o.String()
	}
	return strings.Join(s, "; ")
}

func opClasses(seq []c13Op) string {
	set := map[string]bool{}
	for _, o := range seq {
		set[o.Kind] = true
	}
	ks := maps.Keys(set)
	sort.Strings(ks)
	return strings.Join(ks, "+")
}

// explore enumerates all well-formed sequences of length <= depth by DFS; every sequence is
// replayed from the pristine session (the previous one was discarded and verified restored).
func (e *c13Explorer) explore() {
	d0 := sessioncheck.Dump(e.ssn)
	var rec func(prefix []c13Op)
	rec = func(prefix []c13Op) {
		if e.corrupted || e.capHit {
			return
		}
		key := seqString(prefix)
		if e.bad[key] {
			return
		}
		if e.sequences >= e.maxSeq || time.Now().After(e.deadline) {
			e.capHit = true
			return
		}
		// replay prefix on a fresh statement
		if os.Getenv("VERIF_C13_TRACE") != "" {
			fmt.Fprintf(os.Stderr, "SEQ %s\n", key)
		}
		r := &c13Run{stmt: e.ssn.Statement()}
		// un-evict is the inverse of evict: when the sequence ends with [evict(t); unevict(t)] the view after
		// the pair must equal the view before it (whatever the statement did earlier, earlier evictions of
		// the same pod included)
		n := len(prefix)
		pairUndo := n >= 2 && prefix[n-2].Kind == "evict" && prefix[n-1].Kind == "unevict" && prefix[n-2].Arg == prefix[n-1].Arg && !e.verified[key]
		dPair := ""
		for i, op := range prefix {
			if pairUndo && i == n-2 {
				dPair = sessioncheck.Dump(e.ssn)
			}
			if msg := e.apply(r, op); msg != "" {
				e.bad[key], e.corrupted = true, true
				e.viol = append(e.viol, engine.Violation{Property: "C13", Key: "C13/rollback-does-not-restore " + e.lastDiff + " base=" + e.base + claimUndoClass(e.lastDiff, e.lastChanged, prefix[:len(prefix)-1]),
					Message: fmt.Sprintf("base %s, sequence [%s]: %s", e.base, seqString(prefix), msg), Replay: map[string]any{"base": e.base, "sequence": seqString(prefix)}})
				return
			}
		}
		var next []c13Op
		if len(prefix) < e.depth {
			evictFree := true
			for _, o := range prefix {
				if o.Kind == "evict" || o.Kind == "unevict" {
					evictFree = false
				}
			}
			// allocated-to-pipelined conversion: issued by the allocate action only, on a fresh statement
			// that holds nothing but that job's allocation, and followed by Commit alone
			// (attemptToAllocateJob). The conversion deletes the allocate operations from the statement's
			// list, so checkpoints and undo records taken before it no longer index what they did: it is
			// enabled only directly after allocjob(j) as the first operation, and it ends the sequence.
			convertFor := ""
			if len(prefix) == 1 && prefix[0].Kind == "allocjob" {
				convertFor = prefix[0].Arg
			}
			afterConvert := len(prefix) > 0 && prefix[len(prefix)-1].Kind == "convert"
			if !afterConvert {
				for _, op := range e.enabled(len(r.cps), r.nops, evictFree) {
					if op.Kind == "convert" && op.Arg != convertFor {
						continue
					}
					next = append(next, op)
				}
			}
		}
		if !e.verified[key] {
			e.sequences++
		}
		dBefore := sessioncheck.Dump(e.ssn)
		e.distinct[engine.HashKey(dBefore)] = true
		if pairUndo {
			e.pairChecks++
			if dBefore != dPair {
				e.bad[key] = true
				e.viol = append(e.viol, engine.Violation{Property: "C13", Key: "C13/unevict-does-not-undo-evict diff=" + diffClass(dPair, dBefore) + " base=" + e.base,
					Message: fmt.Sprintf("base %s, sequence [%s]: the view after the final evict/un-evict pair differs from the view before the pair:\n%s", e.base, seqString(prefix), firstDiff(dPair, dBefore)),
					Replay:  map[string]any{"base": e.base, "sequence": seqString(prefix)}})
			}
		}
		if !e.verified[key] && claimPart(dBefore) != claimPart(d0) {
			e.claimSeqs++
		}
		if len(e.samples) < 4 && len(prefix) == e.depth {
			e.samples = append(e.samples, seqString(prefix))
		}
		r.stmt.Discard()
		if d := sessioncheck.Dump(e.ssn); d != d0 {
			e.bad[key], e.corrupted = true, true
			e.viol = append(e.viol, engine.Violation{Property: "C13", Key: "C13/discard-does-not-restore diff=" + diffClass(d0, d) + " base=" + e.base + claimUndoClass(diffClass(d0, d), changedTasks(d0, d), prefix),
				Message: fmt.Sprintf("base %s, sequence [%s] then Discard: scheduler view differs from the view before the sequence:\n%s", e.base, seqString(prefix), firstDiff(d0, d)),
				Replay:  map[string]any{"base": e.base, "sequence": seqString(prefix)}})
			return
		}
		e.verified[key] = true
		for _, op := range next {
			rec(append(append([]c13Op{}, prefix...), op))
		}
	}
	rec(nil)
}

type c13Observer struct {
	ex *c13Explorer
}

func (o *c13Observer) SessionOpened(ssn *framework.Session) {
	o.ex.ssn = ssn
	o.ex.explore()
}
func (o *c13Observer) AfterAction(string, *framework.Session, []schedrun.Decision) {}

func c13Bases() map[string]*world.World {
	out := map[string]*world.World{}
	mk := func(name string, lay []world.NodeOpt, wls ...world.WL) {
		b := world.NewBuilder()
		for _, n := range lay {
			b.Node(n)
		}
		b.GQueue("dept", "", -1, -1, 1).GQueue("qa", "dept", 1, -1, 1).GQueue("qb", "dept", 1, -1, 1)
		for i, wl := range wls {
			wl.Name = fmt.Sprintf("w%d", i)
			b.Workload(wl)
		}
		out[name] = b.Done()
	}
	n2 := []world.NodeOpt{{Name: "n1", CPU: "8", Mem: "16Gi", GPUs: 2, GPUMemMiB: 40000}}
	n22 := []world.NodeOpt{{Name: "n1", CPU: "8", Mem: "16Gi", GPUs: 2, GPUMemMiB: 40000}, {Name: "n2", CPU: "8", Mem: "16Gi", GPUs: 1, GPUMemMiB: 40000}}
	mk("whole+fraction", n2,
		world.WL{Queue: "qb", Pods: pods(1, shG1, world.StRunning, "n1")},
		world.WL{Queue: "qb", Pods: pods(1, shF5, world.StRunning, "n1")},
		world.WL{Queue: "qa", Pods: pods(1, shG1, "", "")},
		world.WL{Queue: "qa", MinMember: 2, Pods: pods(2, shF5, "", "")})
	mk("shared-device-drift", n2,
		world.WL{Queue: "qa", Pods: []world.PodSpec{{Shape: shF3, State: world.StRunning, Node: "n1", Groups: []string{"A"}}, {Shape: shF5, State: world.StTerminating, Node: "n1", Groups: []string{"A"}}}},
		world.WL{Queue: "qa", Pods: pods(1, shF7, "", "")},
		world.WL{Queue: "qa", Pods: pods(1, shMF2, "", "")})
	// fractional pods on TWO nodes: an evicted sharer can be nominated onto the other node's device, and
	// undoing that has to put it back into its own device group
	n11 := []world.NodeOpt{{Name: "n1", CPU: "8", Mem: "16Gi", GPUs: 1, GPUMemMiB: 40000}, {Name: "n2", CPU: "8", Mem: "16Gi", GPUs: 1, GPUMemMiB: 40000}}
	mk("two-nodes-fractions", n11,
		world.WL{Queue: "qb", Pods: []world.PodSpec{{Shape: shF5, State: world.StRunning, Node: "n1", Groups: []string{"A"}}}},
		world.WL{Queue: "qb", Pods: []world.PodSpec{{Shape: shF3, State: world.StRunning, Node: "n2", Groups: []string{"B"}}}},
		world.WL{Queue: "qa", Pods: pods(1, shF5, "", "")})
	mk("two-nodes-gang", n22,
		world.WL{Queue: "qb", MinMember: 2, Pods: []world.PodSpec{{Shape: shG1, State: world.StRunning, Node: "n1"}, {Shape: shG1, State: world.StRunning, Node: "n2"}}},
		world.WL{Queue: "qa", Pods: pods(1, shG2, "", "")},
		world.WL{Queue: "qa", Pods: pods(1, shMF2, "", "")})
	mk("elastic+pending-fractions", n2,
		world.WL{Queue: "qb", MinMember: 1, Pods: pods(2, shG1, world.StRunning, "n1")},
		world.WL{Queue: "qa", Pods: pods(1, shF3, "", "")},
		world.WL{Queue: "qa", Pods: pods(1, shM30, "", "")})
	out["dra-claims"] = C13DRABase()
	return out
}

// C13DRABase: node n1 offers 2 DRA devices ("0", "1" in one ResourceSlice) and no device-plugin GPUs;
// node n2 offers 2 device-plugin GPUs (the scheduler refuses device-plugin GPU requests on a node
// with DRA GPUs — node_info.PredicateByNodeResourcesType — so ordinary GPU pods need their own node).
// w0 runs on n1 holding a claim allocated to device "1" and reserved for it alone (an eviction
// therefore drops the allocation, and a from-scratch re-allocation would pick the free device
// "0"); w1 is pending with an unallocated claim; w2 / w3 are an ordinary running / pending
// whole-GPU pod. Running on this world switches the DRA feature gate on (schedrun.Materialise).
func C13DRABase() *world.World {
	b := world.NewBuilder()
	b.Node(world.NodeOpt{Name: "n1", CPU: "8", Mem: "16Gi"})
	b.Node(world.NodeOpt{Name: "n2", CPU: "8", Mem: "16Gi", GPUs: 2, GPUMemMiB: 40000})
	DRANodeDevices(b, "n1", 2)
	b.GQueue("dept", "", -1, -1, 1).GQueue("qa", "dept", 1, -1, 1).GQueue("qb", "dept", 1, -1, 1)
	AddDRARunning(b, "w0", "qb", "n1", "1", world.WL{})
	AddDRAPending(b, "w1", "qa", world.WL{})
	b.Workload(world.WL{Name: "w2", Queue: "qb", Pods: pods(1, shG1, world.StRunning, "n2")})
	b.Workload(world.WL{Name: "w3", Queue: "qa", Pods: pods(1, shG1, "", "")})
	return b.Done()
}

// commitUniqueness: on committed statements of real cycles each pod is bound at most once and
// evicted at most once per cycle, and nothing is emitted for a pod that ends the cycle untouched.
func commitUniqueness(tier string, shard, n int) (cycles int, decisions int, viol []engine.Violation) {
	cfgs := []schedrun.Config{{}, {Placement: "spread", ConsolidatingReclaim: true}}
	scns := wlScenarios(tier, gangMenu(), gangLayouts(tier), []queueSetup{stdQueues()}, cfgs, 3, 3)
	lay := []nodeLayout{{"1n-2gpu", []world.NodeOpt{{Name: "n1", CPU: "16", Mem: "32Gi", GPUs: 2, GPUMemMiB: 40000}}}}
	scns = append(scns, wlScenarios(tier, victimMenu(), lay, victimQueues()[:1], cfgs, 3, 3)...)
	for i, sc := range scns {
		if i%n != shard {
			continue
		}
		for _, cfg := range sc.Configs {
			res, err := schedrun.RunCycle(sc.World, cfg, nil)
			if err != nil {
				continue
			}
			cycles++
			count := map[string]int{}
			for _, d := range res.Decisions {
				decisions++
				if d.Kind == "bind" || d.Kind == "evict" {
					count[d.Kind+" "+d.Pod]++
				}
			}
			// the same cycle with every single bind failing in turn: a commit that gives a bind up must
			// leave exactly the net effect of what it did emit - the queues are charged with the pods that
			// are still allocated (or nominated) and with nothing else, at every level
			for _, d := range res.Decisions {
				if d.Kind != "bind" || d.Failed {
					continue
				}
				fc := cfg
				fc.Faults = map[string]bool{"bind:" + d.Pod: true}
				obs := &accountingObserver{tr: sessioncheck.NewTracker()}
				if _, err := schedrun.RunCycle(sc.World, fc, obs); err != nil {
					continue
				}
				cycles++
				if obs.tr.SawEvictedNomination() {
					continue // queue usage of this cycle is governed by the open C14 finding (evicted nominations)
				}
				for _, p := range obs.problems {
					if !strings.HasPrefix(p.Key, "queue-") {
						continue
					}
					// which kind of job the failing pod belongs to, and in which direction the queues are off
					shape := "gang"
					for _, pg := range sc.World.PodGroups {
						if pg.Name == d.Group {
							n := 0
							for _, pod := range sc.World.Pods {
								if pod.Annotations["pod-group-name"] == pg.Name {
									n++
								}
							}
							if int(pg.Spec.MinMember) < n {
								shape = "elastic"
							}
						}
					}
					dir := "queues-charged-too-much"
					if strings.Contains(p.Msg, "= -") || queueUnder(p.Msg) {
						dir = "queues-charged-too-little"
					}
					viol = append(viol, engine.Violation{Property: "C13", Key: "C13/failed-bind-at-commit-changes-queue-usage " + p.Key + " job=" + shape + " " + dir,
						Message: fmt.Sprintf("scenario %s cfg %s with the bind of %s failing: %s", sc.Name, cfg.Label(), d.Pod, p.Msg),
						Replay:  map[string]any{"scenario": sc.Name, "world": json.RawMessage(sc.World.JSON()), "fault": "bind:" + d.Pod}})
					break
				}
			}
			for k, c := range count {
				if c > 1 {
					kind := strings.Fields(k)[0]
					viol = append(viol, engine.Violation{Property: "C13", Key: "C13/commit-emits-twice kind=" + kind,
						Message: fmt.Sprintf("scenario %s cfg %s: %s emitted %d times in one cycle: %s", sc.Name, cfg.Label(), k, c, decisionLogOf(res.Decisions)),
						Replay:  map[string]any{"scenario": sc.Name, "world": json.RawMessage(sc.World.JSON())}})
				}
			}
		}
	}
	return
}

func decisionLogOf(ds []schedrun.Decision) string {
	parts := []string{}
	for _, d := range ds {
		parts = append(parts, d.String())
	}
	return strings.Join(parts, "; ")
}

type c13Result struct {
	CommitCycles    int `json:"commit_cycles"`
	CommitDecisions int `json:"commit_decisions"`
	Base       string             `json:"base"`
	Sequences  int                `json:"sequences"`
	Ops        int                `json:"ops"`
	Rollbacks  int                `json:"rollbacks"`
	ClaimSeqs  int                `json:"claim_seqs"`
	PairChecks int                `json:"pair_checks"`
	Distinct   []string           `json:"distinct"`
	Samples    []string           `json:"samples"`
	CapHit     bool               `json:"cap_hit"`
	Violations []engine.Violation `json:"violations,omitempty"`
	Err        string             `json:"err,omitempty"`
}

func runC13(tier string) int {
	bases := c13Bases()
	names := maps.Keys(bases)
	sort.Strings(names)
	depth, maxSeq, budget := 5, 400000, 100*time.Second
	if tier == "thorough" {
		depth, maxSeq, budget = 6, 20000000, 20*time.Minute
	}
	if v := os.Getenv("VERIF_C13_DEPTH"); v != "" {
		fmt.Sscanf(v, "%d", &depth)
	}
	shard, n, isWorker := engine.WorkerShard()
	if isWorker {
		if shard >= len(names) { // extra workers: commit-uniqueness over real cycles
			cy, de, vi := commitUniqueness(tier, shard-len(names), n-len(names))
			engine.Emit(c13Result{Base: "commit-uniqueness", CommitCycles: cy, CommitDecisions: de, Violations: vi})
			engine.FlushEmit()
			return 0
		}
		for i, name := range names {
			if i != shard {
				continue
			}
			ex := &c13Explorer{depth: depth, maxSeq: maxSeq, deadline: time.Now().Add(budget), distinct: map[string]bool{}, base: name, bad: map[string]bool{}, verified: map[string]bool{}}
			var res *schedrun.Result
			var err error
			for restart := 0; restart < 25; restart++ { // a violating sequence corrupts the session: continue on a fresh one
				ex.corrupted = false
				res, err = schedrun.RunCycle(bases[name], schedrun.Config{Actions: "allocate"}, &c13Observer{ex})
				if err != nil || !ex.corrupted {
					break
				}
			}
			out := c13Result{Base: name, Sequences: ex.sequences, Ops: ex.ops, Rollbacks: ex.rollbacks, ClaimSeqs: ex.claimSeqs, PairChecks: ex.pairChecks, Distinct: maps.Keys(ex.distinct), Samples: ex.samples, CapHit: ex.capHit, Violations: ex.viol}
			if err != nil {
				out.Err = err.Error()
			} else if res.Panic != "" {
				out.Violations = append(out.Violations, engine.Violation{Property: "C13", Key: "C13/panic-in-statement-ops", Message: "base " + name + ": " + strings.SplitN(res.Panic, "\n", 2)[0]})
			}
			engine.Emit(out)
			engine.FlushEmit()
		}
		return 0
	}
	start := time.Now()
	rep := engine.NewReporter("C13")
	total := c13Result{}
	distinct := map[string]bool{}
	var samples []any
	herr := ""
	commitCycles, commitDecisions := 0, 0
	err := engine.RunWorkers(len(names)+8, nil, 6*1024*1024, func(w int, line []byte) {
		var r c13Result
		if json.Unmarshal(line, &r) != nil || r.Base == "" {
			return
		}
		if r.Base == "commit-uniqueness" {
			commitCycles += r.CommitCycles
			commitDecisions += r.CommitDecisions
			for _, v := range r.Violations {
				rep.Add(v)
			}
			return
		}
		total.Sequences += r.Sequences
		total.Ops += r.Ops
		total.Rollbacks += r.Rollbacks
		total.ClaimSeqs += r.ClaimSeqs
		total.PairChecks += r.PairChecks
		if bases[r.Base] != nil && bases[r.Base].HasDRA() && r.ClaimSeqs == 0 && len(r.Violations) == 0 && r.Err == "" {
			herr = "vacuous: base " + r.Base + " has DRA objects but no explored sequence changed the scheduler's claim view (is Dynamic Resource Allocation on?)"
		}
		total.CapHit = total.CapHit || r.CapHit
		for _, d := range r.Distinct {
			distinct[d] = true
		}
		samples = append(samples, map[string]any{"base": r.Base, "sequences": r.Sequences, "examples": r.Samples})
		if r.Err != "" {
			herr = r.Err
		}
		for _, v := range r.Violations {
			rep.Add(v)
		}
	})
	if err != nil || herr != "" {
		fmt.Fprintln(os.Stderr, "harness error:", err, herr)
		return 2
	}
	code := rep.Finish()
	cov := map[string]any{
		"states": len(distinct), "transitions": total.Ops, "traces_validated_against_impl": total.Sequences,
		"samples": samples, "sequences": total.Sequences, "operations_executed": total.Ops, "rollbacks_checked": total.Rollbacks, "sequences_changing_claim_view": total.ClaimSeqs, "evict_unevict_pairs_checked_as_inverse": total.PairChecks,
		"depth": depth, "bases": names, "commit_cycles_checked": commitCycles, "commit_decisions_checked": commitDecisions, "exhaustive": !total.CapHit, "cap_hit": total.CapHit,
		"evaluations": total.Sequences, "distinct_nontrivial": len(distinct),
		"rule": "all well-formed sequences (length <= depth) of {AllocateJob real, AllocateJob pipeline-only, Evict, Unevict, Checkpoint, Rollback(cp_i), ConvertAllAllocatedToPipelined} enabled in the live session state, from the base sessions (see bases) opened through the real snapshot path; each sequence ends with Discard; distinct = distinct scheduler views reached before the discard",
	}
	if len(rep.KnownHits()) > 0 {
		cov["known_finding_hits"] = rep.KnownHits()
	}
	_ = engine.WriteEvidence(&engine.Evidence{PropertyID: "C13", Tier: tier, Seed: engine.SeedFromEnv(), Level: "model_checking", Coverage: cov,
		Assumptions: []string{"operations are issued through the entry points the actions use (common.AllocateJob, Statement.Evict/Unevict/Checkpoint/Rollback/ConvertAllAllocatedToPipelined/Discard)", "the dump covers nodes (counters, vectors, pods, per-device maps), workloads (task status/node/groups/virtual flag/claim devices, counters), queue usage and resource claims (session snapshot; with DRA on also the DRA manager's live claims, allocated devices and pending allocations)", "base dra-claims runs with the DynamicResourceAllocation feature gate on (derived from the world), all other bases with the gate off"},
		WallS:       time.Since(start).Seconds(), Violations: rep.NewCount()})
	fmt.Printf("C13 %s: bases=%d sequences=%d ops=%d rollbacks=%d distinct-views=%d depth=%d exhaustive=%v wall=%.1fs\n", tier, len(names), total.Sequences, total.Ops, total.Rollbacks, len(distinct), depth, !total.CapHit, time.Since(start).Seconds())
	if total.Sequences < 100 || len(distinct) < 5 {
		fmt.Fprintln(os.Stderr, "harness error: vacuous")
		return 2
	}
	return code
}

func parseSeq(s string) []c13Op {
	var out []c13Op
	for _, part := range strings.Split(s, "; ") {
		part = strings.TrimSpace(part)
		if part == "" {
			continue
		}
		op := c13Op{}
		if i := strings.Index(part, "("); i > 0 {
			op.Kind = part[:i]
			arg := strings.TrimSuffix(part[i+1:], ")")
			if op.Kind == "rollback" {
				fmt.Sscanf(arg, "cp%d", &op.CP)
			} else {
				op.Arg = arg
			}
		} else {
			op.Kind = part
		}
		out = append(out, op)
	}
	return out
}

type c13ReplayObserver struct {
	base string
	seq  []c13Op
	bad  bool
}

func (o *c13ReplayObserver) SessionOpened(ssn *framework.Session) {
	ssn.AddEventHandler(&framework.EventHandler{
		AllocateFunc: func(e *framework.Event) {
			fmt.Printf("    event allocate   %s status=%s node=%s groups=%v\n", e.Task.Name, e.Task.Status, e.Task.NodeName, e.Task.GPUGroups)
		},
		DeallocateFunc: func(e *framework.Event) {
			fmt.Printf("    event deallocate %s status=%s node=%s groups=%v\n", e.Task.Name, e.Task.Status, e.Task.NodeName, e.Task.GPUGroups)
		},
	})
	ex := &c13Explorer{ssn: ssn, distinct: map[string]bool{}, base: o.base}
	d0 := sessioncheck.Dump(ssn)
	r := &c13Run{stmt: ssn.Statement()}
	for _, op := range o.seq {
		fmt.Println("  op", op)
		if msg := ex.apply(r, op); msg != "" {
			fmt.Println("  ROLLBACK MISMATCH:", msg)
			o.bad = true
			return
		}
	}
	fmt.Println("  discard")
	r.stmt.Discard()
	if d := sessioncheck.Dump(ssn); d != d0 {
		fmt.Println("  DISCARD MISMATCH:\n" + firstDiff(d0, d))
		o.bad = true
	}
}
func (o *c13ReplayObserver) AfterAction(string, *framework.Session, []schedrun.Decision) {}

func replayC13(path string) int {
	b, err := os.ReadFile(path)
	if err != nil {
		fmt.Fprintln(os.Stderr, err)
		return 2
	}
	var v struct {
		Replay struct {
			Base     string `json:"base"`
			Sequence string `json:"sequence"`
		} `json:"replay"`
	}
	if err := json.Unmarshal(b, &v); err != nil {
		fmt.Fprintln(os.Stderr, err)
		return 2
	}
	w, ok := c13Bases()[v.Replay.Base]
	if !ok {
		fmt.Fprintln(os.Stderr, "unknown base", v.Replay.Base)
		return 2
	}
	o := &c13ReplayObserver{base: v.Replay.Base, seq: parseSeq(v.Replay.Sequence)}
	if _, err := schedrun.RunCycle(w, schedrun.Config{Actions: "allocate"}, o); err != nil {
		fmt.Fprintln(os.Stderr, err)
		return 2
	}
	if o.bad {
		fmt.Printf("VIOLATION property=C13 replay=%s\n", path)
		return 1
	}
	fmt.Println("replay: state restored")
	return 0
}

func init() {
	registry.Register("C13", runC13, replayC13)
}

// queueUnder: does a queue-allocated-differs message report LESS than the recomputation (in any resource)?
func queueUnder(msg string) bool {
	var q string
	var ag, ac, am, rg, rc, rm float64
	i := strings.Index(msg, "queue ")
	if i < 0 {
		return false
	}
	if _, err := fmt.Sscanf(msg[i:], "queue %s allocated gpu/cpu/mem = %f/%f/%f, recomputed from active tasks = %f/%f/%f", &q, &ag, &ac, &am, &rg, &rc, &rm); err != nil {
		return false
	}
	return ag < rg-1e-9 || ac < rc-1e-9 || am < rm-1e-9
}
