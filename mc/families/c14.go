package families

import (
	"fmt"
	"os"
	"strings"

	"github.com/NVIDIA/KAI-scheduler/pkg/scheduler/framework"

	"verif/mc/clustermc"
	"verif/mc/engine"
	"verif/mc/schedrun"
	"verif/mc/sessioncheck"
	"verif/mc/world"
)

// accountingObserver checks the session's accounting against ground truth at session open, at
// EVERY Allocate/Deallocate event (i.e. every simulation step inside the solvers) and after
// every action.
type accountingObserver struct {
	tr       *sessioncheck.Tracker
	problems []sessioncheck.Problem
	points   int
	events   int
}

func (o *accountingObserver) check(ssn *framework.Session, where string) {
	o.points++
	if len(o.problems) > 20 {
		return
	}
	ps := sessioncheck.Accounting(ssn, where, o.tr)
	if os.Getenv("VERIF_C14_TRACE") != "" {
		for _, p := range ps {
			fmt.Printf("  trace:   PROBLEM %s\n", p.Msg)
		}
	}
	o.problems = append(o.problems, ps...)
}

func (o *accountingObserver) SessionOpened(ssn *framework.Session) {
	o.check(ssn, "session-open")
	ssn.AddEventHandler(&framework.EventHandler{
		AllocateFunc: func(e *framework.Event) {
			if os.Getenv("VERIF_C14_TRACE") != "" {
				fmt.Printf("  trace: allocate   %s status=%v node=%s groups=%v\n", e.Task.Name, e.Task.Status, e.Task.NodeName, e.Task.GPUGroups)
			}
			o.tr.OnAllocate(e.Task)
			o.events++
			o.check(ssn, "allocate-event("+e.Task.Name+")")
		},
		DeallocateFunc: func(e *framework.Event) {
			if os.Getenv("VERIF_C14_TRACE") != "" {
				fmt.Printf("  trace: deallocate %s status=%v node=%s groups=%v\n", e.Task.Name, e.Task.Status, e.Task.NodeName, e.Task.GPUGroups)
			}
			o.tr.OnDeallocate(e.Task)
			o.events++
			o.check(ssn, "deallocate-event("+e.Task.Name+")")
		},
	})
}

func (o *accountingObserver) AfterAction(name string, ssn *framework.Session, _ []schedrun.Decision) {
	o.check(ssn, "after-"+name)
}

type accountingData struct {
	Problems []sessioncheck.Problem
	Points   int
	Events   int
}

func (o *accountingObserver) Data() any {
	return accountingData{o.problems, o.points, o.events}
}

func accountingOracle(t *clustermc.Transition) []engine.Violation {
	d, ok := t.Obs.(accountingData)
	if !ok {
		return nil
	}
	var out []engine.Violation
	for _, p := range d.Problems {
		where := strings.SplitN(p.Msg, ":", 2)[0]
		if i := strings.Index(where, "("); i > 0 {
			where = where[:i]
		}
		out = append(out, engine.Violation{Property: "C14", Key: "C14/" + p.Key + " at=" + where, Message: p.Msg})
	}
	return out
}

func deepStdQueues() queueSetup {
	return queueSetup{"org>dept>q1+1", func(b *world.Builder) {
		b.GQueue("org", "", -1, -1, 1).GQueue("dept", "org", -1, -1, 1).GQueue("qa", "dept", 1, -1, 1).GQueue("qb", "dept", 1, -1, 1)
	}}
}

func C14() *clustermc.Family {
	return &clustermc.Family{
		Property: "C14",
		Scenarios: func(tier string) []clustermc.Scenario {
			var out []clustermc.Scenario
			out = append(out, shareScenarios(tier)...)
			cfgs := []schedrun.Config{{}, {Placement: "spread", ConsolidatingReclaim: true}}
			out = append(out, wlScenarios(tier, gangMenu(), gangLayouts(tier), []queueSetup{stdQueues()}, cfgs, 3, 3)...)
			// the same workloads two levels further down a deeper queue tree (org -> dept -> qa|qb): the
			// per-queue counters of every ancestor are compared with the recomputation, not only the
			// leaf's and its parent's
			out = append(out, wlScenarios(tier, gangMenu(), gangLayouts(tier), []queueSetup{deepStdQueues()}, cfgs[:1], 3, 3)...)
			lay := []nodeLayout{{"1n-2gpu", []world.NodeOpt{{Name: "n1", CPU: "16", Mem: "32Gi", GPUs: 2, GPUMemMiB: 40000}}}}
			out = append(out, wlScenarios(tier, victimMenu(), lay, victimQueues()[:1], cfgs, 3, 3)...)
			for i := range out {
				out[i].Name = fmt.Sprintf("acct:%s", out[i].Name)
			}
			return out
		},
		Depth: func(tier string) int {
			if tier == "thorough" {
				return 3
			}
			return 2
		},
		Env:         clustermc.EnvOpts{BindOK: true, Terminate: true},
		Oracles:     []clustermc.Oracle{accountingOracle},
		NewObserver: func(*world.World, schedrun.Config) clustermc.ObserverWithData { return &accountingObserver{tr: sessioncheck.NewTracker()} },
	}
}
