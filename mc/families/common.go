// Package families defines, per property, the scenario grammar (initial states), the bounds and
// the oracles of its ClusterMC exploration.
package families

import (
	"fmt"

	"verif/mc/schedrun"
	"verif/mc/world"
)

var (
	shCPU   = world.Shape{CPUm: 3000, MemMi: 1024}
	shSmall = world.Shape{CPUm: 500, MemMi: 256}
	shG1    = world.Shape{CPUm: 500, GPUs: 1}
	shG2    = world.Shape{CPUm: 500, GPUs: 2}
	shF5    = world.Shape{CPUm: 500, Fraction: "0.5"}
	shF3    = world.Shape{CPUm: 500, Fraction: "0.3"}
	shF7    = world.Shape{CPUm: 500, Fraction: "0.7"}
	shM10   = world.Shape{CPUm: 500, GPUMem: "10000"}
	shM30   = world.Shape{CPUm: 500, GPUMem: "30000"}
	shMF2   = world.Shape{CPUm: 500, Fraction: "0.5", NumDev: "2"}
	shMM2   = world.Shape{CPUm: 500, GPUMem: "30000", NumDev: "2"} // 2 devices x 30000 MiB
)

// multisets enumerates all multisets of size k over n menu indices (non-decreasing index lists).
func multisets(n, k int) [][]int {
	var out [][]int
	var rec func(start int, cur []int)
	rec = func(start int, cur []int) {
		if len(cur) == k {
			out = append(out, append([]int{}, cur...))
			return
		}
		for i := start; i < n; i++ {
			rec(i, append(cur, i))
		}
	}
	rec(0, nil)
	return out
}

// upTo: all multisets of size 1..k.
func multisetsUpTo(n, k int) [][]int {
	var out [][]int
	for s := 1; s <= k; s++ {
		out = append(out, multisets(n, s)...)
	}
	return out
}

func defaultConfigs() []schedrun.Config { return []schedrun.Config{{}} }

func name(prefix string, idx []int) string { return fmt.Sprintf("%s%v", prefix, idx) }

// Rule describes, per property, how cases are enumerated and what makes an outcome distinct.
func Rule(id string) string {
	return "initial worlds = all multisets (size<=k) of the property's workload menu x node layouts; BFS over real scheduler cycles (per config and per derived API-fault set) and environment events to the depth bound; distinct_nontrivial = number of distinct decision logs (bind/evict/pipeline sequences) observed"
}
