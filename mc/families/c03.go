package families

import (
	"fmt"

	schedv2alpha2 "github.com/NVIDIA/KAI-scheduler/pkg/apis/scheduling/v2alpha2"
	"k8s.io/utils/ptr"

	"verif/mc/clustermc"
	"verif/mc/oracle"
	"verif/mc/schedrun"
	"verif/mc/world"
)

// wlMenu is a menu of full workload templates (Name is assigned per pick).
type wlItem struct {
	tag string
	wl  world.WL
}

func pods(n int, s world.Shape, state, node string) []world.PodSpec {
	out := []world.PodSpec{}
	for i := 0; i < n; i++ {
		out = append(out, world.PodSpec{Shape: s, State: state, Node: node})
	}
	return out
}

func gangMenu() []wlItem {
	sgAB := []schedv2alpha2.SubGroup{{Name: "a", MinMember: 1}, {Name: "b", MinMember: 1}}
	sgNested := []schedv2alpha2.SubGroup{{Name: "p"}, {Name: "a", MinMember: 1, Parent: ptr.To("p")}, {Name: "b", MinMember: 2, Parent: ptr.To("p")}}
	withSG := func(ps []world.PodSpec, names ...string) []world.PodSpec {
		for i := range ps {
			ps[i].SubGroup = names[i]
		}
		return ps
	}
	return []wlItem{
		{"pend-gang2-qa", world.WL{Queue: "qa", MinMember: 2, Pods: pods(2, shG1, "", "")}},
		{"pend-gang3min2-qa", world.WL{Queue: "qa", MinMember: 2, Pods: pods(3, shG1, "", "")}},
		{"pend-sets-a1b1-qa", world.WL{Queue: "qa", MinMember: 2, SubGroups: sgAB, Pods: withSG(pods(2, shG1, "", ""), "a", "b")}},
		{"pend-nested-a1b2-qb", world.WL{Queue: "qb", MinMember: 3, SubGroups: sgNested, Pods: withSG(pods(3, shG1, "", ""), "a", "b", "b")}},
		{"half-gang2-qa", world.WL{Queue: "qa", MinMember: 2, Pods: []world.PodSpec{{Shape: shG1, State: world.StRunning, Node: "n1"}, {Shape: shG1}}}},
		{"pend-single-qa-p100", world.WL{Queue: "qa", PC: "p100", Pods: pods(1, shG1, "", "")}},
		{"pend-single-qb", world.WL{Queue: "qb", Pods: pods(1, shG1, "", "")}},
		{"pend-gang2-f5-qb", world.WL{Queue: "qb", MinMember: 2, Pods: pods(2, shF5, "", "")}},
		{"run-gang2-qb", world.WL{Queue: "qb", MinMember: 2, Pods: pods(2, shG1, world.StRunning, "n1")}},
		{"run-elastic3min1-qb", world.WL{Queue: "qb", MinMember: 1, Pods: pods(3, shG1, world.StRunning, "n1")}},
		{"run-elastic2min1-qa", world.WL{Queue: "qa", MinMember: 1, Pods: pods(2, shG1, world.StRunning, "n1")}},
		{"run-single-qa", world.WL{Queue: "qa", Pods: pods(1, shG1, world.StRunning, "n1")}},
		// elastic gangs with a minimum of TWO: one pod of surplus / already shrunk to the minimum with the
		// evicted pod still terminating (a victim that is picked again must go as a whole)
		{"run-elastic3min2-qb", world.WL{Queue: "qb", MinMember: 2, Pods: pods(3, shG1, world.StRunning, "n1")}},
		{"run-elastic2min2+term-qb", world.WL{Queue: "qb", MinMember: 2, Pods: []world.PodSpec{{Shape: shG1, State: world.StRunning, Node: "n1"}, {Shape: shG1, State: world.StRunning, Node: "n1"}, {Shape: shG1, State: world.StTerminating, Node: "n1"}}}},
		{"run-sets-a1b1-qb", world.WL{Queue: "qb", MinMember: 2, SubGroups: sgAB, Pods: withSG(pods(2, shG1, world.StRunning, "n1"), "a", "b")}},
		{"term-single-qa", world.WL{Queue: "qa", Pods: pods(1, shG1, world.StTerminating, "n1")}},
		// one pod set holds elastic surplus while another is below its own minimum with pending pods
		{"mixed-sets-a2run-b2pend-qa", world.WL{Queue: "qa", MinMember: 3, SubGroups: []schedv2alpha2.SubGroup{{Name: "a", MinMember: 1}, {Name: "b", MinMember: 2}},
			Pods: withSG([]world.PodSpec{{Shape: shG1, State: world.StRunning, Node: "n1"}, {Shape: shG1, State: world.StRunning, Node: "n1"}, {Shape: shG1}, {Shape: shG1}}, "a", "a", "b", "b")}},
		{"term-single-n2-qb", world.WL{Queue: "qb", Pods: pods(1, shG1, world.StTerminating, "n2")}},
		{"run-gang2-split-qb", world.WL{Queue: "qb", MinMember: 2, Pods: []world.PodSpec{{Shape: shG1, State: world.StRunning, Node: "n1"}, {Shape: shG1, State: world.StRunning, Node: "n2"}}}},
	}
}

func gangLayouts(tier string) []nodeLayout {
	l := []nodeLayout{
		{"1n-3gpu", []world.NodeOpt{{Name: "n1", CPU: "16", Mem: "32Gi", GPUs: 3, GPUMemMiB: 40000}}},
		{"2n-2+2gpu", []world.NodeOpt{{Name: "n1", CPU: "16", Mem: "32Gi", GPUs: 2, GPUMemMiB: 40000}, {Name: "n2", CPU: "16", Mem: "32Gi", GPUs: 2, GPUMemMiB: 40000}}},
	}
	if tier == "thorough" {
		l = append(l, nodeLayout{"2n-4+1gpu", []world.NodeOpt{{Name: "n1", CPU: "16", Mem: "32Gi", GPUs: 4, GPUMemMiB: 40000}, {Name: "n2", CPU: "16", Mem: "32Gi", GPUs: 1, GPUMemMiB: 40000}}})
	}
	return l
}

type queueSetup struct {
	tag string
	add func(b *world.Builder)
}

func stdQueues() queueSetup {
	return queueSetup{"q1+1", func(b *world.Builder) {
		b.GQueue("dept", "", -1, -1, 1).GQueue("qa", "dept", 1, -1, 1).GQueue("qb", "dept", 1, -1, 1)
	}}
}

func buildWLWorld(lay nodeLayout, qs queueSetup, menu []wlItem, pick []int) (*world.World, bool) {
	b := world.NewBuilder()
	nodes := map[string]bool{}
	for _, n := range lay.nodes {
		b.Node(n)
		nodes[n.Name] = true
	}
	qs.add(b)
	ok := true
	for i, mi := range pick {
		wl := menu[mi].wl
		wl.Name = fmt.Sprintf("w%d", i)
		wl.Tag = menu[mi].tag
		ps := make([]world.PodSpec, len(wl.Pods))
		copy(ps, wl.Pods)
		for pi := range ps {
			if ps[pi].Node != "" && !nodes[ps[pi].Node] {
				ok = false
			}
			if len(ps[pi].Groups) > 0 {
				gs := []string{}
				for _, g := range ps[pi].Groups {
					gs = append(gs, fmt.Sprintf("w%d-%s", i, g))
				}
				ps[pi].Groups = gs
			}
		}
		wl.Pods = ps
		b.Workload(wl)
	}
	return b.Done(), ok
}

func hasPending(menu []wlItem, pick []int) bool {
	for _, i := range pick {
		for _, p := range menu[i].wl.Pods {
			if p.State == "" {
				return true
			}
		}
	}
	return false
}

func wlScenarios(tier string, menu []wlItem, layouts []nodeLayout, queues []queueSetup, cfgs []schedrun.Config, kQuick, kThorough int) []clustermc.Scenario {
	k := kQuick
	if tier == "thorough" {
		k = kThorough
	}
	return wlScenariosRange(menu, layouts, queues, cfgs, 1, k)
}

// wlScenariosRange: all multisets of the menu with kMin..kMax workloads (used by the "several
// actors in one cycle" families, whose small menus allow larger multisets).
func wlScenariosRange(menu []wlItem, layouts []nodeLayout, queues []queueSetup, cfgs []schedrun.Config, kMin, kMax int) []clustermc.Scenario {
	var out []clustermc.Scenario
	for _, lay := range layouts {
		for _, qs := range queues {
			for _, pick := range multisetsUpTo(len(menu), kMax) {
				if len(pick) < kMin {
					continue
				}
				if !hasPending(menu, pick) {
					continue
				}
				w, ok := buildWLWorld(lay, qs, menu, pick)
				if !ok || oracle.Oversubscribed(w) {
					continue // pods placed on a missing node / occupying pods that ask for more than a node has
				}
				tags := ""
				for _, i := range pick {
					tags += menu[i].tag + ","
				}
				out = append(out, clustermc.Scenario{Name: lay.tag + "/" + qs.tag + ":" + tags, World: w, Configs: cfgs})
			}
		}
	}
	return out
}

func C03() *clustermc.Family {
	return &clustermc.Family{
		Property: "C03",
		Scenarios: func(tier string) []clustermc.Scenario {
			cfgs := []schedrun.Config{{}, {Placement: "spread", ConsolidatingReclaim: true}}
			return wlScenarios(tier, gangMenu(), gangLayouts(tier), []queueSetup{stdQueues()}, cfgs, 3, 4)
		},
		Depth:   func(tier string) int { return 3 },
		Env:     clustermc.EnvOpts{BindOK: true, Terminate: true},
		Oracles: []clustermc.Oracle{oracle.GangOracle()},
	}
}
