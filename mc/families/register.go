package families

import (
	"strings"

	"verif/mc/schedrun"
	"encoding/json"
	"fmt"
	"os"
	"time"

	"verif/mc/clustermc"
	"verif/mc/world"
	"verif/mc/engine"
	"verif/mc/registry"
)

// Shows maps a ClusterMC property id to a diagnostic that prints, for every scenario whose name
// contains sub, the decisions of ONE real cycle per configuration from the initial world
// (`check <id> --show <sub>`; also usable on a tree with a deliberate change via mutant_run.sh).
var Shows = map[string]func(tier, sub string) int{}

func showFamily(mk func() *clustermc.Family) func(tier, sub string) int {
	return func(tier, sub string) int {
		for _, sc := range mk().Scenarios(tier) {
			if !strings.Contains(sc.Name, sub) {
				continue
			}
			for _, cfg := range sc.Configs {
				if fl := os.Getenv("VERIF_SHOW_FAULT"); fl != "" { // diagnostics: one injected API fault, e.g. bind:w0-0
					cfg.Faults = map[string]bool{fl: true}
				}
				var obs clustermc.ObserverWithData
				var sobs schedrun.Observer
				if f := mk(); f.NewObserver != nil {
					obs = f.NewObserver(sc.World, cfg)
					sobs = obs
				}
				res, err := schedrun.RunCycle(sc.World, cfg, sobs)
				if err != nil {
					fmt.Println(sc.Name, "ERROR", err)
					continue
				}
				fmt.Printf("%s [%s]\n", sc.Name, cfg.Label())
				if obs != nil {
					b, _ := json.Marshal(obs.Data())
					fmt.Printf("    observer: %.1500s\n", b)
				}
				for _, d := range res.Decisions {
					fmt.Printf("    %v [action %s]\n", d, d.AfterAction)
				}
			}
		}
		return 0
	}
}

func registerFamily(id string, mk func() *clustermc.Family) {
	Shows[id] = showFamily(mk)
	registry.Register(id, func(tier string) int {
		budget := 150 * time.Second
		if tier == "thorough" {
			budget = 25 * time.Minute
		}
		return clustermc.RunFamily(mk(), clustermc.RunOpts{Tier: tier, Budget: budget, Rule: Rule(id)})
	}, func(path string) int {
		b, err := os.ReadFile(path)
		if err != nil {
			fmt.Fprintln(os.Stderr, err)
			return 2
		}
		var v struct {
			Key    string           `json:"key"`
			Replay clustermc.Replay `json:"replay"`
		}
		if err := json.Unmarshal(b, &v); err != nil {
			fmt.Fprintln(os.Stderr, err)
			return 2
		}
		fam := mk()
		var after []*world.World
		fam.OnReplayStep = func(_ int, w *world.World) { after = append(after, w.Clone()) }
		tr, err := fam.ReplayPath(&v.Replay)
		if err != nil {
			fmt.Fprintln(os.Stderr, "replay error:", err)
			return 2
		}
		if tr == nil {
			fmt.Fprintln(os.Stderr, "replay has no cycle")
			return 2
		}
		for _, d := range tr.Res.Decisions {
			fmt.Println("  decision:", d, "[action "+d.AfterAction+"]")
		}
		found := false
		for _, o := range fam.Oracles {
			for _, viol := range o(tr) {
				fmt.Printf("  oracle: %s: %s\n", viol.Key, viol.Message)
				if viol.Key == v.Key {
					found = true
				}
			}
		}
		if fam.StateOracle != nil && len(after) == len(v.Replay.Path) {
			// state oracles (e.g. the lasso of C15) judge the whole path: canonical form of every world reached
			if w0, err := world.FromJSON(v.Replay.Initial); err == nil {
				cpath := []string{world.Canon(w0)}
				scn := &clustermc.Scenario{Name: v.Replay.Scenario}
				for i, w := range after {
					cpath = append(cpath, world.Canon(w))
					for _, viol := range fam.StateOracle(scn, v.Replay.Path[:i+1], cpath, w) {
						fmt.Printf("  state oracle: %s: %s\n", viol.Key, viol.Message)
						if viol.Key == v.Key {
							found = true
						}
					}
				}
			}
		}
		if found {
			fmt.Printf("VIOLATION property=%s replay=%s\n", id, path)
			return 1
		}
		fmt.Println("replay: violation not reproduced")
		return 0
	})
}

func init() {
	registerFamily("C01", C01)
	registerFamily("C02", C02)
	registerFamily("C03", C03)
	registerFamily("C06", C06)
	registerFamily("C08", C08)
	registerFamily("C16", C16)
	registerFamily("C15", C15)
	registerFamily("C12", C12)
	registerFamily("C14", C14)
	registerFamily("C07", C07)
	registerFamily("C05", C05)
	registerFamily("C04", C04)
}

var _ = engine.VerifDir
