package families

import (
	corev1 "k8s.io/api/core/v1"
	"fmt"
	"os"
	"sort"
	"strings"

	"verif/mc/clustermc"
	"verif/mc/engine"
	"verif/mc/oracle"
	"verif/mc/schedrun"
	"verif/mc/world"
)

// closedScenarios: closed systems (fixed nodes/queues/workloads; evicted pods are recreated as
// pending; binds complete) x scheduler settings. One config per scenario: a closed system does
// not change its configuration between cycles.
func closedScenarios(tier string) []clustermc.Scenario {
	menu := []wlItem{
		{"run-g1-qa", world.WL{Queue: "qa", Pods: pods(1, shG1, world.StRunning, "n1")}},
		{"run-g1-qb", world.WL{Queue: "qb", Pods: pods(1, shG1, world.StRunning, "n1")}},
		{"run-g1-p75-qa", world.WL{Queue: "qa", PC: "p75", Pods: pods(1, shG1, world.StRunning, "n1")}},
		{"run-gang2-qb", world.WL{Queue: "qb", MinMember: 2, Pods: pods(2, shG1, world.StRunning, "n1")}},
		{"run-elastic2min1-qb", world.WL{Queue: "qb", MinMember: 1, Pods: pods(2, shG1, world.StRunning, "n1")}},
		{"run-f5-qb", world.WL{Queue: "qb", Pods: pods(1, shF5, world.StRunning, "n1")}},
		{"run-g1-qc", world.WL{Queue: "qc", Pods: pods(1, shG1, world.StRunning, "n1")}},
		{"pend-g1-qa", world.WL{Queue: "qa", Pods: pods(1, shG1, "", "")}},
		{"pend-g1-p75-qa", world.WL{Queue: "qa", PC: "p75", Pods: pods(1, shG1, "", "")}},
		{"pend-g1-qb", world.WL{Queue: "qb", Pods: pods(1, shG1, "", "")}},
		{"pend-gang2-qa", world.WL{Queue: "qa", MinMember: 2, Pods: pods(2, shG1, "", "")}},
		{"pend-g2-qc", world.WL{Queue: "qc", Pods: pods(1, shG2, "", "")}},
		{"pend-g1-np-qc", world.WL{Queue: "qc", PC: "p100", Pods: pods(1, shG1, "", "")}},
		{"pend-f5-qa", world.WL{Queue: "qa", Pods: pods(1, shF5, "", "")}},
	}
	layouts := []nodeLayout{
		{"1n-2gpu", []world.NodeOpt{{Name: "n1", CPU: "16", Mem: "32Gi", GPUs: 2, GPUMemMiB: 40000}}},
		{"2n-2+1gpu", []world.NodeOpt{{Name: "n1", CPU: "16", Mem: "32Gi", GPUs: 2, GPUMemMiB: 40000}, {Name: "n2", CPU: "16", Mem: "32Gi", GPUs: 1, GPUMemMiB: 40000}}},
	}
	queues := []queueSetup{
		{"flat-q1q1q0", func(b *world.Builder) {
			b.GQueue("qa", "", 1, -1, 1).GQueue("qb", "", 1, -1, 1).GQueue("qc", "", 0, -1, 1)
		}},
		{"2level-q1(1,0)+q1", func(b *world.Builder) {
			b.GQueue("d1", "", 1, -1, 1).GQueue("d2", "", 1, -1, 2).GQueue("qa", "d1", 1, -1, 1).GQueue("qb", "d1", 0, -1, 1).GQueue("qc", "d2", 1, -1, 1)
		}},
		{"flat-q0q0q0-w1w2w1", func(b *world.Builder) {
			b.GQueue("qa", "", 0, -1, 1).GQueue("qb", "", 0, -1, 2).GQueue("qc", "", 0, -1, 1)
		}},
	}
	cfgs := []schedrun.Config{
		{},
		{NoConsolidation: true},
		{ConsolidatingReclaim: true},
		{SaturationMultiplier: "1.2"},
		{ConsolidatingReclaim: true, SaturationMultiplier: "1.2", Placement: "spread"},
	}
	if tier == "thorough" {
		cfgs = append(cfgs, schedrun.Config{MapSeed: 3}, schedrun.Config{MapSeed: 5, ConsolidatingReclaim: true}, schedrun.Config{Signatures: true})
	}
	k := 3
	if tier == "thorough" {
		k = 4
	}
	var out []clustermc.Scenario
	for _, lay := range layouts {
		for _, qs := range queues {
			for _, pick := range multisetsUpTo(len(menu), k) {
				if !hasPending(menu, pick) || len(pick) < 2 {
					continue
				}
				w, ok := buildWLWorld(lay, qs, menu, pick)
				if !ok {
					continue
				}
				tags := ""
				for _, i := range pick {
					tags += menu[i].tag + ","
				}
				for ci, cfg := range cfgs {
					out = append(out, clustermc.Scenario{Name: fmt.Sprintf("%s/%s/cfg%d[%s]:%s", lay.tag, qs.tag, ci, cfg.Label(), tags), World: w, Configs: []schedrun.Config{cfg}})
				}
			}
		}
	}
	return out
}

// pinnedScenarios: closed systems in which every pod is pinned to one node pool (node selector), two
// departments with two leaf queues each contend for one node, under saturation multipliers 1 and 3
// with consolidating reclaim off and on. No victim can be moved, so the only defences against a
// reclaim ping-pong are the fairness validator and the queue-ordered re-placement of victims.
func pinnedScenarios(tier string) []clustermc.Scenario {
	pin := func(pool string) func(p *corev1.Pod) {
		return func(p *corev1.Pod) { p.Spec.NodeSelector = map[string]string{"pool": pool} }
	}
	job := func(tag, queue, state, node, pool string) wlItem {
		ps := pods(1, shG2, state, node)
		ps[0].Mutate = pin(pool)
		return wlItem{tag, world.WL{Queue: queue, Pods: ps}}
	}
	menu := []wlItem{
		job("run-d1s-a", "d1s", world.StRunning, "na", "a"),
		job("run-d2s-b", "d2s", world.StRunning, "nb", "b"),
		job("run-d2b-shared", "d2b", world.StRunning, "ns", "shared"),
		job("run-d1b-shared", "d1b", world.StRunning, "ns", "shared"),
		job("pend-d1b-shared", "d1b", "", "", "shared"),
		job("pend-d2b-shared", "d2b", "", "", "shared"),
		job("pend-d1s-shared", "d1s", "", "", "shared"),
		job("pend-d2s-b", "d2s", "", "", "b"),
	}
	lay := nodeLayout{"3n-pools", []world.NodeOpt{
		{Name: "na", CPU: "16", Mem: "32Gi", GPUs: 2, GPUMemMiB: 40000, Labels: map[string]string{"pool": "a"}},
		{Name: "nb", CPU: "16", Mem: "32Gi", GPUs: 2, GPUMemMiB: 40000, Labels: map[string]string{"pool": "b"}},
		{Name: "ns", CPU: "16", Mem: "32Gi", GPUs: 2, GPUMemMiB: 40000, Labels: map[string]string{"pool": "shared"}}}}
	var qsets []queueSetup
	for _, dq := range []float64{3, 2} {
		dq := dq
		qsets = append(qsets, queueSetup{name("2dept-q", []int{int(dq)}), func(b *world.Builder) {
			b.GQueue("d1", "", dq, -1, 1).GQueue("d2", "", dq, -1, 1)
			b.GQueue("d1s", "d1", 1, -1, 1).GQueue("d1b", "d1", 2, -1, 1).GQueue("d2s", "d2", 1, -1, 1).GQueue("d2b", "d2", 2, -1, 1)
		}})
	}
	cfgs := []schedrun.Config{{SaturationMultiplier: "3"}, {SaturationMultiplier: "3", ConsolidatingReclaim: true}, {}, {SaturationMultiplier: "1.5", NoConsolidation: true}}
	k := 4
	var out []clustermc.Scenario
	for _, qs := range qsets {
		for _, pick := range multisetsUpTo(len(menu), k) {
			if !hasPending(menu, pick) || len(pick) < 2 {
				continue
			}
			w, ok := buildWLWorld(lay, qs, menu, pick)
			if !ok {
				continue
			}
			tags := ""
			for _, i := range pick {
				tags += menu[i].tag + ","
			}
			for ci, cfg := range cfgs {
				out = append(out, clustermc.Scenario{Name: fmt.Sprintf("%s/%s/cfg%d[%s]:%s", lay.tag, qs.tag, ci, cfg.Label(), tags), World: w, Configs: []schedrun.Config{cfg}})
			}
		}
	}
	return out
}

// gangVsElasticScenarios: a pending GANG (2-3 pods) whose only possible victims are the pods of ONE
// elastic job of a queue that is above its fair share by less than the gang needs; unrelated pinned
// jobs on a second node lift the total (and with it the fair shares). What the fairness validator
// sees of the victims must be what the statement evicts, for every size of the victim set.
func gangVsElasticScenarios(tier string) []clustermc.Scenario {
	pin := func(pool string) func(p *corev1.Pod) {
		return func(p *corev1.Pod) { p.Spec.NodeSelector = map[string]string{"pool": pool} }
	}
	pinned := func(n int, state, node, pool string) []world.PodSpec {
		ps := pods(n, shG1, state, node)
		for i := range ps {
			ps[i].Mutate = pin(pool)
		}
		return ps
	}
	cfgs := []schedrun.Config{{}, {ConsolidatingReclaim: true}, {SaturationMultiplier: "1.5", NoConsolidation: true}}
	var out []clustermc.Scenario
	for _, e := range []int{3, 4} { // pods of the elastic job = GPUs of node0
		for _, g := range []int{2, 3} { // pods of the pending gang
			for _, f := range []int{1, 2} { // one-GPU jobs of queue c = GPUs of node1
				for _, qb := range []float64{1, 2} {
					for _, wb := range []float64{0, 1} {
						b := world.NewBuilder()
						b.Node(world.NodeOpt{Name: "n0", CPU: "16", Mem: "32Gi", GPUs: e, GPUMemMiB: 40000, Labels: map[string]string{"pool": "x"}})
						b.Node(world.NodeOpt{Name: "n1", CPU: "16", Mem: "32Gi", GPUs: f, GPUMemMiB: 40000, Labels: map[string]string{"pool": "y"}})
						b.GQueue("qa", "", 1, -1, 1).GQueue("qb", "", qb, -1, wb).GQueue("qc", "", 1, -1, 0)
						b.Workload(world.WL{Name: "b-elastic", Tag: "run-elastic-qb", Queue: "qb", MinMember: 1, Pods: pinned(e, world.StRunning, "n0", "x")})
						for i := 0; i < f; i++ {
							b.Workload(world.WL{Name: fmt.Sprintf("c-job%d", i), Tag: "run-g1-qc", Queue: "qc", Pods: pinned(1, world.StRunning, "n1", "y")})
						}
						b.Workload(world.WL{Name: "a-gang", Tag: "pend-gang-qa", Queue: "qa", MinMember: int32(g), Pods: pinned(g, "", "", "x")})
						w := b.Done()
						for ci, cfg := range cfgs {
							out = append(out, clustermc.Scenario{Name: fmt.Sprintf("gang-vs-elastic/e%d-g%d-f%d-qb%v-wb%v/cfg%d[%s]", e, g, f, qb, wb, ci, cfg.Label()), World: w, Configs: []schedrun.Config{cfg}})
						}
					}
				}
			}
		}
	}
	return out
}

// siblingRepresentativeScenarios: two departments; the reclaimer's department has a SECOND leaf queue
// (no quota, optionally a higher queue priority) whose pending jobs may be unschedulable (3 GPUs on a
// full node) and so keep representing their department in every ordering of departments. Whether a
// reclaim across the departments helps the reclaimer then depends on jobs of a queue that is neither
// the reclaimer's nor a victim's.
func siblingRepresentativeScenarios(tier string) []clustermc.Scenario {
	shG3 := world.Shape{CPUm: 500, GPUs: 3}
	menu := []wlItem{
		{"run-g1-qa", world.WL{Queue: "qa", Pods: pods(1, shG1, world.StRunning, "n1")}},
		{"run-g1-qb", world.WL{Queue: "qb", Pods: pods(1, shG1, world.StRunning, "n1")}},
		{"run-g2-qb", world.WL{Queue: "qb", Pods: pods(1, shG2, world.StRunning, "n1")}},
		{"run-g1-qa2", world.WL{Queue: "qa2", Pods: pods(1, shG1, world.StRunning, "n1")}},
		{"pend-g1-qa", world.WL{Queue: "qa", Pods: pods(1, shG1, "", "")}},
		{"pend-g3-qa2", world.WL{Queue: "qa2", Pods: pods(1, shG3, "", "")}},
		{"pend-g1-qa2", world.WL{Queue: "qa2", Pods: pods(1, shG1, "", "")}},
		{"pend-g1-qb", world.WL{Queue: "qb", Pods: pods(1, shG1, "", "")}},
	}
	lay := nodeLayout{"1n-4gpu", []world.NodeOpt{{Name: "n1", CPU: "16", Mem: "32Gi", GPUs: 4, GPUMemMiB: 40000}}}
	var qsets []queueSetup
	for _, prio := range []int{0, 200} {
		prio := prio
		qsets = append(qsets, queueSetup{fmt.Sprintf("2dept-qa+qa2(prio%d)|qb", prio), func(b *world.Builder) {
			u := world.QUnlimited()
			g := func(q, w float64) world.QRes { return world.QRes{Quota: q, Limit: -1, Weight: w} }
			b.Queue(world.QueueOpt{Name: "d1", GPU: g(2, 1), CPU: u, Mem: u})
			b.Queue(world.QueueOpt{Name: "d2", GPU: g(2, 1), CPU: u, Mem: u})
			b.Queue(world.QueueOpt{Name: "qa", Parent: "d1", GPU: g(1, 1), CPU: u, Mem: u})
			qa2 := world.QueueOpt{Name: "qa2", Parent: "d1", GPU: g(0, 0), CPU: u, Mem: u}
			if prio != 0 {
				qa2.Priority = &prio
			}
			b.Queue(qa2)
			b.Queue(world.QueueOpt{Name: "qb", Parent: "d2", GPU: g(2, 2), CPU: u, Mem: u})
		}})
	}
	cfgs := []schedrun.Config{{}, {ConsolidatingReclaim: true}}
	var out []clustermc.Scenario
	for _, qs := range qsets {
		for _, pick := range multisetsUpTo(len(menu), 5) {
			if !hasPending(menu, pick) || len(pick) < 3 {
				continue
			}
			sib := false
			for _, i := range pick {
				sib = sib || strings.HasSuffix(menu[i].tag, "-qa2")
			}
			if !sib {
				continue
			}
			w, ok := buildWLWorld(lay, qs, menu, pick)
			if !ok || oracle.Oversubscribed(w) {
				continue
			}
			tags := ""
			for _, i := range pick {
				tags += menu[i].tag + ","
			}
			for ci, cfg := range cfgs {
				out = append(out, clustermc.Scenario{Name: fmt.Sprintf("sibling-rep/%s/%s/cfg%d[%s]:%s", lay.tag, qs.tag, ci, cfg.Label(), tags), World: w, Configs: []schedrun.Config{cfg}})
			}
		}
	}
	return out
}

func C15() *clustermc.Family {
	return &clustermc.Family{
		Property:  "C15",
		Scenarios: func(tier string) []clustermc.Scenario {
			out := append(append(closedScenarios(tier), pinnedScenarios(tier)...), gangVsElasticScenarios(tier)...)
			return append(out, siblingRepresentativeScenarios(tier)...)
		},
		Depth: func(tier string) int {
			if tier == "thorough" {
				return 16
			}
			return 10
		},
		Env:      clustermc.EnvOpts{BindOK: true, Recreate: true},
		MacroEnv: true,
		StateOracle: func(scn *clustermc.Scenario, path []clustermc.Step, cpath []string, w *world.World) []engine.Violation {
			last := len(cpath) - 1
			if os.Getenv("VERIF_C15_TRACE") != "" && last == 4 { // debugging aid: dump a replay of the first 4 macro steps
				return []engine.Violation{{Property: "C15", Key: "C15/trace-dump " + scn.Name, Message: "trace dump requested"}}
			}
			for i := 0; i < last; i++ {
				if cpath[i] != cpath[last] {
					continue
				}
				ev := 0
				tag := func(g string) string {
					if pg := w.PodGroup(g); pg != nil && pg.Annotations["verif/tag"] != "" {
						return pg.Annotations["verif/tag"]
					}
					return g
				}
				pat := map[string]bool{}
				for _, s := range path[i:] {
					ev += s.Evicts
					for _, e := range s.EvictSig {
						a := strings.SplitN(e, ":", 2)
						vp := strings.SplitN(a[1], "->", 2)
						pat[a[0]+":"+tag(vp[0])+"->"+tag(vp[1])] = true
					}
				}
				pats := []string{}
				for p := range pat {
					pats = append(pats, p)
				}
				sort.Strings(pats)
				if ev > 0 {
					return []engine.Violation{{Property: "C15", Key: fmt.Sprintf("C15/eviction-lasso period=%d pattern=%s", last-i, strings.Join(pats, "+")),
						Message: fmt.Sprintf("closed system %s returns to the cluster state of macro step %d at step %d after %d evictions in between (livelock)", scn.Name, i, last, ev)}}
				}
			}
			return nil
		},
	}
}
