package families

import (
	"verif/mc/world"
)

// DRA workload items for scenario grammars. A world that uses them must also give the node its
// devices: b.ResourceSlice(node, n) (device names "0".."n-1"; the device class is added with it).
// Worlds holding any DRA object run with the DynamicResourceAllocation feature gate on (schedrun
// derives it from the world), all others with the gate off.
//
// The environment model of clustermc (bindOK / terminate / recreate) does not yet play the binder's
// part for claims (writing status.allocation / reservedFor on bind, clearing them on termination):
// grammars that chain cycles over DRA pods must add that first. Single-cycle and in-session checks
// (C13) need nothing else.

// DRANodeDevices gives node n DRA devices "0".."n-1" (idempotent per node).
func DRANodeDevices(b *world.Builder, node string, n int) *world.Builder {
	for _, s := range b.W.ResourceSlices {
		if s.Spec.NodeName != nil && *s.Spec.NodeName == node {
			return b
		}
	}
	return b.ResourceSlice(node, n)
}

// AddDRARunning adds workload `name` in `queue`: one pod "<name>-0" running on node and holding
// claim "<name>-claim", which is allocated to `device` of that node and reserved for this pod only.
// wl carries the optional remaining workload settings (priority class, preemptibility, ...); its
// Name, Queue and Pods are overwritten.
func AddDRARunning(b *world.Builder, name, queue, node, device string, wl world.WL) *world.Builder {
	wl.Name, wl.Queue = name, queue
	wl.Pods = []world.PodSpec{{Shape: shSmall}}
	if wl.Tag == "" {
		wl.Tag = "dra-run"
	}
	return b.DRARunning(wl, node, device)
}

// AddDRAPending adds workload `name` in `queue`: one pending pod "<name>-0" referencing the
// unallocated claim "<name>-claim" for one device.
func AddDRAPending(b *world.Builder, name, queue string, wl world.WL) *world.Builder {
	wl.Name, wl.Queue = name, queue
	wl.Pods = []world.PodSpec{{Shape: shSmall}}
	if wl.Tag == "" {
		wl.Tag = "dra-pend"
	}
	return b.DRAPending(wl, 1)
}
