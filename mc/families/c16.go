package families

import (
	"fmt"

	schedv2alpha2 "github.com/NVIDIA/KAI-scheduler/pkg/apis/scheduling/v2alpha2"

	"verif/mc/clustermc"
	"verif/mc/oracle"
	"verif/mc/schedrun"
	"verif/mc/world"
)

// orderScenarios: the *order* grammar. A comparable class of n identical workloads in queue qa
// with every priority/creation-order sequence, optional second class, competitors in other
// queues, capacity for fewer than all of them.
func orderScenarios(tier string) []clustermc.Scenario {
	var out []clustermc.Scenario
	type class struct {
		tag  string
		pcs  []string
		mk   func(pc string) world.WL
	}
	classes := []class{
		{"g1-pre", []string{"p50", "p75"}, func(pc string) world.WL { return world.WL{Queue: "qa", PC: pc, Pods: pods(1, shG1, "", "")} }},
		{"g1-np", []string{"p100", "p125"}, func(pc string) world.WL { return world.WL{Queue: "qa", PC: pc, Pods: pods(1, shG1, "", "")} }},
		{"gang2-pre", []string{"p50", "p75"}, func(pc string) world.WL { return world.WL{Queue: "qa", PC: pc, MinMember: 2, Pods: pods(2, shG1, "", "")} }},
		{"f5-pre", []string{"p50", "p75"}, func(pc string) world.WL { return world.WL{Queue: "qa", PC: pc, Pods: pods(1, shF5, "", "")} }},
		// priorities at the ends of the legal range (differences beyond int32)
		{"g1-pre-extreme", []string{"pmin", "p50"}, func(pc string) world.WL { return world.WL{Queue: "qa", PC: pc, Pods: pods(1, shG1, "", "")} }},
		{"g1-np-extreme", []string{"p100", "pbig"}, func(pc string) world.WL { return world.WL{Queue: "qa", PC: pc, Pods: pods(1, shG1, "", "")} }},
		{"cpu-pre", []string{"p50", "p75"}, func(pc string) world.WL { return world.WL{Queue: "qa", PC: pc, Pods: pods(1, shCPU, "", "")} }},
	}
	competitors := []struct {
		tag string
		wls []world.WL
	}{
		{"none", nil},
		{"pend-qb", []world.WL{{Queue: "qb", Pods: pods(1, shG1, "", "")}}},
		{"pend-qb-p75+qc", []world.WL{{Queue: "qb", PC: "p75", Pods: pods(1, shG1, "", "")}, {Queue: "qc", Pods: pods(1, shG1, "", "")}}},
		{"run-qb", []world.WL{{Queue: "qb", Pods: pods(1, shG1, world.StRunning, "n1")}}},
		// a workload submitted to a non-leaf queue (d1 in the 2-level tree; a missing queue in the flat one)
		{"pend-in-nonleaf-d1", []world.WL{{Queue: "d1", Pods: pods(1, shG1, "", "")}}},
		{"run-qa-other-shape", []world.WL{{Queue: "qa", Pods: pods(1, shG1, world.StRunning, "n1")}, {Queue: "qa", PC: "p75", Pods: pods(1, shG2, "", "")}}},
	}
	trees := []queueSetup{
		{"flat", func(b *world.Builder) {
			b.GQueue("qa", "", 1, -1, 1).GQueue("qb", "", 1, -1, 1).GQueue("qc", "", 1, -1, 1)
		}},
		{"2level", func(b *world.Builder) {
			b.GQueue("d1", "", 2, -1, 1).GQueue("d2", "", 1, -1, 1).GQueue("qa", "d1", 1, -1, 1).GQueue("qb", "d1", 1, -1, 1).GQueue("qc", "d2", 1, -1, 1)
		}},
	}
	layouts := []nodeLayout{
		{"1n-1gpu", []world.NodeOpt{{Name: "n1", CPU: "4", Mem: "8Gi", GPUs: 1, GPUMemMiB: 40000}}},
		{"1n-2gpu", []world.NodeOpt{{Name: "n1", CPU: "7", Mem: "8Gi", GPUs: 2, GPUMemMiB: 40000}}},
	}
	if tier == "thorough" {
		layouts = append(layouts, nodeLayout{"2n-1+2gpu", []world.NodeOpt{{Name: "n1", CPU: "4", Mem: "8Gi", GPUs: 1, GPUMemMiB: 40000}, {Name: "n2", CPU: "4", Mem: "8Gi", GPUs: 2, GPUMemMiB: 40000}}})
	}
	seeds := 4
	maxN := 3
	if tier == "thorough" {
		seeds, maxN = 8, 4
	}
	var cfgs []schedrun.Config
	for s := 0; s < seeds; s++ {
		cfgs = append(cfgs, schedrun.Config{MapSeed: uint64(s)})
	}
	cfgs = append(cfgs, schedrun.Config{Signatures: true, MapSeed: 1}, schedrun.Config{Placement: "spread", MapSeed: 2, ConsolidatingReclaim: true})
	// a bounded per-queue job depth for allocate (the shard option queueDepthPerAction)
	cfgs = append(cfgs, schedrun.Config{QueueDepth: map[string]int{"allocate": 2}, MapSeed: 1}, schedrun.Config{QueueDepth: map[string]int{"allocate": 1}, MapSeed: 2})
	for _, lay := range layouts {
		for _, tr := range trees {
			for _, cl := range classes {
				for n := 2; n <= maxN; n++ {
					// every priority sequence in creation order
					total := 1
					for i := 0; i < n; i++ {
						total *= len(cl.pcs)
					}
					for code := 0; code < total; code++ {
						seq := make([]string, n)
						c := code
						for i := 0; i < n; i++ {
							seq[i] = cl.pcs[c%len(cl.pcs)]
							c /= len(cl.pcs)
						}
						for _, comp := range competitors {
							// compFirst 2: no competitor twin with the ages running against the name order
							// (objects are loaded in name order, so this is "the younger is loaded first")
							for compFirst := 0; compFirst < 3; compFirst++ {
								if compFirst >= 1 && len(comp.wls) == 0 && compFirst != 2 {
									continue
								}
								if compFirst == 2 && len(comp.wls) != 0 {
									continue
								}
								b := world.NewBuilder()
								for _, nd := range lay.nodes {
									b.Node(nd)
								}
								tr.add(b)
								idx := 0
								addComp := func() {
									for _, wl := range comp.wls {
										wl.Name = fmt.Sprintf("x%d", idx)
										idx++
										b.Workload(wl)
									}
								}
								if compFirst == 1 {
									addComp()
								}
								for i, pc := range seq {
									wl := cl.mk(pc)
									wl.Name = fmt.Sprintf("c%d", i)
									if compFirst == 2 {
										wl.CreatedRank = 1000 + 100*(n-i)
									}
									b.Workload(wl)
								}
								if compFirst == 0 {
									addComp()
								}
								out = append(out, clustermc.Scenario{
									Name:    fmt.Sprintf("%s/%s:%s%v+%s/compFirst=%d", lay.tag, tr.tag, cl.tag, seq, comp.tag, compFirst),
									World:   b.Done(),
									Configs: cfgs,
								})
							}
						}
					}
				}
			}
		}
	}
	// bounded per-queue job depth with MORE jobs than the bound: which entry a full heap drops depends on
	// where the entries sit in the heap, i.e. on the order in which the jobs were pushed (map iteration:
	// seeds) and on every priority / creation sequence of 5-6 jobs
	var deepCfgs []schedrun.Config
	for _, depth := range []int{3, 4} {
		for s := 0; s < 6; s++ {
			deepCfgs = append(deepCfgs, schedrun.Config{QueueDepth: map[string]int{"allocate": depth}, MapSeed: uint64(s)})
		}
	}
	nMax := 5
	if tier == "thorough" {
		nMax = 6
	}
	for n := 5; n <= nMax; n++ {
		for code := 0; code < 1<<n; code++ {
			seq := make([]string, n)
			for i := 0; i < n; i++ {
				seq[i] = []string{"p50", "p75"}[(code>>i)&1]
			}
			b := world.NewBuilder()
			// room for every job the bounded queue keeps: the one it dropped is the only one left unplaced
			b.Node(world.NodeOpt{Name: "n1", CPU: "16", Mem: "32Gi", GPUs: 6, GPUMemMiB: 40000})
			b.GQueue("qa", "", 1, -1, 1).GQueue("qb", "", 1, -1, 1).GQueue("qc", "", 1, -1, 1)
			for i, pc := range seq {
				b.Workload(world.WL{Name: fmt.Sprintf("c%d", i), Queue: "qa", PC: pc, Pods: pods(1, shG1, "", "")})
			}
			out = append(out, clustermc.Scenario{Name: fmt.Sprintf("deep-queue:1n-6gpu/flat:g1-pre%v", seq), World: b.Done(), Configs: deepCfgs})
			// the same with ages running against the name order (objects are loaded in name order)
			b = world.NewBuilder()
			b.Node(world.NodeOpt{Name: "n1", CPU: "16", Mem: "32Gi", GPUs: 6, GPUMemMiB: 40000})
			b.GQueue("qa", "", 1, -1, 1).GQueue("qb", "", 1, -1, 1).GQueue("qc", "", 1, -1, 1)
			for i, pc := range seq {
				b.Workload(world.WL{Name: fmt.Sprintf("c%d", i), Queue: "qa", PC: pc, CreatedRank: 1000 + 100*(n-i), Pods: pods(1, shG1, "", "")})
			}
			out = append(out, clustermc.Scenario{Name: fmt.Sprintf("deep-queue:1n-6gpu/flat:g1-pre%v/ages-reversed", seq), World: b.Done(), Configs: deepCfgs})
		}
	}
	out = append(out, elasticNeighbourScenarios(tier)...)
	return out
}

// elasticNeighbourScenarios: an identical fully pending pair (older / younger) of queue qa next to
// RUNNING elastic jobs of the same queue and priority that still have pending pods and therefore sit in
// the same per-queue heap: one exactly at its minimum, one with two pod sets of which one is above and
// the other below its minimum (or, as variant, simply above its minimum). One free GPU. Every order of
// the four objects' names (= every base order of the maps the jobs are loaded from, further rotated by
// the map seeds) x every assignment of ages.
func elasticNeighbourScenarios(tier string) []clustermc.Scenario {
	var out []clustermc.Scenario
	perms := permutations(4)
	seeds := 2
	if tier == "thorough" {
		seeds = 4
	}
	var cfgs []schedrun.Config
	for s := 0; s < seeds; s++ {
		cfgs = append(cfgs, schedrun.Config{MapSeed: uint64(s)})
	}
	for _, kind := range []string{"sets-above+below", "above"} {
		for oi, order := range perms {
			for ai, ages := range perms {
				if tier != "thorough" && ages[2] > ages[3] { // quick: pair ages in one direction only (names are symmetric)
					continue
				}
				b := world.NewBuilder()
				b.Node(world.NodeOpt{Name: "n1", CPU: "16", Mem: "32Gi", GPUs: 4, GPUMemMiB: 40000})
				b.GQueue("qa", "", 4, -1, 1).GQueue("qb", "", 1, -1, 1)
				mixed := world.WL{Name: "x-mixed", Queue: "qa", MinMember: 2,
					SubGroups: []schedv2alpha2.SubGroup{{Name: "workers", MinMember: 1}, {Name: "ps", MinMember: 1}},
					Pods:      withSubGroups(append(pods(2, shG1, world.StRunning, "n1"), pods(1, shG2, "", "")...), "workers", "workers", "ps")}
				if kind == "above" {
					mixed = world.WL{Name: "x-mixed", Queue: "qa", MinMember: 1, Pods: append(pods(2, shG1, world.StRunning, "n1"), pods(1, shG2, "", "")...)}
				}
				jobs := []world.WL{
					mixed,
					{Name: "x-atmin", Queue: "qa", MinMember: 1, Pods: append(pods(1, shG1, world.StRunning, "n1"), pods(1, shG1, "", "")...)},
					{Name: "c0", Queue: "qa", Pods: pods(1, shG1, "", "")},
					{Name: "c1", Queue: "qa", Pods: pods(1, shG1, "", "")},
				}
				// objects reach the scheduler's maps in name order: the names carry the permutation
				for pos, ji := range order {
					wl := jobs[ji]
					wl.Tag = wl.Name
					wl.Name = fmt.Sprintf("j%d-%s", pos, wl.Name)
					wl.CreatedRank = 1000 + 100*ages[ji]
					b.Workload(wl)
				}
				out = append(out, clustermc.Scenario{Name: fmt.Sprintf("elastic-neighbours:1n-4gpu/%s/order%d/ages%d", kind, oi, ai), World: b.Done(), Configs: cfgs})
			}
		}
	}
	return out
}

func withSubGroups(ps []world.PodSpec, names ...string) []world.PodSpec {
	for i := range ps {
		ps[i].SubGroup = names[i]
	}
	return ps
}

func permutations(n int) [][]int {
	var out [][]int
	var rec func(cur []int, used int)
	rec = func(cur []int, used int) {
		if len(cur) == n {
			out = append(out, append([]int{}, cur...))
			return
		}
		for i := 0; i < n; i++ {
			if used&(1<<i) == 0 {
				rec(append(cur, i), used|1<<i)
			}
		}
	}
	rec(nil, 0)
	return out
}

func C16() *clustermc.Family {
	return &clustermc.Family{
		Property:  "C16",
		Scenarios: orderScenarios,
		Depth: func(tier string) int {
			if tier == "thorough" {
				return 3
			}
			return 2
		},
		Env:     clustermc.EnvOpts{BindOK: true},
		Oracles: []clustermc.Oracle{oracle.OrderOracle()},
	}
}
