package families

import (
	"fmt"

	corev1 "k8s.io/api/core/v1"
	metav1 "k8s.io/apimachinery/pkg/apis/meta/v1"
	"k8s.io/utils/ptr"

	kaiv1alpha1 "github.com/NVIDIA/KAI-scheduler/pkg/apis/kai/v1alpha1"
	schedv2alpha2 "github.com/NVIDIA/KAI-scheduler/pkg/apis/scheduling/v2alpha2"

	"verif/mc/clustermc"
	"verif/mc/oracle"
	"verif/mc/schedrun"
	"verif/mc/world"
)

const (
	lblZone = "topo/zone"
	lblRack = "topo/rack"
	lblDisk = "disk"
	lblPool = "kai.scheduler/node-pool"
)

func podMut(f func(p *corev1.Pod)) func(p *corev1.Pod) { return f }

func withLabels(l map[string]string, next func(p *corev1.Pod)) func(p *corev1.Pod) {
	return func(p *corev1.Pod) {
		for k, v := range l {
			p.Labels[k] = v
		}
		if next != nil {
			next(p)
		}
	}
}

func antiAffinity(app, key string) func(p *corev1.Pod) {
	return func(p *corev1.Pod) {
		if p.Spec.Affinity == nil {
			p.Spec.Affinity = &corev1.Affinity{}
		}
		p.Spec.Affinity.PodAntiAffinity = &corev1.PodAntiAffinity{RequiredDuringSchedulingIgnoredDuringExecution: []corev1.PodAffinityTerm{{
			LabelSelector: &metav1.LabelSelector{MatchLabels: map[string]string{"app": app}}, TopologyKey: key}}}
	}
}

func podAffinity(app, key string) func(p *corev1.Pod) {
	return func(p *corev1.Pod) {
		if p.Spec.Affinity == nil {
			p.Spec.Affinity = &corev1.Affinity{}
		}
		p.Spec.Affinity.PodAffinity = &corev1.PodAffinity{RequiredDuringSchedulingIgnoredDuringExecution: []corev1.PodAffinityTerm{{
			LabelSelector: &metav1.LabelSelector{MatchLabels: map[string]string{"app": app}}, TopologyKey: key}}}
	}
}

func nodeAff(exprs ...corev1.NodeSelectorRequirement) func(p *corev1.Pod) {
	return func(p *corev1.Pod) {
		if p.Spec.Affinity == nil {
			p.Spec.Affinity = &corev1.Affinity{}
		}
		p.Spec.Affinity.NodeAffinity = &corev1.NodeAffinity{RequiredDuringSchedulingIgnoredDuringExecution: &corev1.NodeSelector{
			NodeSelectorTerms: []corev1.NodeSelectorTerm{{MatchExpressions: exprs}}}}
	}
}

func constrPods(n int, state, node string, mut func(p *corev1.Pod)) []world.PodSpec {
	ps := pods(n, shG1, state, node)
	for i := range ps {
		ps[i].Mutate = mut
	}
	return ps
}

func constraintMenu() []wlItem {
	sel := func(kv map[string]string) func(p *corev1.Pod) {
		return func(p *corev1.Pod) { p.Spec.NodeSelector = kv }
	}
	tol := func(t corev1.Toleration) func(p *corev1.Pod) {
		return func(p *corev1.Pod) { p.Spec.Tolerations = []corev1.Toleration{t} }
	}
	web := map[string]string{"app": "web"}
	db := map[string]string{"app": "db"}
	return []wlItem{
		{"pend-plain-qa", world.WL{Queue: "qa", Pods: constrPods(1, "", "", nil)}},
		{"pend-plain-gang2-qb", world.WL{Queue: "qb", MinMember: 2, Pods: constrPods(2, "", "", nil)}},
		{"pend-sel-zone-a", world.WL{Queue: "qa", Pods: constrPods(1, "", "", sel(map[string]string{lblZone: "a"}))}},
		{"pend-sel-ssd-zone-b", world.WL{Queue: "qa", Pods: constrPods(1, "", "", sel(map[string]string{lblDisk: "ssd", lblZone: "b"}))}},
		{"pend-aff-zone-in-b", world.WL{Queue: "qa", Pods: constrPods(1, "", "", nodeAff(corev1.NodeSelectorRequirement{Key: lblZone, Operator: corev1.NodeSelectorOpIn, Values: []string{"b"}}))}},
		{"pend-aff-disk-notin-hdd", world.WL{Queue: "qb", PC: "p75", Pods: constrPods(1, "", "", nodeAff(corev1.NodeSelectorRequirement{Key: lblDisk, Operator: corev1.NodeSelectorOpNotIn, Values: []string{"hdd"}}))}},
		{"pend-aff-disk-exists-gang2", world.WL{Queue: "qb", MinMember: 2, Pods: constrPods(2, "", "", nodeAff(corev1.NodeSelectorRequirement{Key: lblDisk, Operator: corev1.NodeSelectorOpExists}))}},
		{"pend-tol-equal-noschedule", world.WL{Queue: "qa", Pods: constrPods(1, "", "", tol(corev1.Toleration{Key: "dedicated", Operator: corev1.TolerationOpEqual, Value: "x", Effect: corev1.TaintEffectNoSchedule}))}},
		{"pend-tol-exists-all", world.WL{Queue: "qb", Pods: constrPods(1, "", "", tol(corev1.Toleration{Operator: corev1.TolerationOpExists}))}},
		{"pend-web-anti-web-host-x2", world.WL{Queue: "qa", MinMember: 1, Pods: constrPods(2, "", "", withLabels(web, antiAffinity("web", "kubernetes.io/hostname")))}},
		{"pend-web-anti-db-zone", world.WL{Queue: "qa", PC: "p75", Pods: constrPods(1, "", "", withLabels(web, antiAffinity("db", lblZone)))}},
		{"pend-web-aff-db-zone", world.WL{Queue: "qb", Pods: constrPods(1, "", "", withLabels(web, podAffinity("db", lblZone)))}},
		// a pod that carries a label others avoid but has no (anti-)affinity terms of its own, pinned to the
		// hdd node of zone b; and a PENDING guard whose required anti-affinity selects it
		{"pend-weblabel-sel-hdd-zone-b", world.WL{Queue: "qa", Pods: constrPods(1, "", "", func(p *corev1.Pod) {
			withLabels(web, nil)(p)
			p.Spec.NodeSelector = map[string]string{lblDisk: "hdd", lblZone: "b"}
		})}},
		{"pend-db-anti-web-zone-sel-zone-b", world.WL{Queue: "qa", Pods: constrPods(1, "", "", func(p *corev1.Pod) {
			withLabels(db, antiAffinity("web", lblZone))(p)
			p.Spec.NodeSelector = map[string]string{lblZone: "b"}
		})}},
		{"run-db-n1", world.WL{Queue: "qb", Pods: constrPods(1, world.StRunning, "n1", withLabels(db, nil))}},
		// a matching pod that still runs on a node that takes no new pods (n2 is NotReady in one layout): it
		// counts for the (anti-)affinity of pods placed elsewhere in its zone
		{"run-db-n2", world.WL{Queue: "qb", Pods: constrPods(1, world.StRunning, "n2", withLabels(db, nil))}},
		{"run-db-anti-web-zone-n2", world.WL{Queue: "qb", Pods: constrPods(1, world.StRunning, "n2", withLabels(db, antiAffinity("web", lblZone)))}},
		{"run-web-anti-web-host-n1", world.WL{Queue: "qb", Pods: constrPods(1, world.StRunning, "n1", withLabels(web, antiAffinity("web", "kubernetes.io/hostname")))}},
		{"run-plain-n1-qb", world.WL{Queue: "qb", Pods: constrPods(1, world.StRunning, "n1", nil)}},
		{"run-plain-n2-qb", world.WL{Queue: "qb", Pods: constrPods(1, world.StRunning, "n2", nil)}},
		{"run-plain-n3-qb", world.WL{Queue: "qb", Pods: constrPods(1, world.StRunning, "n3", nil)}},
		{"term-db-n3", world.WL{Queue: "qb", Pods: constrPods(1, world.StTerminating, "n3", withLabels(db, nil))}},
	}
}

func constraintLayouts() []nodeLayout {
	mk := func(name string, gpus int, labels map[string]string, taints []corev1.Taint, unsched, notReady bool) world.NodeOpt {
		return world.NodeOpt{Name: name, CPU: "16", Mem: "32Gi", GPUs: gpus, GPUMemMiB: 40000, Labels: labels, Taints: taints, Unsched: unsched, NotReady: notReady}
	}
	noSched := []corev1.Taint{{Key: "dedicated", Value: "x", Effect: corev1.TaintEffectNoSchedule}}
	noExec := []corev1.Taint{{Key: "dedicated", Value: "y", Effect: corev1.TaintEffectNoExecute}}
	prefer := []corev1.Taint{{Key: "soft", Value: "z", Effect: corev1.TaintEffectPreferNoSchedule}}
	return []nodeLayout{
		{"zones-ab/disks", []world.NodeOpt{
			mk("n1", 1, map[string]string{lblZone: "a", lblDisk: "ssd"}, nil, false, false),
			mk("n2", 1, map[string]string{lblZone: "b", lblDisk: "hdd"}, nil, false, false),
			mk("n3", 1, map[string]string{lblZone: "b", lblDisk: "ssd"}, nil, false, false)}},
		{"taints", []world.NodeOpt{
			mk("n1", 1, map[string]string{lblZone: "a"}, noSched, false, false),
			mk("n2", 1, map[string]string{lblZone: "b", lblDisk: "ssd"}, noExec, false, false),
			mk("n3", 1, map[string]string{lblZone: "b"}, prefer, false, false)}},
		{"cordoned+notready", []world.NodeOpt{
			mk("n1", 2, map[string]string{lblZone: "a", lblDisk: "ssd"}, nil, true, false),
			mk("n2", 2, map[string]string{lblZone: "b", lblDisk: "ssd"}, nil, false, true),
			mk("n3", 1, map[string]string{lblZone: "b", lblDisk: "hdd"}, nil, false, false)}},
		{"2gpu-nodes", []world.NodeOpt{
			mk("n1", 2, map[string]string{lblZone: "a", lblDisk: "ssd"}, nil, false, false),
			mk("n2", 2, map[string]string{lblZone: "b"}, nil, false, false)}},
	}
}

// ---- topology grammar

func topologyScenarios(tier string) []clustermc.Scenario {
	var out []clustermc.Scenario
	topo := func(name string, levels ...string) *kaiv1alpha1.Topology {
		t := &kaiv1alpha1.Topology{TypeMeta: metav1.TypeMeta{APIVersion: "kai.scheduler/v1alpha1", Kind: "Topology"}, ObjectMeta: metav1.ObjectMeta{Name: name}}
		for _, l := range levels {
			t.Spec.Levels = append(t.Spec.Levels, kaiv1alpha1.TopologyLevel{NodeLabel: l})
		}
		return t
	}
	mk := func(name string, gpus int, zone, rack string) world.NodeOpt {
		l := map[string]string{}
		if zone != "" {
			l[lblZone] = zone
		}
		if rack != "" {
			l[lblRack] = rack
		}
		return world.NodeOpt{Name: name, CPU: "16", Mem: "32Gi", GPUs: gpus, GPUMemMiB: 40000, Labels: l}
	}
	layouts := []nodeLayout{
		{"z(a:r1[n1,n2] r2[n3]) z(b:r3[n4])", []world.NodeOpt{mk("n1", 1, "a", "r1"), mk("n2", 1, "a", "r1"), mk("n3", 1, "a", "r2"), mk("n4", 2, "b", "r3")}},
		{"unbalanced+unlabelled", []world.NodeOpt{mk("n1", 1, "a", "r1"), mk("n2", 2, "a", "r2"), mk("n3", 1, "b", ""), mk("n4", 2, "", "")}},
	}
	tcs := []struct {
		tag string
		tc  *schedv2alpha2.TopologyConstraint
	}{
		{"req-rack", &schedv2alpha2.TopologyConstraint{Topology: "t", RequiredTopologyLevel: lblRack}},
		{"req-zone", &schedv2alpha2.TopologyConstraint{Topology: "t", RequiredTopologyLevel: lblZone}},
		{"req-zone-pref-rack", &schedv2alpha2.TopologyConstraint{Topology: "t", RequiredTopologyLevel: lblZone, PreferredTopologyLevel: lblRack}},
		{"pref-rack", &schedv2alpha2.TopologyConstraint{Topology: "t", PreferredTopologyLevel: lblRack}},
		// nothing validates the order of the two levels: a preferred level COARSER than the required one
		{"req-rack-pref-zone", &schedv2alpha2.TopologyConstraint{Topology: "t", RequiredTopologyLevel: lblRack, PreferredTopologyLevel: lblZone}},
		{"req-rack-unknown-topology", &schedv2alpha2.TopologyConstraint{Topology: "nope", RequiredTopologyLevel: lblRack}},
		{"req-host-1level-topology", &schedv2alpha2.TopologyConstraint{Topology: "hostonly", RequiredTopologyLevel: "kubernetes.io/hostname"}},
	}
	shapes := []struct {
		tag string
		wl  func(tc *schedv2alpha2.TopologyConstraint) world.WL
	}{
		{"gang2", func(tc *schedv2alpha2.TopologyConstraint) world.WL {
			return world.WL{Queue: "qa", MinMember: 2, Topology: tc, Pods: pods(2, shG1, "", "")}
		}},
		{"gang3", func(tc *schedv2alpha2.TopologyConstraint) world.WL {
			return world.WL{Queue: "qa", MinMember: 3, Topology: tc, Pods: pods(3, shG1, "", "")}
		}},
		{"half-running-gang2", func(tc *schedv2alpha2.TopologyConstraint) world.WL {
			return world.WL{Queue: "qa", MinMember: 2, Topology: tc, Pods: []world.PodSpec{{Shape: shG1, State: world.StRunning, Node: "n3"}, {Shape: shG1}}}
		}},
		{"elastic3min1+1running", func(tc *schedv2alpha2.TopologyConstraint) world.WL {
			return world.WL{Queue: "qa", MinMember: 1, Topology: tc, Pods: []world.PodSpec{{Shape: shG1, State: world.StRunning, Node: "n1"}, {Shape: shG1}, {Shape: shG1}}}
		}},
		// elastic workloads with nothing running yet: the pods beyond the minimum are placed by later
		// attempts of the same cycle and must join the domain of the pods placed OR nominated before
		{"elastic2min1-pending", func(tc *schedv2alpha2.TopologyConstraint) world.WL {
			return world.WL{Queue: "qa", MinMember: 1, Topology: tc, Pods: pods(2, shG1, "", "")}
		}},
		{"elastic3min1-pending", func(tc *schedv2alpha2.TopologyConstraint) world.WL {
			return world.WL{Queue: "qa", MinMember: 1, Topology: tc, Pods: pods(3, shG1, "", "")}
		}},
		{"subgroups-a(rack)x2-b(rack)x1-in-zone", func(tc *schedv2alpha2.TopologyConstraint) world.WL {
			rack := &schedv2alpha2.TopologyConstraint{Topology: "t", RequiredTopologyLevel: lblRack}
			ps := pods(3, shG1, "", "")
			ps[0].SubGroup, ps[1].SubGroup, ps[2].SubGroup = "a", "a", "b"
			return world.WL{Queue: "qa", MinMember: 3, Topology: tc, SubGroups: []schedv2alpha2.SubGroup{{Name: "a", MinMember: 2, TopologyConstraint: rack}, {Name: "b", MinMember: 1, TopologyConstraint: rack}}, Pods: ps}
		}},
		{"nested-p(zone)[a(rack)x1,b x1]", func(tc *schedv2alpha2.TopologyConstraint) world.WL {
			rack := &schedv2alpha2.TopologyConstraint{Topology: "t", RequiredTopologyLevel: lblRack}
			zone := &schedv2alpha2.TopologyConstraint{Topology: "t", RequiredTopologyLevel: lblZone}
			ps := pods(2, shG1, "", "")
			ps[0].SubGroup, ps[1].SubGroup = "a", "b"
			return world.WL{Queue: "qa", MinMember: 2, Topology: tc, SubGroups: []schedv2alpha2.SubGroup{{Name: "p", TopologyConstraint: zone}, {Name: "a", MinMember: 1, Parent: ptr.To("p"), TopologyConstraint: rack}, {Name: "b", MinMember: 1, Parent: ptr.To("p")}}, Pods: ps}
		}},
	}
	fills := []struct {
		tag string
		wls []world.WL
	}{
		{"empty", nil},
		{"n1-busy-qb", []world.WL{{Queue: "qb", Pods: pods(1, shG1, world.StRunning, "n1")}}},
		{"n1,n2-busy-qb(over-quota)", []world.WL{{Queue: "qb", Pods: pods(1, shG1, world.StRunning, "n1")}, {Queue: "qb", Pods: pods(1, shG1, world.StRunning, "n2")}}},
		{"n4-busy+n3-terminating", []world.WL{{Queue: "qb", Pods: pods(1, shG1, world.StRunning, "n4")}, {Queue: "qb", Pods: pods(1, shG1, world.StTerminating, "n3")}}},
		{"n1-busy+n2-terminating", []world.WL{{Queue: "qb", Pods: pods(1, shG1, world.StRunning, "n1")}, {Queue: "qb", Pods: pods(1, shG1, world.StTerminating, "n2")}}},
		{"n1-terminating", []world.WL{{Queue: "qb", Pods: pods(1, shG1, world.StTerminating, "n1")}}},
		{"competitor-plain-gang2", []world.WL{{Queue: "qb", MinMember: 2, Pods: pods(2, shG1, "", "")}}},
	}
	cfgs := []schedrun.Config{{}, {Placement: "spread", ConsolidatingReclaim: true}, {MapSeed: 2}}
	for _, lay := range layouts {
		for _, tc := range tcs {
			for _, sh := range shapes {
				for _, fl := range fills {
					b := world.NewBuilder()
					nodes := map[string]bool{}
					for _, n := range lay.nodes {
						b.Node(n)
						nodes[n.Name] = true
					}
					b.GQueue("dept", "", -1, -1, 1).GQueue("qa", "dept", 2, -1, 1).GQueue("qb", "dept", 1, -1, 1)
					wl := sh.wl(tc.tc)
					wl.Name = "t"
					ok := true
					for _, p := range wl.Pods {
						if p.Node != "" && !nodes[p.Node] {
							ok = false
						}
					}
					for i, f := range fl.wls {
						f.Name = fmt.Sprintf("f%d", i)
						b.Workload(f)
					}
					if !ok {
						continue
					}
					b.Workload(wl)
					w := b.Done()
					w.Topologies = []*kaiv1alpha1.Topology{topo("t", lblZone, lblRack, "kubernetes.io/hostname"), topo("hostonly", "kubernetes.io/hostname")}
					out = append(out, clustermc.Scenario{Name: fmt.Sprintf("topo %s|%s|%s|%s", lay.tag, tc.tag, sh.tag, fl.tag), World: w, Configs: cfgs})
				}
			}
		}
	}
	return out
}

func nodePoolScenarios() []clustermc.Scenario {
	var out []clustermc.Scenario
	for _, variant := range []string{"pool-p1", "pool-absent"} {
		for _, extra := range []string{"pend1", "pend-gang2+run"} {
			b := world.NewBuilder()
			b.Node(world.NodeOpt{Name: "n1", CPU: "16", Mem: "32Gi", GPUs: 1, GPUMemMiB: 40000, Labels: map[string]string{lblPool: "p1"}})
			b.Node(world.NodeOpt{Name: "n2", CPU: "16", Mem: "32Gi", GPUs: 2, GPUMemMiB: 40000, Labels: map[string]string{lblPool: "p2"}})
			b.Node(world.NodeOpt{Name: "n3", CPU: "16", Mem: "32Gi", GPUs: 2, GPUMemMiB: 40000})
			b.GQueue("dept", "", -1, -1, 1).GQueue("qa", "dept", 1, -1, 1).GQueue("qb", "dept", 1, -1, 1)
			b.Workload(world.WL{Name: "a", Queue: "qa", Pods: pods(1, shG1, "", "")})
			if extra != "pend1" {
				b.Workload(world.WL{Name: "g", Queue: "qb", MinMember: 2, Pods: pods(2, shG1, "", "")})
				b.Workload(world.WL{Name: "r", Queue: "qb", Pods: pods(1, shG1, world.StRunning, "n1")})
			}
			w := b.Done()
			cfg := schedrun.Config{NodePoolKey: lblPool}
			if variant == "pool-p1" {
				cfg.NodePoolValue = "p1"
				for _, q := range w.Queues {
					q.Labels = map[string]string{lblPool: "p1"}
				}
				for _, pg := range w.PodGroups {
					pg.Labels[lblPool] = "p1"
				}
			}
			out = append(out, clustermc.Scenario{Name: "nodepool " + variant + " " + extra, World: w, Configs: []schedrun.Config{cfg}})
		}
	}
	return out
}

func C04() *clustermc.Family {
	return &clustermc.Family{
		Property: "C04",
		Scenarios: func(tier string) []clustermc.Scenario {
			qs := queueSetup{"q1+1", func(b *world.Builder) {
				b.GQueue("dept", "", -1, -1, 1).GQueue("qa", "dept", 1, -1, 1).GQueue("qb", "dept", 1, -1, 1)
			}}
			cfgs := []schedrun.Config{{}, {Placement: "spread", ConsolidatingReclaim: true}}
			out := wlScenarios(tier, constraintMenu(), constraintLayouts(), []queueSetup{qs}, cfgs, 3, 4)
			out = append(out, topologyScenarios(tier)...)
			out = append(out, nodePoolScenarios()...)
			return out
		},
		Depth: func(tier string) int {
			if tier == "thorough" {
				return 3
			}
			return 2
		},
		Env:     clustermc.EnvOpts{BindOK: true, Terminate: true},
		Oracles: []clustermc.Oracle{oracle.ConstraintOracle()},
		Vacuity: func(x map[string]int) string {
			if x["placements_checked"] < 1000 || x["topology_scopes_checked"] < 100 {
				return fmt.Sprintf("too few placements (%d) / topology scopes (%d) checked", x["placements_checked"], x["topology_scopes_checked"])
			}
			return ""
		},
	}
}

var _ = podMut
