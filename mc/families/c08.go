package families

import (
	"strings"
	"verif/mc/clustermc"
	"verif/mc/oracle"
	"verif/mc/schedrun"
	"verif/mc/world"
)

func limitsMenu() []wlItem {
	shCPU800 := world.Shape{CPUm: 800, MemMi: 256}
	return []wlItem{
		{"pend-g1-qa", world.WL{Queue: "qa", Pods: pods(1, shG1, "", "")}},
		{"pend-g1-np-qa", world.WL{Queue: "qa", PC: "p100", Pods: pods(1, shG1, "", "")}},
		{"pend-g2-qa", world.WL{Queue: "qa", Pods: pods(1, shG2, "", "")}},
		{"pend-f5-qa", world.WL{Queue: "qa", Pods: pods(1, shF5, "", "")}},
		{"pend-f5-np-qa", world.WL{Queue: "qa", PC: "p100", Pods: pods(1, shF5, "", "")}},
		{"pend-m30-qa", world.WL{Queue: "qa", Pods: pods(1, shM30, "", "")}},
		{"pend-mf2-qa", world.WL{Queue: "qa", Pods: pods(1, shMF2, "", "")}},
		{"pend-mm2-qa", world.WL{Queue: "qa", Pods: pods(1, shMM2, "", "")}},
		{"pend-mm2-np-qa", world.WL{Queue: "qa", PC: "p100", Pods: pods(1, shMM2, "", "")}},
		{"pend-elastic3min1-qa", world.WL{Queue: "qa", MinMember: 1, Pods: pods(3, shG1, "", "")}},
		{"pend-gang2-qb", world.WL{Queue: "qb", MinMember: 2, Pods: pods(2, shG1, "", "")}},
		{"pend-g1-np-qb", world.WL{Queue: "qb", PC: "p100", Pods: pods(1, shG1, "", "")}},
		{"pend-cpu800-qa", world.WL{Queue: "qa", Pods: pods(1, shCPU800, "", "")}},
		{"pend-cpu800-np-qa", world.WL{Queue: "qa", PC: "p100", Pods: pods(1, shCPU800, "", "")}},
		{"run-g1-qa", world.WL{Queue: "qa", Pods: pods(1, shG1, world.StRunning, "n1")}},
		{"run-g1-np-qa", world.WL{Queue: "qa", PC: "p100", Pods: pods(1, shG1, world.StRunning, "n1")}},
		{"run-f5-qa", world.WL{Queue: "qa", Pods: pods(1, shF5, world.StRunning, "n1")}},
		{"run-g1-qb", world.WL{Queue: "qb", Pods: pods(1, shG1, world.StRunning, "n1")}},
		{"run-cpu800-qa", world.WL{Queue: "qa", Pods: pods(1, shCPU800, world.StRunning, "n1")}},
		{"term-g1-qa", world.WL{Queue: "qa", Pods: pods(1, shG1, world.StTerminating, "n1")}},
	}
}

func limitQueues() []queueSetup {
	u := world.QUnlimited()
	g := func(q, l, w float64) world.QRes { return world.QRes{Quota: q, Limit: l, Weight: w} }
	mk := func(tag string, qs ...world.QueueOpt) queueSetup {
		return queueSetup{tag, func(b *world.Builder) {
			for _, q := range qs {
				if q.CPU == (world.QRes{}) {
					q.CPU = u
				}
				if q.Mem == (world.QRes{}) {
					q.Mem = u
				}
				b.Queue(q)
			}
		}}
	}
	return []queueSetup{
		mk("dept-l2/qa-l1q1/qb-q1", world.QueueOpt{Name: "dept", GPU: g(-1, 2, 1)}, world.QueueOpt{Name: "qa", Parent: "dept", GPU: g(1, 1, 1)}, world.QueueOpt{Name: "qb", Parent: "dept", GPU: g(1, -1, 1)}),
		mk("dept-l1/qa-q0/qb-q1", world.QueueOpt{Name: "dept", GPU: g(-1, 1, 1)}, world.QueueOpt{Name: "qa", Parent: "dept", GPU: g(0, -1, 1)}, world.QueueOpt{Name: "qb", Parent: "dept", GPU: g(1, -1, 1)}),
		mk("dept-q1/qa-q0l0.5/qb-q1", world.QueueOpt{Name: "dept", GPU: g(1, -1, 1)}, world.QueueOpt{Name: "qa", Parent: "dept", GPU: g(0, 0.5, 1)}, world.QueueOpt{Name: "qb", Parent: "dept", GPU: g(1, -1, 1)}),
		mk("org-l2/dept-q1/qa-q1/qb-q0", world.QueueOpt{Name: "org", GPU: g(-1, 2, 1)}, world.QueueOpt{Name: "dept", Parent: "org", GPU: g(1, -1, 1)}, world.QueueOpt{Name: "qa", Parent: "dept", GPU: g(1, -1, 1)}, world.QueueOpt{Name: "qb", Parent: "dept", GPU: g(0, -1, 1)}),
		mk("dept/qa-cpu-l1000-q500/qb", world.QueueOpt{Name: "dept", GPU: g(-1, -1, 1)}, world.QueueOpt{Name: "qa", Parent: "dept", GPU: g(-1, -1, 1), CPU: world.QRes{Quota: 500, Limit: 1000, Weight: 1}}, world.QueueOpt{Name: "qb", Parent: "dept", GPU: g(1, -1, 1)}),
		mk("dept-l0/qa/qb", world.QueueOpt{Name: "dept", GPU: g(-1, 0, 1)}, world.QueueOpt{Name: "qa", Parent: "dept", GPU: g(1, -1, 1)}, world.QueueOpt{Name: "qb", Parent: "dept", GPU: g(1, -1, 1)}),
	}
}

// limitsReleasingScenarios: victim-eligible elastic workloads that already have a TERMINATING pod
// (scaled down / evicted earlier) inside queues that sit at their limit or quota: a terminating pod is
// not charged to the queue, so "evicting" it again must not make room under the limit.
func limitsReleasingScenarios(tier string) []clustermc.Scenario {
	el := func(q string) world.WL {
		return world.WL{Queue: q, MinMember: 1, Pods: []world.PodSpec{{Shape: shG1, State: world.StRunning, Node: "n1"}, {Shape: shG1, State: world.StTerminating, Node: "n1"}}}
	}
	// a gang that fell below its minimum (one member terminating, no replacement yet) while the other
	// member keeps running: not schedulable itself, but its running pod still occupies its queues
	broken := func(q string, np bool) world.WL {
		wl := world.WL{Queue: q, MinMember: 2, Pods: []world.PodSpec{{Shape: shG1, State: world.StRunning, Node: "n1"}, {Shape: shG1, State: world.StTerminating, Node: "n1"}}}
		if np {
			wl.PC = "p100"
		}
		return wl
	}
	menu := []wlItem{
		{"run1+term1-elastic-qa", el("qa")},
		{"run1+term1-elastic-qb", el("qb")},
		{"run1+term1-brokengang2-qa", broken("qa", false)},
		{"run1+term1-brokengang2-np-qb", broken("qb", true)},
		{"pend-g1-qa", world.WL{Queue: "qa", Pods: pods(1, shG1, "", "")}},
		{"pend-g1-np-qa", world.WL{Queue: "qa", PC: "p100", Pods: pods(1, shG1, "", "")}},
		{"pend-g1-p75-qa", world.WL{Queue: "qa", PC: "p75", Pods: pods(1, shG1, "", "")}},
		{"pend-g1-np-qb", world.WL{Queue: "qb", PC: "p100", Pods: pods(1, shG1, "", "")}},
		{"pend-gang2-qb", world.WL{Queue: "qb", MinMember: 2, Pods: pods(2, shG1, "", "")}},
		{"run-g1-qa", world.WL{Queue: "qa", Pods: pods(1, shG1, world.StRunning, "n1")}},
		{"run-g1-qb", world.WL{Queue: "qb", Pods: pods(1, shG1, world.StRunning, "n1")}},
	}
	lay := []nodeLayout{{"1n-4gpu", []world.NodeOpt{{Name: "n1", CPU: "16", Mem: "32Gi", GPUs: 4, GPUMemMiB: 40000}}},
		{"1n-3gpu", []world.NodeOpt{{Name: "n1", CPU: "16", Mem: "32Gi", GPUs: 3, GPUMemMiB: 40000}}}}
	cfgs := []schedrun.Config{{}, {Placement: "spread", NoConsolidation: true, ConsolidatingReclaim: true}}
	var out []clustermc.Scenario
	for _, sc := range wlScenarios(tier, menu, lay, limitQueues(), cfgs, 3, 4) {
		if strings.Contains(sc.Name, "run1+term1") {
			out = append(out, sc)
		}
	}
	return out
}

// limitsGpuMemoryScenarios: gpu-memory requests on nodes whose GPUs have DIFFERENT memory sizes - the
// share a pod is charged with depends on the node it is (re-)placed on - under fractional GPU limits that
// lie between the two shares; whole-GPU pods compete for the big-GPU node so that solvers move the victim.
func limitsGpuMemoryScenarios(tier string) []clustermc.Scenario {
	m12 := world.Shape{CPUm: 500, GPUMem: "12000"}
	menu := []wlItem{
		{"run-m12-n1-qa", world.WL{Queue: "qa", Pods: pods(1, m12, world.StRunning, "n1")}},
		{"run-m12-n2-qa", world.WL{Queue: "qa", Pods: pods(1, m12, world.StRunning, "n2")}},
		{"pend-m12-qa", world.WL{Queue: "qa", Pods: pods(1, m12, "", "")}},
		{"pend-g1-qb", world.WL{Queue: "qb", Pods: pods(1, shG1, "", "")}},
		{"pend-g2-qb", world.WL{Queue: "qb", Pods: pods(1, shG2, "", "")}},
		{"pend-g1-p75-qa", world.WL{Queue: "qa", PC: "p75", Pods: pods(1, shG1, "", "")}},
		{"run-g1-n2-qb", world.WL{Queue: "qb", Pods: pods(1, shG1, world.StRunning, "n2")}},
	}
	u := world.QUnlimited()
	g := func(q, l float64) world.QRes { return world.QRes{Quota: q, Limit: l, Weight: 1} }
	var qsets []queueSetup
	for _, lim := range []float64{0.5, 0.4, 1} {
		lim := lim
		qsets = append(qsets, queueSetup{name("gpumem-dept-limit*10=", []int{int(lim * 10)}), func(b *world.Builder) {
			for _, q := range []world.QueueOpt{{Name: "org", GPU: g(-1, -1)}, {Name: "dept", Parent: "org", GPU: g(-1, lim)}, {Name: "qa", Parent: "dept", GPU: g(1, -1)}, {Name: "qb", Parent: "org", GPU: g(1, -1)}} {
				q.CPU, q.Mem = u, u
				b.Queue(q)
			}
		}})
	}
	lay := []nodeLayout{
		{"2n-big40+small20", []world.NodeOpt{{Name: "n1", CPU: "16", Mem: "32Gi", GPUs: 1, GPUMemMiB: 40000}, {Name: "n2", CPU: "16", Mem: "32Gi", GPUs: 1, GPUMemMiB: 20000}}},
		{"2n-big40x2+small20", []world.NodeOpt{{Name: "n1", CPU: "16", Mem: "32Gi", GPUs: 2, GPUMemMiB: 40000}, {Name: "n2", CPU: "16", Mem: "32Gi", GPUs: 1, GPUMemMiB: 20000}}},
	}
	cfgs := []schedrun.Config{{}, {Placement: "spread", ConsolidatingReclaim: true}}
	return wlScenariosRange(menu, lay, qsets, cfgs, 2, 3)
}

// limitsBindFaultScenarios: gangs and single jobs under limited queues on a node with room for all of
// them, with every single bind failing in turn: whatever a statement already bound stays charged to its
// queues, so the jobs that follow in the same cycle still meet the limit and the non-preemptible quota.
func limitsBindFaultScenarios(tier string) []clustermc.Scenario {
	menu := []wlItem{
		{"pend-gang2-qa", world.WL{Queue: "qa", MinMember: 2, Pods: pods(2, shG1, "", "")}},
		{"pend-gang2-np-qb", world.WL{Queue: "qb", PC: "p100", MinMember: 2, Pods: pods(2, shG1, "", "")}},
		{"pend-g1-qa", world.WL{Queue: "qa", Pods: pods(1, shG1, "", "")}},
		{"pend-g1-np-qa", world.WL{Queue: "qa", PC: "p100", Pods: pods(1, shG1, "", "")}},
		{"pend-g1-qb", world.WL{Queue: "qb", Pods: pods(1, shG1, "", "")}},
		{"pend-g1-np-qb", world.WL{Queue: "qb", PC: "p100", Pods: pods(1, shG1, "", "")}},
	}
	variant := &clustermc.Family{
		Property:   "C08",
		Depth:      func(string) int { return 2 },
		FaultDepth: func(string) int { return 1 },
		Env:        clustermc.EnvOpts{BindOK: true, Terminate: true},
		Oracles:    []clustermc.Oracle{oracle.LimitsOracle()},
	}
	lay := []nodeLayout{{"1n-6gpu", []world.NodeOpt{{Name: "n1", CPU: "16", Mem: "32Gi", GPUs: 6, GPUMemMiB: 40000}}}}
	cfgs := []schedrun.Config{{}, {Placement: "spread", ConsolidatingReclaim: true}}
	var out []clustermc.Scenario
	for _, sc := range wlScenariosRange(menu, lay, limitQueues(), cfgs, 2, 4) {
		if !strings.Contains(sc.Name, "gang2") {
			continue
		}
		sc.Name = "bindfault:" + sc.Name
		sc.Variant = variant
		out = append(out, sc)
	}
	return out
}

func C08() *clustermc.Family {
	return &clustermc.Family{
		Property: "C08",
		Scenarios: func(tier string) []clustermc.Scenario {
			lay := []nodeLayout{{"1n-4gpu", []world.NodeOpt{{Name: "n1", CPU: "16", Mem: "32Gi", GPUs: 4, GPUMemMiB: 40000}}}}
			if tier == "thorough" {
				lay = append(lay, nodeLayout{"2n-2+2gpu", []world.NodeOpt{{Name: "n1", CPU: "16", Mem: "32Gi", GPUs: 2, GPUMemMiB: 40000}, {Name: "n2", CPU: "16", Mem: "32Gi", GPUs: 2, GPUMemMiB: 80000}}})
			}
			cfgs := []schedrun.Config{{}, {Placement: "spread", NoConsolidation: true, ConsolidatingReclaim: true}}
			out := append(append(wlScenarios(tier, limitsMenu(), lay, limitQueues(), cfgs, 3, 4), limitsReleasingScenarios(tier)...), limitsGpuMemoryScenarios(tier)...)
			return append(out, limitsBindFaultScenarios(tier)...)
		},
		Depth:   func(tier string) int { return 3 },
		Env:     clustermc.EnvOpts{BindOK: true, Terminate: true},
		Oracles: []clustermc.Oracle{oracle.LimitsOracle()},
	}
}
