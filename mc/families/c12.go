package families

import (
	"strings"
	"fmt"

	corev1 "k8s.io/api/core/v1"
	"k8s.io/utils/ptr"

	schedv1alpha2 "github.com/NVIDIA/KAI-scheduler/pkg/apis/scheduling/v1alpha2"

	"verif/mc/clustermc"
	"verif/mc/engine"
	"verif/mc/oracle"
	"verif/mc/schedrun"
	"verif/mc/world"
)

// handoffScenarios: pods in every BindRequest progress state x BackoffLimit x competitors for
// the same capacity x node deleted.
func handoffScenarios(tier string) []clustermc.Scenario {
	type brState struct {
		tag     string
		phase   string
		failed  int32
		backoff *int32
		podBound bool // pod already has nodeName although the BR is not Succeeded
	}
	states := []brState{
		{"notstarted-nil", "", 0, nil, false},
		{"notstarted-b3", "", 0, ptr.To(int32(3)), false},
		{"failed1-nil", "Failed", 1, nil, false},
		{"failed1-b0", "Failed", 1, ptr.To(int32(0)), false},
		{"failed1-b1", "Failed", 1, ptr.To(int32(1)), false},
		{"failed1-b3", "Failed", 1, ptr.To(int32(3)), false},
		{"failed3-b3", "Failed", 3, ptr.To(int32(3)), false},
		{"pending-podbound", "Pending", 0, nil, true},
		{"succeeded-podbound", "Succeeded", 0, nil, true},
	}
	shapes := []struct {
		tag string
		s   world.Shape
	}{{"g1", shG1}, {"g2", shG2}, {"f5", shF5}, {"mf2", shMF2}, {"cpu", shCPU}}
	competitors := []struct {
		tag string
		wls []world.WL
	}{
		{"pend-g1", []world.WL{{Queue: "qa", Pods: pods(1, shG1, "", "")}}},
		{"pend-g2", []world.WL{{Queue: "qa", Pods: pods(1, shG2, "", "")}}},
		{"pend-f5+f7", []world.WL{{Queue: "qa", Pods: pods(1, shF5, "", "")}, {Queue: "qa", Pods: pods(1, shF7, "", "")}}},
		{"pend-cpu+run-g1", []world.WL{{Queue: "qa", Pods: pods(1, shCPU, "", "")}, {Queue: "qa", Pods: pods(1, shG1, world.StRunning, "n1")}}},
		{"none", nil},
	}
	layouts := []nodeLayout{
		{"1n-2gpu", []world.NodeOpt{{Name: "n1", CPU: "4", Mem: "8Gi", GPUs: 2, GPUMemMiB: 40000}}},
		{"2n-2+1gpu", []world.NodeOpt{{Name: "n1", CPU: "4", Mem: "8Gi", GPUs: 2, GPUMemMiB: 40000}, {Name: "n2", CPU: "4", Mem: "8Gi", GPUs: 1, GPUMemMiB: 40000}}},
		{"selected-node-deleted", []world.NodeOpt{{Name: "n2", CPU: "4", Mem: "8Gi", GPUs: 2, GPUMemMiB: 40000}}},
	}
	var out []clustermc.Scenario
	for _, lay := range layouts {
		for _, st := range states {
			for _, sh := range shapes {
				for _, comp := range competitors {
					b := world.NewBuilder()
					for _, n := range lay.nodes {
						b.Node(n)
					}
					b.GQueue("dept", "", -1, -1, 1).GQueue("qa", "dept", -1, -1, 1)
					b.Workload(world.WL{Name: "h", Queue: "qa", Pods: []world.PodSpec{{Shape: sh.s, State: world.StBinding, Node: "n1"}}})
					w := b.W
					br := w.BindRequests[0]
					br.Status.Phase = st.phase
					br.Status.FailedAttempts = st.failed
					br.Spec.BackoffLimit = st.backoff
					if st.podBound {
						p := w.Pod("h-0")
						p.Spec.NodeName = "n1"
						if st.phase == schedv1alpha2.BindRequestPhaseSucceeded {
							p.Status.Phase = corev1.PodRunning
						}
					}
					for i, wl := range comp.wls {
						wl.Name = fmt.Sprintf("c%d", i)
						b.Workload(wl)
					}
					if lay.tag == "selected-node-deleted" {
						// pods that were placed on the deleted node are gone with it
						keep := w.Pods[:0]
						for _, p := range w.Pods {
							if p.Spec.NodeName != "n1" {
								keep = append(keep, p)
							}
						}
						w.Pods = keep
						if w.Pod("h-0") == nil {
							continue
						}
					}
					out = append(out, clustermc.Scenario{Name: fmt.Sprintf("%s:%s-%s+%s", lay.tag, st.tag, sh.tag, comp.tag), World: w,
						Configs: []schedrun.Config{{}, {Placement: "spread"}}})
				}
			}
		}
	}
	return out
}

// C12BinderHalf is set by package checks/c12binder (kept separate: it needs the binder wiring).
var C12BinderHalf func(tier string) (map[string]any, []engine.Violation)

// C12EndToEnd is set by package checks/c12binder: scenarios whose bind events are real binder reconciles.
var C12EndToEnd func(tier string) []clustermc.Scenario

// handoffPersistentScenarios: hand-offs that fail REPEATEDLY, explored on ONE scheduler cache that
// lives across all cycles of a path (clustermc.Family.Persistent): what the cache remembers from the
// clean-up of the first stale request must not get in the way of the second.
func handoffPersistentScenarios(tier string) []clustermc.Scenario {
	variant := &clustermc.Family{
		Property:   "C12",
		Persistent: true,
		Depth: func(tier string) int {
			if tier == "thorough" {
				return 7
			}
			return 5
		},
		Env:     clustermc.EnvOpts{BindOK: true, BindFail: true, DeleteNode: true},
		Oracles: []clustermc.Oracle{oracle.HandoffOracle()},
	}
	var out []clustermc.Scenario
	for _, sc := range handoffScenarios(tier) {
		// one workload being handed off, a whole-GPU or fractional pod, no competitors; both layouts with nodes
		if !strings.HasSuffix(sc.Name, "+none") || strings.HasPrefix(sc.Name, "selected-node-deleted") {
			continue
		}
		if !(strings.Contains(sc.Name, ":failed1-nil-") || strings.Contains(sc.Name, ":notstarted-nil-")) {
			continue
		}
		if !(strings.Contains(sc.Name, "-g1+") || strings.Contains(sc.Name, "-f5+")) {
			continue
		}
		sc.Name = "persistent-cache:" + sc.Name
		sc.Configs = sc.Configs[:1]
		sc.Variant = variant
		out = append(out, sc)
	}
	return out
}

func C12() *clustermc.Family {
	return &clustermc.Family{
		Extra: func(tier string) (map[string]any, []engine.Violation) {
			if C12BinderHalf == nil {
				return map[string]any{"binder_half": "not linked into this binary"}, nil
			}
			return C12BinderHalf(tier)
		},
		Property:  "C12",
		Scenarios: func(tier string) []clustermc.Scenario {
			out := append(handoffScenarios(tier), handoffPersistentScenarios(tier)...)
			if C12EndToEnd != nil {
				out = append(out, C12EndToEnd(tier)...)
			}
			return out
		},
		Depth: func(tier string) int {
			if tier == "thorough" {
				return 5
			}
			return 3
		},
		Env:     clustermc.EnvOpts{BindOK: true, BindFail: true, BindPartial: true, Terminate: true, DeleteNode: true},
		Oracles: []clustermc.Oracle{oracle.HandoffOracle()},
	}
}
