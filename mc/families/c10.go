package families

import (
	"encoding/json"
	"fmt"
	"os"
	"sort"
	"strings"
	"time"

	corev1 "k8s.io/api/core/v1"
	"k8s.io/apimachinery/pkg/api/resource"
	"k8s.io/utils/ptr"

	schedv2alpha2 "github.com/NVIDIA/KAI-scheduler/pkg/apis/scheduling/v2alpha2"

	"verif/mc/clustermc"
	"verif/mc/engine"
	"verif/mc/registry"
	"verif/mc/schedrun"
	"verif/mc/world"
)

// C10: a scheduling cycle completes on ANY API state. Bounded-exhaustive enumeration of malformed /
// adversarial object graphs; each input also contains one healthy queue + workload + node, and
// is run through the REAL cycle in a worker process guarded by a CPU-time watchdog and ulimit -v.

type c10Input struct {
	Name  string
	Class string // stable class used in violation keys
	World *world.World
	// Tight: capacity is scarce so that reclaim / preempt / consolidation run on the malformed
	// objects; the healthy workload may then legitimately lose the race, so only completion
	// (no panic, termination) is required.
	Tight bool
	// Cfg: scheduler configuration of the cycle (zero value = defaults).
	Cfg schedrun.Config
	// NoHealthyReq: the malformed objects touch every workload (e.g. a user queue that takes the
	// place of the generated parent of ALL queues); only completion is required.
	NoHealthyReq bool
}

var c10Tight bool

func healthyBase() *world.Builder {
	b := world.NewBuilder()
	if c10Tight {
		b.Node(world.NodeOpt{Name: "ok-node", CPU: "8", Mem: "16Gi", GPUs: 2, GPUMemMiB: 40000})
	} else {
		b.Node(world.NodeOpt{Name: "ok-node", CPU: "64", Mem: "256Gi", GPUs: 8, GPUMemMiB: 40000})
	}
	b.GQueue("ok-dept", "", -1, -1, 1).GQueue("ok-q", "ok-dept", 1, -1, 1)
	b.Workload(world.WL{Name: "ok", Queue: "ok-q", Pods: pods(1, shG1, "", "")})
	return b
}

var nastyNumbers = []string{"NaN", "nan", "Inf", "+Inf", "-Inf", "-1", "-0.5", "0", "0.0", "1e309", "1e-400", "0x1p-2", "0x10",
	"9223372036854775807", "9223372036854775808", "18446744073709551615", "18446744073709551616", " 1", "1 ", "", "abc", "1_0", "0.004", "1.5", "2", "100", "1e2", ".5", "+0.5"}

func c10Inputs(tier string) []c10Input {
	var out []c10Input
	for _, tight := range []bool{false, true} {
		c10Tight = tight
		out = append(out, c10InputsOne(tier, tight)...)
	}
	c10Tight = false
	// the same malformed inputs under a second scheduler configuration
	alt := schedrun.Config{Placement: "spread", Signatures: true, ConsolidatingReclaim: true}
	for _, in := range append([]c10Input{}, out...) {
		in.Name, in.Cfg = in.Name+" [cfg="+alt.Label()+"]", alt
		out = append(out, in)
	}
	out = append(out, projectLevelInputs()...)
	out = append(out, validWorlds(tier)...)
	return out
}

// projectLevelInputs: fullHierarchyFairness=false. The snapshot drops queues without a parent,
// re-parents every other queue to a generated parent named "default" and has to survive user
// queues that carry that very name, with every parent function over {root, n0, n1, n2, default, missing}.
func projectLevelInputs() []c10Input {
	var out []c10Input
	cfg := schedrun.Config{ProjectLevelFairness: true}
	for _, names := range [][]string{{"q0", "q1", "q2"}, {"default", "q1", "q2"}} {
		parents := []string{"", names[0], names[1], names[2], "default", "missing"}
		for a := range parents {
			for bq := range parents {
				for c := range parents {
					ps := []string{parents[a], parents[bq], parents[c]}
					for _, variant := range []string{"pending-in-n0", "running-in-n1+pending-in-n2"} {
						for _, tight := range []bool{false, true} {
							c10Tight = tight
							b := healthyBase()
							for i, p := range ps {
								b.GQueue(names[i], p, 1, -1, 1)
							}
							if variant == "pending-in-n0" {
								b.Workload(world.WL{Name: "m", Queue: names[0], Pods: pods(1, shG1, "", "")})
							} else {
								b.Workload(world.WL{Name: "m1", Queue: names[1], Pods: pods(1, shG1, world.StRunning, "ok-node")})
								b.Workload(world.WL{Name: "m2", Queue: names[2], Pods: pods(1, shG1, "", "")})
							}
							nm := fmt.Sprintf("project-level queues names=%v parents=%v %s", names, ps, variant)
							if tight {
								nm = "tight: " + nm
							}
							out = append(out, c10Input{Name: nm, Class: "queue-graph-project-level", World: b.Done(), Tight: tight, Cfg: cfg, NoHealthyReq: names[0] == "default"})
						}
					}
				}
			}
		}
	}
	c10Tight = false
	return out
}

// validWorlds: every initial world of the other ClusterMC grammars (well-formed clusters). The
// statement covers ANY API state; panics on valid states found by other checks are only counted
// there, so C10 sweeps the same worlds for completion.
func validWorlds(tier string) []c10Input {
	var out []c10Input
	seen := map[string]bool{}
	add := func(fam string, scns []clustermc.Scenario) {
		for _, sc := range scns {
			key := fam + "|" + sc.Name
			if seen[key] {
				continue
			}
			seen[key] = true
			out = append(out, c10Input{Name: "valid " + fam + " " + sc.Name, Class: "valid-world", World: sc.World, Tight: true})
		}
	}
	add("cap", capScenarios("quick"))
	add("share", shareScenarios("quick"))
	add("gang", C03().Scenarios("quick"))
	add("victims", C06().Scenarios("quick"))
	add("progress", C05().Scenarios("quick"))
	add("reclaim", C07().Scenarios("quick"))
	add("handoff", handoffScenarios("quick"))
	if tier == "thorough" {
		add("limits", C08().Scenarios("quick"))
		add("closed", closedScenarios("quick"))
		add("order", orderScenarios("quick"))
	}
	return out
}

func c10InputsOne(tier string, tight bool) []c10Input {
	var out []c10Input
	add := func(class, name string, w *world.World) {
		if tight {
			name = "tight: " + name
		}
		out = append(out, c10Input{Name: name, Class: class, World: w, Tight: tight})
	}
	// (a) every parent function on 3 queues over {root, q0, q1, q2, missing}
	parents := []string{"", "q0", "q1", "q2", "missing"}
	for a := range parents {
		for bq := range parents {
			for c := range parents {
				ps := []string{parents[a], parents[bq], parents[c]}
				for _, variant := range []string{"pending-in-q0", "running-in-q1+pending-in-q2"} {
					b := healthyBase()
					for i, p := range ps {
						b.GQueue(fmt.Sprintf("q%d", i), p, 1, -1, 1)
					}
					if variant == "pending-in-q0" {
						b.Workload(world.WL{Name: "m", Queue: "q0", Pods: pods(1, shG1, "", "")})
					} else {
						b.Workload(world.WL{Name: "m1", Queue: "q1", Pods: pods(1, shG1, world.StRunning, "ok-node")})
						b.Workload(world.WL{Name: "m2", Queue: "q2", Pods: pods(1, shG1, "", "")})
					}
					class := "queue-graph-acyclic"
					// classify: cyclic iff some queue's parent chain revisits a queue
					for i := range ps {
						seen := map[string]bool{}
						cur := fmt.Sprintf("q%d", i)
						for cur != "" && cur != "missing" {
							if seen[cur] {
								class = "queue-graph-cyclic"
								break
							}
							seen[cur] = true
							idx := int(cur[1] - '0')
							cur = ps[idx]
						}
					}
					add(class, fmt.Sprintf("queues parents=%v %s", ps, variant), b.Done())
				}
			}
		}
	}
	// (b) pod groups: sub-group parent graphs on <=3 sub-groups x minMember x odd names x missing queue
	sgParents := []string{"", "a", "b", "c", "zz"}
	mins := []int32{-1, 0, 1, 5}
	for a := range sgParents {
		for bq := range sgParents {
			for c := range sgParents {
				for _, mm := range mins {
					if tier != "thorough" && mm == 5 && (a+bq+c)%2 == 1 {
						continue
					}
					b := healthyBase()
					b.GQueue("qm", "ok-dept", 1, -1, 1)
					mkp := func(s string) *string {
						if s == "" {
							return nil
						}
						return ptr.To(s)
					}
					sgs := []schedv2alpha2.SubGroup{{Name: "a", MinMember: mm, Parent: mkp(sgParents[a])}, {Name: "b", MinMember: mm, Parent: mkp(sgParents[bq])}, {Name: "c", MinMember: 1, Parent: mkp(sgParents[c])}}
					ps := pods(3, shG1, "", "")
					ps[0].SubGroup, ps[1].SubGroup, ps[2].SubGroup = "a", "b", "c"
					b.Workload(world.WL{Name: "m", Queue: "qm", MinMember: mm, SubGroups: sgs, Pods: ps})
					w := b.Done()
					w.PodGroup("m").Spec.MinMember = mm
					add("subgroup-graph", fmt.Sprintf("subgroups parents=[%s %s %s] min=%d", sgParents[a], sgParents[bq], sgParents[c], mm), w)
					if tight {
						// the same pod group with two of its pods RUNNING on the only node (queue over quota): the
						// healthy workload has to reclaim from it, so the malformed group is seen as a victim too
						b := healthyBase()
						b.GQueue("qm", "ok-dept", 1, -1, 1)
						ps := pods(3, shG1, "", "")
						ps[0].SubGroup, ps[1].SubGroup, ps[2].SubGroup = "a", "b", "c"
						ps[0].State, ps[0].Node, ps[1].State, ps[1].Node = world.StRunning, "ok-node", world.StRunning, "ok-node"
						b.Workload(world.WL{Name: "m", Queue: "qm", MinMember: mm, SubGroups: sgs, Pods: ps})
						w := b.Done()
						w.PodGroup("m").Spec.MinMember = mm
						add("subgroup-graph-running-victim", fmt.Sprintf("subgroups parents=[%s %s %s] min=%d running", sgParents[a], sgParents[bq], sgParents[c], mm), w)
					}
				}
			}
		}
	}
	for _, names := range [][]string{{"a", "a"}, {"a", "A"}, {"", "x"}, {"a", "b"}} {
		for _, mm := range mins {
			for _, queue := range []string{"qm", "no-such-queue", ""} {
				b := healthyBase()
				b.GQueue("qm", "ok-dept", 1, -1, 1)
				sgs := []schedv2alpha2.SubGroup{{Name: names[0], MinMember: mm}, {Name: names[1], MinMember: 1, Parent: ptr.To(names[0])}}
				ps := pods(3, shG1, "", "")
				ps[0].SubGroup, ps[1].SubGroup, ps[2].SubGroup = names[0], names[1], "unknown-subgroup"
				b.Workload(world.WL{Name: "m", Queue: queue, MinMember: mm, SubGroups: sgs, Pods: ps})
				w := b.Done()
				w.PodGroup("m").Spec.MinMember = mm
				add("subgroup-names", fmt.Sprintf("subgroups names=%q min=%d queue=%q", names, mm, queue), w)
			}
		}
	}
	// flat group: minMember x zero pods / running pods on unknown node
	for _, mm := range []int32{-1, 0, 1, 5} {
		for _, variant := range []string{"zero-pods", "pending", "running-on-unknown-node", "bound-br-unknown-node"} {
			b := healthyBase()
			b.GQueue("qm", "ok-dept", 1, -1, 1)
			var ps []world.PodSpec
			switch variant {
			case "pending":
				ps = pods(2, shG1, "", "")
			case "running-on-unknown-node":
				ps = pods(1, shG1, world.StRunning, "ghost")
			case "bound-br-unknown-node":
				ps = pods(1, shF5, world.StBinding, "ghost")
			}
			b.Workload(world.WL{Name: "m", Queue: "qm", MinMember: mm, Pods: ps})
			w := b.Done()
			w.PodGroup("m").Spec.MinMember = mm
			add("flat-group", fmt.Sprintf("group min=%d %s", mm, variant), w)
		}
	}
	// (c) pods with nasty GPU annotations (pending and running)
	for _, anno := range []string{world.GpuFractionAnno, world.GpuMemoryAnno, world.NumDevicesAnno} {
		for _, v := range nastyNumbers {
			for _, state := range []string{"", world.StRunning} {
				b := healthyBase()
				b.GQueue("qm", "ok-dept", 1, -1, 1)
				sh := world.Shape{CPUm: 100}
				switch anno {
				case world.GpuFractionAnno:
					sh.Fraction = v
				case world.GpuMemoryAnno:
					sh.GPUMem = v
				default:
					sh.Fraction, sh.NumDev = "0.5", v
				}
				node := ""
				if state != "" {
					node = "ok-node"
				}
				b.Workload(world.WL{Name: "m", Queue: "qm", Pods: []world.PodSpec{{Shape: sh, State: state, Node: node, Mutate: func(p *corev1.Pod) {
					// the builder drops empty annotation values: force the literal
					p.Annotations[anno] = v
				}}}})
				add("pod-annotation", fmt.Sprintf("pod %s=%q state=%q", anno, v, state), b.Done())
			}
		}
	}
	// (c2) extended-resource names in the MIG name space that do not have the documented
	// nvidia.com/mig-<n>g.<m>gb form (the API server accepts any extended-resource name), on pods
	// (pending and running) and on the node that advertises them
	for _, name := range []string{"nvidia.com/mig-1g", "nvidia.com/mig-3g20gb", "nvidia.com/mig-", "nvidia.com/mig-1g.5", "nvidia.com/mig-.", "nvidia.com/mig-1g.5gb111", "nvidia.com/mig-xg.ygb", "nvidia.com/mig-99999999999999999999g.5gb", "nvidia.com/mig-1g.5gb.extra", "nvidia.com/mig--1g.5gb"} {
		for _, state := range []string{"", world.StRunning} {
			for _, advertised := range []bool{false, true} {
				b := healthyBase()
				extra := map[string]int64{}
				if advertised {
					extra[name] = 2
				}
				b.Node(world.NodeOpt{Name: "odd", CPU: "8", Mem: "16Gi", GPUs: 2, GPUMemMiB: 40000, Extra: extra})
				b.GQueue("qm", "ok-dept", 1, -1, 1)
				node := ""
				if state != "" {
					node = "odd"
				}
				b.Workload(world.WL{Name: "m", Queue: "qm", Pods: []world.PodSpec{{Shape: world.Shape{CPUm: 100, Extra: map[string]int64{name: 1}}, State: state, Node: node}}})
				add("mig-resource-name", fmt.Sprintf("pod requests %q state=%q advertised=%v", name, state, advertised), b.Done())
			}
		}
	}
	// (d) odd nodes
	type nodeMut struct {
		tag string
		f   func(n *corev1.Node)
	}
	nodeMuts := []nodeMut{
		{"no-labels", func(n *corev1.Node) { n.Labels = nil }},
		{"zero-allocatable", func(n *corev1.Node) { n.Status.Allocatable = corev1.ResourceList{} }},
		{"nil-status", func(n *corev1.Node) { n.Status = corev1.NodeStatus{} }},
		{"gpu-count-nonnumeric", func(n *corev1.Node) { n.Labels["nvidia.com/gpu.count"] = "many" }},
		{"gpu-count-negative", func(n *corev1.Node) { n.Labels["nvidia.com/gpu.count"] = "-3" }},
		{"gpu-memory-nonnumeric", func(n *corev1.Node) { n.Labels[world.GpuMemoryLabel] = "lots" }},
		{"gpu-memory-zero", func(n *corev1.Node) { n.Labels[world.GpuMemoryLabel] = "0" }},
		{"gpu-memory-negative", func(n *corev1.Node) { n.Labels[world.GpuMemoryLabel] = "-40000" }},
		{"gpu-memory-50", func(n *corev1.Node) { n.Labels[world.GpuMemoryLabel] = "50" }},
		{"gpu-memory-huge", func(n *corev1.Node) { n.Labels[world.GpuMemoryLabel] = "9223372036854775807" }},
		{"negative-gpus", func(n *corev1.Node) { n.Status.Allocatable[world.GpuResource] = resource.MustParse("-1") }},
		{"zero-pods", func(n *corev1.Node) { n.Status.Allocatable[corev1.ResourcePods] = resource.MustParse("0") }},
		{"mig-label-bad", func(n *corev1.Node) { n.Labels["node-role.kubernetes.io/mig-enabled"] = "maybe" }},
		{"mig-strategy-bad", func(n *corev1.Node) {
			n.Labels["nvidia.com/mig.strategy"] = "weird"
			n.Status.Allocatable["nvidia.com/mig-1g.5gb"] = resource.MustParse("2")
		}},
		{"mig-resource-malformed", func(n *corev1.Node) { n.Status.Allocatable["nvidia.com/mig-xg.ygb"] = resource.MustParse("2") }},
		{"no-conditions", func(n *corev1.Node) { n.Status.Conditions = nil }},
	}
	for _, nm := range nodeMuts {
		for _, wl := range []string{"pend-g1", "pend-f5", "pend-m30", "run-f5"} {
			b := healthyBase()
			b.Node(world.NodeOpt{Name: "odd", CPU: "8", Mem: "16Gi", GPUs: 2, GPUMemMiB: 40000})
			b.GQueue("qm", "ok-dept", 1, -1, 1)
			switch wl {
			case "pend-g1":
				b.Workload(world.WL{Name: "m", Queue: "qm", Pods: pods(2, shG1, "", "")})
			case "pend-f5":
				b.Workload(world.WL{Name: "m", Queue: "qm", Pods: pods(2, shF5, "", "")})
			case "pend-m30":
				b.Workload(world.WL{Name: "m", Queue: "qm", Pods: pods(2, shM30, "", "")})
			case "run-f5":
				b.Workload(world.WL{Name: "m", Queue: "qm", Pods: []world.PodSpec{{Shape: shF5, State: world.StRunning, Node: "odd"}, {Shape: shF5}}})
			}
			w := b.Done()
			nm.f(w.Node("odd"))
			add("node", fmt.Sprintf("node %s + %s", nm.tag, wl), w)
		}
	}
	// (e) dangling references
	{
		b := healthyBase()
		b.Workload(world.WL{Name: "m", Queue: "ok-q", PC: "no-such-priority-class", Pods: pods(1, shG1, "", "")})
		add("dangling", "unknown priority class", b.Done())
		b = healthyBase()
		w := b.Done()
		w.Pods = append(w.Pods, world.MkPod(world.PodOpt{Name: "orphan", Group: "no-such-group", Shape: shG1}))
		w.Pods = append(w.Pods, world.MkPod(world.PodOpt{Name: "nogroup", Shape: shG1}))
		add("dangling", "pods without / with unknown pod group", w)
		b = healthyBase()
		w = b.Done()
		w.BindRequests = append(w.BindRequests, world.MkBindRequest(world.MkPod(world.PodOpt{Name: "ghost-pod", Shape: shG1}), "ok-node", nil, "Regular", "0", 1))
		add("dangling", "bind request for unknown pod", w)
		b = healthyBase()
		w = b.Done()
		w.Pods = append(w.Pods, world.MkReservationPod("ok-node", "lonely-group", 0))
		w.Pods = append(w.Pods, world.MkReservationPod("ghost", "ghost-group", 0))
		add("dangling", "reservation pods without consumers / on unknown node", w)
		b = healthyBase()
		b.Workload(world.WL{Name: "m", Queue: "ok-q", Topology: &schedv2alpha2.TopologyConstraint{Topology: "no-such-topology", RequiredTopologyLevel: "rack"}, Pods: pods(1, shG1, "", "")})
		add("dangling", "unknown topology", b.Done())
	}
	return out
}

type c10Result struct {
	Done       int      `json:"done"`
	Name       string   `json:"name"`
	Class      string   `json:"class"`
	Panic      string   `json:"panic,omitempty"`
	OpenErr    string   `json:"open_err,omitempty"`
	HealthyOK  bool     `json:"healthy_ok"`
	Decisions  []string `json:"decisions,omitempty"`
	HarnessErr string   `json:"harness_err,omitempty"`
	CPUms      int64    `json:"cpu_ms"`
}

func runC10(tier string) int {
	inputs := c10Inputs(tier)
	shard, n, isWorker := engine.WorkerShard()
	if isWorker {
		wd := engine.StartCPUWatchdog(10 * time.Second)
		for i := engine.ResumeFrom(); i < len(inputs); i++ {
			if i%n != shard {
				continue
			}
			in := inputs[i]
			engine.Emit(map[string]int{"start": i})
			engine.FlushEmit()
			wd.Reset()
			t0 := time.Now()
			r := c10Result{Done: i, Name: in.Name, Class: in.Class}
			res, err := schedrun.RunCycle(in.World, in.Cfg, nil)
			if err != nil {
				r.HarnessErr = err.Error()
			} else {
				r.Panic = res.Panic
				if res.OpenErr != nil {
					r.OpenErr = res.OpenErr.Error()
				}
				for _, d := range res.Decisions {
					r.Decisions = append(r.Decisions, d.String())
					if d.Kind == "bind" && d.Pod == "ok-0" && !d.Failed {
						r.HealthyOK = true
					}
				}
			}
			r.CPUms = time.Since(t0).Milliseconds()
			engine.Emit(r)
			engine.FlushEmit()
		}
		engine.Emit(map[string]bool{"finished": true})
		engine.FlushEmit()
		return 0
	}

	start := time.Now()
	rep := engine.NewReporter("C10")
	classes := map[string]int{}
	outcomes := map[string]bool{}
	var samples []any
	completed, healthy := 0, 0
	harnessErr := ""
	mkReplay := func(i int) any {
		return map[string]any{"input_index": i, "input": inputs[i].Name, "config": inputs[i].Cfg, "world": json.RawMessage(inputs[i].World.JSON())}
	}
	workers := 12
	engine.MaxDeaths = 12
	err := engine.RunResumableWorkers(workers, len(inputs), 4*1024*1024, func(w int, line []byte) {
		var r c10Result
		if json.Unmarshal(line, &r) != nil || r.Name == "" {
			return
		}
		completed++
		classes[r.Class]++
		oc := fmt.Sprintf("%s|panic=%v|openerr=%v|healthy=%v|n=%d", r.Class, r.Panic != "", r.OpenErr != "", r.HealthyOK, len(r.Decisions))
		outcomes[oc] = true
		if len(samples) < 8 && completed%97 == 1 {
			samples = append(samples, map[string]any{"input": r.Name, "decisions": r.Decisions, "healthy_workload_bound": r.HealthyOK})
		}
		if r.HarnessErr != "" && harnessErr == "" {
			harnessErr = r.Name + ": " + r.HarnessErr
		}
		if r.Panic != "" {
			first := strings.SplitN(r.Panic, "\n", 2)[0]
			rep.Add(engine.Violation{Property: "C10", Key: "C10/panic class=" + r.Class + " " + panicSite(r.Panic), Message: fmt.Sprintf("input %q: scheduler panicked: %s", r.Name, first), Replay: mkReplay(r.Done)})
		} else if r.HealthyOK {
			healthy++
		} else if inputs[r.Done].Tight || inputs[r.Done].NoHealthyReq {
			// completed; placement of the healthy workload is not required under scarcity
		} else {
			why := "healthy-workload-not-scheduled"
			if r.OpenErr != "" {
				why = "session-open-failed"
			}
			rep.Add(engine.Violation{Property: "C10", Key: "C10/" + why + " class=" + r.Class, Message: fmt.Sprintf("input %q: the untouched healthy workload was not bound (open error: %q, decisions: %v)", r.Name, r.OpenErr, r.Decisions), Replay: mkReplay(r.Done)})
		}
	}, func(d engine.Death) {
		in := inputs[d.Item]
		classes[in.Class]++
		why := "crash"
		if strings.Contains(d.Stderr, "CPU-WATCHDOG") {
			why = "does-not-terminate"
		} else if strings.Contains(d.Stderr, "out of memory") || strings.Contains(d.Stderr, "cannot allocate") {
			why = "memory-blowup"
		}
		outcomes[in.Class+"|died|"+why] = true
		tail := d.Stderr
		if len(tail) > 400 {
			tail = tail[len(tail)-400:]
		}
		rep.Add(engine.Violation{Property: "C10", Key: "C10/" + why + " class=" + in.Class, Message: fmt.Sprintf("input %q: the cycle did not complete (%s; %s): %s", in.Name, why, d.Reason, tail), Replay: mkReplay(d.Item)})
	})
	if err != nil {
		fmt.Fprintln(os.Stderr, "harness error:", err)
		return 2
	}
	if harnessErr != "" {
		fmt.Fprintln(os.Stderr, "harness error:", harnessErr)
		return 2
	}
	ck := []string{}
	for k, v := range classes {
		ck = append(ck, fmt.Sprintf("%s=%d", k, v))
	}
	sort.Strings(ck)
	code := rep.Finish()
	cov := map[string]any{
		"evaluations": len(inputs), "distinct_nontrivial": len(outcomes),
		"rule":              "inputs = every parent function on 3 queues over {root,q0,q1,q2,missing} x 2 workload placements; every sub-group parent graph on 3 sub-groups x minMember {-1,0,1,5}; duplicate/case-differing sub-group names x missing queue; flat groups x minMember x {zero pods, pods on unknown nodes}; 3 GPU annotations x a list of malformed number literals x {pending, running}; 10 malformed MIG resource names x {pending, running} x {advertised by a node or not}; 16 malformed nodes x 4 workloads; dangling references; all of these under 2 scheduler configurations (default; spread+signatures+consolidating reclaim); project-level fairness (fullHierarchyFairness=false) x queue names {q0,q1,q2} / {default,q1,q2} x every parent function over {root,n0,n1,n2,default,missing} x 2 placements x roomy/tight. Each input + one healthy queue/workload/node runs through ONE real scheduler cycle in a worker with a 10 s CPU watchdog and ulimit -v 4G; an input on which the worker dies is re-run first in a fresh worker and reported only if the death repeats. distinct_nontrivial = distinct (input class, panic?, open error?, healthy workload bound?, number of decisions) outcomes",
		"samples":           samples,
		"inputs_per_class":  ck,
		"cycles_completed":  completed,
		"worker_deaths_retried_in_fresh_process": engine.RetriedDeaths,
		"healthy_scheduled": healthy,
		"exhaustive":        !engine.DeathsCapped,
		"stopped_after_confirmed_worker_deaths": engine.DeathsCapped,
		"states":            len(inputs), "transitions": completed, "traces_validated_against_impl": completed,
	}
	if len(rep.KnownHits()) > 0 {
		cov["known_finding_hits"] = rep.KnownHits()
	}
	_ = engine.WriteEvidence(&engine.Evidence{PropertyID: "C10", Tier: tier, Seed: engine.SeedFromEnv(), Level: "model_checking", Coverage: cov,
		Assumptions: []string{"one cycle per input with the default action list and plugins; DRA and CSI objects absent", "CPU-time (not wall-clock) budget of 10 s per cycle, ~1000x a normal cycle"},
		WallS:       time.Since(start).Seconds(), Violations: rep.NewCount()})
	fmt.Printf("C10 %s: inputs=%d completed=%d healthy-scheduled=%d outcomes=%d classes=%v wall=%.1fs\n", tier, len(inputs), completed, healthy, len(outcomes), ck, time.Since(start).Seconds())
	if healthy == 0 {
		fmt.Fprintln(os.Stderr, "harness error: vacuous (healthy workload never scheduled)")
		return 2
	}
	return code
}

// panicSite extracts the first repo frame of a panic trace as a stable call-site id.
func panicSite(trace string) string {
	for _, l := range strings.Split(trace, "\n") {
		l = strings.TrimSpace(l)
		if strings.HasPrefix(l, "github.com/NVIDIA/KAI-scheduler/") {
			if i := strings.Index(l, "("); i > 0 {
				l = l[:i]
			}
			return "site=" + strings.TrimPrefix(l, "github.com/NVIDIA/KAI-scheduler/pkg/")
		}
	}
	return "site=unknown"
}

func replayC10(path string) int {
	b, err := os.ReadFile(path)
	if err != nil {
		fmt.Fprintln(os.Stderr, err)
		return 2
	}
	var v struct {
		Replay struct {
			World  json.RawMessage `json:"world"`
			Input  string          `json:"input"`
			Config schedrun.Config `json:"config"`
		} `json:"replay"`
	}
	if err := json.Unmarshal(b, &v); err != nil {
		fmt.Fprintln(os.Stderr, err)
		return 2
	}
	w, err := world.FromJSON(v.Replay.World)
	if err != nil {
		fmt.Fprintln(os.Stderr, err)
		return 2
	}
	engine.StartCPUWatchdog(20 * time.Second)
	res, err := schedrun.RunCycle(w, v.Replay.Config, nil)
	if err != nil {
		fmt.Fprintln(os.Stderr, err)
		return 2
	}
	ok := false
	for _, d := range res.Decisions {
		fmt.Println("  decision:", d)
		if d.Kind == "bind" && d.Pod == "ok-0" {
			ok = true
		}
	}
	if res.Panic != "" || !ok {
		fmt.Printf("VIOLATION property=C10 replay=%s\n  panic=%q healthy-bound=%v\n", path, strings.SplitN(res.Panic, "\n", 2)[0], ok)
		return 1
	}
	fmt.Println("replay: cycle completed, healthy workload bound")
	return 0
}

func init() {
	registry.Register("C10", runC10, replayC10)
}
