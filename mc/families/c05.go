package families

import (
	"strings"
	"verif/mc/clustermc"
	"verif/mc/oracle"
	"verif/mc/schedrun"
	"verif/mc/world"
)

func progressMenu() []wlItem {
	shCPU2 := world.Shape{CPUm: 2000, MemMi: 512}
	return []wlItem{
		{"pend-g1-qa", world.WL{Queue: "qa", Pods: pods(1, shG1, "", "")}},
		{"pend-g2-qa", world.WL{Queue: "qa", Pods: pods(1, shG2, "", "")}},
		{"pend-gang2-qa", world.WL{Queue: "qa", MinMember: 2, Pods: pods(2, shG1, "", "")}},
		{"pend-gang3-qb", world.WL{Queue: "qb", MinMember: 3, Pods: pods(3, shG1, "", "")}},
		{"pend-elastic3min1-qb", world.WL{Queue: "qb", MinMember: 1, Pods: pods(3, shG1, "", "")}},
		{"pend-f5-qa", world.WL{Queue: "qa", Pods: pods(1, shF5, "", "")}},
		{"pend-f7-qb", world.WL{Queue: "qb", Pods: pods(1, shF7, "", "")}},
		{"pend-gang2-f5-qb", world.WL{Queue: "qb", MinMember: 2, Pods: pods(2, shF5, "", "")}},
		{"pend-cpu2-qa", world.WL{Queue: "qa", Pods: pods(1, shCPU2, "", "")}},
		{"pend-cpu2-gang2-qb", world.WL{Queue: "qb", MinMember: 2, Pods: pods(2, shCPU2, "", "")}},
		{"pend-g1-np-qa", world.WL{Queue: "qa", PC: "p100", Pods: pods(1, shG1, "", "")}},
		{"pend-g1-np-qb", world.WL{Queue: "qb", PC: "p100", Pods: pods(1, shG1, "", "")}},
		{"run-g1-qa", world.WL{Queue: "qa", Pods: pods(1, shG1, world.StRunning, "n1")}},
		{"run-f5-qb", world.WL{Queue: "qb", Pods: pods(1, shF5, world.StRunning, "n1")}},
		{"run-g1-np-qb", world.WL{Queue: "qb", PC: "p100", Pods: pods(1, shG1, world.StRunning, "n1")}},
		{"term-g1-qa", world.WL{Queue: "qa", Pods: pods(1, shG1, world.StTerminating, "n1")}},
		{"half-gang2-qa", world.WL{Queue: "qa", MinMember: 2, Pods: []world.PodSpec{{Shape: shG1, State: world.StRunning, Node: "n1"}, {Shape: shG1}}}},
	}
}

func progressQueues() []queueSetup {
	u := world.QUnlimited()
	g := func(q, l, w float64) world.QRes { return world.QRes{Quota: q, Limit: l, Weight: w} }
	mk := func(tag string, qs ...world.QueueOpt) queueSetup {
		return queueSetup{tag, func(b *world.Builder) {
			for _, q := range qs {
				q.CPU, q.Mem = u, u
				b.Queue(q)
			}
		}}
	}
	return []queueSetup{
		mk("dept/qa-q1/qb-q1", world.QueueOpt{Name: "dept", GPU: g(-1, -1, 1)}, world.QueueOpt{Name: "qa", Parent: "dept", GPU: g(1, -1, 1)}, world.QueueOpt{Name: "qb", Parent: "dept", GPU: g(1, -1, 1)}),
		mk("dept-l2/qa-q1-l1/qb-q0", world.QueueOpt{Name: "dept", GPU: g(-1, 2, 1)}, world.QueueOpt{Name: "qa", Parent: "dept", GPU: g(1, 1, 1)}, world.QueueOpt{Name: "qb", Parent: "dept", GPU: g(0, -1, 1)}),
		mk("flat/qa-q0/qb-q2", world.QueueOpt{Name: "qa", GPU: g(0, -1, 1)}, world.QueueOpt{Name: "qb", GPU: g(2, -1, 1)}),
	}
}

// elasticPipelinedScenarios: elastic workloads whose FIRST round is only nominated (the sharing /
// bin-packing scores prefer capacity that a terminating pod still holds) while further pods of the
// same workload fit on idle capacity elsewhere: the allocate action has to come back to the workload.
func elasticPipelinedScenarios(tier string) []clustermc.Scenario {
	menu := []wlItem{
		{"pend-elastic2min1-f5-qa", world.WL{Queue: "qa", MinMember: 1, Pods: pods(2, shF5, "", "")}},
		{"pend-elastic3min1-f5-qa", world.WL{Queue: "qa", MinMember: 1, Pods: pods(3, shF5, "", "")}},
		{"pend-elastic2min1-g1-qa", world.WL{Queue: "qa", MinMember: 1, Pods: pods(2, shG1, "", "")}},
		// multi-device fractions (2 x 0.5, 3 x 0.3): portion x devices is NOT the number of devices
		{"pend-mf2-qa", world.WL{Queue: "qa", Pods: pods(1, shMF2, "", "")}},
		{"pend-mf3x03-qa", world.WL{Queue: "qa", Pods: pods(1, world.Shape{CPUm: 500, Fraction: "0.3", NumDev: "3"}, "", "")}},
		{"run-f5+term-f5-samegroup-qb", world.WL{Queue: "qb", MinMember: 1, Pods: []world.PodSpec{
			{Shape: shF5, State: world.StRunning, Node: "n1", Groups: []string{"A"}}, {Shape: shF5, State: world.StTerminating, Node: "n1", Groups: []string{"A"}}}}},
		{"term-f5-qb", world.WL{Queue: "qb", Pods: pods(1, shF5, world.StTerminating, "n1")}},
		{"term-g1-qb", world.WL{Queue: "qb", Pods: pods(1, shG1, world.StTerminating, "n1")}},
		{"run-f5-qb", world.WL{Queue: "qb", Pods: pods(1, shF5, world.StRunning, "n1")}},
	}
	lay := []nodeLayout{
		{"2n-1+1gpu", []world.NodeOpt{{Name: "n1", CPU: "4", Mem: "8Gi", GPUs: 1, GPUMemMiB: 40000}, {Name: "n2", CPU: "4", Mem: "8Gi", GPUs: 1, GPUMemMiB: 40000}}},
		{"2n-2+1gpu", []world.NodeOpt{{Name: "n1", CPU: "4", Mem: "8Gi", GPUs: 2, GPUMemMiB: 40000}, {Name: "n2", CPU: "4", Mem: "8Gi", GPUs: 1, GPUMemMiB: 40000}}},
		{"2n-3+1gpu", []world.NodeOpt{{Name: "n1", CPU: "4", Mem: "8Gi", GPUs: 3, GPUMemMiB: 40000}, {Name: "n2", CPU: "4", Mem: "8Gi", GPUs: 1, GPUMemMiB: 40000}}},
	}
	cfgs := []schedrun.Config{{}, {Placement: "spread", NoConsolidation: true, ConsolidatingReclaim: true}, {GpuSpread: true}}
	kMax := 3
	if tier == "thorough" {
		kMax = 4
	}
	var out []clustermc.Scenario
	for _, sc := range wlScenariosRange(menu, lay, progressQueues()[:1], cfgs, 1, kMax) {
		if strings.Contains(sc.Name, "pend-elastic") || strings.Contains(sc.Name, "pend-mf") {
			sc.Name = "elastic-pipelined:" + sc.Name
			out = append(out, sc)
		}
	}
	return out
}

func displacementScenarios() []clustermc.Scenario {
	// (ii) interchangeable single-pod 1-GPU workloads on full interchangeable nodes, one pending
	var out []clustermc.Scenario
	type victim struct{ q, pc string }
	victimSets := [][]victim{
		{{"qb", "p50"}, {"qb", "p50"}},
		{{"qa", "p50"}, {"qb", "p50"}},
		{{"qa", "p50"}, {"qa", "p50"}},
		{{"qa", "p50"}, {"qb", "p100"}},
		{{"qb", "p50"}, {"qb", "p50"}, {"qc", "p50"}},
		{{"qa", "p75"}, {"qb", "p50"}, {"qc", "p50"}},
		{{"qc", "p50"}, {"qc", "p50"}, {"qc", "p50"}},
	}
	pendings := []victim{{"qa", "p50"}, {"qa", "p75"}, {"qa", "p125"}, {"qc", "p50"}, {"qb", "p100"}}
	trees := []queueSetup{
		{"flat-q1q1q1", func(b *world.Builder) {
			b.GQueue("qa", "", 1, -1, 1).GQueue("qb", "", 1, -1, 1).GQueue("qc", "", 1, -1, 1)
		}},
		{"2lvl-d1(qa1,qb1)-d2(qc1)", func(b *world.Builder) {
			b.GQueue("d1", "", 2, -1, 1).GQueue("d2", "", 1, -1, 1).GQueue("qa", "d1", 1, -1, 1).GQueue("qb", "d1", 1, -1, 1).GQueue("qc", "d2", 1, -1, 1)
		}},
		{"flat-q2q0q1", func(b *world.Builder) {
			b.GQueue("qa", "", 2, -1, 1).GQueue("qb", "", 0, -1, 1).GQueue("qc", "", 1, -1, 1)
		}},
	}
	// a department whose GPU limit (and quota) equals what its leaf queues use: displacement between
	// its own leaf queues does not raise its allocation
	for _, lim := range []float64{2, 3} {
		lim := lim
		trees = append(trees, queueSetup{name("2lvl-d1-limit-quota", []int{int(lim)}) + "(qa1,qb0)-d2(qc1)", func(b *world.Builder) {
			b.GQueue("d1", "", lim, lim, 1).GQueue("d2", "", 1, -1, 1).GQueue("qa", "d1", 1, -1, 1).GQueue("qb", "d1", 0, -1, 1).GQueue("qc", "d2", 1, -1, 1)
		}})
	}
	cfgs := []schedrun.Config{{}, {Placement: "spread", NoConsolidation: true, ConsolidatingReclaim: true}, {Signatures: true}}
	for ti, tr := range trees {
		for vi, vs := range victimSets {
			for pi, pd := range pendings {
				for _, twoNodes := range []bool{false, true} {
					b := world.NewBuilder()
					if twoNodes && len(vs) >= 2 {
						b.Node(world.NodeOpt{Name: "n1", CPU: "16", Mem: "32Gi", GPUs: len(vs) - 1, GPUMemMiB: 40000})
						b.Node(world.NodeOpt{Name: "n2", CPU: "16", Mem: "32Gi", GPUs: 1, GPUMemMiB: 40000})
					} else {
						b.Node(world.NodeOpt{Name: "n1", CPU: "16", Mem: "32Gi", GPUs: len(vs), GPUMemMiB: 40000})
					}
					tr.add(b)
					for i, v := range vs {
						node := "n1"
						if twoNodes && len(vs) >= 2 && i == len(vs)-1 {
							node = "n2"
						}
						b.Workload(world.WL{Name: name("v", []int{i}), Queue: v.q, PC: v.pc, Pods: pods(1, shG1, world.StRunning, node)})
					}
					b.Workload(world.WL{Name: "p", Queue: pd.q, PC: pd.pc, Pods: pods(1, shG1, "", "")})
					out = append(out, clustermc.Scenario{Name: name("displace", []int{ti, vi, pi, btoi(twoNodes)}), World: b.Done(), Configs: cfgs})
				}
			}
		}
	}
	// several pending workloads: one whose queue holds no victim next to one whose queue does
	type pair struct{ vs, ps []victim }
	pairs := []pair{
		{[]victim{{"qa", "p75"}, {"qa", "p75"}, {"qb", "p50"}, {"qb", "p50"}}, []victim{{"qa", "p75"}, {"qb", "p75"}}},
		{[]victim{{"qb", "p75"}, {"qb", "p75"}, {"qa", "p50"}, {"qa", "p50"}}, []victim{{"qa", "p75"}, {"qb", "p75"}}},
		{[]victim{{"qa", "p50"}, {"qb", "p50"}}, []victim{{"qa", "p75"}, {"qb", "p75"}}},
		{[]victim{{"qa", "p100"}, {"qb", "p50"}}, []victim{{"qa", "p75"}, {"qb", "p75"}}},
		{[]victim{{"qa", "p75"}, {"qb", "p50"}, {"qc", "p50"}}, []victim{{"qa", "p75"}, {"qb", "p75"}, {"qc", "p75"}}},
		{[]victim{{"qa", "p75"}, {"qb", "p75"}, {"qc", "p50"}}, []victim{{"qa", "p75"}, {"qb", "p75"}, {"qc", "p75"}}},
		{[]victim{{"qc", "p75"}, {"qb", "p75"}, {"qa", "p50"}}, []victim{{"qa", "p125"}, {"qb", "p75"}, {"qc", "p75"}}},
		{[]victim{{"qa", "p50"}, {"qa", "p50"}, {"qb", "p75"}}, []victim{{"qa", "p75"}, {"qa", "p75"}, {"qb", "p75"}}},
	}
	for ti, tr := range trees {
		for pi, pr := range pairs {
			for _, twoNodes := range []bool{false, true} {
				b := world.NewBuilder()
				half := len(pr.vs) / 2
				if twoNodes && half >= 1 {
					b.Node(world.NodeOpt{Name: "n1", CPU: "16", Mem: "32Gi", GPUs: len(pr.vs) - half, GPUMemMiB: 40000})
					b.Node(world.NodeOpt{Name: "n2", CPU: "16", Mem: "32Gi", GPUs: half, GPUMemMiB: 40000})
				} else {
					b.Node(world.NodeOpt{Name: "n1", CPU: "16", Mem: "32Gi", GPUs: len(pr.vs), GPUMemMiB: 40000})
				}
				tr.add(b)
				for i, v := range pr.vs {
					node := "n1"
					if twoNodes && half >= 1 && i >= len(pr.vs)-half {
						node = "n2"
					}
					b.Workload(world.WL{Name: name("v", []int{i}), Queue: v.q, PC: v.pc, Pods: pods(1, shG1, world.StRunning, node)})
				}
				for i, pd := range pr.ps {
					b.Workload(world.WL{Name: name("p", []int{i}), Queue: pd.q, PC: pd.pc, Pods: pods(1, shG1, "", "")})
				}
				out = append(out, clustermc.Scenario{Name: name("displace-many", []int{ti, pi, btoi(twoNodes)}), World: b.Done(),
					Configs: append(append([]schedrun.Config{}, cfgs...), schedrun.Config{Signatures: true, Placement: "spread", MapSeed: 3})})
			}
		}
	}
	return out
}

func btoi(b bool) int {
	if b {
		return 1
	}
	return 0
}

func C05() *clustermc.Family {
	return &clustermc.Family{
		Property: "C05",
		Scenarios: func(tier string) []clustermc.Scenario {
			lay := []nodeLayout{
				{"1n-2gpu", []world.NodeOpt{{Name: "n1", CPU: "4", Mem: "8Gi", GPUs: 2, GPUMemMiB: 40000}}},
				{"2n-2+1gpu", []world.NodeOpt{{Name: "n1", CPU: "4", Mem: "8Gi", GPUs: 2, GPUMemMiB: 40000}, {Name: "n2", CPU: "3", Mem: "8Gi", GPUs: 1, GPUMemMiB: 40000}}},
			}
			if tier == "thorough" {
				lay = append(lay, nodeLayout{"3n-1+1+2gpu", []world.NodeOpt{{Name: "n1", CPU: "4", Mem: "8Gi", GPUs: 1, GPUMemMiB: 40000}, {Name: "n2", CPU: "3", Mem: "8Gi", GPUs: 1, GPUMemMiB: 40000}, {Name: "n3", CPU: "4", Mem: "8Gi", GPUs: 2, GPUMemMiB: 40000}}})
			}
			cfgs := []schedrun.Config{{}, {Placement: "spread", NoConsolidation: true, ConsolidatingReclaim: true}, {Signatures: true}, {Placement: "spread", Signatures: true, MapSeed: 3, ConsolidatingReclaim: true}}
			out := wlScenarios(tier, progressMenu(), lay, progressQueues(), cfgs, 3, 4)
			out = append(out, displacementScenarios()...)
			out = append(out, elasticPipelinedScenarios(tier)...)
			return out
		},
		Depth: func(tier string) int {
			if tier == "thorough" {
				return 3
			}
			return 2
		},
		Env:     clustermc.EnvOpts{BindOK: true, Terminate: true},
		Oracles: []clustermc.Oracle{oracle.WorkConservationOracle(), oracle.DisplacementOracle(), oracle.MultiPendingPreemptOracle()},
		Vacuity: func(x map[string]int) string {
			if x["displacement_cases"] < 50 {
				return "too few displacement cases"
			}
			if x["multi_pending_displacement_cases"] < 20 {
				return "too few displacement cases with several pending workloads"
			}
			if x["pending_does_not_fit"] < 100 {
				return "work-conservation oracle rarely exercised"
			}
			return ""
		},
	}
}
