package families

import (
	corev1 "k8s.io/api/core/v1"

	"verif/mc/clustermc"
	"verif/mc/oracle"
	"verif/mc/schedrun"
	"verif/mc/world"
)

func victimMenu() []wlItem {
	var m []wlItem
	// running victims on n1: preemptibility x priority x queue x last-start
	type v struct {
		tag, q, pc, pre, ls string
	}
	vs := []v{
		{"run-p50-qa", "qa", "p50", "", ""},
		{"run-p50-qa-recent", "qa", "p50", "", "fresh"},
		{"run-p50-qb-old", "qb", "p50", "", "old"},
		{"run-p50-qb-recent", "qb", "p50", "", "fresh"},
		{"run-p100-qb", "qb", "p100", "", ""},
		{"run-p50-np-qb", "qb", "p50", "non-preemptible", ""},
		{"run-p100-pre-qb", "qb", "p100", "preemptible", ""},
		{"run-p75-qa", "qa", "p75", "", ""},
		{"run-p50-qc-recent", "qc", "p50", "", "fresh"},
	}
	for _, x := range vs {
		m = append(m, wlItem{x.tag, world.WL{Queue: x.q, PC: x.pc, Preemptibility: x.pre, LastStart: x.ls, Pods: pods(1, shG1, world.StRunning, "n1")}})
	}
	m = append(m, wlItem{"run-elastic2min1-qb-recent", world.WL{Queue: "qb", PC: "p50", LastStart: "fresh", MinMember: 1, Pods: pods(2, shG1, world.StRunning, "n1")}})
	m = append(m, wlItem{"run-gang2-qb-recent", world.WL{Queue: "qb", PC: "p50", LastStart: "fresh", MinMember: 2, Pods: pods(2, shG1, world.StRunning, "n1")}})
	m = append(m, wlItem{"run-f5-qb", world.WL{Queue: "qb", PC: "p50", Pods: pods(1, shF5, world.StRunning, "n1")}})
	// pending preemptors / reclaimers
	m = append(m, wlItem{"pend-p50-qa", world.WL{Queue: "qa", PC: "p50", Pods: pods(1, shG1, "", "")}})
	m = append(m, wlItem{"pend-p75-qa", world.WL{Queue: "qa", PC: "p75", Pods: pods(1, shG1, "", "")}})
	m = append(m, wlItem{"pend-p125-qa", world.WL{Queue: "qa", PC: "p125", Pods: pods(1, shG1, "", "")}})
	m = append(m, wlItem{"pend-gang2-p75-qb", world.WL{Queue: "qb", PC: "p75", MinMember: 2, Pods: pods(2, shG1, "", "")}})
	m = append(m, wlItem{"pend-p50-qc", world.WL{Queue: "qc", PC: "p50", Pods: pods(1, shG1, "", "")}})
	return m
}

func victimQueues() []queueSetup {
	mk := func(tag, qbReclaim, dept2Reclaim, qaPreempt, deptPreempt string) queueSetup {
		return queueSetup{tag, func(b *world.Builder) {
			b.Queue(world.QueueOpt{Name: "dept", GPU: world.QRes{Quota: -1, Limit: -1, Weight: 1}, CPU: world.QUnlimited(), Mem: world.QUnlimited(), PreemptMinRT: deptPreempt})
			b.Queue(world.QueueOpt{Name: "dept2", GPU: world.QRes{Quota: 1, Limit: -1, Weight: 1}, CPU: world.QUnlimited(), Mem: world.QUnlimited(), ReclaimMinRT: dept2Reclaim})
			b.Queue(world.QueueOpt{Name: "qa", Parent: "dept", GPU: world.QRes{Quota: 1, Limit: -1, Weight: 1}, CPU: world.QUnlimited(), Mem: world.QUnlimited(), PreemptMinRT: qaPreempt})
			b.Queue(world.QueueOpt{Name: "qb", Parent: "dept", GPU: world.QRes{Quota: 1, Limit: -1, Weight: 1}, CPU: world.QUnlimited(), Mem: world.QUnlimited(), ReclaimMinRT: qbReclaim})
			b.Queue(world.QueueOpt{Name: "qc", Parent: "dept2", GPU: world.QRes{Quota: 1, Limit: -1, Weight: 1}, CPU: world.QUnlimited(), Mem: world.QUnlimited()})
		}}
	}
	return []queueSetup{
		mk("no-minrt", "", "", "", ""),
		mk("qb-reclaim1000h", "1000h", "", "", ""),
		mk("dept2-reclaim1000h+qa-preempt1000h", "", "1000h", "1000h", ""),
		mk("dept-preempt1000h+qb-reclaim0", "0s", "", "", "1000h"),
	}
}

// deepMinRuntimeScenarios: a 3-level tree in which the queue that protects a victim against a
// reclaimer (the child of their lowest common ancestor) is NOT the victim's leaf queue, with every
// assignment of {none, 0s, 1000h} to the victim's project and team queues.
func deepMinRuntimeScenarios(tier string) []clustermc.Scenario {
	menu := []wlItem{
		{"run-tb-recent", world.WL{Queue: "tb", PC: "p50", LastStart: "fresh", Pods: pods(1, shG1, world.StRunning, "n1")}},
		{"run-tb-old", world.WL{Queue: "tb", PC: "p50", LastStart: "old", Pods: pods(1, shG1, world.StRunning, "n1")}},
		{"run-tb2-recent", world.WL{Queue: "tb2", PC: "p50", LastStart: "fresh", Pods: pods(1, shG1, world.StRunning, "n1")}},
		{"pend-ta", world.WL{Queue: "ta", PC: "p50", Pods: pods(1, shG1, "", "")}},
		{"pend-tb2", world.WL{Queue: "tb2", PC: "p50", Pods: pods(1, shG1, "", "")}},
		{"pend-tc", world.WL{Queue: "tc", PC: "p50", Pods: pods(1, shG1, "", "")}},
	}
	var qsets []queueSetup
	vals := []string{"", "0s", "1000h"}
	for _, dept := range []string{"", "1000h"} {
		for _, pb := range vals {
			for _, tb := range vals {
				dept, pb, tb := dept, pb, tb
				u := world.QUnlimited()
				g := func(q float64) world.QRes { return world.QRes{Quota: q, Limit: -1, Weight: 1} }
				qsets = append(qsets, queueSetup{"3lvl-dept[" + dept + "]-pb[" + pb + "]-tb[" + tb + "]", func(b *world.Builder) {
					b.Queue(world.QueueOpt{Name: "dept", GPU: g(-1), CPU: u, Mem: u, ReclaimMinRT: dept})
					b.Queue(world.QueueOpt{Name: "dept2", GPU: g(1), CPU: u, Mem: u})
					b.Queue(world.QueueOpt{Name: "pa", Parent: "dept", GPU: g(1), CPU: u, Mem: u})
					b.Queue(world.QueueOpt{Name: "pb", Parent: "dept", GPU: g(0), CPU: u, Mem: u, ReclaimMinRT: pb})
					b.Queue(world.QueueOpt{Name: "pc", Parent: "dept2", GPU: g(1), CPU: u, Mem: u})
					b.Queue(world.QueueOpt{Name: "ta", Parent: "pa", GPU: g(1), CPU: u, Mem: u})
					b.Queue(world.QueueOpt{Name: "tb", Parent: "pb", GPU: g(0), CPU: u, Mem: u, ReclaimMinRT: tb})
					b.Queue(world.QueueOpt{Name: "tb2", Parent: "pb", GPU: g(0), CPU: u, Mem: u})
					b.Queue(world.QueueOpt{Name: "tc", Parent: "pc", GPU: g(1), CPU: u, Mem: u})
				}})
			}
		}
	}
	lay := []nodeLayout{{"1n-2gpu", []world.NodeOpt{{Name: "n1", CPU: "16", Mem: "32Gi", GPUs: 2, GPUMemMiB: 40000}}}}
	return wlScenarios(tier, menu, lay, qsets, []schedrun.Config{{}}, 3, 4)
}

// movableProtectedScenarios: victims inside their min-runtime whose pods the solver could all RE-PLACE
// on a second node (no victim "stays evicted"), next to reclaimers / preemptors pinned to the first
// node. A protected workload at its minimum size (elastic on paper: its extra pod is gated or pending)
// must not be touched however the victims end up; one above its minimum may lose the surplus only.
func movableProtectedScenarios(tier string) []clustermc.Scenario {
	pin := func(ps []world.PodSpec, pool string) []world.PodSpec {
		for i := range ps {
			ps[i].Mutate = func(p *corev1.Pod) { p.Spec.NodeSelector = map[string]string{"pool": pool} }
		}
		return ps
	}
	menu := []wlItem{
		{"run-2of3min2-gated-qb-recent", world.WL{Queue: "qb", LastStart: "fresh", MinMember: 2, Pods: append(pods(2, shG1, world.StRunning, "n1"), pods(1, shG1, world.StGated, "")...)}},
		{"run-2of3min2-pending-qb-recent", world.WL{Queue: "qb", LastStart: "fresh", MinMember: 2, Pods: append(pods(2, shG1, world.StRunning, "n1"), pin(pods(1, shG1, "", ""), "none")...)}},
		{"run-gang2-qb-recent", world.WL{Queue: "qb", LastStart: "fresh", MinMember: 2, Pods: pods(2, shG1, world.StRunning, "n1")}},
		{"run-elastic2min1-qb-recent", world.WL{Queue: "qb", LastStart: "fresh", MinMember: 1, Pods: pods(2, shG1, world.StRunning, "n1")}},
		{"run-gang2-qb-old", world.WL{Queue: "qb", LastStart: "old", MinMember: 2, Pods: pods(2, shG1, world.StRunning, "n1")}},
		{"run-g1-qc-n2", world.WL{Queue: "qc", Pods: pods(1, shG1, world.StRunning, "n2")}},
		{"pend-g2-qa-pin-n1", world.WL{Queue: "qa", Pods: pin(pods(1, shG2, "", ""), "a")}},
		{"pend-g1-qa-pin-n1", world.WL{Queue: "qa", Pods: pin(pods(1, shG1, "", ""), "a")}},
		{"pend-g1-p75-qb-pin-n1", world.WL{Queue: "qb", PC: "p75", Pods: pin(pods(1, shG1, "", ""), "a")}},
	}
	lay := []nodeLayout{{"2n-2+2gpu-pools", []world.NodeOpt{
		{Name: "n1", CPU: "16", Mem: "32Gi", GPUs: 2, GPUMemMiB: 40000, Labels: map[string]string{"pool": "a"}},
		{Name: "n2", CPU: "16", Mem: "32Gi", GPUs: 2, GPUMemMiB: 40000, Labels: map[string]string{"pool": "b"}}}}}
	// without the consolidation action (the action list is configuration) the moving is left to the
	// reclaim / preempt solvers themselves
	cfgs := []schedrun.Config{{}, {ConsolidatingReclaim: true}, {ConsolidatingReclaim: true, NoConsolidation: true}, {ConsolidatingReclaim: true, NoConsolidation: true, Placement: "spread"}}
	out := wlScenariosRange(menu, lay, victimQueues(), cfgs, 2, 3)
	for i := range out {
		out[i].Name = "movable-protected:" + out[i].Name
	}
	return out
}

func C06() *clustermc.Family {
	return &clustermc.Family{
		Property: "C06",
		Scenarios: func(tier string) []clustermc.Scenario {
			lay := []nodeLayout{{"1n-2gpu", []world.NodeOpt{{Name: "n1", CPU: "16", Mem: "32Gi", GPUs: 2, GPUMemMiB: 40000}}}}
			if tier == "thorough" {
				lay = append(lay, nodeLayout{"2n-2+1gpu", []world.NodeOpt{{Name: "n1", CPU: "16", Mem: "32Gi", GPUs: 2, GPUMemMiB: 40000}, {Name: "n2", CPU: "16", Mem: "32Gi", GPUs: 1, GPUMemMiB: 40000}}})
			}
			cfgs := []schedrun.Config{{}, {ConsolidatingReclaim: true, Placement: "spread"}}
			out := append(wlScenarios(tier, victimMenu(), lay, victimQueues(), cfgs, 3, 4), deepMinRuntimeScenarios(tier)...)
			return append(out, movableProtectedScenarios(tier)...)
		},
		Depth: func(tier string) int {
			if tier == "thorough" {
				return 3
			}
			return 2
		},
		Env: clustermc.EnvOpts{BindOK: true, Terminate: true},
		// every single eviction failing (API delete) or being refused by the cache in turn: what a
		// statement has already evicted stays committed together with the placement it was made for
		FaultDepth:    func(string) int { return 1 },
		EvictRefusals: true,
		Oracles:       []clustermc.Oracle{oracle.VictimOracle()},
	}
}
